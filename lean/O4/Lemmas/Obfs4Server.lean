import O4.Model.Obfs4Server
import O4.Lemmas.ReplayFilter
/-!
Helper lemmas for C03 / C04 (core only): `math/rand.Intn` range, decimal rendering of the epoch hour is
injective, characterisation of `parseClientHandshake`'s outcomes, invariants of the `WrapConn` machine.
-/
namespace O4.GoRand

theorem rejectLoop_lt {σ : Type} (draw : σ → Nat × σ) (max n : Nat) (hn : 0 < n) :
    ∀ (fuel : Nat) (s : σ) (v : Nat) (s' : σ), rejectLoop draw max n fuel s = some (v, s') → v < n := by
  intro fuel
  induction fuel with
  | zero => intro s v s' h; simp [rejectLoop] at h
  | succ f ih =>
    intro s v s' h
    unfold rejectLoop at h
    simp only at h
    split at h
    · exact ih _ _ _ h
    · simp only [Option.some.injEq, Prod.mk.injEq] at h
      rw [← h.1]; exact Nat.mod_lt _ hn

theorem and_pred_lt (v n : Nat) (hn : 0 < n) : v &&& (n - 1) < n := by
  have := @Nat.and_le_right v (n - 1)
  omega

/-- `Intn(n)` returns a value in `[0, n)` -/
theorem intn_lt {σ : Type} (src : Source σ) (n : Nat) (s : σ) (v : Nat) (s' : σ)
    (h : intn src n s = some (v, s')) : v < n := by
  unfold intn at h
  split at h
  · simp at h
  · rename_i hn
    have hn : 0 < n := by
      rcases Nat.eq_zero_or_pos n with h0 | h0
      · subst h0; simp at hn
      · exact h0
    split at h
    · unfold int31n at h
      split at h
      · simp only [Option.some.injEq, Prod.mk.injEq] at h
        rw [← h.1]; exact and_pred_lt _ _ hn
      · exact rejectLoop_lt _ _ _ hn _ _ _ _ h
    · unfold int63n at h
      split at h
      · simp only [Option.some.injEq, Prod.mk.injEq] at h
        rw [← h.1]; exact and_pred_lt _ _ hn
      · exact rejectLoop_lt _ _ _ hn _ _ _ _ h

end O4.GoRand

namespace O4.Handshake

/-! ## `strconv.FormatInt(h, 10)` is injective -/


theorem ba_loop (bs : ByteArray) (i : Nat) (r : List UInt8) (hi : i ≤ bs.size) :
    ByteArray.toList.loop bs i r = r.reverse ++ bs.data.toList.drop i := by
  have hsz : bs.size = bs.data.toList.length := by
    rw [Array.length_toList]; rfl
  induction h : bs.size - i generalizing i r with
  | zero =>
    unfold ByteArray.toList.loop
    have : ¬ i < bs.size := by omega
    rw [if_neg this]
    have : bs.data.toList.length ≤ i := by omega
    rw [List.drop_eq_nil_of_le this]; simp
  | succ n ih =>
    unfold ByteArray.toList.loop
    have hlt : i < bs.size := by omega
    rw [if_pos hlt, ih (i+1) _ (by omega) (by omega)]
    have hl : i < bs.data.toList.length := by omega
    have : bs.data.toList.drop i = bs.get! i :: bs.data.toList.drop (i+1) := by
      rw [List.drop_eq_getElem_cons hl]
      congr 1
      have hl' : i < bs.data.size := by rw [Array.length_toList] at hl; exact hl
      show _ = bs.data[i]!
      rw [getElem!_pos bs.data i hl']
      simp
    rw [this]; simp

theorem byteArray_toList (bs : ByteArray) : bs.toList = bs.data.toList := by
  unfold ByteArray.toList; rw [ba_loop bs 0 [] (by omega)]; simp

theorem utf8_ofList (l : List Char) :
    (String.ofList l).toUTF8.toList = l.flatMap (fun c => String.utf8EncodeChar c) := by
  simp [String.toUTF8, List.utf8Encode, byteArray_toList]

theorem enc_digit (n : Nat) (h : n < 10) :
    String.utf8EncodeChar (Char.ofNat (48 + n)) = [UInt8.ofNat (48 + n)] := by
  have : n = 0 ∨ n = 1 ∨ n = 2 ∨ n = 3 ∨ n = 4 ∨ n = 5 ∨ n = 6 ∨ n = 7 ∨ n = 8 ∨ n = 9 := by omega
  rcases this with h|h|h|h|h|h|h|h|h|h <;> subst h <;> decide

/-- the decimal digits as bytes -/
def digitBytes : Nat → Nat → Bytes
  | 0, _ => []
  | fuel + 1, n =>
    if n < 10 then [UInt8.ofNat (48 + n)] else digitBytes fuel (n / 10) ++ [UInt8.ofNat (48 + n % 10)]

theorem natDigits_bytes (fuel n : Nat) : natDigits fuel n = digitBytes fuel n := by
  induction fuel generalizing n with
  | zero => rfl
  | succ f ih =>
    unfold natDigits digitBytes
    split
    · rfl
    · rw [ih]

/-- value of a digit string -/
def digitsVal (b : Bytes) : Nat := b.foldl (fun a x => a * 10 + (x.toNat - 48)) 0

theorem digitsVal_append (a : Bytes) (x : UInt8) : digitsVal (a ++ [x]) = digitsVal a * 10 + (x.toNat - 48) := by
  simp [digitsVal, List.foldl_append]

theorem digitsVal_digitBytes (fuel n : Nat) (h : n < fuel) : digitsVal (digitBytes fuel n) = n := by
  induction fuel generalizing n with
  | zero => omega
  | succ f ih =>
    unfold digitBytes
    split
    · rename_i h10
      simp only [digitsVal, List.foldl_cons, List.foldl_nil, UInt8.toNat_ofNat']
      omega
    · rename_i h10
      rw [digitsVal_append, ih (n / 10) (by omega)]
      simp only [UInt8.toNat_ofNat']
      omega

theorem digitBytes_ge (fuel n : Nat) : ∀ x ∈ digitBytes fuel n, 48 ≤ x.toNat := by
  induction fuel generalizing n with
  | zero => intro x hx; simp [digitBytes] at hx
  | succ f ih =>
    intro x hx
    unfold digitBytes at hx
    split at hx
    · simp only [List.mem_singleton] at hx; subst hx; simp only [UInt8.toNat_ofNat']; omega
    · rcases List.mem_append.mp hx with hx | hx
      · exact ih _ x hx
      · simp only [List.mem_singleton] at hx; subst hx; simp only [UInt8.toNat_ofNat']; omega

theorem epochStr_eq (h : Int) :
    epochStr h = if h < 0 then 45 :: digitBytes (h.natAbs + 1) h.natAbs else digitBytes (h.natAbs + 1) h.natAbs := by
  unfold epochStr
  simp only [natDigits_bytes]

/-- **decimal rendering is injective**: `strconv.FormatInt(·, 10)` of two different hours differ -/
theorem epochStr_injective (a b : Int) (h : epochStr a = epochStr b) : a = b := by
  rw [epochStr_eq, epochStr_eq] at h
  have va := digitsVal_digitBytes (a.natAbs + 1) a.natAbs (by omega)
  have vb := digitsVal_digitBytes (b.natAbs + 1) b.natAbs (by omega)
  by_cases ha : a < 0 <;> by_cases hb : b < 0
  · rw [if_pos ha, if_pos hb] at h
    have := (List.cons.inj h).2
    rw [this] at va; omega
  · rw [if_pos ha, if_neg hb] at h
    have : (45 : UInt8) ∈ digitBytes (b.natAbs + 1) b.natAbs := by rw [← h]; simp
    have := digitBytes_ge _ _ _ this
    simp at this
  · rw [if_neg ha, if_pos hb] at h
    have : (45 : UInt8) ∈ digitBytes (a.natAbs + 1) a.natAbs := by rw [h]; simp
    have := digitBytes_ge _ _ _ this
    simp at this
  · rw [if_neg ha, if_neg hb] at h
    rw [h] at va; omega

end O4.Handshake

/-! ## `parseClientHandshake`: unfolding, the MAC loop, the acceptance predicate -/
namespace O4.Handshake
open O4.Consts.Obfs4 O4.Consts.Ntor

/-- the (representative, mark) pair the parser works with on `resp` -/
def cacheOn (P : Prims) (s : Server) (resp : Bytes) : ServerCache :=
  match s.cache with
  | some k => k
  | none => { repr := resp.take representativeLength, mrk := mark P s.idPub s.nodeID (resp.take representativeLength) }

/-- position of `M_C` when it sits at the tail of (the first `maxHandshakeLength` bytes of) `resp` -/
def markPos (P : Prims) (s : Server) (resp : Bytes) : Option Nat :=
  findMarkMac (cacheOn P s resp).mrk resp (representativeLength + clientMinPadLength) maxHandshakeLength true

/-- the handshake state with the cache filled -/
def withCache (P : Prims) (s : Server) (resp : Bytes) : Server := { s with cache := some (cacheOn P s resp) }

def bodyAt (resp : Bytes) (pos : Nat) : Bytes := resp.take (pos + markLength)
def macAt (resp : Bytes) (pos : Nat) : Bytes := (resp.drop (pos + markLength)).take macLength

/-- `ntor.ServerHandshake` succeeded -/
def ntorOf (P : Prims) (s : Server) (k : ServerCache) : Bool × Bytes × Bytes :=
  Ntor.serverHandshake P.toPrims (P.reprToPublic k.repr) s.yPriv s.yPub s.idPriv s.idPub s.nodeID

theorem parse_unfold (P : Prims) (s : Server) (f : RF.Filter) (H now : Int) (resp : Bytes) :
    parseClientHandshake P s f H now resp =
      if resp.length < clientMinHandshakeLength then (s, f, .err .markNotFoundYet) else
      match markPos P s resp with
      | none =>
        if resp.length ≥ maxHandshakeLength then (withCache P s resp, f, .err .invalidHandshake)
        else (withCache P s resp, f, .err .markNotFoundYet)
      | some pos =>
        match macLoop P (withCache P s resp) (bodyAt resp pos) (macAt resp pos) H now [0, -1, 1] f none with
        | (f', .error ()) => (withCache P s resp, f', .err .replayed)
        | (f', .ok none) => (withCache P s resp, f', .err .invalidHandshake)
        | (f', .ok (some h)) =>
          if resp.length ≠ pos + markLength + macLength then
            ({ withCache P s resp with hour := some h }, f', .err .invalidHandshake)
          else if !(ntorOf P s (cacheOn P s resp)).1 then
            ({ withCache P s resp with hour := some h }, f', .err .ntorFailed)
          else
            ({ withCache P s resp with hour := some h, auth := some (ntorOf P s (cacheOn P s resp)).2.2 }, f',
              .ok (ntorOf P s (cacheOn P s resp)).2.1) := by
  rfl

end O4.Handshake

namespace O4.Handshake
open O4.Consts.Obfs4 O4.Consts.Ntor

/-- the loop's verdict is one of three -/
theorem macLoop_cases (P : Prims) (s : Server) (body macRx : Bytes) (H now : Int) (offs : List Int)
    (f : RF.Filter) (found : Option Int) :
    let r := macLoop P s body macRx H now offs f found
    r.2 = .error () ∨ r.2 = .ok none ∨ ∃ h, r.2 = .ok (some h) := by
  intro r
  rcases hr : r.2 with e | o
  · left; cases e; rfl
  · cases o with
    | none => right; left; rfl
    | some h => right; right; exact ⟨h, rfl⟩

/-- no offset matches ⇒ nothing is submitted to the filter and nothing is found -/
theorem macLoop_no_match (P : Prims) (s : Server) (body macRx : Bytes) (H now : Int) (offs : List Int)
    (f : RF.Filter) (found : Option Int)
    (hno : ∀ off ∈ offs, mac P s.idPub s.nodeID body (H + off) ≠ macRx) :
    macLoop P s body macRx H now offs f found = (f, .ok found) := by
  induction offs generalizing f found with
  | nil => rfl
  | cons off rest ih =>
    unfold macLoop
    rw [if_neg (hno off (by simp))]
    exact ih f found (fun o ho => hno o (by simp [ho]))

/-- a found hour is a matching hour of the window (or the one carried in) -/
theorem macLoop_some (P : Prims) (s : Server) (body macRx : Bytes) (H now : Int) (offs : List Int)
    (f f' : RF.Filter) (found : Option Int) (h : Int)
    (hr : macLoop P s body macRx H now offs f found = (f', .ok (some h))) :
    found = some h ∨ ∃ off ∈ offs, h = H + off ∧ mac P s.idPub s.nodeID body (H + off) = macRx := by
  induction offs generalizing f found with
  | nil => simp [macLoop] at hr; exact Or.inl hr.2
  | cons off rest ih =>
    unfold macLoop at hr
    split at hr
    · rename_i hm
      simp only at hr
      split at hr
      · simp at hr
      · rcases ih _ _ hr with h1 | ⟨o, ho, h2⟩
        · right; exact ⟨off, by simp, by simpa using h1.symm, hm⟩
        · right; exact ⟨o, by simp [ho], h2⟩
    · rcases ih _ _ hr with h1 | ⟨o, ho, h2⟩
      · exact Or.inl h1
      · right; exact ⟨o, by simp [ho], h2⟩

/-- nothing found (starting from nothing) ⇒ no offset matched -/
theorem macLoop_none (P : Prims) (s : Server) (body macRx : Bytes) (H now : Int) (offs : List Int)
    (f f' : RF.Filter) (found : Option Int)
    (hr : macLoop P s body macRx H now offs f found = (f', .ok none)) :
    found = none ∧ ∀ off ∈ offs, mac P s.idPub s.nodeID body (H + off) ≠ macRx := by
  induction offs generalizing f found with
  | nil => simp [macLoop] at hr; exact ⟨hr.2, by simp⟩
  | cons off rest ih =>
    unfold macLoop at hr
    split at hr
    · simp only at hr
      split at hr
      · simp at hr
      · have := (ih _ _ hr).1; simp at this
    · rename_i hm
      have := ih _ _ hr
      refine ⟨this.1, ?_⟩
      intro o ho
      simp at ho
      rcases ho with rfl | ho
      · exact hm
      · exact this.2 o ho

/-- `MAC_C` is valid for the previous, the current or the next hour of the server's clock -/
def MacValid (P : Prims) (s : Server) (H : Int) (resp : Bytes) (pos : Nat) : Prop :=
  ∃ off ∈ ([0, -1, 1] : List Int), mac P s.idPub s.nodeID (bodyAt resp pos) (H + off) = macAt resp pos

/-- none of the replay-filter submissions the MAC loop makes is answered "seen" -/
def NotReplay (P : Prims) (s : Server) (f : RF.Filter) (H now : Int) (resp : Bytes) (pos : Nat) : Prop :=
  (macLoop P (withCache P s resp) (bodyAt resp pos) (macAt resp pos) H now [0, -1, 1] f none).2 ≠ .error ()

/-- **the acceptance predicate of `parseClientHandshake`**: long enough, `M_C` at the tail, `MAC_C`
    valid for hour−1 / hour / hour+1, not a replay, no trailing bytes, ntor succeeded. -/
def Accepts (P : Prims) (s : Server) (f : RF.Filter) (H now : Int) (resp : Bytes) : Prop :=
  clientMinHandshakeLength ≤ resp.length ∧
  ∃ pos, markPos P s resp = some pos ∧ MacValid P s H resp pos ∧ NotReplay P s f H now resp pos ∧
    resp.length = pos + markLength + macLength ∧ (ntorOf P s (cacheOn P s resp)).1 = true

theorem withCache_ids (P : Prims) (s : Server) (resp : Bytes) :
    (withCache P s resp).idPub = s.idPub ∧ (withCache P s resp).nodeID = s.nodeID := ⟨rfl, rfl⟩

theorem accepts_iff (P : Prims) (s : Server) (f : RF.Filter) (H now : Int) (resp : Bytes) :
    (∃ seed, (parseClientHandshake P s f H now resp).2.2 = .ok seed) ↔ Accepts P s f H now resp := by
  rw [parse_unfold]
  unfold Accepts
  by_cases hlen : resp.length < clientMinHandshakeLength
  · rw [if_pos hlen]; simp; omega
  · rw [if_neg hlen]
    cases hp : markPos P s resp with
    | none =>
      simp only
      constructor
      · intro ⟨seed, h⟩; split at h <;> simp at h
      · intro ⟨_, pos, h, _⟩; simp at h
    | some pos =>
      simp only
      rcases hm : macLoop P (withCache P s resp) (bodyAt resp pos) (macAt resp pos) H now [0, -1, 1] f none with ⟨f', v⟩
      rcases v with e | o
      · cases e
        simp only
        constructor
        · intro ⟨seed, h⟩; simp at h
        · intro ⟨_, pos', h, _, hnr, _⟩
          simp only [Option.some.injEq] at h; subst h
          exact absurd (by rw [hm]) hnr
      · cases o with
        | none =>
          simp only
          constructor
          · intro ⟨seed, h⟩; simp at h
          · intro ⟨_, pos', h, ⟨off, ho, hv⟩, _⟩
            simp only [Option.some.injEq] at h; subst h
            exact absurd hv ((macLoop_none P _ _ _ H now _ f f' none hm).2 off ho)
        | some h =>
          simp only
          have hvalid : MacValid P s H resp pos := by
            rcases macLoop_some P _ _ _ H now _ f f' none h hm with h0 | ⟨off, ho, _, hv⟩
            · simp at h0
            · exact ⟨off, ho, hv⟩
          have hnr : NotReplay P s f H now resp pos := by unfold NotReplay; rw [hm]; simp
          by_cases htr : resp.length ≠ pos + markLength + macLength
          · rw [if_pos htr]
            constructor
            · intro ⟨seed, h⟩; simp at h
            · intro ⟨_, pos', h, _, _, hl, _⟩
              simp only [Option.some.injEq] at h; subst h; exact absurd hl htr
          · rw [if_neg htr]
            by_cases hn : (ntorOf P s (cacheOn P s resp)).1 = true
            · rw [if_neg (by simp [hn])]
              constructor
              · intro _
                exact ⟨by omega, pos, rfl, hvalid, hnr, by omega, hn⟩
              · intro _; exact ⟨_, rfl⟩
            · have hn' : (ntorOf P s (cacheOn P s resp)).1 = false := by simpa using hn
              rw [if_pos (by simp [hn'])]
              constructor
              · intro ⟨seed, h⟩; simp at h
              · intro ⟨_, pos', h, _, _, _, hnt⟩
                simp only [Option.some.injEq] at h; subst h
                rw [hn'] at hnt; simp at hnt

/-- `ErrMarkNotFoundYet` is only ever returned for a buffer shorter than `maxHandshakeLength`, and it
    leaves the replay filter alone -/
theorem notFoundYet (P : Prims) (s s' : Server) (f f' : RF.Filter) (H now : Int) (resp : Bytes)
    (h : parseClientHandshake P s f H now resp = (s', f', .err .markNotFoundYet)) :
    resp.length < maxHandshakeLength ∧ f' = f := by
  rw [parse_unfold] at h
  split at h
  · rename_i hl
    simp only [Prod.mk.injEq] at h
    exact ⟨by have : clientMinHandshakeLength ≤ maxHandshakeLength := by decide
              omega, h.2.1.symm⟩
  · split at h
    · split at h
      · simp at h
      · rename_i hl
        simp only [Prod.mk.injEq] at h
        exact ⟨by omega, h.2.1.symm⟩
    · split at h
      · simp at h
      · simp at h
      · split at h
        · simp at h
        · split at h <;> simp at h

end O4.Handshake

namespace O4.Obfs4Server
open O4.Consts.Obfs4 O4.Handshake

theorem closeDelayOfSeed_lt (seed : Bytes) (cd : Nat) (h : closeDelayOfSeed seed = some cd) :
    cd < maxCloseDelay := by
  unfold closeDelayOfSeed at h
  split at h
  · rename_i v s' hv
    simp only [Option.some.injEq] at h
    subst h
    exact GoRand.intn_lt _ _ _ _ _ hv
  · simp at h

/-! ## the `WrapConn` machine, step by step -/

/-- an invocation of `parseClientHandshake` by the read loop: the state it runs in and the receive
    buffer at that read boundary -/
structure ParseCall where
  hs : Server
  filter : RF.Filter
  hour : Int
  now : Int
  buf : Bytes
deriving DecidableEq

def ParseCall.Accepted (P : Prims) (k : ParseCall) : Prop := Accepts P k.hs k.filter k.hour k.now k.buf

/-- the parser invocation event `e` causes in state `s`, if any -/
def callOf (s : State) (e : Ev) : Option ParseCall :=
  match s.phase, e.ev with
  | .handshake hs buf, .recv chunk => some ⟨hs, s.filter, e.hour, e.now, buf ++ chunk⟩
  | _, _ => none

def callsFrom (P : Prims) (F : Factory) (c : Conn) : State → List Ev → List ParseCall
  | _, [] => []
  | s, e :: rest => (callOf s e).toList ++ callsFrom P F c (step P F c s e).1 rest

/-- all parser invocations (read boundaries of the handshake phase) of a `WrapConn` run -/
def calls (P : Prims) (F : Factory) (c : Conn) (f : RF.Filter) (evs : List Ev) : List ParseCall :=
  callsFrom P F c (initState F c f) (normalize evs)

/-- the close deadline of this connection -/
abbrev D (F : Factory) (c : Conn) : Int := closeDeadline c.start F.closeDelay

theorem fail_cases (F : Factory) (c : Conn) (now : Int) (e : Err) (sticky : Bool) :
    (fail F c now e sticky = (.closed, [.close, .returnErr e]) ∧ D F c < now)
    ∨ (fail F c now e sticky = (.closed, [.setReadDeadline (D F c), .close, .returnErr e]) ∧ now ≤ D F c ∧ sticky = true)
    ∨ (fail F c now e sticky = (.discarding e, [.setReadDeadline (D F c)]) ∧ now ≤ D F c ∧ sticky = false) := by
  unfold fail
  simp only [D]
  by_cases h1 : now > closeDeadline c.start F.closeDelay
  · left; rw [if_pos h1]; exact ⟨rfl, h1⟩
  · rw [if_neg h1]
    cases sticky
    · right; right; simp; omega
    · right; left; simp; omega

/-- what one step does in the handshake phase -/
inductive HsStep (F : Factory) (c : Conn) (buf : Bytes) (e : Ev) : State × List Out → Prop
  | more (hs' : Server) (f' : RF.Filter) (chunk : Bytes) :
      e.ev = .recv chunk → (buf ++ chunk).length < maxHandshakeLength →
      HsStep F c buf e (⟨.handshake hs' (buf ++ chunk), f'⟩, [])
  | accept (f' : RF.Filter) (b : Bytes) :
      HsStep F c buf e (⟨.established, f'⟩, [.setDeadline none, .write b, .returnOk])
  | discard (f' : RF.Filter) (er : Err) : e.now ≤ D F c → e.ev ≠ .peerCloses →
      HsStep F c buf e (⟨.discarding er, f'⟩, [.setReadDeadline (D F c)])
  | eof (f' : RF.Filter) (er : Err) : e.now ≤ D F c → e.ev = .peerCloses →
      HsStep F c buf e (⟨.closed, f'⟩, [.setReadDeadline (D F c), .close, .returnErr er])
  | late (f' : RF.Filter) (er : Err) : D F c < e.now →
      HsStep F c buf e (⟨.closed, f'⟩, [.close, .returnErr er])

theorem step_handshake (P : Prims) (F : Factory) (c : Conn) (s : State) (e : Ev) (hs : Server) (buf : Bytes)
    (hph : s.phase = .handshake hs buf) :
    HsStep F c buf e (step P F c s e) ∧
    ((∀ k, callOf s e = some k → ¬ k.Accepted P) → ∀ b, Out.write b ∉ (step P F c s e).2) := by
  unfold step
  rw [hph]
  simp only
  cases hev : e.ev with
  | recv chunk =>
    simp only
    rcases hp : parseClientHandshake P hs s.filter e.hour e.now (buf ++ chunk) with ⟨hs', f', res⟩
    cases res with
    | ok seed =>
      simp only
      refine ⟨HsStep.accept _ _, ?_⟩
      intro hna
      exfalso
      have hc : callOf s e = some ⟨hs, s.filter, e.hour, e.now, buf ++ chunk⟩ := by
        unfold callOf; rw [hph, hev]
      apply hna _ hc
      unfold ParseCall.Accepted
      rw [← accepts_iff]
      exact ⟨seed, by rw [hp]⟩
    | err er =>
      simp only
      by_cases hnf : er = .markNotFoundYet
      · rw [if_pos hnf]
        subst hnf
        have := notFoundYet P hs hs' s.filter f' e.hour e.now _ hp
        exact ⟨HsStep.more hs' f' chunk hev this.1, by simp⟩
      · rw [if_neg hnf]
        rcases fail_cases F c e.now (.hs er) false with ⟨h, hl⟩ | ⟨h, hl, hs⟩ | ⟨h, hl, _⟩
        · rw [h]; exact ⟨HsStep.late _ _ hl, by simp⟩
        · simp at hs
        · rw [h]; exact ⟨HsStep.discard _ _ hl (by rw [hev]; simp), by simp⟩
  | readDeadlineFires =>
    simp only
    rcases fail_cases F c e.now .timeout false with ⟨h, hl⟩ | ⟨h, hl, hs⟩ | ⟨h, hl, _⟩
    · rw [h]; exact ⟨HsStep.late _ _ hl, by simp⟩
    · simp at hs
    · rw [h]; exact ⟨HsStep.discard _ _ hl (by rw [hev]; simp), by simp⟩
  | peerCloses =>
    simp only
    rcases fail_cases F c e.now .eof true with ⟨h, hl⟩ | ⟨h, hl, _⟩ | ⟨h, hl, hs⟩
    · rw [h]; exact ⟨HsStep.late _ _ hl, by simp⟩
    · rw [h]; exact ⟨HsStep.eof _ _ hl hev, by simp⟩
    · simp at hs

theorem step_discarding (P : Prims) (F : Factory) (c : Conn) (s : State) (e : Ev) (er : Err)
    (hph : s.phase = .discarding er) :
    (step P F c s e = (s, []) ∧ ∃ chunk, e.ev = .recv chunk)
    ∨ (step P F c s e = (⟨.closed, s.filter⟩, [.close, .returnErr er]) ∧
        (e.ev = .readDeadlineFires ∨ e.ev = .peerCloses)) := by
  unfold step
  rw [hph]
  simp only
  cases hev : e.ev with
  | recv chunk => left; exact ⟨rfl, chunk, rfl⟩
  | readDeadlineFires => right; exact ⟨rfl, Or.inl rfl⟩
  | peerCloses => right; exact ⟨rfl, Or.inr rfl⟩

theorem step_closed (P : Prims) (F : Factory) (c : Conn) (s : State) (e : Ev) (hph : s.phase = .closed) :
    step P F c s e = (s, []) := by
  unfold step; rw [hph]

theorem step_established (P : Prims) (F : Factory) (c : Conn) (s : State) (e : Ev)
    (hph : s.phase = .established) : step P F c s e = (s, []) := by
  unfold step; rw [hph]


/-- a step in which the parser (if invoked) does not accept -/
inductive QuietStep (F : Factory) (c : Conn) (s : State) (e : Ev) : State × List Out → Prop
  | more (hs hs' : Server) (buf chunk : Bytes) (f' : RF.Filter) :
      s.phase = .handshake hs buf → e.ev = .recv chunk → (buf ++ chunk).length < maxHandshakeLength →
      QuietStep F c s e (⟨.handshake hs' (buf ++ chunk), f'⟩, [])
  | discard (hs : Server) (buf : Bytes) (f' : RF.Filter) (er : Err) :
      s.phase = .handshake hs buf → e.now ≤ D F c → e.ev ≠ .peerCloses →
      QuietStep F c s e (⟨.discarding er, f'⟩, [.setReadDeadline (D F c)])
  | eof (hs : Server) (buf : Bytes) (f' : RF.Filter) (er : Err) :
      s.phase = .handshake hs buf → e.now ≤ D F c → e.ev = .peerCloses →
      QuietStep F c s e (⟨.closed, f'⟩, [.setReadDeadline (D F c), .close, .returnErr er])
  | late (hs : Server) (buf : Bytes) (f' : RF.Filter) (er : Err) :
      s.phase = .handshake hs buf → D F c < e.now →
      QuietStep F c s e (⟨.closed, f'⟩, [.close, .returnErr er])
  | consume (er : Err) (chunk : Bytes) :
      s.phase = .discarding er → e.ev = .recv chunk → QuietStep F c s e (s, [])
  | expire (er : Err) :
      s.phase = .discarding er → (e.ev = .readDeadlineFires ∨ e.ev = .peerCloses) →
      QuietStep F c s e (⟨.closed, s.filter⟩, [.close, .returnErr er])
  | dead : s.phase = .closed → QuietStep F c s e (s, [])

theorem quiet_step (P : Prims) (F : Factory) (c : Conn) (s : State) (e : Ev)
    (hne : s.phase ≠ .established) (hna : ∀ k, callOf s e = some k → ¬ k.Accepted P) :
    QuietStep F c s e (step P F c s e) := by
  cases hph : s.phase with
  | handshake hs buf =>
    have ⟨h1, h2⟩ := step_handshake P F c s e hs buf hph
    have hnw := h2 hna
    generalize step P F c s e = r at h1 hnw ⊢
    cases h1 with
    | more hs' f' chunk hev hl => exact QuietStep.more hs hs' buf chunk f' hph hev hl
    | accept f' b => exact absurd (by simp) (hnw b)
    | discard f' er hl hev => exact QuietStep.discard hs buf f' er hph hl hev
    | eof f' er hl hev => exact QuietStep.eof hs buf f' er hph hl hev
    | late f' er hl => exact QuietStep.late hs buf f' er hph hl
  | discarding er =>
    rcases step_discarding P F c s e er hph with ⟨h, chunk, hev⟩ | ⟨h, hev⟩
    · rw [h]; exact QuietStep.consume er chunk hph hev
    · rw [h]; exact QuietStep.expire er hph hev
  | closed => rw [step_closed P F c s e hph]; exact QuietStep.dead hph
  | established => exact absurd hph hne


/-! ## whole runs -/

/-- all outputs of a trace, in order -/
def outsOf (tr : List (Ev × List Out)) : List Out := (tr.map Prod.snd).flatten

theorem outsOf_cons (e : Ev) (o : List Out) (tr : List (Ev × List Out)) :
    outsOf ((e, o) :: tr) = o ++ outsOf tr := by simp [outsOf]

theorem outsOf_append (a b : List (Ev × List Out)) : outsOf (a ++ b) = outsOf a ++ outsOf b := by
  simp [outsOf]

theorem runFrom_cons (P : Prims) (F : Factory) (c : Conn) (s : State) (e : Ev) (rest : List Ev) :
    runFrom P F c s (e :: rest) =
      ((runFrom P F c (step P F c s e).1 rest).1, (e, (step P F c s e).2) :: (runFrom P F c (step P F c s e).1 rest).2) := rfl

/-- no parser invocation of the run from `s` over `evs` accepts -/
def NoAccept (P : Prims) (F : Factory) (c : Conn) (s : State) (evs : List Ev) : Prop :=
  ∀ k ∈ callsFrom P F c s evs, ¬ k.Accepted P

theorem NoAccept.head {P : Prims} {F : Factory} {c : Conn} {s : State} {e : Ev} {rest : List Ev}
    (h : NoAccept P F c s (e :: rest)) : ∀ k, callOf s e = some k → ¬ k.Accepted P := by
  intro k hk
  apply h k
  simp [callsFrom, hk]

theorem NoAccept.tail {P : Prims} {F : Factory} {c : Conn} {s : State} {e : Ev} {rest : List Ev}
    (h : NoAccept P F c s (e :: rest)) : NoAccept P F c (step P F c s e).1 rest := by
  intro k hk
  apply h k
  simp [callsFrom, hk]

theorem QuietStep.phase_ne {F : Factory} {c : Conn} {s : State} {e : Ev} {r : State × List Out}
    (h : QuietStep F c s e r) (_hs : s.phase ≠ .established) : r.1.phase ≠ .established := by
  cases h <;> simp_all

theorem QuietStep.no_write {F : Factory} {c : Conn} {s : State} {e : Ev} {r : State × List Out}
    (h : QuietStep F c s e r) : ∀ b, Out.write b ∉ r.2 := by
  cases h <;> simp

theorem silent_from (P : Prims) (F : Factory) (c : Conn) :
    ∀ (evs : List Ev) (s : State), s.phase ≠ .established → NoAccept P F c s evs →
      (∀ b, Out.write b ∉ outsOf (runFrom P F c s evs).2) ∧ (runFrom P F c s evs).1.phase ≠ .established := by
  intro evs
  induction evs with
  | nil => intro s hs _; exact ⟨by simp [runFrom, outsOf], hs⟩
  | cons e rest ih =>
    intro s hs hna
    have hq := quiet_step P F c s e hs hna.head
    have ⟨h1, h2⟩ := ih _ (hq.phase_ne hs) hna.tail
    rw [runFrom_cons]
    refine ⟨?_, h2⟩
    intro b
    rw [outsOf_cons, List.mem_append]
    rintro (h | h)
    · exact hq.no_write b h
    · exact h1 b h

/-- what the peer can observe on the conn -/
def Out.isWire : Out → Bool
  | .returnErr _ => false
  | .returnOk => false
  | .setDeadline _ => true
  | .setReadDeadline _ => true
  | .write _ => true
  | .close => true

def wire (l : List Out) : List Out := l.filter Out.isWire

/-- the possible conn-visible behaviours from a phase on, in a run without acceptance -/
def Shape (F : Factory) (c : Conn) : Phase → List Out → Prop
  | .handshake _ _, w => w = [] ∨ w = [.setReadDeadline (D F c)] ∨ w = [.setReadDeadline (D F c), .close] ∨ w = [.close]
  | .discarding _, w => w = [] ∨ w = [.close]
  | .closed, w => w = []
  | .established, _ => True

theorem shape_from (P : Prims) (F : Factory) (c : Conn) :
    ∀ (evs : List Ev) (s : State), s.phase ≠ .established → NoAccept P F c s evs →
      Shape F c s.phase (wire (outsOf (runFrom P F c s evs).2)) := by
  intro evs
  induction evs with
  | nil =>
    intro s hs _
    cases hph : s.phase <;> simp [Shape, runFrom, outsOf, wire] <;> exact absurd hph hs
  | cons e rest ih =>
    intro s hs hna
    have hq := quiet_step P F c s e hs hna.head
    have ih' := ih _ (hq.phase_ne hs) hna.tail
    rw [runFrom_cons, outsOf_cons]
    generalize step P F c s e = r at hq ih' ⊢
    cases hq with
    | more hs0 hs' buf chunk f' hph hev hl =>
      rw [hph]; simp only [Shape, wire, List.nil_append] at ih' ⊢; exact ih'
    | discard hs0 buf f' er hph hl hev =>
      rw [hph]
      simp only [Shape, wire, List.filter_append] at ih' ⊢
      rcases ih' with h | h <;> rw [h] <;> simp [List.filter, Out.isWire]
    | eof hs0 buf f' er hph hl hev =>
      rw [hph]
      simp only [Shape, wire, List.filter_append] at ih' ⊢
      rw [ih']; simp [List.filter, Out.isWire]
    | late hs0 buf f' er hph hl =>
      rw [hph]
      simp only [Shape, wire, List.filter_append] at ih' ⊢
      rw [ih']; simp [List.filter, Out.isWire]
    | consume er chunk hph hev =>
      simp only [List.nil_append]; exact ih'
    | expire er hph hev =>
      rw [hph]
      simp only [Shape, wire, List.filter_append] at ih' ⊢
      rw [ih']; simp [List.filter, Out.isWire]
    | dead hph =>
      simp only [List.nil_append]; exact ih'

theorem close_cause_from (P : Prims) (F : Factory) (c : Conn) :
    ∀ (evs : List Ev) (s : State), s.phase ≠ .established → NoAccept P F c s evs →
      ∀ pre e o post, (runFrom P F c s evs).2 = pre ++ (e, o) :: post → Out.close ∈ o →
        e.ev = .peerCloses ∨ D F c < e.now ∨
        (e.ev = .readDeadlineFires ∧
          ((∃ er, s.phase = .discarding er) ∨ Out.setReadDeadline (D F c) ∈ outsOf pre)) := by
  intro evs
  induction evs with
  | nil => intro s _ _ pre e o post h; simp [runFrom] at h
  | cons e0 rest ih =>
    intro s hs hna pre e o post htr hcl
    have hq := quiet_step P F c s e0 hs hna.head
    have ih' := ih _ (hq.phase_ne hs) hna.tail
    rw [runFrom_cons] at htr
    generalize step P F c s e0 = r at hq ih' htr
    cases pre with
    | nil =>
      simp only [List.nil_append, List.cons.injEq, Prod.mk.injEq] at htr
      obtain ⟨⟨rfl, rfl⟩, _⟩ := htr
      cases hq with
      | more => simp at hcl
      | discard => simp at hcl
      | eof hs0 buf f' er hph hl hev => exact Or.inl hev
      | late hs0 buf f' er hph hl => exact Or.inr (Or.inl hl)
      | consume => simp at hcl
      | expire er hph hev =>
        rcases hev with hev | hev
        · exact Or.inr (Or.inr ⟨hev, Or.inl ⟨er, hph⟩⟩)
        · exact Or.inl hev
      | dead => simp at hcl
    | cons p0 pre' =>
      simp only [List.cons_append, List.cons.injEq] at htr
      obtain ⟨rfl, htr'⟩ := htr
      rcases ih' pre' e o post htr' hcl with h | h | ⟨hev, h⟩
      · exact Or.inl h
      · exact Or.inr (Or.inl h)
      · refine Or.inr (Or.inr ⟨hev, ?_⟩)
        rcases h with ⟨er, hph1⟩ | h
        · cases hq with
          | more => simp at hph1
          | discard hs0 buf f' er' hph hl hev' => right; simp [outsOf_cons]
          | eof => simp at hph1
          | late => simp at hph1
          | consume er' chunk hph hev' => left; exact ⟨er', hph⟩
          | expire => simp at hph1
          | dead hph => rw [hph] at hph1; simp at hph1
        · right; rw [outsOf_cons]; exact List.mem_append_right _ h


/-! ## read sizes, buffer bound, the discard phase, acceptance is answered -/

theorem splitReads_le (fuel : Nat) (b : Bytes) (h : b.length ≤ fuel + maxHandshakeLength) :
    ∀ p ∈ splitReads fuel b, p.length ≤ maxHandshakeLength := by
  have hpos : 0 < maxHandshakeLength := by decide
  induction fuel generalizing b with
  | zero => intro p hp; simp [splitReads] at hp; subst hp; omega
  | succ f ih =>
    intro p hp
    unfold splitReads at hp
    split at hp
    · simp at hp; subst hp; assumption
    · rename_i hgt
      simp only [List.mem_cons] at hp
      rcases hp with rfl | hp
      · simp [List.length_take]; omega
      · exact ih _ (by simp [List.length_drop]; omega) p hp

theorem splitReads_join (fuel : Nat) (b : Bytes) : (splitReads fuel b).flatten = b := by
  induction fuel generalizing b with
  | zero => simp [splitReads]
  | succ f ih =>
    unfold splitReads
    split
    · simp
    · simp [ih]

/-- after normalisation no `recv` carries more than one read's worth of bytes -/
def ReadSized (evs : List Ev) : Prop :=
  ∀ e ∈ evs, ∀ chunk, e.ev = .recv chunk → chunk.length ≤ maxHandshakeLength

theorem normalize_readSized (evs : List Ev) : ReadSized (normalize evs) := by
  intro e he chunk hc
  simp only [normalize, List.mem_flatMap] at he
  obtain ⟨e0, _, he⟩ := he
  unfold normalizeEv at he
  split at he
  · rename_i ch hev
    simp only [List.mem_map] at he
    obtain ⟨p, hp, rfl⟩ := he
    simp only [NetEv.recv.injEq] at hc
    subst hc
    exact splitReads_le _ _ (by omega) p hp
  · rename_i hne
    simp only [List.mem_singleton] at he
    subst he
    exact absurd hc (hne chunk)

/-- **bounded handshake buffer**: at every parser invocation the receive buffer is shorter than
    `2·maxHandshakeLength` (the loop only continues below `maxHandshakeLength`, and one read adds at
    most `maxHandshakeLength`) -/
theorem calls_bounded_from (P : Prims) (F : Factory) (c : Conn) :
    ∀ (evs : List Ev) (s : State), ReadSized evs →
      (∀ hs buf, s.phase = .handshake hs buf → buf.length < maxHandshakeLength) →
      ∀ k ∈ callsFrom P F c s evs, k.buf.length < 2 * maxHandshakeLength := by
  intro evs
  induction evs with
  | nil => intro s _ _ k hk; simp [callsFrom] at hk
  | cons e rest ih =>
    intro s hrs hinv k hk
    simp only [callsFrom, List.mem_append] at hk
    rcases hk with hk | hk
    · unfold callOf at hk
      split at hk
      · rename_i hs buf chunk hph hev
        simp only [Option.toList_some, List.mem_singleton] at hk
        subst hk
        have h1 := hinv hs buf hph
        have h2 := hrs e (by simp) chunk hev
        simp only [List.length_append]; omega
      · simp at hk
    · refine ih _ (fun e' he' => hrs e' (by simp [he'])) ?_ k hk
      intro hs' buf' hph'
      cases hph : s.phase with
      | handshake hs buf =>
        have h1 := (step_handshake P F c s e hs buf hph).1
        generalize step P F c s e = r at h1 hph'
        cases h1 with
        | more hs2 f' chunk hev hl => simp only [Phase.handshake.injEq] at hph'; rw [← hph'.2]; exact hl
        | accept => simp at hph'
        | discard => simp at hph'
        | eof => simp at hph'
        | late => simp at hph'
      | discarding er =>
        rcases step_discarding P F c s e er hph with ⟨h, _⟩ | ⟨h, _⟩ <;> rw [h] at hph'
        · rw [hph] at hph'; simp at hph'
        · simp at hph'
      | closed => rw [step_closed P F c s e hph, hph] at hph'; simp at hph'
      | established => rw [step_established P F c s e hph, hph] at hph'; simp at hph'

/-- **keeps reading**: while discarding, every `recv` is consumed, produces nothing and changes nothing -/
theorem discarding_recvs (P : Prims) (F : Factory) (c : Conn) (s : State) (er : Err)
    (hph : s.phase = .discarding er) :
    ∀ (evs : List Ev), (∀ e ∈ evs, ∃ chunk, e.ev = .recv chunk) →
      runFrom P F c s evs = (s, evs.map (fun e => (e, []))) := by
  intro evs
  induction evs with
  | nil => intro _; rfl
  | cons e rest ih =>
    intro h
    obtain ⟨chunk, hev⟩ := h e (by simp)
    have hst : step P F c s e = (s, []) := by
      rcases step_discarding P F c s e er hph with ⟨h1, _⟩ | ⟨_, h2⟩
      · exact h1
      · rw [hev] at h2; simp at h2
    rw [runFrom_cons, hst]
    simp only
    rw [ih (fun e' he' => h e' (by simp [he']))]
    rfl

/-- … and the first read *error* (deadline or disconnect) closes -/
theorem discarding_ends (P : Prims) (F : Factory) (c : Conn) (s : State) (er : Err) (e : Ev)
    (hph : s.phase = .discarding er) (hev : e.ev = .readDeadlineFires ∨ e.ev = .peerCloses) :
    step P F c s e = (⟨.closed, s.filter⟩, [.close, .returnErr er]) := by
  rcases step_discarding P F c s e er hph with ⟨_, chunk, h⟩ | ⟨h, _⟩
  · rcases hev with h' | h' <;> rw [h'] at h <;> simp at h
  · exact h

/-- an accepting parser invocation is answered: the response is written -/
theorem answered_from (P : Prims) (F : Factory) (c : Conn) :
    ∀ (evs : List Ev) (s : State), (∃ k ∈ callsFrom P F c s evs, k.Accepted P) →
      ∃ b, Out.write b ∈ outsOf (runFrom P F c s evs).2 := by
  intro evs
  induction evs with
  | nil => intro s ⟨k, hk, _⟩; simp [callsFrom] at hk
  | cons e rest ih =>
    intro s ⟨k, hk, hacc⟩
    rw [runFrom_cons, outsOf_cons]
    simp only [callsFrom, List.mem_append] at hk
    rcases hk with hk | hk
    · unfold callOf at hk
      split at hk
      · rename_i hs buf chunk hph hev
        simp only [Option.toList_some, List.mem_singleton] at hk
        subst hk
        unfold ParseCall.Accepted at hacc
        rw [← accepts_iff] at hacc
        obtain ⟨seed, hseed⟩ := hacc
        simp only at hseed
        unfold step
        rw [hph]; simp only; rw [hev]; simp only
        rcases hp : parseClientHandshake P hs s.filter e.hour e.now (buf ++ chunk) with ⟨hs', f', res⟩
        rw [hp] at hseed
        simp only at hseed
        subst hseed
        exact ⟨c.reply hs' seed, by simp⟩
      · simp at hk
    · obtain ⟨b, hb⟩ := ih _ ⟨k, hk, hacc⟩
      exact ⟨b, List.mem_append_right _ hb⟩

/-- once the handshake phase is left it is never re-entered: no more parser invocations -/
theorem callsFrom_not_handshake (P : Prims) (F : Factory) (c : Conn) :
    ∀ (evs : List Ev) (s : State), (∀ hs buf, s.phase ≠ .handshake hs buf) → callsFrom P F c s evs = [] := by
  intro evs
  induction evs with
  | nil => intro _ _; rfl
  | cons e rest ih =>
    intro s hnh
    have hc : callOf s e = none := by
      unfold callOf
      split
      · rename_i hs buf chunk hph _; exact absurd hph (hnh hs buf)
      · rfl
    have hnext : ∀ hs buf, (step P F c s e).1.phase ≠ .handshake hs buf := by
      intro hs buf
      cases hph : s.phase with
      | handshake hs0 buf0 => exact absurd hph (hnh hs0 buf0)
      | discarding er =>
        rcases step_discarding P F c s e er hph with ⟨h, _⟩ | ⟨h, _⟩ <;> rw [h]
        · rw [hph]; simp
        · simp
      | closed => rw [step_closed P F c s e hph, hph]; simp
      | established => rw [step_established P F c s e hph, hph]; simp
    simp [callsFrom, hc, ih _ hnext]

/-- the bytes received up to a point -/
def recvBytes : List Ev → Bytes
  | [] => []
  | e :: rest => (match e.ev with | .recv chunk => chunk | _ => []) ++ recvBytes rest

/-- **parser invocations happen at read boundaries**: the buffer of every invocation is the
    concatenation of everything received in the first `n` (normalised) events, for some `n` -/
theorem calls_at_boundaries_from (P : Prims) (F : Factory) (c : Conn) :
    ∀ (evs : List Ev) (s : State) (b0 : Bytes),
      (∀ hs buf, s.phase = .handshake hs buf → buf = b0) →
      ∀ k ∈ callsFrom P F c s evs, ∃ n, k.buf = b0 ++ recvBytes (evs.take n) := by
  intro evs
  induction evs with
  | nil => intro s b0 _ k hk; simp [callsFrom] at hk
  | cons e rest ih =>
    intro s b0 hinv k hk
    simp only [callsFrom, List.mem_append] at hk
    rcases hk with hk | hk
    · unfold callOf at hk
      split at hk
      · rename_i hs buf chunk hph hev
        simp only [Option.toList_some, List.mem_singleton] at hk
        subst hk
        refine ⟨1, ?_⟩
        simp [recvBytes, hev, hinv hs buf hph]
      · simp at hk
    · cases hph : s.phase with
      | handshake hs buf =>
        have hb := hinv hs buf hph
        subst hb
        cases hev : e.ev with
        | recv chunk =>
          obtain ⟨n, hn⟩ := ih (step P F c s e).1 (buf ++ chunk) (by
            intro hs' buf' hph'
            have h1 := (step_handshake P F c s e hs buf hph).1
            generalize step P F c s e = r at h1 hph'
            cases h1 with
            | more hs2 f' chunk' hev' hl =>
              simp only [Phase.handshake.injEq] at hph'
              rw [hev] at hev'; simp only [NetEv.recv.injEq] at hev'; subst hev'
              exact hph'.2.symm
            | accept => simp at hph'
            | discard => simp at hph'
            | eof => simp at hph'
            | late => simp at hph') k hk
          exact ⟨n + 1, by simp [recvBytes, hev, hn, List.append_assoc]⟩
        | readDeadlineFires =>
          exfalso
          have h1 := (step_handshake P F c s e hs buf hph).1
          have : callsFrom P F c (step P F c s e).1 rest = [] := by
            apply callsFrom_not_handshake
            intro hs' buf' hph'
            generalize step P F c s e = r at h1 hph'
            cases h1 with
            | more hs2 f' chunk' hev' hl => rw [hev] at hev'; simp at hev'
            | accept => simp at hph'
            | discard => simp at hph'
            | eof => simp at hph'
            | late => simp at hph'
          rw [this] at hk; simp at hk
        | peerCloses =>
          exfalso
          have h1 := (step_handshake P F c s e hs buf hph).1
          have : callsFrom P F c (step P F c s e).1 rest = [] := by
            apply callsFrom_not_handshake
            intro hs' buf' hph'
            generalize step P F c s e = r at h1 hph'
            cases h1 with
            | more hs2 f' chunk' hev' hl => rw [hev] at hev'; simp at hev'
            | accept => simp at hph'
            | discard => simp at hph'
            | eof => simp at hph'
            | late => simp at hph'
          rw [this] at hk; simp at hk
      | discarding er =>
        exfalso
        have : callsFrom P F c s (e :: rest) = [] :=
          callsFrom_not_handshake P F c _ s (by intro hs buf; rw [hph]; simp)
        simp only [callsFrom, List.append_eq_nil_iff] at this
        rw [this.2] at hk; simp at hk
      | closed =>
        exfalso
        have : callsFrom P F c s (e :: rest) = [] :=
          callsFrom_not_handshake P F c _ s (by intro hs buf; rw [hph]; simp)
        simp only [callsFrom, List.append_eq_nil_iff] at this
        rw [this.2] at hk; simp at hk
      | established =>
        exfalso
        have : callsFrom P F c s (e :: rest) = [] :=
          callsFrom_not_handshake P F c _ s (by intro hs buf; rw [hph]; simp)
        simp only [callsFrom, List.append_eq_nil_iff] at this
        rw [this.2] at hk; simp at hk


/-- the possible conn-visible behaviours from a phase on, in **any** run -/
def ShapeAll (F : Factory) (c : Conn) : Phase → List Out → Prop
  | .handshake _ _, w => w = [] ∨ w = [.setReadDeadline (D F c)] ∨ w = [.setReadDeadline (D F c), .close] ∨ w = [.close]
      ∨ ∃ b, w = [.setDeadline none, .write b]
  | .discarding _, w => w = [] ∨ w = [.close]
  | .closed, w => w = []
  | .established, w => w = []

theorem shape_all_from (P : Prims) (F : Factory) (c : Conn) :
    ∀ (evs : List Ev) (s : State), ShapeAll F c s.phase (wire (outsOf (runFrom P F c s evs).2)) := by
  intro evs
  induction evs with
  | nil =>
    intro s
    cases hph : s.phase <;> simp [ShapeAll, runFrom, outsOf, wire]
  | cons e rest ih =>
    intro s
    rw [runFrom_cons, outsOf_cons]
    have ih' := ih (step P F c s e).1
    cases hph : s.phase with
    | handshake hs buf =>
      have h1 := (step_handshake P F c s e hs buf hph).1
      generalize step P F c s e = r at h1 ih' ⊢
      cases h1 with
      | more hs' f' chunk hev hl =>
        simp only [ShapeAll, wire, List.nil_append] at ih' ⊢; exact ih'
      | accept f' b =>
        simp only [ShapeAll, wire, List.filter_append] at ih' ⊢
        rw [ih']; simp [List.filter, Out.isWire]
      | discard f' er hl hev =>
        simp only [ShapeAll, wire, List.filter_append] at ih' ⊢
        rcases ih' with h | h <;> rw [h] <;> simp [List.filter, Out.isWire]
      | eof f' er hl hev =>
        simp only [ShapeAll, wire, List.filter_append] at ih' ⊢
        rw [ih']; simp [List.filter, Out.isWire]
      | late f' er hl =>
        simp only [ShapeAll, wire, List.filter_append] at ih' ⊢
        rw [ih']; simp [List.filter, Out.isWire]
    | discarding er =>
      rcases step_discarding P F c s e er hph with ⟨h, _⟩ | ⟨h, _⟩
      · rw [h] at ih' ⊢; rw [hph] at ih'; simpa using ih'
      · rw [h] at ih' ⊢
        simp only [ShapeAll, wire, List.filter_append] at ih' ⊢
        rw [ih']; simp [List.filter, Out.isWire]
    | closed =>
      rw [step_closed P F c s e hph] at ih' ⊢; rw [hph] at ih'; simpa using ih'
    | established =>
      rw [step_established P F c s e hph] at ih' ⊢; rw [hph] at ih'; simpa using ih'

end O4.Obfs4Server
