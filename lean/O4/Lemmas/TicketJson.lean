import O4.Lemmas.StateJson
/-!
# The ticket-store text format: the whole encoded store parses back (core Lean only)
-/
namespace O4.SF
open O4

/-- texts that need no escaping as far as the model goes -/
structure WFTicket (t : Ticket) : Prop where
  addr : q ∉ t.addr
  kt : q ∉ t.kt
  issued : t.issued ≠ [] ∧ t.issued.all isDigit = true

theorem digits_no_rb (ds : Bytes) (h : ds.all isDigit = true) : rb ∉ ds := by
  intro hm
  have := List.all_eq_true.mp h rb hm
  revert this; decide

theorem T1_eq : T1 = q :: T1.drop 1 := by decide
theorem T2_eq : T2 = q :: T2.drop 1 := by decide

theorem parseTicket_enc (t : Ticket) (w : WFTicket t) (rest : Bytes) :
    parseTicket (encTicket t ++ rest) = some (t, rest) := by
  have e : encTicket t ++ rest =
      q :: (t.addr ++ q :: (T1.drop 1 ++ (t.kt ++ q :: (T2.drop 1 ++ (t.issued ++ rb :: rest))))) := by
    unfold encTicket
    conv => lhs; rw [T1_eq, T2_eq]
    simp [List.append_assoc]
  rw [e]
  unfold parseTicket
  simp only [ne_eq, not_true_eq_false, if_false]
  rw [splitAt1_append q _ _ w.addr]
  simp only [stripPrefix_append]
  rw [splitAt1_append q _ _ w.kt]
  simp only [stripPrefix_append]
  rw [splitAt1_append rb _ _ (digits_no_rb _ w.issued.2)]
  simp [w.issued.1, w.issued.2]

theorem encTicketList_cons_ne (t : Ticket) (ts : List Ticket) :
    ∃ tail, encTicketList (t :: ts) = q :: tail := by
  cases ts with
  | nil => exact ⟨_, rfl⟩
  | cons u rest => exact ⟨_, rfl⟩

theorem parseTicketList_enc (ts : List Ticket) (t : Ticket) (hw : ∀ u ∈ t :: ts, WFTicket u)
    (fuel : Nat) (hf : ts.length < fuel) :
    parseTicketList fuel (encTicketList (t :: ts) ++ [rb]) = some (t :: ts) := by
  induction ts generalizing t fuel with
  | nil =>
    cases fuel with
    | zero => omega
    | succ f =>
      simp only [encTicketList, parseTicketList]
      rw [parseTicket_enc t (hw t (by simp))]
      simp
  | cons u rest ih =>
    cases fuel with
    | zero => omega
    | succ f =>
      have e : encTicketList (t :: u :: rest) ++ [rb]
          = encTicket t ++ (44 :: (encTicketList (u :: rest) ++ [rb])) := by
        simp [encTicketList]
      rw [e]
      simp only [parseTicketList]
      rw [parseTicket_enc t (hw t (by simp))]
      obtain ⟨tail, ht⟩ := encTicketList_cons_ne u rest
      have ih' := ih u (fun x hx => hw x (List.mem_cons_of_mem _ hx)) f (by simp at hf; omega)
      rw [ht] at ih' ⊢
      simp only [List.cons_append] at ih' ⊢
      simp only [if_true]
      rw [ih']

theorem length_encTicketList (ts : List Ticket) : ts.length ≤ (encTicketList ts).length := by
  induction ts with
  | nil => simp [encTicketList]
  | cons t rest ih =>
    cases rest with
    | nil => simp [encTicketList, encTicket]
    | cons u r =>
      simp only [encTicketList, List.length_append, List.length_cons] at ih ⊢
      have : 0 < (encTicket t).length := by simp [encTicket]
      omega

/-- **the complete ticket file loads back to the store** -/
theorem parseTickets_enc (ts : List Ticket) (hw : ∀ u ∈ ts, WFTicket u) :
    parseTickets (encTickets ts) = some ts := by
  cases ts with
  | nil => rfl
  | cons t rest =>
    obtain ⟨tail, ht⟩ := encTicketList_cons_ne t rest
    have hl := length_encTicketList (t :: rest)
    have hp := parseTicketList_enc rest t hw (encTicketList (t :: rest) ++ [rb]).length
      (by simp only [List.length_append, List.length_cons, List.length_nil] at hl ⊢; omega)
    unfold encTickets parseTickets
    rw [ht] at hp ⊢
    simp only [List.cons_append]
    exact hp

end O4.SF
