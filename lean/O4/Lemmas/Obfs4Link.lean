import O4.Model.Obfs4Link
import O4.Lemmas.Framing
import O4.Lemmas.CryptoBasic
/-! The concrete link crypto satisfies `CryptoOK` (for every key, mask table and `rnd`). -/
set_option autoImplicit false
namespace O4.Obfs4
open O4.Framing O4.Crypto

theorem linkCrypto_ok (key : Bytes) (masks : Array Nat) (rnd : Nat → Nat) :
    CryptoOK (linkCrypto key masks rnd) where
  seal_len := fun n p => by simp [linkCrypto, secretboxSeal_length]
  open_seal := fun n p => by simp [linkCrypto, secretboxOpen_seal]

end O4.Obfs4
