import O4.Model.Bytes
/-!
# Big-endian encoding lemmas (core only)
`ofNatBE len n` has exactly `len` bytes and decodes to `n % 256^len`; hence decode∘encode = id
below `256^len` (`big.Int.FillBytes` / `SetBytes`, `binary.BigEndian.PutUint32` / `Uint32`).
-/
namespace O4.Bytes

theorem ofNatBE_length (len n : Nat) : (ofNatBE len n).length = len := by
  induction len generalizing n with
  | zero => rfl
  | succ k ih => simp [ofNatBE, ih]

theorem toNatBE_append_singleton (a : Bytes) (x : UInt8) :
    toNatBE (a ++ [x]) = toNatBE a * 256 + x.toNat := by
  simp [toNatBE, List.foldl_append]

theorem toNatBE_ofNatBE (len n : Nat) : toNatBE (ofNatBE len n) = n % 256 ^ len := by
  induction len generalizing n with
  | zero => simp [ofNatBE, toNatBE, Nat.mod_one]
  | succ k ih =>
    rw [ofNatBE, toNatBE_append_singleton, ih]
    have h : (UInt8.ofNat (n % 256)).toNat = n % 256 := by
      simp [UInt8.toNat_ofNat']
    rw [h, Nat.pow_succ, Nat.mul_comm (256 ^ k) 256, Nat.mod_mul]
    omega

/-- decode ∘ encode = id when the number fits -/
theorem toNatBE_ofNatBE_of_lt (len n : Nat) (h : n < 256 ^ len) : toNatBE (ofNatBE len n) = n := by
  rw [toNatBE_ofNatBE, Nat.mod_eq_of_lt h]

theorem foldl_lt (b : Bytes) (acc m : Nat) (h : acc < m) :
    b.foldl (fun acc x => acc * 256 + x.toNat) acc < m * 256 ^ b.length := by
  induction b generalizing acc m with
  | nil => simpa using h
  | cons x r ih =>
    simp only [List.foldl_cons, List.length_cons]
    have hx := x.toNat_lt
    have := ih (acc * 256 + x.toNat) (m * 256) (by omega)
    rw [Nat.pow_succ, Nat.mul_comm (256 ^ r.length) 256, ← Nat.mul_assoc]
    exact this

theorem toNatBE_lt (b : Bytes) : toNatBE b < 256 ^ b.length := by
  have := foldl_lt b 0 1 (by omega)
  simpa [toNatBE] using this

end O4.Bytes
