import O4.Model.Obfs4Shaping
/-!
# Lemmas about the shaping model (C09). Core only.

All arithmetic is discharged by `omega` after the regenerated constants are unfolded to their
current values (`unfold_consts`), so a changed constant re-runs the proofs against the new value.
-/
namespace O4.Shaping

/-- unfold the named constants to the values regenerated from the Go tree -/
macro "unfold_consts" : tactic =>
  `(tactic| simp only [mss, headerLength, frameOverhead, packetOverhead, maxPacketPayloadLength,
      maxPacketPaddingLength, iatNone, iatEnabled, iatParanoid,
      O4.Consts.Framing.maximumSegmentLength, O4.Consts.Framing.frameOverhead,
      O4.Consts.Obfs4.packetOverhead, O4.Consts.Obfs4.headerLength,
      O4.Consts.Obfs4.maxPacketPayloadLength, O4.Consts.Obfs4.maxPacketPaddingLength,
      O4.Consts.Obfs4.iatNone, O4.Consts.Obfs4.iatEnabled, O4.Consts.Obfs4.iatParanoid] at *)

/-! ### `padBurst` -/

theorem padLen_le (L t : Nat) (ht : t ≤ mss) : padLen L t ≤ mss := by
  unfold padLen
  by_cases h : t ≥ L % mss
  · simp only [if_pos h]; unfold_consts; omega
  · simp only [if_neg h]; unfold_consts; omega

theorem padLen_mod (L t : Nat) (ht : t ≤ mss) : (L + padLen L t) % mss = t % mss := by
  unfold padLen
  by_cases h : t ≥ L % mss
  · simp only [if_pos h]; unfold_consts; omega
  · simp only [if_neg h]; unfold_consts; omega

/-- `padBurst` never panics for a target `≤ MSS`, and appends: one frame of exactly the needed
    padding when that exceeds a header; a full frame plus a `header + padding` frame when
    `0 < padding ≤ header`; nothing when no padding is needed. -/
theorem padBurst_eq (L t : Nat) (ht : t ≤ mss) :
    padBurst L t = .ok (if padLen L t > headerLength then [padLen L t]
                        else if padLen L t > 0 then [mss, headerLength + padLen L t] else []) := by
  have hp := padLen_le L t ht
  unfold padBurst makePacket u16
  generalize padLen L t = p at *
  unfold_consts
  by_cases h1 : p > 21
  · have e1 : (p - 21) % 65536 = p - 21 := by omega
    have e2 : ¬ (0 + (p - 21) > 1427) := by omega
    simp only [h1, if_true, e1, e2, if_false, bind, Except.bind, pure, Except.pure]
    congr 2
    omega
  · by_cases h2 : p > 0
    · have e1 : p % 65536 = p := by omega
      have e2 : ¬ (0 + p > 1427) := by omega
      simp only [h1, h2, if_true, if_false, e1, e2, bind, Except.bind, pure, Except.pure]
      simp
      omega
    · simp only [h1, h2, if_false, pure, Except.pure]

/-! ### the chopping loop -/

theorem chop_spec : ∀ (f rem : Nat), ∃ fs, chop f rem = .ok fs ∧
    (∀ x ∈ fs, headerLength < x ∧ x ≤ mss) ∧ (rem ≤ f → 0 < rem → 0 < fs.sum) := by
  intro f
  induction f with
  | zero =>
    intro rem
    cases rem with
    | zero => exact ⟨[], rfl, by simp, by omega⟩
    | succ r => exact ⟨[], rfl, by simp, by omega⟩
  | succ f ih =>
    intro rem
    cases rem with
    | zero => exact ⟨[], rfl, by simp, by omega⟩
    | succ r =>
      obtain ⟨rest, hrest, hb, _⟩ := ih (r + 1 - min (r + 1) maxPacketPayloadLength)
      have hmk : makePacket (min (r + 1) maxPacketPayloadLength) 0
          = .ok (headerLength + min (r + 1) maxPacketPayloadLength) := by
        unfold makePacket
        unfold_consts
        have : ¬ (min (r + 1) 1427 + 0 > 1427) := by omega
        simp only [this, if_false]
        congr 1
        omega
      have hne : (min (r + 1) maxPacketPayloadLength == 0) = false := by
        unfold_consts
        simp
      refine ⟨(headerLength + min (r + 1) maxPacketPayloadLength) :: rest, ?_, ?_, ?_⟩
      · simp only [chop, hne, hmk, hrest, bind, Except.bind, pure, Except.pure]
        rfl
      · intro x hx
        rcases List.mem_cons.mp hx with rfl | hx
        · unfold_consts; omega
        · exact hb x hx
      · intro _ _
        simp only [List.sum_cons]
        unfold_consts
        omega

/-! ### one-step equations of the loops -/

section
variable {σ : Type} (S : Sampler σ)

theorem enabledLoop_done (f : Nat) (fr : List Nat) (ws : List Wr) (ds : List Nat) (s : σ) :
    enabledLoop S (f + 1) 0 fr ws ds s = ⟨.ok, fr, ws, ds, s⟩ := by
  simp [enabledLoop]

theorem enabledLoop_step (f buf : Nat) (hb : buf ≠ 0) (fr : List Nat) (ws : List Wr) (ds : List Nat)
    (s : σ) :
    enabledLoop S (f + 1) buf fr ws ds s =
      match S.iat s with
      | none => ⟨.starved, fr, ws, ds, s⟩
      | some (d, s') => enabledLoop S f (buf - min buf mss) fr (ws ++ [⟨min buf mss, none⟩]) (ds ++ [d]) s' := by
  have hb' : (buf == 0) = false := by simp [hb]
  have hmin : (min buf mss == 0) = false := by
    have : 0 < mss := by decide
    simp; omega
  simp only [enabledLoop, hb', hmin, Bool.false_eq_true, if_false]
  cases S.iat s <;> rfl

theorem paranoidLoop_done (fx : Bool) (f : Nat) (fr : List Nat) (ws : List Wr) (ds : List Nat) (s : σ) :
    paranoidLoop S fx (f + 1) 0 fr ws ds s = ⟨.ok, fr, ws, ds, s⟩ := by
  simp [paranoidLoop]

theorem paranoidLoop_none (fx : Bool) (f buf : Nat) (hb : buf ≠ 0) (fr : List Nat) (ws : List Wr)
    (ds : List Nat) (s : σ) (h : S.len s = none) :
    paranoidLoop S fx (f + 1) buf fr ws ds s = ⟨.starved, fr, ws, ds, s⟩ := by
  have hb' : (buf == 0) = false := by simp [hb]
  simp only [paranoidLoop, hb', h, Bool.false_eq_true, if_false]

theorem paranoidLoop_some (fx : Bool) (f buf : Nat) (hb : buf ≠ 0) (fr : List Nat) (ws : List Wr)
    (ds : List Nat) (s : σ) (t : Nat) (s1 : σ) (h : S.len s = some (t, s1)) :
    paranoidLoop S fx (f + 1) buf fr ws ds s =
      match paranoidStep fx buf t with
      | .resample => paranoidLoop S fx f buf fr ws ds s1
      | .grow buf' fs => paranoidLoop S fx f buf' (fr ++ fs) ws ds s1
      | .panic p => ⟨.panic p, fr, ws, ds, s1⟩
      | .emit buf' fs wr =>
        match S.iat s1 with
        | none => ⟨.starved, fr ++ fs, ws, ds, s1⟩
        | some (d, s2) => paranoidLoop S fx f buf' (fr ++ fs) (ws ++ [⟨wr, some t⟩]) (ds ++ [d]) s2 := by
  have hb' : (buf == 0) = false := by simp [hb]
  simp only [paranoidLoop, hb', h, Bool.false_eq_true, if_false]
  cases paranoidStep fx buf t with
  | emit b fs wr => cases S.iat s1 <;> rfl
  | _ => rfl

end

/-! ### `iatEnabled` -/

def sizes (ws : List Wr) : List Nat := ws.map (·.size)

theorem enabledLoop_spec {σ : Type} (S : Sampler σ) : ∀ (fuel buf : Nat) (fr : List Nat)
    (ws : List Wr) (ds : List Nat) (s : σ), (∀ w ∈ ws, 0 < w.size ∧ w.size ≤ mss) →
    (enabledLoop S fuel buf fr ws ds s).frames = fr ∧
    (∀ w ∈ (enabledLoop S fuel buf fr ws ds s).writes, 0 < w.size ∧ w.size ≤ mss) ∧
    ((enabledLoop S fuel buf fr ws ds s).status = .ok ∨
      (enabledLoop S fuel buf fr ws ds s).status = .starved) ∧
    ((enabledLoop S fuel buf fr ws ds s).status = .ok →
      (sizes (enabledLoop S fuel buf fr ws ds s).writes).sum = (sizes ws).sum + buf) := by
  intro fuel
  induction fuel with
  | zero => intro buf fr ws ds s hw; exact ⟨rfl, hw, Or.inr rfl, fun h => by cases h⟩
  | succ f ih =>
    intro buf fr ws ds s hw
    by_cases hb : buf = 0
    · subst hb
      rw [enabledLoop_done]
      exact ⟨rfl, hw, Or.inl rfl, fun _ => by simp⟩
    · rw [enabledLoop_step S f buf hb]
      cases hi : S.iat s with
      | none => exact ⟨rfl, hw, Or.inr rfl, fun h => by cases h⟩
      | some p =>
        obtain ⟨d, s'⟩ := p
        have hmss : 0 < mss := by decide
        have hw' : ∀ w ∈ ws ++ [(⟨min buf mss, none⟩ : Wr)], 0 < w.size ∧ w.size ≤ mss := by
          intro w hw1
          rcases List.mem_append.mp hw1 with h | h
          · exact hw w h
          · simp at h; subst h; simp; omega
        obtain ⟨h1, h2, h3, h4⟩ := ih (buf - min buf mss) fr _ (ds ++ [d]) s' hw'
        refine ⟨h1, h2, h3, ?_⟩
        intro hok
        have := h4 hok
        simp only [sizes, List.map_append, List.sum_append, List.map_cons, List.map_nil,
          List.sum_cons, List.sum_nil] at this ⊢
        omega

/-! ### `iatParanoid` (post-fix code) -/

/-- case analysis of one paranoid iteration on a non-empty buffer, for a sample `t ≤ MSS` -/
theorem paranoidStep_spec (buf t : Nat) (hb : 0 < buf) (ht : t ≤ mss) :
    (t = 0 ∧ paranoidStep true buf t = .resample) ∨
    (0 < t ∧ t ≤ buf ∧ paranoidStep true buf t = .emit (buf - t) [] t) ∨
    (buf < t ∧ headerLength < t - buf ∧ paranoidStep true buf t = .emit 0 [t - buf] t) ∨
    (buf < t ∧ t - buf ≤ headerLength ∧
      paranoidStep true buf t = .grow (t + mss + headerLength) [mss, headerLength + (t - buf)]) := by
  by_cases h0 : t = 0
  · left; subst h0; exact ⟨rfl, by simp [paranoidStep]⟩
  · right
    by_cases hle : t ≤ buf
    · left
      refine ⟨by omega, hle, ?_⟩
      have hnlt : ¬ buf < t := by omega
      have hmin : min buf t = t := by omega
      simp [paranoidStep, emitOf, h0, hnlt, hmin]
    · right
      have hlt : buf < t := by omega
      have hmod : buf % mss = buf := Nat.mod_eq_of_lt (by omega)
      have hpl : padLen buf t = t - buf := by
        unfold padLen
        simp only [hmod]
        rw [if_pos (by omega)]
      have hpb := padBurst_eq buf t ht
      rw [hpl] at hpb
      by_cases hbig : headerLength < t - buf
      · left
        refine ⟨hlt, hbig, ?_⟩
        rw [if_pos hbig] at hpb
        have hsum : buf + (t - buf) = t := by omega
        simp [paranoidStep, emitOf, h0, hlt, hpb, hsum]
      · right
        refine ⟨hlt, by omega, ?_⟩
        rw [if_neg hbig, if_pos (by omega)] at hpb
        have hsum : buf + (mss + (headerLength + (t - buf))) = t + mss + headerLength := by omega
        have hmss : 0 < mss := by decide
        have hne : ¬ (t + mss + headerLength = t) := by omega
        simp [paranoidStep, h0, hlt, hpb, hsum, hne]

/-- a paranoid-mode write is fine: it is exactly the sample drawn for it, non-zero, `≤ MSS` -/
def WrOK (w : Wr) : Prop := w.sample = some w.size ∧ w.size ≠ 0 ∧ w.size ≤ mss

/-- every length sample is at most one segment (what `C12.sample_in_table` gives for the
    `[0, MSS]` length distribution) -/
def LenBounded {σ : Type} (S : Sampler σ) : Prop :=
  ∀ s t s', S.len s = some (t, s') → t ≤ mss

theorem paranoidLoop_good {σ : Type} (S : Sampler σ) (hS : LenBounded S) :
    ∀ (fuel buf : Nat) (fr : List Nat) (ws : List Wr) (ds : List Nat) (s : σ),
    (∀ x ∈ fr, x ≤ mss) → (∀ w ∈ ws, WrOK w) →
    (∀ x ∈ (paranoidLoop S true fuel buf fr ws ds s).frames, x ≤ mss) ∧
    (∀ w ∈ (paranoidLoop S true fuel buf fr ws ds s).writes, WrOK w) ∧
    ((paranoidLoop S true fuel buf fr ws ds s).status = .ok ∨
      (paranoidLoop S true fuel buf fr ws ds s).status = .starved) := by
  intro fuel
  induction fuel with
  | zero => intro buf fr ws ds s hf hw; exact ⟨hf, hw, Or.inr rfl⟩
  | succ f ih =>
    intro buf fr ws ds s hf hw
    by_cases hb : buf = 0
    · subst hb
      rw [paranoidLoop_done]
      exact ⟨hf, hw, Or.inl rfl⟩
    · cases hlen : S.len s with
      | none =>
        rw [paranoidLoop_none S true f buf hb fr ws ds s hlen]
        exact ⟨hf, hw, Or.inr rfl⟩
      | some p =>
        obtain ⟨t, s1⟩ := p
        rw [paranoidLoop_some S true f buf hb fr ws ds s t s1 hlen]
        have ht := hS s t s1 hlen
        have hhdr : 2 * headerLength ≤ mss := by decide
        rcases paranoidStep_spec buf t (by omega) ht with
          ⟨_, hst⟩ | ⟨h0, hle, hst⟩ | ⟨hlt, hbig, hst⟩ | ⟨hlt, hsm, hst⟩
        · rw [hst]
          exact ih buf fr ws ds s1 hf hw
        · rw [hst]
          have hfr : ∀ x ∈ fr ++ ([] : List Nat), x ≤ mss := by simpa using hf
          cases hi : S.iat s1 with
          | none => exact ⟨hfr, hw, Or.inr rfl⟩
          | some q =>
            obtain ⟨d, s2⟩ := q
            apply ih _ _ _ _ _ hfr
            intro w hw1
            rcases List.mem_append.mp hw1 with h | h
            · exact hw w h
            · simp at h; subst h; exact ⟨rfl, by simp; omega, ht⟩
        · rw [hst]
          have hfr : ∀ x ∈ fr ++ [t - buf], x ≤ mss := by
            intro x hx
            rcases List.mem_append.mp hx with h | h
            · exact hf x h
            · simp at h; subst h; omega
          cases hi : S.iat s1 with
          | none => exact ⟨hfr, hw, Or.inr rfl⟩
          | some q =>
            obtain ⟨d, s2⟩ := q
            apply ih _ _ _ _ _ hfr
            intro w hw1
            rcases List.mem_append.mp hw1 with h | h
            · exact hw w h
            · simp at h; subst h; exact ⟨rfl, by simp; omega, ht⟩
        · rw [hst]
          apply ih _ _ _ _ _ _ hw
          intro x hx
          rcases List.mem_append.mp hx with h | h
          · exact hf x h
          · simp at h
            rcases h with rfl | rfl <;> omega

end O4.Shaping
