import O4.Lemmas.Framing
import O4.Model.Obfs4Session
/-!
# obfs4 data phase, sender side: `makePacket`, `chop`, `txPackets`, `padBurstPads` (core only)
-/
set_option autoImplicit false
namespace O4.Obfs4
open O4.Consts.Obfs4 O4.Framing

/-! ## `chop` -/

theorem chop_nil (sz : Nat) : chop sz [] = [] := by
  rw [chop]; simp

theorem chop_zero (d : Bytes) : chop 0 d = [] := by
  rw [chop]; simp

theorem chop_cons (sz : Nat) (d : Bytes) (hs : sz ≠ 0) (hd : d ≠ []) :
    chop sz d = d.take sz :: chop sz (d.drop sz) := by
  rw [chop]; simp [hs, hd]

private theorem chop_spec_aux (sz : Nat) (hs : 0 < sz) :
    ∀ (n : Nat) (d : Bytes), d.length ≤ n →
      (chop sz d).flatten = d ∧ ∀ ch ∈ chop sz d, 0 < ch.length ∧ ch.length ≤ sz := by
  intro n
  induction n with
  | zero =>
    intro d hd
    have : d = [] := List.eq_nil_of_length_eq_zero (by omega)
    subst this
    simp [chop_nil]
  | succ n ih =>
    intro d hd
    by_cases hnil : d = []
    · subst hnil; simp [chop_nil]
    · have hpos : 0 < d.length := List.length_pos_iff.mpr hnil
      rw [chop_cons sz d (by omega) hnil]
      have hdrop : (d.drop sz).length ≤ n := by simp only [List.length_drop]; omega
      obtain ⟨h1, h2⟩ := ih (d.drop sz) hdrop
      refine ⟨?_, ?_⟩
      · rw [List.flatten_cons, h1, List.take_append_drop]
      · intro ch hch
        rcases List.mem_cons.mp hch with rfl | hch
        · simp only [List.length_take]; omega
        · exact h2 ch hch

/-- the chunks of `chop` concatenate to the data -/
theorem chop_flatten (sz : Nat) (hs : 0 < sz) (d : Bytes) : (chop sz d).flatten = d :=
  (chop_spec_aux sz hs d.length d (Nat.le_refl _)).1

/-- every chunk of `chop` is non-empty and at most `sz` long -/
theorem chop_len (sz : Nat) (d : Bytes) : ∀ ch ∈ chop sz d, 0 < ch.length ∧ ch.length ≤ sz := by
  by_cases hs : sz = 0
  · subst hs; simp [chop_zero]
  · exact (chop_spec_aux sz (by omega) d.length d (Nat.le_refl _)).2

/-! ## `makePacket` -/

/-- the plaintext `makePacket` builds when its precondition holds -/
def rawPacket (ty : Nat) (data : Bytes) (pad : Nat) : Bytes :=
  UInt8.ofNat ty :: putBe16 data.length ++ data ++ Bytes.zeros pad

theorem makePacket_eq (ty : Nat) (data : Bytes) (pad : Nat)
    (h : data.length + pad ≤ maxPacketPayloadLength) :
    makePacket ty data pad = some (rawPacket ty data pad) := by
  unfold makePacket rawPacket
  rw [if_neg (by omega)]

theorem makePacket_some (ty : Nat) (data : Bytes) (pad : Nat) (pkt : Bytes)
    (h : makePacket ty data pad = some pkt) :
    data.length + pad ≤ maxPacketPayloadLength ∧ pkt = rawPacket ty data pad := by
  unfold makePacket at h
  by_cases hl : data.length + pad > maxPacketPayloadLength
  · rw [if_pos hl] at h; cases h
  · rw [if_neg hl] at h
    exact ⟨by omega, (Option.some.inj h).symm⟩

theorem rawPacket_length (ty : Nat) (data : Bytes) (pad : Nat) :
    (rawPacket ty data pad).length = packetOverhead + data.length + pad := by
  simp [rawPacket, putBe16, Bytes.zeros, packetOverhead]; omega

theorem makePacket_len (ty : Nat) (data : Bytes) (pad : Nat) (pkt : Bytes)
    (h : makePacket ty data pad = some pkt) :
    pkt.length = packetOverhead + data.length + pad ∧
      pkt.length ≤ Consts.Framing.maximumFramePayloadLength := by
  obtain ⟨hl, rfl⟩ := makePacket_some ty data pad pkt h
  rw [rawPacket_length]
  refine ⟨rfl, ?_⟩
  simp only [packetOverhead, maxPacketPayloadLength, Consts.Framing.maximumFramePayloadLength] at *
  omega

/-- the length field of a well-formed packet reads back as the payload length -/
theorem rawPacket_be16 (ty : Nat) (data : Bytes) (pad : Nat)
    (h : data.length + pad ≤ maxPacketPayloadLength) :
    be16 ((rawPacket ty data pad).drop 1) = data.length := by
  have : (rawPacket ty data pad).drop 1 = putBe16 data.length ++ (data ++ Bytes.zeros pad) := by
    simp [rawPacket]
  rw [this]
  apply be16_putBe16
  simp only [maxPacketPayloadLength] at h
  omega

theorem rawPacket_payload (ty : Nat) (data : Bytes) (pad : Nat) :
    ((rawPacket ty data pad).drop 3).take data.length = data := by
  have : (rawPacket ty data pad).drop 3 = data ++ Bytes.zeros pad := by
    simp [rawPacket, putBe16]
  rw [this, List.take_left']
  rfl

/-- what the receiver does with a packet built by `makePacket` (any type byte) -/
theorem parsePacket_rawPacket (srv : Bool) (ty : Nat) (data : Bytes) (pad : Nat)
    (h : data.length + pad ≤ maxPacketPayloadLength) :
    parsePacket srv (rawPacket ty data pad) =
      if (UInt8.ofNat ty).toNat = packetTypePayload then
        (if data.length > 0 then .payload data else .ignored)
      else if (UInt8.ofNat ty).toNat = packetTypePrngSeed then
        (if data.length = seedPacketPayloadLength ∧ !srv then .seed data else .ignored)
      else .ignored := by
  unfold parsePacket
  have h1 : ¬ (rawPacket ty data pad).length < packetOverhead := by
    rw [rawPacket_length]; omega
  have h2 : ¬ be16 ((rawPacket ty data pad).drop 1) > (rawPacket ty data pad).length - packetOverhead := by
    rw [rawPacket_be16 ty data pad h, rawPacket_length]; omega
  rw [if_neg h1]
  simp only
  rw [if_neg h2, rawPacket_be16 ty data pad h, rawPacket_payload]
  have : ((rawPacket ty data pad).getD 0 0) = UInt8.ofNat ty := by simp [rawPacket]
  rw [this]

/-- a packet made by `makePacket` never fails the receiver's range checks -/
theorem makePacket_not_bad (srv : Bool) (ty : Nat) (data : Bytes) (pad : Nat) (pkt : Bytes)
    (h : makePacket ty data pad = some pkt) : ∀ e, parsePacket srv pkt ≠ .bad e := by
  obtain ⟨hl, rfl⟩ := makePacket_some ty data pad pkt h
  intro e
  rw [parsePacket_rawPacket srv ty data pad hl]
  repeat' split
  all_goals (intro hc; cases hc)

theorem payloadOf_rawPacket (srv : Bool) (data : Bytes) (pad : Nat)
    (h : data.length + pad ≤ maxPacketPayloadLength) :
    payloadOf srv (rawPacket packetTypePayload data pad) = data := by
  unfold payloadOf
  rw [parsePacket_rawPacket srv _ data pad h]
  have : (UInt8.ofNat packetTypePayload).toNat = packetTypePayload := by decide
  rw [if_pos this]
  by_cases hd : data.length > 0
  · rw [if_pos hd]
  · rw [if_neg hd]
    have : data = [] := List.eq_nil_of_length_eq_zero (by omega)
    simp [this]

theorem payloadOf_makePacket (srv : Bool) (data : Bytes) (pad : Nat) (pkt : Bytes)
    (h : makePacket packetTypePayload data pad = some pkt) : payloadOf srv pkt = data := by
  obtain ⟨hl, rfl⟩ := makePacket_some _ data pad pkt h
  exact payloadOf_rawPacket srv data pad hl

/-! ## `allSome`, `txPackets` -/

theorem allSome_map_some (ps : List Bytes) : allSome (ps.map some) = some ps := by
  induction ps with
  | nil => rfl
  | cons p ps ih => simp [allSome, ih]

private theorem flatMap_congr_mem {α β : Type} (l : List α) (f g : α → List β)
    (h : ∀ a ∈ l, f a = g a) : l.flatMap f = l.flatMap g := by
  induction l with
  | nil => rfl
  | cons a l ih =>
    rw [List.flatMap_cons, List.flatMap_cons, h a (by simp), ih (fun b hb => h b (by simp [hb]))]

/-- the packets of one `Write(data)` followed by padding packets: no `makePacket` panic, the
    payloads concatenate to exactly `data`, every packet fits a frame and passes the receiver's
    packet checks. -/
theorem tx_payload (srv : Bool) (data : Bytes) (pads : List Nat)
    (hp : ∀ p ∈ pads, p ≤ maxPacketPaddingLength) :
    ∃ pkts, allSome (txPackets data pads) = some pkts ∧
      pkts.flatMap (payloadOf srv) = data ∧
      (∀ p ∈ pkts, p.length ≤ Consts.Framing.maximumFramePayloadLength) ∧
      (∀ p ∈ pkts, ∀ e, parsePacket srv p ≠ .bad e) := by
  have hch := chop_len maxPacketPayloadLength data
  have hpad : ∀ p ∈ pads, ([] : Bytes).length + p ≤ maxPacketPayloadLength := by
    intro p hpm
    have := hp p hpm
    simp only [maxPacketPaddingLength, maxPacketPayloadLength, List.length_nil] at *
    omega
  have htx : txPackets data pads =
      ((chop maxPacketPayloadLength data).map (fun ch => rawPacket packetTypePayload ch 0) ++
        pads.map (fun p => rawPacket packetTypePayload [] p)).map some := by
    unfold txPackets
    rw [List.map_append, List.map_map, List.map_map]
    congr 1
    · apply List.map_congr_left
      intro ch hc
      exact makePacket_eq _ ch 0 (by have := (hch ch hc).2; omega)
    · apply List.map_congr_left
      intro p hpm
      exact makePacket_eq _ [] p (hpad p hpm)
  have hmk : ∀ p ∈ ((chop maxPacketPayloadLength data).map (fun ch => rawPacket packetTypePayload ch 0) ++
        pads.map (fun p => rawPacket packetTypePayload [] p)),
      ∃ d pad, makePacket packetTypePayload d pad = some p := by
    intro p hm
    rcases List.mem_append.mp hm with hm | hm
    · obtain ⟨ch, hc, rfl⟩ := List.mem_map.mp hm
      exact ⟨ch, 0, makePacket_eq _ ch 0 (by have := (hch ch hc).2; omega)⟩
    · obtain ⟨q, hq, rfl⟩ := List.mem_map.mp hm
      exact ⟨[], q, makePacket_eq _ [] q (hpad q hq)⟩
  refine ⟨_, by rw [htx, allSome_map_some], ?_, ?_, ?_⟩
  · rw [List.flatMap_append, List.flatMap_map, List.flatMap_map]
    have h1 : (chop maxPacketPayloadLength data).flatMap
        (fun ch => payloadOf srv (rawPacket packetTypePayload ch 0)) = data := by
      have : (chop maxPacketPayloadLength data).flatMap
          (fun ch => payloadOf srv (rawPacket packetTypePayload ch 0))
          = (chop maxPacketPayloadLength data).flatMap (fun ch => ch) := by
        apply flatMap_congr_mem
        intro ch hc
        exact payloadOf_rawPacket srv ch 0 (by have := (hch ch hc).2; omega)
      rw [this, List.flatMap_id']
      exact chop_flatten _ (by decide) data
    have h2 : pads.flatMap (fun p => payloadOf srv (rawPacket packetTypePayload [] p)) = [] := by
      rw [List.flatMap_eq_nil_iff]
      intro p hpm
      exact payloadOf_rawPacket srv [] p (hpad p hpm)
    rw [h1, h2, List.append_nil]
  · intro p hm
    obtain ⟨d, pad, h⟩ := hmk p hm
    exact (makePacket_len _ d pad p h).2
  · intro p hm
    obtain ⟨d, pad, h⟩ := hmk p hm
    exact makePacket_not_bad srv _ d pad p h

/-! ## the padding policy -/

/-- the padding lengths `padBurst` asks of `makePacket` are within its limit -/
theorem padBurstPads_ok (burstLen toPadTo : Nat)
    (h : toPadTo ≤ Consts.Framing.maximumSegmentLength) :
    ∀ p ∈ padBurstPads burstLen toPadTo, p ≤ maxPacketPaddingLength := by
  intro p hp
  have hmod : burstLen % Consts.Framing.maximumSegmentLength < Consts.Framing.maximumSegmentLength :=
    Nat.mod_lt _ (by decide)
  have hpl : (if toPadTo ≥ burstLen % Consts.Framing.maximumSegmentLength
      then toPadTo - burstLen % Consts.Framing.maximumSegmentLength
      else (Consts.Framing.maximumSegmentLength - burstLen % Consts.Framing.maximumSegmentLength) + toPadTo)
      ≤ Consts.Framing.maximumSegmentLength := by
    split <;> omega
  unfold padBurstPads at hp
  simp only at hp
  generalize (if toPadTo ≥ burstLen % Consts.Framing.maximumSegmentLength
      then toPadTo - burstLen % Consts.Framing.maximumSegmentLength
      else (Consts.Framing.maximumSegmentLength - burstLen % Consts.Framing.maximumSegmentLength) + toPadTo)
      = padLen at hp hpl
  by_cases h1 : padLen > headerLength
  · rw [if_pos h1] at hp
    simp only [Consts.Framing.maximumSegmentLength, headerLength, maxPacketPaddingLength] at *
    simp at hp; omega
  · rw [if_neg h1] at hp
    by_cases h2 : padLen > 0
    · rw [if_pos h2] at hp
      simp only [Consts.Framing.maximumSegmentLength, headerLength, maxPacketPayloadLength,
        maxPacketPaddingLength] at *
      simp at hp; omega
    · rw [if_neg h2] at hp; simp at hp


theorem allSome_append (a b : List (Option Bytes)) (pa pb : List Bytes)
    (ha : allSome a = some pa) (hb : allSome b = some pb) : allSome (a ++ b) = some (pa ++ pb) := by
  induction a generalizing pa with
  | nil => simp [allSome] at ha; subst ha; simpa using hb
  | cons x xs ih =>
    cases x with
    | none => simp [allSome] at ha
    | some p =>
      simp only [allSome, Option.map_eq_some_iff] at ha
      obtain ⟨q, hq, rfl⟩ := ha
      simp [allSome, ih q hq]

/-- a whole sequence of `Write`s: the packets are well formed, carry exactly the concatenation
    of the written data, fit their frames and pass the receiver's packet checks -/
theorem txAll_payload (srv : Bool) (ws : List (Bytes × List Nat))
    (hp : ∀ w ∈ ws, ∀ p ∈ w.2, p ≤ maxPacketPaddingLength) :
    ∃ pkts, allSome (txAll ws) = some pkts ∧
      pkts.flatMap (payloadOf srv) = (ws.map (·.1)).flatten ∧
      (∀ p ∈ pkts, p.length ≤ Consts.Framing.maximumFramePayloadLength) ∧
      (∀ p ∈ pkts, ∀ e, parsePacket srv p ≠ .bad e) := by
  induction ws with
  | nil => exact ⟨[], rfl, rfl, by simp, by simp⟩
  | cons w ws ih =>
    obtain ⟨p1, h1, h2, h3, h4⟩ := tx_payload srv w.1 w.2 (hp w (by simp))
    obtain ⟨p2, g1, g2, g3, g4⟩ := ih (fun w' hw' => hp w' (by simp [hw']))
    refine ⟨p1 ++ p2, ?_, ?_, ?_, ?_⟩
    · simp only [txAll, List.flatMap_cons]
      exact allSome_append _ _ _ _ h1 g1
    · simp [List.flatMap_append, h2, g2]
    · intro p hpm
      rcases List.mem_append.mp hpm with h | h
      · exact h3 p h
      · exact g3 p h
    · intro p hpm
      rcases List.mem_append.mp hpm with h | h
      · exact h4 p h
      · exact g4 p h

end O4.Obfs4
