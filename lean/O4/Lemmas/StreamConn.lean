import O4.Model.StreamConn
/-!
# Keystream XOR and network-queue lemmas (core only)

For an abstract keystream `ks : Nat → UInt8` (no AES reasoning): XOR is length preserving, additive
in the position (`xorAt_append`: processing a stream in pieces = processing it whole) and an
involution (`xorAt_xorAt`). `Net.read` / `Net.dropBytes` only re-segment the queued bytes.
-/
namespace O4.SC

theorem xorAt_length (ks : Nat → UInt8) (off : Nat) (d : Bytes) : (xorAt ks off d).length = d.length := by
  induction d generalizing off with
  | nil => rfl
  | cons b r ih => simp [xorAt, ih]

/-- position additivity -/
theorem xorAt_append (ks : Nat → UInt8) (off : Nat) (a b : Bytes) :
    xorAt ks off (a ++ b) = xorAt ks off a ++ xorAt ks (off + a.length) b := by
  induction a generalizing off with
  | nil => simp [xorAt]
  | cons x r ih =>
    simp only [List.cons_append, xorAt, ih, List.length_cons]
    rw [show off + 1 + r.length = off + (r.length + 1) by omega]

/-- keystream XOR is an involution -/
theorem xorAt_xorAt (ks : Nat → UInt8) (off : Nat) (d : Bytes) : xorAt ks off (xorAt ks off d) = d := by
  induction d generalizing off with
  | nil => rfl
  | cons b r ih =>
    simp only [xorAt, ih]
    rw [UInt8.xor_assoc, UInt8.xor_self, UInt8.xor_zero]

theorem xorAt_take (ks : Nat → UInt8) (off n : Nat) (d : Bytes) :
    (xorAt ks off d).take n = xorAt ks off (d.take n) := by
  induction d generalizing off n with
  | nil => simp [xorAt]
  | cons b r ih =>
    cases n with
    | zero => simp [xorAt]
    | succ n => simp [xorAt, ih]

theorem xorAt_drop (ks : Nat → UInt8) (off n : Nat) (d : Bytes) :
    (xorAt ks off d).drop n = xorAt ks (off + n) (d.drop n) := by
  induction d generalizing off n with
  | nil => simp [xorAt]
  | cons b r ih =>
    cases n with
    | zero => simp [xorAt]
    | succ n =>
      simp only [xorAt, List.drop_succ_cons, ih]
      rw [show off + 1 + n = off + (n + 1) by omega]

/-- a sequence of `XORKeyStream` calls on successive pieces: the list of outputs -/
def xorPieces (ks : Nat → UInt8) : Nat → List Bytes → List Bytes
  | _, [] => []
  | off, p :: ps => xorAt ks off p :: xorPieces ks (off + p.length) ps

/-- any segmentation = the whole stream -/
theorem xorPieces_flatten (ks : Nat → UInt8) (off : Nat) (ps : List Bytes) :
    (xorPieces ks off ps).flatten = xorAt ks off ps.flatten := by
  induction ps generalizing off with
  | nil => simp [xorPieces, xorAt]
  | cons p ps ih => simp [xorPieces, xorAt_append, ih]

namespace Net

theorem read_flatten {max : Nat} {q q' : Net} {c : Bytes} (h : read max q = some (c, q')) :
    c ++ q'.flatten = q.flatten := by
  cases q with
  | nil => simp [read] at h
  | cons c0 q0 =>
    simp only [read] at h
    by_cases hc : c0.length ≤ max
    · simp only [hc, ↓reduceIte, Option.some.injEq, Prod.mk.injEq] at h
      obtain ⟨rfl, rfl⟩ := h; simp
    · simp only [hc, ↓reduceIte, Option.some.injEq, Prod.mk.injEq] at h
      obtain ⟨rfl, rfl⟩ := h
      simp [← List.append_assoc, List.take_append_drop]

theorem read_length_le {max : Nat} {q q' : Net} {c : Bytes} (h : read max q = some (c, q')) :
    c.length ≤ max := by
  cases q with
  | nil => simp [read] at h
  | cons c0 q0 =>
    simp only [read] at h
    by_cases hc : c0.length ≤ max
    · simp only [hc, ↓reduceIte, Option.some.injEq, Prod.mk.injEq] at h
      obtain ⟨rfl, rfl⟩ := h; exact hc
    · simp only [hc, ↓reduceIte, Option.some.injEq, Prod.mk.injEq] at h
      obtain ⟨rfl, rfl⟩ := h
      simp; omega

theorem read_eq_none {max : Nat} {q : Net} : read max q = none ↔ q = [] := by
  cases q with
  | nil => simp [read]
  | cons c0 q0 => simp only [read]; split <;> simp

theorem dropBytes_flatten (n : Nat) (q : Net) : (dropBytes n q).flatten = q.flatten.drop n := by
  induction q generalizing n with
  | nil => cases n <;> simp [dropBytes]
  | cons c q ih =>
    cases n with
    | zero => simp [dropBytes]
    | succ n =>
      simp only [dropBytes]
      by_cases hc : c.length ≤ n + 1
      · simp only [hc, ↓reduceIte, ih, List.flatten_cons]
        rw [List.drop_append, List.drop_of_length_le hc]; simp
      · simp only [hc, ↓reduceIte, List.flatten_cons]
        rw [List.drop_append_of_le_length (by omega)]

theorem push_flatten (q : Net) (c : Bytes) : (push q c).flatten = q.flatten ++ c := by
  unfold push
  by_cases h : c.isEmpty
  · simp only [h, ↓reduceIte]; simp [List.isEmpty_iff.mp h]
  · simp [h]


theorem read_props {max : Nat} (hmax : 0 < max) {q q' : Net} {c : Bytes}
    (hq : ∀ ch ∈ q, ch ≠ []) (h : read max q = some (c, q')) :
    c ≠ [] ∧ size q' < size q ∧ (∀ ch ∈ q', ch ≠ []) := by
  cases q with
  | nil => simp [read] at h
  | cons c0 q0 =>
    have hc0 : c0 ≠ [] := hq c0 (by simp)
    have hl0 : 0 < c0.length := List.length_pos_iff.mpr hc0
    simp only [read] at h
    by_cases hc : c0.length ≤ max
    · simp only [hc, ↓reduceIte, Option.some.injEq, Prod.mk.injEq] at h
      obtain ⟨rfl, rfl⟩ := h
      refine ⟨hc0, ?_, fun ch hch => hq ch (by simp [hch])⟩
      simp only [size, List.flatten_cons, List.length_append]; omega
    · simp only [hc, ↓reduceIte, Option.some.injEq, Prod.mk.injEq] at h
      obtain ⟨rfl, rfl⟩ := h
      refine ⟨?_, ?_, ?_⟩
      · intro he
        have : (c0.take max).length = 0 := by rw [he]; rfl
        rw [List.length_take] at this; omega
      · simp only [size, List.flatten_cons, List.length_append, List.length_drop]; omega
      · intro ch hch
        simp only [List.mem_cons] at hch
        rcases hch with rfl | hch
        · intro he
          have : (c0.drop max).length = 0 := by rw [he]; rfl
          rw [List.length_drop] at this; omega
        · exact hq ch (by simp [hch])

theorem push_nonempty {q : Net} (hq : ∀ ch ∈ q, ch ≠ []) (c : Bytes) : ∀ ch ∈ push q c, ch ≠ [] := by
  unfold push
  by_cases h : c.isEmpty
  · simpa [h] using hq
  · simp only [h, Bool.false_eq_true, ↓reduceIte, List.mem_append, List.mem_singleton]
    rintro ch (hch | rfl)
    · exact hq ch hch
    · intro he; simp [he] at h


theorem dropBytes_nonempty (n : Nat) {q : Net} (hq : ∀ ch ∈ q, ch ≠ []) : ∀ ch ∈ dropBytes n q, ch ≠ [] := by
  induction q generalizing n with
  | nil => cases n <;> simp [dropBytes]
  | cons c q ih =>
    cases n with
    | zero => simpa [dropBytes] using hq
    | succ n =>
      simp only [dropBytes]
      by_cases hc : c.length ≤ n + 1
      · simp only [hc, ↓reduceIte]
        exact ih _ (fun ch hch => hq ch (by simp [hch]))
      · simp only [hc, ↓reduceIte, List.mem_cons]
        rintro ch (rfl | hch)
        · intro he
          have : (c.drop (n + 1)).length = 0 := by rw [he]; rfl
          rw [List.length_drop] at this; omega
        · exact hq ch (by simp [hch])

end Net
end O4.SC
