import O4.Model.Socks5
/-!
# The rendering of `Request.Target` can be read back (core only)
-/
set_option linter.unusedSimpArgs false
namespace O4.Socks5
open O4

/-! ## the target rendering can be read back (injectivity) -/

def undecStep (a : Nat) (b : UInt8) : Nat := a * 10 + (b.toNat - 48)

theorem digit_toNat (n : Nat) : (UInt8.ofNat (48 + n % 10)).toNat = 48 + n % 10 := by
  have : 48 + n % 10 < 256 := by omega
  simp [UInt8.toNat_ofNat, Nat.mod_eq_of_lt this]

theorem decAux_foldl (f : Nat) : ∀ (n : Nat) (acc : Bytes), n < 10 ^ f → 0 < f →
    (decAux f n acc).foldl undecStep 0 = acc.foldl undecStep n := by
  induction f with
  | zero => intro n acc _ h; omega
  | succ f ih =>
    intro n acc hn _
    unfold decAux
    by_cases h10 : n < 10
    · simp only [h10, ↓reduceIte, List.foldl_cons, undecStep, digit_toNat]
      have : n % 10 = n := Nat.mod_eq_of_lt h10
      simp [this]
    · simp only [h10, ↓reduceIte]
      have hf : 0 < f := by
        cases f with
        | zero => simp at hn; omega
        | succ f => omega
      have hdiv : n / 10 < 10 ^ f := by
        rw [Nat.pow_succ] at hn
        exact Nat.div_lt_of_lt_mul (by omega)
      rw [ih (n / 10) _ hdiv hf]
      simp only [List.foldl_cons, undecStep, digit_toNat]
      have : n / 10 * 10 + (48 + n % 10 - 48) = n := by omega
      rw [this]

theorem undec_dec (n : Nat) : (dec n).foldl undecStep 0 = n := by
  unfold dec
  rw [decAux_foldl (n + 1) n [] (by
    have := Nat.lt_pow_self (n := n + 1) (a := 10) (by omega)
    omega) (by omega)]
  rfl

theorem dec_injective {n m : Nat} (h : dec n = dec m) : n = m := by
  have := congrArg (fun l => l.foldl undecStep 0) h
  simpa [undec_dec] using this

theorem decAux_digits (f : Nat) : ∀ (n : Nat) (acc : Bytes),
    (∀ b ∈ acc, 48 ≤ b.toNat ∧ b.toNat ≤ 57) → ∀ b ∈ decAux f n acc, 48 ≤ b.toNat ∧ b.toNat ≤ 57 := by
  induction f with
  | zero => intro n acc h; simpa [decAux] using h
  | succ f ih =>
    intro n acc h
    unfold decAux
    have hacc : ∀ b ∈ UInt8.ofNat (48 + n % 10) :: acc, 48 ≤ b.toNat ∧ b.toNat ≤ 57 := by
      intro b hb
      simp only [List.mem_cons] at hb
      rcases hb with rfl | hb
      · rw [digit_toNat]; omega
      · exact h b hb
    by_cases h10 : n < 10
    · simpa [h10] using hacc
    · simp only [h10, ↓reduceIte]
      exact ih _ _ hacc

theorem dec_digits (n : Nat) : ∀ b ∈ dec n, 48 ≤ b.toNat ∧ b.toNat ≤ 57 :=
  decAux_digits _ _ _ (by simp)

theorem colon_not_mem_dec (n : Nat) : COLON ∉ dec n := by
  intro h; have := dec_digits n _ h; simp [COLON] at this

theorem dot_not_mem_dec (n : Nat) : DOT ∉ dec n := by
  intro h; have := dec_digits n _ h; simp [DOT] at this

/-- splitting at the *last* occurrence of a separator is unambiguous -/
theorem append_cons_inj_last {c : UInt8} : ∀ {h h' d d' : Bytes}, c ∉ d → c ∉ d' →
    h ++ c :: d = h' ++ c :: d' → h = h' ∧ d = d' := by
  intro h
  induction h with
  | nil =>
    intro h' d d' hd hd' e
    cases h' with
    | nil => simpa using e
    | cons x t =>
      simp only [List.nil_append, List.cons_append, List.cons.injEq] at e
      exact absurd (by rw [e.2]; simp) hd
  | cons y s ih =>
    intro h' d d' hd hd' e
    cases h' with
    | nil =>
      simp only [List.nil_append, List.cons_append, List.cons.injEq] at e
      exact absurd (by rw [← e.2]; simp) hd'
    | cons x t =>
      simp only [List.cons_append, List.cons.injEq] at e
      obtain ⟨h1, h2⟩ := ih hd hd' e.2
      exact ⟨by rw [e.1, h1], h2⟩

/-- splitting at the *first* occurrence of a separator is unambiguous -/
theorem append_cons_inj_first {c : UInt8} : ∀ {d d' r r' : Bytes}, c ∉ d → c ∉ d' →
    d ++ c :: r = d' ++ c :: r' → d = d' ∧ r = r' := by
  intro d
  induction d with
  | nil =>
    intro d' r r' _ hd' e
    cases d' with
    | nil => simpa using e
    | cons x t =>
      simp only [List.nil_append, List.cons_append, List.cons.injEq] at e
      exact absurd (by rw [← e.1]; simp) hd'
  | cons y s ih =>
    intro d' r r' hd hd' e
    cases d' with
    | nil =>
      simp only [List.nil_append, List.cons_append, List.cons.injEq] at e
      exact absurd (by rw [e.1]; simp) hd
    | cons x t =>
      simp only [List.cons_append, List.cons.injEq] at e
      obtain ⟨h1, h2⟩ := ih (fun m => hd (by simp [m])) (fun m => hd' (by simp [m])) e.2
      exact ⟨by rw [e.1, h1], h2⟩

/-- host and port can be read back from a target: the port is what follows the last colon -/
theorem joinTarget_injective {h h' : Bytes} {p p' : Nat}
    (e : joinTarget h p = joinTarget h' p') : h = h' ∧ p = p' := by
  unfold joinTarget at e
  simp only [List.append_assoc, List.singleton_append] at e
  obtain ⟨h1, h2⟩ := append_cons_inj_last (colon_not_mem_dec p) (colon_not_mem_dec p') e
  exact ⟨h1, dec_injective h2⟩

theorem ipv4String_injective {a b c d a' b' c' d' : UInt8}
    (e : ipv4String a b c d = ipv4String a' b' c' d') : a = a' ∧ b = b' ∧ c = c' ∧ d = d' := by
  unfold ipv4String at e
  simp only [List.append_assoc, List.singleton_append] at e
  obtain ⟨h1, e⟩ := append_cons_inj_first (dot_not_mem_dec _) (dot_not_mem_dec _) e
  obtain ⟨h2, e⟩ := append_cons_inj_first (dot_not_mem_dec _) (dot_not_mem_dec _) e
  obtain ⟨h3, h4⟩ := append_cons_inj_first (dot_not_mem_dec _) (dot_not_mem_dec _) e
  exact ⟨UInt8.toNat_inj.mp (dec_injective h1), UInt8.toNat_inj.mp (dec_injective h2),
    UInt8.toNat_inj.mp (dec_injective h3), UInt8.toNat_inj.mp (dec_injective h4)⟩

end O4.Socks5
