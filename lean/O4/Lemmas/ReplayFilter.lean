import O4.Model.ReplayFilter
/-! Helper lemmas about the replay-filter model (core only). -/
namespace O4.RF

theorem compactList_suffix (ttl cap now) (l : List Entry) :
    ∃ k, compactList ttl cap now l = l.drop k := by
  induction l with
  | nil => exact ⟨0, rfl⟩
  | cons e rest ih =>
    unfold compactList
    obtain ⟨k, hk⟩ := ih
    split
    · simp only
      split
      · exact ⟨(e :: rest).length, by simp⟩
      · split
        · exact ⟨0, rfl⟩
        · exact ⟨k+1, by simpa using hk⟩
    · exact ⟨k+1, by simpa using hk⟩

theorem compactList_sublist (ttl cap now) (l : List Entry) :
    (compactList ttl cap now l).Sublist l := by
  obtain ⟨k, hk⟩ := compactList_suffix ttl cap now l
  rw [hk]; exact List.drop_sublist k l

theorem compactList_length_le (ttl cap now) (l : List Entry) :
    (compactList ttl cap now l).length ≤ l.length :=
  (compactList_sublist ttl cap now l).length_le

/-- after compaction of a list of length ≤ cap (cap>0) there is room for one more entry -/
theorem compactList_room (ttl cap now) (l : List Entry) (hc : 0 < cap) (hl : l.length ≤ cap) :
    (compactList ttl cap now l).length < cap := by
  induction l with
  | nil => simpa [compactList] using hc
  | cons e rest ih =>
    unfold compactList
    split
    · rename_i h
      simp only
      split
      · simpa using hc
      · split
        · exact h.1
        · exact ih (by simp at hl; omega)
    · have := compactList_length_le ttl cap now rest
      simp at hl; omega

theorem testAndSet_cap (f : Filter) (now : Int) (d : Nat) (hc : 0 < f.cap)
    (h : f.fifo.length ≤ f.cap) :
    (f.testAndSet now d).1.fifo.length ≤ f.cap ∧ (f.testAndSet now d).1.cap = f.cap
      ∧ (f.testAndSet now d).1.ttl = f.ttl := by
  unfold Filter.testAndSet Filter.compact
  have := compactList_room f.ttl f.cap now f.fifo hc h
  simp only
  split <;> simp <;> omega

def Sorted (l : List Entry) : Prop := l.Pairwise (fun a b => a.t ≤ b.t)

/-- digests pairwise distinct -/
def Distinct (l : List Entry) : Prop := l.Pairwise (fun a b => a.d ≠ b.d)

theorem testAndSet_distinct (f : Filter) (now : Int) (d : Nat) (h : Distinct f.fifo) :
    Distinct (f.testAndSet now d).1.fifo := by
  unfold Filter.testAndSet Filter.compact
  have hs := compactList_sublist f.ttl f.cap now f.fifo
  have hd : Distinct (compactList f.ttl f.cap now f.fifo) := List.Pairwise.sublist hs h
  simp only
  split
  · exact hd
  · rename_i hany
    simp only [Distinct, List.pairwise_append, List.pairwise_cons, List.Pairwise.nil]
    refine ⟨hd, ⟨by simp, trivial⟩, ?_⟩
    intro a ha b hb
    simp at hb; subst hb
    simp at hany
    exact hany a ha

theorem compactList_eq_filter (ttl : Int) (cap : Nat) (now : Int) (l : List Entry)
    (hs : Sorted l) (hnow : ∀ e ∈ l, e.t ≤ now) (hl : l.length < cap) (httl : 0 < ttl) :
    compactList ttl cap now l = l.filter (fun e => decide (now - e.t < ttl)) := by
  induction l with
  | nil => rfl
  | cons e rest ih =>
    have hs' : Sorted rest := (List.pairwise_cons.mp hs).2
    have hle : ∀ e' ∈ rest, e.t ≤ e'.t := (List.pairwise_cons.mp hs).1
    have he : e.t ≤ now := hnow e (by simp)
    unfold compactList
    rw [if_pos ⟨hl, httl⟩]
    simp only
    rw [if_neg (by omega)]
    by_cases hδ : now - e.t < ttl
    · rw [if_pos hδ]
      symm
      rw [List.filter_eq_self]
      intro a ha
      simp at ha
      rcases ha with rfl | ha
      · simpa using hδ
      · have := hle a ha; simp; omega
    · rw [if_neg hδ, List.filter_cons_of_neg (by simpa using hδ)]
      exact ih hs' (fun e' h => hnow e' (by simp [h])) (by simp at hl; omega)

/-- the abstract spec: a set of (value, insertion time) with expiry -/
def specStep (ttl : Int) (S : List Entry) (now : Int) (d : Nat) : List Entry × Bool :=
  let S' := S.filter (fun e => decide (now - e.t < ttl))
  if S'.any (fun e => e.d == d) then (S', true) else (S' ++ [⟨d, now⟩], false)

theorem testAndSet_refines (f : Filter) (now : Int) (d : Nat)
    (hs : Sorted f.fifo) (hnow : ∀ e ∈ f.fifo, e.t ≤ now) (hl : f.fifo.length < f.cap) (httl : 0 < f.ttl) :
    ((f.testAndSet now d).1.fifo, (f.testAndSet now d).2) = specStep f.ttl f.fifo now d := by
  unfold Filter.testAndSet Filter.compact specStep
  simp only [compactList_eq_filter f.ttl f.cap now f.fifo hs hnow hl httl]
  split <;> rfl

end O4.RF
