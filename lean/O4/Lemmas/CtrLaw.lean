import O4.Model.StreamConn
import O4.Lemmas.CryptoBasic
/-!
# The executable AES-CTR stream function is a keystream XOR (core only)
`aesCtrXor key iv off data = xorAt (aesKs key iv) off data`: the theorems stated for an abstract
keystream apply to the function the drivers run.
-/
namespace O4.SC
open O4.Crypto

/-- byte `i` of the AES-CTR keystream under `(key, iv)` -/
def aesKs (key iv : Bytes) (i : Nat) : UInt8 :=
  streamByte 16 (Aes.ctrBlock (Aes.expandKey key) (Bytes.toNatBE iv)) i

theorem zipWith_range'_eq_xorAt (f : Nat → UInt8) (off : Nat) (d : Bytes) :
    List.zipWith (· ^^^ ·) d ((List.range' off d.length).map f) = xorAt f off d := by
  induction d generalizing off with
  | nil => simp [xorAt]
  | cons b r ih =>
    simp only [List.length_cons, List.range'_succ, List.map_cons, List.zipWith_cons_cons, xorAt, ih]

theorem aesCtrXor_law : SXor.Law aesCtrXor aesKs := by
  intro key iv off data
  unfold aesCtrXor aesCtrKeystream xorBytes
  rw [blockStream_eq_map 16 _ (Aes.ctrBlock_length _ _) (by omega)]
  exact zipWith_range'_eq_xorAt _ off data

end O4.SC
