import O4.Model.Socks5
/-!
# Generic facts about handshake programs (`Prog`), the bufio reader and chunk normalisation
(core only).  Everything here is independent of the concrete SOCKS5 handshake.
-/
set_option linter.unusedSimpArgs false
namespace O4.Socks5
open O4

/-! ## reader -/

theorem refill_spec (eof : Bool) (cs : List Bytes) :
    match refill eof cs with
    | .byte b r' => cs.flatten = b :: r'.stream ∧ r'.eof = eof
    | .eof => cs.flatten = [] ∧ eof = true
    | .blocked => cs.flatten = [] ∧ eof = false := by
  induction cs with
  | nil => cases eof <;> simp [refill]
  | cons c cs ih =>
    cases c with
    | nil => simpa [refill] using ih
    | cons b bs => simp [refill, Reader.stream]

theorem readByte_spec (r : Reader) :
    match r.readByte with
    | .byte b r' => r.stream = b :: r'.stream ∧ r'.eof = r.eof
    | .eof => r.stream = [] ∧ r.eof = true
    | .blocked => r.stream = [] ∧ r.eof = false := by
  obtain ⟨buf, rest, eof⟩ := r
  cases buf with
  | nil => simpa [Reader.readByte, Reader.stream] using refill_spec eof rest
  | cons b bs => simp [Reader.readByte, Reader.stream]

/-- read `n` bytes (stop at the first failing read) -/
def Reader.advance : Nat → Reader → Reader
  | 0, r => r
  | n + 1, r =>
    match r.readByte with
    | .byte _ r' => Reader.advance n r'
    | _ => r

theorem advance_succ_byte (r r' : Reader) (b : UInt8) (n : Nat) (h : r.readByte = .byte b r') :
    r.advance (n + 1) = r'.advance n := by
  simp [Reader.advance, h]

theorem advance_succ_fail (r : Reader) (n : Nat) (h : ∀ b r', r.readByte ≠ .byte b r') :
    r.advance (n + 1) = r := by
  cases hrb : r.readByte with
  | byte b r' => exact absurd hrb (h b r')
  | eof => simp [Reader.advance, hrb]
  | blocked => simp [Reader.advance, hrb]

theorem advance_fail (r : Reader) (h : ∀ b r', r.readByte ≠ .byte b r') (n : Nat) :
    r.advance n = r := by
  cases n with
  | zero => rfl
  | succ n => exact advance_succ_fail r n h

theorem advance_add (m n : Nat) (r : Reader) : r.advance (m + n) = (r.advance m).advance n := by
  induction m generalizing r with
  | zero => simp [Reader.advance]
  | succ m ih =>
    have : m + 1 + n = (m + n) + 1 := by omega
    rw [this]
    cases hrb : r.readByte with
    | byte b r' =>
      rw [advance_succ_byte r r' b _ hrb, advance_succ_byte r r' b _ hrb]
      exact ih r'
    | eof =>
      have hf : ∀ b r', r.readByte ≠ .byte b r' := by intro b r' h; rw [hrb] at h; cases h
      rw [advance_succ_fail r _ hf, advance_succ_fail r _ hf, advance_fail r hf]
    | blocked =>
      have hf : ∀ b r', r.readByte ≠ .byte b r' := by intro b r' h; rw [hrb] at h; cases h
      rw [advance_succ_fail r _ hf, advance_succ_fail r _ hf, advance_fail r hf]

theorem advance_buf (b : Bytes) (cs : List Bytes) (e : Bool) :
    (Reader.mk b cs e).advance b.length = ⟨[], cs, e⟩ := by
  induction b with
  | nil => rfl
  | cons x xs ih => simpa [Reader.advance, Reader.readByte] using ih

theorem advance_chunk (c : Bytes) (hc : c ≠ []) (cs : List Bytes) (e : Bool) :
    (Reader.mk [] (c :: cs) e).advance c.length = ⟨[], cs, e⟩ := by
  cases c with
  | nil => exact absurd rfl hc
  | cons x xs =>
    simpa [Reader.advance, Reader.readByte, refill] using advance_buf xs cs e

theorem advance_chunks (cs1 cs2 : List Bytes) (e : Bool) (h : ∀ c ∈ cs1, c ≠ []) :
    (Reader.mk [] (cs1 ++ cs2) e).advance cs1.flatten.length = ⟨[], cs2, e⟩ := by
  induction cs1 with
  | nil => rfl
  | cons c cs ih =>
    simp only [List.flatten_cons, List.length_append, List.cons_append]
    rw [advance_add, advance_chunk c (h c (by simp)) (cs ++ cs2) e]
    exact ih (fun c' hc' => h c' (by simp [hc']))

/-! ## chunk normalisation -/

theorem chop_flatten (f : Nat) (c : Bytes) (h : c.length ≤ f) : (chop f c).flatten = c := by
  induction f generalizing c with
  | zero =>
    have : c = [] := List.eq_nil_of_length_eq_zero (by omega)
    simp [chop, this]
  | succ f ih =>
    unfold chop
    by_cases hc : c = []
    · simp [hc]
    · simp only [hc, ↓reduceIte, List.flatten_cons]
      rw [ih (c.drop bufioSize)]
      · exact List.take_append_drop _ _
      · have : 0 < c.length := List.length_pos_iff.mpr hc
        simp only [List.length_drop, bufioSize]; omega

theorem chop_nonempty (f : Nat) (c : Bytes) : ∀ x ∈ chop f c, x ≠ [] := by
  induction f generalizing c with
  | zero => simp [chop]
  | succ f ih =>
    unfold chop
    by_cases hc : c = []
    · simp [hc]
    · simp only [hc, ↓reduceIte, List.mem_cons]
      intro x hx
      rcases hx with rfl | hx
      · intro h
        have : c.take bufioSize = [] := h
        rw [List.take_eq_nil_iff] at this
        rcases this with h0 | h0
        · simp [bufioSize] at h0
        · exact hc h0
      · exact ih _ x hx

theorem norm_flatten (cs : List Bytes) : (norm cs).flatten = cs.flatten := by
  induction cs with
  | nil => rfl
  | cons c cs ih =>
    simp only [norm, List.flatMap_cons, List.flatten_append, List.flatten_cons] at *
    rw [ih, chop_flatten _ _ (Nat.le_refl _)]

theorem norm_append (a b : List Bytes) : norm (a ++ b) = norm a ++ norm b := by
  simp [norm, List.flatMap_append]

theorem norm_nonempty (cs : List Bytes) : ∀ x ∈ norm cs, x ≠ [] := by
  intro x hx
  simp only [norm, List.mem_flatMap] at hx
  obtain ⟨c, _, hx⟩ := hx
  exact chop_nonempty _ _ x hx

/-! ## programs: the Go run equals the specification run when every checked flush happens with
an empty buffer -/

@[simp] theorem pre_outcome (bs : Bytes) (res : Result) : (Result.pre bs res).outcome = res.outcome := by
  unfold Result.pre; split <;> rfl

theorem exec_eq_spec (p : Prog) : ∀ (r : Reader),
    (∀ n ∈ flushPoints p r.stream r.eof, (r.advance n).buf = []) →
    exec p r = spec p r.stream r.eof := by
  induction p with
  | done o => intro r _; rfl
  | read e k ihe ihk =>
    intro r h
    have hs := readByte_spec r
    unfold exec
    cases hrb : r.readByte with
    | byte b r' =>
      rw [hrb] at hs
      obtain ⟨hst, heof⟩ := hs
      simp only
      rw [hst, spec, ← heof]
      apply ihk b r'
      intro n hn
      have := h (n + 1) (by rw [hst, flushPoints, ← heof]; exact List.mem_map.mpr ⟨n, hn, rfl⟩)
      simpa [Reader.advance, hrb] using this
    | eof =>
      rw [hrb] at hs
      obtain ⟨hst, heof⟩ := hs
      simp only
      rw [hst, heof, spec]
      simp only [↓reduceIte]
      have := ihe r (by
        intro n hn
        apply h n
        rw [hst, heof, flushPoints]; simp only [↓reduceIte]
        rw [hst, heof] at hn; exact hn)
      rw [this, hst, heof]
    | blocked =>
      rw [hrb] at hs
      obtain ⟨hst, heof⟩ := hs
      simp only
      rw [hst, heof, spec]; simp
  | flush bs c k ih =>
    intro r h
    unfold exec
    rw [spec]
    have hk : exec k r = spec k r.stream r.eof := by
      apply ih r
      intro n hn
      apply h n
      rw [flushPoints]; exact List.mem_append_right _ hn
    by_cases hc : c = true ∧ r.buf ≠ []
    · exfalso
      have := h 0 (by rw [flushPoints]; simp [hc.1])
      exact hc.2 (by simpa [Reader.advance] using this)
    · rw [if_neg hc, hk]

/-- whatever the chunking: the Go run either equals the specification run of the concatenated
    stream or fails (trailing data at a flush) -/
theorem exec_spec_or_proto (p : Prog) : ∀ (r : Reader),
    exec p r = spec p r.stream r.eof ∨ (exec p r).outcome = .failed .proto := by
  induction p with
  | done o => intro r; exact Or.inl rfl
  | read e k ihe ihk =>
    intro r
    have hs := readByte_spec r
    unfold exec
    cases hrb : r.readByte with
    | byte b r' =>
      rw [hrb] at hs
      obtain ⟨hst, heof⟩ := hs
      simp only
      rw [hst, spec, ← heof]
      exact ihk b r'
    | eof =>
      rw [hrb] at hs
      obtain ⟨hst, heof⟩ := hs
      simp only
      rw [hst, heof, spec]
      simp only [↓reduceIte]
      have := ihe r
      rw [hst, heof] at this
      exact this
    | blocked =>
      rw [hrb] at hs
      obtain ⟨hst, heof⟩ := hs
      simp only
      rw [hst, heof, spec]; simp
  | flush bs c k ih =>
    intro r
    unfold exec
    rw [spec]
    by_cases hc : c = true ∧ r.buf ≠ []
    · rw [if_pos hc]; right; simp
    · rw [if_neg hc]
      rcases ih r with h | h
      · left; rw [h]
      · right; simpa using h

/-! ## programs: panics and writes -/

/-- no reachable `done panic` (and the code never *returns* "blocked": that outcome only arises
    from a blocking read) -/
def NoPanic : Prog → Prop
  | .done o => o ≠ .panic ∧ o ≠ .blocked
  | .read e k => NoPanic e ∧ ∀ b, NoPanic (k b)
  | .flush _ _ k => NoPanic k

theorem exec_noPanic (p : Prog) (hp : NoPanic p) : ∀ r : Reader, (exec p r).outcome ≠ .panic := by
  induction p with
  | done o => intro r; exact hp.1
  | read e k ihe ihk =>
    intro r
    unfold exec
    cases hrb : r.readByte with
    | byte b r' => exact ihk b (hp.2 b) r'
    | eof => exact ihe hp.1 r
    | blocked => simp
  | flush bs c k ih =>
    intro r
    unfold exec
    split
    · simp
    · simpa using ih hp r

theorem spec_noPanic (p : Prog) (hp : NoPanic p) : ∀ (s : Bytes) (eof : Bool),
    (spec p s eof).outcome ≠ .panic := by
  induction p with
  | done o => intro s eof; exact hp.1
  | read e k ihe ihk =>
    intro s eof
    cases s with
    | nil =>
      rw [spec]
      split
      · exact ihe hp.1 _ _
      · simp
    | cons b s => rw [spec]; exact ihk b (hp.2 b) _ _
  | flush bs c k ih =>
    intro s eof
    rw [spec]
    simpa using ih hp s eof

theorem noPanic_readBytes (n : Nat) (e : Prog) (k : Bytes → Prog) (he : NoPanic e)
    (hk : ∀ xs : Bytes, xs.length = n → NoPanic (k xs)) : NoPanic (readBytes n e k) := by
  induction n generalizing k with
  | zero => exact hk [] rfl
  | succ n ih =>
    unfold readBytes
    refine ⟨he, fun b => ih _ (fun xs hx => hk (b :: xs) (by simp [hx]))⟩

/-- every message the program can write satisfies `S` -/
def WritesIn (S : Bytes → Prop) : Prog → Prop
  | .done _ => True
  | .read e k => WritesIn S e ∧ ∀ b, WritesIn S (k b)
  | .flush bs _ k => (bs = [] ∨ S bs) ∧ WritesIn S k

theorem pre_writes (S : Bytes → Prop) (bs : Bytes) (res : Result) (hb : bs = [] ∨ S bs)
    (h : ∀ w ∈ res.writes, S w) : ∀ w ∈ (Result.pre bs res).writes, S w := by
  unfold Result.pre
  split
  · exact h
  · next hne =>
    intro w hw
    simp only [List.mem_cons] at hw
    rcases hw with rfl | hw
    · rcases hb with hb | hb
      · exact absurd hb hne
      · exact hb
    · exact h w hw

theorem exec_writesIn (S : Bytes → Prop) (p : Prog) (hp : WritesIn S p) :
    ∀ r : Reader, ∀ w ∈ (exec p r).writes, S w := by
  induction p with
  | done o => intro r w hw; simp [exec] at hw
  | read e k ihe ihk =>
    intro r
    unfold exec
    cases hrb : r.readByte with
    | byte b r' => exact ihk b (hp.2 b) r'
    | eof => exact ihe hp.1 r
    | blocked => intro w hw; simp at hw
  | flush bs c k ih =>
    intro r
    unfold exec
    split
    · exact pre_writes S bs _ hp.1 (by intro w hw; simp at hw)
    · exact pre_writes S bs _ hp.1 (ih hp.2 r)

theorem writesIn_readBytes (S : Bytes → Prop) (n : Nat) (e : Prog) (k : Bytes → Prog)
    (he : WritesIn S e) (hk : ∀ xs : Bytes, xs.length = n → WritesIn S (k xs)) :
    WritesIn S (readBytes n e k) := by
  induction n generalizing k with
  | zero => exact hk [] rfl
  | succ n ih =>
    unfold readBytes
    refine ⟨he, fun b => ih _ (fun xs hx => hk (b :: xs) (by simp [hx]))⟩

/-- a run can only be `blocked` when the connection does not end with EOF -/
theorem exec_blocked_eof (p : Prog) (hp : NoPanic p) :
    ∀ r : Reader, (exec p r).outcome = .blocked → r.eof = false := by
  induction p with
  | done o => intro r h; exact absurd h hp.2
  | read e k ihe ihk =>
    intro r
    have hs := readByte_spec r
    unfold exec
    cases hrb : r.readByte with
    | byte b r' =>
      rw [hrb] at hs
      intro h
      rw [← hs.2]; exact ihk b (hp.2 b) r' h
    | eof => exact ihe hp.1 r
    | blocked => rw [hrb] at hs; intro _; exact hs.2
  | flush bs c k ih =>
    intro r
    unfold exec
    split
    · simp
    · intro h; exact ih hp r (by simpa using h)

/-! ## symbolic evaluation of the specification run -/

theorem spec_readBytes (n : Nat) (e : Prog) (k : Bytes → Prog) (xs s : Bytes) (eof : Bool)
    (h : xs.length = n) : spec (readBytes n e k) (xs ++ s) eof = spec (k xs) s eof := by
  induction n generalizing k xs with
  | zero =>
    have : xs = [] := List.eq_nil_of_length_eq_zero h
    subst this; rfl
  | succ n ih =>
    cases xs with
    | nil => simp at h
    | cons x xs =>
      simp only [readBytes, List.cons_append, spec]
      exact ih _ xs (by simpa using h)

theorem flushPoints_readBytes (n : Nat) (e : Prog) (k : Bytes → Prog) (xs s : Bytes) (eof : Bool)
    (h : xs.length = n) :
    flushPoints (readBytes n e k) (xs ++ s) eof = (flushPoints (k xs) s eof).map (· + n) := by
  induction n generalizing k xs with
  | zero =>
    have : xs = [] := List.eq_nil_of_length_eq_zero h
    subst this; simp [readBytes]
  | succ n ih =>
    cases xs with
    | nil => simp at h
    | cons x xs =>
      simp only [readBytes, List.cons_append, flushPoints]
      rw [ih _ xs (by simpa using h)]
      simp only [List.map_map]
      congr 1

end O4.Socks5
