import O4.Model.StateFile
import O4.Lemmas.Base64
/-!
# The state-file text format: the parser accepts exactly the encoder's image, and no strict
prefix of an encoded record parses (core Lean only).
-/
namespace O4.SF
open O4

theorem stripPrefix_append (p r : Bytes) : stripPrefix p (p ++ r) = some r := by
  induction p with
  | nil => rfl
  | cons a p ih => simp [stripPrefix, ih]

theorem stripPrefix_some (p l r : Bytes) (h : stripPrefix p l = some r) : l = p ++ r := by
  induction p generalizing l with
  | nil => simp [stripPrefix] at h; simp [h]
  | cons a p ih =>
    cases l with
    | nil => simp [stripPrefix] at h
    | cons b l =>
      simp only [stripPrefix] at h
      by_cases hab : a = b
      · subst hab; simp only [if_true] at h; rw [ih l h]; rfl
      · simp [hab] at h

theorem splitAt1_append (c : UInt8) (a r : Bytes) (h : c ∉ a) :
    splitAt1 c (a ++ c :: r) = some (a, r) := by
  induction a with
  | nil => simp [splitAt1]
  | cons x a ih =>
    have hx : x ≠ c := fun e => h (by simp [e])
    have ha : c ∉ a := fun e => h (by simp [e])
    simp [splitAt1, hx, ih ha]

theorem splitAt1_some (c : UInt8) (l a r : Bytes) (h : splitAt1 c l = some (a, r)) :
    l = a ++ c :: r ∧ c ∉ a := by
  induction l generalizing a with
  | nil => simp [splitAt1] at h
  | cons x l ih =>
    simp only [splitAt1] at h
    by_cases hx : x = c
    · subst hx; simp only [if_true, Option.some.injEq, Prod.mk.injEq] at h
      obtain ⟨rfl, rfl⟩ := h; simp
    · simp only [hx, if_false] at h
      cases hs : splitAt1 c l with
      | none => simp [hs] at h
      | some p =>
        obtain ⟨a', r'⟩ := p
        simp only [hs, Option.some.injEq, Prod.mk.injEq] at h
        obtain ⟨rfl, rfl⟩ := h
        obtain ⟨h1, h2⟩ := ih a' hs
        refine ⟨by rw [h1]; rfl, ?_⟩
        intro hm
        rcases List.mem_cons.mp hm with e | e
        · exact hx e.symm
        · exact h2 e

/-- text fields that need no JSON escaping as far as the model goes: no `"` in the strings, no
    `}` in the number -/
structure WFRec (r : Rec) : Prop where
  nodeID : q ∉ r.nodeID
  priv : q ∉ r.priv
  pub : q ∉ r.pub
  seed : q ∉ r.seed
  iat : rb ∉ r.iat

/-- the whole encoded object parses to the record -/
theorem parse_enc (r : Rec) (h : WFRec r) : parseState (encState r) = some r := by
  unfold parseState encState
  simp only [stripPrefix_append, splitAt1_append _ _ _ h.nodeID, splitAt1_append _ _ _ h.priv,
    splitAt1_append _ _ _ h.pub, splitAt1_append _ _ _ h.seed]
  have : splitAt1 rb (r.iat ++ [rb]) = some (r.iat, []) := splitAt1_append _ _ _ h.iat
  simp [this]

/-- the parser accepts only encoder output -/
theorem parse_sound (l : Bytes) (r : Rec) (h : parseState l = some r) : l = encState r ∧ WFRec r := by
  unfold parseState at h
  cases h0 : stripPrefix L0 l with
  | none => simp [h0] at h
  | some r0 =>
  simp only [h0] at h
  cases h1 : splitAt1 q r0 with
  | none => simp [h1] at h
  | some p1 =>
  obtain ⟨f1, r1⟩ := p1
  simp only [h1] at h
  cases h1' : stripPrefix L1 r1 with
  | none => simp [h1'] at h
  | some r1' =>
  simp only [h1'] at h
  cases h2 : splitAt1 q r1' with
  | none => simp [h2] at h
  | some p2 =>
  obtain ⟨f2, r2⟩ := p2
  simp only [h2] at h
  cases h2' : stripPrefix L2 r2 with
  | none => simp [h2'] at h
  | some r2' =>
  simp only [h2'] at h
  cases h3 : splitAt1 q r2' with
  | none => simp [h3] at h
  | some p3 =>
  obtain ⟨f3, r3⟩ := p3
  simp only [h3] at h
  cases h3' : stripPrefix L3 r3 with
  | none => simp [h3'] at h
  | some r3' =>
  simp only [h3'] at h
  cases h4 : splitAt1 q r3' with
  | none => simp [h4] at h
  | some p4 =>
  obtain ⟨f4, r4⟩ := p4
  simp only [h4] at h
  cases h4' : stripPrefix L4 r4 with
  | none => simp [h4'] at h
  | some r4' =>
  simp only [h4'] at h
  cases h5 : splitAt1 rb r4' with
  | none => simp [h5] at h
  | some p5 =>
  obtain ⟨f5, r5⟩ := p5
  simp only [h5] at h
  by_cases he : r5 = []
  · simp only [he, if_true, Option.some.injEq] at h
    subst h
    subst he
    have e0 := stripPrefix_some _ _ _ h0
    obtain ⟨e1, w1⟩ := splitAt1_some _ _ _ _ h1
    have e1' := stripPrefix_some _ _ _ h1'
    obtain ⟨e2, w2⟩ := splitAt1_some _ _ _ _ h2
    have e2' := stripPrefix_some _ _ _ h2'
    obtain ⟨e3, w3⟩ := splitAt1_some _ _ _ _ h3
    have e3' := stripPrefix_some _ _ _ h3'
    obtain ⟨e4, w4⟩ := splitAt1_some _ _ _ _ h4
    have e4' := stripPrefix_some _ _ _ h4'
    obtain ⟨e5, w5⟩ := splitAt1_some _ _ _ _ h5
    refine ⟨?_, ⟨w1, w2, w3, w4, w5⟩⟩
    unfold encState
    simp only
    rw [e0, e1, e1', e2, e2', e3, e3', e4, e4', e5]
  · simp [he] at h

/-- uniqueness of the split at a delimiter -/
theorem split_unique (c : UInt8) (a b x y : Bytes) (ha : c ∉ a) (hb : c ∉ b)
    (h : a ++ c :: x = b ++ c :: y) : a = b ∧ x = y := by
  have h1 := splitAt1_append c a x ha
  have h2 := splitAt1_append c b y hb
  rw [h] at h1
  rw [h1] at h2
  simp only [Option.some.injEq, Prod.mk.injEq] at h2
  exact h2

/-- the encoding is prefix-free -/
theorem enc_prefix_free (r r' : Rec) (x : Bytes) (h : WFRec r) (h' : WFRec r')
    (he : encState r' ++ x = encState r) : x = [] := by
  unfold encState at he
  simp only [List.append_assoc, List.cons_append] at he
  have e0 := List.append_cancel_left he
  obtain ⟨_, e1⟩ := split_unique q _ _ _ _ h'.nodeID h.nodeID e0
  have e1 := List.append_cancel_left e1
  obtain ⟨_, e2⟩ := split_unique q _ _ _ _ h'.priv h.priv e1
  have e2 := List.append_cancel_left e2
  obtain ⟨_, e3⟩ := split_unique q _ _ _ _ h'.pub h.pub e2
  have e3 := List.append_cancel_left e3
  obtain ⟨_, e4⟩ := split_unique q _ _ _ _ h'.seed h.seed e3
  have e4 := List.append_cancel_left e4
  have e5 : r'.iat ++ rb :: x = r.iat ++ rb :: [] := by simpa using e4
  exact (split_unique rb _ _ _ _ h'.iat h.iat e5).2

/-- **a strict prefix of an encoded record never parses** -/
theorem parse_strict_prefix (r : Rec) (h : WFRec r) (j : Nat) (hj : j < (encState r).length) :
    parseState ((encState r).take j) = none := by
  cases hp : parseState ((encState r).take j) with
  | none => rfl
  | some r' =>
    exfalso
    obtain ⟨e, w'⟩ := parse_sound _ _ hp
    have hx : encState r' ++ (encState r).drop j = encState r := by
      rw [← e]; exact List.take_append_drop j _
    have := enc_prefix_free r r' _ h w' hx
    have hl : ((encState r).drop j).length = 0 := by rw [this]; rfl
    simp only [List.length_drop] at hl
    omega

/-! ## hex texts contain no `"` -/

theorem hex_value_ne_q (c : UInt8) (v : Nat) (h : Hex.value c = some v) : c ≠ q := by
  intro e; subst e
  have : Hex.value q = none := by decide
  rw [this] at h; exact absurd h (by simp)

theorem hex_decode_noq : ∀ (t b : Bytes), Hex.decode t = some b → q ∉ t
  | [], _, _ => by simp
  | [_], _, h => by simp [Hex.decode] at h
  | a :: c :: rest, b, h => by
    simp only [Hex.decode] at h
    cases ha : Hex.value a with
    | none => simp [ha] at h
    | some x =>
    cases hc : Hex.value c with
    | none => simp [ha, hc] at h
    | some y =>
    cases hr : Hex.decode rest with
    | none => simp [ha, hc, hr] at h
    | some r =>
      intro hm
      rcases List.mem_cons.mp hm with e | hm
      · exact hex_value_ne_q a x ha e.symm
      · rcases List.mem_cons.mp hm with e | hm
        · exact hex_value_ne_q c y hc e.symm
        · exact hex_decode_noq rest r hr hm

theorem hexN_noq (n : Nat) (t b : Bytes) (h : hexN n t = some b) : q ∉ t := by
  unfold hexN at h
  cases hd : Hex.decode t with
  | none => simp [hd] at h
  | some b' => exact hex_decode_noq t b' hd

theorem hexSeed_noq (t b : Bytes) (h : hexSeed t = some b) : q ∉ t := by
  unfold hexSeed at h
  cases hd : Hex.decode t with
  | none => simp [hd] at h
  | some b' => exact hex_decode_noq t b' hd

end O4.SF
