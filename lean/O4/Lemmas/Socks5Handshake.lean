import O4.Lemmas.Socks5Prog
import O4.Lemmas.Socks5Args
/-!
# Facts about the concrete SOCKS5 handshake program (core only)
* it never reaches `panic` and only writes the protocol's legal server messages;
* symbolic evaluation of the specification run on the messages of a conforming client.
-/
set_option linter.unusedSimpArgs false
namespace O4.Socks5
open O4

/-! ## no panic, legal writes -/

/-- the messages a SOCKS5 server of this kind may send during the handshake -/
def LegalWrite (w : Bytes) : Prop :=
  w = [cVersion, cAuthNone] ∨ w = [cVersion, cAuthUserPass] ∨ w = [cVersion, cAuthNoAcceptable] ∨
  w = [cAuthVer, cAuthSuccess] ∨ w = [cAuthVer, cAuthFail] ∨
  w = replyBytes cReplyGeneralFailure ∨ w = replyBytes cReplyCommandNotSupported ∨
  w = replyBytes cReplyAddressNotSupported

/-- no reachable panic and only legal writes -/
def Good (p : Prog) : Prop := NoPanic p ∧ WritesIn LegalWrite p

theorem good_done (o : Outcome) (h : o ≠ .panic ∧ o ≠ .blocked) : Good (.done o) := ⟨h, trivial⟩

theorem good_read (e : Prog) (k : UInt8 → Prog) (he : Good e) (hk : ∀ b, Good (k b)) :
    Good (.read e k) := ⟨⟨he.1, fun b => (hk b).1⟩, ⟨he.2, fun b => (hk b).2⟩⟩

theorem good_flush (bs : Bytes) (c : Bool) (k : Prog) (hb : bs = [] ∨ LegalWrite bs) (hk : Good k) :
    Good (.flush bs c k) := ⟨hk.1, ⟨hb, hk.2⟩⟩

theorem good_readBytes (n : Nat) (e : Prog) (k : Bytes → Prog) (he : Good e)
    (hk : ∀ xs : Bytes, xs.length = n → Good (k xs)) : Good (readBytes n e k) :=
  ⟨noPanic_readBytes n e k he.1 (fun xs h => (hk xs h).1),
   writesIn_readBytes LegalWrite n e k he.2 (fun xs h => (hk xs h).2)⟩

theorem good_readByteVerify (x : UInt8) (onErr : FailClass → Prog) (k : Prog)
    (he : ∀ c, Good (onErr c)) (hk : Good k) : Good (readByteVerify x onErr k) := by
  unfold readByteVerify
  refine good_read _ _ (he _) (fun v => ?_)
  split
  · exact hk
  · exact he _

theorem good_failReply (code : UInt8) (c : FailClass)
    (h : LegalWrite (replyBytes code)) : Good (failReply code c) :=
  good_flush _ _ _ (Or.inr h) (good_done _ (by simp))

theorem pickMethod_cases (methods : Bytes) :
    pickMethod methods = cAuthUserPass ∨ pickMethod methods = cAuthNone ∨
    pickMethod methods = cAuthNoAcceptable := by
  unfold pickMethod
  split
  · exact Or.inl rfl
  · split
    · exact Or.inr (Or.inl rfl)
    · exact Or.inr (Or.inr rfl)

theorem good_negotiateAuth (k : UInt8 → Prog) (hk : ∀ m, Good (k m)) : Good (negotiateAuth k) := by
  unfold negotiateAuth
  refine good_readByteVerify _ _ _ (fun c => good_done _ (by simp)) ?_
  refine good_read _ _ (good_done _ (by simp)) (fun n => ?_)
  refine good_readBytes _ _ _ (good_done _ (by simp)) (fun methods _ => ?_)
  refine good_flush _ _ _ (Or.inr ?_) (hk _)
  rcases pickMethod_cases methods with h | h | h <;> rw [h] <;> simp [LegalWrite]

theorem good_readCommand (args : Args) : Good (readCommand args) := by
  have hgen : ∀ c, Good (failReply cReplyGeneralFailure c) :=
    fun c => good_failReply _ _ (by simp [LegalWrite])
  have hfin : ∀ host : Bytes, Good (readBytes 2 (failReply cReplyGeneralFailure .eof) fun rawPort =>
      match rawPort[0]?, rawPort[1]? with
      | some hi, some lo =>
        .flush [] true (.done (.request (joinTarget host (hi.toNat * 256 + lo.toNat)) args))
      | _, _ => .done .panic) := by
    intro host
    refine good_readBytes _ _ _ (hgen _) (fun xs hx => ?_)
    match xs, hx with
    | [hi, lo], _ => exact good_flush _ _ _ (Or.inl rfl) (good_done _ (by simp))
  unfold readCommand
  refine good_readByteVerify _ _ _ hgen ?_
  refine good_readByteVerify _ _ _ (fun c => good_failReply _ _ (by simp [LegalWrite])) ?_
  refine good_readByteVerify _ _ _ hgen ?_
  refine good_read _ _ (hgen _) (fun atyp => ?_)
  simp only
  split
  · refine good_readBytes _ _ _ (hgen _) (fun xs hx => ?_)
    match xs, hx with
    | [a, b, c, d], _ => exact hfin _
  · split
    · refine good_read _ _ (hgen _) (fun alen => ?_)
      split
      · exact hgen _
      · exact good_readBytes _ _ _ (hgen _) (fun xs _ => hfin _)
    · split
      · exact good_readBytes _ _ _ (hgen _) (fun xs _ => hfin _)
      · exact good_failReply _ _ (by simp [LegalWrite])

theorem joinUserPass_isSome (uname passwd : Bytes) (plen : UInt8)
    (h : passwd.length = plen.toNat) : (joinUserPass uname passwd plen).isSome := by
  unfold joinUserPass
  split
  · next h1 =>
    subst h1
    match passwd, h with
    | [b], _ => simp only [List.getElem?_cons_zero]; split <;> rfl
  · rfl

theorem good_authRFC1929 (k : Args → Prog) (hk : ∀ a, Good (k a)) : Good (authRFC1929 k) := by
  have herr : ∀ c, Good (Prog.flush [cAuthVer, cAuthFail] false (.done (.failed c))) :=
    fun c => good_flush _ _ _ (Or.inr (by simp [LegalWrite])) (good_done _ (by simp))
  unfold authRFC1929
  simp only
  refine good_readByteVerify _ _ _ herr ?_
  refine good_read _ _ (herr _) (fun ulen => ?_)
  split
  · exact herr _
  refine good_readBytes _ _ _ (herr _) (fun uname _ => ?_)
  refine good_read _ _ (herr _) (fun plen => ?_)
  split
  · exact herr _
  refine good_readBytes _ _ _ (herr _) (fun passwd hp => ?_)
  have hsome := joinUserPass_isSome uname passwd plen hp
  cases hj : joinUserPass uname passwd plen with
  | none => rw [hj] at hsome; cases hsome
  | some s =>
    simp only
    split
    · exact herr _
    · exact hk _

theorem good_afterNegotiate (m : UInt8) : Good (afterNegotiate m) := by
  unfold afterNegotiate
  split
  · exact good_flush _ _ _ (Or.inl rfl) (good_readCommand _)
  · split
    · exact good_authRFC1929 _ (fun a => good_flush _ _ _ (Or.inr (by simp [LegalWrite])) (good_readCommand _))
    · exact good_done _ (by simp)

theorem good_handshake : Good handshake := good_negotiateAuth _ good_afterNegotiate

/-! ## the specification run on the messages of a conforming client -/

theorem toNat_ofNat_lt (n : Nat) (h : n < 256) : (UInt8.ofNat n).toNat = n := by
  simp [UInt8.toNat_ofNat, Nat.mod_eq_of_lt h]

theorem spec_negotiate (methods : Bytes) (hl : methods.length < 256) (k : UInt8 → Prog)
    (s : Bytes) (eof : Bool) :
    spec (negotiateAuth k) (msgMethods methods ++ s) eof
      = Result.pre [cVersion, pickMethod methods] (spec (k (pickMethod methods)) s eof) := by
  simp only [negotiateAuth, readByteVerify, msgMethods, List.cons_append, List.nil_append, spec,
    ↓reduceIte]
  rw [toNat_ofNat_lt _ hl, spec_readBytes _ _ _ methods s eof rfl, spec]

theorem flushPoints_negotiate (methods : Bytes) (hl : methods.length < 256) (k : UInt8 → Prog)
    (s : Bytes) (eof : Bool) :
    flushPoints (negotiateAuth k) (msgMethods methods ++ s) eof
      = (0 :: flushPoints (k (pickMethod methods)) s eof).map (· + (msgMethods methods).length) := by
  simp only [negotiateAuth, readByteVerify, msgMethods, List.cons_append, List.nil_append,
    flushPoints, ↓reduceIte]
  rw [toNat_ofNat_lt _ hl, flushPoints_readBytes _ _ _ methods s eof rfl, flushPoints]
  simp only [↓reduceIte, List.map_map, List.map_cons, List.map_append, List.cons_append,
    List.nil_append, List.length_cons, List.map_nil]
  congr 1
  all_goals first
    | omega
    | (apply List.map_congr_left; intro a _; simp only [Function.comp]; omega)


theorem ofNat_not_lt_one (n : Nat) (h1 : 1 ≤ n) (h2 : n ≤ 255) : ¬ (UInt8.ofNat n < 1) := by
  rw [UInt8.lt_iff_toNat_lt, toNat_ofNat_lt n (by omega)]
  simp; omega

theorem spec_auth (u p : Bytes) (hu1 : 1 ≤ u.length) (hu2 : u.length ≤ 255)
    (hp1 : 1 ≤ p.length) (hp2 : p.length ≤ 255)
    (str : Bytes) (hj : joinUserPass u p (UInt8.ofNat p.length) = some str)
    (args : Args) (ha : parseClientParameters str = some args) (k : Args → Prog)
    (s : Bytes) (eof : Bool) :
    spec (authRFC1929 k) (msgAuth u p ++ s) eof = spec (k args) s eof := by
  simp only [authRFC1929, readByteVerify, msgAuth, List.cons_append, List.nil_append,
    List.append_assoc, spec, ↓reduceIte, if_neg (ofNat_not_lt_one _ hu1 hu2)]
  rw [toNat_ofNat_lt _ (by omega), spec_readBytes _ _ _ u _ eof rfl]
  simp only [spec, if_neg (ofNat_not_lt_one _ hp1 hp2)]
  rw [toNat_ofNat_lt _ (by omega), spec_readBytes _ _ _ p _ eof rfl]
  simp only [hj, ha]


theorem map_add_map_add (l : List Nat) (a b : Nat) :
    (l.map (· + a)).map (· + b) = l.map (· + (a + b)) := by
  simp only [List.map_map]
  apply List.map_congr_left
  intro x _; simp only [Function.comp]; omega

theorem flushPoints_auth (u p : Bytes) (hu1 : 1 ≤ u.length) (hu2 : u.length ≤ 255)
    (hp1 : 1 ≤ p.length) (hp2 : p.length ≤ 255)
    (str : Bytes) (hj : joinUserPass u p (UInt8.ofNat p.length) = some str)
    (args : Args) (ha : parseClientParameters str = some args) (k : Args → Prog)
    (s : Bytes) (eof : Bool) :
    flushPoints (authRFC1929 k) (msgAuth u p ++ s) eof
      = (flushPoints (k args) s eof).map (· + (msgAuth u p).length) := by
  simp only [authRFC1929, readByteVerify, msgAuth, List.cons_append, List.nil_append,
    List.append_assoc, flushPoints, ↓reduceIte, if_neg (ofNat_not_lt_one _ hu1 hu2)]
  rw [toNat_ofNat_lt _ (by omega), flushPoints_readBytes _ _ _ u _ eof rfl]
  simp only [flushPoints, if_neg (ofNat_not_lt_one _ hp1 hp2)]
  rw [toNat_ofNat_lt _ (by omega), flushPoints_readBytes _ _ _ p _ eof rfl]
  simp only [hj, ha, List.map_map]
  apply List.map_congr_left
  intro x _
  simp only [Function.comp, List.length_cons, List.length_append]
  omega

theorem port_bytes (port : Nat) (h : port < 65536) :
    (UInt8.ofNat (port / 256)).toNat * 256 + (UInt8.ofNat (port % 256)).toNat = port := by
  rw [toNat_ofNat_lt _ (by omega), toNat_ofNat_lt _ (by omega)]; omega

theorem spec_command (a : Addr) (ha : a.Valid) (port : Nat) (hp : port < 65536) (args : Args)
    (s : Bytes) (eof : Bool) :
    spec (readCommand args) (msgConnect a port ++ s) eof
      = ⟨.request (joinTarget a.host port) args, []⟩ := by
  cases a with
  | v4 a b c d =>
    simp only [readCommand, readByteVerify, msgConnect, Addr.wire, Addr.host, List.cons_append, List.nil_append,
      List.append_assoc, spec, ↓reduceIte, readBytes, List.getElem?_cons_zero, List.getElem?_cons_succ,
      port_bytes port hp, Result.pre]
  | domain n =>
    obtain ⟨h1, h2⟩ := ha
    have hne : cAtypDomainName ≠ cAtypIPv4 := by decide
    have hz : UInt8.ofNat n.length ≠ 0 := by
      intro h; have := congrArg UInt8.toNat h; rw [toNat_ofNat_lt _ (by omega)] at this
      have h0 : (0 : UInt8).toNat = 0 := rfl
      rw [h0] at this; omega
    simp only [readCommand, readByteVerify, msgConnect, Addr.wire, Addr.host, List.cons_append, List.nil_append,
      List.append_assoc, spec, ↓reduceIte, hne, hz]
    rw [toNat_ofNat_lt _ (by omega), spec_readBytes _ _ _ n _ eof rfl]
    simp only [readBytes, spec, List.getElem?_cons_zero, List.getElem?_cons_succ,
      port_bytes port hp, Result.pre, ↓reduceIte]
  | v6 raw =>
    have hne1 : cAtypIPv6 ≠ cAtypIPv4 := by decide
    have hne2 : cAtypIPv6 ≠ cAtypDomainName := by decide
    simp only [readCommand, readByteVerify, msgConnect, Addr.wire, Addr.host, List.cons_append, List.nil_append,
      List.append_assoc, spec, ↓reduceIte, hne1, hne2]
    rw [spec_readBytes _ _ _ raw _ eof ha]
    simp only [readBytes, spec, List.getElem?_cons_zero, List.getElem?_cons_succ,
      port_bytes port hp, Result.pre, ↓reduceIte]


theorem flushPoints_command (a : Addr) (ha : a.Valid) (port : Nat) (_hp : port < 65536) (args : Args)
    (s : Bytes) (eof : Bool) :
    flushPoints (readCommand args) (msgConnect a port ++ s) eof = [(msgConnect a port).length] := by
  cases a with
  | v4 a b c d =>
    simp only [readCommand, readByteVerify, msgConnect, Addr.wire, List.cons_append, List.nil_append,
      List.append_assoc, flushPoints, ↓reduceIte, readBytes, List.getElem?_cons_zero, List.getElem?_cons_succ]
    simp
  | domain n =>
    obtain ⟨h1, h2⟩ := ha
    have hne : cAtypDomainName ≠ cAtypIPv4 := by decide
    have hz : UInt8.ofNat n.length ≠ 0 := by
      intro h; have := congrArg UInt8.toNat h; rw [toNat_ofNat_lt _ (by omega)] at this
      have h0 : (0 : UInt8).toNat = 0 := rfl
      rw [h0] at this; omega
    simp only [readCommand, readByteVerify, msgConnect, Addr.wire, List.cons_append, List.nil_append,
      List.append_assoc, flushPoints, ↓reduceIte, hne, hz]
    rw [toNat_ofNat_lt _ (by omega), flushPoints_readBytes _ _ _ n _ eof rfl]
    simp only [readBytes, flushPoints, List.getElem?_cons_zero, List.getElem?_cons_succ, ↓reduceIte]
    simp; omega
  | v6 raw =>
    have hne1 : cAtypIPv6 ≠ cAtypIPv4 := by decide
    have hne2 : cAtypIPv6 ≠ cAtypDomainName := by decide
    simp only [readCommand, readByteVerify, msgConnect, Addr.wire, List.cons_append, List.nil_append,
      List.append_assoc, flushPoints, ↓reduceIte, hne1, hne2]
    have hlen : raw.length = 16 := ha
    rw [flushPoints_readBytes _ _ _ raw _ eof ha]
    simp only [readBytes, flushPoints, List.getElem?_cons_zero, List.getElem?_cons_succ, ↓reduceIte]
    simp; omega

/-! ## step-by-step clients: phases -/

theorem norm_stream (cs : List Bytes) (eof : Bool) :
    (Reader.mk [] (norm cs) eof).stream = cs.flatten := by
  simp [Reader.stream, norm_flatten]

/-- if every checked flush of the specification run falls on the end of a phase (the client sent
    nothing of the next phase before the reply), then for every chunking of every phase the Go
    run equals the specification run of the concatenated stream -/
theorem run_phases (ps : List (List Bytes)) (eof : Bool)
    (h : ∀ n ∈ flushOffsets ps.flatten.flatten eof,
      ∃ k, n = ((ps.take k).flatten.flatten).length) :
    run ps.flatten eof = specRun ps.flatten.flatten eof := by
  unfold run specRun
  have hst := norm_stream ps.flatten eof
  rw [← hst]
  apply exec_eq_spec
  intro n hn
  rw [hst] at hn
  obtain ⟨k, rfl⟩ := h n hn
  have hsplit : norm ps.flatten = norm (ps.take k).flatten ++ norm (ps.drop k).flatten := by
    rw [← norm_append, ← List.flatten_append, List.take_append_drop]
  have hlen : ((ps.take k).flatten.flatten).length = (norm (ps.take k).flatten).flatten.length := by
    rw [norm_flatten]
  rw [hsplit, hlen, advance_chunks _ _ _ (norm_nonempty _)]

end O4.Socks5
