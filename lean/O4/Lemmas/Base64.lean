import O4.Model.Base64
/-!
# Round-trip lemmas for the base64 / hex models (core Lean only)
-/
namespace O4
namespace B64

theorem decChar_encChar : ∀ n : Fin 64, decChar (encChar n.val) = some n.val := by decide

theorem encChar_ne_pad : ∀ n : Fin 64, encChar n.val ≠ pad := by decide

theorem encChar_notNewline : ∀ n : Fin 64, notNewline (encChar n.val) = true := by decide

theorem dec_enc (n : Nat) (h : n < 64) : decChar (encChar n) = some n := decChar_encChar ⟨n, h⟩
theorem enc_ne_pad (n : Nat) (h : n < 64) : encChar n ≠ pad := encChar_ne_pad ⟨n, h⟩
theorem enc_notNewline (n : Nat) (h : n < 64) : notNewline (encChar n) = true :=
  encChar_notNewline ⟨n, h⟩

theorem lt256 (a : UInt8) : a.toNat < 256 := a.toNat_lt

theorem byte0_eq (a b : UInt8) :
    byte0 (a.toNat / 4) (a.toNat % 4 * 16 + b.toNat / 16) = a := by
  have ha := lt256 a; have hb := lt256 b
  unfold byte0
  have : (a.toNat / 4 * 4 + (a.toNat % 4 * 16 + b.toNat / 16) / 16) % 256 = a.toNat := by omega
  rw [this]; exact UInt8.ofNat_toNat

theorem byte0_eq' (a : UInt8) : byte0 (a.toNat / 4) (a.toNat % 4 * 16) = a := by
  have ha := lt256 a
  unfold byte0
  have : (a.toNat / 4 * 4 + (a.toNat % 4 * 16) / 16) % 256 = a.toNat := by omega
  rw [this]; exact UInt8.ofNat_toNat

theorem byte1_eq (a b c : UInt8) :
    byte1 (a.toNat % 4 * 16 + b.toNat / 16) (b.toNat % 16 * 4 + c.toNat / 64) = b := by
  have ha := lt256 a; have hb := lt256 b; have hc := lt256 c
  unfold byte1
  have : ((a.toNat % 4 * 16 + b.toNat / 16) * 16 + (b.toNat % 16 * 4 + c.toNat / 64) / 4) % 256
      = b.toNat := by omega
  rw [this]; exact UInt8.ofNat_toNat

theorem byte1_eq' (a b : UInt8) :
    byte1 (a.toNat % 4 * 16 + b.toNat / 16) (b.toNat % 16 * 4) = b := by
  have ha := lt256 a; have hb := lt256 b
  unfold byte1
  have : ((a.toNat % 4 * 16 + b.toNat / 16) * 16 + (b.toNat % 16 * 4) / 4) % 256
      = b.toNat := by omega
  rw [this]; exact UInt8.ofNat_toNat

theorem byte2_eq (b c : UInt8) :
    byte2 (b.toNat % 16 * 4 + c.toNat / 64) (c.toNat % 64) = c := by
  have hb := lt256 b; have hc := lt256 c
  unfold byte2
  have : ((b.toNat % 16 * 4 + c.toNat / 64) * 64 + c.toNat % 64) % 256 = c.toNat := by omega
  rw [this]; exact UInt8.ofNat_toNat

/-- the encoder's output contains no `\r`/`\n`, so the decoder's newline filter leaves it alone -/
theorem filter_encode (b : Bytes) : (encode b).filter notNewline = encode b := by
  induction b using encode.induct with
  | case1 => rfl
  | case2 a =>
    have ha := lt256 a
    simp [encode, List.filter, enc_notNewline (a.toNat / 4) (by omega),
      enc_notNewline (a.toNat % 4 * 16) (by omega)]
    decide
  | case3 a b =>
    have ha := lt256 a; have hb := lt256 b
    simp [encode, List.filter, enc_notNewline (a.toNat / 4) (by omega),
      enc_notNewline (a.toNat % 4 * 16 + b.toNat / 16) (by omega),
      enc_notNewline (b.toNat % 16 * 4) (by omega)]
    decide
  | case4 a b c rest ih =>
    have ha := lt256 a; have hb := lt256 b; have hc := lt256 c
    simp [encode, List.filter, enc_notNewline (a.toNat / 4) (by omega),
      enc_notNewline (a.toNat % 4 * 16 + b.toNat / 16) (by omega),
      enc_notNewline (b.toNat % 16 * 4 + c.toNat / 64) (by omega),
      enc_notNewline (c.toNat % 64) (by omega), ih]

theorem decodeQ_encode (b : Bytes) : decodeQ (encode b) = some b := by
  induction b using encode.induct with
  | case1 => rfl
  | case2 a =>
    have ha := lt256 a
    simp [encode, decodeQ, dec_enc (a.toNat / 4) (by omega), dec_enc (a.toNat % 4 * 16) (by omega),
      byte0_eq']
  | case3 a b =>
    have ha := lt256 a; have hb := lt256 b
    simp [encode, decodeQ, dec_enc (a.toNat / 4) (by omega),
      dec_enc (a.toNat % 4 * 16 + b.toNat / 16) (by omega),
      dec_enc (b.toNat % 16 * 4) (by omega), enc_ne_pad (b.toNat % 16 * 4) (by omega),
      byte0_eq, byte1_eq']
  | case4 a b c rest ih =>
    have ha := lt256 a; have hb := lt256 b; have hc := lt256 c
    simp [encode, decodeQ, dec_enc (a.toNat / 4) (by omega),
      dec_enc (a.toNat % 4 * 16 + b.toNat / 16) (by omega),
      dec_enc (b.toNat % 16 * 4 + c.toNat / 64) (by omega), dec_enc (c.toNat % 64) (by omega),
      enc_ne_pad (b.toNat % 16 * 4 + c.toNat / 64) (by omega), enc_ne_pad (c.toNat % 64) (by omega),
      byte0_eq, byte1_eq, byte2_eq, ih]

/-- **base64 decode ∘ encode = id, for every byte string** -/
theorem decode_encode (b : Bytes) : decode (encode b) = some b := by
  unfold decode; rw [filter_encode, decodeQ_encode]

/-- an input of length ≡ 1 (mod 3) encodes to `… ==` -/
theorem encode_mod1 (b : Bytes) (h : b.length % 3 = 1) :
    ∃ body, encode b = body ++ [pad, pad] := by
  induction b using encode.induct with
  | case1 => simp at h
  | case2 a => exact ⟨[encChar (a.toNat / 4), encChar (a.toNat % 4 * 16)], rfl⟩
  | case3 a b => simp at h
  | case4 a b c rest ih =>
    have : rest.length % 3 = 1 := by simp at h; omega
    obtain ⟨body, hb⟩ := ih this
    exact ⟨encChar (a.toNat / 4) :: encChar (a.toNat % 4 * 16 + b.toNat / 16) ::
      encChar (b.toNat % 16 * 4 + c.toNat / 64) :: encChar (c.toNat % 64) :: body, by simp [encode, hb]⟩

end B64

namespace Hex

theorem value_digit : ∀ n : Fin 16, value (digit n.val) = some n.val := by decide

theorem decode_encode (b : Bytes) : decode (encode b) = some b := by
  induction b with
  | nil => rfl
  | cons x rest ih =>
    have hx : x.toNat < 256 := x.toNat_lt
    have h1 := value_digit ⟨x.toNat / 16, by omega⟩
    have h2 := value_digit ⟨x.toNat % 16, by omega⟩
    simp only at h1 h2
    simp only [encode, decode, h1, h2, ih]
    have : x.toNat / 16 * 16 + x.toNat % 16 = x.toNat := by omega
    rw [this, UInt8.ofNat_toNat]

theorem length_encode (b : Bytes) : (encode b).length = 2 * b.length := by
  induction b with
  | nil => rfl
  | cons x rest ih => simp [encode, ih]; omega

end Hex

namespace Cert

theorem trimSuffix_append (body suf : Bytes) : trimSuffix (body ++ suf) suf = body := by
  unfold trimSuffix
  have : suf.isSuffixOf (body ++ suf) = true :=
    List.isSuffixOf_iff_suffix.mpr (List.suffix_append body suf)
  simp [this]

/-- **cert round trip, general form**: for every raw string whose length is ≡ 1 (mod 3) — the
    52-byte `nodeID ‖ publicKey` is one — stripping `==` and re-adding it decodes to the input. -/
theorem decode_toString (raw : Bytes) (h : raw.length % 3 = 1) :
    B64.decode (toString [B64.pad, B64.pad] raw ++ [B64.pad, B64.pad]) = some raw := by
  obtain ⟨body, hb⟩ := B64.encode_mod1 raw h
  unfold toString
  rw [hb, trimSuffix_append, ← hb, B64.decode_encode]

end Cert
end O4
