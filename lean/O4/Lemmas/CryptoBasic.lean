import O4.Model.Crypto.Sha256
import O4.Model.Crypto.Sha512
import O4.Model.Crypto.Hmac
import O4.Model.Crypto.Secretbox
import O4.Model.Crypto.Aes
/-!
# Structural facts about the executable primitives (core Lean only, no cryptographic content)

Output lengths, HKDF prefix consistency, position-wise characterisation of block keystreams,
AES-CTR XOR being an involution and additive in the offset, secretbox `open ∘ seal = some`.
-/
namespace O4.Crypto

/-! ## hashes -/

theorem sha256_length (m : Bytes) : (sha256 m).length = 32 := by
  simp [sha256, Sha256.State.bytes, Sha256.wordBytes]

theorem sha512_length (m : Bytes) : (sha512 m).length = 64 := by
  simp [sha512, Sha512.State.bytes, Sha512.wordBytes]

theorem hmacSha256_length (k m : Bytes) : (hmacSha256 k m).length = 32 := by
  simp [hmacSha256, sha256_length]

theorem hkdfExtract_length (salt ikm : Bytes) : (hkdfExtract salt ikm).length = 32 := by
  simp [hkdfExtract, hmacSha256_length]

/-! ## HKDF -/

theorem Hkdf.blocks_length (prk info : Bytes) (cnt : Nat) (prev : Bytes) (i : Nat) :
    (Hkdf.blocks prk info cnt prev i).length = 32 * cnt := by
  induction cnt generalizing prev i with
  | zero => simp [Hkdf.blocks]
  | succ n ih => simp [Hkdf.blocks, ih, hmacSha256_length]; omega

/-- more blocks only extend the output -/
theorem Hkdf.blocks_add (prk info : Bytes) (c d : Nat) (prev : Bytes) (i : Nat) :
    ∃ rest, Hkdf.blocks prk info (c + d) prev i = Hkdf.blocks prk info c prev i ++ rest := by
  induction c generalizing prev i with
  | zero => exact ⟨Hkdf.blocks prk info d prev i, by simp [Hkdf.blocks]⟩
  | succ n ih =>
    obtain ⟨rest, h⟩ := ih (hmacSha256 prk (prev ++ info ++ [UInt8.ofNat i])) (i + 1)
    refine ⟨rest, ?_⟩
    have : n + 1 + d = (n + d) + 1 := by omega
    rw [this]
    simp only [Hkdf.blocks]
    rw [h]
    simp

theorem hkdfExpand_length (prk info : Bytes) (n : Nat) (h : n ≤ 255 * 32) :
    (hkdfExpand prk info n).length = n := by
  simp [hkdfExpand, Hkdf.blocks_length]
  omega

/-- reading `n` bytes and reading `m ≥ n` bytes agree on the first `n`: successive `Read`s of the Go
reader are consecutive pieces of one output -/
theorem hkdfExpand_take (prk info : Bytes) (n m : Nat) (hnm : n ≤ m) (hm : m ≤ 255 * 32) :
    (hkdfExpand prk info m).take n = hkdfExpand prk info n := by
  unfold hkdfExpand
  rw [List.take_take, Nat.min_eq_left hnm]
  have hc : min ((n + 31) / 32) 255 ≤ min ((m + 31) / 32) 255 := by omega
  obtain ⟨d, hd⟩ := Nat.exists_eq_add_of_le hc
  obtain ⟨rest, hr⟩ := Hkdf.blocks_add prk info (min ((n + 31) / 32) 255) d [] 1
  rw [hd, hr, List.take_append_of_le_length]
  rw [Hkdf.blocks_length]; omega

theorem hkdfExpand?_eq_some (prk info : Bytes) (n : Nat) (h : n ≤ 255 * 32) :
    hkdfExpand? prk info n = some (hkdfExpand prk info n) := by
  simp [hkdfExpand?, hkdfMax, h]

/-! ## XOR of byte strings -/

theorem xorBytes_length (d ks : Bytes) (h : d.length ≤ ks.length) :
    (xorBytes d ks).length = d.length := by
  simp [xorBytes, List.length_zipWith]; omega

theorem UInt8.xor_cancel_right (a b : UInt8) : (a ^^^ b) ^^^ b = a := by
  rw [UInt8.xor_assoc, UInt8.xor_self, UInt8.xor_zero]

/-- XORing the same keystream twice gives the data back -/
theorem xorBytes_xorBytes (d ks : Bytes) (h : d.length ≤ ks.length) :
    xorBytes (xorBytes d ks) ks = d := by
  induction d generalizing ks with
  | nil => simp [xorBytes]
  | cons a d ih =>
    cases ks with
    | nil => simp at h
    | cons k ks =>
      simp only [xorBytes, List.zipWith_cons_cons, UInt8.xor_cancel_right] at ih ⊢
      rw [ih ks (by simpa using h)]

theorem xorBytes_append (a b k1 k2 : Bytes) (h : a.length = k1.length) :
    xorBytes (a ++ b) (k1 ++ k2) = xorBytes a k1 ++ xorBytes b k2 := by
  simp [xorBytes, List.zipWith_append h]

/-! ## block keystreams -/

/-- byte `j` of the infinite stream `blk 0 ++ blk 1 ++ …` of `bs`-byte blocks -/
def streamByte (bs : Nat) (blk : Nat → Bytes) (j : Nat) : UInt8 := (blk (j / bs)).getD (j % bs) 0

theorem ceil_mul_ge (bs x : Nat) (h : 0 < bs) : x ≤ bs * ((x + bs - 1) / bs) := by
  have := Nat.lt_mul_div_succ (x + bs - 1) h
  rw [Nat.mul_succ] at this
  omega

theorem flatMap_range'_length (bs : Nat) (blk : Nat → Bytes) (hb : ∀ i, (blk i).length = bs)
    (s c : Nat) : ((List.range' s c).flatMap blk).length = bs * c := by
  induction c generalizing s with
  | zero => simp
  | succ c ih => simp [List.range'_succ, List.flatMap_cons, ih, hb, Nat.mul_succ]; omega

theorem flatMap_range'_getElem? (bs : Nat) (blk : Nat → Bytes) (hb : ∀ i, (blk i).length = bs)
    (hbs : 0 < bs) (s c j : Nat) :
    ((List.range' s c).flatMap blk)[j]? =
      if j < bs * c then (blk (s + j / bs))[j % bs]? else none := by
  induction c generalizing s j with
  | zero => simp
  | succ c ih =>
    rw [List.range'_succ, List.flatMap_cons]
    by_cases hj : j < bs
    · rw [List.getElem?_append_left (by rw [hb]; exact hj)]
      have : j < bs * (c + 1) := by rw [Nat.mul_succ]; omega
      simp [this, Nat.div_eq_of_lt hj, Nat.mod_eq_of_lt hj]
    · obtain ⟨k, rfl⟩ := Nat.exists_eq_add_of_le (Nat.le_of_not_lt hj)
      rw [List.getElem?_append_right (by rw [hb]; omega), hb, Nat.add_sub_cancel_left, ih,
        Nat.add_div_left k hbs, Nat.add_mod_left]
      have h1 : (bs + k < bs * (c + 1)) ↔ (k < bs * c) := by
        rw [Nat.mul_succ]; omega
      have h2 : s + 1 + k / bs = s + (k / bs + 1) := by omega
      simp only [h1, h2]

theorem blockStream_length (bs : Nat) (blk : Nat → Bytes) (hb : ∀ i, (blk i).length = bs)
    (hbs : 0 < bs) (off len : Nat) : (blockStream bs blk off len).length = len := by
  unfold blockStream
  rw [List.length_take, List.length_drop, flatMap_range'_length bs blk hb]
  have := ceil_mul_ge bs (off % bs + len) hbs
  omega

theorem blockStream_getElem? (bs : Nat) (blk : Nat → Bytes) (hb : ∀ i, (blk i).length = bs)
    (hbs : 0 < bs) (off len i : Nat) :
    (blockStream bs blk off len)[i]? =
      if i < len then some (streamByte bs blk (off + i)) else none := by
  unfold blockStream
  rw [List.getElem?_take]
  by_cases hi : i < len
  · simp only [hi, if_true]
    rw [List.getElem?_drop, flatMap_range'_getElem? bs blk hb hbs]
    have h1 := ceil_mul_ge bs (off % bs + len) hbs
    have h2 : off % bs + i < bs * ((off % bs + len + bs - 1) / bs) := by omega
    rw [if_pos h2]
    have hd : off + i = bs * (off / bs) + (off % bs + i) := by
      have := Nat.div_add_mod off bs; omega
    have e1 : off / bs + (off % bs + i) / bs = (off + i) / bs := by
      rw [hd, Nat.mul_add_div hbs]
    have e2 : (off % bs + i) % bs = (off + i) % bs := by
      rw [hd, Nat.mul_add_mod]
    rw [e1, e2, streamByte, List.getD_eq_getElem?_getD]
    have : (off + i) % bs < (blk ((off + i) / bs)).length := by rw [hb]; exact Nat.mod_lt _ hbs
    rw [List.getElem?_eq_getElem this]
    rfl
  · simp [hi]

/-- position-wise characterisation: the window `[off, off+len)` of the stream -/
theorem blockStream_eq_map (bs : Nat) (blk : Nat → Bytes) (hb : ∀ i, (blk i).length = bs)
    (hbs : 0 < bs) (off len : Nat) :
    blockStream bs blk off len = (List.range' off len).map (streamByte bs blk) := by
  apply List.ext_getElem?
  intro i
  rw [blockStream_getElem? bs blk hb hbs, List.getElem?_map]
  by_cases hi : i < len
  · simp [hi]
  · simp [hi]

/-- a keystream window splits at any point -/
theorem blockStream_append (bs : Nat) (blk : Nat → Bytes) (hb : ∀ i, (blk i).length = bs)
    (hbs : 0 < bs) (off a b : Nat) :
    blockStream bs blk off (a + b) = blockStream bs blk off a ++ blockStream bs blk (off + a) b := by
  simp only [blockStream_eq_map bs blk hb hbs]
  rw [← List.map_append]
  congr 1
  have := @List.range'_append off a b 1
  rw [Nat.one_mul] at this
  exact this.symm

/-! ## Salsa20 / XSalsa20 -/

theorem Salsa.bytes_length (s : Salsa.S16) : s.bytes.length = 64 := by
  simp [Salsa.S16.bytes, Salsa.wordBytes]

theorem Salsa.block_length (k : ByteArray) (n0 n1 : UInt32) (ctr : Nat) :
    (Salsa.block k n0 n1 ctr).length = 64 := by
  simp [Salsa.block, Salsa.bytes_length]

theorem salsa20Core_length (inp : Bytes) : (salsa20Core inp).length = 64 := by
  simp [salsa20Core, Salsa.bytes_length]

theorem hsalsa20_length (key n : Bytes) : (hsalsa20 key n).length = 32 := by
  simp [hsalsa20, Salsa.wordBytes]

theorem salsa20Stream_length (key nonce : Bytes) (off len : Nat) :
    (salsa20Stream key nonce off len).length = len := by
  unfold salsa20Stream
  exact blockStream_length 64 _ (Salsa.block_length _ _ _) (by omega) off len

theorem salsa20Stream_append (key nonce : Bytes) (off a b : Nat) :
    salsa20Stream key nonce off (a + b) =
      salsa20Stream key nonce off a ++ salsa20Stream key nonce (off + a) b := by
  unfold salsa20Stream
  exact blockStream_append 64 _ (Salsa.block_length _ _ _) (by omega) off a b

theorem xsalsa20Stream_length (key nonce : Bytes) (off len : Nat) :
    (xsalsa20Stream key nonce off len).length = len := by
  simp [xsalsa20Stream, salsa20Stream_length]

theorem xsalsa20Stream_append (key nonce : Bytes) (off a b : Nat) :
    xsalsa20Stream key nonce off (a + b) =
      xsalsa20Stream key nonce off a ++ xsalsa20Stream key nonce (off + a) b := by
  simp [xsalsa20Stream, salsa20Stream_append]

/-! ## Poly1305 and secretbox -/

theorem ofNatLE_length (n x : Nat) : (Bytes.ofNatLE n x).length = n := by
  induction n generalizing x with
  | zero => simp [Bytes.ofNatLE]
  | succ n ih => simp [Bytes.ofNatLE, ih]

theorem poly1305_length (key msg : Bytes) : (poly1305 key msg).length = 16 := by
  simp [poly1305, ofNatLE_length]

theorem Secretbox.stream_length (key nonce : Bytes) (len : Nat) :
    (Secretbox.stream key nonce len).length = len := by
  simp [Secretbox.stream, xsalsa20Stream_length]

theorem secretboxSeal_length (key nonce msg : Bytes) :
    (secretboxSeal key nonce msg).length = msg.length + 16 := by
  simp [secretboxSeal, poly1305_length, xorBytes_length, Secretbox.stream_length]
  omega

/-- `secretboxOpen` on a box given as tag and ciphertext -/
theorem secretboxOpen_append (key nonce tag ct : Bytes) (ht : tag.length = 16) :
    secretboxOpen key nonce (tag ++ ct) =
      if poly1305 (Secretbox.polyKey key nonce) ct == tag then
        some (xorBytes ct (Secretbox.stream key nonce ct.length))
      else none := by
  have hl : ¬ (tag ++ ct).length < 16 := by simp [ht]
  simp only [secretboxOpen, Secretbox.overhead, if_neg hl, List.take_left' ht, List.drop_left' ht]

/-- an honestly sealed box opens to the message (any key, nonce and message, no size conditions) -/
theorem secretboxOpen_seal (key nonce msg : Bytes) :
    secretboxOpen key nonce (secretboxSeal key nonce msg) = some msg := by
  have hs : msg.length ≤ (Secretbox.stream key nonce msg.length).length := by
    rw [Secretbox.stream_length]; exact Nat.le_refl _
  have hct : (xorBytes msg (Secretbox.stream key nonce msg.length)).length = msg.length :=
    xorBytes_length _ _ hs
  show secretboxOpen key nonce (poly1305 _ _ ++ _) = _
  rw [secretboxOpen_append _ _ _ _ (poly1305_length _ _), hct, xorBytes_xorBytes _ _ hs]
  simp

/-- anything that opens is at least a tag long and the plaintext is 16 bytes shorter -/
theorem secretboxOpen_length (key nonce box m : Bytes) (h : secretboxOpen key nonce box = some m) :
    m.length + 16 = box.length := by
  unfold secretboxOpen at h
  split at h
  · cases h
  · rename_i hl
    simp only [] at h
    split at h
    · have := Option.some.inj h
      rw [← this, xorBytes_length _ _ (by rw [Secretbox.stream_length]; exact Nat.le_refl _)]
      simp only [Secretbox.overhead] at hl ⊢
      simp; omega
    · cases h

/-! ## AES-CTR -/

theorem Aes.ctrBlock_length (rk : Array UInt32) (iv i : Nat) : (Aes.ctrBlock rk iv i).length = 16 := by
  simp [Aes.ctrBlock, Aes.Cols.bytes, Aes.wordBytes]

theorem aesEncryptBlock_length (key block : Bytes) (hk : aesKeyOk key = true) (hb : block.length = 16) :
    (aesEncryptBlock key block).length = 16 := by
  simp [aesEncryptBlock, hk, hb, Aes.Cols.bytes, Aes.wordBytes]

theorem aesCtrKeystream_length (key iv : Bytes) (off len : Nat) :
    (aesCtrKeystream key iv off len).length = len := by
  unfold aesCtrKeystream
  exact blockStream_length 16 _ (Aes.ctrBlock_length _ _) (by omega) off len

theorem aesCtrKeystream_append (key iv : Bytes) (off a b : Nat) :
    aesCtrKeystream key iv off (a + b) =
      aesCtrKeystream key iv off a ++ aesCtrKeystream key iv (off + a) b := by
  unfold aesCtrKeystream
  exact blockStream_append 16 _ (Aes.ctrBlock_length _ _) (by omega) off a b

theorem aesCtrXor_length (key iv : Bytes) (off : Nat) (data : Bytes) :
    (aesCtrXor key iv off data).length = data.length := by
  unfold aesCtrXor
  exact xorBytes_length _ _ (by rw [aesCtrKeystream_length]; exact Nat.le_refl _)

/-- decrypting at the same stream position undoes encrypting -/
theorem aesCtrXor_involution (key iv : Bytes) (off : Nat) (data : Bytes) :
    aesCtrXor key iv off (aesCtrXor key iv off data) = data := by
  have hl := aesCtrXor_length key iv off data
  unfold aesCtrXor at hl ⊢
  rw [hl]
  exact xorBytes_xorBytes _ _ (by rw [aesCtrKeystream_length]; exact Nat.le_refl _)

/-- a stream cipher processes a concatenation piecewise, the second piece at the advanced position
(chunking of `Write`/`Read` calls does not matter) -/
theorem aesCtrXor_append (key iv : Bytes) (off : Nat) (a b : Bytes) :
    aesCtrXor key iv off (a ++ b) =
      aesCtrXor key iv off a ++ aesCtrXor key iv (off + a.length) b := by
  unfold aesCtrXor
  rw [List.length_append, aesCtrKeystream_append]
  exact xorBytes_append _ _ _ _ (by rw [aesCtrKeystream_length])

end O4.Crypto
