import O4.Model.Relay
/-! Invariants of the `copyLoop` interleaving model (core only). -/
namespace O4.Relay

@[simp] theorem upd_same {α β : Type} [DecidableEq α] (f : α → β) (a : α) (v : β) :
    upd f a v a = v := by simp [upd]

@[simp] theorem upd_ne {α β : Type} [DecidableEq α] (f : α → β) (a x : α) (v : β) (h : x ≠ a) :
    upd f a v x = f x := by simp [upd, h]

theorem Dir.src_ne {d d' : Dir} (h : d' ≠ d) : d'.src ≠ d.src := by
  cases d <;> cases d' <;> simp_all [Dir.src]

theorem Dir.src_ne_dst (d : Dir) : d.src ≠ d.dst := by cases d <;> simp [Dir.src, Dir.dst]

theorem Dir.dst_eq_src {d d' : Dir} (h : d' ≠ d) : d'.dst = d.src := by
  cases d <;> cases d' <;> simp_all [Dir.src, Dir.dst]

/-- copier `d` has left `io.Copy` -/
def Pc.exiting : Pc → Bool
  | .rd => false
  | .wr _ _ => false
  | _ => true

/-- copier `d` has sent its result on errChan -/
def Pc.sent : Pc → Bool
  | .cl1 | .cl2 | .wgd | .done => true
  | _ => false

/-- data-flow invariant of direction `d` -/
def Flow (s : State) (d : Dir) : Prop :=
  let k := s.conn d.src
  match (s.cop d).pc with
  | .rd => k.produced = s.fwd d ++ k.inbox
  | .wr buf fin => k.produced = s.fwd d ++ buf ++ k.inbox ∧
      (∀ f, fin = some f → k.inbox = [] ∧ k.fin = some f)
  | _ => (∃ rest, k.produced = s.fwd d ++ rest) ∧
      (((s.cop d).res = .ok ∨ (s.cop d).res = .rerr d.src) → k.produced = s.fwd d ∧ k.fin ≠ none)

theorem flow_init (d : Dir) : Flow init d := by
  simp [Flow, init]

theorem clamp_pos (n len : Nat) : 1 ≤ clamp n len := by
  unfold clamp; omega

/-- what a step of another copier, or of the environment on the other side, leaves alone -/
theorem flow_congr (s t : State) (d : Dir)
    (h1 : t.cop d = s.cop d) (h2 : t.fwd d = s.fwd d)
    (h3 : (t.conn d.src).inbox = (s.conn d.src).inbox)
    (h4 : (t.conn d.src).produced = (s.conn d.src).produced)
    (h5 : (t.conn d.src).fin = (s.conn d.src).fin)
    (h : Flow s d) : Flow t d := by
  unfold Flow at *
  simp only [h1, h2, h3, h4, h5]
  exact h

theorem stepRd_cases (s : State) (d : Dir) (p : Param) (P : State → Prop)
    (h1 : (s.conn d.src).closed = true →
      P ((s.setCop d { pc := .snd, res := .closed }).emit (.readClosed d)))
    (h2 : (s.conn d.src).closed = false → (s.conn d.src).inbox ≠ [] →
      ∀ fin, (fin = none ∨ (fin = (s.conn d.src).fin ∧ p.withFin = true ∧
          (s.conn d.src).inbox.drop (clamp p.n (s.conn d.src).inbox.length) = [])) →
      P (((s.setConn d.src { (s.conn d.src) with
              inbox := (s.conn d.src).inbox.drop (clamp p.n (s.conn d.src).inbox.length) }).setCop d
            { (s.cop d) with pc := .wr ((s.conn d.src).inbox.take (clamp p.n (s.conn d.src).inbox.length)) fin }).emit
          (.readData d ((s.conn d.src).inbox.take (clamp p.n (s.conn d.src).inbox.length)) fin)))
    (h3 : (s.conn d.src).closed = false → (s.conn d.src).inbox = [] → ∀ f, (s.conn d.src).fin = some f →
      P ((s.setCop d { pc := .snd, res := f.toErr d.src }).emit (.readEnd d f)))
    (h4 : (s.conn d.src).closed = false → (s.conn d.src).inbox = [] → (s.conn d.src).fin = none → P s) :
    P (stepRd s d p) := by
  unfold stepRd
  dsimp only
  by_cases c1 : (s.conn d.src).closed = true
  · rw [if_pos c1]; exact h1 c1
  · rw [if_neg c1]
    have c1' : (s.conn d.src).closed = false := by simpa using c1
    by_cases c2 : (s.conn d.src).inbox ≠ []
    · rw [if_pos c2]
      apply h2 c1' c2
      by_cases c3 : p.withFin = true ∧ (s.conn d.src).inbox.drop (clamp p.n (s.conn d.src).inbox.length) = []
      · rw [if_pos c3]; exact Or.inr ⟨rfl, c3.1, c3.2⟩
      · rw [if_neg c3]; exact Or.inl rfl
    · rw [if_neg c2]
      have c2' : (s.conn d.src).inbox = [] := by simpa using c2
      cases c3 : (s.conn d.src).fin with
      | none => exact h4 c1' c2' c3
      | some f => exact h3 c1' c2' f c3

theorem stepWr_cases (s : State) (d : Dir) (p : Param) (buf : Bytes) (fin : Option Fin) (P : State → Prop)
    (h1 : (s.conn d.dst).closed = true →
      P ((s.setCop d { pc := .snd, res := .closed }).emit (.write d buf 0 none)))
    (h2 : (s.conn d.dst).closed = false → fin = none →
      P (((s.setFwd d (s.fwd d ++ buf)).emit (.write d buf buf.length (some .ok))).setCop d
          { (s.cop d) with pc := .rd }))
    (h3 : (s.conn d.dst).closed = false → ∀ f, fin = some f →
      P (((s.setFwd d (s.fwd d ++ buf)).emit (.write d buf buf.length (some .ok))).setCop d
          { pc := .snd, res := f.toErr d.src }))
    (h4 : (s.conn d.dst).closed = false → ∀ k e, (e = .short ∨ e = .werr d.dst) → ∀ ev,
      P (((s.setFwd d (s.fwd d ++ buf.take k)).setCop d { pc := .snd, res := e }).emit ev)) :
    P (stepWr s d p buf fin) := by
  unfold stepWr
  dsimp only
  by_cases c1 : (s.conn d.dst).closed = true
  · rw [if_pos c1]; exact h1 c1
  · rw [if_neg c1]
    have c1' : (s.conn d.dst).closed = false := by simpa using c1
    cases hw : p.w with
    | ok =>
      cases fin with
      | none => exact h2 c1' rfl
      | some f => exact h3 c1' f rfl
    | short k => exact h4 c1' _ _ (Or.inl rfl) _
    | err k => exact h4 c1' _ _ (Or.inr rfl) _

/-- what a step of copier `d0` leaves alone -/
structure Frame (s t : State) (d0 : Dir) : Prop where
  cop : ∀ d, d ≠ d0 → t.cop d = s.cop d
  fwd : ∀ d, d ≠ d0 → t.fwd d = s.fwd d
  inbox : ∀ c, c ≠ d0.src → (t.conn c).inbox = (s.conn c).inbox
  fin : ∀ c, (t.conn c).fin = (s.conn c).fin
  produced : ∀ c, (t.conn c).produced = (s.conn c).produced
  closed : ∀ c, (s.conn c).closed = true → (t.conn c).closed = true
  ret : t.ret = s.ret

theorem Frame.refl (s : State) (d0 : Dir) : Frame s s d0 :=
  ⟨fun _ _ => rfl, fun _ _ => rfl, fun _ _ => rfl, fun _ => rfl, fun _ => rfl, fun _ h => h, rfl⟩

theorem upd_conn_field {β : Type} (f : Side → Conn) (a : Side) (v : Conn) (g : Conn → β)
    (h : g v = g (f a)) (x : Side) : g (upd f a v x) = g (f x) := by
  by_cases hx : x = a
  · subst hx; simp [h]
  · simp [hx]

theorem frame_stepRd (s : State) (d0 : Dir) (p : Param) : Frame s (stepRd s d0 p) d0 := by
  apply stepRd_cases s d0 p (fun t => Frame s t d0)
  · intro _; constructor <;> intros <;> simp_all [State.setCop, State.emit]
  · intro _ _ fin _
    constructor
    · intros; simp_all [State.setCop, State.emit, State.setConn]
    · intros; simp_all [State.setCop, State.emit, State.setConn]
    · intro c hc; simp [State.setCop, State.emit, State.setConn, hc]
    · intros; simp only [State.setCop, State.emit, State.setConn]; apply upd_conn_field; rfl
    · intros; simp only [State.setCop, State.emit, State.setConn]; apply upd_conn_field; rfl
    · intro c hc; simp only [State.setCop, State.emit, State.setConn]
      by_cases hx : c = d0.src
      · subst hx; simp [hc]
      · simp [hx, hc]
    · simp [State.setCop, State.emit, State.setConn]
  · intro _ _ f _; constructor <;> intros <;> simp_all [State.setCop, State.emit]
  · intro _ _ _; exact Frame.refl _ _

theorem frame_stepWr (s : State) (d0 : Dir) (p : Param) (buf : Bytes) (fin : Option Fin) :
    Frame s (stepWr s d0 p buf fin) d0 := by
  apply stepWr_cases s d0 p buf fin (fun t => Frame s t d0)
  · intro _; constructor <;> intros <;> simp_all [State.setCop, State.emit]
  · intro _ _; constructor <;> intros <;> simp_all [State.setCop, State.emit, State.setFwd]
  · intro _ f _; constructor <;> intros <;> simp_all [State.setCop, State.emit, State.setFwd]
  · intro _ k e _ ev; constructor <;> intros <;> simp_all [State.setCop, State.emit, State.setFwd]

theorem frame_stepSnd (s : State) (d0 : Dir) : Frame s (stepSnd s d0) d0 := by
  unfold stepSnd
  constructor <;> intros <;> simp_all [State.setCop]

theorem frame_stepCl (s : State) (d0 : Dir) (c : Side) (next : Pc) :
    Frame s (stepCl s d0 c next) d0 := by
  unfold stepCl
  constructor
  · intros; simp_all [State.setCop, State.emit, State.setConn]
  · intros; simp_all [State.setCop, State.emit, State.setConn]
  · intros; simp only [State.setCop, State.emit, State.setConn]; apply upd_conn_field; rfl
  · intros; simp only [State.setCop, State.emit, State.setConn]; apply upd_conn_field; rfl
  · intros; simp only [State.setCop, State.emit, State.setConn]; apply upd_conn_field; rfl
  · intro c' hc'
    simp only [State.setCop, State.emit, State.setConn]
    by_cases hx : c' = c
    · subst hx; simp
    · simp [hx, hc']
  · simp [State.setCop, State.emit, State.setConn]

theorem frame_stepCop (s : State) (d0 : Dir) (p : Param) : Frame s (stepCop s d0 p) d0 := by
  unfold stepCop
  split
  · exact frame_stepRd ..
  · exact frame_stepWr ..
  · exact frame_stepSnd ..
  · exact frame_stepCl ..
  · exact frame_stepCl ..
  · constructor <;> intros <;> simp_all [State.setCop]
  · exact Frame.refl _ _

theorem flow_stepCop_other (s : State) (d d0 : Dir) (p : Param) (hne : d0 ≠ d)
    (h : Flow s d) : Flow (stepCop s d0 p) d :=
  have F := frame_stepCop s d0 p
  flow_congr s _ d (F.cop d (Ne.symm hne)) (F.fwd d (Ne.symm hne))
    (F.inbox d.src (Dir.src_ne (Ne.symm hne))) (F.produced _) (F.fin _) h

theorem flow_stepCop_own (s : State) (d : Dir) (p : Param) (h : Flow s d) :
    Flow (stepCop s d p) d := by
  unfold stepCop
  split
  next hpc =>
    simp only [Flow, hpc] at h
    apply stepRd_cases s d p (fun t => Flow t d)
    · intro _
      simp [Flow, State.setCop, State.emit, h]
    · intro _ hin fin hfin
      simp only [Flow, State.setCop, State.emit, State.setConn, upd_same]
      refine ⟨?_, ?_⟩
      · rw [h, List.append_assoc, List.take_append_drop]
      · intro f hf
        rcases hfin with hfin | ⟨hfin, _, hdrop⟩
        · simp [hfin] at hf
        · exact ⟨hdrop, by rw [← hfin, hf]⟩
    · intro _ hin f hf
      simp [Flow, State.setCop, State.emit, h, hin, hf]
    · intro _ _ _
      simp only [Flow, hpc]; exact h
  next buf fin hpc =>
    simp only [Flow, hpc] at h
    apply stepWr_cases s d p buf fin (fun t => Flow t d)
    · intro _
      simp only [Flow, State.setCop, State.emit, upd_same]
      exact ⟨⟨buf ++ (s.conn d.src).inbox, by rw [h.1, List.append_assoc]⟩, by simp⟩
    · intro _ _
      simp only [Flow, State.setCop, State.emit, State.setFwd, upd_same]
      exact h.1
    · intro _ f hf
      obtain ⟨h1, h2⟩ := h
      obtain ⟨h3, h4⟩ := h2 f hf
      simp only [Flow, State.setCop, State.emit, State.setFwd, upd_same]
      rw [h3, List.append_nil] at h1
      exact ⟨⟨[], by simpa using h1⟩, fun _ => ⟨h1, by simp [h4]⟩⟩
    · intro _ k e he ev
      simp only [Flow, State.setCop, State.emit, State.setFwd, upd_same]
      refine ⟨⟨buf.drop k ++ (s.conn d.src).inbox, ?_⟩, ?_⟩
      · rw [h.1, List.append_assoc, List.append_assoc, ← List.append_assoc (buf.take k),
          List.take_append_drop]
      · intro hres; rcases he with rfl | rfl <;> rcases hres with hres | hres <;> cases hres
  next hpc =>
    simp only [Flow, hpc] at h
    simp only [Flow, stepSnd, State.setCop, upd_same]; exact h
  next hpc =>
    simp only [Flow, hpc] at h
    simp only [Flow, stepCl, State.setCop, State.emit, State.setConn, upd_same]; exact h
  next hpc =>
    simp only [Flow, hpc] at h
    simp only [Flow, stepCl, State.setCop, State.emit, State.setConn, upd_same,
      upd_ne _ _ _ _ (Dir.src_ne_dst d)]; exact h
  next hpc =>
    simp only [Flow, hpc] at h
    simp only [Flow, State.setCop, upd_same]; exact h
  next hpc => exact h

theorem flow_step (s : State) (c : Choice) (d : Dir) (h : Flow s d) : Flow (step s c) d := by
  cases c with
  | produce c data =>
    simp only [step]
    split
    next hfin =>
      by_cases hc : d.src = c
      · subst hc
        unfold Flow at *
        simp only [State.setConn, upd_same]
        split at h
        · rw [h]; simp
        · next buf fin _ =>
          refine ⟨by rw [h.1]; simp, ?_⟩
          intro f hf; have := (h.2 f hf).2; simp [hfin] at this
        · refine ⟨?_, ?_⟩
          · obtain ⟨rest, hr⟩ := h.1; exact ⟨rest ++ data, by rw [hr]; simp⟩
          · intro hres; have := (h.2 hres).2; simp [hfin] at this
      · exact flow_congr s _ d rfl rfl (by simp [State.setConn, hc]) (by simp [State.setConn, hc])
          (by simp [State.setConn, hc]) h
    next => exact h
  | finish c f =>
    simp only [step]
    split
    next hfin =>
      by_cases hc : d.src = c
      · subst hc
        unfold Flow at *
        simp only [State.setConn, upd_same]
        split at h
        · exact h
        · next buf fin _ =>
          refine ⟨h.1, ?_⟩
          intro f' hf; have := (h.2 f' hf).2; simp [hfin] at this
        · refine ⟨h.1, ?_⟩
          intro hres; exact ⟨(h.2 hres).1, by simp⟩
      · exact flow_congr s _ d rfl rfl (by simp [State.setConn, hc]) (by simp [State.setConn, hc])
          (by simp [State.setConn, hc]) h
    next => exact h
  | cop d0 p =>
    simp only [step]
    by_cases hd : d0 = d
    · subst hd; exact flow_stepCop_own s d0 p h
    · exact flow_stepCop_other s d d0 p hd h
  | main =>
    simp only [step]
    split
    · exact flow_congr s _ d rfl rfl rfl rfl rfl h
    · exact h

theorem flow_run (s : State) (cs : List Choice) (d : Dir) (h : Flow s d) : Flow (run s cs) d := by
  induction cs generalizing s with
  | nil => exact h
  | cons c cs ih => exact ih _ (flow_step s c d h)

/-- control invariant: closes, errChan contents, return value -/
structure Ctl (s : State) : Prop where
  cl2 : ∀ d, (s.cop d).pc = .cl2 → (s.conn d.src).closed = true
  after : ∀ d, ((s.cop d).pc = .wgd ∨ (s.cop d).pc = .done) →
    (s.conn d.src).closed = true ∧ (s.conn d.dst).closed = true
  len : s.errs.length = (if (s.cop .ab).pc.sent then 1 else 0) + (if (s.cop .ba).pc.sent then 1 else 0)
  mem : ∀ e ∈ s.errs, ∃ d, (s.cop d).pc.sent = true ∧ e = (s.cop d).res
  closedErrs : ∀ c, (s.conn c).closed = true → s.errs ≠ []
  head : s.errs.head? ≠ some .closed
  sndClosed : ∀ d, (s.cop d).pc = .snd → (s.cop d).res = .closed → s.errs ≠ []
  ret : ∀ e, s.ret = some e →
    (s.cop .ab).pc = .done ∧ (s.cop .ba).pc = .done ∧ s.errs.head? = some e

theorem ctl_init : Ctl init := by
  constructor <;> simp [init, Pc.sent]

theorem sent_len {s : State} (h : Ctl s) (d : Dir) (hs : (s.cop d).pc.sent = true) : s.errs ≠ [] := by
  have := h.len
  intro he
  rw [he] at this
  cases d <;> rw [hs] at this <;> simp at this <;> split at this <;> omega

/-- steps inside io.Copy: the copier stays before its send -/
theorem ctl_io (s t : State) (d0 : Dir) (hC : Ctl s)
    (hcop : ∀ d, d ≠ d0 → t.cop d = s.cop d)
    (hclosed : ∀ c, (t.conn c).closed = (s.conn c).closed)
    (herrs : t.errs = s.errs) (hret : t.ret = s.ret)
    (hs : (s.cop d0).pc.sent = false)
    (ht : (t.cop d0).pc.sent = false)
    (hsnd : (t.cop d0).pc = .snd → (t.cop d0).res = .closed → s.errs ≠ []) : Ctl t := by
  constructor
  · intro d hd
    by_cases hdd : d = d0
    · subst hdd; rw [hd] at ht; simp [Pc.sent] at ht
    · rw [hcop d hdd] at hd; rw [hclosed]; exact hC.cl2 d hd
  · intro d hd
    by_cases hdd : d = d0
    · subst hdd; rcases hd with hd | hd <;> (rw [hd] at ht; simp [Pc.sent] at ht)
    · rw [hcop d hdd] at hd; rw [hclosed, hclosed]; exact hC.after d hd
  · rw [herrs, hC.len]
    cases d0
    · rw [hcop .ba (by decide), hs, ht]
    · rw [hcop .ab (by decide), hs, ht]
  · intro e he
    rw [herrs] at he
    obtain ⟨d, hd1, hd2⟩ := hC.mem e he
    have hdd : d ≠ d0 := by intro h; subst h; rw [hs] at hd1; cases hd1
    exact ⟨d, by rw [hcop d hdd]; exact hd1, by rw [hcop d hdd]; exact hd2⟩
  · intro c hc; rw [herrs]; rw [hclosed] at hc; exact hC.closedErrs c hc
  · rw [herrs]; exact hC.head
  · intro d hd hr
    rw [herrs]
    by_cases hdd : d = d0
    · subst hdd; exact hsnd hd hr
    · rw [hcop d hdd] at hd hr; exact hC.sndClosed d hd hr
  · intro e he
    rw [hret] at he
    obtain ⟨h1, h2, _⟩ := hC.ret e he
    cases d0
    · rw [h1] at hs; simp [Pc.sent] at hs
    · rw [h2] at hs; simp [Pc.sent] at hs

theorem ctl_stepRd (s : State) (d : Dir) (p : Param) (hpc : (s.cop d).pc = .rd) (hC : Ctl s) :
    Ctl (stepRd s d p) := by
  have hs : (s.cop d).pc.sent = false := by rw [hpc]; rfl
  apply stepRd_cases s d p Ctl
  · intro hcl
    apply ctl_io s _ d hC <;> simp_all [State.setCop, State.emit, Pc.sent]
    exact hC.closedErrs _ hcl
  · intro _ _ fin _
    apply ctl_io s _ d hC
    · intro d' hd'; simp [State.setCop, State.emit, State.setConn, hd']
    · intro c; simp only [State.setCop, State.emit, State.setConn]; apply upd_conn_field; rfl
    · rfl
    · rfl
    · exact hs
    · simp [State.setCop, State.emit, Pc.sent]
    · simp [State.setCop, State.emit]
  · intro _ _ f _
    apply ctl_io s _ d hC <;> simp_all [State.setCop, State.emit, Pc.sent]
    cases f <;> simp [Fin.toErr]
  · intro _ _ _; exact hC

theorem ctl_stepWr (s : State) (d : Dir) (p : Param) (buf : Bytes) (fin : Option Fin)
    (hpc : (s.cop d).pc = .wr buf fin) (hC : Ctl s) : Ctl (stepWr s d p buf fin) := by
  have hs : (s.cop d).pc.sent = false := by rw [hpc]; rfl
  apply stepWr_cases s d p buf fin Ctl
  · intro hcl
    apply ctl_io s _ d hC <;> simp_all [State.setCop, State.emit, Pc.sent]
    exact hC.closedErrs _ hcl
  · intro _ _
    apply ctl_io s _ d hC <;> simp_all [State.setCop, State.emit, State.setFwd, Pc.sent]
  · intro _ f _
    apply ctl_io s _ d hC <;> simp_all [State.setCop, State.emit, State.setFwd, Pc.sent]
    cases f <;> simp [Fin.toErr]
  · intro _ k e he ev
    apply ctl_io s _ d hC <;> simp_all [State.setCop, State.emit, State.setFwd, Pc.sent]
    rcases he with rfl | rfl <;> simp

theorem ctl_stepSnd (s : State) (d0 : Dir) (hpc : (s.cop d0).pc = .snd) (hC : Ctl s) :
    Ctl (stepSnd s d0) := by
  have hother : ∀ d, d ≠ d0 → (stepSnd s d0).cop d = s.cop d := by
    intro d hd; simp [stepSnd, State.setCop, hd]
  have hown : (stepSnd s d0).cop d0 = { (s.cop d0) with pc := .cl1 } := by
    simp [stepSnd, State.setCop]
  have herrs : (stepSnd s d0).errs = s.errs ++ [(s.cop d0).res] := by simp [stepSnd, State.setCop]
  have hconn : (stepSnd s d0).conn = s.conn := by simp [stepSnd, State.setCop]
  have hret : (stepSnd s d0).ret = s.ret := by simp [stepSnd, State.setCop]
  constructor
  · intro d hd
    by_cases hdd : d = d0
    · subst hdd; rw [hown] at hd; cases hd
    · rw [hother d hdd] at hd; rw [hconn]; exact hC.cl2 d hd
  · intro d hd
    by_cases hdd : d = d0
    · subst hdd; rw [hown] at hd; rcases hd with hd | hd <;> cases hd
    · rw [hother d hdd] at hd; rw [hconn]; exact hC.after d hd
  · rw [herrs, List.length_append, hC.len]
    cases d0
    · rw [hother .ba (by decide), hown, hpc]; simp [Pc.sent]; omega
    · rw [hother .ab (by decide), hown, hpc]; simp [Pc.sent]
  · intro e he
    rw [herrs] at he
    rcases List.mem_append.mp he with he | he
    · obtain ⟨d, hd1, hd2⟩ := hC.mem e he
      have hdd : d ≠ d0 := by intro h; subst h; rw [hpc] at hd1; cases hd1
      exact ⟨d, by rw [hother d hdd]; exact hd1, by rw [hother d hdd]; exact hd2⟩
    · simp at he
      exact ⟨d0, by rw [hown]; rfl, by rw [hown]; exact he⟩
  · intro c _; rw [herrs]; simp
  · rw [herrs]
    cases he : s.errs with
    | nil =>
      simp
      intro hcl
      exact hC.sndClosed d0 hpc hcl he
    | cons a l => simpa [he] using hC.head
  · intro d _ _; rw [herrs]; simp
  · intro e he
    rw [hret] at he
    obtain ⟨h1, h2, _⟩ := hC.ret e he
    cases d0
    · rw [h1] at hpc; cases hpc
    · rw [h2] at hpc; cases hpc

/-- steps after the send: closes and wg.Done -/
theorem ctl_tail (s t : State) (d0 : Dir) (hC : Ctl s)
    (hcop : ∀ d, d ≠ d0 → t.cop d = s.cop d)
    (hmono : ∀ c, (s.conn c).closed = true → (t.conn c).closed = true)
    (hnew : ∀ c, (t.conn c).closed = true → (s.conn c).closed = true ∨ (s.cop d0).pc.sent = true)
    (herrs : t.errs = s.errs) (hret : t.ret = s.ret) (hres : (t.cop d0).res = (s.cop d0).res)
    (hs : (s.cop d0).pc.sent = true) (hnd : (s.cop d0).pc ≠ .done)
    (ht : (t.cop d0).pc.sent = true)
    (h2 : (t.cop d0).pc = .cl2 → (t.conn d0.src).closed = true)
    (h3 : ((t.cop d0).pc = .wgd ∨ (t.cop d0).pc = .done) →
      (t.conn d0.src).closed = true ∧ (t.conn d0.dst).closed = true) : Ctl t := by
  constructor
  · intro d hd
    by_cases hdd : d = d0
    · subst hdd; exact h2 hd
    · rw [hcop d hdd] at hd; exact hmono _ (hC.cl2 d hd)
  · intro d hd
    by_cases hdd : d = d0
    · subst hdd; exact h3 hd
    · rw [hcop d hdd] at hd; exact ⟨hmono _ (hC.after d hd).1, hmono _ (hC.after d hd).2⟩
  · rw [herrs, hC.len]
    cases d0
    · rw [hcop .ba (by decide), hs, ht]
    · rw [hcop .ab (by decide), hs, ht]
  · intro e he
    rw [herrs] at he
    obtain ⟨d, hd1, hd2⟩ := hC.mem e he
    by_cases hdd : d = d0
    · subst hdd; exact ⟨d, ht, by rw [hres]; exact hd2⟩
    · exact ⟨d, by rw [hcop d hdd]; exact hd1, by rw [hcop d hdd]; exact hd2⟩
  · intro c hc
    rw [herrs]
    rcases hnew c hc with h | h
    · exact hC.closedErrs c h
    · exact sent_len hC d0 h
  · rw [herrs]; exact hC.head
  · intro d hd hr
    rw [herrs]
    by_cases hdd : d = d0
    · subst hdd; rw [hd] at ht; cases ht
    · rw [hcop d hdd] at hd hr; exact hC.sndClosed d hd hr
  · intro e he
    rw [hret] at he
    obtain ⟨hr1, hr2, _⟩ := hC.ret e he
    cases d0
    · exact absurd hr1 hnd
    · exact absurd hr2 hnd

theorem ctl_stepCl (s : State) (d0 : Dir) (c : Side) (next : Pc) (hC : Ctl s)
    (hs : (s.cop d0).pc.sent = true) (hnd : (s.cop d0).pc ≠ .done)
    (hnext : (next = .cl2 ∧ c = d0.src) ∨
      (next = .wgd ∧ c = d0.dst ∧ (s.conn d0.src).closed = true)) : Ctl (stepCl s d0 c next) := by
  have hclosed : ∀ c', ((stepCl s d0 c next).conn c').closed = ((s.conn c').closed || decide (c' = c)) := by
    intro c'
    simp only [stepCl, State.setCop, State.emit, State.setConn]
    by_cases hx : c' = c
    · subst hx; simp
    · simp [hx]
  apply ctl_tail s _ d0 hC
  · intro d hd; simp [stepCl, State.setCop, State.emit, State.setConn, hd]
  · intro c' hc'; rw [hclosed, hc']; rfl
  · intro c' hc'
    rw [hclosed] at hc'
    by_cases hx : (s.conn c').closed = true
    · exact Or.inl hx
    · exact Or.inr hs
  · simp [stepCl, State.setCop, State.emit, State.setConn]
  · simp [stepCl, State.setCop, State.emit, State.setConn]
  · simp [stepCl, State.setCop, State.emit, State.setConn]
  · exact hs
  · exact hnd
  · rcases hnext with ⟨rfl, _⟩ | ⟨rfl, _, _⟩ <;> simp [stepCl, State.setCop, State.emit, State.setConn, Pc.sent]
  · intro hpc
    rw [hclosed]
    rcases hnext with ⟨_, rfl⟩ | ⟨rfl, _, hsrc⟩
    · simp
    · simp [hsrc]
  · intro hpc
    rw [hclosed, hclosed]
    rcases hnext with ⟨rfl, _⟩ | ⟨_, rfl, hsrc⟩
    · simp [stepCl, State.setCop, State.emit, State.setConn] at hpc
    · simp [hsrc]

theorem ctl_stepCop (s : State) (d0 : Dir) (p : Param) (hC : Ctl s) : Ctl (stepCop s d0 p) := by
  unfold stepCop
  split
  next hpc => exact ctl_stepRd s d0 p hpc hC
  next buf fin hpc => exact ctl_stepWr s d0 p buf fin hpc hC
  next hpc => exact ctl_stepSnd s d0 hpc hC
  next hpc =>
    exact ctl_stepCl s d0 _ _ hC (by rw [hpc]; rfl) (by rw [hpc]; simp) (Or.inl ⟨rfl, rfl⟩)
  next hpc =>
    exact ctl_stepCl s d0 _ _ hC (by rw [hpc]; rfl) (by rw [hpc]; simp)
      (Or.inr ⟨rfl, rfl, hC.cl2 d0 hpc⟩)
  next hpc =>
    have ha := hC.after d0 (Or.inl hpc)
    apply ctl_tail s _ d0 hC
    · intro d hd; simp [State.setCop, hd]
    · intro c hc; exact hc
    · intro c hc; exact Or.inl hc
    · rfl
    · rfl
    · simp [State.setCop]
    · rw [hpc]; rfl
    · rw [hpc]; simp
    · simp [State.setCop, Pc.sent]
    · simp [State.setCop]
    · intro _; exact ha
  next hpc => exact hC

theorem ctl_env (s t : State) (hC : Ctl s) (h1 : t.cop = s.cop)
    (h2 : ∀ c, (t.conn c).closed = (s.conn c).closed) (h3 : t.errs = s.errs) (h4 : t.ret = s.ret) :
    Ctl t := by
  constructor
  · intro d; rw [h1, h2]; exact hC.cl2 d
  · intro d; rw [h1, h2, h2]; exact hC.after d
  · rw [h1, h3]; exact hC.len
  · rw [h1, h3]; exact hC.mem
  · intro c; rw [h2, h3]; exact hC.closedErrs c
  · rw [h3]; exact hC.head
  · intro d; rw [h1, h3]; exact hC.sndClosed d
  · intro e; rw [h1, h3, h4]; exact hC.ret e

theorem ctl_step (s : State) (c : Choice) (hC : Ctl s) : Ctl (step s c) := by
  cases c with
  | produce c data =>
    simp only [step]
    split
    · refine ctl_env s _ hC ?_ ?_ ?_ ?_
      · rfl
      · intro c'; simp only [State.setConn]; apply upd_conn_field; rfl
      · rfl
      · rfl
    · exact hC
  | finish c f =>
    simp only [step]
    split
    · refine ctl_env s _ hC ?_ ?_ ?_ ?_
      · rfl
      · intro c'; simp only [State.setConn]; apply upd_conn_field; rfl
      · rfl
      · rfl
    · exact hC
  | cop d0 p => exact ctl_stepCop s d0 p hC
  | main =>
    simp only [step]
    split
    next h =>
      obtain ⟨h1, h2, h3⟩ := h
      have hne : s.errs ≠ [] := sent_len hC .ab (by rw [h1]; rfl)
      constructor
      · exact hC.cl2
      · exact hC.after
      · exact hC.len
      · exact hC.mem
      · exact hC.closedErrs
      · exact hC.head
      · exact hC.sndClosed
      · intro e he
        simp only [State.emit] at he ⊢
        refine ⟨h1, h2, ?_⟩
        cases hl : s.errs with
        | nil => exact absurd hl hne
        | cons a l => simp [hl] at he ⊢; exact he
    · exact hC

theorem ctl_run (s : State) (cs : List Choice) (h : Ctl s) : Ctl (run s cs) := by
  induction cs generalizing s with
  | nil => exact h
  | cons c cs ih => exact ih _ (ctl_step s c h)

/-- distance of a copier from `done` once nothing can block it any more -/
def Pc.rank : Pc → Nat
  | .rd => 5 | .wr _ _ => 5 | .snd => 4 | .cl1 => 3 | .cl2 => 2 | .wgd => 1 | .done => 0

/-- copier `d` can no longer block: it has left io.Copy, or both conns are closed -/
def Prog (s : State) (d : Dir) : Prop :=
  (s.cop d).pc.exiting = true ∨ ((s.conn .A).closed = true ∧ (s.conn .B).closed = true)

theorem closed_step (s : State) (c : Choice) (k : Side) (h : (s.conn k).closed = true) :
    ((step s c).conn k).closed = true := by
  cases c with
  | produce c data =>
    simp only [step]; split
    · simp only [State.setConn]; rw [upd_conn_field _ _ _ Conn.closed (by rfl)]; exact h
    · exact h
  | finish c f =>
    simp only [step]; split
    · simp only [State.setConn]; rw [upd_conn_field _ _ _ Conn.closed (by rfl)]; exact h
    · exact h
  | cop d0 p => exact (frame_stepCop s d0 p).closed k h
  | main => simp only [step]; split <;> exact h

theorem cop_step_other (s : State) (c : Choice) (d : Dir) (h : ∀ p, c ≠ .cop d p) :
    (step s c).cop d = s.cop d := by
  cases c with
  | produce c data => simp only [step]; split <;> rfl
  | finish c f => simp only [step]; split <;> rfl
  | cop d0 p =>
    have : d ≠ d0 := by intro hd; subst hd; exact h p rfl
    exact (frame_stepCop s d0 p).cop d this
  | main => simp only [step]; split <;> rfl

theorem rank_stepCop (s : State) (d : Dir) (p : Param) (h : Prog s d) :
    ((stepCop s d p).cop d).pc.rank ≤ (s.cop d).pc.rank - 1 ∧
      ((stepCop s d p).cop d).pc.exiting = true := by
  have hsrc : (s.cop d).pc.exiting = false → (s.conn d.src).closed = true ∧ (s.conn d.dst).closed = true := by
    intro he
    rcases h with h | ⟨ha, hb⟩
    · rw [he] at h; cases h
    · cases d <;> exact ⟨by assumption, by assumption⟩
  unfold stepCop
  split
  next hpc =>
    have := (hsrc (by rw [hpc]; rfl)).1
    apply stepRd_cases s d p (fun t => (t.cop d).pc.rank ≤ (s.cop d).pc.rank - 1 ∧ (t.cop d).pc.exiting = true)
    · intro _; simp [State.setCop, State.emit, hpc, Pc.rank, Pc.exiting]
    · intro hc; rw [this] at hc; cases hc
    · intro hc; rw [this] at hc; cases hc
    · intro hc; rw [this] at hc; cases hc
  next buf fin hpc =>
    have := (hsrc (by rw [hpc]; rfl)).2
    apply stepWr_cases s d p buf fin (fun t => (t.cop d).pc.rank ≤ (s.cop d).pc.rank - 1 ∧ (t.cop d).pc.exiting = true)
    · intro _; simp [State.setCop, State.emit, hpc, Pc.rank, Pc.exiting]
    · intro hc; rw [this] at hc; cases hc
    · intro hc; rw [this] at hc; cases hc
    · intro hc; rw [this] at hc; cases hc
  next hpc => simp [stepSnd, State.setCop, hpc, Pc.rank, Pc.exiting]
  next hpc => simp [stepCl, State.setCop, State.emit, State.setConn, hpc, Pc.rank, Pc.exiting]
  next hpc => simp [stepCl, State.setCop, State.emit, State.setConn, hpc, Pc.rank, Pc.exiting]
  next hpc => simp [State.setCop, hpc, Pc.rank, Pc.exiting]
  next hpc => simp [hpc, Pc.rank, Pc.exiting]

theorem prog_step (s : State) (c : Choice) (d : Dir) (h : Prog s d) : Prog (step s c) d := by
  by_cases hc : ∃ p, c = .cop d p
  · obtain ⟨p, rfl⟩ := hc
    exact Or.inl (rank_stepCop s d p h).2
  · have hc' : ∀ p, c ≠ .cop d p := fun p hp => hc ⟨p, hp⟩
    rcases h with h | ⟨ha, hb⟩
    · exact Or.inl (by rw [cop_step_other s c d hc']; exact h)
    · exact Or.inr ⟨closed_step s c _ ha, closed_step s c _ hb⟩

theorem ownSteps_cons (d : Dir) (c : Choice) (cs : List Choice) :
    ownSteps d (c :: cs) = (if c.isCop d then 1 else 0) + ownSteps d cs := by
  unfold ownSteps
  rw [List.filter_cons]
  split <;> simp <;> omega

theorem isCop_iff (d : Dir) (c : Choice) : c.isCop d = true ↔ ∃ p, c = .cop d p := by
  cases c with
  | cop d0 p =>
    simp only [Choice.isCop, beq_iff_eq]
    constructor
    · intro h; subst h; exact ⟨p, rfl⟩
    · intro ⟨q, hq⟩; cases hq; rfl
  | _ => simp [Choice.isCop]

/-- every own step of a copier that can no longer block brings it one step closer to `done` -/
theorem rank_run (s : State) (cs : List Choice) (d : Dir) (h : Prog s d) :
    ((run s cs).cop d).pc.rank ≤ (s.cop d).pc.rank - ownSteps d cs := by
  induction cs generalizing s with
  | nil => simp [run, ownSteps]
  | cons c cs ih =>
    have := ih (step s c) (prog_step s c d h)
    simp only [run, List.foldl_cons] at this ⊢
    rw [ownSteps_cons]
    by_cases hc : c.isCop d = true
    · obtain ⟨p, rfl⟩ := (isCop_iff d c).mp hc
      have h1 := (rank_stepCop s d p h).1
      simp only [step] at this ⊢
      rw [if_pos hc]
      omega
    · have hc' : ∀ p, c ≠ .cop d p := fun p hp => hc ((isCop_iff d c).mpr ⟨p, hp⟩)
      rw [cop_step_other s c d hc'] at this
      rw [if_neg hc]
      simpa using this

theorem rank_zero {pc : Pc} (h : pc.rank = 0) : pc = .done := by
  cases pc <;> simp [Pc.rank] at h ⊢

theorem rank_le_one {pc : Pc} (h : pc.rank ≤ 1) : pc = .wgd ∨ pc = .done := by
  cases pc <;> simp [Pc.rank] at h ⊢

end O4.Relay
