import O4.Lemmas.HandshakeClient
import O4.Lemmas.Obfs4Ref
import O4.Model.Obfs4EndToEnd
/-!
# The genuine client/server pair: agreement and the stable re-parser (C02, C01 end to end)

Moved here from `Props/C02.lean` so that the end-to-end theorems of C01 can use them; the
property statements stay in `Props/C02.lean` (as applications of these).  Core only.
-/
namespace O4.HsGenuine
open O4 O4.Handshake O4.HsClient O4.Consts.Obfs4 O4.Consts.Ntor O4.E2E

/-! ## a genuine pair agrees, for every chunking -/

/-- **`DhComm`**: the two Diffie–Hellman computations commute on key pairs
    (`Pair priv pub` = "`pub` is the public key of `priv`": `x25519Base`, or the Elligator
    "dirty" public key, whose low-order component the clamped ladder kills).  An explicit
    hypothesis on the abstract primitives. -/
structure DhComm (P : Prims) (Pair : Bytes → Bytes → Prop) : Prop where
  comm : ∀ a A b B, Pair a A → Pair b B → P.x25519 a B = P.x25519 b A

/-- satisfiable: the toy "DH" is the pointwise product with `pub = priv` -/
theorem toy_dhComm : DhComm HsLemmas.toyPrims (fun a A => A = a) where
  comm a A b B ha hb := by
    rw [ha, hb]
    show List.zipWith (· * ·) a b = List.zipWith (· * ·) b a
    rw [List.zipWith_comm]
    congr; funext x y; exact UInt8.mul_comm y x

abbrev HmacLen := HsLemmas.HmacLen

/-- under `DhComm` the client's and the server's ntor computations coincide:
    same success flag, same KEY_SEED, same AUTH -/
theorem ntor_agree (P : Prims) (Pair : Bytes → Bytes → Prop) (hD : DhComm P Pair)
    (x X y Y b B id : Bytes) (hx : Pair x X) (hy : Pair y Y) (hb : Pair b B) :
    Ntor.clientHandshake P.toPrims x X Y B id = Ntor.serverHandshake P.toPrims X y Y b B id := by
  unfold Ntor.clientHandshake Ntor.serverHandshake
  rw [hD.comm x X y Y hx hy, hD.comm x X b B hx hb]

/-- a genuine server for the client `c`: it holds the identity key `b` of the client's bridge
    line, an ephemeral key pair whose representative decodes to its public key, and its ntor
    computation on the client's public key succeeded -/
structure Genuine (P : Prims) (Pair : Bytes → Bytes → Prop) (c : Client) where
  y : Bytes
  Y : Bytes
  Yr : Bytes
  b : Bytes
  pad : Bytes
  pair_x : Pair c.xPriv c.xPub
  pair_y : Pair y Y
  pair_b : Pair b c.idPub
  repr_y : P.reprToPublic Yr = Y
  yr_len : Yr.length = representativeLength
  pad_len : pad.length ≤ serverMaxPadLength
  srv_ok : (Ntor.serverHandshake P.toPrims c.xPub y Y b c.idPub c.nodeID).1 = true

namespace Genuine
variable {P : Prims} {Pair : Bytes → Bytes → Prop} {c : Client} (G : Genuine P Pair c)

/-- the server's KEY_SEED and AUTH -/
def keySeed : Bytes := (Ntor.serverHandshake P.toPrims c.xPub G.y G.Y G.b c.idPub c.nodeID).2.1
def auth : Bytes := (Ntor.serverHandshake P.toPrims c.xPub G.y G.Y G.b c.idPub c.nodeID).2.2
def mrk : Bytes := mark P c.idPub c.nodeID G.Yr
/-- the response `Y' ‖ AUTH ‖ P_S ‖ M_S ‖ MAC_S`, MACed with the hour the client used -/
def response : Bytes := serverBlob P c.idPub c.nodeID G.Yr G.auth G.pad c.hour
/-- what the client caches from it -/
def cache : ClientCache := { repr := G.Yr, auth := G.auth, mrk := G.mrk }
/-- the explicit hypothesis of the stable re-parser theorem: the 16-byte mark does not occur by
    accident in `R` before its real position (probability about `|P_S|·2⁻¹²⁸`) -/
def NoEarlyMark : Prop :=
  ∀ q, q < G.pad.length → ¬ G.mrk <+: G.response.drop (startPos + q)
end Genuine

theorem auth_len (P : Prims) (hP : HmacLen P) (X y Y b B id : Bytes) :
    (Ntor.serverHandshake P.toPrims X y Y b B id).2.2.length = authLength := by
  unfold Ntor.serverHandshake Ntor.ntorCommon
  exact hP _ _

section
variable {P : Prims} {Pair : Bytes → Bytes → Prop} {c : Client}

theorem response_shape (G : Genuine P Pair c) :
    G.response = (G.Yr ++ G.auth) ++ G.pad ++ G.mrk ++
      mac P c.idPub c.nodeID ((G.Yr ++ G.auth) ++ G.pad ++ G.mrk) c.hour := rfl

theorem response_shape' (G : Genuine P Pair c) :
    G.response = (G.Yr ++ G.auth) ++ (G.pad ++ (G.mrk ++
      mac P c.idPub c.nodeID ((G.Yr ++ G.auth) ++ G.pad ++ G.mrk) c.hour)) := by
  rw [response_shape, List.append_assoc (G.Yr ++ G.auth ++ G.pad), List.append_assoc (G.Yr ++ G.auth)]

theorem hdr_len (hP : HmacLen P) (G : Genuine P Pair c) : (G.Yr ++ G.auth).length = startPos := by
  rw [List.length_append, G.yr_len, Genuine.auth, auth_len P hP]
  rfl

theorem response_len (hP : HmacLen P) (G : Genuine P Pair c) :
    G.response.length = startPos + G.pad.length + 32 := by
  rw [response_shape, List.length_append, List.length_append, List.length_append, hdr_len hP,
    Genuine.mrk, HsLemmas.mark_length P hP, HsLemmas.mac_length P hP]
  simp only [markLength, macLength]

theorem response_le (hP : HmacLen P) (G : Genuine P Pair c) : G.response.length ≤ maxHandshakeLength := by
  rw [response_len hP]
  have := G.pad_len
  simp only [startPos, serverMaxPadLength, maxHandshakeLength, representativeLength, authLength,
    serverMinPadLength] at *
  omega

theorem cacheOf_genuine (hP : HmacLen P) (G : Genuine P Pair c) (buf e : Bytes)
    (hc : c.cache = none ∨ c.cache = some G.cache) (hb : buf = (G.Yr ++ G.auth) ++ e) :
    cacheOf P c buf = G.cache := by
  unfold cacheOf
  rcases hc with hc | hc
  · rw [hc]
    simp only
    have h1 : buf.take representativeLength = G.Yr := by
      rw [hb, List.append_assoc, List.take_left' G.yr_len]
    have h2 : (buf.drop representativeLength).take authLength = G.auth := by
      have hal : G.auth.length = authLength := auth_len P hP _ _ _ _ _ _
      rw [hb, List.append_assoc, List.drop_left' G.yr_len, List.take_left' hal]
    rw [h1, h2]
    rfl
  · rw [hc]

/-- every buffer that extends the genuine response is accepted, with exactly `|R|` bytes
    consumed and the **server's** KEY_SEED -/
theorem genuine_accept (hP : HmacLen P) (hD : DhComm P Pair) (G : Genuine P Pair c) (hno : G.NoEarlyMark)
    (hc : c.cache = none ∨ c.cache = some G.cache) (T : Bytes) :
    (parseServerHandshake P c (G.response ++ T)).2 = .ok G.response.length G.keySeed := by
  rw [parse_ok_iff]
  have hsh := response_shape G
  have hhl := hdr_len hP G
  have hml : G.mrk.length = markLength := HsLemmas.mark_length P hP _ _ _
  have htl : (mac P c.idPub c.nodeID ((G.Yr ++ G.auth) ++ G.pad ++ G.mrk) c.hour).length = macLength :=
    HsLemmas.mac_length P hP _ _ _ _
  have hcache : cacheOf P c (G.response ++ T) = G.cache :=
    cacheOf_genuine hP G _ (G.pad ++ G.mrk ++ mac P c.idPub c.nodeID ((G.Yr ++ G.auth) ++ G.pad ++ G.mrk) c.hour ++ T)
      hc (by rw [hsh]; simp)
  have hfind := findMark_genuine (G.Yr ++ G.auth) G.pad G.mrk
    (mac P c.idPub c.nodeID ((G.Yr ++ G.auth) ++ G.pad ++ G.mrk) c.hour) T hhl hml htl
    (by rw [← hsh]; exact response_le hP G) (by rw [← hsh]; exact hno)
  rw [← hsh] at hfind
  have hntor : ntorOf P c (G.response ++ T) =
      Ntor.serverHandshake P.toPrims c.xPub G.y G.Y G.b c.idPub c.nodeID := by
    unfold ntorOf serverPub
    rw [hcache]
    show Ntor.clientHandshake P.toPrims c.xPriv c.xPub (P.reprToPublic G.Yr) c.idPub c.nodeID = _
    rw [G.repr_y]
    exact ntor_agree P Pair hD _ _ _ _ _ _ _ G.pair_x G.pair_y G.pair_b
  have hbody : (G.response ++ T).take (startPos + G.pad.length + markLength) =
      (G.Yr ++ G.auth) ++ G.pad ++ G.mrk := by
    rw [hsh]
    have : ((G.Yr ++ G.auth) ++ G.pad ++ G.mrk).length = startPos + G.pad.length + markLength := by
      simp only [List.length_append] at hhl ⊢; omega
    rw [List.append_assoc _ _ T, List.take_left' this]
  have htag : ((G.response ++ T).drop (startPos + G.pad.length + markLength)).take macLength =
      mac P c.idPub c.nodeID ((G.Yr ++ G.auth) ++ G.pad ++ G.mrk) c.hour := by
    rw [hsh]
    have : ((G.Yr ++ G.auth) ++ G.pad ++ G.mrk).length = startPos + G.pad.length + markLength := by
      simp only [List.length_append] at hhl ⊢; omega
    rw [List.append_assoc _ _ T, List.drop_left' this, List.take_left' htl]
  have hok := G.srv_ok
  unfold Ntor.serverHandshake at hok
  simp only [Bool.and_eq_true, Bool.not_eq_true'] at hok
  refine ⟨?_, startPos + G.pad.length, ?_, ?_, ?_, ?_, ?_, ?_, ?_⟩
  · rw [List.length_append, response_len hP]
    simp only [startPos, serverMinHandshakeLength, representativeLength, authLength, serverMinPadLength]
    omega
  · rw [hcache]; exact hfind
  · rw [response_len hP]; simp only [markLength, macLength]
  · rw [htag, hbody]
  · unfold serverPub
    rw [hcache]
    show Ntor.isZero (P.x25519 c.xPriv (P.reprToPublic G.Yr)) = false
    rw [G.repr_y, hD.comm _ _ _ _ G.pair_x G.pair_y]
    exact hok.1
  · rw [hD.comm _ _ _ _ G.pair_x G.pair_b]
    exact hok.2
  · rw [hntor, hcache]; rfl
  · rw [hntor]; rfl

/-- every proper prefix of the genuine response asks for more data (`ErrMarkNotFoundYet`) -/
theorem genuine_prefix (hP : HmacLen P) (G : Genuine P Pair c) (hno : G.NoEarlyMark)
    (hc : c.cache = none ∨ c.cache = some G.cache) (p e : Bytes) (hp : p ++ e = G.response) (he : e ≠ []) :
    (parseServerHandshake P c p).2 = .err .markNotFoundYet := by
  by_cases hshort : p.length < serverMinHandshakeLength
  · rw [parse_short P c p hshort]
  rw [parse_eq]
  simp only [hshort, ↓reduceIte]
  have hsh := response_shape G
  have hhl := hdr_len hP G
  have hml : G.mrk.length = markLength := HsLemmas.mark_length P hP _ _ _
  have htl : (mac P c.idPub c.nodeID ((G.Yr ++ G.auth) ++ G.pad ++ G.mrk) c.hour).length = macLength :=
    HsLemmas.mac_length P hP _ _ _ _
  -- p already contains Y' ‖ AUTH
  have hp64 : p = (G.Yr ++ G.auth) ++ p.drop startPos := by
    have h1 : startPos ≤ p.length := by
      simp only [serverMinHandshakeLength, startPos, representativeLength, authLength, serverMinPadLength] at *
      omega
    have h2 : p.take startPos = G.Yr ++ G.auth := by
      have : (p ++ e).take startPos = G.Yr ++ G.auth := by
        rw [hp, response_shape' G, List.take_left' hhl]
      rw [List.take_append_of_le_length h1] at this
      exact this
    rw [← h2, List.take_append_drop]
  have hcache : cacheOf P c p = G.cache := cacheOf_genuine hP G p _ hc hp64
  have hfind := findMark_prefix (G.Yr ++ G.auth) G.pad G.mrk
    (mac P c.idPub c.nodeID ((G.Yr ++ G.auth) ++ G.pad ++ G.mrk) c.hour) p e hhl hml htl
    (by rw [← hsh]; exact response_le hP G) (by rw [← hsh]; exact hno) (by rw [← hsh]; exact hp) he
  rw [hcache]
  show (match findMarkMac G.mrk p startPos maxHandshakeLength false with
    | none => _ | some pos => _ : Client × ClientResult).2 = _
  rw [hfind]
  simp only
  have : ¬ p.length ≥ maxHandshakeLength := by
    have h1 := response_le hP G
    have h2 : p.length < G.response.length := by
      rw [← hp, List.length_append]
      have := List.length_pos_iff.mpr he
      omega
    omega
  simp only [this, ↓reduceIte]

end

/-- **`matching_pair_agrees`** — under `DhComm`, a genuine client and a genuine server derive the
    same KEY_SEED and AUTH (`ntor_agree`), the client accepts the response in **every** buffer
    extending it, consuming exactly `|R|` bytes, with the server's KEY_SEED, hence both ends hold
    the same 144-byte OKM and the client's encoder key block is the server's decoder key block
    and vice versa. -/
theorem matching_pair_agrees (P : Prims) (Pair : Bytes → Bytes → Prop) (hP : HmacLen P) (hD : DhComm P Pair)
    (c : Client) (G : Genuine P Pair c) (hno : G.NoEarlyMark)
    (hc : c.cache = none ∨ c.cache = some G.cache) (T : Bytes) :
    ∃ n seed, (parseServerHandshake P c (G.response ++ T)).2 = .ok n seed ∧
      n = G.response.length ∧ seed = G.keySeed ∧ (G.response ++ T).drop n = T ∧
      okm P seed = okm P G.keySeed ∧
      clientEncKey (okm P seed) = serverDecKey (okm P G.keySeed) ∧
      clientDecKey (okm P seed) = serverEncKey (okm P G.keySeed) :=
  ⟨_, _, genuine_accept hP hD G hno hc T, rfl, rfl, List.drop_left, rfl, rfl, rfl⟩

/-! ### every chunking -/

theorem loop_step_cache {P : Prims} {Pair : Bytes → Bytes → Prop} {c : Client} (hP : HmacLen P)
    (G : Genuine P Pair c) (hc : c.cache = none ∨ c.cache = some G.cache) (p e : Bytes)
    (hp : p ++ e = G.response) :
    (parseServerHandshake P c p).1.cache = none ∨ (parseServerHandshake P c p).1.cache = some G.cache := by
  by_cases hshort : p.length < serverMinHandshakeLength
  · rw [parse_short P c p hshort]; exact hc
  · right
    rw [parse_cache P c p (by omega)]
    simp only
    have hhl := hdr_len hP G
    have h1 : startPos ≤ p.length := by
      simp only [serverMinHandshakeLength, startPos, representativeLength, authLength, serverMinPadLength] at *
      omega
    have h2 : p.take startPos = G.Yr ++ G.auth := by
      have : (p ++ e).take startPos = G.Yr ++ G.auth := by
        rw [hp, response_shape' G, List.take_left' hhl]
      rw [List.take_append_of_le_length h1] at this
      exact this
    rw [cacheOf_genuine hP G p (p.drop startPos) hc (by rw [← h2, List.take_append_drop])]

/-- the fields other than the cache never change -/
theorem parse_fields (P : Prims) (c : Client) (resp : Bytes) :
    (parseServerHandshake P c resp).1 = { c with cache := (parseServerHandshake P c resp).1.cache } := by
  by_cases hshort : resp.length < serverMinHandshakeLength
  · rw [parse_short P c resp hshort]
  · rw [parse_cache P c resp (by omega)]

/-- **`any_chunking`** (stable re-parser): feed the stream `R ‖ T` to the client's read loop in
    ANY chunking.  The loop stops exactly at the first chunk boundary at or beyond `|R|`, returns
    `ok |R|` with the server's KEY_SEED, and what is left in the receive buffer behind the
    handshake is exactly the part of `T` received so far (the seed frame, data). -/
theorem any_chunking (P : Prims) (Pair : Bytes → Bytes → Prop) (hP : HmacLen P) (hD : DhComm P Pair)
    (c : Client) (G : Genuine P Pair c) (hno : G.NoEarlyMark) (T : Bytes) (cs : List Bytes) (buf : Bytes)
    (hc : c.cache = none ∨ c.cache = some G.cache)
    (hbuf : buf.length < G.response.length)
    (hcs : buf ++ cs.flatten = G.response ++ T) :
    ∃ c' j, hsLoop P c buf cs =
        (c', buf ++ (cs.take (j + 1)).flatten, some (.ok G.response.length G.keySeed), cs.drop (j + 1)) ∧
      j < cs.length ∧
      (buf ++ (cs.take j).flatten).length < G.response.length ∧
      G.response.length ≤ (buf ++ (cs.take (j + 1)).flatten).length ∧
      (buf ++ (cs.take (j + 1)).flatten).drop G.response.length ++ (cs.drop (j + 1)).flatten = T := by
  induction cs generalizing c buf with
  | nil =>
    exfalso
    simp only [List.flatten_nil, List.append_nil] at hcs
    rw [hcs, List.length_append] at hbuf
    omega
  | cons ch rest ih =>
    simp only [List.flatten_cons] at hcs
    by_cases hlen : (buf ++ ch).length < G.response.length
    · -- still a proper prefix of R: the call says "not yet", the loop continues
      have hpre : ∃ e, (buf ++ ch) ++ e = G.response ∧ e ≠ [] := by
        refine ⟨(G.response).drop (buf ++ ch).length, ?_, ?_⟩
        · have : (buf ++ ch) = (G.response ++ T).take (buf ++ ch).length := by
            rw [← hcs, ← List.append_assoc, List.take_left]
          rw [List.take_append_of_le_length (by omega)] at this
          conv => lhs; lhs; rw [this]
          exact List.take_append_drop _ _
        · intro h
          have := congrArg List.length h
          simp only [List.length_drop, List.length_nil] at this
          omega
      obtain ⟨e, he, hne⟩ := hpre
      have hres := genuine_prefix hP G hno hc (buf ++ ch) e he hne
      have hcache := loop_step_cache hP G hc (buf ++ ch) e he
      have hfields := parse_fields P c (buf ++ ch)
      unfold hsLoop
      rcases hpr : parseServerHandshake P c (buf ++ ch) with ⟨c1, r1⟩
      rw [hpr] at hres hcache hfields
      simp only at hres hcache hfields
      subst hres
      simp only
      -- c1 is c with another cache: the genuine setting carries over
      have hc1 : c1 = { c with cache := c1.cache } := hfields
      let G1 : Genuine P Pair c1 :=
        { y := G.y, Y := G.Y, Yr := G.Yr, b := G.b, pad := G.pad,
          pair_x := by rw [hc1]; exact G.pair_x
          pair_y := G.pair_y
          pair_b := by rw [hc1]; exact G.pair_b
          repr_y := G.repr_y, yr_len := G.yr_len, pad_len := G.pad_len
          srv_ok := by rw [hc1]; exact G.srv_ok }
      have hresp : G1.response = G.response := by
        show serverBlob P c1.idPub c1.nodeID G.Yr
          (Ntor.serverHandshake P.toPrims c1.xPub G.y G.Y G.b c1.idPub c1.nodeID).2.2 G.pad c1.hour = _
        rw [hc1]; rfl
      have hks : G1.keySeed = G.keySeed := by
        show (Ntor.serverHandshake P.toPrims c1.xPub G.y G.Y G.b c1.idPub c1.nodeID).2.1 = _
        rw [hc1]; rfl
      have hcch : G1.cache = G.cache := by
        show ({ repr := G.Yr, auth := (Ntor.serverHandshake P.toPrims c1.xPub G.y G.Y G.b c1.idPub c1.nodeID).2.2,
                mrk := mark P c1.idPub c1.nodeID G.Yr } : ClientCache) = _
        rw [hc1]; rfl
      have hno1 : G1.NoEarlyMark := by
        intro q hq
        have := hno q hq
        show ¬ mark P c1.idPub c1.nodeID G.Yr <+: G1.response.drop (startPos + q)
        rw [hresp, hc1]
        exact this
      obtain ⟨c', j, h1, h2, h3, h4, h5⟩ := ih c1 G1 hno1 (buf ++ ch)
        (by rw [hcch]; exact hcache) (by rw [hresp]; exact hlen)
        (by rw [hresp, List.append_assoc]; exact hcs)
      rw [hresp, hks] at h1
      rw [hresp] at h3 h4 h5
      refine ⟨c', j + 1, ?_, by simp only [List.length_cons]; omega, ?_, ?_, ?_⟩
      · rw [h1]; simp only [List.take_succ_cons, List.flatten_cons, List.append_assoc, List.drop_succ_cons]
      · simpa only [List.take_succ_cons, List.flatten_cons, List.append_assoc] using h3
      · simpa only [List.take_succ_cons, List.flatten_cons, List.append_assoc] using h4
      · simpa only [List.take_succ_cons, List.flatten_cons, List.append_assoc, List.drop_succ_cons] using h5
    · -- the buffer now extends R: accepted here
      have hext : ∃ T', buf ++ ch = G.response ++ T' ∧ T' ++ rest.flatten = T := by
        refine ⟨(buf ++ ch).drop G.response.length, ?_, ?_⟩
        · have : G.response = (buf ++ ch ++ rest.flatten).take G.response.length := by
            rw [List.append_assoc, hcs, List.take_left]
          rw [List.take_append_of_le_length (by omega)] at this
          conv => rhs; lhs; rw [this]
          exact (List.take_append_drop _ _).symm
        · have h1 : (buf ++ ch ++ rest.flatten).drop G.response.length = T := by
            rw [List.append_assoc, hcs, List.drop_left]
          rw [List.drop_append_of_le_length (by omega)] at h1
          exact h1
      obtain ⟨T', hT', hT''⟩ := hext
      have hres := genuine_accept hP hD G hno hc T'
      rw [← hT'] at hres
      unfold hsLoop
      rcases hpr : parseServerHandshake P c (buf ++ ch) with ⟨c1, r1⟩
      rw [hpr] at hres
      simp only at hres
      subst hres
      simp only
      refine ⟨c1, 0, ?_, by simp, ?_, ?_, ?_⟩
      · simp
      · simpa using hbuf
      · simp only [Nat.zero_add, List.take_succ_cons, List.take_zero, List.flatten_cons, List.flatten_nil,
          List.append_nil]
        omega
      · simp only [Nat.zero_add, List.take_succ_cons, List.take_zero, List.flatten_cons, List.flatten_nil,
          List.append_nil, List.drop_succ_cons, List.drop_zero]
        rw [hT', List.drop_left]
        exact hT''

/-- non-vacuity: a concrete genuine pair over the toy primitives, with padding, meeting
    `DhComm`'s `Pair`, `srv_ok` and `NoEarlyMark` -/
def toyClient : Client :=
  { xPriv := [3, 1], xPub := [3, 1], xRepr := [3, 1], idPub := [5, 7], nodeID := [9], hour := 480000, cache := none }

def toyGenuine : Genuine HsLemmas.toyPrims (fun a A => A = a) toyClient where
  y := List.replicate 32 2
  Y := List.replicate 32 2
  Yr := List.replicate 32 2
  b := [5, 7]
  pad := [1, 2, 3]
  pair_x := rfl
  pair_y := rfl
  pair_b := rfl
  repr_y := rfl
  yr_len := rfl
  pad_len := by decide
  srv_ok := by decide

theorem toy_noEarlyMark : toyGenuine.NoEarlyMark := by
  intro q hq
  have : q = 0 ∨ q = 1 ∨ q = 2 := by
    have : q < 3 := hq
    omega
  rcases this with rfl | rfl | rfl <;> decide +kernel

end O4.HsGenuine
