import O4.Model.UniformDH
import O4.Lemmas.Prime25519
import Mathlib.Algebra.Group.Even
/-!
# UniformDH (model `O4.UniformDH`): both parties derive the same secret, keys are 192 bytes

Helper lemmas for C13 (no primality of the modulus is needed: the statements hold in `ZMod m` for
any modulus `1 < m < 2^1536`; the generated `modpStr` satisfies this by kernel evaluation).
-/
namespace O4.UniformDH
open O4 O4.Crypto

theorem toNatBE_append_singleton (a : Bytes) (x : UInt8) :
    Bytes.toNatBE (a ++ [x]) = Bytes.toNatBE a * 256 + x.toNat := by
  simp [Bytes.toNatBE, List.foldl_append]

theorem ofNatBE_length (len n : Nat) : (Bytes.ofNatBE len n).length = len := by
  induction len generalizing n with
  | zero => rfl
  | succ k ih => simp [Bytes.ofNatBE, ih]

theorem toNatBE_ofNatBE (len n : Nat) : Bytes.toNatBE (Bytes.ofNatBE len n) = n % 256 ^ len := by
  induction len generalizing n with
  | zero => simp [Bytes.ofNatBE, Bytes.toNatBE, Nat.mod_one]
  | succ k ih =>
    rw [Bytes.ofNatBE, toNatBE_append_singleton, ih, UInt8.toNat_ofNat']
    have h1 : n % 256 % 2 ^ 8 = n % 256 := by norm_num
    rw [h1, pow_succ, Nat.mul_comm (256 ^ k) 256, Nat.mod_mul, Nat.mul_comm, Nat.add_comm]

theorem size_eq : size = 192 := by decide

theorem modp_bounds : 1 < modpGroup ∧ modpGroup < 256 ^ size := by decide +kernel

theorem modExp_lt (b e m : Nat) (hm : 0 < m) : modExp b e m < m := by
  unfold modExp
  have : ∀ fuel b e acc, acc < m → modExpAux fuel b e m acc < m := by
    intro fuel
    induction fuel with
    | zero => intro b e acc h; simpa [modExpAux] using h
    | succ f ih =>
      intro b e acc h
      unfold modExpAux
      by_cases he : e = 0
      · simp [he, h]
      · rw [if_neg he]
        apply ih
        split
        · exact Nat.mod_lt _ hm
        · exact h
  exact this _ _ _ _ (Nat.mod_lt _ hm)

/-- **public keys are exactly `Size` bytes**, whatever the private bytes -/
theorem generateKey_pub_length (priv : Bytes) (k : PrivateKey) (h : generateKey priv = some k) :
    k.pubBytes.length = size := by
  unfold generateKey at h
  split at h
  · exact absurd h (by simp)
  · simp only [Option.some.injEq] at h
    rw [← h]
    simp only []
    split <;> exact ofNatBE_length _ _

/-- what `generateKey` returns: an even private exponent `x`, `X = g^x mod p`, and on the wire `X` or `p − X` -/
theorem generateKey_spec (priv : Bytes) (k : PrivateKey) (h : generateKey priv = some k) :
    k.privateKey % 2 = 0 ∧ k.publicKey = modExp gen k.privateKey modpGroup ∧
    (Bytes.toNatBE k.pubBytes = k.publicKey ∨ Bytes.toNatBE k.pubBytes = modpGroup - k.publicKey) := by
  unfold generateKey at h
  split at h
  · exact absurd h (by simp)
  · simp only [Option.some.injEq] at h
    rw [← h]
    simp only []
    have hX := modExp_lt gen (Bytes.toNatBE priv - Bytes.toNatBE priv % 2) modpGroup (by have := modp_bounds.1; omega)
    have hb := modp_bounds.2
    refine ⟨by omega, trivial, ?_⟩
    split
    · left; unfold fillBytes; rw [toNatBE_ofNatBE, Nat.mod_eq_of_lt (by omega)]
    · right; unfold fillBytes; rw [toNatBE_ofNatBE, Nat.mod_eq_of_lt (by omega)]

/-- in `ZMod m`: an even power does not see the sign, so `(±g^x)^y = (±g^y)^x` for even `x`, `y` -/
theorem pow_comm_even {R : Type*} [CommRing R] (g : R) (x y : ℕ) (hx : Even x) (hy : Even y)
    (a b : R) (ha : a = g ^ x ∨ a = -(g ^ x)) (hb : b = g ^ y ∨ b = -(g ^ y)) :
    b ^ x = a ^ y := by
  have h1 : b ^ x = (g ^ y) ^ x := by
    rcases hb with rfl | rfl
    · rfl
    · exact hx.neg_pow _
  have h2 : a ^ y = (g ^ x) ^ y := by
    rcases ha with rfl | rfl
    · rfl
    · exact hy.neg_pow _
  rw [h1, h2, ← pow_mul, ← pow_mul, Nat.mul_comm]

/-- **udh_agree.** Two parties with arbitrary 192-byte private strings derive the same shared secret,
whichever of `X` / `p − X` each of them put on the wire. -/
theorem udh_agree (privA privB : Bytes) (ka kb : PrivateKey)
    (ha : generateKey privA = some ka) (hb : generateKey privB = some kb) :
    sharedSecret privA kb.pubBytes = sharedSecret privB ka.pubBytes := by
  have hla := generateKey_pub_length privA ka ha
  have hlb := generateKey_pub_length privB kb hb
  obtain ⟨hea, hXa, hwa⟩ := generateKey_spec privA ka ha
  obtain ⟨heb, hXb, hwb⟩ := generateKey_spec privB kb hb
  have hm := modp_bounds.1
  have hs : ∀ (p : Bytes) (k : PrivateKey) (peer : Bytes), generateKey p = some k → peer.length = size →
      sharedSecret p peer = some (fillBytes (modExp (Bytes.toNatBE peer) k.privateKey modpGroup)) := by
    intro p k peer hk hl
    have hp : publicSetBytes peer = some (Bytes.toNatBE peer) := by
      unfold publicSetBytes; rw [if_neg (by omega)]
    unfold sharedSecret
    rw [hk, hp]
    simp only [Option.bind_eq_bind, Option.bind_some, Option.pure_def, handshake]
  rw [hs privA ka kb.pubBytes ha hlb, hs privB kb ka.pubBytes hb hla]
  congr 2
  -- compare in ZMod p (the modulus is made opaque first: nothing below depends on its value)
  have hsz := modp_bounds.2
  obtain ⟨m, hmdef⟩ : ∃ m, m = modpGroup := ⟨_, rfl⟩
  obtain ⟨g, hgdef⟩ : ∃ g, g = gen := ⟨_, rfl⟩
  rw [← hmdef] at hXa hXb hwa hwb hm hsz ⊢
  rw [← hgdef] at hXa hXb
  clear hmdef hgdef ha hb hs
  have hlt1 := modExp_lt (Bytes.toNatBE kb.pubBytes) ka.privateKey m (by omega)
  have hlt2 := modExp_lt (Bytes.toNatBE ka.pubBytes) kb.privateKey m (by omega)
  have hz : ((modExp (Bytes.toNatBE kb.pubBytes) ka.privateKey m : ℕ) : ZMod m) =
      ((modExp (Bytes.toNatBE ka.pubBytes) kb.privateKey m : ℕ) : ZMod m) := by
    rw [Pratt.cast_modExp, Pratt.cast_modExp]
    have hXa' : ((ka.publicKey : ℕ) : ZMod m) = (g : ZMod m) ^ ka.privateKey := by
      rw [hXa, Pratt.cast_modExp]
    have hXb' : ((kb.publicKey : ℕ) : ZMod m) = (g : ZMod m) ^ kb.privateKey := by
      rw [hXb, Pratt.cast_modExp]
    have hXalt : ka.publicKey < m := by rw [hXa]; exact modExp_lt _ _ _ (by omega)
    have hXblt : kb.publicKey < m := by rw [hXb]; exact modExp_lt _ _ _ (by omega)
    have negcast : ∀ X : ℕ, X < m → ((m - X : ℕ) : ZMod m) = -((X : ℕ) : ZMod m) := by
      intro X hX
      rw [Nat.cast_sub hX.le, ZMod.natCast_self, zero_sub]
    apply pow_comm_even (g : ZMod m) ka.privateKey kb.privateKey
      (Nat.even_iff.mpr hea) (Nat.even_iff.mpr heb)
    · rcases hwa with h | h
      · left; rw [h, hXa']
      · right; rw [h, negcast _ hXalt, hXa']
    · rcases hwb with h | h
      · left; rw [h, hXb']
      · right; rw [h, negcast _ hXblt, hXb']
  rw [ZMod.natCast_eq_natCast_iff', Nat.mod_eq_of_lt hlt1, Nat.mod_eq_of_lt hlt2] at hz
  exact hz

end O4.UniformDH
