import O4.Model.Handshake
import O4.Model.BytesIndex
/-!
# Lemmas about the client side of the obfs4 handshake (C02; C01 `leftover_kept`). Core only.

* `parse_ok_iff` — the decision logic of `parseServerHandshake` for all inputs
* `findMark_genuine` / `findMark_prefix` — the mark search on a genuine response is stable:
  nothing is found in any proper prefix, and the mark is found at its place in every extension
-/
namespace O4.HsClient
open O4.Handshake O4.Consts.Obfs4 O4.Consts.Ntor O4.Idx

/-- where the client starts looking for `M_S`: behind `Y' ‖ AUTH` -/
def startPos : Nat := representativeLength + authLength + serverMinPadLength

/-- the representative / AUTH / mark the call works with: the cached ones, or those cut out of
    this buffer on the first call with at least 96 bytes -/
def cacheOf (P : Prims) (c : Client) (resp : Bytes) : ClientCache :=
  match c.cache with
  | some k => k
  | none =>
    { repr := resp.take representativeLength
      auth := (resp.drop representativeLength).take authLength
      mrk := mark P c.idPub c.nodeID (resp.take representativeLength) }

/-- the server public key the client decodes -/
def serverPub (P : Prims) (c : Client) (resp : Bytes) : Bytes := P.reprToPublic (cacheOf P c resp).repr

/-- the client's ntor computation `(ok, KEY_SEED, AUTH)` -/
def ntorOf (P : Prims) (c : Client) (resp : Bytes) : Bool × Bytes × Bytes :=
  Ntor.clientHandshake P.toPrims c.xPriv c.xPub (serverPub P c resp) c.idPub c.nodeID

/-- **the acceptance predicate**: mark found in range ∧ MAC_S valid for the client's own hour ∧
    both DH results non-zero ∧ received AUTH = computed AUTH -/
def Accepts (P : Prims) (c : Client) (resp : Bytes) (n : Nat) (seed : Bytes) : Prop :=
  serverMinHandshakeLength ≤ resp.length ∧
  ∃ pos, findMarkMac (cacheOf P c resp).mrk resp startPos maxHandshakeLength false = some pos ∧
    n = pos + markLength + macLength ∧
    (resp.drop (pos + markLength)).take macLength =
      mac P c.idPub c.nodeID (resp.take (pos + markLength)) c.hour ∧
    Ntor.isZero (P.x25519 c.xPriv (serverPub P c resp)) = false ∧
    Ntor.isZero (P.x25519 c.xPriv c.idPub) = false ∧
    (ntorOf P c resp).2.2 = (cacheOf P c resp).auth ∧
    seed = (ntorOf P c resp).2.1

theorem ntorOf_ok (P : Prims) (c : Client) (resp : Bytes) :
    (ntorOf P c resp).1 = (!(Ntor.isZero (P.x25519 c.xPriv (serverPub P c resp))) &&
      !(Ntor.isZero (P.x25519 c.xPriv c.idPub))) := rfl

/-- the definition with its pieces named (every branch of the code) -/
theorem parse_eq (P : Prims) (c : Client) (resp : Bytes) :
    parseServerHandshake P c resp =
      if resp.length < serverMinHandshakeLength then (c, .err .markNotFoundYet) else
      match findMarkMac (cacheOf P c resp).mrk resp startPos maxHandshakeLength false with
      | none =>
        if resp.length ≥ maxHandshakeLength then ({ c with cache := some (cacheOf P c resp) }, .err .invalidHandshake)
        else ({ c with cache := some (cacheOf P c resp) }, .err .markNotFoundYet)
      | some pos =>
        if mac P c.idPub c.nodeID (resp.take (pos + markLength)) c.hour ≠
            (resp.drop (pos + markLength)).take macLength then
          ({ c with cache := some (cacheOf P c resp) }, .err .invalidMac)
        else if !(ntorOf P c resp).1 then ({ c with cache := some (cacheOf P c resp) }, .err .ntorFailed)
        else if (ntorOf P c resp).2.2 ≠ (cacheOf P c resp).auth then
          ({ c with cache := some (cacheOf P c resp) }, .err .invalidAuth)
        else ({ c with cache := some (cacheOf P c resp) },
              .ok (pos + markLength + macLength) (ntorOf P c resp).2.1) := rfl

/-- **decision logic, all inputs** -/
theorem parse_ok_iff (P : Prims) (c : Client) (resp : Bytes) (n : Nat) (seed : Bytes) :
    (parseServerHandshake P c resp).2 = .ok n seed ↔ Accepts P c resp n seed := by
  rw [parse_eq]
  unfold Accepts
  by_cases hlen : resp.length < serverMinHandshakeLength
  · simp only [hlen, ↓reduceIte]
    constructor
    · intro h; cases h
    · rintro ⟨h, _⟩; omega
  · simp only [hlen, ↓reduceIte]
    cases hf : findMarkMac (cacheOf P c resp).mrk resp startPos maxHandshakeLength false with
    | none =>
      simp only
      constructor
      · intro h; split at h <;> cases h
      · rintro ⟨_, pos, hp, _⟩; cases hp
    | some pos =>
      simp only
      constructor
      · intro h
        split at h
        · cases h
        · rename_i hm
          split at h
          · cases h
          · rename_i hz
            split at h
            · cases h
            · rename_i ha
              simp only [ClientResult.ok.injEq] at h
              rw [ntorOf_ok] at hz
              refine ⟨by omega, pos, rfl, h.1.symm, (Decidable.not_not.mp hm).symm, ?_, ?_,
                Decidable.not_not.mp ha, h.2.symm⟩
              · cases hz1 : Ntor.isZero (P.x25519 c.xPriv (serverPub P c resp)) <;> simp_all
              · cases hz2 : Ntor.isZero (P.x25519 c.xPriv c.idPub) <;> simp_all
      · rintro ⟨_, pos', hp, hn, hm, hz1, hz2, ha, hs⟩
        have : pos' = pos := (Option.some.inj hp).symm
        subst this
        have hok : (ntorOf P c resp).1 = true := by rw [ntorOf_ok, hz1, hz2]; rfl
        simp only [hm.symm, ne_eq, not_true_eq_false, ↓reduceIte, hok, Bool.not_true, Bool.false_eq_true,
          ha, hn, hs]

/-- in every other case the result is an error: no key seed leaves the function -/
theorem parse_err_of_not_accepts (P : Prims) (c : Client) (resp : Bytes)
    (h : ¬ ∃ n seed, Accepts P c resp n seed) : ∃ e, (parseServerHandshake P c resp).2 = .err e := by
  cases hr : (parseServerHandshake P c resp).2 with
  | err e => exact ⟨e, rfl⟩
  | ok n seed => exact absurd ⟨n, seed, (parse_ok_iff P c resp n seed).mp hr⟩ h

/-- the cache after a call -/
theorem parse_cache (P : Prims) (c : Client) (resp : Bytes) (h : serverMinHandshakeLength ≤ resp.length) :
    (parseServerHandshake P c resp).1 = { c with cache := some (cacheOf P c resp) } := by
  rw [parse_eq]
  have hlen : ¬ resp.length < serverMinHandshakeLength := by omega
  simp only [hlen, ↓reduceIte]
  cases findMarkMac (cacheOf P c resp).mrk resp startPos maxHandshakeLength false with
  | none => simp only; split <;> rfl
  | some pos =>
    simp only
    split
    · rfl
    · split
      · rfl
      · split <;> rfl

theorem parse_short (P : Prims) (c : Client) (resp : Bytes) (h : resp.length < serverMinHandshakeLength) :
    parseServerHandshake P c resp = (c, .err .markNotFoundYet) := by
  unfold parseServerHandshake
  simp only [h, ↓reduceIte]

/-! ## the mark search on a genuine response -/

/-- Setting: `R = hdr ‖ pad ‖ mk ‖ tag` with `|hdr| = startPos`, `|mk| = markLength`,
    `|tag| = macLength`, `|R| ≤ maxHandshakeLength`, and `mk` does not occur in `R` at any offset in
    `[startPos, startPos + |pad|)` (it cannot occur earlier by accident).  Then the search finds the
    mark at `startPos + |pad|` in every buffer that extends `R`. -/
theorem findMark_genuine (hdr pad mk tag T : Bytes) (hh : hdr.length = startPos)
    (hm : mk.length = markLength) (ht : tag.length = macLength)
    (hR : (hdr ++ pad ++ mk ++ tag).length ≤ maxHandshakeLength)
    (hno : ∀ q, q < pad.length → ¬ mk <+: (hdr ++ pad ++ mk ++ tag).drop (startPos + q)) :
    findMarkMac mk (hdr ++ pad ++ mk ++ tag ++ T) startPos maxHandshakeLength false
      = some (startPos + pad.length) := by
  have hmk : mk ≠ [] := by intro h; rw [h] at hm; simp [markLength] at hm
  simp only [markLength] at hm; simp only [macLength] at ht
  have hRl : (hdr ++ pad ++ mk ++ tag).length = startPos + pad.length + 32 := by
    simp only [List.length_append, hh, hm, ht]
  unfold findMarkMac
  have h1 : ¬ startPos > (hdr ++ pad ++ mk ++ tag ++ T).length := by
    simp only [List.length_append] at *; omega
  rw [if_neg h1]
  simp only []
  have hend : startPos + pad.length + 32 ≤ min (hdr ++ pad ++ mk ++ tag ++ T).length maxHandshakeLength := by
    have : (hdr ++ pad ++ mk ++ tag ++ T).length = startPos + pad.length + 32 + T.length := by
      rw [List.length_append, hRl]
    omega
  have h2 : ¬ min (hdr ++ pad ++ mk ++ tag ++ T).length maxHandshakeLength < startPos + (markLength + macLength) := by
    simp only [markLength, macLength]; omega
  rw [if_neg h2]
  simp only [Bool.false_eq_true, ↓reduceIte]
  -- the window searched
  generalize hE : min (hdr ++ pad ++ mk ++ tag ++ T).length maxHandshakeLength = E at hend
  have hidx : indexOf mk (((hdr ++ pad ++ mk ++ tag ++ T).take E).drop startPos) = some pad.length := by
    rw [indexOf_eq_some mk hmk]
    constructor
    · -- the mark sits at offset |pad|
      rw [List.drop_drop]
      have : (hdr ++ pad ++ mk ++ tag ++ T).take E = hdr ++ pad ++ (mk ++ ((tag ++ T).take (E - (startPos + pad.length + 16)))) := by
        have e1 : hdr ++ pad ++ mk ++ tag ++ T = (hdr ++ pad ++ mk) ++ (tag ++ T) := by simp
        rw [e1, List.take_append]
        have : (hdr ++ pad ++ mk).length = startPos + pad.length + 16 := by
          simp only [List.length_append, hh, hm]
        rw [this, List.take_of_length_le (by rw [this]; omega)]
        simp
      rw [this]
      have hl : (hdr ++ pad).length = startPos + pad.length := by simp [hh]
      rw [← hl, List.drop_left]
      exact List.prefix_append _ _
    · intro q' hq' hpre
      apply hno q' hq'
      rw [List.drop_drop] at hpre
      -- an occurrence inside the window and before the mark lies inside R
      have hfit : startPos + q' + mk.length ≤ (hdr ++ pad ++ mk ++ tag).length := by rw [hRl, hm]; omega
      have hpre' : mk <+: ((hdr ++ pad ++ mk ++ tag) ++ T).drop (startPos + q') := by
        have hle : startPos + q' + mk.length ≤ E := by rw [hm]; omega
        obtain ⟨t, ht'⟩ := hpre
        have : mk = (((hdr ++ pad ++ mk ++ tag ++ T).take E).drop (startPos + q')).take mk.length := by
          rw [← ht']; simp
        rw [List.take_drop, List.take_take, Nat.min_eq_left hle, ← List.take_drop] at this
        have h2 : ((hdr ++ pad ++ mk ++ tag ++ T).drop (startPos + q')).take mk.length <+:
            (hdr ++ pad ++ mk ++ tag ++ T).drop (startPos + q') := List.take_prefix _ _
        rw [← this] at h2
        exact h2
      exact prefix_drop_anti mk (hdr ++ pad ++ mk ++ tag) T (startPos + q') hpre' hfit
  rw [hidx]
  simp only
  have h3 : ¬ startPos + pad.length + markLength + macLength > E := by
    simp only [markLength, macLength]; omega
  rw [if_neg h3]

/-- … and finds nothing in any buffer that is a proper prefix of `R` -/
theorem findMark_prefix (hdr pad mk tag p e : Bytes) (hh : hdr.length = startPos)
    (hm : mk.length = markLength) (ht : tag.length = macLength)
    (hR : (hdr ++ pad ++ mk ++ tag).length ≤ maxHandshakeLength)
    (hno : ∀ q, q < pad.length → ¬ mk <+: (hdr ++ pad ++ mk ++ tag).drop (startPos + q))
    (hp : p ++ e = hdr ++ pad ++ mk ++ tag) (he : e ≠ []) :
    findMarkMac mk p startPos maxHandshakeLength false = none := by
  have hmk : mk ≠ [] := by intro h; rw [h] at hm; simp [markLength] at hm
  simp only [markLength] at hm; simp only [macLength] at ht
  have hRl : (hdr ++ pad ++ mk ++ tag).length = startPos + pad.length + 32 := by
    simp only [List.length_append, hh, hm, ht]
  have hel : 0 < e.length := List.length_pos_iff.mpr he
  have hpl : p.length + e.length = startPos + pad.length + 32 := by
    rw [← hRl, ← hp, List.length_append]
  unfold findMarkMac
  by_cases h1 : startPos > p.length
  · rw [if_pos h1]
  rw [if_neg h1]
  simp only []
  have hE : min p.length maxHandshakeLength = p.length := by
    apply Nat.min_eq_left; rw [hRl] at hR; omega
  rw [hE]
  by_cases h2 : p.length < startPos + (markLength + macLength)
  · rw [if_pos h2]
  rw [if_neg h2]
  simp only [Bool.false_eq_true, ↓reduceIte, List.take_length]
  cases hi : indexOf mk (p.drop startPos) with
  | none => rfl
  | some q =>
    simp only
    have hq := (indexOf_eq_some mk hmk _ _).mp hi
    rw [List.drop_drop] at hq
    -- the occurrence lies inside p, hence inside R; it cannot be before the real mark
    have hfit : startPos + q + mk.length ≤ p.length := by
      obtain ⟨t, ht'⟩ := hq.1
      have := congrArg List.length ht'
      simp only [List.length_append, List.length_drop] at this
      omega
    have hinR : mk <+: (hdr ++ pad ++ mk ++ tag).drop (startPos + q) := by
      rw [← hp]
      exact prefix_drop_mono mk p e (startPos + q) hq.1 hfit
    have hge : pad.length ≤ q := by
      apply Nat.le_of_not_lt
      intro hlt
      exact hno q hlt hinR
    have : startPos + q + markLength + macLength > p.length := by
      simp only [markLength, macLength]; omega
    rw [if_pos this]

end O4.HsClient
