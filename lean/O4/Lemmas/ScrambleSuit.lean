import O4.Model.ScrambleSuit
/-!
# Lemmas about the ScrambleSuit model (core only): the response parser on prefixes of a
conforming stream, the packet machine, the ticket store.
-/
namespace O4.SS
open O4.Consts.Scramblesuit

/-! ## relations between the regenerated constants (re-proved on every run) -/

theorem c_min : minHandshakeLength = dhSize + 2 * macLength := by decide
theorem c_fit : dhSize + dhMaxPadLength + 2 * macLength ≤ maxHandshakeLength := by decide
theorem c_mac_pos : 0 < macLength := by decide
theorem c_mac_le : macLength ≤ maxHandshakeLength := by decide
theorem c_mac_dh : macLength ≤ dhSize := by decide
theorem c_dh_win : dhSize ≤ maxHandshakeLength - macLength := by decide
theorem c_min_le_max : minHandshakeLength ≤ maxHandshakeLength := by decide

/-! ## slices and `bytes.Index` on prefixes -/

theorem slice?_eq {b : Bytes} {lo hi : Nat} (h1 : lo ≤ hi) (h2 : hi ≤ b.length) :
    slice? b lo hi = some ((b.take hi).drop lo) := by
  simp [slice?, h1, h2]

theorem slice?_none {b : Bytes} {lo hi : Nat} (h : b.length < hi) : slice? b lo hi = none := by
  simp only [slice?, ite_eq_right_iff, reduceCtorEq, imp_false, not_and]
  omega

/-- the mark is not found in a prefix that does not yet contain its first occurrence in full -/
theorem indexOf_prefix_none (pat p e : Bytes) (hp : pat ≠ []) (q : Nat)
    (hfull : Idx.indexOf pat (p ++ e) = some q) (hq : p.length < q + pat.length) :
    Idx.indexOf pat p = none := by
  cases h : Idx.indexOf pat p with
  | none => rfl
  | some q' =>
    exfalso
    rw [Idx.indexOf_eq_some pat hp] at h hfull
    obtain ⟨h1, _⟩ := h
    obtain ⟨_, hmin⟩ := hfull
    have hpos : 0 < pat.length := List.length_pos_iff.mpr hp
    have hlen : q' + pat.length ≤ p.length := by
      have := h1.length_le
      simp only [List.length_drop] at this
      omega
    have hocc := Idx.prefix_drop_mono pat p e q' h1 hlen
    have : ¬ q' < q := fun hlt => hmin q' hlt hocc
    omega

/-- the repaired parser never slices out of bounds, whatever the input -/
theorem parseTail_no_panic (P : Prims) (hs : DhHs) (y resp : Bytes) (hlen : minHandshakeLength ≤ resp.length) :
    (hs.parseTail P true y resp).2 ≠ .panic := by
  have h1 := c_min
  have hw := c_dh_win
  unfold DhHs.parseTail
  dsimp only
  split
  · simp
  · rw [slice?_eq (lo := dhSize) (hi := min resp.length (maxHandshakeLength - macLength)) (by omega) (by omega)]
    dsimp only
    split
    · split <;> simp
    · rename_i pos _
      simp only [↓reduceIte]
      split
      · simp
      · rename_i hge
        rw [slice?_eq (by omega) (by omega), slice?_eq (by omega) (by omega)]
        dsimp only
        split
        · simp
        · split <;> simp

/-! ## the conforming server stream -/

/-- Y | P_S | M_S | MAC(Y | P_S | M_S | E) with `E` the epoch-hour string -/
def respOf (P : Prims) (kB E Y pad : Bytes) : Bytes :=
  Y ++ pad ++ mac128 P kB Y ++ mac128 P kB (Y ++ pad ++ mac128 P kB Y ++ E)

theorem serverResponse_eq (P : Prims) (kB Y pad : Bytes) (hour : Int) :
    serverResponse P kB Y pad hour = respOf P kB (epochHourBytes hour) Y pad := rfl

/-- HMAC-SHA256-128 tags have `macLength` bytes (true of the real primitive: 32 ≥ 16) -/
def MacLen (P : Prims) : Prop := ∀ k m, (mac128 P k m).length = macLength

/-- what "conforming response followed by arbitrary surplus `T`" means for the client `(kB, priv, E)` -/
structure Conf (P : Prims) (kB priv E Y pad T ss : Bytes) : Prop where
  macLen : MacLen P
  hY : Y.length = dhSize
  hpad : pad.length ≤ dhMaxPadLength
  /-- no false mark: the first occurrence of the mark in the search window is the real one -/
  hfirst : Idx.indexOf (mac128 P kB Y)
      (((respOf P kB E Y pad ++ T).take (maxHandshakeLength - macLength)).drop dhSize) = some pad.length
  hss : P.dhShared priv Y = some ss

theorem respOf_length {P : Prims} (h : MacLen P) (kB E Y pad : Bytes) :
    (respOf P kB E Y pad).length = Y.length + pad.length + 2 * macLength := by
  simp only [respOf, List.length_append, h _ _]
  omega

/-- client state invariant along the read loop -/
structure Inv (P : Prims) (kB priv E Y : Bytes) (hs : DhHs) : Prop where
  hkB : hs.kB = kB
  hpriv : hs.priv = priv
  hhour : hs.epochHour = E
  cached : hs.serverPub = none ∨ (hs.serverPub = some Y ∧ hs.macBuf = Y ∧ hs.serverMark = mac128 P kB Y)

/-- the state once the key has been cached -/
structure InvC (P : Prims) (kB priv E Y : Bytes) (hs : DhHs) : Prop where
  hkB : hs.kB = kB
  hpriv : hs.priv = priv
  hhour : hs.epochHour = E
  pub : hs.serverPub = some Y
  macBuf : hs.macBuf = Y
  mark : hs.serverMark = mac128 P kB Y

theorem InvC.inv {P : Prims} {kB priv E Y : Bytes} {hs : DhHs} (h : InvC P kB priv E Y hs) : Inv P kB priv E Y hs :=
  ⟨h.hkB, h.hpriv, h.hhour, Or.inr ⟨h.pub, h.macBuf, h.mark⟩⟩

section parser
variable {P : Prims} {kB priv E Y pad T ss : Bytes}

/-- take `k` bytes of `Y ++ rest` with `k ≥ |Y|` starts with `Y` -/
theorem take_drop_Y (Y rest : Bytes) (k : Nat) (hk : Y.length ≤ k) :
    ((Y ++ rest).take k).take Y.length = Y := by
  rw [List.take_take, Nat.min_eq_left hk, List.take_left']
  rfl

theorem cache_prefix (c : Conf P kB priv E Y pad T ss) {hs : DhHs} (hi : Inv P kB priv E Y hs)
    (k : Nat) (hk : minHandshakeLength ≤ k) (hkW : k ≤ (respOf P kB E Y pad ++ T).length) :
    ∃ hs', hs.cache P ((respOf P kB E Y pad ++ T).take k) = some (hs', Y) ∧ InvC P kB priv E Y hs' := by
  rcases hi.cached with hnone | ⟨hp, hm, hk'⟩
  · have hlen : dhSize ≤ ((respOf P kB E Y pad ++ T).take k).length := by
      rw [List.length_take]; have := c_min; omega
    refine ⟨{ hs with serverPub := some Y, macBuf := Y, serverMark := mac128 P kB Y }, ?_, ⟨hi.hkB, hi.hpriv, hi.hhour, rfl, rfl, rfl⟩⟩
    have hy : ((respOf P kB E Y pad ++ T).take k).take dhSize = Y := by
      have := take_drop_Y Y (pad ++ mac128 P kB Y ++ mac128 P kB (Y ++ pad ++ mac128 P kB Y ++ E) ++ T) k
        (by rw [c.hY]; have := c_min; omega)
      rw [c.hY] at this
      simpa [respOf, List.append_assoc] using this
    simp only [DhHs.cache, hnone, slice?_eq (Nat.zero_le _) hlen, List.drop_zero, hy, hi.hkB]
  · exact ⟨hs, by simp [DhHs.cache, hp], ⟨hi.hkB, hi.hpriv, hi.hhour, hp, hm, hk'⟩⟩

theorem window_split (W : Bytes) (k M d : Nat) (hd : d ≤ min k M) (hk : k ≤ W.length) :
    (W.take M).drop d = (W.take (min k M)).drop d ++ (W.take M).drop (min k M) := by
  have h1 : W.take M = W.take (min k M) ++ (W.take M).drop (min k M) := by
    conv => lhs; rw [← List.take_append_drop (min k M) (W.take M)]
    rw [List.take_take]
    congr 2
    omega
  conv => lhs; rw [h1]
  rw [List.drop_append_of_le_length]
  rw [List.length_take]
  omega

theorem mid_slice (A B C : Bytes) : ((A ++ B ++ C).take (A.length + B.length)).drop A.length = B := by
  rw [List.take_left' (by simp), List.drop_left' rfl]

/-- the search window of a prefix of `k` bytes -/
theorem window_prefix (W : Bytes) (k : Nat) (hk : k ≤ W.length) (hd : dhSize ≤ min k (maxHandshakeLength - macLength)) :
    slice? (W.take k) dhSize (min (W.take k).length (maxHandshakeLength - macLength))
      = some ((W.take (min k (maxHandshakeLength - macLength))).drop dhSize) := by
  have hl : (W.take k).length = k := by rw [List.length_take]; omega
  rw [hl, slice?_eq hd (by rw [hl]; omega), List.take_take]
  congr 3
  omega

/-- `bytes.Index` of the mark in the window of a `k`-byte prefix: found (at the true position) iff
    the prefix contains the whole mark -/
theorem find_in_prefix (c : Conf P kB priv E Y pad T ss) (k : Nat)
    (hk : k ≤ (respOf P kB E Y pad ++ T).length) (hd : dhSize ≤ min k (maxHandshakeLength - macLength)) :
    Idx.indexOf (mac128 P kB Y) (((respOf P kB E Y pad ++ T).take (min k (maxHandshakeLength - macLength))).drop dhSize)
      = if dhSize + pad.length + macLength ≤ min k (maxHandshakeLength - macLength) then some pad.length else none := by
  have hm : (mac128 P kB Y).length = macLength := c.macLen _ _
  have hne : mac128 P kB Y ≠ [] := by
    intro h; rw [h] at hm; have := c_mac_pos; simp at hm; omega
  have hfull := c.hfirst
  rw [window_split _ k _ dhSize hd hk] at hfull
  have hwl : (((respOf P kB E Y pad ++ T).take (min k (maxHandshakeLength - macLength))).drop dhSize).length
      = min k (maxHandshakeLength - macLength) - dhSize := by
    rw [List.length_drop, List.length_take]; omega
  split
  · exact Idx.indexOf_stable _ _ _ hne _ hfull (by rw [hwl, hm]; omega)
  · exact indexOf_prefix_none _ _ _ hne _ hfull (by rw [hwl, hm]; omega)

/-- SHORT PREFIX: fewer bytes than the response ⇒ "mark not found yet", state still consistent -/
theorem parseTail_short (c : Conf P kB priv E Y pad T ss) {hs : DhHs} (hi : InvC P kB priv E Y hs)
    (k : Nat) (hk : k ≤ (respOf P kB E Y pad ++ T).length) (hmin : minHandshakeLength ≤ k)
    (hlt : k < (respOf P kB E Y pad).length) :
    hs.parseTail P true Y ((respOf P kB E Y pad ++ T).take k) = (hs, .notYet) := by
  have hrl := respOf_length c.macLen kB E Y pad
  have hY := c.hY
  have hpad := c.hpad
  have h1 := c_min
  have h2 := c_fit
  have hd : dhSize ≤ min k (maxHandshakeLength - macLength) := by omega
  have hl : ((respOf P kB E Y pad ++ T).take k).length = k := by rw [List.length_take]; omega
  unfold DhHs.parseTail
  dsimp only
  rw [if_neg (by simp [hY]), window_prefix _ k hk hd, hi.mark]
  dsimp only
  rw [find_in_prefix c k hk hd]
  simp only [hl]
  by_cases hc : dhSize + pad.length + macLength ≤ min k (maxHandshakeLength - macLength)
  · rw [if_pos hc]
    dsimp only
    rw [if_pos (by simp only [↓reduceIte]; omega)]
  · rw [if_neg hc]
    dsimp only
    rw [if_neg (by omega)]

/-- FULL PREFIX: at least the whole response ⇒ completes, consuming exactly the response -/
theorem parseTail_full (c : Conf P kB priv E Y pad T ss) {hs : DhHs} (hi : InvC P kB priv E Y hs)
    (k : Nat) (hk : k ≤ (respOf P kB E Y pad ++ T).length)
    (hge : (respOf P kB E Y pad).length ≤ k) :
    ∃ hs', hs.parseTail P true Y ((respOf P kB E Y pad ++ T).take k)
      = (hs', .ok (respOf P kB E Y pad).length (P.sha256 ss)) := by
  have hrl := respOf_length c.macLen kB E Y pad
  have hY := c.hY
  have hpad := c.hpad
  have h1 := c_min
  have h2 := c_fit
  have hm : (mac128 P kB Y).length = macLength := c.macLen _ _
  have hd : dhSize ≤ min k (maxHandshakeLength - macLength) := by omega
  have hl : ((respOf P kB E Y pad ++ T).take k).length = k := by rw [List.length_take]; omega
  -- the two slices
  have hbody : slice? ((respOf P kB E Y pad ++ T).take k) dhSize (pad.length + dhSize + macLength)
      = some (pad ++ mac128 P kB Y) := by
    have hle : pad.length + dhSize + macLength ≤ k := by omega
    have hW : respOf P kB E Y pad ++ T
        = Y ++ (pad ++ mac128 P kB Y) ++ (mac128 P kB (Y ++ pad ++ mac128 P kB Y ++ E) ++ T) := by
      simp only [respOf, List.append_assoc]
    have e1 : pad.length + dhSize + macLength = Y.length + (pad ++ mac128 P kB Y).length := by
      rw [List.length_append, hm, hY]; omega
    rw [slice?_eq (by omega) (by rw [hl]; omega), List.take_take, Nat.min_eq_left hle, hW, e1, ← hY, mid_slice]
  have hmacrx : slice? ((respOf P kB E Y pad ++ T).take k) (pad.length + dhSize + macLength)
      (pad.length + dhSize + 2 * macLength) = some (mac128 P kB (Y ++ pad ++ mac128 P kB Y ++ E)) := by
    have hle : pad.length + dhSize + 2 * macLength ≤ k := by omega
    have hW : respOf P kB E Y pad ++ T
        = (Y ++ pad ++ mac128 P kB Y) ++ mac128 P kB (Y ++ pad ++ mac128 P kB Y ++ E) ++ T := by
      simp only [respOf, List.append_assoc]
    have e1 : pad.length + dhSize + macLength = (Y ++ pad ++ mac128 P kB Y).length := by
      simp only [List.length_append, hm, hY]; omega
    have e2 : pad.length + dhSize + 2 * macLength
        = (Y ++ pad ++ mac128 P kB Y).length + (mac128 P kB (Y ++ pad ++ mac128 P kB Y ++ E)).length := by
      simp only [List.length_append, hm, hY, c.macLen _ _]; omega
    rw [slice?_eq (by omega) (by rw [hl]; omega), List.take_take, Nat.min_eq_left hle, hW, e1, e2, mid_slice]
  unfold DhHs.parseTail
  dsimp only
  rw [if_neg (by simp [hY]), window_prefix _ k hk hd, hi.mark]
  dsimp only
  rw [find_in_prefix c k hk hd]
  rw [if_pos (by omega)]
  simp only [hl, ↓reduceIte]
  rw [if_neg (by omega), hbody, hmacrx]
  simp only [hi.macBuf, hi.hhour, hi.hkB, hi.hpriv, c.hss, List.append_assoc, ne_eq, not_true_eq_false, ↓reduceIte]
  rw [hrl, hY]
  exact ⟨_, by congr 2; omega⟩

/-- BEFORE THE REPAIR (F3): a prefix that ends inside the trailing MAC passes the length test
    (which forgot the `uniformdh.Size` offset) and slices beyond the received bytes -/
theorem parseTail_prefix_panics (c : Conf P kB priv E Y pad T ss) {hs : DhHs} (hi : InvC P kB priv E Y hs)
    (k : Nat) (hk : k ≤ (respOf P kB E Y pad ++ T).length) (hmin : minHandshakeLength ≤ k)
    (hin : (respOf P kB E Y pad).length - macLength ≤ k) (hlt : k < (respOf P kB E Y pad).length) :
    hs.parseTail P false Y ((respOf P kB E Y pad ++ T).take k) = (hs, .panic) := by
  have hrl := respOf_length c.macLen kB E Y pad
  have hY := c.hY
  have hpad := c.hpad
  have h1 := c_min
  have h2 := c_fit
  have hm : (mac128 P kB Y).length = macLength := c.macLen _ _
  have hd : dhSize ≤ min k (maxHandshakeLength - macLength) := by omega
  have hl : ((respOf P kB E Y pad ++ T).take k).length = k := by rw [List.length_take]; omega
  have hbody : slice? ((respOf P kB E Y pad ++ T).take k) dhSize (pad.length + dhSize + macLength)
      = some (((respOf P kB E Y pad ++ T).take k |>.take (pad.length + dhSize + macLength)).drop dhSize) :=
    slice?_eq (by omega) (by rw [hl]; omega)
  have hmacrx : slice? ((respOf P kB E Y pad ++ T).take k) (pad.length + dhSize + macLength)
      (pad.length + dhSize + 2 * macLength) = none := slice?_none (by rw [hl]; omega)
  unfold DhHs.parseTail
  dsimp only
  rw [if_neg (by simp [hY]), window_prefix _ k hk hd, hi.mark]
  dsimp only
  rw [find_in_prefix c k hk hd]
  rw [if_pos (by omega)]
  simp only [hl]
  have h3 := c_mac_dh
  rw [if_neg (by simp only [Bool.false_eq_true, ↓reduceIte]; omega), hbody, hmacrx]

theorem take_of_append_eq {W buf rest : Bytes} (h : buf ++ rest = W) : W.take buf.length = buf := by
  rw [← h, List.take_left' rfl]

/-- `parseServerHandshake` (repaired) on the first `k` bytes of a conforming stream -/
theorem parse_prefix (c : Conf P kB priv E Y pad T ss) {hs : DhHs} (hi : Inv P kB priv E Y hs)
    (k : Nat) (hk : k ≤ (respOf P kB E Y pad ++ T).length) :
    (k < (respOf P kB E Y pad).length →
      ∃ hs', hs.parse P true ((respOf P kB E Y pad ++ T).take k) = (hs', .notYet) ∧ Inv P kB priv E Y hs') ∧
    ((respOf P kB E Y pad).length ≤ k →
      ∃ hs', hs.parse P true ((respOf P kB E Y pad ++ T).take k)
        = (hs', .ok (respOf P kB E Y pad).length (P.sha256 ss))) := by
  have hl : ((respOf P kB E Y pad ++ T).take k).length = k := by rw [List.length_take]; omega
  have hrl := respOf_length c.macLen kB E Y pad
  have hY := c.hY
  have h1 := c_min
  constructor
  · intro hlt
    unfold DhHs.parse
    by_cases hmin : k < minHandshakeLength
    · exact ⟨hs, by rw [hl, if_pos hmin], hi⟩
    · obtain ⟨hs', hc, hi'⟩ := cache_prefix c hi k (by omega) hk
      refine ⟨hs', ?_, hi'.inv⟩
      rw [hl, if_neg hmin, hc]
      exact parseTail_short c hi' k hk (by omega) hlt
  · intro hge
    unfold DhHs.parse
    obtain ⟨hs', hc, hi'⟩ := cache_prefix c hi k (by omega) hk
    obtain ⟨hs'', ht⟩ := parseTail_full c hi' k hk hge
    exact ⟨hs'', by rw [hl, if_neg (by omega), hc]; exact ht⟩

/-- the read loop on ANY segmentation of a conforming stream -/
theorem dhLoop_conforming (c : Conf P kB priv E Y pad T ss) (cs : List Bytes) :
    ∀ (buf : Bytes) (hs : DhHs), Inv P kB priv E Y hs →
      buf ++ cs.flatten = respOf P kB E Y pad ++ T → buf.length < (respOf P kB E Y pad).length →
      ∃ rest unread, dhLoop P true hs buf cs = .done (P.sha256 ss) rest unread ∧
        rest ++ unread.flatten = T ∧ unread <:+ cs := by
  induction cs with
  | nil =>
    intro buf hs _ hcat hlt
    exfalso
    simp only [List.flatten_nil, List.append_nil] at hcat
    rw [hcat, List.length_append] at hlt
    omega
  | cons ch cs ih =>
    intro buf hs hi hcat hlt
    have hcat' : (buf ++ ch) ++ cs.flatten = respOf P kB E Y pad ++ T := by
      rw [← hcat]; simp [List.append_assoc]
    have htake := take_of_append_eq hcat'
    have hk : (buf ++ ch).length ≤ (respOf P kB E Y pad ++ T).length := by
      rw [← hcat']; simp only [List.length_append]; omega
    obtain ⟨hshort, hfull⟩ := parse_prefix c hi (buf ++ ch).length hk
    rw [htake] at hshort hfull
    by_cases hdone : (respOf P kB E Y pad).length ≤ (buf ++ ch).length
    · obtain ⟨hs', hp⟩ := hfull hdone
      refine ⟨(buf ++ ch).drop (respOf P kB E Y pad).length, cs, ?_, ?_, List.suffix_cons _ _⟩
      · simp only [dhLoop, hp]
      · rw [← List.drop_append_of_le_length hdone, hcat', List.drop_left' rfl]
    · obtain ⟨hs', hp, hi'⟩ := hshort (by omega)
      obtain ⟨rest, unread, hl, hr, hsuf⟩ := ih (buf ++ ch) hs' hi' hcat' (by omega)
      refine ⟨rest, unread, ?_, hr, hsuf.trans (List.suffix_cons _ _)⟩
      simp only [dhLoop, hp]
      exact hl

end parser

/-! ## what a completing client has verified (arbitrary input) -/

theorem slice?_some {b : Bytes} {lo hi : Nat} {x : Bytes} (h : slice? b lo hi = some x) :
    lo ≤ hi ∧ hi ≤ b.length ∧ x = (b.take hi).drop lo := by
  unfold slice? at h
  split at h
  · rename_i hc
    simp only [Option.some.injEq] at h
    exact ⟨hc.1, hc.2, h.symm⟩
  · cases h

theorem parseTail_ok {P : Prims} {hs : DhHs} {y resp : Bytes} {hs' : DhHs} {n : Nat} {seed : Bytes}
    (h : hs.parseTail P true y resp = (hs', .ok n seed)) :
    dhSize + 2 * macLength ≤ n ∧ n ≤ resp.length ∧
    mac128 P hs.kB (hs.macBuf ++ (resp.take (n - macLength)).drop dhSize ++ hs.epochHour)
      = (resp.take n).drop (n - macLength) := by
  unfold DhHs.parseTail at h
  dsimp only at h
  split at h
  · cases h
  · split at h
    · cases h
    · split at h
      · split at h <;> cases h
      · rename_i pos _
        simp only [↓reduceIte] at h
        split at h
        · cases h
        · split at h
          · rename_i body macRx hb hmr
            obtain ⟨_, _, rfl⟩ := slice?_some hb
            obtain ⟨_, hle, rfl⟩ := slice?_some hmr
            split at h
            · cases h
            · rename_i hmacok
              split at h
              · cases h
              · simp only [Prod.mk.injEq, ParseRes.ok.injEq] at h
                obtain ⟨_, rfl, _⟩ := h
                refine ⟨by omega, hle, ?_⟩
                have e1 : pos + dhSize + 2 * macLength - macLength = pos + dhSize + macLength := by omega
                rw [e1]
                exact Decidable.of_not_not hmacok
          · cases h


theorem parseTail_notYet {P : Prims} {hs : DhHs} {y resp : Bytes} {hs' : DhHs}
    (h : hs.parseTail P true y resp = (hs', .notYet)) : hs' = hs := by
  unfold DhHs.parseTail at h
  dsimp only at h
  split at h
  · cases h
  · split at h
    · cases h
    · split at h
      · split at h
        · cases h
        · simp only [Prod.mk.injEq, and_true] at h; exact h.symm
      · simp only [↓reduceIte] at h
        split at h
        · simp only [Prod.mk.injEq, and_true] at h; exact h.symm
        · split at h
          · split at h
            · cases h
            · split at h <;> cases h
          · cases h

/-- loop invariant on ARBITRARY input: the cache, if set, holds the first `dhSize` bytes received -/
structure InvG (kB E buf : Bytes) (hs : DhHs) : Prop where
  hkB : hs.kB = kB
  hhour : hs.epochHour = E
  cached : hs.serverPub = none ∨
    (dhSize ≤ buf.length ∧ hs.serverPub = some (buf.take dhSize) ∧ hs.macBuf = buf.take dhSize)

theorem InvG.mono {kB E buf : Bytes} {hs : DhHs} (h : InvG kB E buf hs) (c : Bytes) : InvG kB E (buf ++ c) hs := by
  refine ⟨h.hkB, h.hhour, ?_⟩
  rcases h.cached with hn | ⟨hl, hp, hm⟩
  · exact Or.inl hn
  · refine Or.inr ⟨by rw [List.length_append]; omega, ?_, ?_⟩
    · rw [hp, List.take_append_of_le_length hl]
    · rw [hm, List.take_append_of_le_length hl]

/-- the statement a completed handshake certifies about the received bytes `W`: the last
    `macLength` of the `n` consumed bytes are a valid tag under `kB` for everything before them
    followed by the client's epoch hour -/
def Verified (P : Prims) (kB E W : Bytes) (n : Nat) : Prop :=
  minHandshakeLength ≤ n ∧ n ≤ W.length ∧
  mac128 P kB (W.take (n - macLength) ++ E) = (W.take n).drop (n - macLength)

theorem parse_general {P : Prims} {kB E buf : Bytes} {hs : DhHs} (hi : InvG kB E buf hs) :
    (∀ hs', hs.parse P true buf = (hs', .notYet) → InvG kB E buf hs') ∧
    (∀ hs' n seed, hs.parse P true buf = (hs', .ok n seed) → Verified P kB E buf n) := by
  have h1 := c_min
  -- the cached case, shared by both branches of `cache`
  have key : ∀ hs1 : DhHs, hs1.kB = kB → hs1.epochHour = E → dhSize ≤ buf.length →
      hs1.serverPub = some (buf.take dhSize) → hs1.macBuf = buf.take dhSize →
      (∀ hs', hs1.parseTail P true (buf.take dhSize) buf = (hs', .notYet) → InvG kB E buf hs') ∧
      (∀ hs' n seed, hs1.parseTail P true (buf.take dhSize) buf = (hs', .ok n seed) → Verified P kB E buf n) := by
    intro hs1 hk he hl hp hm
    constructor
    · intro hs' h
      rw [parseTail_notYet h]
      exact ⟨hk, he, Or.inr ⟨hl, hp, hm⟩⟩
    · intro hs' n seed h
      obtain ⟨hn1, hn2, hv⟩ := parseTail_ok h
      refine ⟨by omega, hn2, ?_⟩
      rw [hk, he, hm] at hv
      rw [← hv]
      congr 2
      have : (buf.take (n - macLength)).take dhSize = buf.take dhSize := by
        rw [List.take_take]; congr 1; omega
      rw [← this, List.take_append_drop]
  unfold DhHs.parse
  by_cases hlen : buf.length < minHandshakeLength
  · simp only [hlen, ↓reduceIte]
    constructor
    · intro hs' h; simp only [Prod.mk.injEq, and_true] at h; exact h ▸ hi
    · intro hs' n seed h; cases h
  · simp only [hlen, ↓reduceIte]
    have hl : dhSize ≤ buf.length := by omega
    rcases hi.cached with hn | ⟨_, hp, hm⟩
    · have hc : hs.cache P buf = some (⟨hs.kB, hs.priv, hs.pubX, hs.epochHour, buf.take dhSize,
          some (buf.take dhSize), mac128 P hs.kB (buf.take dhSize)⟩, buf.take dhSize) := by
        simp only [DhHs.cache, hn, slice?_eq (Nat.zero_le _) hl, List.drop_zero]
      simp only [hc]
      exact key _ hi.hkB hi.hhour hl rfl rfl
    · have hc : hs.cache P buf = some (hs, buf.take dhSize) := by simp only [DhHs.cache, hp]
      simp only [hc]
      exact key hs hi.hkB hi.hhour hl hp hm

/-- the read loop on ANY input: if it completes, the bytes consumed verify under `kB` -/
theorem dhLoop_verified {P : Prims} {kB E : Bytes} (cs : List Bytes) :
    ∀ (buf : Bytes) (hs : DhHs) (seed rest : Bytes) (unread : List Bytes), InvG kB E buf hs →
      dhLoop P true hs buf cs = .done seed rest unread →
      Verified P kB E (buf ++ cs.flatten)
        ((buf ++ cs.flatten).length - (rest.length + unread.flatten.length)) := by
  induction cs with
  | nil => intro buf hs seed rest unread _ h; simp [dhLoop] at h
  | cons c cs ih =>
    intro buf hs seed rest unread hi h
    have hi' := hi.mono c
    obtain ⟨hny, hok⟩ := parse_general (P := P) hi'
    simp only [dhLoop] at h
    cases hp : hs.parse P true (buf ++ c) with
    | mk hs' res =>
      rw [hp] at h
      cases res with
      | notYet =>
        simp only at h
        have := ih (buf ++ c) hs' seed rest unread (hny hs' hp) h
        simpa [List.append_assoc] using this
      | ok n sd =>
        simp only [HsOutcome.done.injEq] at h
        obtain ⟨rfl, rfl, rfl⟩ := h
        obtain ⟨hv1, hv2, hv3⟩ := hok hs' n sd hp
        have hlen : (buf ++ (c :: cs).flatten).length
            - (((buf ++ c).drop n).length + cs.flatten.length) = n := by
          simp only [List.flatten_cons, List.length_append, List.length_drop] at hv2 ⊢
          omega
        rw [hlen]
        have hW : buf ++ (c :: cs).flatten = (buf ++ c) ++ cs.flatten := by
          simp [List.append_assoc]
        refine ⟨hv1, by rw [hW, List.length_append]; omega, ?_⟩
        rw [hW, List.take_append_of_le_length (by omega), List.take_append_of_le_length hv2]
        exact hv3
      | invalid => simp at h
      | dhErr => simp at h
      | panic => simp at h

/-! ## the handshake buffer stays bounded (arbitrary input) -/

theorem indexOf_fits {pat w : Bytes} {q : Nat} (hp : pat ≠ []) (h : Idx.indexOf pat w = some q) :
    q + pat.length ≤ w.length := by
  rw [Idx.indexOf_eq_some pat hp] at h
  have hpos : 0 < pat.length := List.length_pos_iff.mpr hp
  have := h.1.length_le
  simp only [List.length_drop] at this
  omega

/-- "not yet" is only ever answered below `maxHandshakeLength` bytes -/
theorem parseTail_notYet_bound {P : Prims} {hs : DhHs} {y resp : Bytes} {hs' : DhHs}
    (hmark : hs.serverMark.length = macLength)
    (h : hs.parseTail P true y resp = (hs', .notYet)) : resp.length < maxHandshakeLength := by
  have hm0 := c_mac_pos
  have hml := c_mac_le
  have hne : hs.serverMark ≠ [] := by intro e; rw [e] at hmark; simp at hmark; omega
  unfold DhHs.parseTail at h
  dsimp only at h
  split at h
  · cases h
  · split at h
    · cases h
    · rename_i window hw
      obtain ⟨_, _, rfl⟩ := slice?_some hw
      split at h
      · split at h
        · cases h
        · omega
      · rename_i pos hidx
        have hfit := indexOf_fits hne hidx
        simp only [List.length_drop, List.length_take, hmark] at hfit
        simp only [↓reduceIte] at h
        split at h
        · omega
        · split at h
          · split at h
            · cases h
            · split at h <;> cases h
          · cases h

/-! ## ticket store -/

theorem map_filter_not_mem {α β : Type} (f : α → β) (p : α → Bool) :
    ∀ (l : List α) (e : α), (l.map f).Nodup → e ∈ l → p e = false → f e ∉ (l.filter p).map f := by
  intro l
  induction l with
  | nil => intro e _ he; simp at he
  | cons x xs ih =>
    intro e hn he hp
    rw [List.map_cons, List.nodup_cons] at hn
    obtain ⟨hx, hn'⟩ := hn
    have hsub : ((xs.filter p).map f).Sublist (xs.map f) := (List.filter_sublist).map f
    rcases List.mem_cons.mp he with rfl | he'
    · rw [List.filter_cons_of_neg (by simp [hp])]
      exact fun h => hx (hsub.subset h)
    · have := ih e hn' he' hp
      by_cases hpx : p x = true
      · rw [List.filter_cons_of_pos hpx, List.map_cons, List.mem_cons]
        rintro (h | h)
        · exact hx (h ▸ List.mem_map_of_mem he')
        · exact this h
      · rw [List.filter_cons_of_neg hpx]; exact this

/-- the issued blobs currently in the store -/
def raws (s : Store) : List Bytes := s.map (fun e => e.2.raw)

theorem raws_erase_sub (s : Store) (addr : String) : (raws (s.erase addr)).Sublist (raws s) :=
  (List.filter_sublist).map _

theorem raws_reload_sub (s : Store) (now : Int) : (raws (s.reload now)).Sublist (raws s) :=
  (List.filter_sublist).map _

theorem lookup_mem {s : Store} {addr : String} {t : Ticket} (h : s.lookup addr = some t) :
    ∃ e ∈ s, e.1 = addr ∧ e.2 = t := by
  unfold Store.lookup at h
  cases hf : s.find? (·.1 == addr) with
  | none => simp [hf] at h
  | some e =>
    simp only [hf, Option.map_some, Option.some.injEq] at h
    exact ⟨e, List.mem_of_find?_eq_some hf, by simpa using List.find?_some hf, h⟩

theorem raw_not_in_erase {s : Store} {addr : String} {t : Ticket} (hn : (raws s).Nodup)
    (h : s.lookup addr = some t) : t.raw ∉ raws (s.erase addr) := by
  obtain ⟨e, he, ha, ht⟩ := lookup_mem h
  have := map_filter_not_mem (fun e : String × Ticket => e.2.raw) (fun e => e.1 != addr) s e hn he (by simp [ha])
  rw [ht] at this
  exact this

theorem raw_mem_of_lookup {s : Store} {addr : String} {t : Ticket} (h : s.lookup addr = some t) :
    t.raw ∈ raws s := by
  obtain ⟨e, he, _, ht⟩ := lookup_mem h
  exact ht ▸ List.mem_map_of_mem (f := fun e : String × Ticket => e.2.raw) he

theorem connect_absent {s : Store} {addr : String} (now : Int) (h : s.lookup addr = none) :
    s.connect addr now = (s, .uniformDH) := by
  simp [Store.connect, Store.getTicket, h]

theorem connect_valid {s : Store} {addr : String} {t : Ticket} (now : Int) (h : s.lookup addr = some t)
    (hv : t.isValid now = true) : s.connect addr now = (s.erase addr, .ticket t) := by
  simp [Store.connect, Store.getTicket, h, hv]

theorem connect_expired {s : Store} {addr : String} {t : Ticket} (now : Int) (h : s.lookup addr = some t)
    (hv : t.isValid now = false) : s.connect addr now = (s.erase addr, .uniformDH) := by
  simp [Store.connect, Store.getTicket, h, hv]

/-- invariant of a history: stored blobs distinct, presented blobs distinct, nothing presented
    is still stored, and nothing stored or presented will be issued again -/
structure HInv (s : Store) (pres future : List Bytes) : Prop where
  nodupS : (raws s).Nodup
  nodupP : pres.Nodup
  disj : ∀ r ∈ pres, r ∉ raws s
  freshS : ∀ r ∈ raws s, r ∉ future
  freshP : ∀ r ∈ pres, r ∉ future

theorem HInv.sub {s s' : Store} {pres future : List Bytes} (h : HInv s pres future)
    (hs : (raws s').Sublist (raws s)) : HInv s' pres future :=
  ⟨h.nodupS.sublist hs, h.nodupP, fun r hr hm => h.disj r hr (hs.subset hm),
   fun r hr => h.freshS r (hs.subset hr), h.freshP⟩

theorem runHist_nodup (ops : List HOp) : ∀ (s : Store) (pres : List Bytes),
    HInv s pres (issuedRaws ops) → (issuedRaws ops).Nodup → (runHist s pres ops).2.Nodup := by
  induction ops with
  | nil => intro s pres h _; exact h.nodupP
  | cons op r ih =>
    intro s pres h hn
    cases op with
    | connect addr now =>
      simp only [issuedRaws] at h hn
      cases hl : s.lookup addr with
      | none =>
        simp only [runHist, connect_absent now hl]
        exact ih s pres h hn
      | some t =>
        cases hv : t.isValid now with
        | false =>
          simp only [runHist, connect_expired now hl hv]
          exact ih _ pres (h.sub (raws_erase_sub s addr)) hn
        | true =>
          simp only [runHist, connect_valid now hl hv]
          have hmem := raw_mem_of_lookup hl
          refine ih _ _ ⟨h.nodupS.sublist (raws_erase_sub s addr), ?_, ?_, ?_, ?_⟩ hn
          · exact List.nodup_cons.mpr ⟨fun hp => h.disj _ hp hmem, h.nodupP⟩
          · intro x hx
            rcases List.mem_cons.mp hx with rfl | hx'
            · exact raw_not_in_erase h.nodupS hl
            · exact fun hm => h.disj x hx' ((raws_erase_sub s addr).subset hm)
          · exact fun x hx => h.freshS x ((raws_erase_sub s addr).subset hx)
          · intro x hx
            rcases List.mem_cons.mp hx with rfl | hx'
            · exact h.freshS _ hmem
            · exact h.freshP x hx'
    | issue addr raw now =>
      simp only [issuedRaws, List.nodup_cons] at h hn
      obtain ⟨hfresh, hn'⟩ := hn
      simp only [runHist]
      have hweak : HInv s pres (issuedRaws r) :=
        ⟨h.nodupS, h.nodupP, h.disj, fun x hx hm => h.freshS x hx (List.mem_cons_of_mem _ hm),
         fun x hx hm => h.freshP x hx (List.mem_cons_of_mem _ hm)⟩
      unfold Store.storeTicket
      split
      · exact ih s pres hweak hn'
      · have hraw : (⟨raw.take ticketKeyLength, raw.drop ticketKeyLength, now⟩ : Ticket).raw = raw := by
          simp [Ticket.raw]
        have hnot : raw ∉ raws s := fun hm => h.freshS raw hm List.mem_cons_self
        have hsub := raws_erase_sub s addr
        refine ih _ pres ⟨?_, h.nodupP, ?_, ?_, hweak.freshP⟩ hn'
        · simp only [raws, List.map_cons, hraw]
          exact List.nodup_cons.mpr ⟨fun hm => hnot (hsub.subset hm), h.nodupS.sublist hsub⟩
        · intro x hx
          simp only [raws, List.map_cons, hraw, List.mem_cons, not_or]
          exact ⟨fun hxe => h.freshP x hx (hxe ▸ List.mem_cons_self), fun hm => h.disj x hx (hsub.subset hm)⟩
        · intro x hx
          simp only [raws, List.map_cons, hraw, List.mem_cons] at hx
          rcases hx with rfl | hx
          · exact hfresh
          · exact hweak.freshS x (hsub.subset hx)
    | restart now =>
      simp only [issuedRaws] at h hn
      simp only [runHist]
      exact ih _ pres (h.sub (raws_reload_sub s now)) hn

/-! ## ticket store with failing checkpoints -/


/-- the issued blobs on disk -/
def fraws (d : Disk) : List Bytes := match d.file with
  | none => []
  | some f => raws f

/-- a list of stored blobs is consistent with what was presented and what is still to be issued -/
structure Good (L pres future : List Bytes) : Prop where
  nodup : L.Nodup
  disj : ∀ r ∈ pres, r ∉ L
  fresh : ∀ r ∈ L, r ∉ future

theorem Good.sub {L L' pres future : List Bytes} (h : Good L pres future) (hs : L'.Sublist L) : Good L' pres future :=
  ⟨h.nodup.sublist hs, fun r hr hm => h.disj r hr (hs.subset hm), fun r hr => h.fresh r (hs.subset hr)⟩

theorem Good.weaken {L pres future : List Bytes} {x : Bytes} (h : Good L pres (x :: future)) : Good L pres future :=
  ⟨h.nodup, h.disj, fun r hr hm => h.fresh r hr (List.mem_cons_of_mem _ hm)⟩

theorem Good.nil (pres future : List Bytes) : Good [] pres future :=
  ⟨List.nodup_nil, fun _ _ h => by simp at h, fun _ h => by simp at h⟩

structure HInvF (d : Disk) (pres future : List Bytes) : Prop where
  mem : Good (raws d.mem) pres future
  file : Good (fraws d) pres future
  nodupP : pres.Nodup
  freshP : ∀ r ∈ pres, r ∉ future

theorem fraws_checkpoint_ok (mem : Store) (d : Disk) : fraws (d.checkpoint mem true) = raws mem := rfl
theorem fraws_checkpoint_fail (mem : Store) (d : Disk) : fraws (d.checkpoint mem false) = fraws d := rfl

theorem fraws_checkpoint (mem : Store) (d : Disk) (w : Bool) {pres future : List Bytes}
    (hm : Good (raws mem) pres future) (hf : Good (fraws d) pres future) :
    Good (fraws (d.checkpoint mem w)) pres future := by
  cases w
  · exact hf
  · exact hm

theorem runHistF_nodup (ops : List HOpF) : ∀ (d : Disk) (pres : List Bytes),
    HInvF d pres (issuedRawsF ops) → (issuedRawsF ops).Nodup → (runHistF d pres ops).2.Nodup := by
  induction ops with
  | nil => intro d pres h _; exact h.nodupP
  | cons op r ih =>
    intro d pres h hn
    cases op with
    | connect addr now w =>
      simp only [issuedRawsF] at h hn
      cases hl : d.mem.lookup addr with
      | none =>
        simp only [runHistF, Disk.connect, hl]
        exact ih d pres h hn
      | some t =>
        have hsub := raws_erase_sub d.mem addr
        have hmem' := h.mem.sub hsub
        cases w with
        | false =>
          simp only [runHistF, Disk.connect, hl, Bool.false_eq_true, not_false_eq_true, ↓reduceIte]
          exact ih _ pres ⟨hmem', h.file, h.nodupP, h.freshP⟩ hn
        | true =>
          cases hv : t.isValid now with
          | false =>
            simp only [runHistF, Disk.connect, hl, hv, not_true_eq_false, Bool.false_eq_true, ↓reduceIte]
            exact ih _ pres ⟨hmem', hmem', h.nodupP, h.freshP⟩ hn
          | true =>
            simp only [runHistF, Disk.connect, hl, hv, not_true_eq_false, ↓reduceIte]
            have hin := raw_mem_of_lookup hl
            have hg : Good (raws (d.mem.erase addr)) (t.raw :: pres) (issuedRawsF r) := by
              refine ⟨hmem'.nodup, ?_, hmem'.fresh⟩
              intro x hx
              rcases List.mem_cons.mp hx with rfl | hx'
              · exact raw_not_in_erase h.mem.nodup hl
              · exact hmem'.disj x hx'
            refine ih _ _ ⟨hg, hg, ?_, ?_⟩ hn
            · exact List.nodup_cons.mpr ⟨fun hp => h.mem.disj _ hp hin, h.nodupP⟩
            · intro x hx
              rcases List.mem_cons.mp hx with rfl | hx'
              · exact h.mem.fresh _ hin
              · exact h.freshP x hx'
    | issue addr raw now w =>
      simp only [issuedRawsF, List.nodup_cons] at h hn
      obtain ⟨hfresh, hn'⟩ := hn
      simp only [runHistF]
      have hP : ∀ x ∈ pres, x ∉ issuedRawsF r := fun x hx hm => h.freshP x hx (List.mem_cons_of_mem _ hm)
      unfold Disk.storeTicket
      split
      · exact ih d pres ⟨h.mem.weaken, h.file.weaken, h.nodupP, hP⟩ hn'
      · have hraw : (⟨raw.take ticketKeyLength, raw.drop ticketKeyLength, now⟩ : Ticket).raw = raw := by
          simp [Ticket.raw]
        have hnot : raw ∉ raws d.mem := fun hm => h.mem.fresh raw hm List.mem_cons_self
        have hsub := raws_erase_sub d.mem addr
        have hg : Good (raws (d.mem.storeTicket addr raw now)) pres (issuedRawsF r) := by
          unfold Store.storeTicket
          rename_i hlen
          rw [if_neg hlen]
          simp only [raws, List.map_cons, hraw]
          refine ⟨List.nodup_cons.mpr ⟨fun hm => hnot (hsub.subset hm), h.mem.nodup.sublist hsub⟩, ?_, ?_⟩
          · intro x hx
            simp only [List.mem_cons, not_or]
            exact ⟨fun hxe => h.freshP x hx (hxe ▸ List.mem_cons_self), fun hm => h.mem.disj x hx (hsub.subset hm)⟩
          · intro x hx
            simp only [List.mem_cons] at hx
            rcases hx with rfl | hx
            · exact hfresh
            · exact h.mem.weaken.fresh x (hsub.subset hx)
        exact ih _ pres ⟨hg, fraws_checkpoint _ d w hg h.file.weaken, h.nodupP, hP⟩ hn'
    | restart now =>
      simp only [issuedRawsF] at h hn
      simp only [runHistF]
      refine ih _ pres ⟨?_, h.file, h.nodupP, h.freshP⟩ hn
      unfold Disk.restart
      cases hf : d.file with
      | none => exact Good.nil _ _
      | some f =>
        have : fraws d = raws f := by simp [fraws, hf]
        simp only
        exact (this ▸ h.file).sub (raws_reload_sub f now)


end O4.SS
