import O4.Lemmas.Obfs4Chunk
import O4.Lemmas.Obfs4Rx
import O4.Lemmas.Obfs4Tx
/-!
# obfs4 data phase: a stream whose first `j` frames are honest and whose next frame is damaged
(core only)

`CryptoOK c` (open ∘ seal = id for *all* packets) and `BoxAuth c (sentFn sent)` cannot hold
together, so the honest round trip is re-proved here under the pointwise hypothesis
`IdealFor c sent` (round trip only for the packets the honest peer actually sealed, plus
authenticity).  The run of the halting machine over `j` honest frames followed by a damaged
one is computed explicitly (`tampered_runs`); every segmentation and every sequence of `Read`
sizes is then related to it through `feedAll_spec` / `sessionUntilErr_spec` and determinism.
-/
set_option autoImplicit false
namespace O4.Obfs4
open O4.Framing O4.Consts.Obfs4

/-- ideal link crypto relative to the packets `sent` the honest peer sealed: boxes are 16 bytes
    longer than the plaintext, the sealed packets open to themselves under their own nonce, and
    nothing else opens (`BoxAuth`) -/
structure IdealFor (c : Crypto) (sent : List Bytes) : Prop where
  seal_len  : ∀ n p, (c.sealB n p).length = p.length + 16
  open_sent : ∀ n p, sentFn sent n = some p → c.openB n (c.sealB n p) = some p
  auth      : BoxAuth c (sentFn sent)

theorem idealCrypto_idealFor (sent : List Bytes) : IdealFor (idealCrypto sent) sent where
  seal_len := by
    intro n p
    simp only [idealCrypto, toySeal, List.length_append, ofNatBE_length]
    omega
  open_sent := by
    intro n p h
    simp only [idealCrypto, h, ↓reduceIte]
  auth := idealCrypto_boxAuth sent

/-- `Framing.decode_one` under pointwise hypotheses on the one box involved -/
theorem decode_one_pt (c : Crypto) (k : Nat) (pkt rest : Bytes)
    (hlen : (c.sealB (k + 1) pkt).length = pkt.length + 16)
    (hopen : c.openB (k + 1) (c.sealB (k + 1) pkt) = some pkt)
    (hp : pkt.length ≤ Consts.Framing.maximumFramePayloadLength) (hk : (k + 1) % ctrLimit ≠ 0) :
    Framing.step c ⟨k, none⟩ (frameOf c k pkt ++ rest)
        = some (⟨k, some (pkt.length + 16, false)⟩, [], 2) ∧
      Framing.step c ⟨k, some (pkt.length + 16, false)⟩ ((frameOf c k pkt ++ rest).drop 2) =
        some (⟨k + 1, none⟩, [Out.frame pkt], pkt.length + 16) ∧
      ((frameOf c k pkt ++ rest).drop 2).drop (pkt.length + 16) = rest := by
  have hm : c.mask k % 65536 < 65536 := Nat.mod_lt _ (by decide)
  have hL : (c.sealB (k + 1) pkt).length < 65536 := by
    simp [Consts.Framing.maximumFramePayloadLength] at hp; omega
  refine ⟨?_, ?_, ?_⟩
  · unfold Framing.step frameOf
    simp only [List.append_assoc]
    rw [be16_putBe16 _ (xor_lt _ _ hL hm), xor_cancel, hlen]
    have : ¬ (putBe16 ((pkt.length + 16) ^^^ (c.mask k % 65536)) ++ (c.sealB (k + 1) pkt ++ rest)).length
        < Consts.Framing.lengthLength := by simp [putBe16_length, Consts.Framing.lengthLength]
    simp only [this, ↓reduceIte, hk]
    have : ¬ (Consts.Framing.maxFrameLength < pkt.length + 16 ∨
        pkt.length + 16 < Consts.Framing.minFrameLength) := by
      simp [Consts.Framing.minFrameLength, Consts.Framing.maxFrameLength,
        Consts.Framing.maximumFramePayloadLength] at *; omega
    simp [this, Consts.Framing.lengthLength]
  · unfold Framing.step frameOf
    simp only [List.append_assoc]
    have hd : (putBe16 ((c.sealB (k + 1) pkt).length ^^^ (c.mask k % 65536)) ++ (c.sealB (k + 1) pkt ++ rest)).drop 2
        = c.sealB (k + 1) pkt ++ rest := by
      simp [putBe16]
    rw [hd]
    have : ¬ (c.sealB (k + 1) pkt ++ rest).length < pkt.length + 16 := by simp [hlen]
    simp only [this, ↓reduceIte]
    have ht : (c.sealB (k + 1) pkt ++ rest).take (pkt.length + 16) = c.sealB (k + 1) pkt := by
      rw [← hlen]; simp
    rw [ht, hopen]
  · unfold frameOf
    simp [putBe16, ← hlen]

/-- a decoder step as a step of the halting machine -/
theorem halt_step_of_step (c : Crypto) (srv : Bool) (s s' : Dec) (b : Bytes) (o : List Out) (n : Nat)
    (h : Framing.step c s b = some (s', o, n)) :
    (haltM c srv).step (s, none) b
      = some ((s', (o.map (liftOut srv)).findSome? isErr), o.map (liftOut srv), n) := by
  simp only [haltM, haltStep, rxStep, h]

/-- the honest round trip as a run of the halting machine, under pointwise hypotheses on the
    boxes of the packets involved, with arbitrary bytes following -/
theorem honest_runs_pt (c : Crypto) (srv : Bool) (pkts : List Bytes) (k : Nat) (rest : Bytes)
    (hbox : ∀ i p, pkts[i]? = some p →
      (c.sealB (k + i + 1) p).length = p.length + 16 ∧
      c.openB (k + i + 1) (c.sealB (k + i + 1) p) = some p)
    (hp : ∀ p ∈ pkts, p.length ≤ Consts.Framing.maximumFramePayloadLength)
    (hwf : ∀ p ∈ pkts, ∀ e, parsePacket srv p ≠ .bad e)
    (hk : k + pkts.length < ctrLimit - 1) :
    (haltM c srv).Runs (⟨k, none⟩, none) (encodeAll c k pkts ++ rest) (honestOuts srv pkts)
      (⟨k + pkts.length, none⟩, none) rest := by
  induction pkts generalizing k with
  | nil => simpa [encodeAll, honestOuts] using Machine.Runs.refl (M := haltM c srv) _ _
  | cons p ps ih =>
    have hk1 : (k + 1) % ctrLimit ≠ 0 := by
      simp only [List.length_cons] at hk
      have : k + 1 < ctrLimit := by omega
      rw [Nat.mod_eq_of_lt this]; omega
    obtain ⟨hl0, ho0⟩ := hbox 0 p rfl
    obtain ⟨h1, h2, h3⟩ := decode_one_pt c k p (encodeAll c (k + 1) ps ++ rest) hl0 ho0
      (hp p (by simp)) hk1
    have hnb : liftOut srv (Out.frame p) = RxOut.act (parsePacket srv p) := by
      have := hwf p (by simp)
      cases hpp : parsePacket srv p with
      | bad e => exact absurd hpp (this e)
      | payload b => simp only [liftOut, hpp]
      | seed b => simp only [liftOut, hpp]
      | ignored => simp only [liftOut, hpp]
    have s1 := halt_step_of_step c srv _ _ _ _ _ h1
    have s2 := halt_step_of_step c srv _ _ _ _ _ h2
    simp only [List.map_nil, List.findSome?_nil] at s1
    simp only [List.map_cons, List.map_nil, hnb, List.findSome?_cons, isErr, List.findSome?_nil] at s2
    have hrec := ih (k + 1)
      (fun i q hq => by
        have := hbox (i + 1) q (by simpa using hq)
        rw [show k + (i + 1) + 1 = k + 1 + i + 1 by omega] at this
        exact this)
      (fun q hq => hp q (by simp [hq])) (fun q hq => hwf q (by simp [hq]))
      (by simp only [List.length_cons] at hk; omega)
    rw [← h3] at hrec
    have := Machine.Runs.step (M := haltM c srv) s1 (Machine.Runs.step (M := haltM c srv) s2 hrec)
    simp only [encodeAll, List.append_assoc]
    rw [show k + (p :: ps).length = k + 1 + ps.length by simp only [List.length_cons]; omega]
    simpa [honestOuts] using this

/-! ## the damaged frame -/

/-- the deobfuscated length field of the frame with index `j` at the head of `tail` -/
def lenField (c : Crypto) (j : Nat) (tail : Bytes) : Nat := be16 tail ^^^ (c.mask j % 65536)

/-- "the frame with index `j`, at the head of `tail`, is completely received and not the honest
    one": its length field is out of range and the random replacement length worth of bytes is
    present; or the length is in range, that many bytes are present, and they are not the honest
    box of nonce `j+1` (bit flips, deleted / duplicated / reordered / replayed / forged frames,
    anything after the last sealed frame) -/
def BadFirstFrame (c : Crypto) (sent : List Bytes) (j : Nat) (tail : Bytes) : Prop :=
  Consts.Framing.lengthLength ≤ tail.length ∧
  (((Consts.Framing.maxFrameLength < lenField c j tail ∨ lenField c j tail < Consts.Framing.minFrameLength) ∧
      c.rnd j + Consts.Framing.lengthLength ≤ tail.length) ∨
   (¬ (Consts.Framing.maxFrameLength < lenField c j tail ∨ lenField c j tail < Consts.Framing.minFrameLength) ∧
      lenField c j tail + Consts.Framing.lengthLength ≤ tail.length ∧
      ∀ pkt, sent[j]? = some pkt →
        (tail.drop Consts.Framing.lengthLength).take (lenField c j tail) ≠ c.sealB (j + 1) pkt))

instance decForallSome {α : Type} (o : Option α) (P : α → Prop) [∀ a, Decidable (P a)] :
    Decidable (∀ a, o = some a → P a) :=
  match o with
  | none => isTrue (by intro a h; cases h)
  | some a =>
    if h : P a then isTrue (by intro b hb; cases hb; exact h)
    else isFalse (fun H => h (H a rfl))

instance (c : Crypto) (sent : List Bytes) (j : Nat) (tail : Bytes) :
    Decidable (BadFirstFrame c sent j tail) := by
  unfold BadFirstFrame; exact inferInstance

/-- the decoder's pending state after the length phase of the damaged frame -/
def badPending (c : Crypto) (j : Nat) (tail : Bytes) : Nat × Bool :=
  if Consts.Framing.maxFrameLength < lenField c j tail ∨ lenField c j tail < Consts.Framing.minFrameLength
  then (c.rnd j, true) else (lenField c j tail, false)

/-- length phase, then box phase, of the damaged frame: `tagMismatch`, decoder stays at `j` -/
theorem bad_frame_runs (c : Crypto) (sent : List Bytes) (ha : BoxAuth c (sentFn sent)) (srv : Bool)
    (j : Nat) (hj : (j + 1) % ctrLimit ≠ 0) (tail : Bytes) (hbad : BadFirstFrame c sent j tail) :
    (haltM c srv).Runs (⟨j, none⟩, none) tail [RxOut.err (.frame .tagMismatch)]
      (⟨j, some (badPending c j tail)⟩, some (.frame .tagMismatch))
      ((tail.drop Consts.Framing.lengthLength).drop (badPending c j tail).1) := by
  obtain ⟨h2, hcase⟩ := hbad
  -- length phase
  have hs1 : Framing.step c ⟨j, none⟩ tail
      = some (⟨j, some (badPending c j tail)⟩, [], Consts.Framing.lengthLength) := by
    unfold Framing.step
    simp only
    rw [if_neg (by omega), if_neg hj]
    unfold badPending lenField
    split <;> rfl
  -- box phase
  have hs2 : Framing.step c ⟨j, some (badPending c j tail)⟩ (tail.drop Consts.Framing.lengthLength)
      = some (⟨j, some (badPending c j tail)⟩, [Out.err .tagMismatch], (badPending c j tail).1) := by
    rcases hcase with ⟨hr, hl⟩ | ⟨hr, hl, hne⟩
    · have hb : badPending c j tail = (c.rnd j, true) := by simp only [badPending, if_pos hr]
      rw [hb]
      exact bad_box_errors c (sentFn sent) ha ⟨j, some (c.rnd j, true)⟩ (c.rnd j) true _ rfl
        (by simp only [List.length_drop]; omega) (Or.inl rfl)
    · have hb : badPending c j tail = (lenField c j tail, false) := by simp only [badPending, if_neg hr]
      rw [hb]
      refine bad_box_errors c (sentFn sent) ha ⟨j, some (lenField c j tail, false)⟩ (lenField c j tail)
        false _ rfl (by simp only [List.length_drop]; omega) (Or.inr ?_)
      intro pkt hpkt
      rw [sentFn_succ] at hpkt
      exact hne pkt hpkt
  have s1 := halt_step_of_step c srv _ _ _ _ _ hs1
  have s2 := halt_step_of_step c srv _ _ _ _ _ hs2
  simp only [List.map_nil, List.findSome?_nil] at s1
  simp only [List.map_cons, List.map_nil, liftOut, List.findSome?_cons, isErr] at s2
  have := Machine.Runs.step (M := haltM c srv) s1
    (Machine.Runs.step (M := haltM c srv) s2 (Machine.Runs.refl _ _))
  simpa using this

/-- **the run over `j` honest frames followed by a damaged one**: the packets of the `j` frames,
    then `tagMismatch`; it ends (quiescent, because of the error) with the frame counter at `j` -/
theorem tampered_runs (c : Crypto) (sent : List Bytes) (hi : IdealFor c sent) (srv : Bool)
    (hp : ∀ p ∈ sent, p.length ≤ Consts.Framing.maximumFramePayloadLength)
    (hn : sent.length < ctrLimit - 1) (j : Nat) (hj : j ≤ sent.length)
    (hwf : ∀ p ∈ sent.take j, ∀ e, parsePacket srv p ≠ .bad e)
    (tail : Bytes) (hbad : BadFirstFrame c sent j tail) :
    (haltM c srv).Runs (Dec.init, none) (encodeAll c 0 (sent.take j) ++ tail)
      (honestOuts srv (sent.take j) ++ [RxOut.err (.frame .tagMismatch)])
      (⟨j, some (badPending c j tail)⟩, some (.frame .tagMismatch))
      ((tail.drop Consts.Framing.lengthLength).drop (badPending c j tail).1) := by
  have hlen : (sent.take j).length = j := by simp only [List.length_take]; omega
  have h1 := honest_runs_pt c srv (sent.take j) 0 tail
    (fun i p hip => by
      have hs : sent[i]? = some p := by
        rw [List.getElem?_take] at hip
        split at hip
        · exact hip
        · cases hip
      refine ⟨hi.seal_len _ _, hi.open_sent _ _ ?_⟩
      rw [show 0 + i + 1 = i + 1 by omega, sentFn_succ]
      exact hs)
    (fun p hpm => hp p (List.mem_of_mem_take hpm)) hwf (by rw [hlen]; omega)
  rw [hlen, Nat.zero_add] at h1
  have hj1 : (j + 1) % ctrLimit ≠ 0 := by
    have : j + 1 < ctrLimit := by omega
    rw [Nat.mod_eq_of_lt this]; omega
  exact h1.trans _ (bad_frame_runs c sent hi.auth srv j hj1 tail hbad)

theorem decodedOf_tampered (srv : Bool) (pkts : List Bytes) (e : RxErr) :
    decodedOf (honestOuts srv pkts ++ [RxOut.err e]) = pkts.flatMap (payloadOf srv) := by
  rw [decodedOf_append, decodedOf_honestOuts]
  simp [decodedOf]

/-- every segmentation of such a stream, fed without draining -/
theorem tampered_feed (c : Crypto) (sent : List Bytes) (hi : IdealFor c sent) (srv : Bool)
    (hp : ∀ p ∈ sent, p.length ≤ Consts.Framing.maximumFramePayloadLength)
    (hn : sent.length < ctrLimit - 1) (j : Nat) (hj : j ≤ sent.length)
    (hwf : ∀ p ∈ sent.take j, ∀ e, parsePacket srv p ≠ .bad e)
    (tail : Bytes) (hbad : BadFirstFrame c sent j tail)
    (cs : List Bytes) (hcs : cs.flatten = encodeAll c 0 (sent.take j) ++ tail) :
    ∃ rx, feedAll c srv Rx.init cs = (rx, some (.frame .tagMismatch)) ∧
      rx.dec = ⟨j, some (badPending c j tail)⟩ ∧
      rx.decoded = (sent.take j).flatMap (payloadOf srv) ∧
      rx.seeds = seedsOf (honestOuts srv (sent.take j)) := by
  have hT := tampered_runs c sent hi srv hp hn j hj hwf tail hbad
  cases hf : feedAll c srv Rx.init cs with
  | mk rx e =>
    obtain ⟨outs, rest, hr, hq, _, hd, hsd⟩ :=
      feedAll_spec c srv Rx.init cs rx e (Or.inl (settled_init c srv)) hf
    rw [show Rx.init.rxBuf ++ cs.flatten = encodeAll c 0 (sent.take j) ++ tail from hcs] at hr
    obtain ⟨ho, hst, _⟩ := Machine.Runs.det _ hr hq hT (halt_quiescent_err c srv _ _ _)
    simp only [Prod.mk.injEq] at hst
    obtain ⟨hdec, rfl⟩ := hst
    refine ⟨rx, rfl, hdec, ?_, ?_⟩
    · rw [hd, ho, decodedOf_tampered]; rfl
    · rw [hsd, ho, seedsOf_append]; simp [seedsOf, Rx.init]

/-- every segmentation and every sequence of `Read` sizes -/
theorem tampered_session (c : Crypto) (sent : List Bytes) (hi : IdealFor c sent) (srv : Bool)
    (hp : ∀ p ∈ sent, p.length ≤ Consts.Framing.maximumFramePayloadLength)
    (hn : sent.length < ctrLimit - 1) (j : Nat) (hj : j ≤ sent.length)
    (hwf : ∀ p ∈ sent.take j, ∀ e, parsePacket srv p ≠ .bad e)
    (tail : Bytes) (hbad : BadFirstFrame c sent j tail)
    (cs : List Bytes) (hcs : cs.flatten = encodeAll c 0 (sent.take j) ++ tail) (ns : List Nat)
    (d : Bytes) (e : Option RxErr) (rxf : Rx) (bl : Bool)
    (h : sessionUntilErr c srv ns Rx.init (cs.map NetEv.data) = (d, e, rxf, bl)) :
    (d ++ rxf.decoded) <+: (sent.take j).flatMap (payloadOf srv) ∧ bl = false ∧
      (e = none ∨ e = some (.frame .tagMismatch)) ∧
      (e.isSome → d ++ rxf.decoded = (sent.take j).flatMap (payloadOf srv) ∧ rxf.dec.k = j) := by
  have hT := tampered_runs c sent hi srv hp hn j hj hwf tail hbad
  have hqT := halt_quiescent_err c srv ⟨j, some (badPending c j tail)⟩ (.frame .tagMismatch)
    ((tail.drop Consts.Framing.lengthLength).drop (badPending c j tail).1)
  obtain ⟨outs, rest, hr, hd, _, hq, hb⟩ :=
    sessionUntilErr_spec c srv ns Rx.init cs d e rxf bl (settled_init c srv) h
  rw [show Rx.init.rxBuf ++ cs.flatten = encodeAll c 0 (sent.take j) ++ tail from hcs] at hr
  simp only [Rx.init, List.nil_append] at hd
  obtain ⟨o3, hr3, ho3⟩ := Machine.Runs.prefix_of_quiescent _ hr hT hqT
  have hpre : (d ++ rxf.decoded) <+: (sent.take j).flatMap (payloadOf srv) := by
    rw [← hd, ← decodedOf_tampered srv (sent.take j) (.frame .tagMismatch), ho3, decodedOf_append]
    exact List.prefix_append _ _
  -- a complete session sits in the end point of the tampered run
  have hcomplete : (bl = true ∨ e.isSome) →
      e = some (.frame .tagMismatch) ∧ outs = honestOuts srv (sent.take j) ++ [RxOut.err (.frame .tagMismatch)] ∧
        rxf.dec.k = j := by
    intro hc
    obtain ⟨ho, hst, _⟩ := Machine.Runs.det _ hr (hq hc) hT hqT
    simp only [Prod.mk.injEq] at hst
    exact ⟨hst.2, ho, by rw [hst.1]⟩
  have hbl : bl = false := by
    cases hbl : bl with
    | false => rfl
    | true =>
      have h1 := (hb hbl).1
      have h2 := (hcomplete (Or.inl hbl)).1
      rw [h1] at h2; cases h2
  refine ⟨hpre, hbl, ?_, ?_⟩
  · cases he : e with
    | none => exact Or.inl rfl
    | some e1 =>
      have := (hcomplete (Or.inr (by rw [he]; rfl))).1
      rw [he] at this
      exact Or.inr this
  · intro he
    obtain ⟨_, ho, hk⟩ := hcomplete (Or.inr he)
    refine ⟨?_, hk⟩
    rw [← hd, ho, decodedOf_tampered]

end O4.Obfs4
