import O4.Lemmas.ProbDist
import Mathlib.Algebra.BigOperators.Group.Finset.Basic
import Mathlib.Algebra.BigOperators.Ring.Finset
import Mathlib.Algebra.Order.BigOperators.Group.Finset
import Mathlib.Algebra.Order.Field.Basic
import Mathlib.Tactic.Ring
import Mathlib.Tactic.Linarith
import Mathlib.Tactic.FieldSimp
import Mathlib.Tactic.Tauto
/-!
# Exactness of the alias tables over a linear ordered field (C12 `alias_exact`)

`genTables` is run with exact field arithmetic (`fieldOps K`).  The loop invariant `Inv` says:
the work lists are duplicate-free and hold valid indices; entries of `small` have scaled
probability in `[0, 1)`, entries of `large` at least `1`; and for every index `i` the mass

  `T i = (scaled i if i is still pending, else prob i) + Σ_{j finalised, ali j = i} (1 - prob j)`

equals the initial scaled probability `w_i · n / Σw`.  One iteration moves mass `1 - p_l` from
`g` to the finalised column `l` and preserves `T` (`inv_iter`).  Summing `T` over all indices
shows that at loop exit every pending entry has scaled probability exactly `1` — in particular
no "small" leftovers exist — so the clean-up loops (`prob := 1`) keep the masses.
-/
namespace O4.ProbDist
open Finset O4.GoRand

variable {K : Type} [Field K] [LinearOrder K] [IsStrictOrderedRing K]

/-- exact arithmetic in a linear ordered field -/
def fieldOps (K : Type) [Field K] [LinearOrder K] : NumOps K where
  zero := 0
  one := 1
  ofNat n := (n : K)
  add a b := a + b
  sub a b := a - b
  mul a b := a * b
  div a b := a / b
  lt a b := decide (a < b)
  le a b := decide (a ≤ b)
  unit v := (v : K) / 2 ^ 63
  isOne x := decide (x = 1)

/-- still on a work list -/
def Pend (s : VState K) (i : ℕ) : Prop := i ∈ s.small ∨ i ∈ s.large

instance (s : VState K) : DecidablePred (Pend s) := fun i => by unfold Pend; infer_instance

/-- mass (times `n`) attributed to index `i` by the partially built tables -/
def T (n : ℕ) (s : VState K) (i : ℕ) : K :=
  (if Pend s i then s.scaled i else s.prob i) +
    ∑ j ∈ range n, if ¬ Pend s j ∧ s.ali j = i then 1 - s.prob j else 0

structure Inv (n : ℕ) (c : ℕ → K) (s : VState K) : Prop where
  nodup : (s.small ++ s.large).Nodup
  lt : ∀ i, Pend s i → i < n
  small : ∀ i ∈ s.small, 0 ≤ s.scaled i ∧ s.scaled i < 1
  large : ∀ i ∈ s.large, 1 ≤ s.scaled i
  mass : ∀ i, T n s i = c i
  unit : ∀ j, ¬ Pend s j → 0 ≤ s.prob j ∧ s.prob j ≤ 1
  ali : ∀ j, s.ali j < n

theorem inv_iter (n : ℕ) (c : ℕ → K) (s : VState K) (l g : ℕ) (sm lg : List ℕ)
    (hs : s.small = l :: sm) (hl : s.large = g :: lg) (h : Inv n c s) :
    Inv n c (voseIter (fieldOps K) s l g sm lg) := by
  have hnd := h.nodup
  rw [hs, hl] at hnd
  have hnd0 : (sm ++ g :: lg).Nodup := (List.nodup_cons.mp (by simpa using hnd)).2
  simp only [List.cons_append, List.nodup_cons, List.mem_append, List.mem_cons, not_or,
    List.nodup_append, ne_eq] at hnd
  obtain ⟨⟨hlsm, hlg, hllg⟩, hsmnd, ⟨hglg, hlgnd⟩, hdisj⟩ := hnd
  have hgsm : g ∉ sm := fun hm => hdisj g hm g (Or.inl rfl) rfl
  have hsmlg : ∀ a ∈ sm, a ∉ lg := fun a ha hb => hdisj a ha a (Or.inr hb) rfl
  have hpl : Pend s l := Or.inl (by simp [hs])
  have hpg : Pend s g := Or.inr (by simp [hl])
  have hln : l < n := h.lt l hpl
  have hgn : g < n := h.lt g hpg
  have hsl := h.small l (by simp [hs])
  have hsg := h.large g (by simp [hl])
  have hpend : ∀ j, Pend s j ↔ (j = l ∨ j ∈ sm ∨ j = g ∨ j ∈ lg) := by
    intro j; unfold Pend; rw [hs, hl]; simp only [List.mem_cons]; tauto
  set sg : K := s.scaled g + s.scaled l - 1 with hsgdef
  have hsmallEq : (voseIter (fieldOps K) s l g sm lg).small = if sg < 1 then sm ++ [g] else sm := by
    unfold voseIter; simp [fieldOps, hsgdef]
  have hlargeEq : (voseIter (fieldOps K) s l g sm lg).large = if sg < 1 then lg else lg ++ [g] := by
    unfold voseIter; simp [fieldOps, hsgdef]
  have hpend' : ∀ j, Pend (voseIter (fieldOps K) s l g sm lg) j ↔ (j ∈ sm ∨ j = g ∨ j ∈ lg) := by
    intro j
    unfold Pend
    rw [hsmallEq, hlargeEq]
    by_cases hc : sg < 1
    · simp only [if_pos hc, List.mem_append, List.mem_singleton]; tauto
    · simp only [if_neg hc, List.mem_append, List.mem_singleton]; tauto
  have hpend'' : ∀ j, Pend (voseIter (fieldOps K) s l g sm lg) j ↔ (Pend s j ∧ j ≠ l) := by
    intro j
    rw [hpend', hpend]
    constructor
    · rintro (hj | hj | hj)
      · exact ⟨Or.inr (Or.inl hj), fun e => hlsm (e ▸ hj)⟩
      · exact ⟨Or.inr (Or.inr (Or.inl hj)), fun e => hlg (e.symm.trans hj)⟩
      · exact ⟨Or.inr (Or.inr (Or.inr hj)), fun e => hllg (e ▸ hj)⟩
    · rintro ⟨hj | hj | hj | hj, hne⟩
      · exact absurd hj hne
      · exact Or.inl hj
      · exact Or.inr (Or.inl hj)
      · exact Or.inr (Or.inr hj)
  have hscaled : (voseIter (fieldOps K) s l g sm lg).scaled = upd s.scaled g sg := rfl
  have hprob : (voseIter (fieldOps K) s l g sm lg).prob = upd s.prob l (s.scaled l) := rfl
  have hali : (voseIter (fieldOps K) s l g sm lg).ali = upd s.ali l g := rfl
  have hsmall' : ∀ i, i ∈ (voseIter (fieldOps K) s l g sm lg).small ↔ (i ∈ sm ∨ (i = g ∧ sg < 1)) := by
    intro i
    rw [hsmallEq]
    by_cases hc : sg < 1
    · simp [hc]
    · simp [hc]
  have hlarge' : ∀ i, i ∈ (voseIter (fieldOps K) s l g sm lg).large ↔ (i ∈ lg ∨ (i = g ∧ ¬ sg < 1)) := by
    intro i
    rw [hlargeEq]
    by_cases hc : sg < 1
    · simp [hc]
    · simp [hc]
  refine ⟨?_, ?_, ?_, ?_, ?_, ?_, ?_⟩
  · -- nodup
    rw [hsmallEq, hlargeEq]
    by_cases hc : sg < 1
    · simp only [if_pos hc, List.append_assoc, List.singleton_append]
      exact hnd0
    · simp only [if_neg hc]
      have hp : (sm ++ (lg ++ [g])).Perm (sm ++ g :: lg) :=
        List.Perm.append_left sm (List.perm_append_comm (l₁ := lg) (l₂ := [g]))
      exact hp.nodup_iff.mpr hnd0
  · -- lt
    intro i hi
    exact h.lt i ((hpend'' i).mp hi).1
  · -- small
    intro i hi
    rw [hscaled]
    rcases (hsmall' i).mp hi with hi | ⟨rfl, hlt⟩
    · have hne : i ≠ g := fun e => hgsm (e ▸ hi)
      simp only [upd, hne, if_false]
      exact h.small i (by simp [hs, hi])
    · simp only [upd, if_true]
      refine ⟨?_, hlt⟩
      rw [hsgdef]; linarith [hsl.1]
  · -- large
    intro i hi
    rw [hscaled]
    rcases (hlarge' i).mp hi with hi | ⟨rfl, hge⟩
    · have hne : i ≠ g := fun e => hglg (e ▸ hi)
      simp only [upd, hne, if_false]
      exact h.large i (by simp [hl, hi])
    · simp only [upd, if_true]
      exact not_lt.mp hge
  · -- mass
    intro i
    rw [← h.mass i]
    unfold T
    have hsum : (∑ j ∈ range n, if ¬ Pend (voseIter (fieldOps K) s l g sm lg) j ∧
          (voseIter (fieldOps K) s l g sm lg).ali j = i
          then 1 - (voseIter (fieldOps K) s l g sm lg).prob j else 0)
        = (∑ j ∈ range n, if ¬ Pend s j ∧ s.ali j = i then 1 - s.prob j else 0)
          + (if g = i then 1 - s.scaled l else 0) := by
      have : (if g = i then 1 - s.scaled l else (0 : K))
          = ∑ j ∈ range n, if j = l then (if g = i then 1 - s.scaled l else 0) else 0 := by
        rw [Finset.sum_ite_eq' (range n) l (fun _ => if g = i then 1 - s.scaled l else (0 : K))]
        simp [hln]
      rw [this, ← Finset.sum_add_distrib]
      apply Finset.sum_congr rfl
      intro j _
      rw [hali, hprob]
      by_cases hjl : j = l
      · subst hjl
        have h1 : ¬ Pend (voseIter (fieldOps K) s j g sm lg) j := fun hp => ((hpend'' j).mp hp).2 rfl
        simp [upd, h1, hpl]
      · have h1 : Pend (voseIter (fieldOps K) s l g sm lg) j ↔ Pend s j := by
          rw [hpend'']; exact ⟨fun x => x.1, fun x => ⟨x, hjl⟩⟩
        simp [upd, hjl, h1]
    rw [hsum, hscaled, hprob]
    by_cases hil : i = l
    · subst hil
      have h1 : ¬ Pend (voseIter (fieldOps K) s i g sm lg) i := fun hp => ((hpend'' i).mp hp).2 rfl
      have hgi : ¬ g = i := fun e => hlg e.symm
      simp [upd, h1, hpl, hgi]
    · by_cases hig : i = g
      · subst hig
        have h1 : Pend (voseIter (fieldOps K) s l i sm lg) i := (hpend'' i).mpr ⟨hpg, hil⟩
        simp only [upd, h1, hpg, if_true]
        rw [hsgdef]; ring
      · have h1 : Pend (voseIter (fieldOps K) s l g sm lg) i ↔ Pend s i := by
          rw [hpend'']; exact ⟨fun x => x.1, fun x => ⟨x, hil⟩⟩
        have hgi : ¬ g = i := fun e => hig e.symm
        simp [upd, hil, hig, hgi, h1]
  · -- unit
    intro j hj
    rw [hprob]
    by_cases hjl : j = l
    · subst hjl
      simp only [upd, if_true]
      exact ⟨hsl.1, hsl.2.le⟩
    · simp only [upd, hjl, if_false]
      apply h.unit
      intro hp
      exact hj ((hpend'' j).mpr ⟨hp, hjl⟩)
  · -- ali
    intro j
    rw [hali]
    unfold upd
    split
    · exact hgn
    · exact h.ali j

theorem inv_loop (n : ℕ) (c : ℕ → K) : ∀ (f : ℕ) (s : VState K), Inv n c s →
    Inv n c (voseLoop (fieldOps K) f s) := by
  intro f
  induction f with
  | zero => intro s h; exact h
  | succ f ih =>
    intro s h
    unfold voseLoop
    split
    · rename_i l sm g lg hs hl
      exact ih _ (inv_iter n c s l g sm lg hs hl h)
    · exact h

/-- with enough fuel the loop stops because a work list ran empty -/
theorem loop_exit : ∀ (f : ℕ) (s : VState K), s.small.length + s.large.length ≤ f + 1 →
    (voseLoop (fieldOps K) f s).small = [] ∨ (voseLoop (fieldOps K) f s).large = [] ∨
      (voseLoop (fieldOps K) f s).small.length + (voseLoop (fieldOps K) f s).large.length ≤ 1 := by
  intro f
  induction f with
  | zero => intro s h; right; right; simpa [voseLoop] using h
  | succ f ih =>
    intro s h
    unfold voseLoop
    split
    · rename_i l sm g lg hs hl
      apply ih
      rw [hs, hl] at h
      simp only [List.length_cons] at h
      unfold voseIter
      simp only
      split <;> simp <;> omega
    · rename_i hno
      cases hsm : s.small with
      | nil => left; rfl
      | cons a as =>
        cases hlg : s.large with
        | nil => right; left; rfl
        | cons b bs => exact absurd hlg (hno a as b bs hsm)

theorem loop_exit' (f : ℕ) (s : VState K) (h : s.small.length + s.large.length ≤ f + 1) :
    (voseLoop (fieldOps K) f s).small = [] ∨ (voseLoop (fieldOps K) f s).large = [] := by
  rcases loop_exit f s h with h1 | h1 | h1
  · exact Or.inl h1
  · exact Or.inr h1
  · cases hsm : (voseLoop (fieldOps K) f s).small with
    | nil => exact Or.inl rfl
    | cons a as =>
      cases hlg : (voseLoop (fieldOps K) f s).large with
      | nil => exact Or.inr rfl
      | cons b bs => rw [hsm, hlg] at h1; simp only [List.length_cons] at h1; omega


/-! ### initial state -/

/-- the initial scaled probability `w_i · n / Σw` (zero beyond the table) -/
def c0 (w : List K) (i : ℕ) : K := w.getD i 0 * (w.length : K) / w.sum

theorem voseInit_scaled (w : List K) : (voseInit (fieldOps K) w).scaled = c0 w := by
  funext i
  have hsum : w.foldl (fieldOps K).add (fieldOps K).zero = w.sum := by
    simp [fieldOps, List.sum_eq_foldl]
  unfold voseInit c0
  simp only [hsum]
  simp only [fieldOps, List.getD_eq_getElem?_getD, List.getElem?_map]
  cases w[i]? <;> simp

theorem sum_range_getD (w : List K) : ∑ i ∈ range w.length, w.getD i 0 = w.sum := by
  induction w with
  | nil => simp
  | cons x xs ih =>
    rw [List.length_cons, Finset.sum_range_succ', List.sum_cons]
    simp only [List.getD_cons_succ, List.getD_cons_zero]
    rw [ih, add_comm]

theorem sum_c0 (w : List K) (hS : 0 < w.sum) : ∑ i ∈ range w.length, c0 w i = (w.length : K) := by
  unfold c0
  have h1 : ∀ i ∈ range w.length, w.getD i 0 * (w.length : K) / w.sum
      = w.getD i 0 * ((w.length : K) / w.sum) := fun i _ => by rw [mul_div_assoc]
  rw [Finset.sum_congr rfl h1, ← Finset.sum_mul, sum_range_getD]
  field_simp

theorem c0_nonneg (w : List K) (hw : ∀ x ∈ w, 0 ≤ x) (hS : 0 < w.sum) (i : ℕ) : 0 ≤ c0 w i := by
  unfold c0
  apply div_nonneg _ hS.le
  apply mul_nonneg _ (Nat.cast_nonneg _)
  rw [List.getD_eq_getElem?_getD]
  cases h : w[i]? with
  | none => simp
  | some x => simpa using hw x (List.mem_of_getElem? h)

theorem pend_init (w : List K) (j : ℕ) : Pend (voseInit (fieldOps K) w) j ↔ j < w.length := by
  unfold Pend voseInit
  simp only [List.mem_filter, List.mem_range]
  constructor
  · rintro (h | h) <;> exact h.1
  · intro h
    by_cases hc : (fieldOps K).lt ((List.map (fun x => (fieldOps K).div ((fieldOps K).mul x ((fieldOps K).ofNat w.length))
        (List.foldl (fieldOps K).add (fieldOps K).zero w)) w).getD j (fieldOps K).zero) (fieldOps K).one = true
    · exact Or.inl ⟨h, hc⟩
    · exact Or.inr ⟨h, by simpa using hc⟩

theorem inv_init (w : List K) (hn : 0 < w.length) (hw : ∀ x ∈ w, 0 ≤ x) (hS : 0 < w.sum) :
    Inv w.length (c0 w) (voseInit (fieldOps K) w) := by
  have hsc := voseInit_scaled w
  refine ⟨?_, ?_, ?_, ?_, ?_, ?_, ?_⟩
  · -- nodup
    unfold voseInit
    simp only
    rw [List.nodup_append]
    refine ⟨List.Nodup.filter _ List.nodup_range, List.Nodup.filter _ List.nodup_range, ?_⟩
    intro a ha b hb hab
    subst hab
    simp only [List.mem_filter] at ha hb
    have h1 := ha.2
    have h2 := hb.2
    rw [h1] at h2
    simp at h2
  · intro i hi; exact (pend_init w i).mp hi
  · -- small
    intro i hi
    have hi' : i ∈ (List.range w.length).filter
        (fun i => (fieldOps K).lt ((voseInit (fieldOps K) w).scaled i) (fieldOps K).one) := hi
    simp only [List.mem_filter] at hi'
    refine ⟨by rw [hsc]; exact c0_nonneg w hw hS i, ?_⟩
    simpa [fieldOps] using hi'.2
  · -- large
    intro i hi
    have hi' : i ∈ (List.range w.length).filter
        (fun i => !(fieldOps K).lt ((voseInit (fieldOps K) w).scaled i) (fieldOps K).one) := hi
    simp only [List.mem_filter] at hi'
    have := hi'.2
    simpa [fieldOps] using this
  · -- mass
    intro i
    unfold T
    have hz : (∑ j ∈ range w.length, if ¬ Pend (voseInit (fieldOps K) w) j ∧ (voseInit (fieldOps K) w).ali j = i
        then 1 - (voseInit (fieldOps K) w).prob j else 0) = 0 := by
      apply Finset.sum_eq_zero
      intro j hj
      have : Pend (voseInit (fieldOps K) w) j := (pend_init w j).mpr (Finset.mem_range.mp hj)
      simp [this]
    rw [hz, add_zero]
    by_cases hi : i < w.length
    · rw [if_pos ((pend_init w i).mpr hi), hsc]
    · rw [if_neg (fun hp => hi ((pend_init w i).mp hp))]
      have : (voseInit (fieldOps K) w).prob i = 0 := rfl
      rw [this]
      unfold c0
      have : w.getD i 0 = 0 := by
        rw [List.getD_eq_getElem?_getD, List.getElem?_eq_none (by omega)]; rfl
      rw [this]; simp
  · intro j _
    have : (voseInit (fieldOps K) w).prob j = 0 := rfl
    rw [this]; exact ⟨le_refl _, zero_le_one⟩
  · intro j; exact hn

/-! ### loop exit: every pending entry has scaled probability exactly 1 -/

theorem sum_T (n : ℕ) (c : ℕ → K) (s : VState K) (h : Inv n c s) :
    ∑ i ∈ range n, T n s i = ∑ i ∈ range n, if Pend s i then s.scaled i else 1 := by
  unfold T
  rw [Finset.sum_add_distrib, Finset.sum_comm]
  have hinner : ∀ j ∈ range n, (∑ i ∈ range n, if ¬ Pend s j ∧ s.ali j = i then 1 - s.prob j else 0)
      = if ¬ Pend s j then 1 - s.prob j else 0 := by
    intro j _
    by_cases hp : Pend s j
    · simp [hp]
    · simp only [hp, not_false_eq_true, true_and, if_true]
      rw [Finset.sum_ite_eq (range n) (s.ali j) (fun _ => 1 - s.prob j)]
      simp [h.ali j]
  rw [Finset.sum_congr rfl hinner, ← Finset.sum_add_distrib]
  apply Finset.sum_congr rfl
  intro i _
  by_cases hp : Pend s i <;> simp [hp]

theorem exit_scaled_one (n : ℕ) (c : ℕ → K) (s : VState K) (h : Inv n c s)
    (hc : ∑ i ∈ range n, c i = (n : K)) (hex : s.small = [] ∨ s.large = []) :
    ∀ i, Pend s i → s.scaled i = 1 := by
  have h0 : ∑ i ∈ range n, (if Pend s i then s.scaled i - 1 else 0) = 0 := by
    have h1 := sum_T n c s h
    rw [Finset.sum_congr rfl (fun i _ => h.mass i), hc] at h1
    have h2 : ∑ i ∈ range n, (if Pend s i then s.scaled i - 1 else 0)
        = (∑ i ∈ range n, if Pend s i then s.scaled i else 1) - ∑ i ∈ range n, (1 : K) := by
      rw [← Finset.sum_sub_distrib]
      apply Finset.sum_congr rfl
      intro i _
      by_cases hp : Pend s i <;> simp [hp]
    rw [h2, ← h1]; simp
  intro i hi
  have hin : i ∈ range n := Finset.mem_range.mpr (h.lt i hi)
  rcases hex with hex | hex
  · -- only `large` entries are pending: all terms are non-negative
    have hnn : ∀ j ∈ range n, 0 ≤ (if Pend s j then s.scaled j - 1 else 0) := by
      intro j _
      by_cases hp : Pend s j
      · rw [if_pos hp]
        rcases hp with hp | hp
        · rw [hex] at hp; simp at hp
        · linarith [h.large j hp]
      · rw [if_neg hp]
    have := (Finset.sum_eq_zero_iff_of_nonneg hnn).mp h0 i hin
    rw [if_pos hi] at this
    linarith
  · -- only `small` entries are pending: all terms are non-positive
    have hnp : ∀ j ∈ range n, (if Pend s j then s.scaled j - 1 else 0) ≤ 0 := by
      intro j _
      by_cases hp : Pend s j
      · rw [if_pos hp]
        rcases hp with hp | hp
        · linarith [(h.small j hp).2]
        · rw [hex] at hp; simp at hp
      · rw [if_neg hp]
    have := (Finset.sum_eq_zero_iff_of_nonpos hnp).mp h0 i hin
    rw [if_pos hi] at this
    linarith

/-- **no "small" leftovers**: in exact arithmetic the third loop of `genTables` never runs -/
theorem exit_small_nil (n : ℕ) (c : ℕ → K) (s : VState K) (h : Inv n c s)
    (hc : ∑ i ∈ range n, c i = (n : K)) (hex : s.small = [] ∨ s.large = []) : s.small = [] := by
  cases hsm : s.small with
  | nil => rfl
  | cons a as =>
    have ha : a ∈ s.small := by simp [hsm]
    have h1 := exit_scaled_one n c s h hc hex a (Or.inl ha)
    have h2 := (h.small a ha).2
    rw [h1] at h2
    exact absurd h2 (lt_irrefl _)

/-! ### the finished tables -/

theorem finish_mass (n : ℕ) (c : ℕ → K) (s : VState K) (h : Inv n c s)
    (hone : ∀ i, Pend s i → s.scaled i = 1) (i : ℕ) :
    (voseFinish (fieldOps K) s).prob i +
      (∑ j ∈ range n, if (voseFinish (fieldOps K) s).ali j = i
        then 1 - (voseFinish (fieldOps K) s).prob j else 0) = c i := by
  have hprob : ∀ j, (voseFinish (fieldOps K) s).prob j = if Pend s j then 1 else s.prob j := by
    intro j
    unfold voseFinish Pend
    simp only [fieldOps, List.contains_eq_mem, Bool.or_eq_true, decide_eq_true_eq]
    by_cases h1 : j ∈ s.large <;> by_cases h2 : j ∈ s.small <;> simp [h1, h2]
  have hali : (voseFinish (fieldOps K) s).ali = s.ali := rfl
  rw [← h.mass i]
  unfold T
  rw [hali, hprob]
  congr 1
  · by_cases hp : Pend s i
    · simp [hp, hone i hp]
    · simp [hp]
  · apply Finset.sum_congr rfl
    intro j _
    rw [hprob]
    by_cases hp : Pend s j <;> simp [hp]

theorem finish_unit (n : ℕ) (c : ℕ → K) (s : VState K) (h : Inv n c s) (j : ℕ) :
    0 ≤ (voseFinish (fieldOps K) s).prob j ∧ (voseFinish (fieldOps K) s).prob j ≤ 1 := by
  have hprob : (voseFinish (fieldOps K) s).prob j = if Pend s j then 1 else s.prob j := by
    unfold voseFinish Pend
    simp only [fieldOps, List.contains_eq_mem, Bool.or_eq_true, decide_eq_true_eq]
    by_cases h1 : j ∈ s.large <;> by_cases h2 : j ∈ s.small <;> simp [h1, h2]
  rw [hprob]
  by_cases hp : Pend s j
  · rw [if_pos hp]; exact ⟨zero_le_one, le_refl _⟩
  · rw [if_neg hp]; exact h.unit j hp

/-- **Exactness of the alias tables** over any linear ordered field: for non-negative weights
    with positive sum, the probability the finished tables give to index `i` —
    `(prob[i] + Σ_{j : alias[j] = i} (1 - prob[j])) / n` — equals the normalised weight
    `w_i / Σw`; every `prob[i]` lies in `[0, 1]`. -/
theorem genTables_exact (w : List K) (hw : ∀ x ∈ w, 0 ≤ x) (hS : 0 < w.sum) (i : ℕ)
    (hi : i < w.length) :
    ((genTables (fieldOps K) w).2.getD i 0 +
        ∑ j ∈ range w.length, if (genTables (fieldOps K) w).1.getD j 0 = i
          then 1 - (genTables (fieldOps K) w).2.getD j 0 else 0) / (w.length : K)
      = w.getD i 0 / w.sum ∧
    0 ≤ (genTables (fieldOps K) w).2.getD i 0 ∧ (genTables (fieldOps K) w).2.getD i 0 ≤ 1 := by
  have hn : 0 < w.length := by omega
  set s := voseLoop (fieldOps K) w.length (voseInit (fieldOps K) w) with hs
  have hinv : Inv w.length (c0 w) s := inv_loop _ _ _ _ (inv_init w hn hw hS)
  have hlen : (voseInit (fieldOps K) w).small.length + (voseInit (fieldOps K) w).large.length
      ≤ w.length + 1 := by
    have := (inv_init w hn hw hS).nodup
    have hsub : ∀ x ∈ (voseInit (fieldOps K) w).small ++ (voseInit (fieldOps K) w).large,
        x ∈ List.range w.length := by
      intro x hx
      rw [List.mem_range]
      exact (inv_init w hn hw hS).lt x (List.mem_append.mp hx)
    have h3 := (List.subperm_of_subset this hsub).length_le
    simp only [List.length_append, List.length_range] at h3
    omega
  have hex := loop_exit' w.length (voseInit (fieldOps K) w) hlen
  have hone := exit_scaled_one _ _ s hinv (sum_c0 w hS) hex
  have hg1 : ∀ j, j < w.length → (genTables (fieldOps K) w).1.getD j 0 = (voseFinish (fieldOps K) s).ali j := by
    intro j hj
    simp [genTables, ← hs, List.getD_eq_getElem?_getD, List.getElem?_map, List.getElem?_range hj]
  have hg2 : ∀ j, j < w.length → (genTables (fieldOps K) w).2.getD j 0 = (voseFinish (fieldOps K) s).prob j := by
    intro j hj
    simp [genTables, ← hs, List.getD_eq_getElem?_getD, List.getElem?_map, List.getElem?_range hj]
  have hsum : (∑ j ∈ range w.length, if (genTables (fieldOps K) w).1.getD j 0 = i
        then 1 - (genTables (fieldOps K) w).2.getD j 0 else 0)
      = ∑ j ∈ range w.length, if (voseFinish (fieldOps K) s).ali j = i
        then 1 - (voseFinish (fieldOps K) s).prob j else 0 := by
    apply Finset.sum_congr rfl
    intro j hj
    rw [hg1 j (Finset.mem_range.mp hj), hg2 j (Finset.mem_range.mp hj)]
  refine ⟨?_, ?_⟩
  · rw [hsum, hg2 i hi, finish_mass _ _ s hinv hone i]
    unfold c0
    have hnK : (w.length : K) ≠ 0 := Nat.cast_ne_zero.mpr (by omega)
    field_simp
  · rw [hg2 i hi]
    exact finish_unit _ _ s hinv i

/-- in exact arithmetic no "small" entries are left over when the main loop ends -/
theorem genTables_no_small_leftover (w : List K) (hn : 0 < w.length) (hw : ∀ x ∈ w, 0 ≤ x)
    (hS : 0 < w.sum) :
    (voseLoop (fieldOps K) w.length (voseInit (fieldOps K) w)).small = [] := by
  have hinv := inv_loop w.length (c0 w) w.length _ (inv_init w hn hw hS)
  have hlen : (voseInit (fieldOps K) w).small.length + (voseInit (fieldOps K) w).large.length
      ≤ w.length + 1 := by
    have := (inv_init w hn hw hS).nodup
    have hsub : ∀ x ∈ (voseInit (fieldOps K) w).small ++ (voseInit (fieldOps K) w).large,
        x ∈ List.range w.length := by
      intro x hx
      rw [List.mem_range]
      exact (inv_init w hn hw hS).lt x (List.mem_append.mp hx)
    have h3 := (List.subperm_of_subset this hsub).length_le
    simp only [List.length_append, List.length_range] at h3
    omega
  exact exit_small_nil _ _ _ hinv (sum_c0 w hS) (loop_exit' _ _ hlen)

end O4.ProbDist
