import O4.Model.ProbDist
import O4.Lemmas.GoRand
/-!
# Structural lemmas about the `probdist` model (C12): value table, table lengths, alias range.
Core only; for every source and every number type.
-/
namespace O4.ProbDist
open O4.GoRand

/-- `genValues`: the table is a non-empty prefix, at most `maxValues` long, of a permutation of
    `[0, max-min]`. -/
theorem genValues_spec {σ : Type} (src : Source σ) (mn mx : Int) (hle : mn ≤ mx) (s : σ)
    (values : List Nat) (s' : σ) (h : genValues src mn mx s = some (values, s')) :
    ∃ p : List Nat, p.Perm (List.range (mx + 1 - mn).toNat) ∧ values = p.take values.length ∧
      1 ≤ values.length ∧ values.length ≤ maxValues ∧ values.length ≤ (mx + 1 - mn).toNat := by
  unfold genValues at h
  simp only at h
  split at h
  · simp at h
  · rename_i p s1 hp
    split at h
    · simp at h
    · rename_i k s2 hk
      simp only [Option.some.injEq, Prod.mk.injEq] at h
      have hperm := perm_perm src _ s p s1 hp
      have hlen : p.length = (mx + 1 - mn).toNat := by rw [hperm.length_eq, List.length_range]
      have hn : 1 ≤ (mx + 1 - mn).toNat := by omega
      have hk' := intn_lt src _ s1 k s2 hk
      have hmin : minValues ≤ 1 := by decide
      have hkn : k + 1 ≤ (mx + 1 - mn).toNat ∧ k + 1 ≤ maxValues := by
        split at hk' <;> split at hk' <;> omega
      have hvl : values.length = k + 1 := by
        rw [← h.1, List.length_take]; omega
      refine ⟨p, hperm, ?_, ?_, ?_, ?_⟩
      · rw [hvl]; exact h.1.symm
      · omega
      · omega
      · omega

variable {α : Type} (ops : NumOps α)

/-- every work-list entry and every alias entry is an index below `n` -/
def VState.Bounded (n : Nat) (s : VState α) : Prop :=
  (∀ i ∈ s.small, i < n) ∧ (∀ i ∈ s.large, i < n) ∧ ∀ j, s.ali j < n

theorem voseInit_bounded (w : List α) (hn : 0 < w.length) : (voseInit ops w).Bounded w.length := by
  refine ⟨?_, ?_, ?_⟩
  · intro i hi
    simp only [voseInit, List.mem_filter, List.mem_range] at hi
    exact hi.1
  · intro i hi
    simp only [voseInit, List.mem_filter, List.mem_range] at hi
    exact hi.1
  · intro j; exact hn

theorem voseIter_bounded (n : Nat) (s : VState α) (l g : Nat) (sm lg : List Nat)
    (hs : s.small = l :: sm) (hl : s.large = g :: lg) (hb : s.Bounded n) :
    (voseIter ops s l g sm lg).Bounded n := by
  obtain ⟨h1, h2, h3⟩ := hb
  have hg : g < n := h2 g (by simp [hl])
  have hsm : ∀ i ∈ sm, i < n := fun i hi => h1 i (by simp [hs, hi])
  have hlg : ∀ i ∈ lg, i < n := fun i hi => h2 i (by simp [hl, hi])
  refine ⟨?_, ?_, ?_⟩
  · intro i hi
    simp only [voseIter] at hi
    split at hi
    · rcases List.mem_append.mp hi with h | h
      · exact hsm i h
      · simp at h; omega
    · exact hsm i hi
  · intro i hi
    simp only [voseIter] at hi
    split at hi
    · exact hlg i hi
    · rcases List.mem_append.mp hi with h | h
      · exact hlg i h
      · simp at h; omega
  · intro j
    simp only [voseIter, upd]
    split
    · exact hg
    · exact h3 j

theorem voseLoop_bounded (n : Nat) : ∀ (f : Nat) (s : VState α), s.Bounded n →
    (voseLoop ops f s).Bounded n := by
  intro f
  induction f with
  | zero => intro s hb; exact hb
  | succ f ih =>
    intro s hb
    unfold voseLoop
    split
    · rename_i l sm g lg hs hl
      exact ih _ (voseIter_bounded ops n s l g sm lg hs hl hb)
    · exact hb

theorem genTables_length (w : List α) :
    (genTables ops w).1.length = w.length ∧ (genTables ops w).2.length = w.length := by
  simp [genTables]

/-- every alias entry is a valid index -/
theorem genTables_ali_lt (w : List α) (hn : 0 < w.length) :
    ∀ a ∈ (genTables ops w).1, a < w.length := by
  intro a ha
  simp only [genTables, List.mem_map] at ha
  obtain ⟨j, _, rfl⟩ := ha
  have := voseLoop_bounded ops w.length w.length _ (voseInit_bounded ops w hn)
  exact this.2.2 j

theorem genBiasedWeights_length {σ : Type} (src : Source σ) :
    ∀ (n : Nat) (c : α) (s : σ) (ws : List α) (s' : σ),
      genBiasedWeights src ops n c s = some (ws, s') → ws.length = n := by
  intro n
  induction n with
  | zero => intro c s ws s' h; simp [genBiasedWeights] at h; simp [← h.1]
  | succ n ih =>
    intro c s ws s' h
    simp only [genBiasedWeights] at h
    split at h
    · simp at h
    · split at h
      · simp at h
      · rename_i ws1 s2 h1
        simp only [Option.some.injEq, Prod.mk.injEq] at h
        rw [← h.1, List.length_cons, ih _ _ _ _ h1]

theorem genUniformWeights_length {σ : Type} (src : Source σ) :
    ∀ (n : Nat) (s : σ) (ws : List α) (s' : σ),
      genUniformWeights src ops n s = some (ws, s') → ws.length = n := by
  intro n
  induction n with
  | zero => intro s ws s' h; simp [genUniformWeights] at h; simp [← h.1]
  | succ n ih =>
    intro s ws s' h
    simp only [genUniformWeights] at h
    split at h
    · simp at h
    · split at h
      · simp at h
      · rename_i ws1 s2 h1
        simp only [Option.some.injEq, Prod.mk.injEq] at h
        rw [← h.1, List.length_cons, ih _ _ _ h1]

/-- what `build` (the body of `Reset`) guarantees about the shape of the tables, for every
    source and number type -/
structure WellFormed (d : Dist α) : Prop where
  perm : ∃ p : List Nat, p.Perm (List.range (d.maxValue + 1 - d.minValue).toNat) ∧
          d.values = p.take d.values.length
  n_pos : 1 ≤ d.values.length
  n_le : d.values.length ≤ maxValues
  n_le_span : d.values.length ≤ (d.maxValue + 1 - d.minValue).toNat
  weights_len : d.weights.length = d.values.length
  ali_len : d.ali.length = d.values.length
  prob_len : d.prob.length = d.values.length
  ali_lt : ∀ a ∈ d.ali, a < d.values.length
  tables : (d.ali, d.prob) = genTables ops d.weights

theorem build_wellFormed {σ : Type} (src : Source σ) (mn mx : Int) (hle : mn ≤ mx) (biased : Bool)
    (s : σ) (d : Dist α) (s' : σ) (h : build ops src mn mx biased s = some (d, s')) :
    WellFormed ops d ∧ d.minValue = mn ∧ d.maxValue = mx ∧ d.biased = biased := by
  unfold build at h
  split at h
  · simp at h
  · rename_i values s1 hv
    split at h
    · simp at h
    · rename_i weights s2 hw
      simp only [Option.some.injEq, Prod.mk.injEq] at h
      obtain ⟨p, hp, htake, h1, h100, hspan⟩ := genValues_spec src mn mx hle s values s1 hv
      have hwl : weights.length = values.length := by
        split at hw
        · exact genBiasedWeights_length ops src _ _ _ _ _ hw
        · exact genUniformWeights_length ops src _ _ _ _ hw
      have hd := h.1
      subst hd
      refine ⟨⟨⟨p, hp, htake⟩, h1, h100, hspan, hwl, ?_, ?_, ?_, rfl⟩, rfl, rfl, rfl⟩
      · simp [(genTables_length ops weights).1, hwl]
      · simp [(genTables_length ops weights).2, hwl]
      · intro a ha
        have := genTables_ali_lt ops weights (by omega) a ha
        show a < values.length
        omega

/-- members of the value table are offsets inside `[0, max-min]` -/
theorem WellFormed.value_lt {d : Dist α} (wf : WellFormed ops d) :
    ∀ v ∈ d.values, v < (d.maxValue + 1 - d.minValue).toNat := by
  obtain ⟨p, hp, ht⟩ := wf.perm
  intro v hv
  rw [ht] at hv
  have := hp.mem_iff.mp (List.mem_of_mem_take hv)
  exact List.mem_range.mp this

/-- the value table has no repetitions -/
theorem WellFormed.values_nodup {d : Dist α} (wf : WellFormed ops d) : d.values.Nodup := by
  obtain ⟨p, hp, ht⟩ := wf.perm
  rw [ht]
  have : p.Nodup := hp.nodup_iff.mpr List.nodup_range
  exact List.Nodup.sublist (List.take_sublist _ _) this

/-- the deterministic part of `Sample` returns a table entry inside the bounds, for every die
    below the table size and every coin -/
theorem sampleWith_in_table {d : Dist α} (wf : WellFormed ops d) (die : Nat)
    (hdie : die < d.values.length) (coin : α) :
    (∃ v ∈ d.values, d.sampleWith ops die coin = d.minValue + (v : Nat)) ∧
    d.minValue ≤ d.sampleWith ops die coin ∧ d.sampleWith ops die coin ≤ d.maxValue := by
  have hidx : ∀ idx, idx < d.values.length →
      (∃ v ∈ d.values, d.minValue + ((d.values.getD idx 0 : Nat) : Int) = d.minValue + (v : Nat)) ∧
      d.minValue ≤ d.minValue + ((d.values.getD idx 0 : Nat) : Int) ∧
      d.minValue + ((d.values.getD idx 0 : Nat) : Int) ≤ d.maxValue := by
    intro idx hidx
    have hg : d.values.getD idx 0 = d.values[idx] := by simp [List.getD, hidx]
    have hmem : d.values[idx] ∈ d.values := List.getElem_mem hidx
    have hlt := wf.value_lt ops _ hmem
    rw [hg]
    refine ⟨⟨_, hmem, rfl⟩, by omega, by omega⟩
  unfold Dist.sampleWith
  simp only
  split
  · exact hidx die hdie
  · apply hidx
    have hal : die < d.ali.length := by rw [wf.ali_len]; exact hdie
    have hg : d.ali.getD die 0 = d.ali[die] := by simp [List.getD, hal]
    rw [hg]
    exact wf.ali_lt _ (List.getElem_mem hal)

end O4.ProbDist
