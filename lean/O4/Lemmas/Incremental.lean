import O4.Model.Bytes
/-!
# Prefix-stable small-step consumers are chunk-invariant (core only)

A consumer is a deterministic small-step function
`step : σ → Bytes → Option (σ × List Out × Nat)` (consume `n` bytes from the front, emit
outputs; `none` = needs more input).  If every step is *prefix-stable* then feeding any
chunking of a stream (running to quiescence after each chunk) equals feeding the stream whole.
-/
namespace O4

structure Machine (σ Out : Type) where
  step : σ → Bytes → Option (σ × List Out × Nat)

namespace Machine
variable {σ Out : Type} (M : Machine σ Out)

/-- consuming never exceeds the buffer, and a step that fires keeps firing identically
    when more bytes are appended -/
def PrefixStable : Prop :=
  ∀ s b s' o n, M.step s b = some (s', o, n) →
    n ≤ b.length ∧ ∀ e, M.step s (b ++ e) = some (s', o, n)

/-- multi-step run relation: from (s,b) emit outputs and reach (s',b') -/
inductive Runs : σ → Bytes → List Out → σ → Bytes → Prop
  | refl (s b) : Runs s b [] s b
  | step {s b s1 o n s2 b2 os} :
      M.step s b = some (s1, o, n) → Runs s1 (b.drop n) os s2 b2 →
      Runs s b (o ++ os) s2 b2

def Quiescent (s : σ) (b : Bytes) : Prop := M.step s b = none

theorem Runs.trans {s b o1 s1 b1 o2 s2 b2}
    (h1 : M.Runs s b o1 s1 b1) (h2 : M.Runs s1 b1 o2 s2 b2) :
    M.Runs s b (o1 ++ o2) s2 b2 := by
  induction h1 with
  | refl => simpa using h2
  | step hs _ ih => rw [List.append_assoc]; exact Runs.step hs (ih h2)

/-- lifting a run to a longer buffer -/
theorem Runs.append (hM : M.PrefixStable) {s b o s1 b1}
    (h : M.Runs s b o s1 b1) (e : Bytes) : M.Runs s (b ++ e) o s1 (b1 ++ e) := by
  induction h with
  | refl => exact Runs.refl _ _
  | step hs _ ih =>
    obtain ⟨hn, hst⟩ := hM _ _ _ _ _ hs
    refine Runs.step (hst e) ?_
    rw [List.drop_append_of_le_length hn]
    exact ih

theorem feed_two (hM : M.PrefixStable) {s b o1 s1 r1 e o2 s2 r2}
    (h1 : M.Runs s b o1 s1 r1) (h2 : M.Runs s1 (r1 ++ e) o2 s2 r2) :
    M.Runs s (b ++ e) (o1 ++ o2) s2 r2 :=
  (h1.append M hM e).trans M h2

/-- determinism: quiescent endpoints of runs from the same start coincide -/
theorem Runs.det {s b o1 s1 b1 o2 s2 b2}
    (h1 : M.Runs s b o1 s1 b1) (q1 : M.Quiescent s1 b1)
    (h2 : M.Runs s b o2 s2 b2) (q2 : M.Quiescent s2 b2) :
    o1 = o2 ∧ s1 = s2 ∧ b1 = b2 := by
  induction h1 generalizing o2 s2 b2 with
  | refl =>
    cases h2 with
    | refl => exact ⟨rfl, rfl, rfl⟩
    | step hs _ => simp [Quiescent] at q1; rw [q1] at hs; cases hs
  | step hs _ ih =>
    cases h2 with
    | refl => simp [Quiescent] at q2; rw [q2] at hs; cases hs
    | step hs' h2' =>
      rw [hs] at hs'; cases hs'
      obtain ⟨ho, hs, hb⟩ := ih q1 h2' q2
      exact ⟨by rw [ho], hs, hb⟩

/-- chunked feeding: after each chunk the machine runs to quiescence -/
inductive Fed : σ → Bytes → List Bytes → List Out → σ → Bytes → Prop
  | nil {s b o s1 b1} : M.Runs s b o s1 b1 → M.Quiescent s1 b1 → Fed s b [] o s1 b1
  | cons {s b c cs o1 s1 b1 o2 s2 b2} :
      M.Runs s b o1 s1 b1 → M.Quiescent s1 b1 →
      Fed s1 (b1 ++ c) cs o2 s2 b2 → Fed s b (c :: cs) (o1 ++ o2) s2 b2

/-- MAIN: any chunking behaves like the whole stream fed at once. -/
theorem chunk_invariant (hM : M.PrefixStable) {s b cs o s1 b1}
    (h : M.Fed s b cs o s1 b1) :
    M.Runs s (b ++ cs.flatten) o s1 b1 ∧ M.Quiescent s1 b1 := by
  induction h with
  | nil hr hq => simpa using ⟨hr, hq⟩
  | cons hr _ _ ih =>
    obtain ⟨ihr, ihq⟩ := ih
    refine ⟨?_, ihq⟩
    simp only [List.flatten_cons, ← List.append_assoc]
    have := (hr.append M hM _).trans M (by simpa [List.append_assoc] using ihr)
    simpa [List.append_assoc] using this

/-- Two chunkings of the same stream give the same outputs, final state and residue. -/
theorem chunkings_agree (hM : M.PrefixStable) {s cs cs' o s1 b1 o' s1' b1'}
    (hcat : cs.flatten = cs'.flatten)
    (h : M.Fed s [] cs o s1 b1) (h' : M.Fed s [] cs' o' s1' b1') :
    o = o' ∧ s1 = s1' ∧ b1 = b1' := by
  obtain ⟨r, q⟩ := M.chunk_invariant hM h
  obtain ⟨r', q'⟩ := M.chunk_invariant hM h'
  simp only [List.nil_append] at r r'
  rw [hcat] at r
  exact Runs.det M r q r' q'

end Machine
end O4
