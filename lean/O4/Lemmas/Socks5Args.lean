import O4.Model.Socks5
/-!
# `parseClientParameters` inverts the client-side encoder (core only)
-/
set_option linter.unusedSimpArgs false
namespace O4.Socks5
open O4

/-- all positions non-last -/
def loopNL (s : PS) : Bytes → Option PS
  | [] => some s
  | c :: r => (step s c false).bind (fun s' => loopNL s' r)

theorem loop_append_ne (s : PS) (x rest : Bytes) (h : rest ≠ []) :
    loop s (x ++ rest) = (loopNL s x).bind (fun s' => loop s' rest) := by
  induction x generalizing s with
  | nil => simp [loopNL]
  | cons c r ih =>
    have : r ++ rest ≠ [] := by simp [h]
    obtain ⟨d, t, hdt⟩ := List.exists_cons_of_ne_nil this
    simp only [List.cons_append, hdt, loop, loopNL]
    rw [← hdt]
    cases step s c false with
    | none => simp
    | some s' => simp [ih]

theorem loopNL_append (s : PS) (x y : Bytes) :
    loopNL s (x ++ y) = (loopNL s x).bind (fun s' => loopNL s' y) := by
  induction x generalizing s with
  | nil => simp [loopNL]
  | cons c r ih =>
    simp only [List.cons_append, loopNL]
    cases step s c false with
    | none => simp
    | some s' => simp [ih]

theorem escWith_append (f : UInt8 → Bool) (a b : Bytes) :
    escWith f (a ++ b) = escWith f a ++ escWith f b := by
  induction a with
  | nil => rfl
  | cons c r ih =>
    simp only [List.cons_append, escWith]
    split <;> simp [ih]

/-- escaped key text just accumulates the raw key -/
theorem loopNL_escKey (s : PS) (k : Bytes) (hs : s.esc = false) (hk : s.key = []) :
    loopNL s (escWith keySpecial k) = some { s with acc := s.acc ++ k } := by
  induction k generalizing s with
  | nil => simp [escWith, loopNL]
  | cons c r ih =>
    unfold escWith
    by_cases hc : keySpecial c
    · simp only [hc, ↓reduceIte, loopNL]
      have h1 : step s BS false = some { s with esc := true } := by simp [step, hs]
      rw [h1]; simp only [Option.bind_some]
      have h2 : step { s with esc := true } c false = some { s with esc := false, acc := s.acc ++ [c] } := by
        simp only [keySpecial, Bool.or_eq_true, decide_eq_true_eq] at hc
        rcases hc with (rfl | rfl) | rfl <;> simp [step, BS, EQ, SC]
      rw [h2]; simp only [Option.bind_some]
      rw [ih ⟨s.key, s.acc ++ [c], false, s.out⟩ rfl hk]; simp [hs]
    · simp only [hc, Bool.false_eq_true, ↓reduceIte, loopNL]
      have h1 : step s c false = some { s with acc := s.acc ++ [c] } := by
        simp only [keySpecial, Bool.or_eq_true, decide_eq_true_eq, not_or] at hc
        simp [step, hc.1.1, hc.1.2, hc.2, hs]
      rw [h1]; simp only [Option.bind_some]
      rw [ih ⟨s.key, s.acc ++ [c], s.esc, s.out⟩ hs hk]; simp

/-- escaped value text just accumulates the raw value (an unescaped `=` is literal once the key
    is set) -/
theorem loopNL_escVal (s : PS) (v : Bytes) (hs : s.esc = false) (hk : s.key ≠ []) :
    loopNL s (escWith valSpecial v) = some { s with acc := s.acc ++ v } := by
  induction v generalizing s with
  | nil => simp [escWith, loopNL]
  | cons c r ih =>
    unfold escWith
    by_cases hc : valSpecial c
    · simp only [hc, ↓reduceIte, loopNL]
      have h1 : step s BS false = some { s with esc := true } := by simp [step, hs]
      rw [h1]; simp only [Option.bind_some]
      have h2 : step { s with esc := true } c false = some { s with esc := false, acc := s.acc ++ [c] } := by
        simp only [valSpecial, Bool.or_eq_true, decide_eq_true_eq] at hc
        rcases hc with rfl | rfl <;> simp [step, BS, EQ, SC]
      rw [h2]; simp only [Option.bind_some]
      rw [ih ⟨s.key, s.acc ++ [c], false, s.out⟩ rfl hk]; simp [hs]
    · simp only [hc, Bool.false_eq_true, ↓reduceIte, loopNL]
      have h1 : step s c false = some { s with acc := s.acc ++ [c] } := by
        simp only [valSpecial, Bool.or_eq_true, decide_eq_true_eq, not_or] at hc
        by_cases he : c = EQ
        · subst he; simp [step, hs, hk, BS, EQ, SC]
        · simp [step, hc.1, hc.2, he, hs]
      rw [h1]; simp only [Option.bind_some]
      rw [ih ⟨s.key, s.acc ++ [c], s.esc, s.out⟩ hs hk]; simp

/-- one whole encoded pair, all positions non-last -/
theorem loopNL_encPair (out : List (Bytes × Bytes)) (k v : Bytes) (hk : k ≠ []) :
    loopNL ⟨[], [], false, out⟩ (encPair (k, v)) = some ⟨k, v, false, out⟩ := by
  unfold encPair
  rw [List.append_assoc, loopNL_append, loopNL_escKey _ _ rfl rfl]
  simp only [Option.bind_some, List.nil_append]
  rw [loopNL_append]
  have h1 : loopNL ⟨[], k, false, out⟩ [EQ] = some ⟨k, [], false, out⟩ := by
    simp [loopNL, step, BS, EQ, hk]
  rw [h1]; simp only [Option.bind_some]
  rw [loopNL_escVal _ _ rfl hk]; simp

/-- the `last` flag only matters for an unescaped `;` -/
theorem step_last_irrelevant (s : PS) (c : UInt8) (h : c ≠ SC ∨ s.esc = true) :
    step s c true = step s c false := by
  rcases h with h | h
  · simp [step, h]
  · simp [step, h]

/-- `loop` on a non-empty string whose last character is not an unescaped `;` -/
theorem loop_snoc (s : PS) (y : Bytes) (c : UInt8) :
    loop s (y ++ [c]) = (loopNL s y).bind (fun s' => step s' c true) := by
  rw [loop_append_ne s y [c] (by simp)]
  rfl

theorem loop_eq_loopNL (s : PS) (y : Bytes) (c : UInt8)
    (h : ∀ s', loopNL s y = some s' → c ≠ SC ∨ s'.esc = true) :
    loop s (y ++ [c]) = loopNL s (y ++ [c]) := by
  rw [loop_snoc, loopNL_append]
  cases hy : loopNL s y with
  | none => rfl
  | some s' =>
    simp only [Option.bind_some, loopNL]
    rw [step_last_irrelevant s' c (h s' hy)]
    cases step s' c false <;> rfl

/-- the last encoded pair: `loop` (with the `last` flag) behaves like `loopNL` -/
theorem loop_encPair_last (out : List (Bytes × Bytes)) (k v : Bytes) (hk : k ≠ []) :
    loop ⟨[], [], false, out⟩ (encPair (k, v)) = some ⟨k, v, false, out⟩ := by
  rw [← loopNL_encPair out k v hk]
  -- split off the last character
  rcases List.eq_nil_or_concat v with hv | ⟨v', c, hv⟩
  · subst hv
    have : encPair (k, []) = escWith keySpecial k ++ [EQ] := by simp [encPair, escWith]
    rw [this]
    exact loop_eq_loopNL _ _ _ (fun _ _ => Or.inl (by decide))
  · rw [List.concat_eq_append] at hv
    subst hv
    by_cases hc : valSpecial c
    · have : encPair (k, v' ++ [c]) = (encPair (k, v') ++ [BS]) ++ [c] := by
        simp [encPair, escWith_append, escWith, hc]
      rw [this]
      apply loop_eq_loopNL
      intro s' hs'
      rw [loopNL_append, loopNL_encPair out k v' hk] at hs'
      simp [loopNL, step] at hs'
      right; rw [← hs']
    · have : encPair (k, v' ++ [c]) = encPair (k, v') ++ [c] := by
        simp [encPair, escWith_append, escWith, hc]
      rw [this]
      apply loop_eq_loopNL
      intro s' _
      left
      intro h; subst h; simp [valSpecial] at hc

theorem encPair_ne_nil (kv : Bytes × Bytes) : encPair kv ≠ [] := by
  simp [encPair]

theorem encode_ne_nil (l : List (Bytes × Bytes)) (h : l ≠ []) : encode l ≠ [] := by
  match l, h with
  | [kv], _ => simpa [encode] using encPair_ne_nil kv
  | kv :: kv' :: r, _ => simp [encode]

/-- the parser state machine inverts `encode`, for any number of pairs already emitted -/
theorem loop_encode (l : List (Bytes × Bytes)) (out : List (Bytes × Bytes)) (hl : l ≠ [])
    (hk : ∀ kv ∈ l, kv.1 ≠ []) :
    (loop ⟨[], [], false, out⟩ (encode l)).bind finish = some (out ++ l) := by
  induction l generalizing out with
  | nil => exact absurd rfl hl
  | cons kv rest ih =>
    obtain ⟨k, v⟩ := kv
    have hkne : k ≠ [] := hk (k, v) (by simp)
    cases rest with
    | nil =>
      simp only [encode]
      rw [loop_encPair_last out k v hkne]
      simp [finish, hkne]
    | cons kv' r =>
      simp only [encode]
      have hne : encode (kv' :: r) ≠ [] := encode_ne_nil _ (by simp)
      rw [List.append_assoc, loop_append_ne _ _ _ (by simp), loopNL_encPair out k v hkne]
      simp only [Option.bind_some]
      rw [show [SC] ++ encode (kv' :: r) = [SC] ++ encode (kv' :: r) from rfl,
        loop_append_ne _ [SC] _ hne]
      have h1 : loopNL ⟨k, v, false, out⟩ [SC] = some ⟨[], [], false, out ++ [(k, v)]⟩ := by
        simp [loopNL, step, BS, EQ, SC, hkne]
      rw [h1]; simp only [Option.bind_some]
      rw [ih (out ++ [(k, v)]) (by simp) (fun kv hkv => hk kv (by simp [hkv]))]
      simp

theorem parsePairs_encode (l : List (Bytes × Bytes)) (hk : ∀ kv ∈ l, kv.1 ≠ []) :
    parsePairs (encode l) = some l := by
  by_cases hl : l = []
  · subst hl; simp [parsePairs, encode]
  · unfold parsePairs
    rw [if_neg (encode_ne_nil l hl)]
    have := loop_encode l [] hl hk
    simpa [PS.init] using this

end O4.Socks5
