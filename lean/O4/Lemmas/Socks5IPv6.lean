import O4.Lemmas.Socks5Target
/-!
# `net.IP.String()` for 16-byte addresses can be read back (core only)

A decoder `decode6` for exactly the strings `string6` produces (lex into numbers and colons,
split at the double colon, pad the gap with zero groups up to 8) and the proof
`decode6 (string6 g) = g` for every list `g` of 8 groups below 65536.  A left inverse gives
injectivity without any reasoning about *which* zero run the formatter elides beyond "the elided
groups are zero".
-/
set_option linter.unusedSimpArgs false
namespace O4.Socks5
open O4

/-! ## decoder -/

inductive Tok
  | num (n : Nat)
  | colon
deriving DecidableEq, Repr

def hexVal? (b : UInt8) : Option Nat :=
  if 48 ≤ b.toNat ∧ b.toNat ≤ 57 then some (b.toNat - 48)
  else if 97 ≤ b.toNat ∧ b.toNat ≤ 102 then some (b.toNat - 87)
  else none

def flushNum : Option Nat → List Tok
  | none => []
  | some n => [.num n]

/-- hex digit runs become numbers, every other byte counts as a colon -/
def lex : Bytes → Option Nat → List Tok
  | [], acc => flushNum acc
  | b :: r, acc =>
    match hexVal? b with
    | some d => lex r (some (acc.getD 0 * 16 + d))
    | none => flushNum acc ++ .colon :: lex r none

/-- split at the first double colon -/
def splitDC : List Tok → List Tok × Option (List Tok)
  | [] => ([], none)
  | x :: r =>
    match x, r with
    | .colon, .colon :: r' => ([], some r')
    | _, _ => (x :: (splitDC r).1, (splitDC r).2)

def nums : List Tok → List Nat
  | [] => []
  | .num n :: r => n :: nums r
  | .colon :: r => nums r

def decode6 (s : Bytes) : List Nat :=
  match splitDC (lex s none) with
  | (l, none) => nums l
  | (l, some r) => nums l ++ List.replicate (8 - (nums l).length - (nums r).length) 0 ++ nums r

/-! ## rendering of a colon-separated group list -/

def colonHex (b : Nat) : Bytes := COLON :: appendHex b

def renderL : List Nat → Bytes
  | [] => []
  | a :: r => appendHex a ++ r.flatMap colonHex

def colonNum (b : Nat) : List Tok := [.colon, .num b]

def inter : List Nat → List Tok
  | [] => []
  | a :: r => .num a :: r.flatMap colonNum

theorem hexVal_hexDigit : ∀ d, d < 16 → hexVal? (hexDigitB d) = some d := by decide

theorem hexVal_colon : hexVal? COLON = none := by decide

theorem lex_digit (d : Nat) (hd : d < 16) (r : Bytes) (acc : Option Nat) :
    lex (hexDigitB d :: r) acc = lex r (some (acc.getD 0 * 16 + d)) := by
  simp [lex, hexVal_hexDigit d hd]

theorem lex_colon (r : Bytes) (acc : Option Nat) :
    lex (COLON :: r) acc = flushNum acc ++ .colon :: lex r none := by
  simp [lex, hexVal_colon]

theorem lex_appendHex (x : Nat) (hx : x < 65536) (rest : Bytes) :
    lex (appendHex x ++ rest) none = lex rest (some x) := by
  unfold appendHex
  have m1 : x / 4096 % 16 < 16 := Nat.mod_lt _ (by omega)
  have m2 : x / 256 % 16 < 16 := Nat.mod_lt _ (by omega)
  have m3 : x / 16 % 16 < 16 := Nat.mod_lt _ (by omega)
  have m4 : x % 16 < 16 := Nat.mod_lt _ (by omega)
  by_cases h1 : x ≥ 0x1000
  · have h2 : x ≥ 0x100 := by omega
    have h3 : x ≥ 0x10 := by omega
    simp only [h1, h2, h3, ↓reduceIte, List.cons_append, List.nil_append, lex_digit _ m1,
      lex_digit _ m2, lex_digit _ m3, lex_digit _ m4, Option.getD_none, Option.getD_some]
    congr 2; omega
  · by_cases h2 : x ≥ 0x100
    · have h3 : x ≥ 0x10 := by omega
      simp only [h1, h2, h3, ↓reduceIte, List.cons_append, List.nil_append,
        lex_digit _ m2, lex_digit _ m3, lex_digit _ m4, Option.getD_none, Option.getD_some]
      congr 2; omega
    · by_cases h3 : x ≥ 0x10
      · simp only [h1, h2, h3, ↓reduceIte, List.cons_append, List.nil_append,
          lex_digit _ m3, lex_digit _ m4, Option.getD_none, Option.getD_some]
        congr 2; omega
      · simp only [h1, h2, h3, ↓reduceIte, List.cons_append, List.nil_append,
          lex_digit _ m4, Option.getD_none, Option.getD_some]
        congr 2; omega

/-- what may follow a rendered list: nothing, or a colon -/
def Stop (rest : Bytes) : Prop := rest = [] ∨ ∃ X, rest = COLON :: X

theorem lex_stop (a : Nat) (rest : Bytes) (h : Stop rest) :
    lex rest (some a) = .num a :: lex rest none := by
  rcases h with rfl | ⟨X, rfl⟩
  · simp [lex, flushNum]
  · simp [lex_colon, flushNum]

theorem lex_tail (r : List Nat) (hr : ∀ b ∈ r, b < 65536) (a : Nat) (rest : Bytes) (h : Stop rest) :
    lex (r.flatMap colonHex ++ rest) (some a) = .num a :: (r.flatMap colonNum ++ lex rest none) := by
  induction r generalizing a with
  | nil => simpa using lex_stop a rest h
  | cons b r ih =>
    simp only [List.flatMap_cons, colonHex, List.cons_append, List.append_assoc, lex_colon,
      flushNum, colonNum, List.nil_append]
    rw [lex_appendHex b (hr b (by simp)), ih (fun c hc => hr c (by simp [hc])) b]

theorem lex_renderL (l : List Nat) (hl : ∀ b ∈ l, b < 65536) (rest : Bytes) (h : Stop rest) :
    lex (renderL l ++ rest) none = inter l ++ lex rest none := by
  cases l with
  | nil => simp [renderL, inter]
  | cons a r =>
    simp only [renderL, inter, List.append_assoc, List.cons_append]
    rw [lex_appendHex a (hl a (by simp)), lex_tail r (fun c hc => hl c (by simp [hc])) a rest h]

theorem splitDC_tail (r : List Nat) (T : List Tok) :
    splitDC (r.flatMap colonNum ++ T) = (r.flatMap colonNum ++ (splitDC T).1, (splitDC T).2) := by
  induction r with
  | nil => simp
  | cons b r ih =>
    simp only [List.flatMap_cons, colonNum, List.cons_append, List.nil_append, splitDC, ih]

theorem splitDC_inter (l : List Nat) (T : List Tok) :
    splitDC (inter l ++ T) = (inter l ++ (splitDC T).1, (splitDC T).2) := by
  cases l with
  | nil => simp [inter]
  | cons a r => simp only [inter, List.cons_append, splitDC, splitDC_tail]

theorem nums_tail (r : List Nat) : nums (r.flatMap colonNum) = r := by
  induction r with
  | nil => rfl
  | cons b r ih => simp [colonNum, nums, ih]

theorem nums_inter (l : List Nat) : nums (inter l) = l := by
  cases l with
  | nil => rfl
  | cons a r => simp [inter, nums, nums_tail]

/-- a list without elision decodes to itself -/
theorem decode6_plain (g : List Nat) (hg : ∀ b ∈ g, b < 65536) : decode6 (renderL g) = g := by
  have h := lex_renderL g hg [] (Or.inl rfl)
  simp only [List.append_nil, lex, flushNum] at h
  unfold decode6
  rw [h]
  have := splitDC_inter g []
  simp only [List.append_nil, splitDC] at this
  rw [this]
  exact nums_inter g

/-- a list with an elided middle decodes to the two sides with the gap filled up to 8 groups -/
theorem decode6_gap (l1 l2 : List Nat) (h1 : ∀ b ∈ l1, b < 65536) (h2 : ∀ b ∈ l2, b < 65536) :
    decode6 (renderL l1 ++ COLON :: COLON :: renderL l2)
      = l1 ++ List.replicate (8 - l1.length - l2.length) 0 ++ l2 := by
  have ha := lex_renderL l1 h1 (COLON :: COLON :: renderL l2) (Or.inr ⟨_, rfl⟩)
  have hb := lex_renderL l2 h2 [] (Or.inl rfl)
  simp only [List.append_nil, lex, flushNum] at hb
  rw [lex_colon, lex_colon, hb] at ha
  simp only [flushNum, List.nil_append] at ha
  unfold decode6
  rw [ha, splitDC_inter]
  simp only [splitDC, List.append_nil, nums_inter]


/-! ## the elided run consists of zero groups -/

theorem zeroRunEnd_spec (g : List Nat) (f : Nat) : ∀ j,
    j ≤ zeroRunEnd g f j ∧ (j ≤ 8 → zeroRunEnd g f j ≤ 8) ∧
    ∀ k, j ≤ k → k < zeroRunEnd g f j → g.getD k 1 = 0 := by
  induction f with
  | zero => intro j; simp only [zeroRunEnd]; exact ⟨Nat.le_refl _, fun h => h, fun k h1 h2 => by omega⟩
  | succ f ih =>
    intro j
    unfold zeroRunEnd
    by_cases h : j < 8 ∧ g.getD j 1 = 0
    · simp only [h, and_self, ↓reduceIte]
      obtain ⟨a, b, c⟩ := ih (j + 1)
      refine ⟨by omega, fun _ => b (by omega), fun k h1 h2 => ?_⟩
      by_cases hk : k = j
      · subst hk; exact h.2
      · exact c k (by omega) h2
    · simp only [h, ↓reduceIte]
      exact ⟨Nat.le_refl _, fun h => h, fun k h1 h2 => by omega⟩

/-- what `findZeroRun` can return -/
def RunOK (g : List Nat) (z : Nat × Nat) : Prop :=
  z = (255, 255) ∨ (z.1 < 8 ∧ z.1 + 2 ≤ z.2 ∧ z.2 ≤ 8 ∧ ∀ k, z.1 ≤ k → k < z.2 → g.getD k 1 = 0)

theorem foldl_inv {α β : Type} (P : α → Prop) (step : α → β → α) (l : List β) (init : α)
    (h0 : P init) (hs : ∀ z b, b ∈ l → P z → P (step z b)) : P (l.foldl step init) := by
  induction l generalizing init with
  | nil => exact h0
  | cons b r ih =>
    simp only [List.foldl_cons]
    exact ih _ (hs _ _ (by simp) h0) (fun z c hc hz => hs z c (by simp [hc]) hz)

theorem findZeroRun_ok (g : List Nat) : RunOK g (findZeroRun g) := by
  unfold findZeroRun
  apply foldl_inv (RunOK g)
  · exact Or.inl rfl
  · intro z i hi hz
    have hi8 : i < 8 := by simpa using hi
    simp only
    split
    · next hc =>
      obtain ⟨a, b, c⟩ := zeroRunEnd_spec g 8 i
      right
      exact ⟨hi8, by omega, b (by omega), c⟩
    · exact hz

/-! ## closed form of the printing loop -/

theorem drop_eq_getD_cons (g : List Nat) (i : Nat) (h : i < g.length) :
    g.drop i = g.getD i 0 :: g.drop (i + 1) := by
  rw [List.drop_eq_getElem_cons h]
  simp [List.getD_eq_getElem?_getD, h]

/-- past the gap (or without one) every remaining group is printed with a colon in front -/
theorem print6_tail (g : List Nat) (hg : g.length = 8) (zs ze : Nat) (f : Nat) : ∀ i,
    0 < i → (zs < i ∨ 8 ≤ zs) → 8 - i < f → print6 g zs ze f i = (g.drop i).flatMap colonHex := by
  induction f with
  | zero => intro i _ _ h; omega
  | succ f ih =>
    intro i hi hz hf
    unfold print6
    by_cases h8 : i ≥ 8
    · simp [h8, List.drop_eq_nil_of_le (by omega : g.length ≤ i)]
    · have hne : i ≠ zs := by omega
      simp only [h8, hne, ↓reduceIte, hi]
      rw [ih (i + 1) (by omega) (by omega) (by omega), drop_eq_getD_cons g i (by omega)]
      simp [colonHex]

theorem renderL_drop (g : List Nat) (hg : g.length = 8) (zs ze f : Nat) (hz : zs < ze) (hf : 7 - ze < f) :
    (if ze ≥ 8 then [] else appendHex (g.getD ze 0) ++ print6 g zs ze f (ze + 1)) = renderL (g.drop ze) := by
  by_cases h8 : ze ≥ 8
  · simp [h8, List.drop_eq_nil_of_le (by omega : g.length ≤ ze), renderL]
  · simp only [h8, ↓reduceIte]
    rw [print6_tail g hg zs ze f (ze + 1) (by omega) (by omega) (by omega),
      drop_eq_getD_cons g ze (by omega)]
    simp [renderL]

/-- before the gap -/
theorem print6_head (g : List Nat) (hg : g.length = 8) (zs ze : Nat) (hzs : zs < 8) (hz : zs < ze)
    (f : Nat) : ∀ i, 0 < i → i ≤ zs → 9 - i ≤ f →
    print6 g zs ze f i
      = ((g.take zs).drop i).flatMap colonHex ++ COLON :: COLON :: renderL (g.drop ze) := by
  induction f with
  | zero => intro i _ _ h; omega
  | succ f ih =>
    intro i hi hle hf
    unfold print6
    have h8 : ¬ i ≥ 8 := by omega
    by_cases he : i = zs
    · subst he
      simp only [h8, ↓reduceIte]
      rw [renderL_drop g hg i ze f hz (by omega)]
      simp [List.drop_eq_nil_of_le]
    · simp only [h8, he, ↓reduceIte, hi]
      rw [ih (i + 1) (by omega) (by omega) (by omega)]
      have hlen : i < (g.take zs).length := by simp; omega
      rw [drop_eq_getD_cons (g.take zs) i hlen]
      have : (g.take zs)[i]?.getD 0 = g[i]?.getD 0 := by
        simp [List.getElem?_take, show i < zs by omega]
      simp [colonHex, this, List.getD_eq_getElem?_getD]

theorem renderL_eq (l : List Nat) (h : 0 < l.length) :
    renderL l = appendHex (l.getD 0 0) ++ (l.drop 1).flatMap colonHex := by
  cases l with
  | nil => simp at h
  | cons a r => simp [renderL]

theorem print6_closed_plain (g : List Nat) (hg : g.length = 8) : print6 g 255 255 9 0 = renderL g := by
  unfold print6
  simp only [show ¬ (0 ≥ 8) by omega, show (0 : Nat) ≠ 255 by omega, ↓reduceIte,
    Nat.lt_irrefl, List.nil_append]
  rw [print6_tail g hg 255 255 8 1 (by omega) (by omega) (by omega), renderL_eq g (by omega)]

theorem print6_closed_gap (g : List Nat) (hg : g.length = 8) (zs ze : Nat) (h1 : zs < 8)
    (h2 : zs + 2 ≤ ze) :
    print6 g zs ze 9 0 = renderL (g.take zs) ++ COLON :: COLON :: renderL (g.drop ze) := by
  unfold print6
  by_cases h0 : 0 = zs
  · subst h0
    simp only [show ¬ (0 ≥ 8) by omega, ↓reduceIte]
    rw [renderL_drop g hg 0 ze 8 (by omega) (by omega)]
    simp [renderL]
  · simp only [show ¬ (0 ≥ 8) by omega, h0, ↓reduceIte, Nat.lt_irrefl, List.nil_append]
    rw [print6_head g hg zs ze h1 (by omega) 8 1 (by omega) (by omega) (by omega),
      renderL_eq (g.take zs) (by simp; omega)]
    have : (g.take zs)[0]?.getD 0 = g[0]?.getD 0 := by
      simp [List.getElem?_take, show 0 < zs by omega]
    simp [this, List.getD_eq_getElem?_getD]

theorem string6_closed (g : List Nat) (hg : g.length = 8) :
    string6 g = renderL g ∨
    (∃ zs ze, zs < 8 ∧ zs + 2 ≤ ze ∧ ze ≤ 8 ∧
      (∀ k, zs ≤ k → k < ze → g.getD k 1 = 0) ∧
      string6 g = renderL (g.take zs) ++ COLON :: COLON :: renderL (g.drop ze)) := by
  unfold string6
  have hok := findZeroRun_ok g
  cases hfz : findZeroRun g with
  | mk zs ze =>
    rw [hfz] at hok
    rcases hok with h | ⟨h1, h2, h3, h4⟩
    · left
      simp only [Prod.mk.injEq] at h
      obtain ⟨rfl, rfl⟩ := h
      exact print6_closed_plain g hg
    · right
      exact ⟨zs, ze, h1, h2, h3, h4, print6_closed_gap g hg zs ze h1 h2⟩


theorem fill_gap (g : List Nat) (hg : g.length = 8) (zs ze : Nat) (h1 : zs < 8) (h2 : zs + 2 ≤ ze)
    (h3 : ze ≤ 8) (h4 : ∀ k, zs ≤ k → k < ze → g.getD k 1 = 0) :
    g.take zs ++ List.replicate (8 - (g.take zs).length - (g.drop ze).length) 0 ++ g.drop ze = g := by
  have l1 : (g.take zs).length = zs := by simp; omega
  have l2 : (g.drop ze).length = 8 - ze := by simp; omega
  rw [l1, l2]
  apply List.ext_getElem?
  intro i
  by_cases hi1 : i < zs
  · simp [List.getElem?_append, l1, hi1, List.getElem?_take]
  · by_cases hi2 : i < ze
    · have hz := h4 i (by omega) hi2
      have hlt : i < g.length := by omega
      have : g[i]? = some 0 := by
        rw [List.getD_eq_getElem?_getD] at hz
        rw [List.getElem?_eq_getElem hlt] at hz ⊢
        simpa using hz
      rw [this]
      simp only [List.append_assoc]
      rw [List.getElem?_append_right (by omega), l1,
        List.getElem?_append_left (by simp; omega)]
      simp [List.getElem?_replicate]; omega
    · rw [List.getElem?_append_right (by simp; omega)]
      simp only [List.length_append, List.length_replicate, l1, List.getElem?_drop]
      congr 1; omega

theorem decode6_string6 (g : List Nat) (hg : g.length = 8) (hb : ∀ b ∈ g, b < 65536) :
    decode6 (string6 g) = g := by
  rcases string6_closed g hg with h | ⟨zs, ze, h1, h2, h3, h4, h⟩
  · rw [h]; exact decode6_plain g hb
  · rw [h, decode6_gap _ _ (fun b m => hb b (List.mem_of_mem_take m))
      (fun b m => hb b (List.mem_of_mem_drop m))]
    exact fill_gap g hg zs ze h1 h2 h3 h4

theorem string6_injective (g g' : List Nat) (hg : g.length = 8) (hg' : g'.length = 8)
    (hb : ∀ b ∈ g, b < 65536) (hb' : ∀ b ∈ g', b < 65536) (e : string6 g = string6 g') : g = g' := by
  rw [← decode6_string6 g hg hb, ← decode6_string6 g' hg' hb', e]

theorem colon_mem_string6 (g : List Nat) (hg : g.length = 8) : COLON ∈ string6 g := by
  rcases string6_closed g hg with h | ⟨zs, ze, _, _, _, _, h⟩
  · rw [h]
    match g, hg with
    | a :: b :: r, _ => simp [renderL, colonHex]
  · rw [h]; simp

theorem colon_not_mem_ipv4String (a b c d : UInt8) : COLON ∉ ipv4String a b c d := by
  unfold ipv4String
  simp only [List.mem_append, List.mem_singleton, not_or]
  exact ⟨⟨⟨⟨⟨⟨colon_not_mem_dec _, by decide⟩, colon_not_mem_dec _⟩, by decide⟩, colon_not_mem_dec _⟩,
    by decide⟩, colon_not_mem_dec _⟩


theorem pair_inj (a b a' b' : UInt8)
    (h : a.toNat * 256 + b.toNat = a'.toNat * 256 + b'.toNat) : a = a' ∧ b = b' := by
  have := UInt8.toNat_lt a; have := UInt8.toNat_lt b
  have := UInt8.toNat_lt a'; have := UInt8.toNat_lt b'
  exact ⟨UInt8.toNat_inj.mp (by omega), UInt8.toNat_inj.mp (by omega)⟩

theorem groups16_length (b : Bytes) : (groups16 b).length = 8 := by simp [groups16]

theorem groups16_lt (b : Bytes) : ∀ x ∈ groups16 b, x < 65536 := by
  intro x hx
  simp only [groups16, List.mem_map] at hx
  obtain ⟨i, _, rfl⟩ := hx
  have := UInt8.toNat_lt (b.getD (2 * i) 0); have := UInt8.toNat_lt (b.getD (2 * i + 1) 0)
  omega

set_option maxRecDepth 8192 in
theorem groups16_injective (raw raw' : Bytes) (h : raw.length = 16) (h' : raw'.length = 16)
    (e : groups16 raw = groups16 raw') : raw = raw' := by
  match raw, h, raw', h' with
  | [a0, a1, a2, a3, a4, a5, a6, a7, a8, a9, a10, a11, a12, a13, a14, a15], _,
    [b0, b1, b2, b3, b4, b5, b6, b7, b8, b9, b10, b11, b12, b13, b14, b15], _ =>
    have e' : [a0.toNat * 256 + a1.toNat, a2.toNat * 256 + a3.toNat, a4.toNat * 256 + a5.toNat,
        a6.toNat * 256 + a7.toNat, a8.toNat * 256 + a9.toNat, a10.toNat * 256 + a11.toNat,
        a12.toNat * 256 + a13.toNat, a14.toNat * 256 + a15.toNat]
      = [b0.toNat * 256 + b1.toNat, b2.toNat * 256 + b3.toNat, b4.toNat * 256 + b5.toNat,
        b6.toNat * 256 + b7.toNat, b8.toNat * 256 + b9.toNat, b10.toNat * 256 + b11.toNat,
        b12.toNat * 256 + b13.toNat, b14.toNat * 256 + b15.toNat] := e
    simp only [List.cons.injEq, and_true] at e'
    obtain ⟨e0, e1, e2, e3, e4, e5, e6, e7⟩ := e'
    obtain ⟨rfl, rfl⟩ := pair_inj _ _ _ _ e0
    obtain ⟨rfl, rfl⟩ := pair_inj _ _ _ _ e1
    obtain ⟨rfl, rfl⟩ := pair_inj _ _ _ _ e2
    obtain ⟨rfl, rfl⟩ := pair_inj _ _ _ _ e3
    obtain ⟨rfl, rfl⟩ := pair_inj _ _ _ _ e4
    obtain ⟨rfl, rfl⟩ := pair_inj _ _ _ _ e5
    obtain ⟨rfl, rfl⟩ := pair_inj _ _ _ _ e6
    obtain ⟨rfl, rfl⟩ := pair_inj _ _ _ _ e7
    rfl

/-- the IPv4-mapped test of `net.IP.To4` -/
def Mapped (b : Bytes) : Prop := (b.take 10).all (· = 0) ∧ b.getD 10 0 = 255 ∧ b.getD 11 0 = 255

instance (b : Bytes) : Decidable (Mapped b) := by unfold Mapped; infer_instance

set_option maxRecDepth 8192 in
theorem mapped_eq (raw raw' : Bytes) (h : raw.length = 16) (h' : raw'.length = 16)
    (m : Mapped raw) (m' : Mapped raw')
    (e : raw.getD 12 0 = raw'.getD 12 0 ∧ raw.getD 13 0 = raw'.getD 13 0 ∧
         raw.getD 14 0 = raw'.getD 14 0 ∧ raw.getD 15 0 = raw'.getD 15 0) : raw = raw' := by
  match raw, h, raw', h' with
  | [a0, a1, a2, a3, a4, a5, a6, a7, a8, a9, a10, a11, a12, a13, a14, a15], _,
    [b0, b1, b2, b3, b4, b5, b6, b7, b8, b9, b10, b11, b12, b13, b14, b15], _ =>
    simp only [Mapped, List.take, List.all_cons, List.all_nil, Bool.and_true, Bool.and_eq_true,
      decide_eq_true_eq, List.getD_cons_succ, List.getD_cons_zero] at m m' e
    obtain ⟨⟨rfl, rfl, rfl, rfl, rfl, rfl, rfl, rfl, rfl, rfl⟩, rfl, rfl⟩ := m
    obtain ⟨⟨rfl, rfl, rfl, rfl, rfl, rfl, rfl, rfl, rfl, rfl⟩, rfl, rfl⟩ := m'
    obtain ⟨rfl, rfl, rfl, rfl⟩ := e
    rfl

/-- **`net.IP.String()` is injective on 16-byte addresses** -/
theorem ipString16_injective (raw raw' : Bytes) (h : raw.length = 16) (h' : raw'.length = 16)
    (e : ipString16 raw = ipString16 raw') : raw = raw' := by
  unfold ipString16 at e
  by_cases m : Mapped raw <;> by_cases m' : Mapped raw' <;> unfold Mapped at m m'
  · rw [if_pos m, if_pos m'] at e
    obtain ⟨e1, e2, e3, e4⟩ := ipv4String_injective e
    exact mapped_eq raw raw' h h' m m' ⟨e1, e2, e3, e4⟩
  · rw [if_pos m, if_neg m'] at e
    exact absurd (e ▸ colon_mem_string6 _ (groups16_length raw')) (colon_not_mem_ipv4String _ _ _ _)
  · rw [if_neg m, if_pos m'] at e
    exact absurd (e ▸ colon_mem_string6 _ (groups16_length raw)) (colon_not_mem_ipv4String _ _ _ _)
  · rw [if_neg m, if_neg m'] at e
    exact groups16_injective raw raw' h h'
      (string6_injective _ _ (groups16_length _) (groups16_length _) (groups16_lt _) (groups16_lt _) e)

end O4.Socks5
