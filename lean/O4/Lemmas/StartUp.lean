import O4.Lemmas.StateFile
import O4.Lemmas.StateJson
/-!
# Lemmas about the start-up model (`start`, `finish`, `recover`) — core Lean only
-/
namespace O4.SF
open O4

abbrev sfN : Name := Consts.Obfs4.stateFile
abbrev bfN : Name := Consts.Obfs4.bridgeFile

theorem sf_ne_bf : sfN ≠ bfN := by decide
theorem sf_ne_bftmp : sfN ≠ tmpName bfN := by decide
theorem bf_ne_sf : bfN ≠ sfN := by decide
theorem bftmp_ne_sf : tmpName bfN ≠ sfN := by decide

theorem iat_text : ∀ n, n ≤ Consts.Obfs4.iatParanoid → jsonNat (decimal n) = some n ∧ rb ∉ decimal n := by
  decide

/-- `recover` looks at the state file only -/
theorem recover_congr (s d : Dir) (h : get s sfN = get d sfN) : recover s = recover d := by
  unfold recover; rw [h]

/-- what `recover d = valid i` means -/
theorem recover_valid (d : Dir) (i : Ident) (h : recover d = .valid i) :
    ∃ c js, get d sfN = some c ∧ loadJS c = some js ∧ identOfJS js = some i ∧ q ∉ js.pub := by
  unfold recover at h
  cases hc : get d Consts.Obfs4.stateFile with
  | none => simp [hc] at h
  | some c =>
    simp only [hc] at h
    cases hl : loadJS c with
    | none => simp [hl] at h
    | some js =>
      simp only [hl] at h
      cases hi : identOfJS js with
      | none => simp [hi] at h
      | some i' =>
        simp only [hi, Recovery.valid.injEq] at h
        subst h
        refine ⟨c, js, rfl, hl, hi, ?_⟩
        unfold loadJS at hl
        cases hp : parseState c with
        | none => simp [hp] at hl
        | some r =>
          simp only [hp] at hl
          obtain ⟨_, w⟩ := parse_sound _ _ hp
          unfold jsOfRec at hl
          cases hn : jsonNat r.iat with
          | none => simp [hn] at hl
          | some n =>
            simp only [hn, Option.some.injEq] at hl
            subst hl
            exact w.pub

/-- the identity of a validated `jsonServerState` -/
theorem identOfJS_some (js : JS) (i : Ident) (h : identOfJS js = some i) :
    hexN Consts.Ntor.nodeIDLength js.nodeID = some i.nodeID ∧
    hexN Consts.Ntor.privateKeyLength js.priv = some i.priv ∧
    hexSeed js.seed = some i.seed ∧
    (Consts.Obfs4.iatNone : Int) ≤ js.iat ∧ js.iat ≤ (Consts.Obfs4.iatParanoid : Int) ∧ i.iat = js.iat.toNat := by
  unfold identOfJS at h
  cases h1 : hexN Consts.Ntor.nodeIDLength js.nodeID with
  | none => simp [h1] at h
  | some a =>
  cases h2 : hexN Consts.Ntor.privateKeyLength js.priv with
  | none => simp [h1, h2] at h
  | some b =>
  cases h3 : hexSeed js.seed with
  | none => simp [h1, h2, h3] at h
  | some c =>
    simp only [h1, h2, h3] at h
    by_cases hr : (Consts.Obfs4.iatNone : Int) ≤ js.iat ∧ js.iat ≤ (Consts.Obfs4.iatParanoid : Int)
    · simp only [hr, and_self, if_true, Option.some.injEq] at h
      subst h; exact ⟨rfl, rfl, rfl, hr.1, hr.2, rfl⟩
    · simp [hr] at h

/-- changing only the IAT mode of a validated state -/
theorem identOfJS_setIat (js : JS) (i : Ident) (v : Int) (h : identOfJS js = some i) :
    identOfJS { js with iat := v } =
      if (Consts.Obfs4.iatNone : Int) ≤ v ∧ v ≤ (Consts.Obfs4.iatParanoid : Int)
      then some { i with iat := v.toNat } else none := by
  obtain ⟨h1, h2, h3, _, _, _⟩ := identOfJS_some js i h
  unfold identOfJS
  simp only [h1, h2, h3]

/-- the record written for a validated state needs no escaping -/
theorem wf_recOfJS (js : JS) (i : Ident) (h : identOfJS js = some i) (hp : q ∉ js.pub) :
    WFRec (recOfJS js) := by
  obtain ⟨h1, h2, h3, h4, h5, _⟩ := identOfJS_some js i h
  have hn0 : (0 : Int) ≤ js.iat := by
    have : (Consts.Obfs4.iatNone : Int) = 0 := by decide
    omega
  have hle : js.iat.toNat ≤ Consts.Obfs4.iatParanoid := by omega
  exact ⟨hexN_noq _ _ _ h1, hexN_noq _ _ _ h2, hp, hexSeed_noq _ _ h3, (iat_text _ hle).2⟩

/-- the state file written for a validated state loads back to that state -/
theorem load_enc (js : JS) (i : Ident) (h : identOfJS js = some i) (hp : q ∉ js.pub) :
    loadJS (encState (recOfJS js)) = some js := by
  obtain ⟨h1, h2, h3, h4, h5, _⟩ := identOfJS_some js i h
  have hn0 : (0 : Int) ≤ js.iat := by
    have : (Consts.Obfs4.iatNone : Int) = 0 := by decide
    omega
  have hle : js.iat.toNat ≤ Consts.Obfs4.iatParanoid := by omega
  obtain ⟨t1, t2⟩ := iat_text _ hle
  have w : WFRec (recOfJS js) :=
    ⟨hexN_noq _ _ _ h1, hexN_noq _ _ _ h2, hp, hexSeed_noq _ _ h3, t2⟩
  unfold loadJS
  rw [parse_enc _ w]
  simp only [jsOfRec, recOfJS, t1]
  have : Int.ofNat js.iat.toNat = js.iat := Int.toNat_of_nonneg hn0
  rw [this]

theorem recover_of_get (d : Dir) (js : JS) (i : Ident) (h : identOfJS js = some i) (hp : q ∉ js.pub)
    (hg : get d sfN = some (encState (recOfJS js))) : recover d = .valid i := by
  unfold recover
  simp only [sfN] at hg
  rw [hg]
  simp only [load_enc js i h hp, h]

/-! ## `finish` -/

theorem finish_err1 (cfg : Cfg) (pre : List Op) (js : JS) (a : Option Bytes) (h : iatChoice js a = none) :
    finish cfg pre js a = ⟨pre, .err⟩ := by
  unfold finish; rw [h]

theorem finish_err2 (cfg : Cfg) (pre : List Op) (js : JS) (a : Option Bytes) (v : Int)
    (h : iatChoice js a = some v) (hi : identOfJS { js with iat := v } = none) :
    finish cfg pre js a = ⟨pre, .err⟩ := by
  unfold finish; rw [h]; simp only [hi]

theorem finish_ok (cfg : Cfg) (pre : List Op) (js : JS) (a : Option Bytes) (v : Int) (i : Ident)
    (h : iatChoice js a = some v) (hi : identOfJS { js with iat := v } = some i) :
    finish cfg pre js a =
      ⟨pre ++ writeFile cfg.fixed bfN (bridgeText cfg i)
           ++ writeFile cfg.fixed sfN (encState (recOfJS { js with iat := v })), .ok i⟩ := by
  unfold finish; rw [h]; simp only [hi]

/-- a refused `finish` performs nothing beyond what preceded it -/
theorem finish_err_ops (cfg : Cfg) (pre : List Op) (js : JS) (a : Option Bytes)
    (h : (finish cfg pre js a).out = .err) : (finish cfg pre js a).ops = pre := by
  cases hch : iatChoice js a with
  | none => rw [finish_err1 cfg pre js a hch]
  | some v =>
    cases hid : identOfJS { js with iat := v } with
    | none => rw [finish_err2 cfg pre js a v hch hid]
    | some i => rw [finish_ok cfg pre js a v i hch hid] at h; cases h
/-- after a successful `finish` the state file holds the record of the presented identity -/
theorem finish_ok_get (cfg : Cfg) (d : Dir) (pre : List Op) (C : Bytes) (L : Bytes) :
    get (run d (pre ++ writeFile cfg.fixed bfN L ++ writeFile cfg.fixed sfN C)) sfN = some C := by
  rw [run_append]; exact run_writeFile_self _ _ _ _

theorem loadJS_noq (c : Bytes) (js : JS) (hl : loadJS c = some js) : q ∉ js.pub := by
  unfold loadJS at hl
  cases hp : parseState c with
  | none => simp [hp] at hl
  | some r =>
    simp only [hp] at hl
    obtain ⟨_, w⟩ := parse_sound _ _ hp
    unfold jsOfRec at hl
    cases hn : jsonNat r.iat with
    | none => simp [hn] at hl
    | some n =>
      simp only [hn, Option.some.injEq] at hl
      subst hl
      exact w.pub

theorem bf_ne_sftmp : bfN ≠ tmpName sfN := by decide

/-- a successful `finish` leaves behind exactly what it presents: the state file recovers to the
    presented identity and the bridge-line file is the one for it -/
theorem finish_ok_inv (cfg : Cfg) (d : Dir) (pre : List Op) (js : JS) (a : Option Bytes) (i : Ident)
    (hok : (finish cfg pre js a).out = .ok i) (hp : q ∉ js.pub) :
    recover (run d (finish cfg pre js a).ops) = .valid i ∧
    get (run d (finish cfg pre js a).ops) bfN = some (bridgeText cfg i) := by
  cases hch : iatChoice js a with
  | none => rw [finish_err1 cfg pre js a hch] at hok; cases hok
  | some v =>
    cases hid : identOfJS { js with iat := v } with
    | none => rw [finish_err2 cfg pre js a v hch hid] at hok; cases hok
    | some i' =>
      rw [finish_ok cfg pre js a v i' hch hid] at hok ⊢
      simp only [Outcome.ok.injEq] at hok
      subst hok
      refine ⟨recover_of_get _ _ i' hid hp (finish_ok_get cfg d pre _ _), ?_⟩
      rw [run_append, run_writeFile_other _ _ sfN bfN _ bf_ne_sf bf_ne_sftmp, run_append]
      exact run_writeFile_self _ _ _ _

/-! ## a start from a directory holding a valid identity, no identity arguments -/

/-- arguments that name no identity (at most an `iat-mode`) -/
def Args.iatOnly (a : Args) : Prop := a.nodeID = none ∧ a.priv = none ∧ a.seed = none

theorem start_loaded (cfg : Cfg) (d : Dir) (a : Args) (fresh : JS) (c : Bytes) (js : JS)
    (ha : a.iatOnly) (hc : get d sfN = some c) (hl : loadJS c = some js) :
    start cfg d a fresh = finish cfg [] js a.iat := by
  obtain ⟨h1, h2, h3⟩ := ha
  unfold start
  simp only [sfN] at hc
  simp only [h1, h2, h3, hc, hl]

end O4.SF
