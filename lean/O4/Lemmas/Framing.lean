import O4.Model.Framing
/-! Lemmas about the frame decoder/encoder model (core only). -/
namespace O4.Framing
open O4.Consts.Framing

theorem putBe16_length (n) : (putBe16 n).length = 2 := rfl

theorem be16_putBe16 (n : Nat) (h : n < 65536) (rest : Bytes) : be16 (putBe16 n ++ rest) = n := by
  simp [be16, putBe16, UInt8.toNat_ofNat']
  omega

theorem be16_append (b e : Bytes) (h : 2 ≤ b.length) : be16 (b ++ e) = be16 b := by
  match b, h with
  | x :: y :: r, _ => simp [be16]

theorem xor_cancel (a m : Nat) : (a ^^^ m) ^^^ m = a := by
  rw [Nat.xor_assoc, Nat.xor_self, Nat.xor_zero]

theorem xor_lt (a m : Nat) (ha : a < 65536) (hm : m < 65536) : a ^^^ m < 65536 :=
  Nat.xor_lt_two_pow (n := 16) ha hm

/-- every decoder step is prefix-stable: it consumes no more than it was given and fires
    identically when more bytes follow -/
theorem step_prefixStable (c : Crypto) : (decoder c).PrefixStable := by
  intro s b s' o n h
  simp only [decoder] at h ⊢
  unfold step at h ⊢
  cases hp : s.pending with
  | none =>
    simp only [hp] at h ⊢
    by_cases hl : b.length < lengthLength
    · simp [hl] at h
    · have h2 : 2 ≤ b.length := by simp [lengthLength] at hl; omega
      simp only [hl, ↓reduceIte] at h
      refine ⟨?_, fun e => ?_⟩
      · split at h
        · simp at h; simp [lengthLength] at *; omega
        · split at h <;> (simp at h; simp [lengthLength] at *; omega)
      · have : ¬ (b ++ e).length < lengthLength := by simp [lengthLength] at *; omega
        simp only [this, ↓reduceIte, be16_append b e h2]
        exact h
  | some p =>
    obtain ⟨len, inv⟩ := p
    simp only [hp] at h ⊢
    by_cases hl : b.length < len
    · simp [hl] at h
    · have hl' : len ≤ b.length := by omega
      simp only [hl, ↓reduceIte] at h
      refine ⟨?_, fun e => ?_⟩
      · split at h <;> (simp at h; omega)
      · have : ¬ (b ++ e).length < len := by simp; omega
        simp only [this, ↓reduceIte, List.take_append_of_le_length hl']
        exact h

/-- `BoxCorrect`: what the honest round trip needs of the link crypto -/
structure CryptoOK (c : Crypto) : Prop where
  seal_len  : ∀ n p, (c.sealB n p).length = p.length + 16
  open_seal : ∀ n p, c.openB n (c.sealB n p) = some p

/-- two steps decode one honest frame, whatever follows -/
theorem decode_one (c : Crypto) (hc : CryptoOK c) (k : Nat) (pkt rest : Bytes)
    (hp : pkt.length ≤ maximumFramePayloadLength) (hk : (k + 1) % ctrLimit ≠ 0) :
    ∃ s1, step c ⟨k, none⟩ (frameOf c k pkt ++ rest) = some (s1, [], 2) ∧
      step c s1 ((frameOf c k pkt ++ rest).drop 2) =
        some (⟨k + 1, none⟩, [Out.frame pkt], pkt.length + 16) ∧
      ((frameOf c k pkt ++ rest).drop 2).drop (pkt.length + 16) = rest := by
  have hlen := hc.seal_len (k + 1) pkt
  have hm : c.mask k % 65536 < 65536 := Nat.mod_lt _ (by decide)
  have hL : (c.sealB (k + 1) pkt).length < 65536 := by
    simp [maximumFramePayloadLength] at hp; omega
  refine ⟨⟨k, some (pkt.length + 16, false)⟩, ?_, ?_, ?_⟩
  · unfold step frameOf
    simp only [List.append_assoc]
    rw [be16_putBe16 _ (xor_lt _ _ hL hm), xor_cancel, hlen]
    have : ¬ (putBe16 ((pkt.length + 16) ^^^ (c.mask k % 65536)) ++ (c.sealB (k + 1) pkt ++ rest)).length
        < lengthLength := by simp [putBe16_length, lengthLength]
    simp only [this, ↓reduceIte, hk]
    have : ¬ (maxFrameLength < pkt.length + 16 ∨ pkt.length + 16 < minFrameLength) := by
      simp [minFrameLength, maxFrameLength, maximumFramePayloadLength] at *; omega
    simp [this, lengthLength]
  · unfold step frameOf
    simp only [List.append_assoc]
    have hd : (putBe16 ((c.sealB (k + 1) pkt).length ^^^ (c.mask k % 65536)) ++ (c.sealB (k + 1) pkt ++ rest)).drop 2
        = c.sealB (k + 1) pkt ++ rest := by
      simp [putBe16]
    rw [hd]
    have : ¬ (c.sealB (k + 1) pkt ++ rest).length < pkt.length + 16 := by simp [hlen]
    simp only [this, ↓reduceIte]
    have ht : (c.sealB (k + 1) pkt ++ rest).take (pkt.length + 16) = c.sealB (k + 1) pkt := by
      rw [← hlen]; simp
    rw [ht, hc.open_seal]
  · unfold frameOf
    simp [putBe16, ← hlen]

/-- ROUND TRIP: the decoder run on an honest stream yields exactly the packets, in order,
    and consumes the stream completely. -/
theorem roundtrip (c : Crypto) (hc : CryptoOK c) (pkts : List Bytes) (k : Nat)
    (hp : ∀ p ∈ pkts, p.length ≤ maximumFramePayloadLength)
    (hk : k + pkts.length < ctrLimit - 1) :
    run c (2 * pkts.length + 1) ⟨k, none⟩ (encodeAll c k pkts)
      = (⟨k + pkts.length, none⟩, pkts.map Out.frame, []) := by
  induction pkts generalizing k with
  | nil => simp [run, encodeAll, step, lengthLength]
  | cons p ps ih =>
    have hk1 : (k + 1) % ctrLimit ≠ 0 := by
      simp at hk
      have : k + 1 < ctrLimit := by omega
      rw [Nat.mod_eq_of_lt this]; omega
    obtain ⟨s1, h1, h2, h3⟩ := decode_one c hc k p (encodeAll c (k + 1) ps) (hp p (by simp)) hk1
    have hfuel : 2 * (p :: ps).length + 1 = (2 * ps.length + 1) + 1 + 1 := by simp; omega
    rw [hfuel, encodeAll]
    rw [run, h1]; simp only
    rw [run, h2]; simp only
    rw [h3, ih (k + 1) (fun q hq => hp q (by simp [hq])) (by simp at hk ⊢; omega)]
    simp; omega

/-- `BoxAuth` (INT-CTXT idealisation): a box opens under nonce `n` only if it is the box the
    honest sender sealed under nonce `n`; `sent n` is that sender's packet for nonce `n`. -/
structure BoxAuth (c : Crypto) (sent : Nat → Option Bytes) : Prop where
  auth : ∀ n box pkt, c.openB n box = some pkt → sent n = some pkt ∧ box = c.sealB n pkt

/-- every step that emits a frame emits the honest packet number `k+1` and moves `k` to `k+1`;
    no other step changes `k` -/
theorem step_emits_honest (c : Crypto) (sent) (ha : BoxAuth c sent)
    (s : Dec) (b : Bytes) (s' : Dec) (o : List Out) (n : Nat)
    (h : step c s b = some (s', o, n)) :
    (o = [] ∧ s'.k = s.k) ∨ (∃ e, o = [Out.err e] ∧ s' = s) ∨
    (∃ pkt, o = [Out.frame pkt] ∧ sent (s.k + 1) = some pkt ∧ s'.k = s.k + 1 ∧ s'.pending = none) := by
  unfold step at h
  cases hp : s.pending with
  | none =>
    simp only [hp] at h
    split at h
    · simp at h
    · split at h
      · simp at h; obtain ⟨rfl, rfl, _⟩ := h; exact Or.inr (Or.inl ⟨_, rfl, rfl⟩)
      · split at h <;> (simp at h; obtain ⟨rfl, rfl, _⟩ := h; exact Or.inl ⟨rfl, rfl⟩)
  | some p =>
    obtain ⟨len, inv⟩ := p
    simp only [hp] at h
    split at h
    · simp at h
    · split at h
      · rename_i pkt heq
        simp at h
        obtain ⟨rfl, rfl, _⟩ := h
        exact Or.inr (Or.inr ⟨pkt, rfl, (ha.auth _ _ _ heq).1, rfl, rfl⟩)
      · simp at h
        obtain ⟨rfl, rfl, _⟩ := h
        exact Or.inr (Or.inl ⟨_, rfl, rfl⟩)

/-- in the box phase, any bytes other than the honest box of that nonce yield an error -/
theorem bad_box_errors (c : Crypto) (sent) (ha : BoxAuth c sent) (s : Dec) (len : Nat) (inv : Bool)
    (b : Bytes) (hp : s.pending = some (len, inv)) (hl : len ≤ b.length)
    (hbad : inv = true ∨ ∀ pkt, sent (s.k + 1) = some pkt → b.take len ≠ c.sealB (s.k + 1) pkt) :
    step c s b = some (s, [Out.err .tagMismatch], len) := by
  unfold step
  simp only [hp]
  have : ¬ b.length < len := by omega
  simp only [this, ↓reduceIte]
  cases hopen : c.openB (s.k + 1) (b.take len) with
  | none => rfl
  | some pkt =>
    cases inv with
    | true => rfl
    | false =>
      rcases hbad with h | h
      · simp at h
      · have := ha.auth _ _ _ hopen
        exact absurd this.2 (h pkt this.1)

end O4.Framing
