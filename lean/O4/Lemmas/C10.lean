import O4.Model.C10Bounds
import O4.Model.Obfs4Conn
import O4.Model.Handshake
import O4.Lemmas.Framing
/-!
# Helper definitions and lemmas for C10 (core only)

* `CryptoSane`: the two facts about the link crypto the *resource* claims need (they say nothing
  about secrecy or authenticity): the replacement length drawn for an out-of-range frame length
  is in range (`csrand.IntRange(minFrameLength, maxFrameLength)`), and an opened box is
  `secretbox.Overhead` (= `minFrameLength`) bytes shorter than the box.
* `DecOK`: the decoder's pending frame length is always within `[minFrameLength, maxFrameLength]`.
* one iteration of the `readPackets` buffer loop: consumes at least `lengthLength` bytes, never
  more than the buffer holds, and adds to `receiveDecodedBuffer` less than it consumed.
* `hsLoop`: the handshake read loop of `clientHandshake` / `serverHandshake` (obfs4.go), generic
  in the parser.
-/
namespace O4.C10
open O4 O4.Framing O4.Obfs4 O4.Consts.Framing O4.Consts.Obfs4

structure CryptoSane (c : Crypto) : Prop where
  rnd_range : ∀ k, minFrameLength ≤ c.rnd k ∧ c.rnd k ≤ maxFrameLength
  open_len : ∀ n box pkt, c.openB n box = some pkt → pkt.length + minFrameLength = box.length

/-- the pending frame length, when known, is a legal frame length -/
def DecOK (d : Dec) : Prop :=
  ∀ len inv, d.pending = some (len, inv) → minFrameLength ≤ len ∧ len ≤ maxFrameLength

theorem decOK_init : DecOK Dec.init := by
  intro len inv h; simp [Dec.init] at h

/-- shape of one decoder phase -/
theorem step_shape (c : Crypto) (hc : CryptoSane c) (s : Dec) (b : Bytes) (s' : Dec)
    (o : List Out) (n : Nat) (hs : DecOK s) (h : step c s b = some (s', o, n)) :
    DecOK s' ∧ n ≤ b.length ∧ lengthLength ≤ n ∧
    (o = [] ∨ (∃ e, o = [Out.err e]) ∨
      (∃ pkt, o = [Out.frame pkt] ∧ pkt.length + minFrameLength ≤ n)) := by
  unfold step at h
  cases hp : s.pending with
  | none =>
    simp only [hp] at h
    split at h
    · simp at h
    · rename_i hl
      have h2 : lengthLength ≤ b.length := by omega
      split at h
      · simp at h; obtain ⟨rfl, rfl, rfl⟩ := h
        exact ⟨hs, h2, Nat.le_refl _, Or.inr (Or.inl ⟨_, rfl⟩)⟩
      · split at h
        · simp at h; obtain ⟨rfl, rfl, rfl⟩ := h
          refine ⟨?_, h2, Nat.le_refl _, Or.inl rfl⟩
          intro len inv hpend
          simp at hpend
          obtain ⟨rfl, _⟩ := hpend
          exact hc.rnd_range s.k
        · rename_i hr
          simp at h; obtain ⟨rfl, rfl, rfl⟩ := h
          refine ⟨?_, h2, Nat.le_refl _, Or.inl rfl⟩
          intro len inv hpend
          simp at hpend
          obtain ⟨rfl, _⟩ := hpend
          omega
  | some p =>
    obtain ⟨len, inv⟩ := p
    have hlen := hs len inv hp
    have hmin : lengthLength ≤ minFrameLength := by decide
    simp only [hp] at h
    split at h
    · simp at h
    · rename_i hl
      split at h
      · rename_i pkt heq
        simp at h; obtain ⟨rfl, rfl, rfl⟩ := h
        have hb := hc.open_len _ _ _ heq
        have htk : (b.take len).length = len := by simp; omega
        refine ⟨?_, by omega, by omega, Or.inr (Or.inr ⟨pkt, rfl, by omega⟩)⟩
        intro l i hpend; simp at hpend
      · simp at h; obtain ⟨rfl, rfl, rfl⟩ := h
        exact ⟨hs, by omega, by omega, Or.inr (Or.inl ⟨_, rfl⟩)⟩

/-- **range checks before slicing** (`packet.go:131-144`): whenever `parsePacket` does not
    reject, the payload slice `pkt[3 : 3+payloadLen]` lies inside the packet -/
theorem parsePacket_in_range (srv : Bool) (pkt : Bytes) (hnb : ∀ e, parsePacket srv pkt ≠ .bad e) :
    packetOverhead ≤ pkt.length ∧ packetOverhead + be16 (pkt.drop 1) ≤ pkt.length := by
  unfold parsePacket at hnb
  by_cases h1 : pkt.length < packetOverhead
  · rw [if_pos h1] at hnb; exact absurd rfl (hnb _)
  · rw [if_neg h1] at hnb
    by_cases h2 : be16 (pkt.drop 1) > pkt.length - packetOverhead
    · dsimp only at hnb
      rw [if_pos h2] at hnb; exact absurd rfl (hnb _)
    · omega

theorem parsePacket_payload_len (srv : Bool) (pkt b : Bytes) (h : parsePacket srv pkt = .payload b) :
    b = (pkt.drop packetOverhead).take (be16 (pkt.drop 1)) ∧ b.length = be16 (pkt.drop 1) ∧
    0 < b.length ∧ packetOverhead + b.length ≤ pkt.length := by
  unfold parsePacket at h
  by_cases h1 : pkt.length < packetOverhead
  · rw [if_pos h1] at h; cases h
  · rw [if_neg h1] at h
    dsimp only at h
    by_cases h2 : be16 (pkt.drop 1) > pkt.length - packetOverhead
    · rw [if_pos h2] at h; cases h
    · rw [if_neg h2] at h
      have hpo : packetOverhead = 3 := rfl
      split at h
      · split at h
        · rename_i hpos
          cases h
          refine ⟨by rw [hpo], ?_, ?_, ?_⟩ <;>
            (simp only [List.length_take, List.length_drop]; omega)
        · cases h
      · split at h
        · split at h <;> cases h
        · cases h

theorem apply_frame_decoded (srv : Bool) (rx : Rx) (pkt : Bytes) :
    (rx.apply (liftOut srv (.frame pkt))).decoded.length ≤ rx.decoded.length + pkt.length := by
  cases hpp : parsePacket srv pkt with
  | payload b =>
    obtain ⟨_, _, _, hlen⟩ := parsePacket_payload_len srv pkt b hpp
    simp only [liftOut, hpp, Rx.apply, List.length_append]
    omega
  | seed b => simp only [liftOut, hpp, Rx.apply]; omega
  | ignored => simp only [liftOut, hpp, Rx.apply]; omega
  | bad e => simp only [liftOut, hpp, Rx.apply]; omega

theorem foldl_apply_rxBuf (outs : List RxOut) (rx : Rx) :
    (outs.foldl Rx.apply rx).rxBuf = rx.rxBuf ∧ (outs.foldl Rx.apply rx).dec = rx.dec := by
  induction outs generalizing rx with
  | nil => exact ⟨rfl, rfl⟩
  | cons o os ih =>
    simp only [List.foldl_cons]
    obtain ⟨h1, h2⟩ := ih (rx.apply o)
    rw [h1, h2]
    cases o with
    | err e => exact ⟨rfl, rfl⟩
    | act a => cases a <;> exact ⟨rfl, rfl⟩

/-- one iteration of the `bufferLoop`: progress and no growth of the total -/
theorem iter_shape (c : Crypto) (hc : CryptoSane c) (srv : Bool) (rx : Rx) (d : Dec)
    (outs : List RxOut) (n : Nat) (hd : DecOK rx.dec)
    (h : rxStep c srv rx.dec rx.rxBuf = some (d, outs, n)) :
    let rx1 := outs.foldl Rx.apply { rx with dec := d, rxBuf := rx.rxBuf.drop n }
    DecOK rx1.dec ∧ lengthLength ≤ n ∧ n ≤ rx.rxBuf.length ∧
    rx1.rxBuf.length + n = rx.rxBuf.length ∧
    rx1.decoded.length ≤ rx.decoded.length + n := by
  intro rx1
  unfold rxStep at h
  cases hst : Framing.step c rx.dec rx.rxBuf with
  | none => simp [hst] at h
  | some r =>
    obtain ⟨s', o, n'⟩ := r
    simp only [hst, Option.some.injEq, Prod.mk.injEq] at h
    obtain ⟨rfl, rfl, rfl⟩ := h
    obtain ⟨hd', hn, h2, hsh⟩ := step_shape c hc _ _ _ _ _ hd hst
    obtain ⟨hb, hdec⟩ := foldl_apply_rxBuf (o.map (liftOut srv))
      { rx with dec := s', rxBuf := rx.rxBuf.drop n' }
    have hrb : rx1.rxBuf.length + n' = rx.rxBuf.length := by
      show (List.foldl Rx.apply _ _).rxBuf.length + n' = _
      rw [hb]; simp only [List.length_drop]; omega
    refine ⟨by show DecOK (List.foldl Rx.apply _ _).dec; rw [hdec]; exact hd', h2, hn, hrb, ?_⟩
    rcases hsh with rfl | ⟨e, rfl⟩ | ⟨pkt, rfl, hpk⟩
    · show rx.decoded.length ≤ _; omega
    · show rx.decoded.length ≤ _; omega
    · have := apply_frame_decoded srv { rx with dec := s', rxBuf := rx.rxBuf.drop n' } pkt
      show (Rx.apply _ (liftOut srv (Out.frame pkt))).decoded.length ≤ _
      have hd2 : ({ rx with dec := s', rxBuf := rx.rxBuf.drop n' } : Rx).decoded = rx.decoded := rfl
      rw [hd2] at this
      omega

/-- the buffer loop never increases `receiveBuffer + receiveDecodedBuffer`, keeps the decoder
    state legal and only ever shortens `receiveBuffer` -/
theorem processBuffer_total (c : Crypto) (hc : CryptoSane c) (srv : Bool) :
    ∀ (fuel : Nat) (rx : Rx), DecOK rx.dec →
      DecOK (processBuffer c srv fuel rx).1.dec ∧
      (processBuffer c srv fuel rx).1.rxBuf.length + (processBuffer c srv fuel rx).1.decoded.length
        ≤ rx.rxBuf.length + rx.decoded.length ∧
      (processBuffer c srv fuel rx).1.rxBuf.length ≤ rx.rxBuf.length := by
  intro fuel
  induction fuel with
  | zero => intro rx hd; exact ⟨hd, Nat.le_refl _, Nat.le_refl _⟩
  | succ fuel ih =>
    intro rx hd
    unfold processBuffer
    cases hst : rxStep c srv rx.dec rx.rxBuf with
    | none => exact ⟨hd, Nat.le_refl _, Nat.le_refl _⟩
    | some r =>
      obtain ⟨d, outs, n⟩ := r
      obtain ⟨h1, h2, h3, h4, h5⟩ := iter_shape c hc srv rx d outs n hd hst
      simp only
      split
      · refine ⟨h1, ?_, ?_⟩ <;> dsimp only <;> omega
      · obtain ⟨i1, i2, i3⟩ := ih _ h1
        exact ⟨i1, by omega, by omega⟩

/-- **the fuel argument**: every iteration consumes at least `lengthLength = 2` bytes, so a
    loop given more than half the buffer length in fuel stops because the decoder needs more
    data (or on an error), never because the fuel ran out -/
theorem processBuffer_settles (c : Crypto) (hc : CryptoSane c) (srv : Bool) :
    ∀ (fuel : Nat) (rx : Rx), DecOK rx.dec → rx.rxBuf.length < 2 * fuel →
      (processBuffer c srv fuel rx).2 = none →
      rxStep c srv (processBuffer c srv fuel rx).1.dec (processBuffer c srv fuel rx).1.rxBuf = none := by
  intro fuel
  induction fuel with
  | zero => intro rx _ hl; omega
  | succ fuel ih =>
    intro rx hd hl
    unfold processBuffer
    cases hst : rxStep c srv rx.dec rx.rxBuf with
    | none => intro _; exact hst
    | some r =>
      obtain ⟨d, outs, n⟩ := r
      obtain ⟨h1, h2, h3, h4, h5⟩ := iter_shape c hc srv rx d outs n hd hst
      have hll : lengthLength = 2 := rfl
      simp only
      split
      · intro h; simp at h
      · exact ih _ h1 (by omega)

/-- a settled decoder holds less than one frame body -/
theorem settled_short (c : Crypto) (srv : Bool) (d : Dec) (b : Bytes) (hd : DecOK d)
    (h : rxStep c srv d b = none) : b.length < maxFrameLength := by
  unfold rxStep at h
  cases hst : Framing.step c d b with
  | some r => simp [hst] at h
  | none =>
    unfold step at hst
    cases hp : d.pending with
    | none =>
      simp only [hp] at hst
      have : lengthLength < maxFrameLength := by decide
      split at hst
      · omega
      · split at hst
        · simp at hst
        · split at hst <;> simp at hst
    | some p =>
      obtain ⟨len, inv⟩ := p
      have := hd len inv hp
      simp only [hp] at hst
      split at hst
      · omega
      · split at hst <;> simp at hst

/-! ## the handshake read loop -/

/-- `for { n := Read(hsBuf[:]); receiveBuffer.Write(hsBuf[:n]); parse(receiveBuffer.Bytes());
    if ErrMarkNotFoundYet { continue }; … return }` — generic in the parser.  The input is one
    item per successful `Read` (the chunk plus whatever else the parser depends on at that
    moment, e.g. the time); `parse` answers `true` for "retry".
    Result: final state, final buffer, and whether the loop has returned (`false` = it is
    blocked in `Read`). -/
def hsLoop {σ ι : Type} (chunk : ι → Bytes) (parse : σ → ι → Bytes → σ × Bool) :
    σ → Bytes → List ι → σ × Bytes × Bool
  | s, buf, [] => (s, buf, false)
  | s, buf, i :: rest =>
    match parse s i (buf ++ chunk i) with
    | (s', true) => hsLoop chunk parse s' (buf ++ chunk i) rest
    | (s', false) => (s', buf ++ chunk i, true)

theorem hsLoop_bounded {σ ι : Type} (chunk : ι → Bytes) (parse : σ → ι → Bytes → σ × Bool)
    (M : Nat) (hretry : ∀ s i b, (parse s i b).2 = true → b.length < M) :
    ∀ (items : List ι) (s : σ) (buf : Bytes), buf.length < M →
      (∀ i ∈ items, (chunk i).length ≤ M) →
      (hsLoop chunk parse s buf items).2.1.length ≤ 2 * M - 1 ∧
      ((hsLoop chunk parse s buf items).2.2 = false →
        (hsLoop chunk parse s buf items).2.1.length < M) := by
  intro items
  induction items with
  | nil => intro s buf hb _; exact ⟨by simp [hsLoop]; omega, fun _ => by simpa [hsLoop] using hb⟩
  | cons i rest ih =>
    intro s buf hb hch
    have hci : (chunk i).length ≤ M := hch i (by simp)
    unfold hsLoop
    cases hp : parse s i (buf ++ chunk i) with
    | mk s' retry =>
      cases retry with
      | true =>
        have hlt := hretry s i (buf ++ chunk i) (by rw [hp])
        exact ih s' (buf ++ chunk i) hlt (fun j hj => hch j (by simp [hj]))
      | false =>
        simp only [List.length_append]
        exact ⟨by omega, fun h => by simp at h⟩

end O4.C10
