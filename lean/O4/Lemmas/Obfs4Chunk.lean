import O4.Lemmas.Framing
import O4.Model.Obfs4Session
/-!
# obfs4 data phase, receive side: chunk invariance, honest delivery, no stall (core only)

The receive loop (`processBuffer`, `readPackets`, `read`, `session…`) is related to the generic
small-step `Machine` of `Lemmas/Incremental.lean`:

* `rxMachine` (decoder phase + packet handling) is prefix-stable;
* `haltM` wraps it with "stop at the first error", so that the end of a `processBuffer` loop —
  `ErrAgain` *or* an error — is ordinary quiescence and `Runs.det` applies;
* `processBuffer_spec`, `feedAll_spec`, `read_ret_feed`, `sessionUntilErr_spec` express the
  executable functions as `Runs` of `haltM` over the concatenated stream;
* `honest_runs` turns `Framing.roundtrip` into such a run for the honest wire stream.
-/
set_option autoImplicit false

namespace O4.Machine
variable {σ Out : Type} (M : Machine σ Out)

/-- a run from the same start is an initial part of the run to quiescence -/
theorem Runs.prefix_of_quiescent {s b o1 s1 b1 o2 s2 b2}
    (h1 : M.Runs s b o1 s1 b1) (h2 : M.Runs s b o2 s2 b2) (q2 : M.Quiescent s2 b2) :
    ∃ o3, M.Runs s1 b1 o3 s2 b2 ∧ o2 = o1 ++ o3 := by
  induction h1 generalizing o2 with
  | refl => exact ⟨o2, h2, rfl⟩
  | step hs _ ih =>
    cases h2 with
    | refl => simp only [Quiescent] at q2; rw [q2] at hs; cases hs
    | step hs' h2' =>
      rw [hs] at hs'; cases hs'
      obtain ⟨o3, hr, ho⟩ := ih h2'
      exact ⟨o3, hr, by rw [ho, List.append_assoc]⟩

/-- from a quiescent configuration only the empty run exists -/
theorem Runs.of_quiescent {s b o s1 b1} (q : M.Quiescent s b) (h : M.Runs s b o s1 b1) :
    o = [] ∧ s1 = s ∧ b1 = b := by
  cases h with
  | refl => exact ⟨rfl, rfl, rfl⟩
  | step hs _ => simp only [Quiescent] at q; rw [q] at hs; cases hs

end O4.Machine

namespace O4.Framing

/-- the executable `run` is a `Runs` of the decoder machine -/
theorem run_Runs (c : Crypto) (fuel : Nat) (s : Dec) (b : Bytes) (s' : Dec) (o : List Out) (r : Bytes)
    (h : run c fuel s b = (s', o, r)) : (decoder c).Runs s b o s' r := by
  induction fuel generalizing s b s' o r with
  | zero =>
    simp only [run, Prod.mk.injEq] at h
    obtain ⟨rfl, rfl, rfl⟩ := h
    exact Machine.Runs.refl _ _
  | succ fuel ih =>
    rw [run] at h
    cases hs : step c s b with
    | none =>
      rw [hs] at h
      simp only [Prod.mk.injEq] at h
      obtain ⟨rfl, rfl, rfl⟩ := h
      exact Machine.Runs.refl _ _
    | some t =>
      obtain ⟨s1, o1, n⟩ := t
      rw [hs] at h
      simp only at h
      cases hr : run c fuel s1 (b.drop n) with
      | mk s2 t2 =>
        obtain ⟨os, r2⟩ := t2
        rw [hr] at h
        simp only [Prod.mk.injEq] at h
        obtain ⟨rfl, rfl, rfl⟩ := h
        exact Machine.Runs.step (M := decoder c) hs (ih _ _ _ _ _ hr)

end O4.Framing

namespace O4.Obfs4
open O4.Framing O4.Consts.Obfs4

/-! ## the machines -/

theorem rxMachine_prefixStable (c : Crypto) (srv : Bool) : (rxMachine c srv).PrefixStable := by
  intro s b s' o n h
  simp only [rxMachine, rxStep] at h ⊢
  cases hs : Framing.step c s b with
  | none => rw [hs] at h; cases h
  | some t =>
    obtain ⟨s1, o1, n1⟩ := t
    rw [hs] at h
    simp only [Option.some.injEq, Prod.mk.injEq] at h
    obtain ⟨rfl, rfl, rfl⟩ := h
    obtain ⟨hn, hst⟩ := step_prefixStable c s b s1 o1 n1 hs
    refine ⟨hn, fun e => ?_⟩
    have := hst e
    simp only [decoder] at this
    rw [this]

/-- state of the halting wrapper: decoder state and the error that stopped the loop -/
abbrev HS := Dec × Option RxErr

/-- one `rxStep`, unless an error has already been reported; an error among the outputs of the
    step is latched -/
def haltStep (c : Crypto) (srv : Bool) : HS → Bytes → Option (HS × List RxOut × Nat)
  | (_, some _), _ => none
  | (s, none), b =>
    match rxStep c srv s b with
    | none => none
    | some (s', o, n) => some ((s', o.findSome? isErr), o, n)

def haltM (c : Crypto) (srv : Bool) : Machine HS RxOut := ⟨haltStep c srv⟩

theorem haltM_prefixStable (c : Crypto) (srv : Bool) : (haltM c srv).PrefixStable := by
  intro s b s' o n h
  obtain ⟨d, e⟩ := s
  cases e with
  | some e => simp [haltM, haltStep] at h
  | none =>
    simp only [haltM, haltStep] at h ⊢
    cases hs : rxStep c srv d b with
    | none => rw [hs] at h; cases h
    | some t =>
      obtain ⟨s1, o1, n1⟩ := t
      rw [hs] at h
      simp only [Option.some.injEq, Prod.mk.injEq] at h
      obtain ⟨rfl, rfl, rfl⟩ := h
      obtain ⟨hn, hst⟩ := rxMachine_prefixStable c srv d b s1 o1 n1 hs
      refine ⟨hn, fun e => ?_⟩
      have := hst e
      simp only [rxMachine] at this
      rw [this]

theorem halt_quiescent_err (c : Crypto) (srv : Bool) (d : Dec) (e : RxErr) (b : Bytes) :
    (haltM c srv).Quiescent (d, some e) b := rfl

theorem halt_quiescent_iff (c : Crypto) (srv : Bool) (d : Dec) (b : Bytes) :
    (haltM c srv).Quiescent (d, none) b ↔ rxStep c srv d b = none := by
  simp only [Machine.Quiescent, haltM, haltStep]
  cases rxStep c srv d b with
  | none => simp
  | some t => simp

theorem settled_iff (c : Crypto) (srv : Bool) (rx : Rx) :
    Settled c srv rx ↔ (haltM c srv).Quiescent (rx.dec, none) rx.rxBuf :=
  (halt_quiescent_iff c srv rx.dec rx.rxBuf).symm

theorem settled_init (c : Crypto) (srv : Bool) : Settled c srv Rx.init := by
  simp [Settled, rxStep, Rx.init, Dec.init, Framing.step, Consts.Framing.lengthLength]

/-- `Settled` only looks at the decoder state and the receive buffer -/
theorem Settled.congr {c : Crypto} {srv : Bool} {rx rx' : Rx} (h : Settled c srv rx)
    (hd : rx'.dec = rx.dec) (hb : rx'.rxBuf = rx.rxBuf) : Settled c srv rx' := by
  simp only [Settled] at h ⊢; rw [hd, hb]; exact h

/-- a run that has reported an error has stopped -/
theorem halt_runs_err {c : Crypto} {srv : Bool} {d : Dec} {e : RxErr} {b o s1 b1}
    (h : (haltM c srv).Runs (d, some e) b o s1 b1) : o = [] ∧ s1 = (d, some e) ∧ b1 = b :=
  Machine.Runs.of_quiescent _ (halt_quiescent_err c srv d e b) h

/-! ## what a list of outputs does to the connection state -/

/-- application bytes carried by a list of outputs -/
def decodedOf : List RxOut → Bytes
  | [] => []
  | .act (.payload b) :: r => b ++ decodedOf r
  | _ :: r => decodedOf r

/-- PRNG seeds carried by a list of outputs -/
def seedsOf : List RxOut → List Bytes
  | [] => []
  | .act (.seed b) :: r => b :: seedsOf r
  | _ :: r => seedsOf r

theorem decodedOf_append (a b : List RxOut) : decodedOf (a ++ b) = decodedOf a ++ decodedOf b := by
  induction a with
  | nil => rfl
  | cons x r ih =>
    cases x with
    | err e => simpa [decodedOf] using ih
    | act a => cases a <;> simp [decodedOf, ih]

theorem seedsOf_append (a b : List RxOut) : seedsOf (a ++ b) = seedsOf a ++ seedsOf b := by
  induction a with
  | nil => rfl
  | cons x r ih =>
    cases x with
    | err e => simpa [seedsOf] using ih
    | act a => cases a <;> simp [seedsOf, ih]

theorem foldl_apply (outs : List RxOut) (rx : Rx) :
    outs.foldl Rx.apply rx =
      { rx with decoded := rx.decoded ++ decodedOf outs, seeds := rx.seeds ++ seedsOf outs } := by
  induction outs generalizing rx with
  | nil => simp [decodedOf, seedsOf]
  | cons x r ih =>
    rw [List.foldl_cons, ih]
    cases x with
    | err e => simp [Rx.apply, decodedOf, seedsOf]
    | act a => cases a <;> simp [Rx.apply, decodedOf, seedsOf]

/-! ## the buffer loop -/

/-- the termination measure of `processBuffer` -/
def pend (d : Dec) : Nat := if d.pending.isSome then 1 else 0

/-- a step that reports no error strictly decreases `2 * |buffer| + [length known]` -/
theorem rxStep_measure (c : Crypto) (srv : Bool) (d : Dec) (b : Bytes) (d' : Dec) (o : List RxOut) (n : Nat)
    (h : rxStep c srv d b = some (d', o, n)) (hne : o.findSome? isErr = none) :
    n ≤ b.length ∧ 2 * (b.length - n) + pend d' < 2 * b.length + pend d := by
  have hn := (rxMachine_prefixStable c srv d b d' o n h).1
  refine ⟨hn, ?_⟩
  simp only [rxStep] at h
  cases hs : Framing.step c d b with
  | none => rw [hs] at h; cases h
  | some t =>
    obtain ⟨s1, o1, n1⟩ := t
    rw [hs] at h
    simp only [Option.some.injEq, Prod.mk.injEq] at h
    obtain ⟨rfl, rfl, rfl⟩ := h
    unfold Framing.step at hs
    cases hp : d.pending with
    | none =>
      simp only [hp] at hs
      split at hs
      · cases hs
      · rename_i hl
        split at hs
        · simp only [Option.some.injEq, Prod.mk.injEq] at hs
          obtain ⟨_, rfl, _⟩ := hs
          simp [liftOut, isErr] at hne
        · split at hs <;>
          · simp only [Option.some.injEq, Prod.mk.injEq] at hs
            obtain ⟨rfl, _, rfl⟩ := hs
            simp [pend, hp, Consts.Framing.lengthLength] at hl ⊢
            omega
    | some p =>
      obtain ⟨len, inv⟩ := p
      simp only [hp] at hs
      split at hs
      · cases hs
      · split at hs
        · simp only [Option.some.injEq, Prod.mk.injEq] at hs
          obtain ⟨rfl, _, rfl⟩ := hs
          simp [pend, hp]
          omega
        · simp only [Option.some.injEq, Prod.mk.injEq] at hs
          obtain ⟨_, rfl, _⟩ := hs
          simp [liftOut, isErr] at hne

/-- **the buffer loop runs the halting machine to quiescence** (with enough fuel, which
    `procFuel` provides): it ends because the decoder needs more input or because of the first
    error, and the state records exactly the outputs emitted on the way. -/
theorem processBuffer_spec (c : Crypto) (srv : Bool) (fuel : Nat) (rx : Rx)
    (hf : 2 * rx.rxBuf.length + pend rx.dec < fuel) :
    ∃ outs, (haltM c srv).Runs (rx.dec, none) rx.rxBuf outs
        ((processBuffer c srv fuel rx).1.dec, (processBuffer c srv fuel rx).2)
        (processBuffer c srv fuel rx).1.rxBuf ∧
      (haltM c srv).Quiescent ((processBuffer c srv fuel rx).1.dec, (processBuffer c srv fuel rx).2)
        (processBuffer c srv fuel rx).1.rxBuf ∧
      (processBuffer c srv fuel rx).1.decoded = rx.decoded ++ decodedOf outs ∧
      (processBuffer c srv fuel rx).1.seeds = rx.seeds ++ seedsOf outs := by
  induction fuel generalizing rx with
  | zero => omega
  | succ fuel ih =>
    rw [processBuffer]
    cases hs : rxStep c srv rx.dec rx.rxBuf with
    | none =>
      refine ⟨[], Machine.Runs.refl _ _, ?_, by simp [decodedOf], by simp [seedsOf]⟩
      exact (halt_quiescent_iff c srv _ _).2 hs
    | some t =>
      obtain ⟨d, outs, n⟩ := t
      simp only
      have hstep : (haltM c srv).step (rx.dec, none) rx.rxBuf
          = some ((d, outs.findSome? isErr), outs, n) := by
        simp only [haltM, haltStep, hs]
      rw [foldl_apply]
      cases he : outs.findSome? isErr with
      | some e =>
        simp only
        refine ⟨outs, ?_, halt_quiescent_err c srv _ _ _, rfl, rfl⟩
        rw [he] at hstep
        have := Machine.Runs.step (M := haltM c srv) hstep (Machine.Runs.refl _ _)
        simpa using this
      | none =>
        simp only
        obtain ⟨hn, hm⟩ := rxStep_measure c srv rx.dec rx.rxBuf d outs n hs he
        obtain ⟨outs2, hr, hq, hd, hsd⟩ := ih
          { dec := d, rxBuf := rx.rxBuf.drop n, decoded := rx.decoded ++ decodedOf outs,
            seeds := rx.seeds ++ seedsOf outs } (by simp only [List.length_drop]; omega)
        refine ⟨outs ++ outs2, ?_, hq, ?_, ?_⟩
        · rw [he] at hstep
          exact Machine.Runs.step (M := haltM c srv) hstep hr
        · rw [hd, decodedOf_append, List.append_assoc]
        · rw [hsd, seedsOf_append, List.append_assoc]

theorem procFuel_ok (rx : Rx) : 2 * rx.rxBuf.length + pend rx.dec < procFuel rx := by
  simp only [procFuel, pend]; split <;> omega

/-! ## one network read, several network reads -/

/-- `readPackets` on a data chunk: the halting machine run to quiescence on buffer ++ chunk -/
theorem readPackets_data_spec (c : Crypto) (srv : Bool) (rx : Rx) (ch : Bytes) (rx' : Rx) (e : Option RxErr)
    (h : readPackets c srv rx (.data ch) = (rx', e)) :
    ∃ outs, (haltM c srv).Runs (rx.dec, none) (rx.rxBuf ++ ch) outs (rx'.dec, e) rx'.rxBuf ∧
      (haltM c srv).Quiescent (rx'.dec, e) rx'.rxBuf ∧
      rx'.decoded = rx.decoded ++ decodedOf outs ∧ rx'.seeds = rx.seeds ++ seedsOf outs := by
  simp only [readPackets] at h
  have := processBuffer_spec c srv _ { rx with rxBuf := rx.rxBuf ++ ch } (procFuel_ok _)
  rw [h] at this
  exact this

/-- **feeding chunks = running the halting machine on the concatenation.**  From a settled
    state (or with at least one chunk) `feedAll` ends in the quiescent end point of the run on
    `buffer ++ chunks.flatten`; `rest` (chunks not looked at any more) is empty unless an error
    stopped the feeding. -/
theorem feedAll_spec (c : Crypto) (srv : Bool) (rx : Rx) (cs : List Bytes) (rx' : Rx) (e : Option RxErr)
    (hs : Settled c srv rx ∨ cs ≠ []) (h : feedAll c srv rx cs = (rx', e)) :
    ∃ outs rest, (haltM c srv).Runs (rx.dec, none) (rx.rxBuf ++ cs.flatten) outs (rx'.dec, e) (rx'.rxBuf ++ rest) ∧
      (haltM c srv).Quiescent (rx'.dec, e) (rx'.rxBuf ++ rest) ∧ (e = none → rest = []) ∧
      rx'.decoded = rx.decoded ++ decodedOf outs ∧ rx'.seeds = rx.seeds ++ seedsOf outs := by
  induction cs generalizing rx with
  | nil =>
    simp only [feedAll, Prod.mk.injEq] at h
    obtain ⟨rfl, rfl⟩ := h
    have hs' : Settled c srv rx := by
      rcases hs with hs | hs
      · exact hs
      · exact absurd rfl hs
    refine ⟨[], [], ?_, ?_, fun _ => rfl, by simp [decodedOf], by simp [seedsOf]⟩
    · simpa using Machine.Runs.refl (M := haltM c srv) _ _
    · simpa using (settled_iff c srv rx).1 hs'
  | cons ch rest ih =>
    rw [feedAll] at h
    cases hr : readPackets c srv rx (.data ch) with
    | mk rx1 e1 =>
      obtain ⟨outs1, hr1, hq1, hd1, hsd1⟩ := readPackets_data_spec c srv rx ch rx1 e1 hr
      rw [hr] at h
      cases e1 with
      | some e1 =>
        simp only [Prod.mk.injEq] at h
        obtain ⟨rfl, rfl⟩ := h
        refine ⟨outs1, rest.flatten, ?_, halt_quiescent_err c srv _ _ _, by simp, hd1, hsd1⟩
        have := hr1.append _ (haltM_prefixStable c srv) rest.flatten
        simpa [List.append_assoc] using this
      | none =>
        simp only at h
        have hs1 : Settled c srv rx1 := (settled_iff c srv rx1).2 hq1
        obtain ⟨outs2, rest2, hr2, hq2, hn2, hd2, hsd2⟩ := ih rx1 (Or.inl hs1) h
        refine ⟨outs1 ++ outs2, rest2, ?_, hq2, hn2, ?_, ?_⟩
        · have := Machine.feed_two (haltM c srv) (haltM_prefixStable c srv) hr1 hr2
          simpa [List.append_assoc] using this
        · rw [hd2, hd1, decodedOf_append, List.append_assoc]
        · rw [hsd2, hsd1, seedsOf_append, List.append_assoc]

/-- after an error-free feeding the state is settled -/
theorem feedAll_settled (c : Crypto) (srv : Bool) (rx : Rx) (cs : List Bytes) (rx' : Rx)
    (hs : Settled c srv rx) (h : feedAll c srv rx cs = (rx', none)) : Settled c srv rx' := by
  obtain ⟨_, rest, _, hq, hn, _, _⟩ := feedAll_spec c srv rx cs rx' none (Or.inl hs) h
  rw [hn rfl, List.append_nil] at hq
  exact (settled_iff c srv rx').2 hq

theorem feedAll_append (c : Crypto) (srv : Bool) (rx : Rx) (cs1 cs2 : List Bytes) (rx1 : Rx)
    (h : feedAll c srv rx cs1 = (rx1, none)) :
    feedAll c srv rx (cs1 ++ cs2) = feedAll c srv rx1 cs2 := by
  induction cs1 generalizing rx with
  | nil => simp only [feedAll, Prod.mk.injEq] at h; rw [h.1]; rfl
  | cons ch rest ih =>
    rw [List.cons_append, feedAll]
    rw [feedAll] at h
    cases hr : readPackets c srv rx (.data ch) with
    | mk rx2 e2 =>
      rw [hr] at h
      cases e2 with
      | some e2 => simp at h
      | none => simp only at h ⊢; exact ih rx2 h

/-! ## `Read` -/

/-- a `Read` that returns has fed some initial chunks (none if decoded bytes were waiting)
    and hands over the first `n` decoded bytes -/
theorem read_ret_feed (c : Crypto) (srv : Bool) (n : Nat) (rx : Rx) (cs : List Bytes)
    (rx' : Rx) (bytes : Bytes) (err : Option RxErr) (restEvs : List NetEv)
    (h : read c srv n rx (cs.map NetEv.data) = .ret rx' bytes err restEvs) :
    ∃ cs1 cs2 rx1, cs = cs1 ++ cs2 ∧ restEvs = cs2.map NetEv.data ∧
      feedAll c srv rx cs1 = (rx1, err) ∧ bytes = rx1.decoded.take n ∧
      rx' = { rx1 with decoded := rx1.decoded.drop n } ∧ (cs1 = [] → err = none) := by
  induction cs generalizing rx with
  | nil =>
    rw [List.map_nil, read] at h
    split at h
    · simp only [ReadResult.ret.injEq] at h
      obtain ⟨rfl, rfl, rfl, rfl⟩ := h
      exact ⟨[], [], rx, rfl, rfl, rfl, rfl, rfl, fun _ => rfl⟩
    · cases h
  | cons ch rest ih =>
    rw [List.map_cons, read] at h
    split at h
    · simp only [ReadResult.ret.injEq] at h
      obtain ⟨rfl, rfl, rfl, rfl⟩ := h
      exact ⟨[], ch :: rest, rx, rfl, rfl, rfl, rfl, rfl, fun _ => rfl⟩
    · simp only at h
      cases hr : readPackets c srv rx (.data ch) with
      | mk rx1 e1 =>
        rw [hr] at h
        cases e1 with
        | some e1 =>
          simp only [ReadResult.ret.injEq] at h
          obtain ⟨rfl, rfl, rfl, rfl⟩ := h
          refine ⟨[ch], rest, rx1, rfl, rfl, ?_, rfl, rfl, by simp⟩
          simp only [feedAll, hr]
        | none =>
          simp only at h
          obtain ⟨cs1, cs2, rx2, hcs, hre, hfe, hb, hrx, _⟩ := ih rx1 h
          refine ⟨ch :: cs1, cs2, rx2, by rw [hcs]; rfl, hre, ?_, hb, hrx, by simp⟩
          simp only [feedAll, hr]
          exact hfe

/-- a blocked `Read` consumed every network event, all of them plain data, decoding nothing
    deliverable -/
theorem read_blocked_feed (c : Crypto) (srv : Bool) (n : Nat) (rx rx' : Rx) (evs : List NetEv)
    (h : read c srv n rx evs = .blocked rx') :
    (∀ e ∈ evs, ∃ ch, e = .data ch) ∧ rx'.decoded = [] ∧
      feedAll c srv rx (evs.map NetEv.chunk) = (rx', none) := by
  induction evs generalizing rx with
  | nil =>
    rw [read] at h
    split at h
    · cases h
    · rename_i hd
      simp only [ReadResult.blocked.injEq] at h
      subst h
      refine ⟨by simp, ?_, rfl⟩
      exact List.eq_nil_of_length_eq_zero (by omega)
  | cons ev rest ih =>
    rw [read] at h
    split at h
    · cases h
    · simp only at h
      cases hr : readPackets c srv rx ev with
      | mk rx1 e1 =>
        rw [hr] at h
        cases e1 with
        | some e1 => cases h
        | none =>
          simp only at h
          obtain ⟨hall, hd, hf⟩ := ih rx1 h
          cases ev with
          | fail ch cls => simp [readPackets] at hr
          | data ch =>
            refine ⟨?_, hd, ?_⟩
            · intro e he
              simp only [List.mem_cons] at he
              rcases he with rfl | he
              · exact ⟨ch, rfl⟩
              · exact hall e he
            · simp only [List.map_cons, NetEv.chunk, feedAll, hr]
              exact hf

theorem map_chunk_data (cs : List Bytes) : (cs.map NetEv.data).map NetEv.chunk = cs := by
  induction cs with
  | nil => rfl
  | cons a r ih => simp [NetEv.chunk, ih]

/-! ## the honest stream -/

theorem runs_lift (c : Crypto) (srv : Bool) {s b o s' b'} (h : (decoder c).Runs s b o s' b') :
    (rxMachine c srv).Runs s b (o.map (liftOut srv)) s' b' := by
  induction h with
  | refl => exact Machine.Runs.refl _ _
  | step hs _ ih =>
    rw [List.map_append]
    refine Machine.Runs.step (M := rxMachine c srv) ?_ ih
    simp only [decoder] at hs
    simp only [rxMachine, rxStep, hs]

theorem runs_halt (c : Crypto) (srv : Bool) {s b o s' b'} (h : (rxMachine c srv).Runs s b o s' b')
    (hne : ∀ x ∈ o, isErr x = none) : (haltM c srv).Runs (s, none) b o (s', none) b' := by
  induction h with
  | refl => exact Machine.Runs.refl _ _
  | @step s b s1 o n s2 b2 os hs _ ih =>
    have h1 : o.findSome? isErr = none :=
      List.findSome?_eq_none_iff.2 (fun x hx => hne x (List.mem_append_left _ hx))
    refine Machine.Runs.step (M := haltM c srv) (s1 := (s1, none)) ?_
      (ih (fun x hx => hne x (List.mem_append_right _ hx)))
    simp only [rxMachine] at hs
    simp only [haltM, haltStep, hs, h1]

/-- the outputs of the honest stream -/
def honestOuts (srv : Bool) (pkts : List Bytes) : List RxOut :=
  pkts.map (fun p => RxOut.act (parsePacket srv p))

theorem decodedOf_honestOuts (srv : Bool) (pkts : List Bytes) :
    decodedOf (honestOuts srv pkts) = pkts.flatMap (payloadOf srv) := by
  induction pkts with
  | nil => rfl
  | cons p r ih =>
    simp only [honestOuts, List.map_cons, List.flatMap_cons, payloadOf] at ih ⊢
    cases parsePacket srv p <;> simp [decodedOf, ih]

theorem quiescent_empty (c : Crypto) (srv : Bool) (k : Nat) :
    (haltM c srv).Quiescent (⟨k, none⟩, none) [] := by
  rw [halt_quiescent_iff]
  simp [rxStep, Framing.step, Consts.Framing.lengthLength]

/-- **the honest stream decodes completely, without error, to its packets** (as a run of the
    halting machine; from `Framing.roundtrip`) -/
theorem honest_runs (c : Crypto) (hc : CryptoOK c) (srv : Bool) (pkts : List Bytes) (k : Nat)
    (hp : ∀ p ∈ pkts, p.length ≤ Consts.Framing.maximumFramePayloadLength)
    (hwf : ∀ p ∈ pkts, ∀ e, parsePacket srv p ≠ .bad e)
    (hk : k + pkts.length < ctrLimit - 1) :
    (haltM c srv).Runs (⟨k, none⟩, none) (encodeAll c k pkts) (honestOuts srv pkts)
      (⟨k + pkts.length, none⟩, none) [] := by
  have h1 := run_Runs c _ _ _ _ _ _ (roundtrip c hc pkts k hp hk)
  have h2 := runs_lift c srv h1
  have hmap : (pkts.map Out.frame).map (liftOut srv) = honestOuts srv pkts := by
    simp only [honestOuts, List.map_map]
    apply List.map_congr_left
    intro p hpm
    simp only [Function.comp, liftOut]
    have := hwf p hpm
    cases hpp : parsePacket srv p with
    | bad e => exact absurd hpp (this e)
    | payload b => rfl
    | seed b => rfl
    | ignored => rfl
  rw [hmap] at h2
  refine runs_halt c srv h2 ?_
  intro x hx
  simp only [honestOuts, List.mem_map] at hx
  obtain ⟨p, _, rfl⟩ := hx
  rfl

/-! ## toy crypto -/

theorem ofNatBE_length (len n : Nat) : (Bytes.ofNatBE len n).length = len := by
  induction len generalizing n with
  | zero => rfl
  | succ len ih => simp [Bytes.ofNatBE, ih]

theorem toyCrypto_ok : CryptoOK toyCrypto where
  seal_len := by
    intro n p
    simp only [toyCrypto, toySeal, List.length_append, ofNatBE_length]
    omega
  open_seal := by
    intro n p
    have h1 : (Bytes.ofNatBE 16 n ++ p).take 16 = Bytes.ofNatBE 16 n :=
      List.take_left' (ofNatBE_length 16 n)
    have h2 : (Bytes.ofNatBE 16 n ++ p).drop 16 = p :=
      List.drop_left' (ofNatBE_length 16 n)
    have h3 : 16 ≤ (Bytes.ofNatBE 16 n ++ p).length := by
      simp only [List.length_append, ofNatBE_length]; omega
    simp only [toyCrypto, toySeal, h1, h2, h3, and_self, ↓reduceIte]

/-! ## sessions -/

/-- a `Read` that returns without error leaves a settled state behind -/
theorem read_ret_settled (c : Crypto) (srv : Bool) (n : Nat) (rx : Rx) (cs : List Bytes)
    (rx' : Rx) (bytes : Bytes) (restEvs : List NetEv) (hs : Settled c srv rx)
    (h : read c srv n rx (cs.map NetEv.data) = .ret rx' bytes none restEvs) : Settled c srv rx' := by
  obtain ⟨cs1, cs2, rx1, _, _, hf, _, rfl, _⟩ := read_ret_feed c srv n rx cs rx' bytes none restEvs h
  exact (feedAll_settled c srv rx cs1 rx1 hs hf).congr rfl rfl

/-- **a reader session (stopping at the first error) as a run of the halting machine** over
    `buffer ++ all chunks`: the bytes delivered plus those still held are exactly the bytes
    decoded by the run; a session that ended blocked or with an error sits in the quiescent
    end point of that run. -/
theorem sessionUntilErr_spec (c : Crypto) (srv : Bool) (ns : List Nat) (rx0 : Rx) (cs : List Bytes)
    (d : Bytes) (e : Option RxErr) (rxf : Rx) (bl : Bool) (hs : Settled c srv rx0)
    (h : sessionUntilErr c srv ns rx0 (cs.map NetEv.data) = (d, e, rxf, bl)) :
    ∃ outs rest,
      (haltM c srv).Runs (rx0.dec, none) (rx0.rxBuf ++ cs.flatten) outs (rxf.dec, e) (rxf.rxBuf ++ rest) ∧
      rx0.decoded ++ decodedOf outs = d ++ rxf.decoded ∧
      rx0.seeds ++ seedsOf outs = rxf.seeds ∧
      ((bl = true ∨ e.isSome) → (haltM c srv).Quiescent (rxf.dec, e) (rxf.rxBuf ++ rest)) ∧
      (bl = true → e = none ∧ rest = [] ∧ rxf.decoded = []) := by
  induction ns generalizing rx0 cs d with
  | nil =>
    simp only [sessionUntilErr, Prod.mk.injEq] at h
    obtain ⟨rfl, rfl, rfl, rfl⟩ := h
    refine ⟨[], cs.flatten, Machine.Runs.refl _ _, by simp [decodedOf], by simp [seedsOf], ?_, ?_⟩
    · intro h; simp at h
    · intro h; simp at h
  | cons n ns ih =>
    rw [sessionUntilErr] at h
    cases hread : read c srv n rx0 (cs.map NetEv.data) with
    | blocked rx' =>
      rw [hread] at h
      simp only [Prod.mk.injEq] at h
      obtain ⟨rfl, rfl, rfl, rfl⟩ := h
      obtain ⟨_, hd0, hf⟩ := read_blocked_feed c srv n rx0 rx' _ hread
      rw [map_chunk_data] at hf
      obtain ⟨outs, rest, hr, hq, hn, hd, hsd⟩ := feedAll_spec c srv rx0 cs rx' none (Or.inl hs) hf
      refine ⟨outs, rest, hr, ?_, hsd.symm, fun _ => hq, fun _ => ⟨rfl, hn rfl, hd0⟩⟩
      rw [← hd]; rfl
    | ret rx' bytes err restEvs =>
      rw [hread] at h
      obtain ⟨cs1, cs2, rx1, rfl, rfl, hf, rfl, rfl, hnil⟩ :=
        read_ret_feed c srv n rx0 _ rx' bytes err restEvs hread
      have hs1 : Settled c srv rx0 ∨ cs1 ≠ [] := Or.inl hs
      obtain ⟨outs, rest, hr, hq, hn, hd, hsd⟩ := feedAll_spec c srv rx0 cs1 rx1 err hs1 hf
      cases err with
      | some e1 =>
        simp only [Prod.mk.injEq] at h
        obtain ⟨rfl, rfl, rfl, rfl⟩ := h
        refine ⟨outs, rest ++ cs2.flatten, ?_, ?_, hsd.symm, fun _ => halt_quiescent_err c srv _ _ _, ?_⟩
        · have := hr.append _ (haltM_prefixStable c srv) cs2.flatten
          simpa [List.append_assoc] using this
        · simp only [← hd, List.take_append_drop]
        · intro h; simp at h
      | none =>
        simp only at h
        have hrest : rest = [] := hn rfl
        subst hrest
        rw [List.append_nil] at hr hq
        have hs' : Settled c srv { rx1 with decoded := rx1.decoded.drop n } :=
          ((settled_iff c srv rx1).2 hq).congr rfl rfl
        cases hrec : sessionUntilErr c srv ns { rx1 with decoded := rx1.decoded.drop n }
            (cs2.map NetEv.data) with
        | mk d2 t =>
          obtain ⟨e2, rxf2, bl2⟩ := t
          rw [hrec] at h
          simp only [Prod.mk.injEq] at h
          obtain ⟨rfl, rfl, rfl, rfl⟩ := h
          obtain ⟨outs2, rest2, hr2, hd2, hsd2, hq2, hb2⟩ := ih _ cs2 d2 hs' hrec
          refine ⟨outs ++ outs2, rest2, ?_, ?_, ?_, hq2, hb2⟩
          · have := Machine.feed_two (haltM c srv) (haltM_prefixStable c srv) hr hr2
            simpa [List.append_assoc] using this
          · simp only at hd2
            rw [decodedOf_append, ← List.append_assoc, ← hd, List.append_assoc, ← hd2,
              ← List.append_assoc, List.take_append_drop]
          · simp only at hsd2
            rw [seedsOf_append, ← List.append_assoc, ← hsd, hsd2]

/-- as long as no error is reported, the two kinds of session coincide -/
theorem session_of_untilErr (c : Crypto) (srv : Bool) (ns : List Nat) (rx : Rx) (evs : List NetEv)
    (d : Bytes) (rxf : Rx) (bl : Bool)
    (h : sessionUntilErr c srv ns rx evs = (d, none, rxf, bl)) :
    session c srv ns rx evs = (d, [], rxf, bl) := by
  induction ns generalizing rx evs d with
  | nil =>
    simp only [sessionUntilErr, Prod.mk.injEq] at h
    obtain ⟨rfl, _, rfl, rfl⟩ := h
    rfl
  | cons n ns ih =>
    rw [sessionUntilErr] at h
    rw [session]
    cases hread : read c srv n rx evs with
    | blocked rx' =>
      rw [hread] at h
      simp only [Prod.mk.injEq] at h
      obtain ⟨rfl, _, rfl, rfl⟩ := h
      rfl
    | ret rx' bytes err restEvs =>
      rw [hread] at h
      cases err with
      | some e1 => simp at h
      | none =>
        simp only at h ⊢
        cases hrec : sessionUntilErr c srv ns rx' restEvs with
        | mk d2 t =>
          obtain ⟨e2, rxf2, bl2⟩ := t
          rw [hrec] at h
          simp only [Prod.mk.injEq] at h
          obtain ⟨rfl, rfl, rfl, rfl⟩ := h
          rw [ih rx' restEvs d2 hrec]
          simp

/-- **sessions over a stream whose run ends error-free with an empty buffer** (as the honest
    stream's does): no `Read` reports an error, delivered ++ held bytes are an initial part of
    what the run decodes, and a session that ended blocked has delivered all of it. -/
theorem session_clean (c : Crypto) (srv : Bool) (ns : List Nat) (rx0 : Rx) (cs : List Bytes)
    (H : List RxOut) (sN : Dec) (hs : Settled c srv rx0)
    (hH : (haltM c srv).Runs (rx0.dec, none) (rx0.rxBuf ++ cs.flatten) H (sN, none) [])
    (hq : (haltM c srv).Quiescent (sN, none) []) :
    ∃ d rxf bl, session c srv ns rx0 (cs.map NetEv.data) = (d, [], rxf, bl) ∧
      (d ++ rxf.decoded) <+: (rx0.decoded ++ decodedOf H) ∧
      (bl = true → d = rx0.decoded ++ decodedOf H ∧ rxf.rxBuf = [] ∧ rxf.dec = sN ∧
        rxf.decoded = [] ∧ rxf.seeds = rx0.seeds ++ seedsOf H) := by
  cases hse : sessionUntilErr c srv ns rx0 (cs.map NetEv.data) with
  | mk d t =>
    obtain ⟨e, rxf, bl⟩ := t
    obtain ⟨outs, rest, hr, hd, hsd, hqq, hb⟩ := sessionUntilErr_spec c srv ns rx0 cs d e rxf bl hs hse
    obtain ⟨o3, hr3, hH3⟩ := Machine.Runs.prefix_of_quiescent _ hr hH hq
    have he : e = none := by
      cases e with
      | none => rfl
      | some e1 => have := (halt_runs_err hr3).2.1; simp at this
    subst he
    refine ⟨d, rxf, bl, session_of_untilErr c srv ns rx0 _ d rxf bl hse, ?_, ?_⟩
    · rw [← hd, hH3, decodedOf_append, ← List.append_assoc]
      exact List.prefix_append _ _
    · intro hbl
      obtain ⟨_, hrest, hdec⟩ := hb hbl
      subst hrest
      obtain ⟨ho, hst, hbuf⟩ := Machine.Runs.of_quiescent _ (hqq (Or.inl hbl)) hr3
      subst ho
      rw [List.append_nil] at hH3 hbuf
      subst hH3
      simp only [Prod.mk.injEq] at hst
      refine ⟨?_, hbuf.symm, hst.1.symm, hdec, hsd.symm⟩
      rw [hd, hdec, List.append_nil]

/-- the client after the repaired handshake is the server-style start state fed the surplus -/
theorem clientStart_eq_readPackets (c : Crypto) (surplus : Bytes) :
    clientStart c true surplus = readPackets c false Rx.init (.data surplus) := by
  simp [clientStart, readPackets, Rx.init]

theorem clientStart_eq_feedAll (c : Crypto) (surplus : Bytes) (rx : Rx)
    (h : clientStart c true surplus = (rx, none)) : feedAll c false Rx.init [surplus] = (rx, none) := by
  rw [clientStart_eq_readPackets] at h
  simp only [feedAll, h]

/-- the repaired handshake leaves the receive side settled -/
theorem clientStart_settled (c : Crypto) (surplus : Bytes) (rx : Rx)
    (h : clientStart c true surplus = (rx, none)) : Settled c false rx :=
  feedAll_settled c false Rx.init [surplus] rx (settled_init c false) (clientStart_eq_feedAll c surplus rx h)

/-- honest stream split between the handshake read (`surplus`) and later network reads -/
theorem client_clean (c : Crypto) (hc : CryptoOK c) (pkts : List Bytes)
    (hp : ∀ p ∈ pkts, p.length ≤ Consts.Framing.maximumFramePayloadLength)
    (hwf : ∀ p ∈ pkts, ∀ e, parsePacket false p ≠ .bad e)
    (hn : pkts.length < ctrLimit - 1) (surplus : Bytes) (cs : List Bytes)
    (hcs : surplus ++ cs.flatten = wire c pkts) (ns : List Nat) :
    ∃ rx1 d rxf bl, clientStart c true surplus = (rx1, none) ∧
      session c false ns rx1 (cs.map NetEv.data) = (d, [], rxf, bl) ∧
      (d ++ rxf.decoded) <+: pkts.flatMap (payloadOf false) ∧
      (bl = true → d = pkts.flatMap (payloadOf false) ∧ rxf.rxBuf = [] ∧
        rxf.dec = ⟨pkts.length, none⟩ ∧ rxf.decoded = []) := by
  have hH := honest_runs c hc false pkts 0 hp hwf (by simpa using hn)
  have hq := quiescent_empty c false (0 + pkts.length)
  cases hcl : clientStart c true surplus with
  | mk rx1 e1 =>
    have hrp := hcl
    rw [clientStart_eq_readPackets] at hrp
    obtain ⟨outs1, hr1, hq1, hd1, _⟩ := readPackets_data_spec c false Rx.init surplus rx1 e1 hrp
    have hr1' := hr1.append _ (haltM_prefixStable c false) cs.flatten
    simp only [Rx.init, List.nil_append] at hr1' hd1
    rw [hcs] at hr1'
    obtain ⟨o3, hr3, hH3⟩ := Machine.Runs.prefix_of_quiescent _ hr1' hH hq
    have he : e1 = none := by
      cases e1 with
      | none => rfl
      | some e => have := (halt_runs_err hr3).2.1; simp at this
    subst he
    have hs1 : Settled c false rx1 := (settled_iff c false rx1).2 hq1
    obtain ⟨d, rxf, bl, hse, hpre, hbl⟩ := session_clean c false ns rx1 cs o3 _ hs1 hr3 hq
    have hD : rx1.decoded ++ decodedOf o3 = pkts.flatMap (payloadOf false) := by
      rw [hd1, ← decodedOf_append, ← hH3, decodedOf_honestOuts]
    rw [hD] at hpre hbl
    refine ⟨rx1, d, rxf, bl, rfl, hse, hpre, fun h => ?_⟩
    obtain ⟨h1, h2, h3, h4, _⟩ := hbl h
    exact ⟨h1, h2, by simpa using h3, h4⟩

/-! ## chunk invariance for arbitrary byte streams -/

theorem feed_chunk_invariant (c : Crypto) (srv : Bool) (rx0 : Rx) (hs : Settled c srv rx0)
    (cs cs' : List Bytes) (h : cs.flatten = cs'.flatten) (rx rx' : Rx) (e e' : Option RxErr)
    (h1 : feedAll c srv rx0 cs = (rx, e)) (h2 : feedAll c srv rx0 cs' = (rx', e')) :
    e = e' ∧ rx.dec = rx'.dec ∧ rx.decoded = rx'.decoded ∧ rx.seeds = rx'.seeds ∧
      (e = none → rx.rxBuf = rx'.rxBuf) := by
  obtain ⟨o1, r1, hr1, hq1, hn1, hd1, hsd1⟩ := feedAll_spec c srv rx0 cs rx e (Or.inl hs) h1
  obtain ⟨o2, r2, hr2, hq2, hn2, hd2, hsd2⟩ := feedAll_spec c srv rx0 cs' rx' e' (Or.inl hs) h2
  rw [h] at hr1
  obtain ⟨ho, hst, hb⟩ := Machine.Runs.det _ hr1 hq1 hr2 hq2
  simp only [Prod.mk.injEq] at hst
  obtain ⟨hdec, he⟩ := hst
  subst ho he
  refine ⟨rfl, hdec, by rw [hd1, hd2], by rw [hsd1, hsd2], fun hne => ?_⟩
  rw [hn1 hne, hn2 hne] at hb
  simpa using hb

theorem session_chunk_invariant (c : Crypto) (srv : Bool) (rx0 : Rx) (hs : Settled c srv rx0)
    (cs cs' : List Bytes) (h : cs.flatten = cs'.flatten) (ns ns' : List Nat)
    (d d' : Bytes) (e e' : Option RxErr) (rxf rxf' : Rx) (bl bl' : Bool)
    (h1 : sessionUntilErr c srv ns rx0 (cs.map NetEv.data) = (d, e, rxf, bl))
    (h2 : sessionUntilErr c srv ns' rx0 (cs'.map NetEv.data) = (d', e', rxf', bl'))
    (hc1 : bl = true ∨ e.isSome) (hc2 : bl' = true ∨ e'.isSome) :
    d ++ rxf.decoded = d' ++ rxf'.decoded ∧ e = e' ∧ rxf.dec = rxf'.dec ∧ rxf.seeds = rxf'.seeds ∧
      (e = none → rxf.rxBuf = rxf'.rxBuf) := by
  obtain ⟨o1, r1, hr1, hd1, hsd1, hq1, hb1⟩ := sessionUntilErr_spec c srv ns rx0 cs d e rxf bl hs h1
  obtain ⟨o2, r2, hr2, hd2, hsd2, hq2, hb2⟩ := sessionUntilErr_spec c srv ns' rx0 cs' d' e' rxf' bl' hs h2
  rw [h] at hr1
  obtain ⟨ho, hst, hb⟩ := Machine.Runs.det _ hr1 (hq1 hc1) hr2 (hq2 hc2)
  simp only [Prod.mk.injEq] at hst
  obtain ⟨hdec, he⟩ := hst
  subst ho he
  refine ⟨by rw [← hd1, ← hd2], rfl, hdec, by rw [← hsd1, ← hsd2], fun hne => ?_⟩
  subst hne
  have hbl1 : bl = true := by simpa using hc1
  have hbl2 : bl' = true := by simpa using hc2
  rw [(hb1 hbl1).2.1, (hb2 hbl2).2.1] at hb
  simpa using hb

/-! ## the meaning of `Settled`, the two directions -/

/-- a completely received honest frame at the decoder's position contradicts `Settled` -/
theorem settled_no_complete_frame (c : Crypto) (hc : CryptoOK c) (srv : Bool) (rx : Rx) (k : Nat)
    (pkt rest : Bytes) (hd : rx.dec = ⟨k, none⟩) (hk : (k + 1) % ctrLimit ≠ 0)
    (hp : pkt.length ≤ Consts.Framing.maximumFramePayloadLength)
    (hb : rx.rxBuf = frameOf c k pkt ++ rest) : ¬ Settled c srv rx := by
  obtain ⟨s1, h1, _, _⟩ := decode_one c hc k pkt rest hp hk
  intro hs
  simp only [Settled, rxStep, hd, hb, h1] at hs
  cases hs

theorem read_write_commute (cr cw : Crypto) (srv : Bool) (ep : Endpoint) (n : Nat) (evs : List NetEv)
    (data : Bytes) (pads : List Nat) :
    ((ep.read cr srv n evs).bind fun r => (r.1.write cw data pads).map fun w => (w.1, r.2, w.2))
      = ((ep.write cw data pads).bind fun w => (w.1.read cr srv n evs).map fun r => (r.1, r.2, w.2)) := by
  simp only [Endpoint.read, Endpoint.write]
  cases hr : Obfs4.read cr srv n ep.rx evs with
  | blocked rx' =>
    cases allSome (txPackets data pads) with
    | none => rfl
    | some pkts =>
      by_cases hk : ep.txK + pkts.length < ctrLimit - 1 <;> simp [hk, hr]
  | ret rx' bytes err rest =>
    cases allSome (txPackets data pads) with
    | none => rfl
    | some pkts =>
      by_cases hk : ep.txK + pkts.length < ctrLimit - 1 <;> simp [hk, hr]

theorem write_keeps_rx (cw : Crypto) (ep ep' : Endpoint) (data : Bytes) (pads : List Nat) (w : Bytes)
    (h : ep.write cw data pads = some (ep', w)) : ep'.rx = ep.rx := by
  simp only [Endpoint.write] at h
  cases hp : allSome (txPackets data pads) with
  | none => rw [hp] at h; cases h
  | some pkts =>
    rw [hp] at h
    simp only at h
    split at h
    · simp only [Option.some.injEq, Prod.mk.injEq] at h; rw [← h.1]
    · cases h

theorem read_keeps_txK (cr : Crypto) (srv : Bool) (ep ep' : Endpoint) (n : Nat) (evs rest : List NetEv)
    (bytes : Bytes) (err : Option RxErr)
    (h : ep.read cr srv n evs = some (ep', bytes, err, rest)) : ep'.txK = ep.txK := by
  simp only [Endpoint.read] at h
  cases hr : Obfs4.read cr srv n ep.rx evs with
  | blocked rx' => rw [hr] at h; cases h
  | ret rx' b e r =>
    rw [hr] at h
    simp only [Option.some.injEq, Prod.mk.injEq] at h
    rw [← h.1]

/-! ## helpers for concrete instances -/

deriving instance DecidableEq for ReadResult

/-- decidable form of "the packet passes the receiver's two range checks" -/
def okPkt (srv : Bool) (p : Bytes) : Bool :=
  match parsePacket srv p with
  | .bad _ => false
  | _ => true

theorem okPkt_wf (srv : Bool) (pkts : List Bytes) (h : ∀ p ∈ pkts, okPkt srv p = true) :
    ∀ p ∈ pkts, ∀ e, parsePacket srv p ≠ .bad e := by
  intro p hp e he
  have := h p hp
  simp [okPkt, he] at this

/-! ## progress: a `Read` that returns without error hands over at least one byte -/

theorem read_ret_progress (c : Crypto) (srv : Bool) (n : Nat) (hn : 0 < n) (rx : Rx) (evs : List NetEv)
    (rx' : Rx) (bytes : Bytes) (rest : List NetEv)
    (h : read c srv n rx evs = .ret rx' bytes none rest) : 0 < bytes.length := by
  induction evs generalizing rx with
  | nil =>
    rw [read] at h
    split at h
    · simp only [ReadResult.ret.injEq] at h
      obtain ⟨_, rfl, _, _⟩ := h
      simp only [List.length_take]; omega
    · cases h
  | cons ev r ih =>
    rw [read] at h
    split at h
    · simp only [ReadResult.ret.injEq] at h
      obtain ⟨_, rfl, _, _⟩ := h
      simp only [List.length_take]; omega
    · simp only at h
      cases hr : readPackets c srv rx ev with
      | mk rx1 e1 =>
        rw [hr] at h
        cases e1 with
        | some e1 => simp at h
        | none => exact ih rx1 h

/-- a session that used up all its `Read`s without error or blocking delivered at least one
    byte per `Read` -/
theorem sessionUntilErr_progress (c : Crypto) (srv : Bool) (ns : List Nat) (hns : ∀ n ∈ ns, 0 < n)
    (rx : Rx) (evs : List NetEv) (d : Bytes) (rxf : Rx)
    (h : sessionUntilErr c srv ns rx evs = (d, none, rxf, false)) : ns.length ≤ d.length := by
  induction ns generalizing rx evs d with
  | nil => simp
  | cons n ns ih =>
    rw [sessionUntilErr] at h
    cases hread : read c srv n rx evs with
    | blocked rx' => rw [hread] at h; simp at h
    | ret rx' bytes err restEvs =>
      rw [hread] at h
      cases err with
      | some e1 => simp at h
      | none =>
        simp only at h
        cases hrec : sessionUntilErr c srv ns rx' restEvs with
        | mk d2 t =>
          obtain ⟨e2, rxf2, bl2⟩ := t
          rw [hrec] at h
          simp only [Prod.mk.injEq] at h
          obtain ⟨rfl, rfl, rfl, rfl⟩ := h
          have h1 := read_ret_progress c srv n (hns n (by simp)) rx evs rx' bytes restEvs hread
          have h2 := ih (fun m hm => hns m (by simp [hm])) rx' restEvs d2 hrec
          simp only [List.length_cons, List.length_append]
          omega

theorem untilErr_of_session (c : Crypto) (srv : Bool) (ns : List Nat) (rx : Rx) (evs : List NetEv)
    (d : Bytes) (rxf : Rx) (bl : Bool)
    (h : session c srv ns rx evs = (d, [], rxf, bl)) :
    sessionUntilErr c srv ns rx evs = (d, none, rxf, bl) := by
  induction ns generalizing rx evs d with
  | nil =>
    simp only [session, Prod.mk.injEq] at h
    obtain ⟨rfl, _, rfl, rfl⟩ := h
    rfl
  | cons n ns ih =>
    rw [session] at h
    rw [sessionUntilErr]
    cases hread : read c srv n rx evs with
    | blocked rx' =>
      rw [hread] at h
      simp only [Prod.mk.injEq] at h
      obtain ⟨rfl, _, rfl, rfl⟩ := h
      rfl
    | ret rx' bytes err restEvs =>
      rw [hread] at h
      simp only at h
      cases hrec : session c srv ns rx' restEvs with
      | mk d2 t =>
        obtain ⟨es2, rxf2, bl2⟩ := t
        rw [hrec] at h
        simp only [Prod.mk.injEq, List.append_eq_nil_iff] at h
        obtain ⟨rfl, ⟨he, rfl⟩, rfl, rfl⟩ := h
        cases err with
        | some e1 => simp at he
        | none =>
          simp only
          rw [ih rx' restEvs d2 hrec]

theorem session_ends_blocked (c : Crypto) (srv : Bool) (ns : List Nat) (hns : ∀ n ∈ ns, 0 < n)
    (rx : Rx) (evs : List NetEv) (d : Bytes) (rxf : Rx) (bl : Bool)
    (h : session c srv ns rx evs = (d, [], rxf, bl)) (hlen : d.length < ns.length) : bl = true := by
  cases bl with
  | true => rfl
  | false =>
    have := sessionUntilErr_progress c srv ns hns rx evs d rxf (untilErr_of_session c srv ns rx evs d rxf false h)
    omega

/-- the honest stream under any segmentation, fed without draining -/
theorem honest_feed_core (c : Crypto) (hc : CryptoOK c) (srv : Bool) (pkts : List Bytes)
    (hp : ∀ p ∈ pkts, p.length ≤ Consts.Framing.maximumFramePayloadLength)
    (hwf : ∀ p ∈ pkts, ∀ e, parsePacket srv p ≠ .bad e)
    (hn : pkts.length < ctrLimit - 1) (cs : List Bytes) (hcs : cs.flatten = wire c pkts) :
    ∃ rx, feedAll c srv Rx.init cs = (rx, none) ∧ rx.rxBuf = [] ∧ rx.dec = ⟨pkts.length, none⟩ ∧
      rx.decoded = pkts.flatMap (payloadOf srv) ∧ rx.seeds = seedsOf (honestOuts srv pkts) := by
  cases hf : feedAll c srv Rx.init cs with
  | mk rx e =>
    obtain ⟨outs, rest, hr, hq, _, hd, hsd⟩ :=
      feedAll_spec c srv Rx.init cs rx e (Or.inl (settled_init c srv)) hf
    have hH := honest_runs c hc srv pkts 0 hp hwf (by simpa using hn)
    rw [show Rx.init.rxBuf ++ cs.flatten = wire c pkts from hcs] at hr
    obtain ⟨ho, hst, hb⟩ := Machine.Runs.det _ hr hq hH (quiescent_empty c srv _)
    simp only [Prod.mk.injEq] at hst
    obtain ⟨hdec, rfl⟩ := hst
    refine ⟨rx, rfl, (List.append_eq_nil_iff.1 hb).1, by simpa using hdec, ?_, ?_⟩
    · rw [hd, ho, decodedOf_honestOuts]; rfl
    · rw [hsd, ho]; rfl

/-! ## sessions against arbitrary network results (data and failures) -/

/-- the bytes a list of network results carries -/
def chunksOf (evs : List NetEv) : Bytes := (evs.map NetEv.chunk).flatten

theorem chunksOf_append (a b : List NetEv) : chunksOf (a ++ b) = chunksOf a ++ chunksOf b := by
  simp [chunksOf]

theorem chunksOf_data_fail (cs : List Bytes) (ch : Bytes) (cls : String) :
    chunksOf (cs.map NetEv.data ++ [.fail ch cls]) = cs.flatten ++ ch := by
  simp only [chunksOf, List.map_append, List.flatten_append, map_chunk_data]
  simp [NetEv.chunk]

/-- `readPackets` on any network result: the bytes that came with it are buffered and decoded
    to quiescence; a failure overrides the decoder's verdict `eN` in what is reported -/
theorem readPackets_spec (c : Crypto) (srv : Bool) (rx : Rx) (ev : NetEv) (rx' : Rx) (e : Option RxErr)
    (h : readPackets c srv rx ev = (rx', e)) :
    ∃ outs eN, (haltM c srv).Runs (rx.dec, none) (rx.rxBuf ++ ev.chunk) outs (rx'.dec, eN) rx'.rxBuf ∧
      (haltM c srv).Quiescent (rx'.dec, eN) rx'.rxBuf ∧
      rx'.decoded = rx.decoded ++ decodedOf outs ∧ rx'.seeds = rx.seeds ++ seedsOf outs ∧
      (e = eN ∨ ∃ ch cls, ev = .fail ch cls ∧ e = some (.net cls)) := by
  cases ev with
  | data ch =>
    obtain ⟨outs, h1, h2, h3, h4⟩ := readPackets_data_spec c srv rx ch rx' e h
    exact ⟨outs, e, h1, h2, h3, h4, Or.inl rfl⟩
  | fail ch cls =>
    simp only [readPackets] at h
    have := processBuffer_spec c srv _ { rx with rxBuf := rx.rxBuf ++ ch } (procFuel_ok _)
    cases hp : processBuffer c srv (procFuel { rx with rxBuf := rx.rxBuf ++ ch })
        { rx with rxBuf := rx.rxBuf ++ ch } with
    | mk rx1 e1 =>
      rw [hp] at h this
      simp only [Prod.mk.injEq] at h
      obtain ⟨rfl, rfl⟩ := h
      obtain ⟨outs, h1, h2, h3, h4⟩ := this
      exact ⟨outs, e1, h1, h2, h3, h4, Or.inr ⟨ch, cls, rfl, rfl⟩⟩

/-- a `Read` that returns, against arbitrary network results -/
theorem read_ret_spec (c : Crypto) (srv : Bool) (n : Nat) (rx : Rx) (evs : List NetEv)
    (rx' : Rx) (bytes : Bytes) (err : Option RxErr) (rest : List NetEv) (hs : Settled c srv rx)
    (h : read c srv n rx evs = .ret rx' bytes err rest) :
    ∃ used outs eN, evs = used ++ rest ∧
      (haltM c srv).Runs (rx.dec, none) (rx.rxBuf ++ chunksOf used) outs (rx'.dec, eN) rx'.rxBuf ∧
      (haltM c srv).Quiescent (rx'.dec, eN) rx'.rxBuf ∧
      rx.decoded ++ decodedOf outs = bytes ++ rx'.decoded ∧ rx.seeds ++ seedsOf outs = rx'.seeds ∧
      (err = eN ∨ ∃ pre ch cls, used = pre ++ [.fail ch cls] ∧ err = some (.net cls)) := by
  induction evs generalizing rx with
  | nil =>
    rw [read] at h
    split at h
    · simp only [ReadResult.ret.injEq] at h
      obtain ⟨rfl, rfl, rfl, rfl⟩ := h
      refine ⟨[], [], none, rfl, ?_, (settled_iff c srv rx).1 hs, by simp [decodedOf], by simp [seedsOf], Or.inl rfl⟩
      simpa [chunksOf] using Machine.Runs.refl (M := haltM c srv) _ _
    · cases h
  | cons ev r ih =>
    rw [read] at h
    split at h
    · simp only [ReadResult.ret.injEq] at h
      obtain ⟨rfl, rfl, rfl, rfl⟩ := h
      refine ⟨[], [], none, rfl, ?_, (settled_iff c srv rx).1 hs, by simp [decodedOf], by simp [seedsOf], Or.inl rfl⟩
      simpa [chunksOf] using Machine.Runs.refl (M := haltM c srv) _ _
    · simp only at h
      cases hr : readPackets c srv rx ev with
      | mk rx1 e1 =>
        rw [hr] at h
        obtain ⟨outs1, eN1, hr1, hq1, hd1, hsd1, he1⟩ := readPackets_spec c srv rx ev rx1 e1 hr
        cases e1 with
        | some e1 =>
          simp only [ReadResult.ret.injEq] at h
          obtain ⟨rfl, rfl, rfl, rfl⟩ := h
          refine ⟨[ev], outs1, eN1, rfl, ?_, hq1, ?_, hsd1.symm, ?_⟩
          · simpa [chunksOf] using hr1
          · simp only [← hd1, List.take_append_drop]
          · rcases he1 with he1 | ⟨ch, cls, rfl, he1⟩
            · exact Or.inl he1
            · exact Or.inr ⟨[], ch, cls, rfl, he1⟩
        | none =>
          simp only at h
          have heN : eN1 = none := by
            rcases he1 with he1 | ⟨_, _, _, he1⟩
            · exact he1.symm
            · cases he1
          subst heN
          have hs1 : Settled c srv rx1 := (settled_iff c srv rx1).2 hq1
          obtain ⟨used, outs2, eN, hev, hr2, hq2, hd2, hsd2, he2⟩ := ih rx1 hs1 h
          refine ⟨ev :: used, outs1 ++ outs2, eN, by rw [hev]; rfl, ?_, hq2, ?_, ?_, ?_⟩
          · have := Machine.feed_two (haltM c srv) (haltM_prefixStable c srv) hr1 hr2
            have hch : chunksOf (ev :: used) = ev.chunk ++ chunksOf used := by simp [chunksOf]
            rw [hch, ← List.append_assoc]
            exact this
          · rw [decodedOf_append, ← List.append_assoc, ← hd1, hd2]
          · rw [seedsOf_append, ← List.append_assoc, ← hsd1, hsd2]
          · rcases he2 with he2 | ⟨pre, ch, cls, rfl, he2⟩
            · exact Or.inl he2
            · exact Or.inr ⟨ev :: pre, ch, cls, rfl, he2⟩

/-- **a reader session (stopping at the first error) against arbitrary network results**:
    the session has consumed `used`; its state is the end point of the run over the bytes these
    carried, quiescent if the session is complete; the reported error is the decoder's verdict
    `eN` unless the last consumed network result was a failure, whose error is then reported. -/
theorem sessionUntilErr_spec_evs (c : Crypto) (srv : Bool) (ns : List Nat) (rx0 : Rx) (evs : List NetEv)
    (d : Bytes) (e : Option RxErr) (rxf : Rx) (bl : Bool) (hs : Settled c srv rx0)
    (h : sessionUntilErr c srv ns rx0 evs = (d, e, rxf, bl)) :
    ∃ used rest outs eN, evs = used ++ rest ∧
      (haltM c srv).Runs (rx0.dec, none) (rx0.rxBuf ++ chunksOf used) outs (rxf.dec, eN) rxf.rxBuf ∧
      rx0.decoded ++ decodedOf outs = d ++ rxf.decoded ∧
      rx0.seeds ++ seedsOf outs = rxf.seeds ∧
      ((bl = true ∨ e.isSome) → (haltM c srv).Quiescent (rxf.dec, eN) rxf.rxBuf) ∧
      (bl = true → rest = [] ∧ e = none ∧ rxf.decoded = []) ∧
      (e = eN ∨ ∃ pre ch cls, used = pre ++ [.fail ch cls] ∧ e = some (.net cls)) := by
  induction ns generalizing rx0 evs d with
  | nil =>
    simp only [sessionUntilErr, Prod.mk.injEq] at h
    obtain ⟨rfl, rfl, rfl, rfl⟩ := h
    refine ⟨[], evs, [], none, rfl, ?_, by simp [decodedOf], by simp [seedsOf], ?_, ?_, Or.inl rfl⟩
    · simpa [chunksOf] using Machine.Runs.refl (M := haltM c srv) _ _
    · intro h; simp at h
    · intro h; simp at h
  | cons n ns ih =>
    rw [sessionUntilErr] at h
    cases hread : read c srv n rx0 evs with
    | blocked rx' =>
      rw [hread] at h
      simp only [Prod.mk.injEq] at h
      obtain ⟨rfl, rfl, rfl, rfl⟩ := h
      obtain ⟨_, hd0, hf⟩ := read_blocked_feed c srv n rx0 rx' _ hread
      obtain ⟨outs, rest, hr, hq, hn, hd, hsd⟩ := feedAll_spec c srv rx0 _ rx' none (Or.inl hs) hf
      have hrest : rest = [] := hn rfl
      subst hrest
      rw [List.append_nil] at hr hq
      refine ⟨evs, [], outs, none, by simp, hr, ?_, hsd.symm, fun _ => hq, fun _ => ⟨rfl, rfl, hd0⟩, Or.inl rfl⟩
      rw [← hd]; rfl
    | ret rx' bytes err restEvs =>
      rw [hread] at h
      obtain ⟨used, outs, eN, hev, hr, hq, hd, hsd, he⟩ :=
        read_ret_spec c srv n rx0 evs rx' bytes err restEvs hs hread
      cases err with
      | some e1 =>
        simp only [Prod.mk.injEq] at h
        obtain ⟨rfl, rfl, rfl, rfl⟩ := h
        refine ⟨used, restEvs, outs, eN, hev, hr, hd, hsd, fun _ => hq, ?_, he⟩
        intro h; simp at h
      | none =>
        simp only at h
        have heN : eN = none := by
          rcases he with he | ⟨_, _, _, _, he⟩
          · exact he.symm
          · cases he
        subst heN
        have hs' : Settled c srv rx' := (settled_iff c srv rx').2 hq
        cases hrec : sessionUntilErr c srv ns rx' restEvs with
        | mk d2 t =>
          obtain ⟨e2, rxf2, bl2⟩ := t
          rw [hrec] at h
          simp only [Prod.mk.injEq] at h
          obtain ⟨rfl, rfl, rfl, rfl⟩ := h
          obtain ⟨used2, rest2, outs2, eN2, hev2, hr2, hd2, hsd2, hq2, hb2, he2⟩ := ih rx' restEvs d2 hs' hrec
          refine ⟨used ++ used2, rest2, outs ++ outs2, eN2, by rw [hev, hev2, List.append_assoc], ?_, ?_, ?_,
            hq2, hb2, ?_⟩
          · have := Machine.feed_two (haltM c srv) (haltM_prefixStable c srv) hr hr2
            rw [chunksOf_append, ← List.append_assoc]
            exact this
          · rw [decodedOf_append, ← List.append_assoc, hd, List.append_assoc, hd2, List.append_assoc]
          · rw [seedsOf_append, ← List.append_assoc, hsd, hsd2]
          · rcases he2 with he2 | ⟨pre, ch, cls, rfl, he2⟩
            · exact Or.inl he2
            · exact Or.inr ⟨used ++ pre, ch, cls, by rw [List.append_assoc], he2⟩

/-- sessions over a data stream that ends with a network failure: a session that reported an
    error sits in the quiescent end point of the run over the *whole* stream -/
theorem session_fail_spec (c : Crypto) (srv : Bool) (ns : List Nat) (rx0 : Rx) (cs : List Bytes)
    (ch : Bytes) (cls : String) (d : Bytes) (e : RxErr) (rxf : Rx) (bl : Bool) (hs : Settled c srv rx0)
    (h : sessionUntilErr c srv ns rx0 (cs.map NetEv.data ++ [.fail ch cls]) = (d, some e, rxf, bl)) :
    ∃ outs eN tail,
      (haltM c srv).Runs (rx0.dec, none) (rx0.rxBuf ++ (cs.flatten ++ ch)) outs (rxf.dec, eN) (rxf.rxBuf ++ tail) ∧
      (haltM c srv).Quiescent (rxf.dec, eN) (rxf.rxBuf ++ tail) ∧
      rx0.decoded ++ decodedOf outs = d ++ rxf.decoded ∧ rx0.seeds ++ seedsOf outs = rxf.seeds ∧
      (eN = some e ∨ e = .net cls) := by
  obtain ⟨used, rest, outs, eN, hev, hr, hd, hsd, hq, _, he⟩ :=
    sessionUntilErr_spec_evs c srv ns rx0 _ d (some e) rxf bl hs h
  have hr' := hr.append _ (haltM_prefixStable c srv) (chunksOf rest)
  rw [List.append_assoc, ← chunksOf_append, ← hev, chunksOf_data_fail] at hr'
  refine ⟨outs, eN, chunksOf rest, hr', ?_, hd, hsd, ?_⟩
  · rcases he with he | ⟨pre, ch0, cls0, hu, he⟩
    · rw [← he]; exact halt_quiescent_err c srv _ _ _
    · -- the failure is the last network result, so nothing is left
      have hrest : rest = [] := by
        rcases List.eq_nil_or_concat rest with hnil | ⟨r0, l, hl⟩
        · exact hnil
        · exfalso
          rw [hu, hl, List.concat_eq_append, ← List.append_assoc] at hev
          have := List.append_inj' hev (by simp)
          have hmem : NetEv.fail ch0 cls0 ∈ cs.map NetEv.data := by rw [this.1]; simp
          simp at hmem
      subst hrest
      simpa [chunksOf] using hq (Or.inr rfl)
  · rcases he with he | ⟨pre, ch0, cls0, hu, he⟩
    · exact Or.inl he.symm
    · right
      simp only [Option.some.injEq] at he
      rw [he]
      -- the only failure in the list is the final one
      have hmem : NetEv.fail ch0 cls0 ∈ cs.map NetEv.data ++ [.fail ch cls] := by rw [hev, hu]; simp
      simp only [List.mem_append, List.mem_map, List.mem_cons, List.not_mem_nil, or_false] at hmem
      rcases hmem with ⟨_, _, h0⟩ | h0
      · cases h0
      · cases h0; rfl

/-- chunk invariance for sessions whose network stream ends with a failure -/
theorem session_fail_invariant (c : Crypto) (srv : Bool) (rx0 : Rx) (hs : Settled c srv rx0)
    (cs cs' : List Bytes) (ch ch' : Bytes) (cls cls' : String)
    (h : cs.flatten ++ ch = cs'.flatten ++ ch') (ns ns' : List Nat)
    (d d' : Bytes) (e e' : RxErr) (rxf rxf' : Rx) (bl bl' : Bool)
    (h1 : sessionUntilErr c srv ns rx0 (cs.map NetEv.data ++ [.fail ch cls]) = (d, some e, rxf, bl))
    (h2 : sessionUntilErr c srv ns' rx0 (cs'.map NetEv.data ++ [.fail ch' cls']) = (d', some e', rxf', bl')) :
    d ++ rxf.decoded = d' ++ rxf'.decoded ∧ rxf.dec = rxf'.dec ∧ rxf.seeds = rxf'.seeds ∧
      ∃ eN : Option RxErr, (eN = some e ∨ e = .net cls) ∧ (eN = some e' ∨ e' = .net cls') := by
  obtain ⟨o1, eN1, t1, hr1, hq1, hd1, hsd1, he1⟩ := session_fail_spec c srv ns rx0 cs ch cls d e rxf bl hs h1
  obtain ⟨o2, eN2, t2, hr2, hq2, hd2, hsd2, he2⟩ := session_fail_spec c srv ns' rx0 cs' ch' cls' d' e' rxf' bl' hs h2
  rw [h] at hr1
  obtain ⟨ho, hst, _⟩ := Machine.Runs.det _ hr1 hq1 hr2 hq2
  simp only [Prod.mk.injEq] at hst
  obtain ⟨hdec, heN⟩ := hst
  subst ho heN
  exact ⟨by rw [← hd1, ← hd2], hdec, by rw [← hsd1, ← hsd2], eN1, he1, he2⟩

end O4.Obfs4
