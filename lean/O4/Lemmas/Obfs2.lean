import O4.Model.Obfs2
import O4.Lemmas.Incremental
import O4.Lemmas.StreamConn
import O4.Lemmas.BytesBE
/-!
# obfs2 helper lemmas (core only)

* the handshake is a prefix-stable machine; `progress` runs it to quiescence; hence
  `feedAll` (arrival of arbitrary chunks) ends where a run over the whole stream ends (`feedAll_eq`);
* `Write`/`Read` sequences are keystream XORs of the concatenated stream.
-/
namespace O4.Obfs2
open O4.SC O4.Consts.Obfs2

variable (P : Prims)

/-- the handshake as a chunk consumer without outputs -/
def hsMachine : Machine Conn Empty where
  step c b := (hsStep P c b).map fun r => (r.1, [], r.2)

theorem hsStep_stable {c c' : Conn} {b : Bytes} {n : Nat} (h : hsStep P c b = some (c', n)) :
    n ≤ b.length ∧ ∀ e, hsStep P c (b ++ e) = some (c', n) := by
  unfold hsStep at h ⊢
  cases hp : c.phase with
  | seed =>
    simp only [hp] at h ⊢
    by_cases hl : b.length < seedLen
    · simp [hl] at h
    · have hl' : seedLen ≤ b.length := by omega
      simp only [hl, ↓reduceIte] at h
      refine ⟨?_, fun e => ?_⟩
      · revert h; split <;> (intro h; cases h; exact hl')
      · have : ¬ (b ++ e).length < seedLen := by simp; omega
        simp only [this, ↓reduceIte, List.take_append_of_le_length hl']
        exact h
  | hdr =>
    simp only [hp] at h ⊢
    by_cases hl : b.length < hsLen
    · simp [hl] at h
    · have hl' : hsLen ≤ b.length := by omega
      simp only [hl, ↓reduceIte] at h
      refine ⟨?_, fun e => ?_⟩
      · revert h; split <;> (intro h; cases h; exact hl')
      · have : ¬ (b ++ e).length < hsLen := by simp; omega
        simp only [this, ↓reduceIte, List.take_append_of_le_length hl']
        exact h
  | pad k =>
    simp only [hp] at h ⊢
    by_cases hl : b.length < k
    · simp [hl] at h
    · simp only [hl, ↓reduceIte, Option.some.injEq, Prod.mk.injEq] at h
      obtain ⟨rfl, rfl⟩ := h
      refine ⟨by omega, fun e => ?_⟩
      have : ¬ (b ++ e).length < k := by simp; omega
      simp only [this, ↓reduceIte]
  | done => simp [hp] at h
  | failed e => simp [hp] at h
  | panicked => simp [hp] at h

theorem hsMachine_prefixStable : (hsMachine P).PrefixStable := by
  intro s b s' o n h
  simp only [hsMachine, Option.map_eq_some_iff] at h
  obtain ⟨⟨c', n'⟩, hs, heq⟩ := h
  simp only [Prod.mk.injEq] at heq
  obtain ⟨rfl, rfl, rfl⟩ := heq
  obtain ⟨hn, hst⟩ := hsStep_stable P hs
  exact ⟨hn, fun e => by simp [hsMachine, hst e]⟩

/-- how many `ReadFull`s are still ahead -/
def rank : Phase → Nat
  | .seed => 3
  | .hdr => 2
  | .pad _ => 1
  | _ => 0

theorem kdf_rank (c : Conn) : rank (kdf P c).phase = 0 := by
  unfold kdf
  split <;> rfl

theorem hsStep_rank {c c' : Conn} {b : Bytes} {n : Nat} (h : hsStep P c b = some (c', n)) :
    rank c'.phase < rank c.phase := by
  unfold hsStep at h
  cases hp : c.phase with
  | seed =>
    simp only [hp] at h
    split at h
    · cases h
    · split at h <;> (cases h; simp [rank])
  | hdr =>
    simp only [hp] at h
    split at h
    · cases h
    · split at h <;> (cases h; simp [rank])
  | pad k =>
    simp only [hp] at h
    split at h
    · cases h
    · cases h; rw [kdf_rank]; simp [rank]
  | done => simp [hp] at h
  | failed e => simp [hp] at h
  | panicked => simp [hp] at h

theorem hsStep_rank0 {c : Conn} (h : rank c.phase = 0) (b : Bytes) : hsStep P c b = none := by
  unfold hsStep
  cases hp : c.phase <;> simp_all [rank]

theorem rank_le (p : Phase) : rank p ≤ 3 := by cases p <;> simp [rank]

theorem progressN_runs (k : Nat) (cq : Conn × Net) :
    (hsMachine P).Runs cq.1 cq.2.flatten [] (progressN P k cq).1 (progressN P k cq).2.flatten := by
  induction k generalizing cq with
  | zero => exact Machine.Runs.refl _ _
  | succ k ih =>
    unfold progressN
    cases h : hsStep P cq.1 cq.2.flatten with
    | none => exact Machine.Runs.refl _ _
    | some r =>
      obtain ⟨c', n⟩ := r
      have hs : (hsMachine P).step cq.1 cq.2.flatten = some (c', [], n) := by simp [hsMachine, h]
      have := ih (c', Net.dropBytes n cq.2)
      simp only [Net.dropBytes_flatten] at this
      exact Machine.Runs.step hs this

theorem progressN_rank (k : Nat) (cq : Conn × Net) :
    hsStep P (progressN P k cq).1 (progressN P k cq).2.flatten = none ∨
      rank (progressN P k cq).1.phase + k ≤ rank cq.1.phase := by
  induction k generalizing cq with
  | zero => right; simp [progressN]
  | succ k ih =>
    unfold progressN
    cases h : hsStep P cq.1 cq.2.flatten with
    | none => left; simpa using h
    | some r =>
      obtain ⟨c', n⟩ := r
      have hr := hsStep_rank P h
      rcases ih (c', Net.dropBytes n cq.2) with h1 | h1
      · left; exact h1
      · right; simp only at h1 ⊢; omega

theorem progress_runs (c : Conn) (q : Net) :
    (hsMachine P).Runs c q.flatten [] (progress P c q).1 (progress P c q).2.flatten :=
  progressN_runs P 3 (c, q)

theorem progress_quiescent (c : Conn) (q : Net) :
    (hsMachine P).Quiescent (progress P c q).1 (progress P c q).2.flatten := by
  have key : hsStep P (progress P c q).1 (progress P c q).2.flatten = none := by
    unfold progress
    have r0 := rank_le c.phase
    rcases progressN_rank P 3 (c, q) with h | h
    · exact h
    · exact hsStep_rank0 P (by simp only at h; omega) _
  simp [Machine.Quiescent, hsMachine, key]

theorem feedAll_fed (c : Conn) (q : Net) (cs : List Bytes) :
    (hsMachine P).Fed c q.flatten cs [] (feedAll P c q cs).1 (feedAll P c q cs).2.flatten := by
  induction cs generalizing c q with
  | nil => exact Machine.Fed.nil (progress_runs P c q) (progress_quiescent P c q)
  | cons ch cs ih =>
    have := ih (progress P c q).1 ((progress P c q).2.push ch)
    rw [Net.push_flatten] at this
    exact Machine.Fed.cons (o1 := []) (o2 := []) (progress_runs P c q) (progress_quiescent P c q) this

/-- MAIN: feeding any chunking ends exactly where a run over the concatenation ends -/
theorem feedAll_eq {c cfin : Conn} {rest : Bytes} (cs : List Bytes)
    (hr : (hsMachine P).Runs c cs.flatten [] cfin rest) (hq : hsStep P cfin rest = none) :
    (feedAll P c [] cs).1 = cfin ∧ (feedAll P c [] cs).2.flatten = rest := by
  obtain ⟨r, qz⟩ := (hsMachine P).chunk_invariant (hsMachine_prefixStable P) (feedAll_fed P c [] cs)
  simp only [List.flatten_nil, List.nil_append] at r
  have hq' : (hsMachine P).Quiescent cfin rest := by simp [Machine.Quiescent, hsMachine, hq]
  obtain ⟨_, h2, h3⟩ := Machine.Runs.det _ r qz hr hq'
  exact ⟨h2, h3⟩

/-! ## streams -/

theorem write_spec {ks} (hL : P.sxor.Law ks) (c : Conn) (d : Bytes) :
    (write P c d).2 = xorAt (ks c.tx.key c.tx.iv) c.tx.off d ∧
    (write P c d).1 = { c with tx := { c.tx with off := c.tx.off + d.length } } := by
  simp [write, Stream.xor, hL c.tx.key c.tx.iv c.tx.off d]

theorem writeAll_spec {ks} (hL : P.sxor.Law ks) (c : Conn) (ws : List Bytes) :
    (writeAll P c ws).2.flatten = xorAt (ks c.tx.key c.tx.iv) c.tx.off ws.flatten ∧
    (writeAll P c ws).1 = { c with tx := { c.tx with off := c.tx.off + ws.flatten.length } } := by
  induction ws generalizing c with
  | nil => simp [writeAll, xorAt]
  | cons w ws ih =>
    obtain ⟨h1, h2⟩ := write_spec P hL c w
    obtain ⟨i1, i2⟩ := ih (write P c w).1
    simp only [writeAll, List.flatten_cons, i1, i2, h1, xorAt_append]
    rw [h2]
    simp [Nat.add_assoc]

theorem read_spec {ks} (hL : P.sxor.Law ks) {c c1 : Conn} {max : Nat} {q q1 : Net} {o : Bytes}
    (h : read P c max q = some (c1, o, q1)) :
    ∃ chunk, chunk ++ q1.flatten = q.flatten ∧ o = xorAt (ks c.rx.key c.rx.iv) c.rx.off chunk ∧
      c1 = { c with rx := { c.rx with off := c.rx.off + chunk.length } } := by
  unfold read at h
  cases hr : Net.read max q with
  | none => simp [hr] at h
  | some r =>
    obtain ⟨chunk, q'⟩ := r
    simp only [hr, Stream.xor, Option.some.injEq, Prod.mk.injEq] at h
    obtain ⟨rfl, rfl, rfl⟩ := h
    exact ⟨chunk, Net.read_flatten hr, hL _ _ _ _, rfl⟩

/-- delivered pieces ++ decryption of what is still queued = decryption of everything queued -/
theorem reads_spec {ks} (hL : P.sxor.Law ks) {c c' : Conn} {q q' : Net} {outs : List Bytes}
    (h : Reads P c q outs c' q') :
    xorAt (ks c.rx.key c.rx.iv) c.rx.off q.flatten
        = outs.flatten ++ xorAt (ks c.rx.key c.rx.iv) c'.rx.off q'.flatten ∧
    c' = { c with rx := { c.rx with off := c.rx.off + outs.flatten.length } } := by
  induction h with
  | nil c q => simp
  | cons hmax hrd _ ih =>
    obtain ⟨chunk, hq, ho, hc1⟩ := read_spec P hL hrd
    obtain ⟨i1, i2⟩ := ih
    subst hc1
    simp only at i1 i2
    rw [← hq, xorAt_append, i1, ho, i2]
    simp [xorAt_length, Nat.add_assoc]

end O4.Obfs2

namespace O4.Obfs2
open O4.SC O4.Consts.Obfs2
variable (P : Prims)

/-! ## single `ReadFull`s on a stream that has the bytes -/

theorem hsStep_seed {c : Conn} (hc : c.phase = .seed) {x : Bytes} (hx : x.length = seedLen) (r : Bytes) :
    hsStep P c (x ++ r) = some
      (match kdfStream P (padString (!c.initiator)) x with
       | .ok rx => { c with peerSeed := x, rx := rx, phase := .hdr }
       | .error (.fail e) => { c with peerSeed := x, phase := .failed e }
       | .error .panic => { c with peerSeed := x, phase := .panicked }, seedLen) := by
  unfold hsStep
  have : ¬ (x ++ r).length < seedLen := by simp; omega
  simp only [hc, this, ↓reduceIte, List.take_left' hx]
  cases kdfStream P (padString (!c.initiator)) x with
  | ok rx => rfl
  | error s => cases s <;> rfl

theorem hsStep_hdr {c : Conn} (hc : c.phase = .hdr) {x : Bytes} (hx : x.length = hsLen) (r : Bytes) :
    hsStep P c (x ++ r) = some
      (match checkHeader (c.rx.xor P.sxor x).2 with
       | .error e => { c with rx := (c.rx.xor P.sxor x).1, phase := .failed e }
       | .ok padLen => { c with rx := (c.rx.xor P.sxor x).1, phase := .pad padLen, alloc := padLen }, hsLen) := by
  unfold hsStep
  have : ¬ (x ++ r).length < hsLen := by simp; omega
  simp only [hc, this, ↓reduceIte, List.take_left' hx]
  cases checkHeader (c.rx.xor P.sxor x).2 <;> rfl

theorem hsStep_pad {c : Conn} {n : Nat} (hc : c.phase = .pad n) {x : Bytes} (hx : x.length = n) (r : Bytes) :
    hsStep P c (x ++ r) = some (kdf P c, n) := by
  unfold hsStep
  have : ¬ (x ++ r).length < n := by simp; omega
  simp only [hc, this, ↓reduceIte]

theorem step_of_hsStep {c c' : Conn} {b : Bytes} {n : Nat} (h : hsStep P c b = some (c', n)) :
    (hsMachine P).step c b = some (c', [], n) := by simp [hsMachine, h]

/-- a complete, well-formed peer handshake followed by `rest` -/
theorem runs_good (c : Conn) (hc : c.phase = .seed) (seedP encHdr pad rest : Bytes) (rxs : Stream)
    (padLen : Nat) (hseed : seedP.length = seedLen)
    (hk : kdfStream P (padString (!c.initiator)) seedP = .ok rxs)
    (hhdr : encHdr.length = hsLen) (hchk : checkHeader (rxs.xor P.sxor encHdr).2 = .ok padLen)
    (hpad : pad.length = padLen) :
    (hsMachine P).Runs c (seedP ++ encHdr ++ pad ++ rest) []
      (kdf P { c with peerSeed := seedP, rx := (rxs.xor P.sxor encHdr).1, phase := .pad padLen,
                      alloc := padLen }) rest := by
  have s1 := hsStep_seed P hc hseed (encHdr ++ pad ++ rest)
  rw [hk] at s1
  have s2 := hsStep_hdr P (c := { c with peerSeed := seedP, rx := rxs, phase := .hdr }) rfl hhdr (pad ++ rest)
  simp only [hchk] at s2
  have s3 := hsStep_pad P (c := { c with peerSeed := seedP, rx := (rxs.xor P.sxor encHdr).1, phase := .pad padLen, alloc := padLen }) rfl hpad rest
  have r3 := Machine.Runs.step (step_of_hsStep P s3) (Machine.Runs.refl _ _)
  rw [List.drop_left' hpad] at r3
  have r2 := Machine.Runs.step (step_of_hsStep P s2) (by rw [List.drop_left' hhdr]; exact r3)
  have r1 := Machine.Runs.step (step_of_hsStep P s1)
    (by rw [List.drop_left' hseed]; simpa [List.append_assoc] using r2)
  simpa [List.append_assoc] using r1

/-- a peer handshake whose header is rejected -/
theorem runs_bad (c : Conn) (hc : c.phase = .seed) (seedP encHdr rest : Bytes) (rxs : Stream)
    (e : Err) (hseed : seedP.length = seedLen)
    (hk : kdfStream P (padString (!c.initiator)) seedP = .ok rxs)
    (hhdr : encHdr.length = hsLen) (hchk : checkHeader (rxs.xor P.sxor encHdr).2 = .error e) :
    (hsMachine P).Runs c (seedP ++ encHdr ++ rest) []
      { c with peerSeed := seedP, rx := (rxs.xor P.sxor encHdr).1, phase := .failed e } rest := by
  have s1 := hsStep_seed P hc hseed (encHdr ++ rest)
  rw [hk] at s1
  have s2 := hsStep_hdr P (c := { c with peerSeed := seedP, rx := rxs, phase := .hdr }) rfl hhdr rest
  simp only [hchk] at s2
  have r2 := Machine.Runs.step (step_of_hsStep P s2) (Machine.Runs.refl _ _)
  rw [List.drop_left' hhdr] at r2
  have r1 := Machine.Runs.step (step_of_hsStep P s1)
    (by rw [List.drop_left' hseed]; simpa using r2)
  simpa [List.append_assoc] using r1

/-! ## primitives that never refuse (true of SHA-256 / AES-128: 32-byte digests, 16-byte key and IV) -/

structure PrimsOk (P : Prims) : Prop where
  hashLen : ∀ x, keyLen ≤ (P.hash x).length
  keyOk : ∀ x, P.keyOk ((P.hash x).take keyLen) = true
  ivOk : ∀ x, P.ivOk ((P.hash x).drop keyLen) = true

theorem kdfStream_ok {P : Prims} (h : PrimsOk P) (label seed : Bytes) :
    kdfStream P label seed =
      .ok { key := (mac P label seed).take keyLen, iv := (mac P label seed).drop keyLen, off := 0 } := by
  simp only [kdfStream, hsKdf, newStream, mac, h.hashLen, h.keyOk, h.ivOk, ↓reduceIte, bind, Except.bind]
  rfl

theorem magic_lt : magicValue < 256 ^ 4 := by decide
theorem maxPadding_lt : maxPadding < 256 ^ 4 := by decide

theorem checkHeader_encode (n : Nat) (hn : n ≤ maxPadding) :
    checkHeader (Bytes.ofNatBE 4 magicValue ++ Bytes.ofNatBE 4 n) = .ok n := by
  have hm : (Bytes.ofNatBE 4 magicValue).length = 4 := Bytes.ofNatBE_length _ _
  have hl : (Bytes.ofNatBE 4 n).length = 4 := Bytes.ofNatBE_length _ _
  have h1 : (Bytes.ofNatBE 4 magicValue ++ Bytes.ofNatBE 4 n).take 4 = Bytes.ofNatBE 4 magicValue :=
    List.take_left' hm
  have h2 : ((Bytes.ofNatBE 4 magicValue ++ Bytes.ofNatBE 4 n).drop 4).take 4 = Bytes.ofNatBE 4 n := by
    rw [List.drop_left' hm, List.take_of_length_le (by omega)]
  have hn' : n < 256 ^ 4 := Nat.lt_of_le_of_lt hn maxPadding_lt
  unfold checkHeader
  rw [h1, h2, Bytes.toNatBE_ofNatBE_of_lt _ _ magic_lt, Bytes.toNatBE_ofNatBE_of_lt _ _ hn']
  simp [Nat.not_lt.mpr hn]

/-- what `startWith` returns when the primitives do not refuse -/
theorem startWith_facts {P : Prims} (hP : PrimsOk P) {init : Bool} {seed pad : Bytes} {padLen : Nat}
    {c : Conn} {w : List Bytes} (h : startWith P init seed padLen pad = .ok (c, w)) :
    c.phase = .seed ∧ c.initiator = init ∧ c.seed = seed ∧ c.alloc = 0 ∧
    w = [seed, P.sxor ((mac P (padString init) seed).take keyLen) ((mac P (padString init) seed).drop keyLen) 0
            (Bytes.ofNatBE 4 magicValue ++ Bytes.ofNatBE 4 padLen ++ pad)] := by
  simp only [startWith, kdfStream_ok hP, Stream.xor, bind, Except.bind, pure, Except.pure,
    Except.ok.injEq, Prod.mk.injEq] at h
  obtain ⟨rfl, rfl⟩ := h
  exact ⟨rfl, rfl, rfl, rfl, rfl⟩

theorem hsLen_eq : hsLen = 4 + 4 := by decide

/-- the peer's view of a handshake message: 8 encrypted header bytes that pass `checkHeader`,
then as many bytes as announced -/
theorem blob_view {P : Prims} {ks} (hL : P.sxor.Law ks) (key iv pad : Bytes) (hp : pad.length ≤ maxPadding) :
    ∃ encHdr encPad, encHdr.length = hsLen ∧ encPad.length = pad.length ∧
      P.sxor key iv 0 (Bytes.ofNatBE 4 magicValue ++ Bytes.ofNatBE 4 pad.length ++ pad) = encHdr ++ encPad ∧
      checkHeader (P.sxor key iv 0 encHdr) = .ok pad.length := by
  rw [hL, xorAt_append]
  refine ⟨_, _, ?_, ?_, rfl, ?_⟩
  · rw [xorAt_length, List.length_append, Bytes.ofNatBE_length, Bytes.ofNatBE_length, hsLen_eq]
  · rw [xorAt_length]
  · rw [hL, xorAt_xorAt]; exact checkHeader_encode _ hp

/-- the queue the handshake leaves behind consists of non-empty chunks -/
theorem progressN_nonempty (P : Prims) (k : Nat) : ∀ (cq : Conn × Net), (∀ ch ∈ cq.2, ch ≠ []) →
    ∀ ch ∈ (progressN P k cq).2, ch ≠ [] := by
  induction k with
  | zero => intro cq h; exact h
  | succ k ih =>
    intro cq h
    unfold progressN
    split
    · exact h
    · exact ih _ (Net.dropBytes_nonempty _ h)

theorem feedAll_nonempty (P : Prims) (cs : List Bytes) : ∀ (c : Conn) (q : Net), (∀ ch ∈ q, ch ≠ []) →
    ∀ ch ∈ (feedAll P c q cs).2, ch ≠ [] := by
  induction cs with
  | nil => intro c q hq; exact progressN_nonempty P 3 (c, q) hq
  | cons x cs ih =>
    intro c q hq
    simp only [feedAll]
    exact ih _ _ (Net.push_nonempty (progressN_nonempty P 3 (c, q) hq) x)

end O4.Obfs2
