import O4.Model.Obfs4Ref
import O4.Lemmas.CryptoBasic
import O4.Lemmas.Framing
/-!
# Helper lemmas for the obfs4 handshake / wire-format theorems (C06, C02, C04). Core only.

* decimal rendering (`epochStr`) is injective
* `math/rand.Intn` / `csrand.IntRange` over any source stay in range
* lengths of everything the reference implementation puts on the wire
-/
namespace O4.HsLemmas
open O4.Handshake O4.Consts.Obfs4 O4.Consts.Ntor

/-- a toy instance of the primitives (nothing cryptographic about it): witnesses that the
    hypotheses the theorems put on abstract primitives (`HmacLen`, `HkdfLen`, `DhComm`, …) are
    satisfiable -/
def toyPrims : Handshake.Prims where
  hmac k m := (k ++ m ++ List.replicate 32 0).take 32
  x25519 a b := List.zipWith (· * ·) a b
  hkdf s _ _ n := (s ++ List.replicate n 7).take n
  reprToPublic r := r

/-- HMAC-SHA256 returns `sha256.Size` bytes -/
def HmacLen (P : Handshake.Prims) : Prop := ∀ k m, (P.hmac k m).length = keySeedLength

/-- the HKDF reader yields exactly the requested number of bytes (up to its entropy limit) -/
def HkdfLen (P : Handshake.Prims) : Prop := ∀ s salt info n, n ≤ 255 * 32 → (P.hkdf s salt info n).length = n

theorem mark_length (P : Handshake.Prims) (hP : HmacLen P) (a b r : Bytes) :
    (mark P a b r).length = markLength := by
  simp [mark, hP _ _, keySeedLength, markLength]

theorem mac_length (P : Handshake.Prims) (hP : HmacLen P) (a b body : Bytes) (h : Int) :
    (mac P a b body h).length = macLength := by
  simp [mac, hP _ _, keySeedLength, macLength]

/-! ## decimal digits -/

/-- value of a string of ASCII digits -/
def digitsVal (b : Bytes) : Nat := b.foldl (fun acc d => acc * 10 + (d.toNat - 48)) 0

theorem digitsVal_snoc (l : Bytes) (d : UInt8) : digitsVal (l ++ [d]) = digitsVal l * 10 + (d.toNat - 48) := by
  simp [digitsVal, List.foldl_append]

theorem digit_toNat (k : Nat) (hk : k < 10) : (UInt8.ofNat (48 + k)).toNat = 48 + k := by
  rw [UInt8.toNat_ofNat']
  omega

theorem natDigits_val (fuel n : Nat) (h : n < fuel) : digitsVal (natDigits fuel n) = n := by
  induction fuel generalizing n with
  | zero => omega
  | succ f ih =>
    unfold natDigits
    by_cases h10 : n < 10
    · simp only [h10, ↓reduceIte]
      show List.foldl _ 0 [UInt8.ofNat (48 + n)] = n
      simp only [List.foldl]
      rw [digit_toNat n h10]; omega
    · simp only [h10, ↓reduceIte]
      rw [digitsVal_snoc, ih (n / 10) (by omega), digit_toNat _ (Nat.mod_lt _ (by decide))]
      omega

/-- every byte is an ASCII digit -/
theorem natDigits_digits (fuel n : Nat) : ∀ d ∈ natDigits fuel n, 48 ≤ d.toNat ∧ d.toNat ≤ 57 := by
  induction fuel generalizing n with
  | zero => simp [natDigits]
  | succ f ih =>
    unfold natDigits
    by_cases h10 : n < 10
    · simp only [h10, ↓reduceIte, List.mem_singleton]
      rintro d rfl
      rw [digit_toNat n h10]; omega
    · simp only [h10, ↓reduceIte, List.mem_append, List.mem_singleton]
      rintro d (hd | rfl)
      · exact ih _ d hd
      · rw [digit_toNat _ (Nat.mod_lt _ (by decide))]
        have := Nat.mod_lt n (show 0 < 10 by decide)
        omega

theorem natDigits_ne_nil (fuel n : Nat) (h : n < fuel) : natDigits fuel n ≠ [] := by
  cases fuel with
  | zero => omega
  | succ f =>
    unfold natDigits
    by_cases h10 : n < 10 <;> simp [h10]

/-- `strconv.FormatInt(·, 10)` is injective: distinct hours give distinct MAC inputs -/
theorem epochStr_injective (a b : Int) (h : epochStr a = epochStr b) : a = b := by
  unfold epochStr at h
  have hva := natDigits_val (a.natAbs + 1) a.natAbs (by omega)
  have hvb := natDigits_val (b.natAbs + 1) b.natAbs (by omega)
  have hda := natDigits_digits (a.natAbs + 1) a.natAbs
  have hdb := natDigits_digits (b.natAbs + 1) b.natAbs
  have hna := natDigits_ne_nil (a.natAbs + 1) a.natAbs (by omega)
  have hnb := natDigits_ne_nil (b.natAbs + 1) b.natAbs (by omega)
  by_cases ha : a < 0 <;> by_cases hb : b < 0
  · simp only [ha, hb, ↓reduceIte, List.cons.injEq, true_and] at h
    rw [h] at hva
    have : a.natAbs = b.natAbs := by rw [← hva, hvb]
    omega
  · simp only [ha, hb, ↓reduceIte] at h
    exfalso
    cases hl : natDigits (b.natAbs + 1) b.natAbs with
    | nil => exact hnb hl
    | cons d r =>
      rw [hl] at h hdb
      have h1 := (List.cons.inj h).1
      have := hdb d (by simp)
      rw [← h1] at this
      simp at this
  · simp only [ha, hb, ↓reduceIte] at h
    exfalso
    cases hl : natDigits (a.natAbs + 1) a.natAbs with
    | nil => exact hna hl
    | cons d r =>
      rw [hl] at h hda
      have h1 := (List.cons.inj h).1
      have := hda d (by simp)
      rw [h1] at this
      simp at this
  · simp only [ha, hb, ↓reduceIte] at h
    rw [h] at hva
    have : a.natAbs = b.natAbs := by rw [← hva, hvb]
    omega

/-! ## `Intn` / `IntRange` stay in range, for every source -/

section
variable {σ : Type} (src : GoRand.Source σ)

theorem rejectLoop_lt (draw : σ → Nat × σ) (max n : Nat) (hn : 0 < n) (f : Nat) (s : σ) (v : Nat) (s' : σ)
    (h : GoRand.rejectLoop draw max n f s = some (v, s')) : v < n := by
  induction f generalizing s with
  | zero => simp [GoRand.rejectLoop] at h
  | succ f ih =>
    simp only [GoRand.rejectLoop] at h
    split at h
    · exact ih _ h
    · simp only [Option.some.injEq, Prod.mk.injEq] at h
      rw [← h.1]; exact Nat.mod_lt _ hn

theorem and_pred_lt (v n : Nat) (hn : 0 < n) : v &&& (n - 1) < n := by
  have := @Nat.and_le_right v (n - 1)
  omega

theorem intn_lt (n : Nat) (s : σ) (v : Nat) (s' : σ) (h : GoRand.intn src n s = some (v, s')) : v < n := by
  unfold GoRand.intn at h
  split at h
  · cases h
  · rename_i hn0
    have hn : 0 < n := by
      rcases Nat.eq_zero_or_pos n with h0 | h0
      · simp [h0] at hn0
      · exact h0
    split at h
    · unfold GoRand.int31n at h
      split at h
      · simp only [Option.some.injEq, Prod.mk.injEq] at h
        rw [← h.1]; exact and_pred_lt _ _ hn
      · exact rejectLoop_lt _ _ _ hn _ _ _ _ h
    · unfold GoRand.int63n at h
      split at h
      · simp only [Option.some.injEq, Prod.mk.injEq] at h
        rw [← h.1]; exact and_pred_lt _ _ hn
      · exact rejectLoop_lt _ _ _ hn _ _ _ _ h

end

/-- `csrand.IntRange(lo, hi)` over the tape returns a value in `[lo, hi]` -/
theorem intRange_bounds (lo hi : Nat) (tape : Bytes) (v : Nat) (rest : Bytes)
    (h : Ref.intRange lo hi tape = some (v, rest)) : lo ≤ v ∧ v ≤ hi := by
  unfold Ref.intRange at h
  split at h
  · rename_i v' t heq
    unfold CsRand.intRange at heq
    simp only [] at heq
    split at heq
    · cases heq
    · split at heq
      · cases heq
      · split at heq
        · cases heq
        · rename_i w s' hw
          have hlt := intn_lt GoRand.tapeSource _ _ _ _ hw
          simp only [CsRand.RangeResult.ok.injEq] at heq
          split at h
          · cases h
          · simp only [Option.some.injEq, Prod.mk.injEq] at h
            rw [← h.1, ← heq.1]
            omega
  · cases h

theorem takeN_length (n : Nat) (tape a b : Bytes) (h : Ref.takeN n tape = some (a, b)) :
    a.length = n ∧ tape = a ++ b := by
  unfold Ref.takeN at h
  split at h
  · cases h
  · simp only [Option.some.injEq, Prod.mk.injEq] at h
    rw [← h.1, ← h.2]
    exact ⟨by simp; omega, (List.take_append_drop n tape).symm⟩

/-! ## the tape source only ever drops bytes from the front -/

/-- `t'` is what is left of tape `t` -/
def TapeSuffix (t t' : GoRand.Tape) : Prop := ∃ d, t.data = d ++ t'.data

theorem TapeSuffix.refl (t : GoRand.Tape) : TapeSuffix t t := ⟨[], rfl⟩
theorem TapeSuffix.trans {a b c : GoRand.Tape} (h1 : TapeSuffix a b) (h2 : TapeSuffix b c) : TapeSuffix a c := by
  obtain ⟨d1, e1⟩ := h1; obtain ⟨d2, e2⟩ := h2
  exact ⟨d1 ++ d2, by rw [e1, e2, List.append_assoc]⟩

theorem tape_int63_suffix (t : GoRand.Tape) : TapeSuffix t (GoRand.tapeSource.int63 t).2 :=
  ⟨t.data.take 8, (List.take_append_drop 8 t.data).symm⟩

theorem tape_int31_suffix (t : GoRand.Tape) : TapeSuffix t (GoRand.int31 GoRand.tapeSource t).2 :=
  tape_int63_suffix t

theorem rejectLoop_suffix (draw : GoRand.Tape → Nat × GoRand.Tape) (hd : ∀ t, TapeSuffix t (draw t).2)
    (max n f : Nat) (s : GoRand.Tape) (v : Nat) (s' : GoRand.Tape)
    (h : GoRand.rejectLoop draw max n f s = some (v, s')) : TapeSuffix s s' := by
  induction f generalizing s with
  | zero => simp [GoRand.rejectLoop] at h
  | succ f ih =>
    simp only [GoRand.rejectLoop] at h
    split at h
    · exact (hd s).trans (ih _ h)
    · simp only [Option.some.injEq, Prod.mk.injEq] at h
      rw [← h.2]; exact hd s

theorem intn_suffix (n : Nat) (s : GoRand.Tape) (v : Nat) (s' : GoRand.Tape)
    (h : GoRand.intn GoRand.tapeSource n s = some (v, s')) : TapeSuffix s s' := by
  unfold GoRand.intn at h
  split at h
  · cases h
  · split at h
    · unfold GoRand.int31n at h
      split at h
      · simp only [Option.some.injEq, Prod.mk.injEq] at h
        rw [← h.2]; exact tape_int31_suffix s
      · exact rejectLoop_suffix _ tape_int31_suffix _ _ _ _ _ _ h
    · unfold GoRand.int63n at h
      split at h
      · simp only [Option.some.injEq, Prod.mk.injEq] at h
        rw [← h.2]; exact tape_int63_suffix s
      · exact rejectLoop_suffix _ tape_int63_suffix _ _ _ _ _ _ h

/-- `csrand.IntRange` leaves a suffix of the tape -/
theorem intRange_suffix (lo hi : Nat) (tape : Bytes) (v : Int) (t : GoRand.Tape) (rest : Bytes)
    (heq : CsRand.intRange GoRand.tapeSource (lo : Int) (hi : Int) ⟨tape, false⟩ = .ok v t)
    (hr : t.data = rest) : ∃ d, tape = d ++ rest := by
  unfold CsRand.intRange at heq
  simp only [] at heq
  split at heq
  · cases heq
  · split at heq
    · cases heq
    · split at heq
      · cases heq
      · rename_i w s' hw
        simp only [CsRand.RangeResult.ok.injEq] at heq
        obtain ⟨d, hd⟩ := intn_suffix _ _ _ _ hw
        rw [← hr, ← heq.2]
        exact ⟨d, hd⟩

/-! ## lengths -/

theorem toBytes_length (a : Nat) : (Crypto.F25519.toBytes a).length = 32 := by
  simp [Crypto.F25519.toBytes, Crypto.ofNatLE_length]

theorem checkedPair_lengths (o : Option (Bytes × Bytes)) (pub repr : Bytes)
    (h : Ref.checkedPair o = some (pub, repr)) :
    pub.length = publicKeyLength ∧ repr.length = representativeLength := by
  unfold Ref.checkedPair at h
  split at h
  · split at h
    · rename_i hl
      have := Option.some.inj h
      simp only [Prod.mk.injEq] at this
      rw [← this.1, ← this.2]; exact hl
    · cases h
  · cases h

theorem keypairOf_lengths (r : Bytes) (kp : Ref.Keypair) (h : Ref.keypairOf r = some kp) :
    kp.priv.length = privateKeyLength ∧ kp.pub.length = publicKeyLength ∧
      kp.repr.length = representativeLength := by
  unfold Ref.keypairOf at h
  obtain ⟨⟨pub, repr⟩, h1, h2⟩ := Option.map_eq_some_iff.mp h
  have hl := checkedPair_lengths _ _ _ h1
  rw [← h2]
  exact ⟨by simp [Crypto.sha512_length, privateKeyLength], hl.1, hl.2⟩

theorem newKeypair_lengths (fuel : Nat) (tape : Bytes) (kp : Ref.Keypair) (rest : Bytes)
    (h : Ref.newKeypair fuel tape = some (kp, rest)) :
    kp.priv.length = privateKeyLength ∧ kp.pub.length = publicKeyLength ∧
      kp.repr.length = representativeLength := by
  induction fuel generalizing tape with
  | zero => simp [Ref.newKeypair] at h
  | succ f ih =>
    simp only [Ref.newKeypair] at h
    split at h
    · cases h
    · split at h
      · rename_i kp' hk
        simp only [Option.some.injEq, Prod.mk.injEq] at h
        rw [← h.1]; exact keypairOf_lengths _ _ hk
      · exact ih _ h

end O4.HsLemmas
