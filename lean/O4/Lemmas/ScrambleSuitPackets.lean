import O4.Lemmas.ScrambleSuit
/-!
# The ScrambleSuit packet reader as a prefix-stable machine (core only)

Prefix-stability of every phase, termination of the loop (fuel adequacy of `rxRun`), chunked
feeding = whole stream, the honest round trip for arbitrary packet lists under an abstract
stream cipher, and the shape of the first packet read from an arbitrary buffer (for the
reduction-form tamper theorem).
-/
namespace O4

/-- a quiescent run from the same start extends every partial run -/
theorem Machine.Runs.factor {σ Out : Type} (M : Machine σ Out) {s b o1 s1 b1 o s' r}
    (h1 : M.Runs s b o1 s1 b1) (h : M.Runs s b o s' r) (hq : M.Quiescent s' r) :
    ∃ o2, o = o1 ++ o2 ∧ M.Runs s1 b1 o2 s' r := by
  induction h1 generalizing o with
  | refl => exact ⟨o, rfl, h⟩
  | step hs _ ih =>
    cases h with
    | refl => simp [Machine.Quiescent] at hq; rw [hq] at hs; cases hs
    | step hs' h' =>
      rw [hs] at hs'; cases hs'
      obtain ⟨o2, ho, hr⟩ := ih h'
      exact ⟨o2, by rw [ho, List.append_assoc], hr⟩

namespace SS
open O4.Consts.Scramblesuit

theorem c_hdr : pktHdrLength = 5 := by decide
theorem c_hdr_pos : 0 < pktHdrLength := by decide
theorem c_pay_lt : maxPayloadLength < 65536 := by decide
theorem c_ovh : pktOverhead = macLength + pktHdrLength := by decide
theorem c_mac_pay : macLength ≤ maxPayloadLength ∧ pktHdrLength ≤ maxPayloadLength := by decide

theorem take_append_le {b e : Bytes} {n : Nat} (h : n ≤ b.length) : (b ++ e).take n = b.take n :=
  List.take_append_of_le_length h

/-- every phase of the packet loop is prefix-stable -/
theorem rx_prefixStable (P : Prims) (k : DirKeys) : (rxMachine P k).PrefixStable := by
  intro s b s' o n h
  simp only [rxMachine] at h ⊢
  unfold rxStep at h ⊢
  by_cases hf : s.failed = true
  · simp [hf] at h
  · simp only [hf, Bool.false_eq_true, ↓reduceIte] at h ⊢
    cases hm : s.mac with
    | none =>
      simp only [hm] at h ⊢
      by_cases hl : b.length < macLength
      · simp [hl] at h
      · simp only [hl, ↓reduceIte, Option.some.injEq, Prod.mk.injEq] at h
        obtain ⟨rfl, rfl, rfl⟩ := h
        refine ⟨by omega, fun e => ?_⟩
        have : ¬ (b ++ e).length < macLength := by rw [List.length_append]; omega
        simp only [this, ↓reduceIte, take_append_le (Nat.not_lt.mp hl)]
    | some mac =>
      simp only [hm] at h ⊢
      cases hh : s.hdr with
      | none =>
        simp only [hh] at h ⊢
        by_cases hl : b.length < pktHdrLength
        · simp [hl] at h
        · simp only [hl, ↓reduceIte] at h
          have hne : ∀ e, ¬ (b ++ e).length < pktHdrLength := by intro e; rw [List.length_append]; omega
          have hn : n = pktHdrLength := by
            split at h <;> simp only [Option.some.injEq, Prod.mk.injEq] at h <;> exact h.2.2.symm
          refine ⟨by omega, fun e => ?_⟩
          simp only [hne e, ↓reduceIte, take_append_le (Nat.not_lt.mp hl)]
          exact h
      | some hdr =>
        simp only [hh] at h ⊢
        by_cases hl : b.length < s.totalLen
        · simp [hl] at h
        · simp only [hl, ↓reduceIte] at h
          have hne : ∀ e, ¬ (b ++ e).length < s.totalLen := by intro e; rw [List.length_append]; omega
          have hn : n = s.totalLen := by
            split at h
            · simp only [Option.some.injEq, Prod.mk.injEq] at h; exact h.2.2.symm
            · split at h <;> simp only [Option.some.injEq, Prod.mk.injEq] at h <;> exact h.2.2.symm
          refine ⟨by omega, fun e => ?_⟩
          simp only [hne e, ↓reduceIte, take_append_le (Nat.not_lt.mp hl)]
          exact h

/-! ## termination: the executable loop reaches quiescence -/

/-- progress measure of the loop -/
def rxPhi (s : Rx) (b : Bytes) : Nat := 3 * b.length + (if s.hdr.isSome && !s.failed then 1 else 0)

theorem rxStep_decreases (P : Prims) (k : DirKeys) {s : Rx} {b : Bytes} {s' : Rx} {o : List Out} {n : Nat}
    (h : rxStep P k s b = some (s', o, n)) : rxPhi s' (b.drop n) < rxPhi s b := by
  have hm0 := c_mac_pos
  have hh0 := c_hdr_pos
  unfold rxStep at h
  by_cases hf : s.failed = true
  · simp [hf] at h
  · simp only [hf, Bool.false_eq_true, ↓reduceIte] at h
    have hf' : s.failed = false := by simpa using hf
    cases hm : s.mac with
    | none =>
      simp only [hm] at h
      by_cases hl : b.length < macLength
      · simp [hl] at h
      · simp only [hl, ↓reduceIte, Option.some.injEq, Prod.mk.injEq] at h
        obtain ⟨rfl, rfl, rfl⟩ := h
        simp only [rxPhi, List.length_drop, hf']
        split <;> omega
    | some mac =>
      simp only [hm] at h
      cases hh : s.hdr with
      | none =>
        simp only [hh] at h
        by_cases hl : b.length < pktHdrLength
        · simp [hl] at h
        · simp only [hl, ↓reduceIte] at h
          split at h <;> simp only [Option.some.injEq, Prod.mk.injEq] at h <;>
            obtain ⟨rfl, rfl, rfl⟩ := h <;>
            simp only [rxPhi, List.length_drop, hh, Option.isSome_none, Bool.false_and, Bool.false_eq_true,
              ↓reduceIte] <;> first | omega | (split <;> omega)
      | some hdr =>
        simp only [hh] at h
        by_cases hl : b.length < s.totalLen
        · simp [hl] at h
        · simp only [hl, ↓reduceIte] at h
          have hrank : rxPhi s b = 3 * b.length + 1 := by simp [rxPhi, hh, hf']
          split at h
          · simp only [Option.some.injEq, Prod.mk.injEq] at h
            obtain ⟨rfl, rfl, rfl⟩ := h
            rw [hrank]; simp only [rxPhi, List.length_drop, Bool.not_true, Bool.and_false,
              Bool.false_eq_true, ↓reduceIte]; omega
          · split at h <;> simp only [Option.some.injEq, Prod.mk.injEq] at h <;>
              obtain ⟨rfl, rfl, rfl⟩ := h <;> rw [hrank] <;>
              simp only [rxPhi, List.length_drop, Bool.not_true, Bool.and_false, Option.isSome_none,
                Bool.false_and, Bool.false_eq_true, ↓reduceIte] <;> omega

/-- with enough fuel `rxRun` is a run to quiescence -/
theorem rxRun_spec (P : Prims) (k : DirKeys) : ∀ (fuel : Nat) (s : Rx) (b : Bytes), rxPhi s b < fuel →
    (rxMachine P k).Runs s b (rxRun P k fuel s b).2.1 (rxRun P k fuel s b).1 (rxRun P k fuel s b).2.2 ∧
    (rxMachine P k).Quiescent (rxRun P k fuel s b).1 (rxRun P k fuel s b).2.2 := by
  intro fuel
  induction fuel with
  | zero => intro s b h; omega
  | succ f ih =>
    intro s b h
    cases hs : rxStep P k s b with
    | none =>
      simp only [rxRun, hs]
      exact ⟨Machine.Runs.refl _ _, hs⟩
    | some r =>
      obtain ⟨s', o, n⟩ := r
      have hdec := rxStep_decreases P k hs
      obtain ⟨hr, hq⟩ := ih s' (b.drop n) (by omega)
      simp only [rxRun, hs]
      exact ⟨Machine.Runs.step (M := rxMachine P k) hs hr, hq⟩

theorem rxPhi_lt_fuel (s : Rx) (b : Bytes) : rxPhi s b < rxFuel b.length := by
  simp only [rxPhi, rxFuel]; split <;> omega

/-- one `readPackets` call runs the loop to quiescence on buffer ++ segment -/
theorem readPackets_spec (P : Prims) (k : DirKeys) (s : Rx) (buf c : Bytes) :
    (rxMachine P k).Runs s (buf ++ c) (readPackets P k s buf c).2.1 (readPackets P k s buf c).1
      (readPackets P k s buf c).2.2 ∧
    (rxMachine P k).Quiescent (readPackets P k s buf c).1 (readPackets P k s buf c).2.2 :=
  rxRun_spec P k _ s (buf ++ c) (rxPhi_lt_fuel s (buf ++ c))

/-- **chunked = whole**: feeding any list of segments, running the loop after each, is one run
    to quiescence on the concatenation -/
theorem feedChunks_whole (P : Prims) (k : DirKeys) : ∀ (cs : List Bytes) (s : Rx) (buf : Bytes),
    (cs ≠ [] ∨ (rxMachine P k).Quiescent s buf) →
    (rxMachine P k).Runs s (buf ++ cs.flatten) (feedChunks P k s buf cs).2.1 (feedChunks P k s buf cs).1
      (feedChunks P k s buf cs).2.2 ∧
    (rxMachine P k).Quiescent (feedChunks P k s buf cs).1 (feedChunks P k s buf cs).2.2 := by
  intro cs
  induction cs with
  | nil =>
    intro s buf hq
    simp only [feedChunks, List.flatten_nil, List.append_nil]
    exact ⟨Machine.Runs.refl _ _, hq.resolve_left (fun h => h rfl)⟩
  | cons c cs ih =>
    intro s buf _
    obtain ⟨hr1, hq1⟩ := readPackets_spec P k s buf c
    obtain ⟨hr2, hq2⟩ := ih _ _ (Or.inr hq1)
    simp only [feedChunks]
    refine ⟨?_, hq2⟩
    have := Machine.feed_two (rxMachine P k) (rx_prefixStable P k) hr1 hr2
    simpa [List.append_assoc] using this

/-! ## the honest round trip -/

/-- what the theorems need of the stream cipher of one direction: it is a length-preserving
    XOR-like involution whose keystream position advances with the data (true of AES-CTR) -/
structure StreamOK (P : Prims) (k : DirKeys) : Prop where
  len : ∀ off d, (xorAt P k off d).length = d.length
  invol : ∀ off d, xorAt P k off (xorAt P k off d) = d
  split : ∀ off a b, xorAt P k off (a ++ b) = xorAt P k off a ++ xorAt P k (off + a.length) b

/-- a packet the sender may send: fits, has a flag byte, and means something to the receiver -/
structure PktOK (flag : Nat) (data : Bytes) (padLen : Nat) : Prop where
  size : data.length + padLen ≤ maxPayloadLength
  flagOk : flag < 256
  good : dispatch flag data ≠ .err

/-- receiver between two packets: nothing pending, keystream offset `o`, last MAC input `mb` -/
def idleAt (o : Nat) (mb : Bytes) : Rx := ⟨none, none, 0, 0, o, mb, false⟩

theorem Rx.init_eq (o : Nat) : Rx.init o = idleAt o [] := rfl

def hdrPlain (flag dl padLen : Nat) : Bytes := putBe16 (dl + padLen) ++ putBe16 dl ++ [UInt8.ofNat flag]

theorem hdrPlain_length (flag dl padLen : Nat) : (hdrPlain flag dl padLen).length = pktHdrLength := by
  simp [hdrPlain, putBe16]; decide

theorem pktPlain_eq (flag : Nat) (data : Bytes) (padLen : Nat) :
    pktPlain flag data padLen = hdrPlain flag data.length padLen ++ (data ++ Bytes.zeros padLen) := by
  simp [pktPlain, hdrPlain, List.append_assoc]

theorem hdrPlain_fields (flag dl padLen : Nat) (h : dl + padLen < 65536) (hf : flag < 256) :
    be16At (hdrPlain flag dl padLen) 0 = dl + padLen ∧ be16At (hdrPlain flag dl padLen) 2 = dl ∧
    ((hdrPlain flag dl padLen).getD 4 0).toNat = flag := by
  simp [be16At, hdrPlain, putBe16, UInt8.toNat_ofNat']
  omega

theorem runs_step (P : Prims) (k : DirKeys) {s : Rx} {b : Bytes} {s1 : Rx} {o : List Out} {n : Nat}
    {os : List Out} {s2 : Rx} {b2 : Bytes} (h : rxStep P k s b = some (s1, o, n))
    (hr : (rxMachine P k).Runs s1 (b.drop n) os s2 b2) : (rxMachine P k).Runs s b (o ++ os) s2 b2 :=
  Machine.Runs.step (M := rxMachine P k) h hr

/-- ONE honest packet, followed by anything, is decoded in three phases -/
theorem decode_one (P : Prims) (k : DirKeys) (hm : MacLen P) (hx : StreamOK P k)
    (o : Nat) (mb : Bytes) (flag : Nat) (data : Bytes) (padLen : Nat) (ok : PktOK flag data padLen) (rest : Bytes) :
    (rxMachine P k).Runs (idleAt o mb) (pktWire P k o flag data padLen ++ rest) [dispatch flag data]
      (idleAt (o + (pktHdrLength + data.length + padLen)) (pktCipher P k o flag data padLen)) rest := by
  have hpl := c_pay_lt
  have hsz := ok.size
  obtain ⟨hf0, hf2, hf4⟩ := hdrPlain_fields flag data.length padLen (by omega) ok.flagOk
  have hhl := hdrPlain_length flag data.length padLen
  -- the ciphertext in two pieces
  have hct : pktCipher P k o flag data padLen
      = xorAt P k o (hdrPlain flag data.length padLen)
        ++ xorAt P k (o + pktHdrLength) (data ++ Bytes.zeros padLen) := by
    rw [pktCipher, pktPlain_eq, hx.split, hhl]
  have hbl : (data ++ Bytes.zeros padLen).length = data.length + padLen := by simp [Bytes.zeros]
  have htag : (mac128 P k.macKey (pktCipher P k o flag data padLen)).length = macLength := hm _ _
  -- phase 1: the MAC
  have s1 : rxStep P k (idleAt o mb) (pktWire P k o flag data padLen ++ rest)
      = some (⟨some (mac128 P k.macKey (pktCipher P k o flag data padLen)), none, 0, 0, o, mb, false⟩, [], macLength) := by
    have hlen : ¬ (pktWire P k o flag data padLen ++ rest).length < macLength := by
      simp only [pktWire, List.length_append, htag]; omega
    simp only [rxStep, idleAt, Bool.false_eq_true, ↓reduceIte, hlen]
    simp only [pktWire, List.append_assoc, List.take_left' htag]
  have d1 : (pktWire P k o flag data padLen ++ rest).drop macLength
      = xorAt P k o (hdrPlain flag data.length padLen)
        ++ (xorAt P k (o + pktHdrLength) (data ++ Bytes.zeros padLen) ++ rest) := by
    rw [pktWire, List.append_assoc, List.drop_left' htag, hct, List.append_assoc]
  -- phase 2: the header
  have hhc : (xorAt P k o (hdrPlain flag data.length padLen)).length = pktHdrLength := by rw [hx.len, hhl]
  have s2 : rxStep P k ⟨some (mac128 P k.macKey (pktCipher P k o flag data padLen)), none, 0, 0, o, mb, false⟩
      (xorAt P k o (hdrPlain flag data.length padLen)
        ++ (xorAt P k (o + pktHdrLength) (data ++ Bytes.zeros padLen) ++ rest))
      = some (⟨some (mac128 P k.macKey (pktCipher P k o flag data padLen)),
                some (hdrPlain flag data.length padLen), data.length + padLen,
                data.length, o + pktHdrLength,
                xorAt P k o (hdrPlain flag data.length padLen), false⟩, [], pktHdrLength) := by
    have hlen : ¬ (xorAt P k o (hdrPlain flag data.length padLen)
        ++ (xorAt P k (o + pktHdrLength) (data ++ Bytes.zeros padLen) ++ rest)).length < pktHdrLength := by
      simp only [List.length_append, hhc]; omega
    simp only [rxStep, idleAt, Bool.false_eq_true, ↓reduceIte, hlen, List.take_left' hhc, hx.invol, hf0, hf2]
    rw [if_neg (by omega)]
  have d2 : (xorAt P k o (hdrPlain flag data.length padLen)
        ++ (xorAt P k (o + pktHdrLength) (data ++ Bytes.zeros padLen) ++ rest)).drop pktHdrLength
      = xorAt P k (o + pktHdrLength) (data ++ Bytes.zeros padLen) ++ rest := List.drop_left' hhc
  -- phase 3: the body
  have hbc : (xorAt P k (o + pktHdrLength) (data ++ Bytes.zeros padLen)).length = data.length + padLen := by
    rw [hx.len, hbl]
  have s3 : rxStep P k ⟨some (mac128 P k.macKey (pktCipher P k o flag data padLen)),
                some (hdrPlain flag data.length padLen), data.length + padLen,
                data.length, o + pktHdrLength,
                xorAt P k o (hdrPlain flag data.length padLen), false⟩
      (xorAt P k (o + pktHdrLength) (data ++ Bytes.zeros padLen) ++ rest)
      = some (idleAt (o + (pktHdrLength + data.length + padLen)) (pktCipher P k o flag data padLen),
              [dispatch flag data], data.length + padLen) := by
    have hlen : ¬ (xorAt P k (o + pktHdrLength) (data ++ Bytes.zeros padLen) ++ rest).length < data.length + padLen := by
      simp only [List.length_append, hbc]; omega
    have hgood := ok.good
    simp only [rxStep, Bool.false_eq_true, ↓reduceIte, hlen, List.take_left' hbc, hx.invol, ← hct,
      ne_eq, not_true_eq_false, hf4, List.take_left' (rfl : data.length = data.length)]
    cases hd : dispatch flag data with
    | err => exact absurd hd hgood
    | payload d => simp [idleAt, Nat.add_assoc]
    | ticket d => simp [idleAt, Nat.add_assoc]
    | seed d => simp [idleAt, Nat.add_assoc]
  have d3 : (xorAt P k (o + pktHdrLength) (data ++ Bytes.zeros padLen) ++ rest).drop (data.length + padLen) = rest :=
    List.drop_left' hbc
  have r3 := runs_step P k (os := []) s3 (by rw [d3]; exact Machine.Runs.refl _ _)
  have r2 := runs_step P k s2 (by rw [d2]; exact r3)
  have r1 := runs_step P k s1 (by rw [d1]; exact r2)
  simpa using r1

/-- an honest ciphertext (ANY legal shape, header-only packets included: the MAC is checked
    whether or not a body follows) under ANOTHER tag is reported: `ErrInvalidPacket`, nothing delivered -/
theorem bad_tag_rejected (P : Prims) (k : DirKeys) (hx : StreamOK P k) {o flag padLen : Nat} {data : Bytes} (tag : Bytes)
    (htag : tag.length = macLength) (hbad : tag ≠ mac128 P k.macKey (pktCipher P k o flag data padLen))
    (mb : Bytes) (hsz : data.length + padLen ≤ maxPayloadLength) (hfl : flag < 256) (rest : Bytes) :
    ∃ s', s'.failed = true ∧
      (rxMachine P k).Runs (idleAt o mb) (tag ++ pktCipher P k o flag data padLen ++ rest) [.err] s' rest := by
  have hpl := c_pay_lt
  obtain ⟨hf0, hf2, hf4⟩ := hdrPlain_fields flag data.length padLen (by omega) hfl
  have hhl := hdrPlain_length flag data.length padLen
  -- the ciphertext in two pieces
  have hct : pktCipher P k o flag data padLen
      = xorAt P k o (hdrPlain flag data.length padLen)
        ++ xorAt P k (o + pktHdrLength) (data ++ Bytes.zeros padLen) := by
    rw [pktCipher, pktPlain_eq, hx.split, hhl]
  have hbl : (data ++ Bytes.zeros padLen).length = data.length + padLen := by simp [Bytes.zeros]
  -- phase 1: the MAC
  have s1 : rxStep P k (idleAt o mb) (tag ++ pktCipher P k o flag data padLen ++ rest)
      = some (⟨some tag, none, 0, 0, o, mb, false⟩, [], macLength) := by
    have hlen : ¬ (tag ++ pktCipher P k o flag data padLen ++ rest).length < macLength := by
      simp only [List.length_append, htag]; omega
    simp only [rxStep, idleAt, Bool.false_eq_true, ↓reduceIte, hlen]
    simp only [List.append_assoc, List.take_left' htag]
  have d1 : (tag ++ pktCipher P k o flag data padLen ++ rest).drop macLength
      = xorAt P k o (hdrPlain flag data.length padLen)
        ++ (xorAt P k (o + pktHdrLength) (data ++ Bytes.zeros padLen) ++ rest) := by
    rw [List.append_assoc, List.drop_left' htag, hct, List.append_assoc]
  -- phase 2: the header
  have hhc : (xorAt P k o (hdrPlain flag data.length padLen)).length = pktHdrLength := by rw [hx.len, hhl]
  have s2 : rxStep P k ⟨some tag, none, 0, 0, o, mb, false⟩
      (xorAt P k o (hdrPlain flag data.length padLen)
        ++ (xorAt P k (o + pktHdrLength) (data ++ Bytes.zeros padLen) ++ rest))
      = some (⟨some tag,
                some (hdrPlain flag data.length padLen), data.length + padLen,
                data.length, o + pktHdrLength,
                xorAt P k o (hdrPlain flag data.length padLen), false⟩, [], pktHdrLength) := by
    have hlen : ¬ (xorAt P k o (hdrPlain flag data.length padLen)
        ++ (xorAt P k (o + pktHdrLength) (data ++ Bytes.zeros padLen) ++ rest)).length < pktHdrLength := by
      simp only [List.length_append, hhc]; omega
    simp only [rxStep, Bool.false_eq_true, ↓reduceIte, hlen, List.take_left' hhc, hx.invol, hf0, hf2]
    rw [if_neg (by omega)]
  have d2 : (xorAt P k o (hdrPlain flag data.length padLen)
        ++ (xorAt P k (o + pktHdrLength) (data ++ Bytes.zeros padLen) ++ rest)).drop pktHdrLength
      = xorAt P k (o + pktHdrLength) (data ++ Bytes.zeros padLen) ++ rest := List.drop_left' hhc
  -- phase 3: the body
  have hbc : (xorAt P k (o + pktHdrLength) (data ++ Bytes.zeros padLen)).length = data.length + padLen := by
    rw [hx.len, hbl]
  have s3 : rxStep P k ⟨some tag,
                some (hdrPlain flag data.length padLen), data.length + padLen,
                data.length, o + pktHdrLength,
                xorAt P k o (hdrPlain flag data.length padLen), false⟩
      (xorAt P k (o + pktHdrLength) (data ++ Bytes.zeros padLen) ++ rest)
      = some (⟨some tag, some (hdrPlain flag data.length padLen), data.length + padLen, data.length,
                o + pktHdrLength + (data.length + padLen), pktCipher P k o flag data padLen, true⟩,
              [.err], data.length + padLen) := by
    have hlen : ¬ (xorAt P k (o + pktHdrLength) (data ++ Bytes.zeros padLen) ++ rest).length < data.length + padLen := by
      simp only [List.length_append, hbc]; omega
    simp only [rxStep, Bool.false_eq_true, ↓reduceIte, hlen, List.take_left' hbc, ← hct]
    rw [if_pos (fun e => hbad e.symm)]
  have d3 : (xorAt P k (o + pktHdrLength) (data ++ Bytes.zeros padLen) ++ rest).drop (data.length + padLen) = rest :=
    List.drop_left' hbc
  have r3 := runs_step P k (os := []) s3 (by rw [d3]; exact Machine.Runs.refl _ _)
  have r2 := runs_step P k s2 (by rw [d2]; exact r3)
  have r1 := runs_step P k s1 (by rw [d1]; exact r2)
  exact ⟨_, rfl, by simpa using r1⟩

/-- honest sender: the wire bytes of a list of packets from keystream offset `o` on -/
def encodeAll (P : Prims) (k : DirKeys) : Nat → List (Nat × Bytes × Nat) → Bytes
  | _, [] => []
  | o, (f, d, p) :: r => pktWire P k o f d p ++ encodeAll P k (o + (pktHdrLength + d.length + p)) r

/-- `sendAll` (the model of the sender) produces exactly `encodeAll` when every packet fits -/
theorem sendAll_eq (P : Prims) (k : DirKeys) : ∀ (pkts : List (Nat × Bytes × Nat)) (o : Nat),
    (∀ x ∈ pkts, x.2.1.length + x.2.2 ≤ maxPayloadLength) →
    ∃ o', sendAll P ⟨k, o⟩ pkts = some (⟨k, o'⟩, encodeAll P k o pkts) := by
  intro pkts
  induction pkts with
  | nil => intro o _; exact ⟨o, rfl⟩
  | cons x r ih =>
    intro o h
    obtain ⟨f, d, p⟩ := x
    have hx : d.length + p ≤ maxPayloadLength := h (f, d, p) List.mem_cons_self
    obtain ⟨o', ho'⟩ := ih (o + (pktHdrLength + d.length + p)) (fun y hy => h y (List.mem_cons_of_mem _ hy))
    refine ⟨o', ?_⟩
    simp only [sendAll, makePacket, if_neg (Nat.not_lt.mpr hx), ho', encodeAll]

/-- keystream offset after a list of packets -/
def offAfter : Nat → List (Nat × Bytes × Nat) → Nat
  | o, [] => o
  | o, (_, d, p) :: r => offAfter (o + (pktHdrLength + d.length + p)) r

/-- ROUND TRIP: an honest packet list, followed by anything, is decoded packet by packet -/
theorem roundtrip (P : Prims) (k : DirKeys) (hm : MacLen P) (hx : StreamOK P k) :
    ∀ (pkts : List (Nat × Bytes × Nat)) (o : Nat) (mb rest : Bytes),
    (∀ x ∈ pkts, PktOK x.1 x.2.1 x.2.2) →
    ∃ mb', (rxMachine P k).Runs (idleAt o mb) (encodeAll P k o pkts ++ rest)
      (pkts.map (fun x => dispatch x.1 x.2.1)) (idleAt (offAfter o pkts) mb') rest := by
  intro pkts
  induction pkts with
  | nil => intro o mb rest _; exact ⟨mb, by simpa [encodeAll, offAfter] using Machine.Runs.refl _ _⟩
  | cons x r ih =>
    intro o mb rest h
    obtain ⟨f, d, p⟩ := x
    have h1 := decode_one P k hm hx o mb f d p (h (f, d, p) List.mem_cons_self)
      (encodeAll P k (o + (pktHdrLength + d.length + p)) r ++ rest)
    obtain ⟨mb', h2⟩ := ih (o + (pktHdrLength + d.length + p)) (pktCipher P k o f d p) rest
      (fun y hy => h y (List.mem_cons_of_mem _ hy))
    refine ⟨mb', ?_⟩
    have := Machine.Runs.trans (rxMachine P k) h1 h2
    simpa [encodeAll, offAfter, List.append_assoc] using this

theorem idle_quiescent (P : Prims) (k : DirKeys) (o : Nat) (mb : Bytes) :
    (rxMachine P k).Quiescent (idleAt o mb) [] := by
  have := c_mac_pos
  simp [Machine.Quiescent, rxMachine, rxStep, idleAt]
  omega

/-! ## the first packet read from an arbitrary buffer -/

theorem failed_quiescent (P : Prims) (k : DirKeys) {s : Rx} (hf : s.failed = true) (b : Bytes) :
    (rxMachine P k).Quiescent s b := by
  simp [Machine.Quiescent, rxMachine, rxStep, hf]

theorem failed_runs (P : Prims) (k : DirKeys) {s : Rx} {b : Bytes} {os : List Out} {s' : Rx} {r : Bytes}
    (hf : s.failed = true) (h : (rxMachine P k).Runs s b os s' r) : os = [] := by
  cases h with
  | refl => rfl
  | step hs _ => simp [rxMachine, rxStep, hf] at hs

/-- the tag the reader takes for the first packet of buffer `w` -/
def firstTag (w : Bytes) : Bytes := w.take macLength
/-- the bytes the reader MACs for the first packet of `w` read at keystream offset `o`:
    encrypted header and as many bytes as the decrypted header announces -/
def firstMsg (P : Prims) (k : DirKeys) (o : Nat) (w : Bytes) : Bytes :=
  (w.drop macLength).take (pktHdrLength + be16At (xorAt P k o ((w.drop macLength).take pktHdrLength)) 0)

/-- a run from between-packets on ANY buffer: nothing yet, an error, or a first packet whose tag
    verifies over exactly the bytes `firstMsg` -/
theorem first_packet (P : Prims) (k : DirKeys) (o : Nat) (mb w : Bytes) {os : List Out} {s' : Rx} {r : Bytes}
    (h : (rxMachine P k).Runs (idleAt o mb) w os s' r) :
    os = [] ∨ os = [.err] ∨
    ((firstTag w ++ firstMsg P k o w) <+: w ∧ (firstTag w).length = macLength ∧
      mac128 P k.macKey (firstMsg P k o w) = firstTag w ∧ ∃ out rest', os = out :: rest' ∧ out ≠ .err) := by
  cases h with
  | refl => exact Or.inl rfl
  | step hs h1 =>
    rename_i s1 o1 n1 os1
    simp only [rxMachine, rxStep, idleAt, Bool.false_eq_true, ↓reduceIte] at hs
    by_cases hl : w.length < macLength
    · rw [if_pos hl] at hs; exact absurd hs (by simp)
    · simp only [hl, ↓reduceIte, Option.some.injEq, Prod.mk.injEq] at hs
      obtain ⟨rfl, rfl, rfl⟩ := hs
      cases h1 with
      | refl => exact Or.inl rfl
      | step hs2 h2 =>
        rename_i s2 o2 n2 os2
        simp only [rxMachine, rxStep, Bool.false_eq_true, ↓reduceIte] at hs2
        by_cases hl2 : (w.drop macLength).length < pktHdrLength
        · rw [if_pos hl2] at hs2; exact absurd hs2 (by simp)
        · simp only [hl2, ↓reduceIte] at hs2
          split at hs2
          · -- bad lengths
            simp only [Option.some.injEq, Prod.mk.injEq] at hs2
            obtain ⟨rfl, rfl, rfl⟩ := hs2
            have := failed_runs P k rfl h2
            subst this
            exact Or.inr (Or.inl rfl)
          · simp only [Option.some.injEq, Prod.mk.injEq] at hs2
            obtain ⟨rfl, rfl, rfl⟩ := hs2
            cases h2 with
            | refl => exact Or.inl rfl
            | step hs3 h3 =>
              rename_i s3 o3 n3 os3
              simp only [rxMachine, rxStep, Bool.false_eq_true, ↓reduceIte] at hs3
              generalize htot : be16At (xorAt P k o ((w.drop macLength).take pktHdrLength)) 0 = tot at hs3
              by_cases hl3 : ((w.drop macLength).drop pktHdrLength).length < tot
              · rw [if_pos hl3] at hs3; exact absurd hs3 (by simp)
              · simp only [hl3, ↓reduceIte] at hs3
                split at hs3
                · simp only [Option.some.injEq, Prod.mk.injEq] at hs3
                  obtain ⟨rfl, rfl, rfl⟩ := hs3
                  have := failed_runs P k rfl h3
                  subst this
                  exact Or.inr (Or.inl rfl)
                · rename_i hmacok
                  have hmsg : firstMsg P k o w = (w.drop macLength).take pktHdrLength
                      ++ ((w.drop macLength).drop pktHdrLength).take tot := by
                    rw [firstMsg, htot, List.take_add]
                  have hwit : (firstTag w ++ firstMsg P k o w) <+: w ∧ (firstTag w).length = macLength ∧
                      mac128 P k.macKey (firstMsg P k o w) = firstTag w := by
                    refine ⟨?_, ?_, ?_⟩
                    · have : w = w.take macLength ++ w.drop macLength := (List.take_append_drop _ _).symm
                      conv => rhs; rw [this]
                      exact List.prefix_append_right_inj _ |>.mpr (List.take_prefix _ _)
                    · rw [firstTag, List.length_take]; omega
                    · rw [hmsg, firstTag]; exact Decidable.of_not_not hmacok
                  split at hs3
                  · simp only [Option.some.injEq, Prod.mk.injEq] at hs3
                    obtain ⟨rfl, rfl, rfl⟩ := hs3
                    have := failed_runs P k rfl h3
                    subst this
                    exact Or.inr (Or.inl rfl)
                  · rename_i out hne
                    simp only [Option.some.injEq, Prod.mk.injEq] at hs3
                    obtain ⟨rfl, rfl, rfl⟩ := hs3
                    exact Or.inr (Or.inr ⟨hwit.1, hwit.2.1, hwit.2.2, _, os3, rfl, fun he => hne he⟩)

/-- the user bytes of a packet list: payload packets only -/
def payloadBytes : List (Nat × Bytes × Nat) → Bytes
  | [] => []
  | (f, d, _) :: r => if f = pktPayload then d ++ payloadBytes r else payloadBytes r

theorem delivered_append (a b : List Out) : delivered (a ++ b) = delivered a ++ delivered b := by
  induction a with
  | nil => rfl
  | cons x r ih => cases x <;> simp [delivered, ih]

/-- ticket and seed packets never surface: what `Read` hands out is the payload packets' data -/
theorem delivered_honest : ∀ (pkts : List (Nat × Bytes × Nat)), (∀ x ∈ pkts, PktOK x.1 x.2.1 x.2.2) →
    delivered (pkts.map (fun x => dispatch x.1 x.2.1)) = payloadBytes pkts := by
  intro pkts
  induction pkts with
  | nil => intro _; rfl
  | cons x r ih =>
    intro h
    obtain ⟨f, d, p⟩ := x
    have ih' := ih (fun y hy => h y (List.mem_cons_of_mem _ hy))
    have hg := (h (f, d, p) List.mem_cons_self).good
    simp only [List.map_cons, payloadBytes]
    dsimp only at hg ⊢
    by_cases hf : f = pktPayload
    · have hd : dispatch f d = .payload d := by simp [dispatch, hf]
      rw [hd, if_pos hf, delivered, ih']
    · rw [if_neg hf]
      cases hd : dispatch f d with
      | err => exact absurd hd hg
      | payload x =>
        exfalso
        simp only [dispatch, hf, ↓reduceIte] at hd
        split at hd
        · split at hd <;> cases hd
        · split at hd
          · split at hd
            · cases hd
            · split at hd <;> cases hd
          · cases hd
      | ticket x => rw [delivered, ih']; intro _ hc; cases hc
      | seed x => rw [delivered, ih']; intro _ hc; cases hc

/-! ## the slice guards hold in every reachable state; the residue is bounded -/

/-- while a packet body is awaited its announced lengths are within the limits that make
    `make([]byte, totalLen)` and `data[:payloadLen]` safe -/
def RxOk (s : Rx) : Prop := s.hdr.isSome → s.payloadLen ≤ s.totalLen ∧ s.totalLen ≤ maxPayloadLength

theorem rxStep_ok (P : Prims) (k : DirKeys) {s : Rx} {b : Bytes} {s' : Rx} {o : List Out} {n : Nat}
    (hok : RxOk s) (h : rxStep P k s b = some (s', o, n)) : RxOk s' := by
  unfold rxStep at h
  by_cases hf : s.failed = true
  · simp [hf] at h
  · simp only [hf, Bool.false_eq_true, ↓reduceIte] at h
    cases hm : s.mac with
    | none =>
      simp only [hm] at h
      by_cases hl : b.length < macLength
      · simp [hl] at h
      · simp only [hl, ↓reduceIte, Option.some.injEq, Prod.mk.injEq] at h
        obtain ⟨rfl, _, _⟩ := h
        exact hok
    | some mac =>
      simp only [hm] at h
      cases hh : s.hdr with
      | none =>
        simp only [hh] at h
        by_cases hl : b.length < pktHdrLength
        · simp [hl] at h
        · simp only [hl, ↓reduceIte] at h
          split at h
          · simp only [Option.some.injEq, Prod.mk.injEq] at h
            obtain ⟨rfl, _, _⟩ := h
            intro hc; simp [hh] at hc
          · rename_i hlen
            simp only [Option.some.injEq, Prod.mk.injEq] at h
            obtain ⟨rfl, _, _⟩ := h
            intro _
            simp only [gt_iff_lt, not_or, Nat.not_lt] at hlen
            exact hlen
      | some hdr =>
        simp only [hh] at h
        by_cases hl : b.length < s.totalLen
        · simp [hl] at h
        · simp only [hl, ↓reduceIte] at h
          split at h
          · simp only [Option.some.injEq, Prod.mk.injEq] at h
            obtain ⟨rfl, _, _⟩ := h
            exact fun _ => hok (by simp [hh])
          · split at h <;> simp only [Option.some.injEq, Prod.mk.injEq] at h <;> obtain ⟨rfl, _, _⟩ := h
            · exact fun _ => hok (by simp [hh])
            · intro hc; simp at hc

theorem runs_ok (P : Prims) (k : DirKeys) {s : Rx} {b : Bytes} {os : List Out} {s' : Rx} {r : Bytes}
    (h : (rxMachine P k).Runs s b os s' r) (hok : RxOk s) : RxOk s' := by
  induction h with
  | refl => exact hok
  | step hs _ ih => exact ih (rxStep_ok P k hok hs)

/-- a reader that waits for input (and has not failed) holds less than one maximal packet body -/
theorem quiescent_residue (P : Prims) (k : DirKeys) {s : Rx} {r : Bytes}
    (hq : (rxMachine P k).Quiescent s r) (hok : RxOk s) (hf : s.failed = false) :
    r.length < maxPayloadLength := by
  have hc := c_mac_pay
  simp only [Machine.Quiescent, rxMachine] at hq
  unfold rxStep at hq
  simp only [hf, Bool.false_eq_true, ↓reduceIte] at hq
  cases hm : s.mac with
  | none =>
    simp only [hm] at hq
    by_cases hl : r.length < macLength
    · omega
    · simp [hl] at hq
  | some mac =>
    simp only [hm] at hq
    cases hh : s.hdr with
    | none =>
      simp only [hh] at hq
      by_cases hl : r.length < pktHdrLength
      · omega
      · simp only [hl, ↓reduceIte] at hq
        split at hq <;> cases hq
    | some hdr =>
      simp only [hh] at hq
      have := hok (by simp [hh])
      by_cases hl : r.length < s.totalLen
      · omega
      · simp only [hl, ↓reduceIte] at hq
        split at hq
        · cases hq
        · split at hq <;> cases hq

/-! ## the sender: `Write` produces an honest packet list -/


theorem c_pay_pos : 0 < maxPayloadLength := by decide

theorem splitPayload_spec : ∀ (fuel : Nat) (b : Bytes), b.length < fuel →
    (splitPayload fuel b).flatten = b ∧ ∀ d ∈ splitPayload fuel b, d.length ≤ maxPayloadLength := by
  intro fuel
  induction fuel with
  | zero => intro b h; omega
  | succ f ih =>
    intro b h
    cases b with
    | nil => simp [splitPayload]
    | cons x r =>
      have hp := c_pay_pos
      have hlen : ((x :: r).drop maxPayloadLength).length < f := by
        simp only [List.length_drop, List.length_cons] at h ⊢; omega
      obtain ⟨h1, h2⟩ := ih _ hlen
      simp only [splitPayload, List.flatten_cons, h1, List.take_append_drop, true_and]
      intro d hd
      rcases List.mem_cons.mp hd with rfl | hd
      · rw [List.length_take]; omega
      · exact h2 d hd

theorem payloadBytes_append (a b : List (Nat × Bytes × Nat)) : payloadBytes (a ++ b) = payloadBytes a ++ payloadBytes b := by
  induction a with
  | nil => rfl
  | cons x r ih =>
    obtain ⟨f, d, p⟩ := x
    simp only [List.cons_append, payloadBytes, ih]
    split <;> simp

theorem payloadBytes_data (ds : List Bytes) :
    payloadBytes (ds.map (fun d => (pktPayload, d, 0))) = ds.flatten := by
  induction ds with
  | nil => rfl
  | cons d r ih => simp [payloadBytes, ih]

theorem payloadBytes_pad (ps : List Int) :
    payloadBytes (ps.map (fun p => (pktPayload, ([] : Bytes), p.toNat))) = [] := by
  induction ps with
  | nil => rfl
  | cons d r ih => simp [payloadBytes, ih]

theorem sendAll_append (P : Prims) : ∀ (a b : List (Nat × Bytes × Nat)) (cs : CState),
    sendAll P cs (a ++ b) = match sendAll P cs a with
      | none => none
      | some (cs1, w1) => match sendAll P cs1 b with
        | none => none
        | some (cs2, w2) => some (cs2, w1 ++ w2) := by
  intro a
  induction a with
  | nil => intro b cs; simp only [List.nil_append, sendAll]; cases sendAll P cs b <;> simp
  | cons x r ih =>
    intro b cs
    obtain ⟨f, d, p⟩ := x
    simp only [List.cons_append, sendAll]
    cases makePacket P cs f d p with
    | none => rfl
    | some r1 =>
      obtain ⟨cs1, w⟩ := r1
      simp only [ih]
      cases sendAll P cs1 r with
      | none => rfl
      | some r2 =>
        obtain ⟨cs2, w2⟩ := r2
        simp only
        cases sendAll P cs2 b with
        | none => rfl
        | some r3 => simp [List.append_assoc]




theorem sendAll_eq' (P : Prims) (k : DirKeys) : ∀ (pkts : List (Nat × Bytes × Nat)) (o : Nat),
    (∀ x ∈ pkts, x.2.1.length + x.2.2 ≤ maxPayloadLength) →
    sendAll P ⟨k, o⟩ pkts = some (⟨k, offAfter o pkts⟩, encodeAll P k o pkts) := by
  intro pkts
  induction pkts with
  | nil => intro o _; rfl
  | cons x r ih =>
    intro o h
    obtain ⟨f, d, p⟩ := x
    have hx : d.length + p ≤ maxPayloadLength := h (f, d, p) List.mem_cons_self
    have ho' := ih (o + (pktHdrLength + d.length + p)) (fun y hy => h y (List.mem_cons_of_mem _ hy))
    simp only [sendAll, makePacket, if_neg (Nat.not_lt.mpr hx), ho', encodeAll, offAfter]

theorem encodeAll_append (P : Prims) (k : DirKeys) : ∀ (a b : List (Nat × Bytes × Nat)) (o : Nat),
    encodeAll P k o (a ++ b) = encodeAll P k o a ++ encodeAll P k (offAfter o a) b := by
  intro a
  induction a with
  | nil => intro b o; rfl
  | cons x r ih =>
    intro b o
    obtain ⟨f, d, p⟩ := x
    simp only [List.cons_append, encodeAll, offAfter, ih, List.append_assoc]

/-- payload packets of `Write(b)` -/
def payloadPkts (b : Bytes) : List (Nat × Bytes × Nat) :=
  (splitPayload (b.length + 1) b).map (fun d => (pktPayload, d, 0))
/-- padding packets for the padding lengths `pads` -/
def padPkts (pads : List Int) : List (Nat × Bytes × Nat) := pads.map (fun p => (pktPayload, ([] : Bytes), p.toNat))
/-- the padding lengths `padBurst` chooses in `Write(b)` at keystream offset `o` -/
def writePads (P : Prims) (k : DirKeys) (o : Nat) (b : Bytes) (sample : Nat) : List Int :=
  padBurstLens (encodeAll P k o (payloadPkts b)).length sample
/-- all packets of `Write(b)` -/
def writePkts (P : Prims) (k : DirKeys) (o : Nat) (b : Bytes) (sample : Nat) : List (Nat × Bytes × Nat) :=
  payloadPkts b ++ padPkts (writePads P k o b sample)

/-- `Write(b)` writes the honest encoding of its payload packets followed by its padding packets,
    whenever the padding lengths are within `[0, maxPayloadLength]` -/
theorem connWrite_eq (P : Prims) (k : DirKeys) (o : Nat) (b : Bytes) (sample : Nat)
    (hp : ∀ burstLen, ∀ p ∈ padBurstLens burstLen sample, 0 ≤ p ∧ p ≤ (maxPayloadLength : Int)) :
    connWrite P ⟨k, o⟩ b sample
      = some (⟨k, offAfter o (writePkts P k o b sample)⟩, encodeAll P k o (writePkts P k o b sample)) ∧
    (∀ x ∈ writePkts P k o b sample, PktOK x.1 x.2.1 x.2.2) ∧ payloadBytes (writePkts P k o b sample) = b := by
  obtain ⟨hflat, hfit⟩ := splitPayload_spec (b.length + 1) b (Nat.lt_succ_self _)
  have hpads := hp (encodeAll P k o (payloadPkts b)).length
  have h1 := sendAll_eq' P k (payloadPkts b) o (by
    intro x hx
    obtain ⟨d, hd, rfl⟩ := List.mem_map.mp hx
    simpa using hfit d hd)
  have h2 := sendAll_eq' P k (padPkts (writePads P k o b sample)) (offAfter o (payloadPkts b)) (by
    intro x hx
    obtain ⟨p, hpm, rfl⟩ := List.mem_map.mp hx
    have := hpads p hpm
    simp only [List.length_nil, Nat.zero_add]
    omega)
  have hany : (writePads P k o b sample).any (· < 0) = false := by
    rw [List.any_eq_false]
    intro p hpm
    have := (hpads p hpm).1
    simp only [decide_eq_true_eq]; omega
  have hoff : ∀ (a c : List (Nat × Bytes × Nat)) (o : Nat), offAfter o (a ++ c) = offAfter (offAfter o a) c := by
    intro a
    induction a with
    | nil => intro c o; rfl
    | cons x r ih => intro c o; obtain ⟨f, d, p⟩ := x; simp only [List.cons_append, offAfter, ih]
  refine ⟨?_, ?_, ?_⟩
  · have e1 : (splitPayload (b.length + 1) b).map (fun d => (pktPayload, d, 0)) = payloadPkts b := rfl
    have e2 : padBurstLens (encodeAll P k o (payloadPkts b)).length sample = writePads P k o b sample := rfl
    have e3 : (writePads P k o b sample).map (fun p => (pktPayload, ([] : Bytes), p.toNat))
        = padPkts (writePads P k o b sample) := rfl
    simp only [connWrite, e1, h1, e2, hany, Bool.false_eq_true, ↓reduceIte, e3, h2, writePkts, encodeAll_append, hoff]
  · intro x hx
    rcases List.mem_append.mp hx with hx | hx
    · obtain ⟨d, hd, rfl⟩ := List.mem_map.mp hx
      exact ⟨by simpa using hfit d hd, (by show pktPayload < 256; decide), by simp [dispatch]⟩
    · obtain ⟨p, hpm, rfl⟩ := List.mem_map.mp hx
      have := hpads p hpm
      exact ⟨by simp only [List.length_nil, Nat.zero_add]; omega, (by show pktPayload < 256; decide), by simp [dispatch]⟩
  · rw [writePkts, payloadBytes_append, payloadPkts, padPkts, payloadBytes_data, payloadBytes_pad, hflat, List.append_nil]


end SS
end O4
