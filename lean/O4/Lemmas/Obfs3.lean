import O4.Model.Obfs3
import O4.Lemmas.StreamConn
/-!
# obfs3 helper lemmas (core only)

* `Net.read` on queues of non-empty chunks;
* `scan_genuine`: `findPeerMagic` on a stream `pad ‖ magic ‖ data` whose first occurrence of the
  magic is the genuine one — never fails, finds the magic exactly when the buffer covers it;
* `scan_reject` / `scan_buf_bound`: without a magic inside the window the scan fails as soon as the
  window is full; the buffer never exceeds `2·window − 1` bytes, whatever arrives;
* `readData_spec`: what one `Read` delivers after the scan.
-/

namespace O4.Obfs3
open O4.SC O4.Idx O4.Consts.Obfs3

theorem window_pos : 0 < window := by decide

/-! ## the scan on a genuine stream -/

/-- On `pad ‖ magic ‖ data` (first occurrence of the magic = the genuine one, `|pad| ≤ maxPadding`,
`|magic| ≤ sha256Size`), from a buffer that does not yet cover the magic, whatever the queue and
whatever follows later (`F`): the scan never fails; it blocks exactly when the queued bytes do not
yet cover the magic (having moved all of them into the buffer) and otherwise finds the magic at
offset `|pad|`, with buffer ‖ queue unchanged as a byte string. -/
theorem scan_genuine (m pad data : Bytes) (hne : m ≠ []) (hml : m.length ≤ sha256Size)
    (hpad : pad.length ≤ maxPadding)
    (hfirst : indexOf m (pad ++ m ++ data) = some pad.length) :
    ∀ (fuel : Nat) (buf : Bytes) (q : Net) (F : Bytes), (∀ ch ∈ q, ch ≠ []) → q.size < fuel →
      buf ++ q.flatten ++ F = pad ++ m ++ data → buf.length < pad.length + m.length →
      (∃ buf', findPeerMagic m fuel buf q = .block buf' [] ∧ buf' = buf ++ q.flatten ∧
          buf'.length < pad.length + m.length) ∨
      (∃ buf' q', findPeerMagic m fuel buf q = .found buf' pad.length q' ∧
          buf' ++ q'.flatten = buf ++ q.flatten ∧ pad.length + m.length ≤ buf'.length ∧
          (∀ ch ∈ q', ch ≠ [])) := by
  intro fuel
  induction fuel with
  | zero => intro buf q F _ hsz; omega
  | succ fuel ih =>
    intro buf q F hq hsz hW hshort
    unfold findPeerMagic
    cases hr : Net.read window q with
    | none =>
      have : q = [] := Net.read_eq_none.mp hr
      subst this
      left; exact ⟨buf, rfl, by simp, hshort⟩
    | some r =>
      obtain ⟨chunk, q'⟩ := r
      obtain ⟨_, hsz', hq'⟩ := Net.read_props window_pos hq hr
      have hfl := Net.read_flatten hr
      have hW' : (buf ++ chunk) ++ (q'.flatten ++ F) = pad ++ m ++ data := by
        rw [← hW, ← hfl]; simp [List.append_assoc]
      have hmin := ((indexOf_eq_some m hne _ _).mp hfirst).2
      simp only
      by_cases hcov : pad.length + m.length ≤ (buf ++ chunk).length
      · -- the buffer covers the magic: found at |pad|
        have hidx : indexOf m (buf ++ chunk) = some pad.length :=
          indexOf_stable m (buf ++ chunk) (q'.flatten ++ F) hne pad.length (by rw [hW']; exact hfirst) hcov
        rw [hidx]
        simp only [Nat.not_lt.mpr hpad, ↓reduceIte]
        right
        exact ⟨buf ++ chunk, q', rfl, by rw [← hfl]; simp [List.append_assoc], hcov, hq'⟩
      · -- not yet: nothing is found, and the window is not full
        have hnone : indexOf m (buf ++ chunk) = none := by
          cases hi : indexOf m (buf ++ chunk) with
          | none => rfl
          | some pos =>
            exfalso
            have hp := ((indexOf_eq_some m hne _ _).mp hi).1
            have hlen : m.length ≤ ((buf ++ chunk).drop pos).length := hp.length_le
            rw [List.length_drop] at hlen
            have hml0 : 0 < m.length := List.length_pos_iff.mpr hne
            have hfit : pos + m.length ≤ (buf ++ chunk).length := by omega
            have hocc := prefix_drop_mono m (buf ++ chunk) (q'.flatten ++ F) pos hp hfit
            rw [hW'] at hocc
            exact hmin pos (by omega) hocc
        rw [hnone]
        have hwin : ¬ (buf ++ chunk).length ≥ window := by
          unfold window; omega
        simp only [hwin, ↓reduceIte]
        have hsz'' : q'.size < fuel := by omega
        rcases ih (buf ++ chunk) q' F hq' hsz'' (by rw [← hW']; simp [List.append_assoc]) (by omega)
          with ⟨b', h1, h2, h3⟩ | ⟨b', q'', h1, h2, h3, h4⟩
        · left; exact ⟨b', h1, by rw [h2, ← hfl]; simp [List.append_assoc], h3⟩
        · right; exact ⟨b', q'', h1, by rw [h2, ← hfl]; simp [List.append_assoc], h3, h4⟩

/-! ## the scan on arbitrary input: bounded buffer, rejection -/

/-- the buffer a scan result carries -/
def ScanRes.buf : ScanRes → Bytes
  | .block b _ => b
  | .found b _ _ => b
  | .fail _ b _ => b

/-- Whatever arrives: a scan started with less than a window in the buffer ends with less than two
windows in it; if it blocks, with less than one. -/
theorem scan_buf_bound (m : Bytes) : ∀ (fuel : Nat) (buf : Bytes) (q : Net), buf.length < window →
    (findPeerMagic m fuel buf q).buf.length < 2 * window ∧
    (∀ b q', findPeerMagic m fuel buf q = .block b q' → b.length < window) := by
  intro fuel
  induction fuel with
  | zero => intro buf q hb; simp [findPeerMagic, ScanRes.buf]; omega
  | succ fuel ih =>
    intro buf q hb
    unfold findPeerMagic
    cases hr : Net.read window q with
    | none =>
      simp only [ScanRes.buf]
      exact ⟨by omega, fun b q' h => by cases h; exact hb⟩
    | some r =>
      obtain ⟨chunk, q'⟩ := r
      have hcl := Net.read_length_le hr
      have hlen : (buf ++ chunk).length < 2 * window := by simp; omega
      simp only
      cases hi : indexOf m (buf ++ chunk) with
      | none =>
        simp only
        by_cases hw : (buf ++ chunk).length ≥ window
        · simp only [hw, ↓reduceIte, ScanRes.buf]
          exact ⟨hlen, fun b q'' h => by cases h⟩
        · simp only [hw, ↓reduceIte]
          exact ih (buf ++ chunk) q' (by omega)
      | some pos =>
        simp only
        by_cases hp : pos > maxPadding
        · simp only [hp, ↓reduceIte, ScanRes.buf]
          exact ⟨hlen, fun b q'' h => by cases h⟩
        · simp only [hp, ↓reduceIte, ScanRes.buf]
          exact ⟨hlen, fun b q'' h => by cases h⟩

/-- No magic at an offset `≤ maxPadding` anywhere in buffer ‖ queue, and at least a window of
bytes available: the scan fails (never blocks, never finds), for every segmentation. -/
theorem scan_reject (m : Bytes) (hne : m ≠ []) : ∀ (fuel : Nat) (buf : Bytes) (q : Net),
    (∀ ch ∈ q, ch ≠ []) → q.size < fuel → buf.length < window →
    (∀ p ≤ maxPadding, ¬ m <+: (buf ++ q.flatten).drop p) →
    window ≤ (buf ++ q.flatten).length →
    ∃ e b q', findPeerMagic m fuel buf q = .fail e b q' ∧ (e = .noMagic ∨ e = .tooMuchPadding) := by
  intro fuel
  induction fuel with
  | zero => intro buf q _ hsz; omega
  | succ fuel ih =>
    intro buf q hq hsz hb hno hlen
    unfold findPeerMagic
    cases hr : Net.read window q with
    | none =>
      have : q = [] := Net.read_eq_none.mp hr
      subst this
      simp at hlen; omega
    | some r =>
      obtain ⟨chunk, q'⟩ := r
      obtain ⟨_, hsz', hq'⟩ := Net.read_props window_pos hq hr
      have hfl := Net.read_flatten hr
      have hcat : buf ++ q.flatten = (buf ++ chunk) ++ q'.flatten := by rw [← hfl]; simp [List.append_assoc]
      simp only
      cases hi : indexOf m (buf ++ chunk) with
      | none =>
        simp only
        by_cases hw : (buf ++ chunk).length ≥ window
        · simp only [hw, ↓reduceIte]; exact ⟨_, _, _, rfl, Or.inl rfl⟩
        · simp only [hw, ↓reduceIte]
          exact ih (buf ++ chunk) q' hq' (by omega) (by omega) (by rw [← hcat]; exact hno) (by rw [← hcat]; exact hlen)
      | some pos =>
        simp only
        by_cases hp : pos > maxPadding
        · simp only [hp, ↓reduceIte]; exact ⟨_, _, _, rfl, Or.inr rfl⟩
        · exfalso
          have hocc := ((indexOf_eq_some m hne _ _).mp hi).1
          have hl : m.length ≤ ((buf ++ chunk).drop pos).length := hocc.length_le
          rw [List.length_drop] at hl
          have hml0 : 0 < m.length := List.length_pos_iff.mpr hne
          have := prefix_drop_mono m (buf ++ chunk) q'.flatten pos hocc (by omega)
          rw [← hcat] at this
          exact hno pos (by omega) this

/-! ## `Read` after the scan -/

/-- ciphertext received and not yet delivered (meaningful once the magic was found) -/
def pending (c : Conn) (q : Net) : Bytes := c.rxBuf.getD [] ++ q.flatten

variable (P : Prims)

theorem readNet_data {ks} (hL : P.sxor.Law ks) {c c' : Conn} {max : Nat} {q q' : Net} {o : Bytes}
    (hb : c.rxBuf.getD [] = []) (h : readNet P c max q = .data c' o q') :
    ∃ taken, pending c q = taken ++ pending c' q' ∧
      o = xorAt (ks c.rx.key c.rx.iv) c.rx.off taken ∧
      c'.rx = { c.rx with off := c.rx.off + taken.length } ∧
      c'.rxMagic = c.rxMagic ∧ c'.closed = c.closed ∧ c'.peak = c.peak ∧
      ((∀ ch ∈ q, ch ≠ []) → ∀ ch ∈ q', ch ≠ []) ∧
      (c'.rxBuf.getD []).length ≤ (c.rxBuf.getD []).length := by
  unfold readNet at h
  cases hr : Net.read max q with
  | none => simp [hr] at h
  | some r =>
    obtain ⟨chunk, q1⟩ := r
    simp only [hr, ReadRes.data.injEq] at h
    obtain ⟨rfl, rfl, rfl⟩ := h
    refine ⟨chunk, ?_, ?_, ?_, rfl, rfl, rfl, ?_, ?_⟩
    · simp only [pending, hb, Option.getD_none, List.nil_append]
      exact (Net.read_flatten hr).symm
    · simp only [Stream.xor]; exact hL _ _ _ _
    · simp only [Stream.xor]
    · intro hq ch hch
      cases q with
      | nil => simp [Net.read] at hr
      | cons c00 q00 =>
        simp only [Net.read] at hr
        by_cases hc : c00.length ≤ max
        · simp only [hc, ↓reduceIte, Option.some.injEq, Prod.mk.injEq] at hr
          obtain ⟨_, rfl⟩ := hr
          exact hq ch (by simp [hch])
        · simp only [hc, ↓reduceIte, Option.some.injEq, Prod.mk.injEq] at hr
          obtain ⟨_, rfl⟩ := hr
          simp only [List.mem_cons] at hch
          rcases hch with rfl | hch
          · intro he
            have : (c00.drop max).length = 0 := by rw [he]; rfl
            rw [List.length_drop] at this; omega
          · exact hq ch (by simp [hch])
    · simp

theorem readBuf_data {ks} (hL : P.sxor.Law ks) {c c' : Conn} {max : Nat} {buf : Bytes} {q q' : Net}
    {o : Bytes} (hb : c.rxBuf = some buf) (h : readBuf P c max buf q = .data c' o q') :
    ∃ taken, pending c q = taken ++ pending c' q' ∧
      o = xorAt (ks c.rx.key c.rx.iv) c.rx.off taken ∧
      c'.rx = { c.rx with off := c.rx.off + taken.length } ∧
      c'.rxMagic = c.rxMagic ∧ c'.closed = c.closed ∧ c'.peak = c.peak ∧
      ((∀ ch ∈ q, ch ≠ []) → ∀ ch ∈ q', ch ≠ []) ∧
      (c'.rxBuf.getD []).length ≤ (c.rxBuf.getD []).length := by
  simp only [readBuf, ReadRes.data.injEq] at h
  obtain ⟨rfl, rfl, rfl⟩ := h
  refine ⟨buf.take max, ?_, ?_, ?_, rfl, rfl, rfl, fun hq => hq, ?_⟩
  · simp only [pending, hb, Option.getD_some, ← List.append_assoc, List.take_append_drop]
  · simp only [Stream.xor]; exact hL _ _ _ _
  · simp only [Stream.xor]
  · simp only [hb, Option.getD_some, List.length_drop]; omega

/-- one `Read` after the scan that returns data: it returns the decryption of a prefix `taken` of
the pending ciphertext and advances the stream by as much -/
theorem readData_data {ks} (hL : P.sxor.Law ks) {c c' : Conn} {max : Nat} {q q' : Net} {o : Bytes}
    (h : readData P c max q = .data c' o q') :
    ∃ taken, pending c q = taken ++ pending c' q' ∧
      o = xorAt (ks c.rx.key c.rx.iv) c.rx.off taken ∧
      c'.rx = { c.rx with off := c.rx.off + taken.length } ∧
      c'.rxMagic = c.rxMagic ∧ c'.closed = c.closed ∧ c'.peak = c.peak ∧
      ((∀ ch ∈ q, ch ≠ []) → ∀ ch ∈ q', ch ≠ []) ∧
      (c'.rxBuf.getD []).length ≤ (c.rxBuf.getD []).length := by
  unfold readData at h
  cases hb : c.rxBuf with
  | none =>
    simp only [hb] at h
    have key := readNet_data P hL (by simp [hb]) h
    rw [hb] at key; exact key
  | some buf =>
    cases buf with
    | nil =>
      simp only [hb] at h
      have key := readNet_data P hL (by simp [hb]) h
      rw [hb] at key; exact key
    | cons b bs =>
      simp only [hb] at h
      have key := readBuf_data P hL hb h
      rw [hb] at key; exact key

theorem readData_block {c c' : Conn} {max : Nat} {q q' : Net}
    (h : readData P c max q = .block c' q') :
    q = [] ∧ q' = [] ∧ c.rxBuf.getD [] = [] ∧ c' = { c with rxBuf := none } := by
  unfold readData at h
  have net : c.rxBuf.getD [] = [] → readNet P c max q = .block c' q' →
      q = [] ∧ q' = [] ∧ c.rxBuf.getD [] = [] ∧ c' = { c with rxBuf := none } := by
    intro hb h
    unfold readNet at h
    cases hr : Net.read max q with
    | none =>
      simp only [hr, ReadRes.block.injEq] at h
      obtain ⟨rfl, rfl⟩ := h
      have : q = [] := Net.read_eq_none.mp hr
      exact ⟨this, this, hb, rfl⟩
    | some r => obtain ⟨chunk, q1⟩ := r; simp [hr] at h
  cases hb : c.rxBuf with
  | none =>
    simp only [hb] at h
    have key := net (by simp [hb]) h
    rw [hb] at key; exact key
  | some buf =>
    cases buf with
    | nil =>
      simp only [hb] at h
      have key := net (by simp [hb]) h
      rw [hb] at key; exact key
    | cons b bs => simp [hb, readBuf] at h

theorem readData_not_fail {c c' : Conn} {max : Nat} {q q' : Net} {e : Err} :
    readData P c max q ≠ .fail c' e q' := by
  have net : readNet P c max q ≠ .fail c' e q' := by
    unfold readNet; split <;> simp
  unfold readData
  cases c.rxBuf with
  | none => exact net
  | some buf =>
    cases buf with
    | nil => exact net
    | cons b bs => simp [readBuf]

/-! ## the invariant of a receiving side on a genuine stream -/

/-- `pad ‖ m ‖ data` is a stream the scan must accept -/
structure Genuine (m pad data : Bytes) : Prop where
  ne : m ≠ []
  mlen : m.length ≤ sha256Size
  padlen : pad.length ≤ maxPadding
  /-- the first occurrence of the magic is the genuine one (fails with probability < 2^-240) -/
  first : indexOf m (pad ++ m ++ data) = some pad.length

/-- `F` = bytes that have not arrived yet. Either the magic is still being looked for (nothing was
delivered, buffer ‖ queue ‖ future is the whole stream and the buffer does not cover the magic),
or it was found and delivered ‖ decrypt(pending ‖ future) = decrypt(data). -/
def Inv (ks : Bytes → Bytes → Nat → UInt8) (m pad data : Bytes) (rx0 : Stream) (s : Run) (F : Bytes) : Prop :=
  s.failed = none ∧ s.c.closed = false ∧ (∀ ch ∈ s.q, ch ≠ []) ∧
  s.c.rx.key = rx0.key ∧ s.c.rx.iv = rx0.iv ∧
  ((s.c.rxMagic = some m ∧ s.outs = [] ∧ s.c.rx.off = rx0.off ∧
      ∃ buf, s.c.rxBuf = some buf ∧ buf ++ s.q.flatten ++ F = pad ++ m ++ data ∧
        buf.length < pad.length + m.length) ∨
   (s.c.rxMagic = none ∧
      s.outs.flatten ++ xorAt (ks rx0.key rx0.iv) s.c.rx.off (pending s.c s.q ++ F)
        = xorAt (ks rx0.key rx0.iv) rx0.off data))

theorem inv_arrive {ks m pad data rx0} {s : Run} {F ch : Bytes}
    (h : Inv ks m pad data rx0 s (ch ++ F)) : Inv ks m pad data rx0 (stepEv P s (.arrive ch)) F := by
  obtain ⟨h1, h2, h3, h4, h5, h6⟩ := h
  refine ⟨h1, h2, Net.push_nonempty h3 ch, h4, h5, ?_⟩
  rcases h6 with ⟨a1, a2, a3, buf, a4, a5, a6⟩ | ⟨b1, b2⟩
  · left
    refine ⟨a1, a2, a3, buf, a4, ?_, a6⟩
    simp only [stepEv, Net.push_flatten]
    rw [← a5]; simp [List.append_assoc]
  · right
    refine ⟨b1, ?_⟩
    simp only [stepEv, pending, Net.push_flatten]
    rw [← b2]; simp [pending, List.append_assoc]

/-- after the magic: one more `Read` keeps "delivered ‖ decrypt(pending ‖ future) = decrypt(data)" -/
theorem inv_readData {ks} (hL : P.sxor.Law ks) {m pad data : Bytes} {rx0 : Stream} {c : Conn} {q : Net}
    {outs : List Bytes} {F : Bytes} (max : Nat)
    (hcl : c.closed = false) (hq : ∀ ch ∈ q, ch ≠ []) (hk : c.rx.key = rx0.key) (hi : c.rx.iv = rx0.iv)
    (hm : c.rxMagic = none)
    (hB : outs.flatten ++ xorAt (ks rx0.key rx0.iv) c.rx.off (pending c q ++ F)
        = xorAt (ks rx0.key rx0.iv) rx0.off data) :
    Inv ks m pad data rx0
      (Run.afterRead { c := c, q := q, outs := outs, failed := none } (readData P c max q)) F := by
  cases hr : readData P c max q with
  | data c' o q' =>
    obtain ⟨taken, t1, t2, t3, t4, t5, _, t7, _⟩ := readData_data P hL hr
    simp only [Run.afterRead]
    refine ⟨rfl, by rw [t5, hcl], t7 hq, by rw [t3]; exact hk, by rw [t3]; exact hi,
      Or.inr ⟨by rw [t4, hm], ?_⟩⟩
    simp only [List.flatten_append, List.flatten_cons, List.flatten_nil, List.append_nil]
    rw [← hB, t1, t2, t3, hk, hi]
    simp [xorAt_append, List.append_assoc, Nat.add_assoc]
  | block c' q' =>
    obtain ⟨rfl, rfl, hb, rfl⟩ := readData_block P hr
    simp only [Run.afterRead]
    refine ⟨rfl, hcl, by simp, hk, hi, Or.inr ⟨hm, ?_⟩⟩
    rw [← hB]
    simp [pending, hb]
  | fail c' e q' => exact absurd hr (readData_not_fail P)

theorem afterRead_congr {s t : Run} (ho : s.outs = t.outs) (hf : s.failed = t.failed) (r : ReadRes) :
    s.afterRead r = t.afterRead r := by
  cases r <;> simp [Run.afterRead, ho, hf]

theorem inv_read {ks} (hL : P.sxor.Law ks) {m pad data : Bytes} (hG : Genuine m pad data) {rx0 : Stream}
    {s : Run} {F : Bytes} (max : Nat)
    (h : Inv ks m pad data rx0 s F) : Inv ks m pad data rx0 (stepEv P s (.read max)) F := by
  obtain ⟨h1, h2, h3, h4, h5, h6⟩ := h
  simp only [stepEv, h1, read, h2, Bool.false_eq_true, ↓reduceIte]
  rcases h6 with ⟨a1, a2, a3, buf, a4, a5, a6⟩ | ⟨b1, b2⟩
  · -- still scanning
    simp only [a1, a4, Option.getD_some]
    rcases scan_genuine m pad data hG.ne hG.mlen hG.padlen hG.first (s.q.size + 1) buf s.q F h3
        (Nat.lt_succ_self _) a5 a6 with ⟨b', e1, e2, e3⟩ | ⟨b', q', e1, e2, e3, e4⟩
    · simp only [e1, Run.afterRead]
      refine ⟨h1, rfl, by simp, h4, h5, Or.inl ⟨rfl, a2, a3, b', rfl, ?_, e3⟩⟩
      simp only [List.flatten_nil, List.append_nil]
      rw [e2]; exact a5
    · simp only [e1]
      -- what is pending right after the magic is exactly `data` (minus the future)
      have hW : b' ++ q'.flatten ++ F = pad ++ m ++ data := by rw [e2]; exact a5
      have hn : (pad ++ m).length = pad.length + m.length := List.length_append
      have hdata : (b'.drop (pad.length + m.length)) ++ q'.flatten ++ F = data := by
        have := congrArg (List.drop (pad.length + m.length)) hW
        rw [List.append_assoc, List.drop_append_of_le_length e3, List.drop_left' hn] at this
        rw [List.append_assoc]; exact this
      have key := inv_readData P hL (m := m) (pad := pad) (data := data) (rx0 := rx0)
        (c := { s.c with rxMagic := none, rxBuf := some (b'.drop (pad.length + m.length)),
                         peak := Nat.max s.c.peak b'.length, closed := false })
        (q := q') (outs := []) (F := F) max rfl e4 h4 h5 rfl
        (by simp only [List.flatten_nil, List.nil_append, pending, Option.getD_some]
            rw [hdata, a3])
      rw [afterRead_congr (t := { c := { s.c with rxMagic := none, rxBuf := some (b'.drop (pad.length + m.length)), peak := Nat.max s.c.peak b'.length, closed := false }, q := q', outs := [], failed := none }) a2 h1]
      exact key
  · -- streaming
    simp only [b1]
    rw [afterRead_congr (s := s) (t := { c := s.c, q := s.q, outs := s.outs, failed := none }) rfl h1]
    exact inv_readData P hL max h2 h3 h4 h5 b1 b2

/-- MAIN: the invariant holds along every history whose arrivals (followed by `F`) are the stream -/
theorem inv_run {ks} (hL : P.sxor.Law ks) {m pad data : Bytes} (hG : Genuine m pad data) {rx0 : Stream}
    (evs : List Ev) : ∀ (s : Run) (F : Bytes),
      Inv ks m pad data rx0 s (arrivals evs ++ F) → Inv ks m pad data rx0 (runEvs P s evs) F := by
  induction evs with
  | nil => intro s F h; simpa [arrivals, runEvs] using h
  | cons ev evs ih =>
    intro s F h
    cases ev with
    | arrive ch =>
      simp only [arrivals, List.append_assoc] at h
      simp only [runEvs, List.foldl_cons]
      exact ih _ F (inv_arrive P h)
    | read max =>
      simp only [arrivals] at h
      simp only [runEvs, List.foldl_cons]
      exact ih _ F (inv_read P hL hG max h)

/-! ## bounded receive buffer along every history (C10) -/

def ReadRes.conn : ReadRes → Conn
  | .data c _ _ => c
  | .block c _ => c
  | .fail c _ _ => c

/-- the buffer invariant: below two windows always, below one while the scan is still running -/
def BufOk (c : Conn) : Prop :=
  (c.rxBuf.getD []).length < 2 * window ∧ c.peak < 2 * window ∧
  (c.rxMagic ≠ none → c.closed = false → (c.rxBuf.getD []).length < window)

theorem readData_conn (c : Conn) (max : Nat) (q : Net) :
    ((readData P c max q).conn.rxBuf.getD []).length ≤ (c.rxBuf.getD []).length ∧
    (readData P c max q).conn.peak = c.peak ∧ (readData P c max q).conn.rxMagic = c.rxMagic := by
  have net : ((readNet P c max q).conn.rxBuf.getD []).length ≤ (c.rxBuf.getD []).length ∧
      (readNet P c max q).conn.peak = c.peak ∧ (readNet P c max q).conn.rxMagic = c.rxMagic := by
    unfold readNet
    split <;> simp [ReadRes.conn]
  unfold readData
  cases hb : c.rxBuf with
  | none => simp only; rw [hb] at net; exact net
  | some buf =>
    cases buf with
    | nil => simp only; rw [hb] at net; exact net
    | cons b bs =>
      simp only [readBuf, ReadRes.conn, Option.getD_some, List.length_drop, and_self, and_true]
      omega

theorem bufOk_read {c : Conn} (h : BufOk c) (max : Nat) (q : Net) : BufOk (read P c max q).conn := by
  obtain ⟨h1, h2, h3⟩ := h
  unfold read
  by_cases hcl : c.closed = true
  · simp only [hcl, ↓reduceIte, ReadRes.conn]; exact ⟨h1, h2, h3⟩
  · have hcl' : c.closed = false := by simpa using hcl
    simp only [hcl', Bool.false_eq_true, ↓reduceIte]
    cases hm : c.rxMagic with
    | none =>
      simp only
      obtain ⟨r1, r2, r3⟩ := readData_conn P c max q
      refine ⟨by omega, by omega, fun hne => ?_⟩
      rw [r3, hm] at hne; exact absurd rfl hne
    | some m =>
      simp only
      have hb := h3 (by simp [hm]) hcl'
      obtain ⟨s1, s2⟩ := scan_buf_bound m (q.size + 1) (c.rxBuf.getD []) q hb
      cases hs : findPeerMagic m (q.size + 1) (c.rxBuf.getD []) q with
      | block b q' =>
        have := s2 b q' hs
        simp only [ReadRes.conn, BufOk, Option.getD_some]
        refine ⟨by omega, Nat.max_lt.mpr ⟨h2, by omega⟩, fun _ _ => this⟩
      | fail e b q' =>
        rw [hs] at s1
        simp only [ScanRes.buf] at s1
        simp only [ReadRes.conn, BufOk, Option.getD_some]
        refine ⟨s1, Nat.max_lt.mpr ⟨h2, s1⟩, fun _ hc => by simp at hc⟩
      | found b pos q' =>
        rw [hs] at s1
        simp only [ScanRes.buf] at s1
        simp only
        obtain ⟨r1, r2, r3⟩ := readData_conn P { c with rxMagic := none, rxBuf := some (b.drop (pos + m.length)), peak := Nat.max c.peak b.length, closed := false } max q'
        simp only [Option.getD_some, List.length_drop] at r1
        refine ⟨by omega, ?_, fun hne => ?_⟩
        · rw [r2]; exact Nat.max_lt.mpr ⟨h2, s1⟩
        · rw [r3] at hne; exact absurd rfl hne

theorem bufOk_run {s : Run} (h : BufOk s.c) (evs : List Ev) : BufOk (runEvs P s evs).c := by
  induction evs generalizing s with
  | nil => exact h
  | cons ev evs ih =>
    simp only [runEvs, List.foldl_cons]
    apply ih
    cases ev with
    | arrive ch => exact h
    | read max =>
      simp only [stepEv]
      cases hf : s.failed with
      | some e => exact h
      | none =>
        simp only
        have := bufOk_read P h max s.q
        cases hr : read P s.c max s.q <;> simpa [Run.afterRead, hr, ReadRes.conn] using this

/-! ## rejection along every history -/

/-- no magic at an offset `≤ maxPadding` in buffer ‖ queue ‖ future: the scan blocks (window not
full) or fails — it never finds anything -/
theorem scan_nomagic (m : Bytes) (hne : m ≠ []) : ∀ (fuel : Nat) (buf : Bytes) (q : Net) (F : Bytes),
    (∀ ch ∈ q, ch ≠ []) → q.size < fuel → buf.length < window →
    (∀ p ≤ maxPadding, ¬ m <+: (buf ++ q.flatten ++ F).drop p) →
    (∃ b, findPeerMagic m fuel buf q = .block b [] ∧ b = buf ++ q.flatten ∧ b.length < window) ∨
    (∃ e b q', findPeerMagic m fuel buf q = .fail e b q' ∧ (e = .noMagic ∨ e = .tooMuchPadding)) := by
  intro fuel
  induction fuel with
  | zero => intro buf q F _ hsz; omega
  | succ fuel ih =>
    intro buf q F hq hsz hb hno
    unfold findPeerMagic
    cases hr : Net.read window q with
    | none =>
      have : q = [] := Net.read_eq_none.mp hr
      subst this
      left; exact ⟨buf, rfl, by simp, hb⟩
    | some r =>
      obtain ⟨chunk, q'⟩ := r
      obtain ⟨_, hsz', hq'⟩ := Net.read_props window_pos hq hr
      have hfl := Net.read_flatten hr
      have hcat : buf ++ q.flatten ++ F = (buf ++ chunk) ++ (q'.flatten ++ F) := by
        rw [← hfl]; simp [List.append_assoc]
      simp only
      cases hi : indexOf m (buf ++ chunk) with
      | none =>
        simp only
        by_cases hw : (buf ++ chunk).length ≥ window
        · simp only [hw, ↓reduceIte]; right; exact ⟨_, _, _, rfl, Or.inl rfl⟩
        · simp only [hw, ↓reduceIte]
          rcases ih (buf ++ chunk) q' F hq' (by omega) (by omega)
              (by rw [List.append_assoc, ← hcat]; exact hno) with ⟨b, h1, h2, h3⟩ | h
          · left; exact ⟨b, h1, by rw [h2, ← hfl]; simp [List.append_assoc], h3⟩
          · right; exact h
      | some pos =>
        simp only
        by_cases hp : pos > maxPadding
        · simp only [hp, ↓reduceIte]; right; exact ⟨_, _, _, rfl, Or.inr rfl⟩
        · exfalso
          have hocc := ((indexOf_eq_some m hne _ _).mp hi).1
          have hl : m.length ≤ ((buf ++ chunk).drop pos).length := hocc.length_le
          rw [List.length_drop] at hl
          have hml0 : 0 < m.length := List.length_pos_iff.mpr hne
          have := prefix_drop_mono m (buf ++ chunk) (q'.flatten ++ F) pos hocc (by omega)
          rw [← hcat] at this
          exact hno pos (by omega) this

/-- invariant of a receiving side on a stream `W` without a magic inside the window -/
def RejInv (m W : Bytes) (s : Run) (F : Bytes) : Prop :=
  s.outs = [] ∧
  ((s.failed = none ∧ s.c.closed = false ∧ s.c.rxMagic = some m ∧ (∀ ch ∈ s.q, ch ≠ []) ∧
      ∃ buf, s.c.rxBuf = some buf ∧ buf ++ s.q.flatten ++ F = W ∧ buf.length < window) ∨
   (∃ e, s.failed = some e ∧ (e = .noMagic ∨ e = .tooMuchPadding) ∧ s.c.closed = true))

theorem rejInv_step {m W : Bytes} (hne : m ≠ [])
    (hno : ∀ p ≤ maxPadding, ¬ m <+: W.drop p) {s : Run} {F : Bytes} (ev : Ev)
    (h : RejInv m W s (arrivals [ev] ++ F)) : RejInv m W (stepEv P s ev) F := by
  obtain ⟨ho, h⟩ := h
  cases ev with
  | arrive ch =>
    simp only [arrivals, List.append_nil] at h
    refine ⟨ho, ?_⟩
    rcases h with ⟨h1, h2, h3, h4, buf, h5, h6, h7⟩ | h
    · left
      refine ⟨h1, h2, h3, Net.push_nonempty h4 ch, buf, h5, ?_, h7⟩
      simp only [stepEv, Net.push_flatten]
      rw [← h6]; simp [List.append_assoc]
    · right; exact h
  | read max =>
    simp only [arrivals, List.nil_append] at h
    rcases h with ⟨h1, h2, h3, h4, buf, h5, h6, h7⟩ | ⟨e, h1, h2, h3⟩
    · simp only [stepEv, h1, read, h2, Bool.false_eq_true, ↓reduceIte, h3, h5, Option.getD_some]
      rcases scan_nomagic m hne (s.q.size + 1) buf s.q F h4 (Nat.lt_succ_self _) h7
          (by rw [h6]; exact hno) with ⟨b, e1, e2, e3⟩ | ⟨e, b, q', e1, e2⟩
      · simp only [e1, Run.afterRead]
        refine ⟨ho, Or.inl ⟨h1, rfl, rfl, by simp, b, rfl, ?_, e3⟩⟩
        simp only [List.flatten_nil, List.append_nil]
        rw [e2]; exact h6
      · simp only [e1, Run.afterRead]
        exact ⟨ho, Or.inr ⟨e, rfl, e2, rfl⟩⟩
    · simp only [stepEv, h1]
      exact ⟨ho, Or.inr ⟨e, h1, h2, h3⟩⟩

theorem rejInv_run {m W : Bytes} (hne : m ≠ []) (hno : ∀ p ≤ maxPadding, ¬ m <+: W.drop p)
    (evs : List Ev) : ∀ (s : Run) (F : Bytes),
      RejInv m W s (arrivals evs ++ F) → RejInv m W (runEvs P s evs) F := by
  induction evs with
  | nil => intro s F h; simpa [arrivals, runEvs] using h
  | cons ev evs ih =>
    intro s F h
    simp only [runEvs, List.foldl_cons]
    apply ih
    apply rejInv_step P hne hno ev
    cases ev with
    | arrive ch => simpa [arrivals, List.append_assoc] using h
    | read max => simpa [arrivals] using h

/-- once everything has arrived (at least a window of bytes), the next `Read` fails -/
theorem rej_final {m W : Bytes} (hne : m ≠ []) (hno : ∀ p ≤ maxPadding, ¬ m <+: W.drop p)
    (hlen : window ≤ W.length) {s : Run} (h : RejInv m W s []) (max : Nat) :
    (stepEv P s (.read max)).outs = [] ∧ (stepEv P s (.read max)).c.closed = true ∧
    ((stepEv P s (.read max)).failed = some .noMagic ∨
     (stepEv P s (.read max)).failed = some .tooMuchPadding) := by
  obtain ⟨ho, h⟩ := h
  rcases h with ⟨h1, h2, h3, h4, buf, h5, h6, h7⟩ | ⟨e, h1, h2, h3⟩
  · simp only [List.append_nil] at h6
    simp only [stepEv, h1, read, h2, Bool.false_eq_true, ↓reduceIte, h3, h5, Option.getD_some]
    rcases scan_nomagic m hne (s.q.size + 1) buf s.q [] h4 (Nat.lt_succ_self _) h7
        (by rw [List.append_nil, h6]; exact hno) with ⟨b, e1, e2, e3⟩ | ⟨e, b, q', e1, e2⟩
    · exfalso
      rw [e2, h6] at e3; omega
    · simp only [e1, Run.afterRead]
      refine ⟨ho, ?_⟩
      rcases e2 with rfl | rfl <;> simp
  · simp only [stepEv, h1]
    refine ⟨ho, h3, ?_⟩
    rcases h2 with rfl | rfl
    · left; rfl
    · right; rfl

/-! ## the sending side -/

theorem writeAll_none {ks} (hL : P.sxor.Law ks) (pad : Bytes) (ws : List Bytes) :
    ∀ c : Conn, c.txMagic = none →
      (writeAll P c pad ws).2.flatten = xorAt (ks c.tx.key c.tx.iv) c.tx.off ws.flatten ∧
      (writeAll P c pad ws).1.tx = { c.tx with off := c.tx.off + ws.flatten.length } := by
  induction ws with
  | nil => intro c _; simp [writeAll, xorAt]
  | cons w ws ih =>
    intro c hc
    have hw : write P c w pad = ({ c with tx := { c.tx with off := c.tx.off + w.length } },
        [xorAt (ks c.tx.key c.tx.iv) c.tx.off w]) := by
      simp [write, hc, Stream.xor, hL c.tx.key c.tx.iv c.tx.off w]
    obtain ⟨i1, i2⟩ := ih { c with tx := { c.tx with off := c.tx.off + w.length } } hc
    simp only at i1 i2
    simp only [writeAll, hw, List.flatten_append, List.flatten_cons, List.flatten_nil,
      List.append_nil, xorAt_append, i1, i2, List.length_append]
    simp [Nat.add_assoc]

/-- the first `Write` puts `pad ‖ magic` in front; altogether the wire carries
`pad ‖ magic ‖ E(everything written)` -/
theorem writeAll_first {ks} (hL : P.sxor.Law ks) (c : Conn) (m pad w : Bytes) (ws : List Bytes)
    (hc : c.txMagic = some m) :
    (writeAll P c pad (w :: ws)).2.flatten
      = pad ++ m ++ xorAt (ks c.tx.key c.tx.iv) c.tx.off (w :: ws).flatten ∧
    (writeAll P c pad (w :: ws)).1.tx = { c.tx with off := c.tx.off + (w :: ws).flatten.length } := by
  have hw : write P c w pad
      = ({ c with tx := { c.tx with off := c.tx.off + w.length }, txMagic := none },
         [pad ++ m, xorAt (ks c.tx.key c.tx.iv) c.tx.off w]) := by
    simp [write, hc, Stream.xor, hL c.tx.key c.tx.iv c.tx.off w]
  obtain ⟨i1, i2⟩ := writeAll_none P hL pad ws
    { c with tx := { c.tx with off := c.tx.off + w.length }, txMagic := none } rfl
  simp only at i1 i2
  simp only [writeAll, hw, List.flatten_append, List.flatten_cons, List.flatten_nil,
    List.append_nil, xorAt_append, i1, i2, List.length_append]
  simp [Nat.add_assoc, List.append_assoc]

/-! ## the handshake under every segmentation -/

theorem kdf_phase (c : Conn) (secret : Bytes) : (kdf P c secret).phase ≠ .pubkey := by
  unfold kdf
  split
  · split <;> simp
  · simp
  · simp

/-- the state right after the 192 key bytes `key` were read -/
def afterKey (c : Conn) (key : Bytes) : Conn :=
  match P.dhShared c.priv key with
  | none => { c with phase := .failed .dhKey }
  | some secret => kdf P c secret

theorem afterKey_phase (c : Conn) (key : Bytes) : (afterKey P c key).phase ≠ .pubkey := by
  unfold afterKey
  split
  · simp
  · exact kdf_phase P c _

theorem progress_idle {c : Conn} (hc : c.phase ≠ .pubkey) (q : Net) : progress P c q = (c, q) := by
  unfold progress hsStep
  cases hp : c.phase <;> simp_all

theorem feedAll_idle {c : Conn} (hc : c.phase ≠ .pubkey) (cs : List Bytes) :
    ∀ q : Net, (feedAll P c q cs).1 = c ∧ (feedAll P c q cs).2.flatten = q.flatten ++ cs.flatten := by
  induction cs with
  | nil => intro q; simp [feedAll, progress_idle P hc]
  | cons ch cs ih =>
    intro q
    simp only [feedAll, progress_idle P hc]
    obtain ⟨h1, h2⟩ := ih (q.push ch)
    exact ⟨h1, by rw [h2, Net.push_flatten]; simp [List.append_assoc]⟩

theorem progress_pubkey {c : Conn} (hc : c.phase = .pubkey) (q : Net) :
    progress P c q =
      if q.flatten.length < uniformdhSize then (c, q)
      else (afterKey P c (q.flatten.take uniformdhSize), Net.dropBytes uniformdhSize q) := by
  unfold progress hsStep afterKey
  simp only [hc]
  by_cases h : q.flatten.length < uniformdhSize
  · rw [if_pos h, if_pos h]
  · rw [if_neg h, if_neg h]
    cases P.dhShared c.priv (q.flatten.take uniformdhSize) <;> rfl

/-- for every segmentation of `key ‖ rest` (and whatever was queued before): exactly the 192 key
bytes are consumed, the rest stays queued -/
theorem feedAll_key {c : Conn} (hc : c.phase = .pubkey) (key rest : Bytes)
    (hk : key.length = uniformdhSize) (cs : List Bytes) :
    ∀ q : Net, q.flatten ++ cs.flatten = key ++ rest →
      (feedAll P c q cs).1 = afterKey P c key ∧ (feedAll P c q cs).2.flatten = rest := by
  induction cs with
  | nil =>
    intro q hq
    simp only [List.flatten_nil, List.append_nil] at hq
    have hl : ¬ q.flatten.length < uniformdhSize := by rw [hq]; simp; omega
    rw [feedAll, progress_pubkey P hc, if_neg hl]
    simp only [Net.dropBytes_flatten, hq, List.take_left' hk, List.drop_left' hk, and_self]
  | cons ch cs ih =>
    intro q hq
    rw [feedAll, progress_pubkey P hc]
    by_cases hl : q.flatten.length < uniformdhSize
    · rw [if_pos hl]
      apply ih
      rw [Net.push_flatten, ← hq]; simp [List.append_assoc]
    · rw [if_neg hl]
      have hge : uniformdhSize ≤ q.flatten.length := by omega
      obtain ⟨h1, h2⟩ := feedAll_idle P (afterKey_phase P c (q.flatten.take uniformdhSize)) cs
        ((Net.dropBytes uniformdhSize q).push ch)
      have htake : q.flatten.take uniformdhSize = key := by
        have := congrArg (List.take uniformdhSize) hq
        rw [List.take_append_of_le_length hge, List.take_left' hk] at this
        exact this
      refine ⟨by rw [h1, htake], ?_⟩
      rw [h2, Net.push_flatten, Net.dropBytes_flatten]
      have := congrArg (List.drop uniformdhSize) hq
      rw [List.drop_append_of_le_length hge, List.drop_left' hk] at this
      rw [← this]; simp [List.append_assoc]

/-- the queue the handshake leaves behind consists of non-empty chunks -/
theorem progress_nonempty (c : Conn) {q : Net} (hq : ∀ ch ∈ q, ch ≠ []) :
    ∀ ch ∈ (progress P c q).2, ch ≠ [] := by
  unfold progress
  split
  · exact hq
  · exact Net.dropBytes_nonempty _ hq

theorem feedAll_nonempty (cs : List Bytes) : ∀ (c : Conn) (q : Net), (∀ ch ∈ q, ch ≠ []) →
    ∀ ch ∈ (feedAll P c q cs).2, ch ≠ [] := by
  induction cs with
  | nil => intro c q hq; exact progress_nonempty P c hq
  | cons x cs ih =>
    intro c q hq
    simp only [feedAll]
    exact ih _ _ (Net.push_nonempty (progress_nonempty P c hq) x)

end O4.Obfs3
