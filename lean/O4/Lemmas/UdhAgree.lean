import Mathlib.Data.ZMod.Basic
import Mathlib.Tactic.Ring
import O4.Model.UniformDH
import O4.Lemmas.BytesBE
/-!
# UniformDH: both parties derive the same secret (Mathlib: `ZMod`, `Nat.ModEq`)

* `udh_zmod`: in `ZMod n` for **any** modulus `n`, any base `g`, even exponents `x y` and any sign
  choices: `(±g^y)^x = (±g^x)^y` (`Even.neg_pow`).
* `modExp_eq`: the executable square-and-multiply `O4.Crypto.modExp b e m` is `b^e % m`.
* `modp_bounds`: the regenerated modulus is positive and below `256^Size` (kernel evaluation of
  the hex string constant).
* `udh_model_agree`: for the executable model `O4.UniformDH` and **all** private byte strings the
  two `handshake` results coincide, whichever of `X` / `p−X` each side sent.
-/
namespace O4.UniformDH
open O4.Crypto

theorem udh_zmod (n : ℕ) (g : ZMod n) (x y : ℕ) (hx : Even x) (hy : Even y) (sx sy : Bool) :
    (if sy then -(g ^ y) else g ^ y) ^ x = (if sx then -(g ^ x) else g ^ x) ^ y := by
  cases sx <;> cases sy <;> simp [Even.neg_pow hx, Even.neg_pow hy, ← pow_mul, mul_comm]

theorem modExpAux_lt (m : ℕ) (hm : 0 < m) : ∀ (fuel b e acc : ℕ), acc < m → modExpAux fuel b e m acc < m := by
  intro fuel
  induction fuel with
  | zero => intro b e acc h; simpa [modExpAux] using h
  | succ fuel ih =>
    intro b e acc h
    unfold modExpAux
    split
    · exact h
    · apply ih
      split
      · exact Nat.mod_lt _ hm
      · exact h

theorem modExpAux_modEq (m : ℕ) : ∀ (fuel b e acc : ℕ), e < 2 ^ fuel →
    modExpAux fuel b e m acc ≡ acc * b ^ e [MOD m] := by
  intro fuel
  induction fuel with
  | zero =>
    intro b e acc h
    have : e = 0 := by omega
    subst this
    simp [modExpAux, Nat.ModEq]
  | succ fuel ih =>
    intro b e acc h
    unfold modExpAux
    split
    · rename_i h0; subst h0; simp [Nat.ModEq]
    · have hlt : e / 2 < 2 ^ fuel := by
        rw [Nat.pow_succ] at h; omega
      have hsq : (b * b % m) ^ (e / 2) ≡ b ^ (2 * (e / 2)) [MOD m] := by
        have : b * b % m ≡ b ^ 2 [MOD m] := by rw [pow_two]; exact Nat.mod_modEq _ _
        simpa [← pow_mul] using this.pow (e / 2)
      refine (ih _ _ _ hlt).trans ?_
      split
      · rename_i hodd
        have he : e = 2 * (e / 2) + 1 := by omega
        have : acc * b % m * (b * b % m) ^ (e / 2) ≡ acc * b * b ^ (2 * (e / 2)) [MOD m] :=
          (Nat.mod_modEq _ _).mul hsq
        refine this.trans ?_
        rw [Nat.ModEq]
        congr 1
        conv_rhs => rw [he, pow_succ]
        ring
      · have he : e = 2 * (e / 2) := by omega
        have : acc * (b * b % m) ^ (e / 2) ≡ acc * b ^ (2 * (e / 2)) [MOD m] :=
          (Nat.ModEq.refl acc).mul hsq
        refine this.trans ?_
        rw [← he]

/-- the executable modular exponentiation computes `b^e mod m` -/
theorem modExp_eq (b e m : ℕ) (hm : 0 < m) : modExp b e m = b ^ e % m := by
  unfold modExp
  have hlt := modExpAux_lt m hm (e.log2 + 1) (b % m) e (1 % m) (Nat.mod_lt _ hm)
  have heq := modExpAux_modEq m (e.log2 + 1) (b % m) e (1 % m) Nat.lt_log2_self
  have h2 : 1 % m * (b % m) ^ e ≡ b ^ e [MOD m] := by
    have := (Nat.mod_modEq 1 m).mul ((Nat.mod_modEq b m).pow e)
    simpa using this
  have := heq.trans h2
  rw [Nat.ModEq, Nat.mod_eq_of_lt hlt] at this
  exact this

/-- the regenerated group modulus: positive, and it fits `Size` bytes -/
theorem modp_bounds : 0 < modpGroup ∧ modpGroup < 256 ^ size := by decide +kernel

attribute [local irreducible] modpGroup

theorem toNatBE_fillBytes {v : ℕ} (h : v < 256 ^ size) : Bytes.toNatBE (fillBytes v) = v :=
  Bytes.toNatBE_ofNatBE_of_lt _ _ h

theorem fillBytes_length (v : ℕ) : (fillBytes v).length = size := Bytes.ofNatBE_length _ _

attribute [local irreducible] fillBytes

/-- what `generateKey` returns: an even exponent `x`, `X = g^x mod p`, and the encoding of `X` or
of `p − X` (the coin is the low bit of the private bytes) -/
theorem generateKey_some {priv : Bytes} {k : PrivateKey} (h : generateKey priv = some k) :
    ∃ (coin : Bool) (x : ℕ), Even x ∧ k.privateKey = x ∧ k.publicKey = gen ^ x % modpGroup ∧
      k.pubBytes = fillBytes (if coin then modpGroup - gen ^ x % modpGroup else gen ^ x % modpGroup) := by
  unfold generateKey at h
  split at h
  · cases h
  · simp only [Option.some.injEq] at h
    subst h
    refine ⟨!(Bytes.toNatBE priv % 2 == 0), Bytes.toNatBE priv - Bytes.toNatBE priv % 2, ?_, rfl, ?_, ?_⟩
    · exact ⟨(Bytes.toNatBE priv) / 2, by omega⟩
    · exact modExp_eq _ _ _ modp_bounds.1
    · simp only [modExp_eq _ _ _ modp_bounds.1]
      cases hc : (Bytes.toNatBE priv % 2 == 0) <;> simp

/-- the number a peer decodes from the sent bytes is `±X` in `ZMod p` (any modulus that fits) -/
theorem sent_cast (p : ℕ) (hp0 : 0 < p) (hp : p < 256 ^ size) (g : ℕ) (coin : Bool) (x : ℕ) :
    ((Bytes.toNatBE (fillBytes (if coin then p - g ^ x % p else g ^ x % p)) : ℕ) : ZMod p)
      = if coin then -((g : ZMod p) ^ x) else (g : ZMod p) ^ x := by
  have hX : g ^ x % p < p := Nat.mod_lt _ hp0
  cases coin
  · simp only [Bool.false_eq_true, ↓reduceIte]
    rw [toNatBE_fillBytes (Nat.lt_trans hX hp)]
    simp [ZMod.natCast_mod]
  · simp only [↓reduceIte]
    rw [toNatBE_fillBytes (Nat.lt_of_le_of_lt (Nat.sub_le _ _) hp), Nat.cast_sub hX.le]
    simp [ZMod.natCast_mod]

/-- agreement of the residues over `Nat`, for any modulus that fits `Size` bytes -/
theorem agree_nat (p : ℕ) (hp0 : 0 < p) (hp : p < 256 ^ size) (g xa xb : ℕ) (ea : Even xa) (eb : Even xb)
    (ca cb : Bool) :
    Bytes.toNatBE (fillBytes (if cb then p - g ^ xb % p else g ^ xb % p)) ^ xa % p
      = Bytes.toNatBE (fillBytes (if ca then p - g ^ xa % p else g ^ xa % p)) ^ xb % p := by
  have key := udh_zmod p (g : ZMod p) xa xb ea eb ca cb
  rw [← sent_cast p hp0 hp g cb xb, ← sent_cast p hp0 hp g ca xa] at key
  have key' : ((Bytes.toNatBE (fillBytes (if cb then p - g ^ xb % p else g ^ xb % p)) ^ xa : ℕ) : ZMod p)
      = ((Bytes.toNatBE (fillBytes (if ca then p - g ^ xa % p else g ^ xa % p)) ^ xb : ℕ) : ZMod p) := by
    rw [Nat.cast_pow, Nat.cast_pow]; exact key
  exact (ZMod.natCast_eq_natCast_iff' _ _ _).mp key'

/-- **Agreement of the executable model**, for all private byte strings (any low bits, i.e. all
four `X` / `p−X` combinations, extreme values included) -/
theorem udh_model_agree (privA privB : Bytes) (ka kb : PrivateKey)
    (ha : generateKey privA = some ka) (hb : generateKey privB = some kb) :
    handshake ka (Bytes.toNatBE kb.pubBytes) = handshake kb (Bytes.toNatBE ka.pubBytes) := by
  obtain ⟨ca, xa, ea, pa, _, ba⟩ := generateKey_some ha
  obtain ⟨cb, xb, eb, pb, _, bb⟩ := generateKey_some hb
  have hp := modp_bounds
  unfold handshake
  rw [modExp_eq _ _ _ hp.1, modExp_eq _ _ _ hp.1, pa, pb, ba, bb]
  exact congrArg fillBytes (agree_nat modpGroup hp.1 hp.2 gen xa xb ea eb ca cb)

end O4.UniformDH
