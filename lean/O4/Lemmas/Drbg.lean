import O4.Model.Drbg
import O4.Model.GoRand
/-!
# Lemmas about the DRBG model (C12): output feedback over the accumulated input; `Int63` range.
Core only.
-/
namespace O4.Drbg
open O4.Crypto

/-- the running hash after `n` blocks, with the pending feedback written, has absorbed
    `IV ‖ out₁ ‖ … ‖ outₙ` -/
theorem after_sip (n : Nat) : ∀ d : HashDrbg,
    (HashDrbg.after n d).sip.write (HashDrbg.after n d).ofb
      = d.sip.write (d.ofb ++ (HashDrbg.blocks n d).flatten) := by
  induction n with
  | zero => intro d; simp [HashDrbg.after, HashDrbg.blocks]
  | succ n ih =>
    intro d
    simp only [HashDrbg.after, HashDrbg.blocks]
    rw [ih d.nextBlock.2]
    simp only [HashDrbg.nextBlock, List.flatten_cons]
    rw [SipHash.Digest.write_append]

theorem blocks_succ (n : Nat) : ∀ d : HashDrbg,
    HashDrbg.blocks (n + 1) d = HashDrbg.blocks n d ++ [(HashDrbg.after n d).nextBlock.1] := by
  induction n with
  | zero => intro d; simp [HashDrbg.blocks, HashDrbg.after]
  | succ n ih =>
    intro d
    have := ih d.nextBlock.2
    simp only [HashDrbg.blocks, HashDrbg.after] at this ⊢
    rw [this]
    simp

/-- block `n+1` is SipHash-2-4 (of the running digest's key) over everything fed so far -/
theorem nextBlock_after (n : Nat) (d : HashDrbg) :
    (HashDrbg.after n d).nextBlock.1
      = SipHash.leBytes (d.sip.write (d.ofb ++ (HashDrbg.blocks n d).flatten)).sum64 := by
  simp only [HashDrbg.nextBlock]
  rw [after_sip]

theorem int63_lt (d : HashDrbg) : d.int63.1 < 2 ^ 63 := by
  simp only [HashDrbg.int63, UInt64.toNat_and]
  have := @Nat.and_le_right (SipHash.beWord d.nextBlock.1).toNat (9223372036854775807 : UInt64).toNat
  have h2 : (9223372036854775807 : UInt64).toNat = 9223372036854775807 := by decide
  omega

end O4.Drbg

namespace O4.GoRand

theorem tapeSource_int63_lt (t : Tape) : (tapeSource.int63 t).1 < 2 ^ 63 := by
  simp only [tapeSource]
  exact Nat.mod_lt _ (by decide)

end O4.GoRand
