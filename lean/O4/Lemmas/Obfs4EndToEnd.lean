import O4.Lemmas.HandshakeGenuine
import O4.Lemmas.Obfs4Chunk
import O4.Lemmas.Obfs4Tx
import O4.Lemmas.ServerAccept
/-!
# Lemmas for the end-to-end theorems of C01 (handshake read loop ∘ key schedule ∘ data phase).
Core only.  Model: `O4/Model/Obfs4EndToEnd.lean`.
-/
namespace O4.E2E
open O4 O4.Handshake O4.HsClient O4.HsGenuine O4.Obfs4 O4.Framing O4.Consts.Obfs4 O4.Consts.Ntor

/-! ## the seed packet -/

theorem seedPkt_eq (seed : Bytes) : seedPkt seed = rawPacket packetTypePrngSeed seed 0 := by
  simp [seedPkt, rawPacket, Bytes.zeros]

theorem seedPkt_parse (seed : Bytes) (h : seed.length = seedPacketPayloadLength) :
    parsePacket false (seedPkt seed) = .seed seed ∧ parsePacket true (seedPkt seed) = .ignored ∧
    (seedPkt seed).length ≤ Consts.Framing.maximumFramePayloadLength ∧
    ∀ srv, payloadOf srv (seedPkt seed) = [] := by
  have hl : seed.length + 0 ≤ maxPacketPayloadLength := by rw [h]; decide
  have h1 : (UInt8.ofNat packetTypePrngSeed).toNat ≠ packetTypePayload := by decide
  have h2 : (UInt8.ofNat packetTypePrngSeed).toNat = packetTypePrngSeed := by decide
  have hp : ∀ srv, parsePacket srv (seedPkt seed) = if (!srv) = true then .seed seed else .ignored := by
    intro srv
    rw [seedPkt_eq, parsePacket_rawPacket srv _ seed 0 hl, if_neg h1, if_pos h2]
    cases srv <;> simp [h]
  refine ⟨by rw [hp]; rfl, by rw [hp]; rfl, ?_, ?_⟩
  · rw [seedPkt_eq, rawPacket_length, h]; decide
  · intro srv
    unfold payloadOf
    rw [hp]
    cases srv <;> rfl

theorem seedsOf_honest_cons (seed : Bytes) (h : seed.length = seedPacketPayloadLength) (pkts : List Bytes) :
    seedsOf (honestOuts false (seedPkt seed :: pkts)) = seed :: seedsOf (honestOuts false pkts) := by
  simp only [honestOuts, List.map_cons, (seedPkt_parse seed h).1, seedsOf]

/-! ## the client's data phase, seeds included -/

/-- `Obfs4.client_clean` with the adopted seeds: the honest stream split between the handshake
    read (`surplus`) and later network reads -/
theorem client_clean_seeds (c : Crypto) (hc : CryptoOK c) (pkts : List Bytes)
    (hp : ∀ p ∈ pkts, p.length ≤ Consts.Framing.maximumFramePayloadLength)
    (hwf : ∀ p ∈ pkts, ∀ e, parsePacket false p ≠ .bad e)
    (hn : pkts.length < ctrLimit - 1) (surplus : Bytes) (cs : List Bytes)
    (hcs : surplus ++ cs.flatten = wire c pkts) (ns : List Nat) :
    ∃ rx1 d rxf bl, clientStart c true surplus = (rx1, none) ∧ Settled c false rx1 ∧
      session c false ns rx1 (cs.map NetEv.data) = (d, [], rxf, bl) ∧
      (d ++ rxf.decoded) <+: pkts.flatMap (payloadOf false) ∧
      (bl = true → d = pkts.flatMap (payloadOf false) ∧ rxf.rxBuf = [] ∧
        rxf.dec = ⟨pkts.length, none⟩ ∧ rxf.decoded = [] ∧
        rxf.seeds = seedsOf (honestOuts false pkts)) := by
  have hH := honest_runs c hc false pkts 0 hp hwf (by simpa using hn)
  have hq := quiescent_empty c false (0 + pkts.length)
  cases hcl : clientStart c true surplus with
  | mk rx1 e1 =>
    have hrp := hcl
    rw [clientStart_eq_readPackets] at hrp
    obtain ⟨outs1, hr1, hq1, hd1, hsd1⟩ := readPackets_data_spec c false Rx.init surplus rx1 e1 hrp
    have hr1' := hr1.append _ (haltM_prefixStable c false) cs.flatten
    simp only [Rx.init, List.nil_append] at hr1' hd1 hsd1
    rw [hcs] at hr1'
    obtain ⟨o3, hr3, hH3⟩ := Machine.Runs.prefix_of_quiescent _ hr1' hH hq
    have he : e1 = none := by
      cases e1 with
      | none => rfl
      | some e => have := (halt_runs_err hr3).2.1; simp at this
    subst he
    have hs1 : Settled c false rx1 := (settled_iff c false rx1).2 hq1
    obtain ⟨d, rxf, bl, hse, hpre, hbl⟩ := session_clean c false ns rx1 cs o3 _ hs1 hr3 hq
    have hD : rx1.decoded ++ decodedOf o3 = pkts.flatMap (payloadOf false) := by
      rw [hd1, ← decodedOf_append, ← hH3, decodedOf_honestOuts]
    have hS : rx1.seeds ++ seedsOf o3 = seedsOf (honestOuts false pkts) := by
      rw [hsd1, ← seedsOf_append, ← hH3]
    rw [hD] at hpre hbl
    refine ⟨rx1, d, rxf, bl, rfl, hs1, hse, hpre, fun h => ?_⟩
    obtain ⟨h1, h2, h3, h4, h5⟩ := hbl h
    exact ⟨h1, h2, by simpa using h3, h4, by rw [h5, hS]⟩

/-! ## client: handshake loop, then the data phase -/

/-- the server's flight behind its handshake response: the inline seed frame (frame 0 of the
    server→client direction) and the frames of `pkts` (frames 1, 2, …) -/
def serverFlight (c : Crypto) (seed : Bytes) (pkts : List Bytes) : Bytes := wire c (seedPkt seed :: pkts)

theorem serverFlight_eq (c : Crypto) (seed : Bytes) (pkts : List Bytes) :
    serverFlight c seed pkts = frameOf c 0 (seedPkt seed) ++ encodeAll c 1 pkts := rfl

theorem client_e2e (P : Prims) (Pair : Bytes → Bytes → Prop) (link : Bytes → Crypto)
    (hlink : ∀ k, CryptoOK (link k)) (hP : HsLemmas.HmacLen P) (hD : DhComm P Pair)
    (c : Client) (G : Genuine P Pair c) (hno : G.NoEarlyMark)
    (hc : c.cache = none ∨ c.cache = some G.cache)
    (seed : Bytes) (hseed : seed.length = seedPacketPayloadLength) (pkts : List Bytes)
    (hp : ∀ p ∈ pkts, p.length ≤ Consts.Framing.maximumFramePayloadLength)
    (hwf : ∀ p ∈ pkts, ∀ e, parsePacket false p ≠ .bad e)
    (hn : pkts.length + 1 < ctrLimit - 1) (cs : List Bytes)
    (hcs : cs.flatten = G.response ++ serverFlight (link (serverEncKey (okm P G.keySeed))) seed pkts)
    (ns : List Nat) :
    ∃ j rx d rxf bl,
      clientConnect P link c cs = .established (clientEncKey (okm P G.keySeed))
        (clientDecKey (okm P G.keySeed)) rx (cs.drop (j + 1)) ∧
      j < cs.length ∧ (cs.take j).flatten.length < G.response.length ∧
      G.response.length ≤ (cs.take (j + 1)).flatten.length ∧
      Settled (link (clientDecKey (okm P G.keySeed))) false rx ∧
      session (link (clientDecKey (okm P G.keySeed))) false ns rx ((cs.drop (j + 1)).map NetEv.data)
        = (d, [], rxf, bl) ∧
      (d ++ rxf.decoded) <+: pkts.flatMap (payloadOf false) ∧
      (bl = true → d = pkts.flatMap (payloadOf false) ∧ rxf.rxBuf = [] ∧ rxf.decoded = [] ∧
        rxf.seeds = seed :: seedsOf (honestOuts false pkts)) := by
  have hRpos : ([] : Bytes).length < G.response.length := by
    rw [response_len hP G]; simp
  obtain ⟨c', j, h1, h2, h3, h4, h5⟩ := any_chunking P Pair hP hD c G hno _ cs [] hc hRpos
    (by rw [List.nil_append]; exact hcs)
  simp only [List.nil_append] at h1 h3 h4 h5
  have hsp := seedPkt_parse seed hseed
  have hp' : ∀ p ∈ seedPkt seed :: pkts, p.length ≤ Consts.Framing.maximumFramePayloadLength := by
    intro p hm
    rcases List.mem_cons.mp hm with rfl | hm
    · exact hsp.2.2.1
    · exact hp p hm
  have hwf' : ∀ p ∈ seedPkt seed :: pkts, ∀ e, parsePacket false p ≠ .bad e := by
    intro p hm e
    rcases List.mem_cons.mp hm with rfl | hm
    · rw [hsp.1]; intro hc'; cases hc'
    · exact hwf p hm e
  obtain ⟨rx1, d, rxf, bl, hcl, hset, hse, hpre, hbl⟩ :=
    client_clean_seeds (link (serverEncKey (okm P G.keySeed))) (hlink _) (seedPkt seed :: pkts) hp' hwf'
      (by simpa using hn) (((cs.take (j + 1)).flatten).drop G.response.length) (cs.drop (j + 1)) h5 ns
  have hpay : (seedPkt seed :: pkts).flatMap (payloadOf false) = pkts.flatMap (payloadOf false) := by
    rw [List.flatMap_cons, hsp.2.2.2 false, List.nil_append]
  rw [hpay] at hpre hbl
  refine ⟨j, rx1, d, rxf, bl, ?_, h2, h3, h4, hset, hse, hpre, fun h => ?_⟩
  · unfold clientConnect
    rw [h1]
    simp only
    have : clientDecKey (okm P G.keySeed) = serverEncKey (okm P G.keySeed) := rfl
    rw [this, hcl]
  · obtain ⟨g1, g2, _, g4, g5⟩ := hbl h
    exact ⟨g1, g2, g4, by rw [g5, seedsOf_honest_cons seed hseed]⟩

/-! ## server: the client's handshake in any chunking -/

/-- a genuine client handshake for the server state `s0` (fresh: `s0.cache = none`): a
    representative that decodes to the client's public key, an admissible padding, the hour the
    client used, and the server's ntor computation on that public key succeeds -/
structure GenuineC (P : Prims) (s0 : Server) where
  xRepr : Bytes
  xPub : Bytes
  pad : Bytes
  hour : Int
  repr_len : xRepr.length = representativeLength
  repr_x : P.reprToPublic xRepr = xPub
  pad_lo : clientMinPadLength ≤ pad.length
  pad_hi : pad.length ≤ clientMaxPadLength
  ntor_ok : (Ntor.serverHandshake P.toPrims xPub s0.yPriv s0.yPub s0.idPriv s0.idPub s0.nodeID).1 = true

namespace GenuineC
variable {P : Prims} {s0 : Server} (C : GenuineC P s0)
/-- `X' ‖ P_C ‖ M_C ‖ MAC_C` -/
def blob : Bytes := clientBlob P s0.idPub s0.nodeID C.xRepr C.pad C.hour
def mrk : Bytes := mark P s0.idPub s0.nodeID C.xRepr
/-- the server's KEY_SEED for this client -/
def keySeed : Bytes := (Ntor.serverHandshake P.toPrims C.xPub s0.yPriv s0.yPub s0.idPriv s0.idPub s0.nodeID).2.1
def cache : ServerCache := { repr := C.xRepr, mrk := C.mrk }
/-- where `M_C` starts -/
def pos : Nat := representativeLength + C.pad.length
/-- the explicit "no accidental mark" hypothesis of the server side: at no proper prefix length
    `L ≥ 141` of the client handshake (shorter buffers are not searched) do the 16 bytes in front of
    the last 16 equal `M_C` (the server only ever looks at the tail of what it has received) -/
def NoEarlyMark : Prop :=
  ∀ L, representativeLength + clientMinPadLength + (markLength + macLength) ≤ L → L < C.blob.length →
    ((C.blob.take L).drop (L - (markLength + macLength))).take markLength ≠ C.mrk
/-- the states of the handshake object while the blob arrives -/
def Inv (s : Server) : Prop := s = s0 ∨ s = { s0 with cache := some C.cache }
end GenuineC

theorem hmacLong_of_len (P : Prims) (hP : HsLemmas.HmacLen P) : HmacLong P := by
  intro k m
  rw [hP k m]
  decide

section
variable {P : Prims} {s0 : Server} (hP : HsLemmas.HmacLen P) (hs0 : s0.cache = none) (C : GenuineC P s0)
include hP hs0

theorem blobC_shape : C.blob = C.xRepr ++ C.pad ++ C.mrk ++
    mac P s0.idPub s0.nodeID (C.xRepr ++ C.pad ++ C.mrk) C.hour := rfl

theorem blobC_len : C.blob.length = C.pos + markLength + macLength := by
  rw [blobC_shape hP hs0, List.length_append, List.length_append, List.length_append, C.repr_len,
    GenuineC.mrk, HsLemmas.mark_length P hP, HsLemmas.mac_length P hP]
  rfl

theorem blobC_bounds : clientMinHandshakeLength + clientMinPadLength ≤ C.blob.length ∧
    C.blob.length ≤ maxHandshakeLength := by
  rw [blobC_len hP hs0]
  have h1 := C.pad_lo
  have h2 := C.pad_hi
  simp only [GenuineC.pos, representativeLength, markLength, macLength, clientMinHandshakeLength,
    clientMinPadLength, clientMaxPadLength, maxHandshakeLength] at *
  omega

/-- a buffer that already holds the representative makes the parser work with the genuine cache -/
theorem cacheOn_inv (s : Server) (hs : C.Inv s) (p e : Bytes) (hp : p = C.xRepr ++ e) :
    cacheOn P s p = C.cache ∧ withCache P s p = { s0 with cache := some C.cache } := by
  have ht : p.take representativeLength = C.xRepr := by rw [hp, List.take_left' C.repr_len]
  rcases hs with rfl | rfl
  · have h1 : cacheOn P s p = C.cache := by
      unfold cacheOn
      rw [hs0]
      simp only [ht]
      rfl
    exact ⟨h1, by unfold withCache; rw [h1]⟩
  · exact ⟨rfl, rfl⟩

theorem inv_fields (s : Server) (hs : C.Inv s) :
    s.idPub = s0.idPub ∧ s.nodeID = s0.nodeID ∧ s.yPriv = s0.yPriv ∧ s.yPub = s0.yPub ∧ s.idPriv = s0.idPriv := by
  rcases hs with rfl | rfl <;> exact ⟨rfl, rfl, rfl, rfl, rfl⟩

/-- a proper prefix of the genuine client handshake: "not yet", filter untouched -/
theorem srv_prefix (hno : C.NoEarlyMark) (s : Server) (hs : C.Inv s) (f : RF.Filter) (H now : Int)
    (p e : Bytes) (hp : p ++ e = C.blob) (he : e ≠ []) :
    ∃ s', parseClientHandshake P s f H now p = (s', f, .err .markNotFoundYet) ∧ C.Inv s' := by
  rw [parse_unfold]
  by_cases hshort : p.length < clientMinHandshakeLength
  · rw [if_pos hshort]; exact ⟨s, rfl, hs⟩
  rw [if_neg hshort]
  have hel : 0 < e.length := List.length_pos_iff.mpr he
  have hpl : p.length + e.length = C.blob.length := by rw [← hp, List.length_append]
  have hb := blobC_bounds hP hs0 C
  have hp32 : p = C.xRepr ++ p.drop representativeLength := by
    have h1 : representativeLength ≤ p.length := by
      simp only [clientMinHandshakeLength, representativeLength] at *; omega
    have h2 : p.take representativeLength = C.xRepr := by
      have : (p ++ e).take representativeLength = C.xRepr := by
        rw [hp, blobC_shape hP hs0, List.append_assoc, List.append_assoc, List.take_left' C.repr_len]
      rw [List.take_append_of_le_length h1] at this
      exact this
    rw [← h2, List.take_append_drop]
  obtain ⟨hc1, hc2⟩ := cacheOn_inv hP hs0 C s hs p _ hp32
  have hmp : markPos P s p = none := by
    unfold markPos
    rw [hc1]
    unfold findMarkMac
    by_cases h1 : representativeLength + clientMinPadLength > p.length
    · rw [if_pos h1]
    rw [if_neg h1]
    simp only []
    have hE : min p.length maxHandshakeLength = p.length := by apply Nat.min_eq_left; omega
    rw [hE]
    by_cases h2 : p.length < representativeLength + clientMinPadLength + (markLength + macLength)
    · rw [if_pos h2]
    rw [if_neg h2]
    simp only [↓reduceIte]
    have hpt : p = C.blob.take p.length := by rw [← hp, List.take_left]
    have := hno p.length (by omega) (by omega)
    rw [← hpt] at this
    have this' : ¬ (p.drop (p.length - (markLength + macLength))).take markLength = C.cache.mrk := this
    rw [if_neg this']
  rw [hmp]
  simp only
  have : ¬ p.length ≥ maxHandshakeLength := by omega
  rw [if_neg this, hc2]
  exact ⟨_, rfl, Or.inr rfl⟩

/-- the complete genuine client handshake is accepted, with the server's KEY_SEED -/
theorem srv_accept (s : Server) (hs : C.Inv s) (f : RF.Filter) (H now : Int)
    (hwin : ∃ off ∈ ([0, -1, 1] : List Int), C.hour = H + off)
    (hnr : NotReplay P s0 f H now C.blob C.pos) :
    ∃ s' f', parseClientHandshake P s f H now C.blob = (s', f', .ok C.keySeed) := by
  have hb := blobC_bounds hP hs0 C
  have hl := blobC_len hP hs0 C
  have hfl := inv_fields hP hs0 C s hs
  have hp32 : C.blob = C.xRepr ++ (C.pad ++ C.mrk ++ mac P s0.idPub s0.nodeID (C.xRepr ++ C.pad ++ C.mrk) C.hour) := by
    rw [blobC_shape hP hs0]; simp
  obtain ⟨hc1, hc2⟩ := cacheOn_inv hP hs0 C s hs C.blob _ hp32
  obtain ⟨hc1', hc2'⟩ := cacheOn_inv hP hs0 C s0 (Or.inl rfl) C.blob _ hp32
  have hmp : markPos P s C.blob = some C.pos := by
    unfold markPos
    rw [hc1]
    unfold findMarkMac
    have h1 : ¬ representativeLength + clientMinPadLength > C.blob.length := by
      simp only [clientMinHandshakeLength, representativeLength] at *; omega
    rw [if_neg h1]
    simp only []
    have hE : min C.blob.length maxHandshakeLength = C.blob.length := Nat.min_eq_left hb.2
    rw [hE]
    have h2 : ¬ C.blob.length < representativeLength + clientMinPadLength + (markLength + macLength) := by
      simp only [clientMinHandshakeLength, representativeLength, markLength, macLength] at *; omega
    rw [if_neg h2]
    simp only [↓reduceIte]
    have hpos : C.blob.length - (markLength + macLength) = C.pos := by omega
    rw [hpos]
    have hm : (C.blob.drop C.pos).take markLength = C.cache.mrk := by
      have hlen : (C.xRepr ++ C.pad).length = C.pos := by
        rw [List.length_append, C.repr_len]; rfl
      have hml : C.mrk.length = markLength := HsLemmas.mark_length P hP _ _ _
      rw [blobC_shape hP hs0, List.append_assoc (C.xRepr ++ C.pad), List.drop_left' hlen,
        List.take_left' hml]
      rfl
    rw [if_pos hm]
  have hparts : bodyAt C.blob C.pos = clientBody P s0.idPub s0.nodeID C.xRepr C.pad ∧
      macAt C.blob C.pos = mac P s0.idPub s0.nodeID (clientBody P s0.idPub s0.nodeID C.xRepr C.pad) C.hour :=
    clientBlob_parts P (hmacLong_of_len P hP) s0.idPub s0.nodeID C.xRepr C.pad C.hour C.pos hl
  have hacc : Accepts P s f H now C.blob := by
    refine ⟨by omega, C.pos, hmp, ?_, ?_, hl, ?_⟩
    · obtain ⟨off, ho, hh⟩ := hwin
      refine ⟨off, ho, ?_⟩
      rw [hfl.1, hfl.2.1]
      show mac P s0.idPub s0.nodeID (bodyAt C.blob C.pos) (H + off) = macAt C.blob C.pos
      rw [hparts.1, hparts.2, hh]
    · unfold NotReplay at hnr ⊢
      rw [hc2]
      rw [hc2'] at hnr
      exact hnr
    · unfold Handshake.ntorOf
      rw [hc1, hfl.1, hfl.2.1, hfl.2.2.1, hfl.2.2.2.1, hfl.2.2.2.2]
      show (Ntor.serverHandshake P.toPrims (P.reprToPublic C.xRepr) _ _ _ _ _).1 = true
      rw [C.repr_x]
      exact C.ntor_ok
  obtain ⟨seed, hseed⟩ := (accepts_iff P s f H now C.blob).mpr hacc
  have hks := parse_ok_seed P s f H now C.blob seed hseed
  have hks' : seed = C.keySeed := by
    rw [hks]
    unfold Handshake.ntorOf
    rw [hc1, hfl.1, hfl.2.1, hfl.2.2.1, hfl.2.2.2.1, hfl.2.2.2.2]
    show (Ntor.serverHandshake P.toPrims (P.reprToPublic C.xRepr) _ _ _ _ _).2.1 = _
    rw [C.repr_x]
    rfl
  rcases hpr : parseClientHandshake P s f H now C.blob with ⟨s', f', r⟩
  rw [hpr] at hseed
  simp only at hseed
  exact ⟨s', f', by rw [hseed, hks']⟩

/-- **the server's read loop on a genuine client handshake in any chunking** whose last chunk ends
    with the handshake: accepted exactly there, the chunks behind it are left on the network -/
theorem srvLoop_genuine (hno : C.NoEarlyMark) (f : RF.Filter) (H now : Int)
    (hwin : ∃ off ∈ ([0, -1, 1] : List Int), C.hour = H + off)
    (hnr : NotReplay P s0 f H now C.blob C.pos) (cs2 : List Bytes) :
    ∀ (cs1 : List Bytes) (buf : Bytes) (s : Server), C.Inv s → buf ++ cs1.flatten = C.blob →
      buf.length < C.blob.length →
      ∃ s' f' rest, srvLoop P H now s f buf (cs1 ++ cs2) = (s', f', C.blob, some (.ok C.keySeed), rest) ∧
        rest.flatten = cs2.flatten := by
  intro cs1
  induction cs1 with
  | nil =>
    intro buf s _ hb hl
    simp only [List.flatten_nil, List.append_nil] at hb
    rw [hb] at hl; omega
  | cons ch r ih =>
    intro buf s hs hb hl
    simp only [List.flatten_cons] at hb
    by_cases hlen : (buf ++ ch).length < C.blob.length
    · have he : r.flatten ≠ [] := by
        intro h0
        rw [h0, List.append_nil] at hb
        rw [hb] at hlen; omega
      obtain ⟨s1, hp1, hs1⟩ := srv_prefix hP hs0 C hno s hs f H now (buf ++ ch) r.flatten
        (by rw [List.append_assoc]; exact hb) he
      obtain ⟨s', f', rest, h1, h2⟩ := ih (buf ++ ch) s1 hs1 (by rw [List.append_assoc]; exact hb) hlen
      refine ⟨s', f', rest, ?_, h2⟩
      rw [List.cons_append]
      unfold srvLoop
      rw [hp1]
      exact h1
    · have hfull : buf ++ ch = C.blob ∧ r.flatten = [] := by
        have h1 : (buf ++ ch ++ r.flatten).length = C.blob.length := by rw [List.append_assoc, hb]
        have h2 : r.flatten.length = 0 := by
          rw [List.length_append] at h1; omega
        have h3 := List.eq_nil_of_length_eq_zero h2
        rw [h3, List.append_nil] at hb
        exact ⟨hb, h3⟩
      obtain ⟨s', f', hacc⟩ := srv_accept hP hs0 C s hs f H now hwin hnr
      refine ⟨s', f', r ++ cs2, ?_, by rw [List.flatten_append, hfull.2, List.nil_append]⟩
      rw [List.cons_append]
      unfold srvLoop
      rw [hfull.1, hacc]

end

/-- the server end to end: handshake loop, key schedule, then the data phase on the client's
    frames (which arrive in later chunks) -/
theorem server_e2e (P : Prims) (link : Bytes → Crypto) (hlink : ∀ k, CryptoOK (link k))
    (hP : HsLemmas.HmacLen P) (s0 : Server) (hs0 : s0.cache = none) (C : GenuineC P s0)
    (hno : C.NoEarlyMark) (f : RF.Filter) (H now : Int)
    (hwin : ∃ off ∈ ([0, -1, 1] : List Int), C.hour = H + off)
    (hnr : NotReplay P s0 f H now C.blob C.pos)
    (padS lenSeed : Bytes) (pkts : List Bytes)
    (hp : ∀ p ∈ pkts, p.length ≤ Consts.Framing.maximumFramePayloadLength)
    (hwf : ∀ p ∈ pkts, ∀ e, parsePacket true p ≠ .bad e)
    (hn : pkts.length < ctrLimit - 1) (cs1 cs2 : List Bytes) (hcs1 : cs1.flatten = C.blob)
    (hcs2 : cs2.flatten = wire (link (clientEncKey (okm P C.keySeed))) pkts) (ns : List Nat) :
    ∃ s' f' written rest d rxf bl,
      serverConnect P link s0 f H now padS lenSeed (cs1 ++ cs2) =
        .established s' f' written (serverEncKey (okm P C.keySeed)) (serverDecKey (okm P C.keySeed))
          serverStart rest ∧
      rest.flatten = cs2.flatten ∧
      session (link (serverDecKey (okm P C.keySeed))) true ns serverStart (rest.map NetEv.data)
        = (d, [], rxf, bl) ∧
      (d ++ rxf.decoded) <+: pkts.flatMap (payloadOf true) ∧
      (bl = true → d = pkts.flatMap (payloadOf true) ∧ rxf.rxBuf = [] ∧ rxf.decoded = []) := by
  have hbpos : ([] : Bytes).length < C.blob.length := by
    have := (blobC_bounds hP hs0 C).1
    simp only [List.length_nil, clientMinHandshakeLength, clientMinPadLength] at *
    omega
  obtain ⟨s', f', rest, h1, h2⟩ := srvLoop_genuine hP hs0 C hno f H now hwin hnr cs2 cs1 [] s0
    (Or.inl rfl) (by rw [List.nil_append]; exact hcs1) hbpos
  have hkey : serverDecKey (okm P C.keySeed) = clientEncKey (okm P C.keySeed) := rfl
  have hH := honest_runs (link (clientEncKey (okm P C.keySeed))) (hlink _) true pkts 0 hp hwf
    (by simpa using hn)
  have hflat : rest.flatten = encodeAll (link (clientEncKey (okm P C.keySeed))) 0 pkts := by
    rw [h2, hcs2]; rfl
  rw [show encodeAll (link (clientEncKey (okm P C.keySeed))) 0 pkts = Rx.init.rxBuf ++ rest.flatten from
    by rw [hflat]; rfl] at hH
  obtain ⟨d, rxf, bl, hse, hpre, hbl⟩ :=
    session_clean (link (clientEncKey (okm P C.keySeed))) true ns Rx.init rest _ _
      (settled_init _ true) hH (quiescent_empty _ true _)
  rw [decodedOf_honestOuts] at hpre hbl
  refine ⟨s', f', serverBlob P s'.idPub s'.nodeID s'.yRepr (s'.auth.getD []) padS (s'.hour.getD 0) ++
      frameOf (link (serverEncKey (okm P C.keySeed))) 0 (seedPkt lenSeed),
    rest, d, rxf, bl, ?_, h2, ?_, ?_, fun h => ?_⟩
  · unfold serverConnect
    rw [h1]
  · rw [hkey]; exact hse
  · simpa [Rx.init] using hpre
  · obtain ⟨g1, g2, _, g4, _⟩ := hbl h
    exact ⟨by simpa [Rx.init] using g1, g2, g4⟩

/-! ## key blocks and the concrete link crypto -/

/-- the deployed link crypto of a key block meets `CryptoOK` (as `C06.concrete_crypto_ok`) -/
theorem refLink_sealB (key : Bytes) (rnd : Nat → Nat) (n : Nat) (p : Bytes) :
    (Ref.linkCrypto key rnd).sealB n p =
      Crypto.secretboxSeal (Ref.boxKey key) (Ref.nonceBytes (Ref.noncePrefix key) n) p := rfl
theorem refLink_openB (key : Bytes) (rnd : Nat → Nat) (n : Nat) (b : Bytes) :
    (Ref.linkCrypto key rnd).openB n b =
      Crypto.secretboxOpen (Ref.boxKey key) (Ref.nonceBytes (Ref.noncePrefix key) n) b := rfl

theorem refLink_ok (key : Bytes) (rnd : Nat → Nat) : CryptoOK (Ref.linkCrypto key rnd) where
  seal_len n p := by rw [refLink_sealB]; exact Crypto.secretboxSeal_length _ _ p
  open_seal n p := by rw [refLink_sealB, refLink_openB]; exact Crypto.secretboxOpen_seal _ _ p

theorem okm_split (P : Prims) (hK : HsLemmas.HkdfLen P) (keySeed : Bytes) :
    (clientEncKey (okm P keySeed)).length = Consts.Framing.KeyLength ∧
    (serverEncKey (okm P keySeed)).length = Consts.Framing.KeyLength ∧
    clientEncKey (okm P keySeed) ++ serverEncKey (okm P keySeed) = okm P keySeed := by
  have hl : (okm P keySeed).length = 144 := by
    unfold okm Ntor.kdf
    rw [hK _ _ _ _ (by decide)]; decide
  refine ⟨?_, ?_, ?_⟩
  · simp [clientEncKey, hl, Consts.Framing.KeyLength]
  · simp [serverEncKey, hl, Consts.Framing.KeyLength]
  · simp [clientEncKey, serverEncKey]

/-- a second toy: the "HMAC" reads its input from the end, so that the hour suffix matters
    (three different hours give three different MACs, as the replay logic of the server needs) -/
def toyPrimsR : Prims :=
  { HsLemmas.toyPrims with hmac := fun k m => ((k ++ m).reverse ++ List.replicate 32 0).take 32 }

theorem toyPrimsR_hmacLen : HsLemmas.HmacLen toyPrimsR := fun k m => by
  simp [toyPrimsR, Consts.Ntor.keySeedLength]; omega

theorem ne_error_of_isOk {x : Except Unit (Option Int)} (h : x.isOk = true) : x ≠ .error () := by
  intro hx; rw [hx] at h; cases h

theorem singletons_flatten (b : Bytes) : (b.map (fun x => [x])).flatten = b := by
  induction b with
  | nil => rfl
  | cons x r ih => simp [ih]

end O4.E2E
