import O4.Model.Crypto.Field25519
import Mathlib.NumberTheory.LegendreSymbol.QuadraticReciprocity
import Mathlib.Tactic.LinearCombination
import Mathlib.Tactic.FieldSimp
import Mathlib.Tactic.Ring
/-!
# The `Nat` model of GF(2^255 − 19) computes in `ZMod p`

Bridge between `O4.Crypto.F25519` (executable, over `Nat`) and the field `ZMod p`:
every model operation returns a value `< p` whose image in `ZMod p` is the corresponding field
operation. Primality of `p` is an explicit hypothesis `[Fact (Nat.Prime p)]` where needed.
-/
namespace O4.Crypto.F25519

/-- the field the model computes in -/
abbrev K := ZMod p

theorem p_pos : 0 < p := by decide +kernel
theorem p_gt_two : 2 < p := by decide +kernel

instance : NeZero p := ⟨Nat.pos_iff_ne_zero.mp p_pos⟩

/-- the image of a model value in the field -/
abbrev φ (a : Nat) : K := (a : K)

theorem φ_inj {a b : Nat} (ha : a < p) (hb : b < p) : φ a = φ b ↔ a = b := by
  constructor
  · intro h
    have := (ZMod.natCast_eq_natCast_iff' a b p).mp h
    rwa [Nat.mod_eq_of_lt ha, Nat.mod_eq_of_lt hb] at this
  · rintro rfl; rfl

theorem φ_mod (a : Nat) : φ (a % p) = φ a := ZMod.natCast_mod a p

theorem φ_p : φ p = 0 := ZMod.natCast_self p

/-! ### ring operations -/

theorem red_lt (a : Nat) : red a < p := Nat.mod_lt _ p_pos
theorem add_lt (a b : Nat) : add a b < p := Nat.mod_lt _ p_pos
theorem sub_lt (a b : Nat) : sub a b < p := Nat.mod_lt _ p_pos
theorem neg_lt (a : Nat) : neg a < p := Nat.mod_lt _ p_pos
theorem mul_lt (a b : Nat) : mul a b < p := Nat.mod_lt _ p_pos
theorem sq_lt (a : Nat) : sq a < p := Nat.mod_lt _ p_pos

@[simp] theorem φ_red (a : Nat) : φ (red a) = φ a := φ_mod a
@[simp] theorem φ_add (a b : Nat) : φ (add a b) = φ a + φ b := by
  simp [add, φ, ZMod.natCast_mod]
@[simp] theorem φ_mul (a b : Nat) : φ (mul a b) = φ a * φ b := by
  simp [mul, φ, ZMod.natCast_mod]
@[simp] theorem φ_sq (a : Nat) : φ (sq a) = φ a ^ 2 := by
  simp [sq, φ, ZMod.natCast_mod, pow_two]
@[simp] theorem φ_neg (a : Nat) : φ (neg a) = - φ a := by
  have h : a % p ≤ p := (Nat.mod_lt a p_pos).le
  have : φ (p - a % p) + φ (a % p) = 0 := by
    rw [φ, φ, ← Nat.cast_add, Nat.sub_add_cancel h]; exact φ_p
  rw [neg, φ_mod, eq_neg_iff_add_eq_zero, ← φ_mod a]; exact this
@[simp] theorem φ_sub (a b : Nat) : φ (sub a b) = φ a - φ b := by
  have h : b % p ≤ p := (Nat.mod_lt b p_pos).le
  have hb : φ (p - b % p) = - φ b := by
    have : φ (p - b % p) + φ (b % p) = 0 := by
      rw [φ, φ, ← Nat.cast_add, Nat.sub_add_cancel h]; exact φ_p
    rw [eq_neg_iff_add_eq_zero, ← φ_mod b]; exact this
  rw [sub, φ_mod, φ, Nat.cast_add]; rw [show ((p - b % p : Nat) : K) = - φ b from hb]; ring

/-! ### exponentiation -/

theorem φ_powAux (fuel b e acc : Nat) (h : e < 2 ^ fuel) :
    φ (powAux fuel b e acc) = φ acc * φ b ^ e := by
  induction fuel generalizing b e acc with
  | zero =>
    have : e = 0 := by simpa using h
    subst this; simp [powAux]
  | succ f ih =>
    unfold powAux
    by_cases he : e = 0
    · subst he; simp
    · rw [if_neg he]
      have h2 : e / 2 < 2 ^ f := by
        rw [Nat.div_lt_iff_lt_mul (by norm_num)]; rw [pow_succ] at h; exact h
      rw [ih _ _ _ h2]
      have hb : φ (b * b % p) = φ b * φ b := by simp [φ, ZMod.natCast_mod]
      rw [hb]
      have he2 : e = 2 * (e / 2) + e % 2 := (Nat.div_add_mod e 2).symm
      by_cases hodd : e % 2 = 1
      · rw [if_pos hodd]
        have : φ (acc * b % p) = φ acc * φ b := by simp [φ, ZMod.natCast_mod]
        rw [this]
        conv_rhs => rw [he2, hodd]
        rw [pow_add, pow_mul, pow_one, pow_two]; ring
      · rw [if_neg hodd]
        have h0 : e % 2 = 0 := by omega
        conv_rhs => rw [he2, h0]
        rw [add_zero, pow_mul, pow_two]

theorem powAux_lt (fuel b e acc : Nat) (h : acc < p) : powAux fuel b e acc < p := by
  induction fuel generalizing b e acc with
  | zero => simpa [powAux] using h
  | succ f ih =>
    unfold powAux
    by_cases he : e = 0
    · simp [he, h]
    · rw [if_neg he]
      apply ih
      split
      · exact Nat.mod_lt _ p_pos
      · exact h

theorem pow_lt (b e : Nat) : pow b e < p := powAux_lt _ _ _ _ (by decide +kernel)

@[simp] theorem φ_pow (b e : Nat) : φ (pow b e) = φ b ^ e := by
  unfold pow
  rw [φ_powAux _ _ _ _ (Nat.lt_log2_self (n := e) |> fun h => by simpa using h)]
  simp [φ, ZMod.natCast_mod]

/-! ### sign, select, equality -/

theorem isNegative_le (a : Nat) : isNegative a = 0 ∨ isNegative a = 1 := by
  unfold isNegative; omega

theorem select_eq (a b c : Nat) : select a b c = if c = 1 then a else b := rfl

theorem abs_lt (a : Nat) : abs a < p := by
  unfold abs select; split
  · exact neg_lt _
  · exact red_lt _

theorem φ_abs (a : Nat) : φ (abs a) = φ a ∨ φ (abs a) = - φ a := by
  unfold abs select; split
  · right; simp
  · left; simp

theorem φ_abs_sq (a : Nat) : φ (abs a) ^ 2 = φ a ^ 2 := by
  rcases φ_abs a with h | h <;> rw [h]; ring

theorem eqI_cases (a b : Nat) : eqI a b = 0 ∨ eqI a b = 1 := by
  unfold eqI; split <;> simp

theorem eqI_eq_one (a b : Nat) : eqI a b = 1 ↔ φ a = φ b := by
  unfold eqI
  rw [ZMod.natCast_eq_natCast_iff']
  split <;> simp_all

theorem eqI_eq_zero (a b : Nat) : eqI a b = 0 ↔ φ a ≠ φ b := by
  constructor
  · intro h0 hab
    have := (eqI_eq_one a b).mpr hab
    omega
  · intro hne
    rcases eqI_cases a b with h | h
    · exact h
    · exact absurd ((eqI_eq_one a b).mp h) hne

theorem lor_eq_one {a b : Nat} (ha : a = 0 ∨ a = 1) (hb : b = 0 ∨ b = 1) :
    a ||| b = 1 ↔ a = 1 ∨ b = 1 := by
  rcases ha with rfl | rfl <;> rcases hb with rfl | rfl <;> decide

theorem lor_cases {a b : Nat} (ha : a = 0 ∨ a = 1) (hb : b = 0 ∨ b = 1) :
    a ||| b = 0 ∨ a ||| b = 1 := by
  rcases ha with rfl | rfl <;> rcases hb with rfl | rfl <;> decide

/-- the exponent of `Pow22523`, kept opaque in the algebra -/
def e8 : ℕ := 2 ^ 252 - 3

theorem φ_pow22523 (x : Nat) : φ (pow22523 x) = φ x ^ e8 := by
  unfold pow22523; rw [φ_pow]; rfl

theorem e8_spec : 14 + 28 * e8 = (p / 2) * 7 := by decide +kernel

/-- `check² = (w^(p/2))^7` for `check = w·(w³·(w⁷)^e)²` -/
theorem K_check_sq (w : K) : (w * (w ^ 3 * (w ^ 7) ^ e8) ^ 2) ^ 2 = (w ^ (p / 2)) ^ 7 := by
  have h : (w ^ (p / 2)) ^ 7 = w ^ (14 + 28 * e8) := by rw [← pow_mul, e8_spec]
  rw [h]
  generalize e8 = e
  ring

/-! ### inversion, Euler's criterion (need `p` prime) -/

theorem p_sub_two_ne_zero : p - 2 ≠ 0 := by decide +kernel
theorem p_mod_eight : p % 8 = 5 := by decide +kernel
theorem p_ne_two : p ≠ 2 := by decide +kernel
theorem p_div_two : p / 2 = 2 * (2 ^ 253 - 5) := by decide +kernel
theorem p_sub_one : p - 1 = 4 * (2 ^ 253 - 5) := by decide +kernel
theorem inv_lt (z : Nat) : inv z < p := pow_lt _ _
theorem sqrtM1_lt : sqrtM1 < p := by decide +kernel

section prime
variable [hp : Fact (Nat.Prime p)]


theorem K_pow_p_sub_two (a : K) : a ^ (p - 2) = a⁻¹ := by
  by_cases ha : a = 0
  · subst ha; simp [zero_pow p_sub_two_ne_zero]
  · have h1 : a ^ (p - 1) = 1 := ZMod.pow_card_sub_one_eq_one ha
    have h2 : p - 1 = (p - 2) + 1 := by have := p_gt_two; omega
    rw [h2, pow_succ] at h1
    exact eq_inv_of_mul_eq_one_left h1

@[simp] theorem φ_inv (z : Nat) : φ (inv z) = (φ z)⁻¹ := by
  rw [inv, φ_pow, K_pow_p_sub_two]

/-- 2 is not a square mod p (p ≡ 5 mod 8) -/
theorem two_nonsquare : ¬ IsSquare (2 : K) := by
  rw [ZMod.exists_sq_eq_two_iff p_ne_two, p_mod_eight]; decide

/-- `sqrtM1` is a square root of −1 -/
theorem sqrtM1_sq : φ sqrtM1 ^ 2 = -1 := by
  have h : sq sqrtM1 = neg 1 := by decide +kernel
  have := congrArg φ h
  simpa using this

/-- Euler: for `a ≠ 0`, `a^(p/2)` is `1` for squares and `−1` for non-squares -/
theorem K_euler {a : K} (ha : a ≠ 0) : IsSquare a ↔ a ^ (p / 2) = 1 := ZMod.euler_criterion p ha

theorem K_neg_one_ne_one : (-1 : K) ≠ 1 := by
  intro h'
  have h2 : (2 : K) = 0 := by linear_combination -h'
  have : ((2 : Nat) : K) = 0 := by exact_mod_cast h2
  rw [ZMod.natCast_eq_zero_iff] at this
  have := Nat.le_of_dvd (by norm_num) this
  have := p_gt_two; omega

theorem K_euler_neg {a : K} (ha : a ≠ 0) : ¬ IsSquare a ↔ a ^ (p / 2) = -1 := by
  rw [K_euler ha]
  rcases ZMod.pow_div_two_eq_neg_one_or_one p ha with h | h
  · rw [h]; simp [K_neg_one_ne_one.symm]
  · rw [h]; simp [K_neg_one_ne_one]

/-! ### `SqrtRatio(1, v)` -/

theorem K_two_ne_zero : (2 : K) ≠ 0 := by
  intro h
  apply K_neg_one_ne_one
  linear_combination -h

theorem K_i_ne_zero : φ sqrtM1 ≠ 0 := by
  intro h; have := sqrtM1_sq; rw [h] at this; simp at this

theorem K_i_ne_one : φ sqrtM1 ≠ 1 := by
  intro h; have := sqrtM1_sq; rw [h] at this
  exact K_neg_one_ne_one (by linear_combination -this)

theorem K_i_ne_neg_one : φ sqrtM1 ≠ -1 := by
  intro h; have := sqrtM1_sq; rw [h] at this
  exact K_neg_one_ne_one (by linear_combination -this)

theorem K_i_ne_neg_i : φ sqrtM1 ≠ - φ sqrtM1 := by
  intro h
  have h2 : (2 : K) * φ sqrtM1 = 0 := by linear_combination h
  rcases mul_eq_zero.mp h2 with h3 | h3
  · exact K_two_ne_zero h3
  · exact K_i_ne_zero h3

/-- the value `check = w·(w³(w⁷)^e)²` is `±1` on non-zero squares and `±i` on non-squares -/
theorem K_check_cases (w : K) (hw : w ≠ 0) :
    let c := w * (w ^ 3 * (w ^ 7) ^ e8) ^ 2
    (IsSquare w → c = 1 ∨ c = -1) ∧ (¬ IsSquare w → c = φ sqrtM1 ∨ c = - φ sqrtM1) := by
  intro c
  have hc : c ^ 2 = (w ^ (p / 2)) ^ 7 := K_check_sq w
  constructor
  · intro hsq
    rw [(K_euler hw).mp hsq, one_pow] at hc
    have : (c - 1) * (c + 1) = 0 := by linear_combination hc
    rcases mul_eq_zero.mp this with h | h
    · left; linear_combination h
    · right; linear_combination h
  · intro hsq
    rw [(K_euler_neg hw).mp hsq] at hc
    have hc' : c ^ 2 = -1 := by rw [hc]; norm_num
    have : (c - φ sqrtM1) * (c + φ sqrtM1) = 0 := by
      linear_combination hc' - sqrtM1_sq
    rcases mul_eq_zero.mp this with h | h
    · left; linear_combination h
    · right; linear_combination h

/-- Specification of the model's `sqrtRatio 1 v` (the only way the modelled code calls it). -/
theorem sqrtRatio_one_spec (v : Nat) :
    ((sqrtRatio 1 v).2 = 0 ∨ (sqrtRatio 1 v).2 = 1) ∧ (sqrtRatio 1 v).1 < p ∧
    ((sqrtRatio 1 v).2 = 1 ↔ (φ v ≠ 0 ∧ IsSquare (φ v))) ∧
    ((sqrtRatio 1 v).2 = 1 → φ (sqrtRatio 1 v).1 ^ 2 * φ v = 1) ∧
    ((sqrtRatio 1 v).2 = 0 → φ v ≠ 0 → φ (sqrtRatio 1 v).1 ^ 2 * φ v = φ sqrtM1) ∧
    (φ v = 0 → φ (sqrtRatio 1 v).1 = 0) := by
  -- name the intermediate values of the model
  obtain ⟨rr, hrr⟩ : ∃ rr, rr = mul (mul 1 (mul (sq v) v))
      (pow22523 (mul (mul 1 (mul (sq v) v)) (sq (sq v)))) := ⟨_, rfl⟩
  obtain ⟨check, hcheck⟩ : ∃ c, c = mul v (sq rr) := ⟨_, rfl⟩
  have hdef : sqrtRatio 1 v =
      (abs (select (mul rr sqrtM1) rr (eqI check (neg 1) ||| eqI check (mul (neg 1) sqrtM1))),
        eqI check 1 ||| eqI check (neg 1)) := by
    rw [hcheck, hrr]; rfl
  set w := φ v with hwdef
  have hφrr : φ rr = w ^ 3 * (w ^ 7) ^ e8 := by
    rw [hrr]; simp only [φ_mul, φ_sq, φ_pow22523, Nat.cast_one, one_mul]; ring
  have hφc : φ check = w * (w ^ 3 * (w ^ 7) ^ e8) ^ 2 := by
    rw [hcheck, φ_mul, φ_sq, hφrr]
  have f1 : eqI check 1 = 1 ↔ φ check = 1 := by rw [eqI_eq_one]; simp
  have f2 : eqI check (neg 1) = 1 ↔ φ check = -1 := by rw [eqI_eq_one]; simp
  have f3 : eqI check (mul (neg 1) sqrtM1) = 1 ↔ φ check = - φ sqrtM1 := by
    rw [eqI_eq_one]; simp
  have c1 := eqI_cases check 1
  have c2 := eqI_cases check (neg 1)
  have c3 := eqI_cases check (mul (neg 1) sqrtM1)
  rw [hdef]
  refine ⟨lor_cases c1 c2, abs_lt _, ?_⟩
  simp only [lor_eq_one c1 c2, f1, f2]
  by_cases hw : w = 0
  · -- v = 0: r = 0, not a square
    have hc0 : φ check = 0 := by rw [hφc, hw]; ring
    have n1 : ¬ φ check = 1 := by rw [hc0]; exact zero_ne_one
    have n2 : ¬ φ check = -1 := by rw [hc0]; intro h; exact one_ne_zero (by linear_combination h)
    have n3 : ¬ φ check = - φ sqrtM1 := by
      rw [hc0]; intro h; exact K_i_ne_zero (by linear_combination h)
    have e2 : eqI check (neg 1) = 0 := by rcases c2 with h | h; exact h; exact absurd (f2.mp h) n2
    have e3 : eqI check (mul (neg 1) sqrtM1) = 0 := by
      rcases c3 with h | h; exact h; exact absurd (f3.mp h) n3
    have e1 : eqI check 1 = 0 := by rcases c1 with h | h; exact h; exact absurd (f1.mp h) n1
    have hr0 : φ (abs (select (mul rr sqrtM1) rr (eqI check (neg 1) ||| eqI check (mul (neg 1) sqrtM1)))) = 0 := by
      rw [e2, e3]
      have : φ rr = 0 := by rw [hφrr, hw]; ring
      rcases φ_abs (select (mul rr sqrtM1) rr (0 ||| 0)) with h | h <;> rw [h] <;>
        simp [select, this]
    refine ⟨?_, ?_, ?_, ?_⟩
    · simp [n1, n2, hw]
    · intro h; rcases h with h | h; exact absurd h n1; exact absurd h n2
    · intro _ h; exact absurd hw h
    · intro _; exact hr0
  · obtain ⟨hsq, hnsq⟩ := K_check_cases w hw
    rw [← hφc] at hsq hnsq
    by_cases hs : IsSquare w
    · -- non-zero square: check = ±1, result r with r²·v = 1
      have hval : φ (abs (select (mul rr sqrtM1) rr (eqI check (neg 1) ||| eqI check (mul (neg 1) sqrtM1)))) ^ 2 * w = 1 := by
        rw [φ_abs_sq]
        rcases hsq hs with h | h
        · -- check = 1: neither flipped flag
          have e2 : eqI check (neg 1) = 0 := by
            rcases c2 with h' | h'; exact h'
            exact absurd ((f2.mp h').symm.trans h) K_neg_one_ne_one
          have e3 : eqI check (mul (neg 1) sqrtM1) = 0 := by
            rcases c3 with h' | h'; exact h'
            have := (f3.mp h').symm.trans h
            exact absurd (by linear_combination -this) K_i_ne_neg_one
          rw [e2, e3]
          simp only [select]
          rw [if_neg (by decide)]
          rw [← h, hφc, hφrr]; ring
        · -- check = −1: flipped
          have e2 : eqI check (neg 1) = 1 := f2.mpr h
          have hsel : (eqI check (neg 1) ||| eqI check (mul (neg 1) sqrtM1)) = 1 :=
            (lor_eq_one c2 c3).mpr (Or.inl e2)
          rw [hsel]
          simp only [select, if_true, φ_mul]
          have := sqrtM1_sq
          have hc' : w * φ rr ^ 2 = -1 := by rw [← h, hφc, hφrr]
          linear_combination (φ sqrtM1 ^ 2) * hc' - this
      refine ⟨?_, ?_, ?_, ?_⟩
      · simp [hsq hs, hw, hs]
      · intro _; exact hval
      · intro h0 _
        exfalso
        have := (lor_eq_one c1 c2).mpr ((hsq hs).imp f1.mpr f2.mpr)
        omega
      · intro h; exact absurd h hw
    · -- non-square: check = ±i, flag 0, result r with r²·v = i
      have n1 : ¬ φ check = 1 := by
        intro h; rcases hnsq hs with h' | h'
        · exact K_i_ne_one (h'.symm.trans h)
        · exact K_i_ne_neg_one (by linear_combination -(h'.symm.trans h))
      have n2 : ¬ φ check = -1 := by
        intro h; rcases hnsq hs with h' | h'
        · exact K_i_ne_neg_one (h'.symm.trans h)
        · exact K_i_ne_one (by linear_combination -(h'.symm.trans h))
      have e1 : eqI check 1 = 0 := by rcases c1 with h | h; exact h; exact absurd (f1.mp h) n1
      have e2 : eqI check (neg 1) = 0 := by rcases c2 with h | h; exact h; exact absurd (f2.mp h) n2
      have hval : φ (abs (select (mul rr sqrtM1) rr (eqI check (neg 1) ||| eqI check (mul (neg 1) sqrtM1)))) ^ 2 * w = φ sqrtM1 := by
        rw [φ_abs_sq, e2]
        rcases hnsq hs with h | h
        · -- check = i: not flipped
          have e3 : eqI check (mul (neg 1) sqrtM1) = 0 := by
            rcases c3 with h' | h'; exact h'
            exact absurd ((f3.mp h').symm.trans h).symm K_i_ne_neg_i
          rw [e3]
          simp only [select]
          rw [if_neg (by decide)]
          rw [← h, hφc, hφrr]; ring
        · -- check = −i: flipped_i
          have e3 : eqI check (mul (neg 1) sqrtM1) = 1 := f3.mpr h
          rw [e3]
          simp only [select]
          rw [if_pos (by decide)]
          simp only [φ_mul]
          have := sqrtM1_sq
          have hc' : w * φ rr ^ 2 = - φ sqrtM1 := by rw [← h, hφc, hφrr]
          linear_combination (φ sqrtM1 ^ 2) * hc' - (φ sqrtM1) * this
      refine ⟨?_, ?_, ?_, ?_⟩
      · simp [n1, n2, hs]
      · intro h; rcases h with h | h; exact absurd h n1; exact absurd h n2
      · intro _ _; exact hval
      · intro h; exact absurd h hw

end prime

end O4.Crypto.F25519
