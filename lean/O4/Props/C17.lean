import O4.Lemmas.Socks5Handshake
import O4.Lemmas.Socks5Target
import O4.Lemmas.Socks5IPv6
/-!
# C17 — the SOCKS5 front end hands the transport exactly the target and arguments tor sent

Property theorems only.  Model: `O4/Model/Socks5.lean` (`run` = `socks5.Handshake` over a
connection whose successive `Read`s return the given chunks; `specRun` = the same protocol over
the concatenated byte stream).  Helper lemmas: `O4/Lemmas/Socks5{Prog,Args,Handshake}.lean`.
All protocol constants are the ones regenerated from the Go tree.
-/
set_option linter.unusedSimpArgs false
namespace C17
open O4 O4.Socks5

/-! ## the argument encoding round-trips -/

/-- **For every list of (key, value) pairs with non-empty keys — any bytes, including `;`, `=`,
    `\`, NUL and 8-bit values — parsing the encoding returns exactly the pairs, grouped by key
    with the value order kept.**  (`encode` escapes `\` and `;`, and `=` inside keys.) -/
theorem args_roundtrip (l : List (Bytes × Bytes)) (hk : ∀ kv ∈ l, kv.1 ≠ []) :
    parseClientParameters (encode l) = some (group l) := by
  simp [parseClientParameters, parsePairs_encode l hk]

example : parseClientParameters (encode [([97, 61, 92], [59, 59, 92, 61]), ([98], []), ([97, 61, 92], [0, 255])])
    = some [([97, 61, 92], [[59, 59, 92, 61], [0, 255]]), ([98], [[]])] := by decide

/-- the sequence of `args.Add` calls is exactly the encoded list, in order -/
theorem args_roundtrip_ordered (l : List (Bytes × Bytes)) (hk : ∀ kv ∈ l, kv.1 ≠ []) :
    parsePairs (encode l) = some l := parsePairs_encode l hk

/-- an empty key cannot be transported: the hypothesis of `args_roundtrip` is necessary -/
theorem empty_key_rejected : parseClientParameters (encode [([], [118])]) = none := by decide

/-! ## spreading the argument string over username and password -/

/-- **Splitting the encoded string at 255 bytes into username/password, with `"\0"` standing for
    an empty password, is undone by `authRFC1929`** for every NUL-free string of 1..510 bytes;
    both fields have legal RFC 1929 lengths (1..255). -/
theorem username_password_split (s : Bytes) (h1 : 1 ≤ s.length) (h2 : s.length ≤ 510)
    (hnul : ∀ b ∈ s, b ≠ 0) :
    let up := splitUserPass s
    1 ≤ up.1.length ∧ up.1.length ≤ 255 ∧ 1 ≤ up.2.length ∧ up.2.length ≤ 255 ∧
    joinUserPass up.1 up.2 (UInt8.ofNat up.2.length) = some s := by
  unfold splitUserPass
  by_cases h : s.length ≤ 255
  · simp only [if_pos h]
    refine ⟨h1, h, by simp, by simp, ?_⟩
    simp [joinUserPass]
  · simp only [if_neg h]
    have hl1 : (s.take 255).length = 255 := by simp; omega
    have hl2 : (s.drop 255).length = s.length - 255 := by simp
    refine ⟨by omega, by omega, by omega, by omega, ?_⟩
    unfold joinUserPass
    by_cases hp : UInt8.ofNat (s.drop 255).length = 1
    · rw [if_pos hp]
      have hlen : (s.drop 255).length = 1 := by
        have := congrArg UInt8.toNat hp
        rw [toNat_ofNat_lt _ (by omega)] at this
        exact this
      match hd : s.drop 255, hlen with
      | [b], _ =>
        have hb : b ∈ s := List.mem_of_mem_drop (by rw [hd]; simp)
        simp only [List.getElem?_cons_zero, if_neg (hnul b hb)]
        rw [← hd, List.take_append_drop]
    · rw [if_neg hp, List.take_append_drop]

set_option maxRecDepth 8192 in
example : (splitUserPass (List.replicate 300 97)).2.length = 45 := by decide
/-- non-vacuity of the hypotheses: an encoded argument string with escapes and 8-bit bytes -/
example : 1 ≤ (encode [([107, 61], [59, 255])]).length ∧ (encode [([107, 61], [59, 255])]).length ≤ 510 ∧
    ∀ b ∈ encode [([107, 61], [59, 255])], b ≠ 0 := by decide

set_option maxRecDepth 8192 in
/-- **The NUL exclusion is necessary**: a 256-byte argument string ending in NUL is split into a
    255-byte username and the password `"\0"`, which the server takes for "no password": the last
    byte is lost. -/
theorem nul_password_ambiguity :
    ∃ s : Bytes, s.length ≤ 510 ∧
      joinUserPass (splitUserPass s).1 (splitUserPass s).2 (UInt8.ofNat (splitUserPass s).2.length)
        = some (s.take 255) ∧ s.take 255 ≠ s := by
  refine ⟨List.replicate 255 97 ++ [0], by decide, by decide, by decide⟩

/-! ## any segmentation -/

/-- the stream offsets at which the phases (client messages) end: 0, |m₁|, |m₁|+|m₂|, … -/
def phaseEnds (ps : List (List Bytes)) : List Nat :=
  (List.range (ps.length + 1)).map fun k => ((ps.take k).flatten.flatten).length

private theorem mem_phaseEnds {ps : List (List Bytes)} {n : Nat} (h : n ∈ phaseEnds ps) :
    ∃ k, n = ((ps.take k).flatten.flatten).length := by
  obtain ⟨k, _, hk⟩ := List.mem_map.mp h
  exact ⟨k, hk.symm⟩

/-- **A client that sends each message only after the previous reply**: `ps` lists, per client
    message, the chunks in which it arrives (any chunking whatsoever, chunks may be empty or
    larger than the bufio buffer).  The hypothesis says what "step by step" means: every point at
    which the server answers and checks for trailing data (`flushOffsets`, computed from the
    concatenated stream alone) is the end of a message — the client has not yet sent anything
    beyond it.  Then the result of `Handshake` (request with Target and Args, or failure class,
    or still waiting) and every reply byte equal the specification parse of the concatenation. -/
theorem step_by_step_any_chunking (ps : List (List Bytes)) (eof : Bool)
    (h : ∀ n ∈ flushOffsets ps.flatten.flatten eof, n ∈ phaseEnds ps) :
    run ps.flatten eof = specRun ps.flatten.flatten eof :=
  run_phases ps eof (fun n hn => mem_phaseEnds (h n hn))

set_option maxRecDepth 8192 in
/-- non-vacuity: a no-auth exchange whose two messages arrive in two chunks each; also a
    *malformed* step-by-step exchange (bad command byte) meets the hypothesis -/
example : ∀ n ∈ flushOffsets [[[5], [1, 0]], [[5, 1, 0, 1, 10, 0, 0, 1], [0, 80]]].flatten.flatten true,
    n ∈ phaseEnds [[[5], [1, 0]], [[5, 1, 0, 1, 10, 0, 0, 1], [0, 80]]] := by decide
set_option maxRecDepth 8192 in
example : ∀ n ∈ flushOffsets [[[5, 1], [0]], [[5, 9], [0, 1]]].flatten.flatten true,
    n ∈ phaseEnds [[[5, 1], [0]], [[5, 9], [0, 1]]] := by decide
set_option maxRecDepth 8192 in
/-- … and a client that pipelines does not -/
example : ¬ ∀ n ∈ flushOffsets [[[5, 1, 0, 5, 1, 0, 1, 10, 0, 0, 1, 0, 80]]].flatten.flatten true,
    n ∈ phaseEnds [[[5, 1, 0, 5, 1, 0, 1, 10, 0, 0, 1, 0, 80]]] := by decide

/-- hence two segmentations of the same messages are indistinguishable -/
theorem chunkings_agree (ps ps' : List (List Bytes)) (eof : Bool)
    (hm : ps.map List.flatten = ps'.map List.flatten)
    (h : ∀ n ∈ flushOffsets ps.flatten.flatten eof, n ∈ phaseEnds ps) :
    run ps.flatten eof = run ps'.flatten eof := by
  have hs : ps.flatten.flatten = ps'.flatten.flatten := by
    rw [List.flatten_flatten, List.flatten_flatten, hm]
  have hlen : ps.length = ps'.length := by
    have := congrArg List.length hm; simpa using this
  have hpe : phaseEnds ps = phaseEnds ps' := by
    unfold phaseEnds
    rw [hlen]
    apply List.map_congr_left
    intro k _
    rw [List.flatten_flatten, List.flatten_flatten, List.map_take, List.map_take, hm]
  rw [step_by_step_any_chunking ps eof h, hs]
  symm
  apply step_by_step_any_chunking
  intro n hn
  rw [← hs] at hn
  rw [← hpe]
  exact h n hn

/-- **A conforming client with arguments, every chunking of every message**: the front end
    returns exactly the destination and exactly the arguments that were encoded, and answers with
    exactly the two RFC replies.  `l` is any list of pairs with non-empty keys whose encoding is
    NUL-free and fits the two RFC 1929 fields. -/
theorem honest_exchange (methods : Bytes) (hm : cAuthUserPass ∈ methods) (hl : methods.length < 256)
    (l : List (Bytes × Bytes)) (hk : ∀ kv ∈ l, kv.1 ≠ [])
    (hlen1 : 1 ≤ (encode l).length) (hlen2 : (encode l).length ≤ 510)
    (hnul : ∀ b ∈ encode l, b ≠ 0)
    (a : Addr) (ha : a.Valid) (port : Nat) (hp : port < 65536)
    (cs1 cs2 cs3 : List Bytes) (eof : Bool)
    (h1 : cs1.flatten = msgMethods methods)
    (h2 : cs2.flatten = msgAuth (splitUserPass (encode l)).1 (splitUserPass (encode l)).2)
    (h3 : cs3.flatten = msgConnect a port) :
    run (cs1 ++ cs2 ++ cs3) eof =
      ⟨.request (joinTarget a.host port) (group l),
       [[cVersion, cAuthUserPass], [cAuthVer, cAuthSuccess]]⟩ := by
  obtain ⟨hu1, hu2, hp1, hp2, hj⟩ := username_password_split (encode l) hlen1 hlen2 hnul
  have hargs := args_roundtrip l hk
  have hpick : pickMethod methods = cAuthUserPass := by
    simp [pickMethod, List.contains_iff_mem, hm]
  have hne : cAuthUserPass ≠ cAuthNone := by decide
  have hflat : ([cs1, cs2, cs3] : List (List Bytes)).flatten = cs1 ++ cs2 ++ cs3 := by simp
  have hstream : (cs1 ++ cs2 ++ cs3).flatten
      = msgMethods methods ++ (msgAuth (splitUserPass (encode l)).1 (splitUserPass (encode l)).2
          ++ (msgConnect a port ++ [])) := by
    simp [h1, h2, h3]
  rw [← hflat, run_phases [cs1, cs2, cs3] eof]
  · -- the specification parse of the three messages
    rw [hflat, hstream]
    unfold specRun handshake
    rw [spec_negotiate _ hl, hpick]
    simp only [afterNegotiate, if_neg hne, ↓reduceIte]
    rw [spec_auth _ _ hu1 hu2 hp1 hp2 _ hj _ hargs, spec, spec_command a ha port hp]
    simp [Result.pre]
  · -- every flush offset is the end of a message
    intro n hn
    rw [hflat, hstream] at hn
    unfold flushOffsets handshake at hn
    rw [flushPoints_negotiate _ hl, hpick] at hn
    simp only [afterNegotiate, if_neg hne, ↓reduceIte] at hn
    rw [flushPoints_auth _ _ hu1 hu2 hp1 hp2 _ hj _ hargs, flushPoints,
      flushPoints_command a ha port hp] at hn
    simp only [↓reduceIte, List.map_cons, List.map_nil, List.cons_append, List.nil_append,
      List.mem_cons, List.not_mem_nil, or_false] at hn
    rcases hn with rfl | rfl | rfl
    · exact ⟨1, by simp [h1]⟩
    · exact ⟨2, by simp [h1, h2]; omega⟩
    · exact ⟨3, by simp [h1, h2, h3]; omega⟩

/-- **A conforming client without arguments** (no-auth method offered, username/password not):
    every chunking yields the destination, an empty argument map and the one RFC reply. -/
theorem honest_exchange_noauth (methods : Bytes) (hm : cAuthNone ∈ methods)
    (hm2 : cAuthUserPass ∉ methods) (hl : methods.length < 256)
    (a : Addr) (ha : a.Valid) (port : Nat) (hp : port < 65536)
    (cs1 cs3 : List Bytes) (eof : Bool)
    (h1 : cs1.flatten = msgMethods methods) (h3 : cs3.flatten = msgConnect a port) :
    run (cs1 ++ cs3) eof = ⟨.request (joinTarget a.host port) [], [[cVersion, cAuthNone]]⟩ := by
  have hpick : pickMethod methods = cAuthNone := by
    simp [pickMethod, List.contains_iff_mem, hm, hm2]
  have hflat : ([cs1, cs3] : List (List Bytes)).flatten = cs1 ++ cs3 := by simp
  have hstream : (cs1 ++ cs3).flatten = msgMethods methods ++ (msgConnect a port ++ []) := by
    simp [h1, h3]
  rw [← hflat, run_phases [cs1, cs3] eof]
  · rw [hflat, hstream]
    unfold specRun handshake
    rw [spec_negotiate _ hl, hpick]
    simp only [afterNegotiate, ↓reduceIte]
    rw [spec, spec_command a ha port hp]
    simp [Result.pre]
  · intro n hn
    rw [hflat, hstream] at hn
    unfold flushOffsets handshake at hn
    rw [flushPoints_negotiate _ hl, hpick] at hn
    simp only [afterNegotiate, ↓reduceIte] at hn
    rw [flushPoints, flushPoints_command a ha port hp] at hn
    simp only [↓reduceIte, List.map_cons, List.map_nil, List.cons_append, List.nil_append,
      List.mem_cons, List.not_mem_nil, or_false] at hn
    rcases hn with rfl | rfl | rfl
    · exact ⟨1, by simp [h1]⟩
    · exact ⟨1, by simp [h1]⟩
    · exact ⟨2, by simp [h1, h3]; omega⟩

set_option maxRecDepth 8192 in
/-- non-vacuity: a concrete exchange (two keys, an escaped `;`, IPv6 target), one byte per read -/
example :
    run ([[5], [1], [2]] ++ [[1, 8, 107, 61, 92], [59, 59, 120, 61, 121, 1, 0]] ++
         [[5, 1, 0, 4, 32, 1, 13, 184, 0, 0, 0, 0], [0, 0, 0, 0, 0, 0, 0, 1, 1], [187]]) true
      = ⟨.request [91, 50, 48, 48, 49, 58, 100, 98, 56, 58, 58, 49, 93, 58, 52, 52, 51]  -- "[2001:db8::1]:443"
           [([107], [[59]]), ([120], [[121]])],
         [[5, 2], [1, 0]]⟩ := by decide

set_option maxRecDepth 8192 in
/-- the segmentation matters only through the step-by-step discipline: the same bytes in one
    segment are refused (trailing data after the method selection) -/
example : (run [[5, 1, 0, 5, 1, 0, 1, 10, 0, 0, 1, 0, 80]] true).outcome = .failed .proto := by decide
set_option maxRecDepth 8192 in
example : (run [[5, 1, 0], [5, 1, 0, 1, 10, 0, 0, 1, 0, 80]] true).outcome
    = .request [49, 48, 46, 48, 46, 48, 46, 49, 58, 56, 48] [] := by decide   -- "10.0.0.1:80"

/-! ## the target names the destination unambiguously -/

/-- **`net.IP.String()` loses nothing on 16-byte addresses**: the RFC 5952 text form (lower-case
    hex groups without leading zeros, the first longest run of ≥ 2 zero groups elided as `::`, the
    IPv4-mapped range printed as a dotted quad) determines the address.  Proved with a decoder
    that is a left inverse of the formatter (`O4/Lemmas/Socks5IPv6.lean`). -/
theorem ipv6_text_injective (raw raw' : Bytes) (h : raw.length = 16) (h' : raw'.length = 16)
    (e : ipString16 raw = ipString16 raw') : raw = raw' :=
  ipString16_injective raw raw' h h' e

example : ipString16 [32, 1, 13, 184, 0, 0, 0, 0, 0, 0, 0, 0, 0, 0, 0, 1]
    = [50, 48, 48, 49, 58, 100, 98, 56, 58, 58, 49] := by decide        -- "2001:db8::1"
example : ipString16 [0, 0, 0, 0, 0, 0, 0, 0, 0, 0, 255, 255, 192, 0, 2, 1]
    = [49, 57, 50, 46, 48, 46, 50, 46, 49] := by decide                -- "192.0.2.1"
example : decode6 [50, 48, 48, 49, 58, 100, 98, 56, 58, 58, 49] = [8193, 3512, 0, 0, 0, 0, 0, 1] := by
  decide

/-- **Per address type, `(address, port) ↦ Request.Target` is injective** on valid addresses
    (IPv4; domain names of 1..255 arbitrary bytes; 16-byte IPv6 addresses, bracketed): the port is
    the decimal number after the last colon, and the host text determines the address. -/
theorem target_injective (a a' : Addr) (ha : a.Valid) (ha' : a'.Valid) (hty : a.atyp = a'.atyp)
    (p p' : Nat) (e : joinTarget a.host p = joinTarget a'.host p') : a = a' ∧ p = p' := by
  obtain ⟨h, hp⟩ := joinTarget_injective e
  refine ⟨?_, hp⟩
  cases a with
  | v4 a b c d =>
    cases a' with
    | v4 a' b' c' d' =>
      obtain ⟨h1, h2, h3, h4⟩ := ipv4String_injective h
      rw [h1, h2, h3, h4]
    | domain n' => exact absurd hty (by simp only [Addr.atyp]; decide)
    | v6 raw' => exact absurd hty (by simp only [Addr.atyp]; decide)
  | domain n =>
    cases a' with
    | v4 a' b' c' d' => exact absurd hty (by simp only [Addr.atyp]; decide)
    | domain n' => simp only [Addr.host] at h; rw [h]
    | v6 raw' => exact absurd hty (by simp only [Addr.atyp]; decide)
  | v6 raw =>
    cases a' with
    | v4 a' b' c' d' => exact absurd hty (by simp only [Addr.atyp]; decide)
    | domain n' => exact absurd hty (by simp only [Addr.atyp]; decide)
    | v6 raw' =>
      have h' : ipString16 raw ++ [RBR] = ipString16 raw' ++ [RBR] := by
        simpa [Addr.host] using h
      rw [ipv6_text_injective raw raw' ha ha' (List.append_cancel_right h')]

/-- non-vacuity: two valid addresses of one type -/
example : (Addr.v6 [32, 1, 13, 184, 0, 0, 0, 0, 0, 0, 0, 0, 0, 0, 0, 1]).Valid ∧
    (Addr.v6 (List.replicate 16 0)).Valid ∧
    (Addr.v6 [32, 1, 13, 184, 0, 0, 0, 0, 0, 0, 0, 0, 0, 0, 0, 1]).atyp = (Addr.v6 (List.replicate 16 0)).atyp := by
  simp [Addr.Valid, Addr.atyp]

/-- across address types the target is *not* injective: the domain name "1.2.3.4" and the IPv4
    address 1.2.3.4 give the same `Request.Target` (a fact about the interface, not a defect:
    `net.Dial` treats both alike) -/
theorem target_not_injective_across_types :
    joinTarget (Addr.domain [49, 46, 50, 46, 51, 46, 52]).host 80 = joinTarget (Addr.v4 1 2 3 4).host 80 := by
  decide

/-! ## malformed input -/

/-- **Every chunk list — any bytes, any segmentation, with or without a final EOF — is answered
    by one of the specified outcomes**: the model function is total; it never reaches the `panic`
    outcome (checked slice accesses never fail); it only ever writes the protocol's legal server
    messages (method selection, RFC 1929 status, failure replies with code general-failure /
    command-not-supported / address-not-supported); a *request* is only ever returned when it is
    exactly the specification parse of the concatenated bytes (same target, args, replies — never
    a silently altered request); and it waits for more input only if the peer has not closed. -/
theorem malformed_total (cs : List Bytes) (eof : Bool) :
    (run cs eof).outcome ≠ .panic ∧
    (∀ w ∈ (run cs eof).writes, LegalWrite w) ∧
    (∀ t a, (run cs eof).outcome = .request t a → run cs eof = specRun cs.flatten eof) ∧
    ((run cs eof).outcome = .blocked → eof = false) ∧
    (run cs eof = specRun cs.flatten eof ∨ (run cs eof).outcome = .failed .proto) := by
  have hor := exec_spec_or_proto handshake ⟨[], norm cs, eof⟩
  rw [norm_stream] at hor
  refine ⟨exec_noPanic _ good_handshake.1 _, exec_writesIn _ _ good_handshake.2 _, ?_,
    exec_blocked_eof _ good_handshake.1 ⟨[], norm cs, eof⟩, hor⟩
  intro t a h
  rcases hor with h' | h'
  · exact h'
  · unfold run at h; rw [h] at h'; cases h'

/-- the specification parse itself never panics either -/
theorem spec_total (s : Bytes) (eof : Bool) : (specRun s eof).outcome ≠ .panic :=
  spec_noPanic _ good_handshake.1 s eof

set_option maxRecDepth 8192 in
example : (run [[5, 2, 0, 2], [1, 1, 61, 1, 0]] true).writes = [[5, 2], [1, 1]] := by decide
set_option maxRecDepth 8192 in
example : (run [[5, 1, 0], [5, 2, 0, 1]] true).writes = [[5, 0], [5, 7, 0, 1, 0, 0, 0, 0, 0, 0]] := by decide

end C17
