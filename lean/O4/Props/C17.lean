import O4.Model.Socks5
namespace C17
open O4 O4.Socks5
theorem placeholder : (1:Nat) = 1 := rfl
end C17
