import O4.Model.Obfs2
import O4.Lemmas.Obfs2
import O4.Lemmas.CtrLaw
import O4.Generated.Facts.Obfs2
/-!
# C14 — obfs2: stream integrity and spec conformance

Theorems about the endpoint model `O4.Obfs2` (`transports/obfs2/obfs2.go` line by line), for **every**
instantiation of the primitives whose stream function is a keystream XOR (`SXor.Law`; proved for the
executable AES-CTR in `aesCtrXor_law`, so the theorems apply to the model the driver runs), every
seed, padding, write sequence and every segmentation of the byte stream.

* `keys_agree`            initiator tx = responder rx and vice versa, as functions of the two seeds
* `stream_roundtrip`      any write sequence, any re-segmentation, any read sizes: delivered = written
* `stream_roundtrip_both` … in both directions after `kdf`
* `tail_with_error_delivered` a final chunk handed out together with an error is decrypted and delivered
* `rejects_bad_magic`, `rejects_big_padlen`, `accepts_iff`   the header decision
* `handshake_any_chunking` a well-formed peer handshake completes for every segmentation, consuming
                           exactly `seedLen + hsLen + padLen` bytes and leaving the rest queued
* `coalesced_with_handshake` handshake ‖ first data in one segment (or any segmentation), then silence:
                           the data is readable at once, nothing is withheld
* `rejected_any_chunking`  a rejected header is rejected for every segmentation after `seedLen + hsLen` bytes
* `interop`               two model endpoints fed each other's handshake in any segmentation both finish
                           with agreeing streams (the model is a consistent implementation of the protocol)
* `no_panic_handshake`, `buffer_bounded_handshake`   (for C10)
-/
namespace C14
open O4 O4.SC O4.Obfs2 O4.Consts.Obfs2

/-! ### the wire-format constants are the specification's -/

/-- **Spec conformance of the constants.** The constants regenerated from the Go tree on this run
are the values of the obfs2 specification (MAGIC_VALUE 0x2BF5CA7E, SEED_LENGTH 16, MAX_PADDING 8192,
KEYLEN 16, 8 header bytes, the four MAC labels). A change of any of them in the code — which the
model, built from the same constants, would follow silently — stops this theorem from checking. -/
theorem spec_constants :
    magicValue = 0x2BF5CA7E ∧ seedLen = 16 ∧ maxPadding = 8192 ∧ keyLen = 16 ∧ hsLen = 8 ∧
    initiatorPadString = "Initiator obfuscation padding" ∧
    responderPadString = "Responder obfuscation padding" ∧
    initiatorKdfString = "Initiator obfuscated data" ∧
    responderKdfString = "Responder obfuscated data" :=
  ⟨rfl, rfl, rfl, rfl, rfl, rfl, rfl, rfl, rfl⟩

/-! ### structural facts of the Go source the model rests on (go/ast, regenerated per run) -/

/-- The model treats every MAC / cipher as a pure function of its inputs and every connection as
owning its primitives; `Read`/`Write` as `cipher.StreamReader.Read` / `StreamWriter.Write` (which
decrypt and return the n bytes a conn hands out together with an error); the handshake reads as
`io.ReadFull` (never over-reading). In the source: `mac` makes a fresh `sha256.New()` per call (no
digest shared between connections/goroutines), `handshake` and `kdf` make fresh `aes.NewCipher` /
`cipher.NewCTR`, `handshake` reads with `io.ReadFull` only, `Read`/`Write` call only `rx.Read` /
`tx.Write`. A refactor that shares hash state, bypasses the stream reader or over-reads stops this
theorem from checking even when no test input exposes it. -/
theorem structure_facts :
    "sha256.New" ∈ O4.Facts.Obfs2.func_mac_calls ∧
    "mac" ∈ O4.Facts.Obfs2.func_hsKdf_calls ∧
    "aes.NewCipher" ∈ O4.Facts.Obfs2.obfs2Conn_handshake_calls ∧
    "cipher.NewCTR" ∈ O4.Facts.Obfs2.obfs2Conn_handshake_calls ∧
    "aes.NewCipher" ∈ O4.Facts.Obfs2.obfs2Conn_kdf_calls ∧
    "cipher.NewCTR" ∈ O4.Facts.Obfs2.obfs2Conn_kdf_calls ∧
    "io.ReadFull" ∈ O4.Facts.Obfs2.obfs2Conn_handshake_calls ∧
    "io.ReadAtLeast" ∉ O4.Facts.Obfs2.obfs2Conn_handshake_calls ∧
    "Conn.Read" ∉ O4.Facts.Obfs2.obfs2Conn_handshake_calls ∧
    O4.Facts.Obfs2.obfs2Conn_Read_calls = ["rx.Read"] ∧
    O4.Facts.Obfs2.obfs2Conn_Write_calls = ["tx.Write"] := by
  decide

/-! ### the executable instantiation meets the hypotheses used below -/

theorem real_law : Prims.real.sxor.Law aesKs := aesCtrXor_law

theorem real_primsOk : PrimsOk Prims.real where
  hashLen x := by
    show keyLen ≤ (Crypto.sha256 x).length
    rw [Crypto.sha256_length]; decide
  keyOk x := by
    show Crypto.aesKeyOk ((Crypto.sha256 x).take keyLen) = true
    have : ((Crypto.sha256 x).take keyLen).length = 16 := by
      rw [List.length_take, Crypto.sha256_length]; decide
    simp [Crypto.aesKeyOk, this]
  ivOk x := by
    show Crypto.aesIvOk ((Crypto.sha256 x).drop keyLen) = true
    have : ((Crypto.sha256 x).drop keyLen).length = 16 := by
      rw [List.length_drop, Crypto.sha256_length]; decide
    simp [Crypto.aesIvOk, this]

/-! ### keys -/

/-- Both roles derive the same pair of session streams from `initSeed ‖ respSeed`; the initiator
sends with the INIT stream and receives with the RESP stream, the responder the other way round. -/
theorem keys_agree (P : Prims) (ci cr : Conn) (hi : ci.initiator = true) (hr : cr.initiator = false)
    (h1 : ci.peerSeed = cr.seed) (h2 : cr.peerSeed = ci.seed) (i r : Stream)
    (hs : sessionStreams P ci.seed cr.seed = .ok (i, r)) :
    (kdf P ci).phase = .done ∧ (kdf P cr).phase = .done ∧
    (kdf P ci).tx = i ∧ (kdf P cr).rx = i ∧ (kdf P cr).tx = r ∧ (kdf P ci).rx = r := by
  simp [kdf, hi, hr, h1, h2, hs]

/-- … and if the derivation fails on one side it fails on the other (same inputs) -/
theorem keys_agree_done_iff (P : Prims) (ci cr : Conn) (hi : ci.initiator = true) (hr : cr.initiator = false)
    (h1 : ci.peerSeed = cr.seed) (h2 : cr.peerSeed = ci.seed) :
    (kdf P ci).phase = (kdf P cr).phase := by
  simp only [kdf, hi, hr, h1, h2, ↓reduceIte, Bool.false_eq_true]
  cases sessionStreams P ci.seed cr.seed with
  | ok v => rfl
  | error s => cases s <;> rfl

/-! ### streams -/

/-- **Stream integrity, one direction.** `a` performs any sequence of `Write`s; the wire bytes reach
`b` in any segmentation (`q` is any queue of chunks with the same concatenation); `b` performs any
sequence of `Read`s with any buffer sizes. Then what was delivered, followed by the decryption of
what is still queued, is exactly what was written; once the queue is empty everything written has
been delivered, in order, and the two stream positions agree again. -/
theorem stream_roundtrip (P : Prims) (ks) (hL : P.sxor.Law ks) (a b : Conn) (hk : a.tx = b.rx)
    (ws : List Bytes) (q : Net) (hq : q.flatten = (writeAll P a ws).2.flatten)
    (outs : List Bytes) (b' : Conn) (q' : Net) (hr : Reads P b q outs b' q') :
    outs.flatten ++ xorAt (ks b.rx.key b.rx.iv) b'.rx.off q'.flatten = ws.flatten ∧
    (q' = [] → outs.flatten = ws.flatten ∧ (writeAll P a ws).1.tx = b'.rx) := by
  obtain ⟨w1, w2⟩ := writeAll_spec P hL a ws
  obtain ⟨r1, r2⟩ := reads_spec P hL hr
  rw [hq, w1, hk, xorAt_xorAt] at r1
  refine ⟨r1.symm, fun hq' => ?_⟩
  subst hq'
  simp only [List.flatten_nil, xorAt, List.append_nil] at r1
  refine ⟨r1.symm, ?_⟩
  rw [w2, r2, hk, ← r1]

/-- **End of stream: bytes returned together with an error are delivered.** The wire reaches `b`
as `q` followed by a final chunk `last` that the underlying conn hands out *in the same call as an
error* (`n > 0, err ≠ nil`, e.g. the last segment with `io.EOF`). After any `Read`s that drained
`q`, the `Read` that meets `last` returns its decryption along with the error: everything the peer
wrote has been delivered when the error is reported. -/
theorem tail_with_error_delivered (P : Prims) (ks) (hL : P.sxor.Law ks) (a b : Conn) (hk : a.tx = b.rx)
    (ws : List Bytes) (q : Net) (last : Bytes) (hq : q.flatten ++ last = (writeAll P a ws).2.flatten)
    (outs : List Bytes) (b' : Conn) (hr : Reads P b q outs b' []) :
    outs.flatten ++ (readLast P b' last).2 = ws.flatten := by
  obtain ⟨w1, _⟩ := writeAll_spec P hL a ws
  obtain ⟨r1, r2⟩ := reads_spec P hL hr
  simp only [List.flatten_nil, xorAt, List.append_nil] at r1
  have hlen : outs.flatten.length = q.flatten.length := by rw [← r1, xorAt_length]
  have h3 : (readLast P b' last).2 = xorAt (ks b.rx.key b.rx.iv) (b.rx.off + q.flatten.length) last := by
    simp only [readLast, Stream.xor]
    rw [hL, r2]
    simp [hlen]
  have h4 : ws.flatten = xorAt (ks b.rx.key b.rx.iv) b.rx.off (q.flatten ++ last) := by
    rw [hq, w1, hk, xorAt_xorAt]
  rw [h4, xorAt_append, h3, r1]

/-- **A timeout that consumed nothing changes nothing.** A `Read` that finds nothing on the wire
(and so ends in a read-deadline timeout) produces no new state: no keystream is consumed, the
connection behaves afterwards exactly as if the call had not been made — the stream theorems apply
unchanged to the reads that follow (an implementation that latches the timeout does not refine
this). -/
theorem timeout_consumes_nothing (P : Prims) (c : Conn) (max : Nat) :
    O4.Obfs2.read P c max [] = none := by
  simp [O4.Obfs2.read, Net.read]

/-- the wire carries exactly as many bytes as were written (no framing, no expansion) -/
theorem wire_length (P : Prims) (ks) (hL : P.sxor.Law ks) (a : Conn) (ws : List Bytes) :
    (writeAll P a ws).2.flatten.length = ws.flatten.length := by
  rw [(writeAll_spec P hL a ws).1, xorAt_length]

/-- **Both directions** after the key derivation of two endpoints that exchanged seeds. -/
theorem stream_roundtrip_both (P : Prims) (ks) (hL : P.sxor.Law ks) (ci cr : Conn)
    (hi : ci.initiator = true) (hr : cr.initiator = false)
    (h1 : ci.peerSeed = cr.seed) (h2 : cr.peerSeed = ci.seed) (i r : Stream)
    (hs : sessionStreams P ci.seed cr.seed = .ok (i, r))
    (ws : List Bytes) (q : Net) (outs : List Bytes) (q' : Net) :
    (∀ b', q.flatten = (writeAll P (kdf P ci) ws).2.flatten → Reads P (kdf P cr) q outs b' q' →
        q' = [] → outs.flatten = ws.flatten) ∧
    (∀ b', q.flatten = (writeAll P (kdf P cr) ws).2.flatten → Reads P (kdf P ci) q outs b' q' →
        q' = [] → outs.flatten = ws.flatten) := by
  obtain ⟨_, _, t1, t2, t3, t4⟩ := keys_agree P ci cr hi hr h1 h2 i r hs
  constructor
  · intro b' hq hrd he
    exact ((stream_roundtrip P ks hL _ _ (t1.trans t2.symm) ws q hq outs b' q' hrd).2 he).1
  · intro b' hq hrd he
    exact ((stream_roundtrip P ks hL _ _ (t3.trans t4.symm) ws q hq outs b' q' hrd).2 he).1

/-! ### header decision -/

/-- a header is rejected as "invalid magic value" iff its first four bytes are not the magic -/
theorem rejects_bad_magic (hdr : Bytes) :
    checkHeader hdr = .error .badMagic ↔ Bytes.toNatBE (hdr.take 4) ≠ magicValue := by
  unfold checkHeader
  by_cases h : Bytes.toNatBE (hdr.take 4) = magicValue
  · simp only [h, ne_eq, not_true_eq_false, ↓reduceIte]
    split <;> simp
  · simp [h]

/-- with the right magic, a header is rejected as "padlen too long" iff the length field is
`> maxPadding` (so `maxPadding` itself is accepted, `maxPadding + 1` is not) -/
theorem rejects_big_padlen (hdr : Bytes) (hm : Bytes.toNatBE (hdr.take 4) = magicValue) :
    checkHeader hdr = .error .padTooLong ↔ Bytes.toNatBE ((hdr.drop 4).take 4) > maxPadding := by
  unfold checkHeader
  simp only [hm, ne_eq, not_true_eq_false, ↓reduceIte]
  split <;> simp_all

/-- acceptance: right magic and `padLen ≤ maxPadding`; the accepted length is the length field -/
theorem accepts_iff (hdr : Bytes) (n : Nat) :
    checkHeader hdr = .ok n ↔
      Bytes.toNatBE (hdr.take 4) = magicValue ∧ n = Bytes.toNatBE ((hdr.drop 4).take 4) ∧ n ≤ maxPadding := by
  unfold checkHeader
  by_cases hm : Bytes.toNatBE (hdr.take 4) = magicValue
  · simp only [hm, ne_eq, not_true_eq_false, ↓reduceIte, true_and]
    split
    · simp; omega
    · simp only [Except.ok.injEq]
      constructor
      · rintro rfl; exact ⟨rfl, by omega⟩
      · rintro ⟨rfl, _⟩; rfl
  · simp [hm]

/-- the boundary, for the regenerated constant -/
theorem padlen_boundary :
    checkHeader (Bytes.ofNatBE 4 magicValue ++ Bytes.ofNatBE 4 maxPadding) = .ok maxPadding ∧
    checkHeader (Bytes.ofNatBE 4 magicValue ++ Bytes.ofNatBE 4 (maxPadding + 1)) = .error .padTooLong := by
  decide

/-! ### handshake under every segmentation -/

/-- **Handshake, any chunking.** The peer's bytes `seed ‖ E(header) ‖ padding ‖ rest` arrive in an
arbitrary segmentation `cs`, the handshake making progress after every arrival. If the header
decrypts to the magic and a length `padLen ≤ maxPadding` (`checkHeader … = ok padLen`) and `padLen`
bytes of padding follow, the endpoint ends in the state `kdf` computes from the two seeds, having
consumed exactly `seedLen + hsLen + padLen` bytes: `rest` — and nothing else — is left queued for
the stream layer. The stream cipher advanced over the 8 header bytes only. -/
theorem handshake_any_chunking (P : Prims) (c : Conn) (hc : c.phase = .seed)
    (seedP encHdr pad rest : Bytes) (rxs : Stream) (padLen : Nat)
    (hseed : seedP.length = seedLen) (hk : kdfStream P (padString (!c.initiator)) seedP = .ok rxs)
    (hhdr : encHdr.length = hsLen) (hchk : checkHeader (rxs.xor P.sxor encHdr).2 = .ok padLen)
    (hpad : pad.length = padLen)
    (cs : List Bytes) (hcs : cs.flatten = seedP ++ encHdr ++ pad ++ rest) :
    (feedAll P c [] cs).1 =
      kdf P { c with peerSeed := seedP, rx := (rxs.xor P.sxor encHdr).1, phase := .pad padLen, alloc := padLen } ∧
    (feedAll P c [] cs).2.flatten = rest := by
  have hr := runs_good P c hc seedP encHdr pad rest rxs padLen hseed hk hhdr hchk hpad
  rw [← hcs] at hr
  exact feedAll_eq P cs hr (hsStep_rank0 P (kdf_rank P _) _)

/-- **Data coalesced with the handshake is delivered, without further traffic.** The peer's whole
flight `seed ‖ E(header) ‖ padding ‖ rest` (`rest ≠ []` = its first ciphertext) reaches an endpoint
that still waits for the seed, in ONE segment or in any segmentation, and then the peer sends
nothing more. The three `ReadFull`s take exactly their bytes (they never over-read, nothing is
parked in a private buffer), `rest` stays on the socket as non-empty chunks; hence the first `Read`
does not block — it returns at least one byte — and for every sequence of `Read`s
`delivered ‖ decrypt(still queued) = decrypt(rest)`. -/
theorem coalesced_with_handshake (P : Prims) (ks) (hL : P.sxor.Law ks) (c : Conn) (hc : c.phase = .seed)
    (seedP encHdr pad rest : Bytes) (rxs : Stream) (padLen : Nat)
    (hseed : seedP.length = seedLen) (hk : kdfStream P (padString (!c.initiator)) seedP = .ok rxs)
    (hhdr : encHdr.length = hsLen) (hchk : checkHeader (rxs.xor P.sxor encHdr).2 = .ok padLen)
    (hpad : pad.length = padLen) (hrest : rest ≠ [])
    (cs : List Bytes) (hcs : cs.flatten = seedP ++ encHdr ++ pad ++ rest) :
    let c1 := (feedAll P c [] cs).1
    let q1 := (feedAll P c [] cs).2
    (∀ max, 0 < max → ∃ c' o q', read P c1 max q1 = some (c', o, q') ∧ o ≠ [] ∧ o.length ≤ max) ∧
    (∀ outs c' q', Reads P c1 q1 outs c' q' →
      outs.flatten ++ xorAt (ks c1.rx.key c1.rx.iv) c'.rx.off q'.flatten
        = xorAt (ks c1.rx.key c1.rx.iv) c1.rx.off rest) := by
  obtain ⟨_, h2⟩ := handshake_any_chunking P c hc seedP encHdr pad rest rxs padLen hseed hk hhdr hchk hpad cs hcs
  have hne := feedAll_nonempty P cs c [] (by simp)
  simp only
  constructor
  · intro max hmax
    have hq1 : (feedAll P c [] cs).2 ≠ [] := by
      intro h; rw [h] at h2; exact hrest (by simpa using h2.symm)
    unfold O4.Obfs2.read
    cases hr : Net.read max (feedAll P c [] cs).2 with
    | none => exact absurd (Net.read_eq_none.mp hr) hq1
    | some r =>
      obtain ⟨chunk, q'⟩ := r
      obtain ⟨hcn, _, _⟩ := Net.read_props hmax hne hr
      have hle := Net.read_length_le hr
      refine ⟨_, _, _, rfl, ?_, ?_⟩
      · show P.sxor _ _ _ chunk ≠ []
        rw [hL]
        intro h
        have := congrArg List.length h
        rw [xorAt_length] at this
        exact hcn (List.length_eq_zero_iff.mp this)
      · show (P.sxor _ _ _ chunk).length ≤ max
        rw [hL, xorAt_length]; exact hle
  · intro outs c' q' hr
    obtain ⟨r1, _⟩ := reads_spec P hL hr
    rw [h2] at r1
    exact r1.symm

/-- **Rejection, any chunking.** If the decrypted header is rejected (`badMagic` or `padTooLong`,
see `rejects_bad_magic` / `rejects_big_padlen`) the handshake fails with that error for every
segmentation, after consuming exactly `seedLen + hsLen` bytes, whatever follows. -/
theorem rejected_any_chunking (P : Prims) (c : Conn) (hc : c.phase = .seed)
    (seedP encHdr rest : Bytes) (rxs : Stream) (e : Err)
    (hseed : seedP.length = seedLen) (hk : kdfStream P (padString (!c.initiator)) seedP = .ok rxs)
    (hhdr : encHdr.length = hsLen) (hchk : checkHeader (rxs.xor P.sxor encHdr).2 = .error e)
    (cs : List Bytes) (hcs : cs.flatten = seedP ++ encHdr ++ rest) :
    (feedAll P c [] cs).1.phase = .failed e ∧ (feedAll P c [] cs).2.flatten = rest := by
  have hr := runs_bad P c hc seedP encHdr rest rxs e hseed hk hhdr hchk
  rw [← hcs] at hr
  obtain ⟨h1, h2⟩ := feedAll_eq P cs hr (hsStep_rank0 P (by simp [rank]) _)
  exact ⟨by rw [h1], h2⟩

/-- **The model interoperates with itself in both roles**, for all seeds, all paddings up to
`maxPadding`, every segmentation in each direction and any data following the handshake: both
endpoints finish, their streams agree crosswise, and exactly the trailing data is left queued. -/
theorem interop (P : Prims) (ks) (hL : P.sxor.Law ks) (hP : PrimsOk P)
    (si sr padi padr : Bytes) (hsi : si.length = seedLen) (hsr : sr.length = seedLen)
    (hpi : padi.length ≤ maxPadding) (hpr : padr.length ≤ maxPadding)
    (ci cr : Conn) (wi wr : List Bytes)
    (hi : startWith P true si padi.length padi = .ok (ci, wi))
    (hr : startWith P false sr padr.length padr = .ok (cr, wr))
    (resti restr : Bytes) (csi csr : List Bytes)
    (hcsi : csi.flatten = wr.flatten ++ resti) (hcsr : csr.flatten = wi.flatten ++ restr) :
    (feedAll P ci [] csi).1.phase = .done ∧ (feedAll P cr [] csr).1.phase = .done ∧
    (feedAll P ci [] csi).1.tx = (feedAll P cr [] csr).1.rx ∧
    (feedAll P cr [] csr).1.tx = (feedAll P ci [] csi).1.rx ∧
    (feedAll P ci [] csi).1.tx.off = 0 ∧ (feedAll P cr [] csr).1.tx.off = 0 ∧
    (feedAll P ci [] csi).2.flatten = resti ∧ (feedAll P cr [] csr).2.flatten = restr := by
  obtain ⟨pi, ii, sdi, _, rfl⟩ := startWith_facts hP hi
  obtain ⟨pr, ir, sdr, _, rfl⟩ := startWith_facts hP hr
  obtain ⟨ehr, epr, lhr, lpr, er, chr⟩ := blob_view hL ((mac P (padString false) sr).take keyLen)
    ((mac P (padString false) sr).drop keyLen) padr hpr
  obtain ⟨ehi, epi, lhi, lpi, ei, chi⟩ := blob_view hL ((mac P (padString true) si).take keyLen)
    ((mac P (padString true) si).drop keyLen) padi hpi
  -- initiator reads the responder's message, responder the initiator's
  have ki := kdfStream_ok hP (padString false) sr
  have kr := kdfStream_ok hP (padString true) si
  obtain ⟨Hi1, Hi2⟩ := handshake_any_chunking P ci pi sr ehr epr resti
    { key := (mac P (padString false) sr).take keyLen, iv := (mac P (padString false) sr).drop keyLen, off := 0 }
    padr.length hsr (by rw [ii]; exact ki) lhr chr lpr csi
    (by rw [hcsi]; simp only [List.flatten_cons, List.flatten_nil, List.append_nil]; rw [er]
        simp only [List.append_assoc])
  obtain ⟨Hr1, Hr2⟩ := handshake_any_chunking P cr pr si ehi epi restr
    { key := (mac P (padString true) si).take keyLen, iv := (mac P (padString true) si).drop keyLen, off := 0 }
    padi.length hsi (by rw [ir]; exact kr) lhi chi lpi csr
    (by rw [hcsr]; simp only [List.flatten_cons, List.flatten_nil, List.append_nil]; rw [ei]
        simp only [List.append_assoc])
  have hss : ∃ i r, sessionStreams P si sr = .ok (i, r) ∧ i.off = 0 ∧ r.off = 0 := by
    simp only [sessionStreams, kdfStream_ok hP, bind, Except.bind, pure, Except.pure]
    exact ⟨_, _, rfl, rfl, rfl⟩
  obtain ⟨i, r, hss, oi, or'⟩ := hss
  obtain ⟨k1, k2, k3, k4, k5, k6⟩ := keys_agree P
    { ci with peerSeed := sr, rx := _, phase := .pad padr.length, alloc := padr.length }
    { cr with peerSeed := si, rx := _, phase := .pad padi.length, alloc := padi.length }
    ii ir sdr.symm sdi.symm i r (by simp only [sdi, sdr]; exact hss)
  rw [Hi1, Hr1]
  refine ⟨k1, k2, k3.trans k4.symm, k5.trans k6.symm, ?_, ?_, Hi2, Hr2⟩
  · rw [k3]; exact oi
  · rw [k5]; exact or'

/-! ### C10: no panic, bounded allocation -/

/-- With primitives of the real sizes no `kdfStream` call panics … -/
private theorem hsStep_no_panic {P : Prims} (hP : PrimsOk P) {c c' : Conn} {b : Bytes} {n : Nat}
    (h : hsStep P c b = some (c', n)) : c'.phase ≠ .panicked := by
  unfold hsStep at h
  cases hp : c.phase with
  | seed =>
    simp only [hp, kdfStream_ok hP] at h
    split at h
    · cases h
    · cases h; simp
  | hdr =>
    simp only [hp] at h
    split at h
    · cases h
    · split at h <;> (cases h; simp)
  | pad k =>
    simp only [hp] at h
    split at h
    · cases h
    · cases h
      cases hi : c.initiator <;>
        simp [kdf, hi, sessionStreams, kdfStream_ok hP, bind, Except.bind, pure, Except.pure]
  | done => simp [hp] at h
  | failed e => simp [hp] at h
  | panicked => simp [hp] at h

private theorem progressN_no_panic {P : Prims} (hP : PrimsOk P) (k : Nat) (cq : Conn × Net)
    (h : cq.1.phase ≠ .panicked) : (progressN P k cq).1.phase ≠ .panicked := by
  induction k generalizing cq with
  | zero => exact h
  | succ k ih =>
    unfold progressN
    cases hs : hsStep P cq.1 cq.2.flatten with
    | none => exact h
    | some r => exact ih _ (hsStep_no_panic hP hs)

/-- **No panic**: starting the handshake and feeding *any* bytes in *any* segmentation never reaches
a Go run-time panic (the only candidates are `m[:keyLen]` and `cipher.NewCTR`'s IV check). -/
theorem no_panic_handshake (P : Prims) (hP : PrimsOk P) (initiator : Bool) (seed pad : Bytes) (padLen : Nat) :
    startWith P initiator seed padLen pad ≠ .error .panic ∧
    ∀ c w, startWith P initiator seed padLen pad = .ok (c, w) →
      ∀ cs : List Bytes, (feedAll P c [] cs).1.phase ≠ .panicked := by
  constructor
  · simp [startWith, kdfStream_ok hP, bind, Except.bind, pure, Except.pure]
  · intro c w hc cs
    have h0 : c.phase ≠ .panicked := by
      simp only [startWith, kdfStream_ok hP, bind, Except.bind, pure, Except.pure, Except.ok.injEq,
        Prod.mk.injEq] at hc
      obtain ⟨rfl, _⟩ := hc; simp
    have prog : ∀ (c : Conn) (q : Net), c.phase ≠ .panicked → (progress P c q).1.phase ≠ .panicked := by
      intro c q h
      exact progressN_no_panic hP 3 (c, q) h
    have all : ∀ (cs : List Bytes) (c : Conn) (q : Net), c.phase ≠ .panicked →
        (feedAll P c q cs).1.phase ≠ .panicked := by
      intro cs
      induction cs with
      | nil => intro c q h; exact prog c q h
      | cons ch cs ih => intro c q h; exact ih _ _ (prog c q h)
    exact all cs c [] h0

private theorem hsStep_alloc {P : Prims} {c c' : Conn} {b : Bytes} {n : Nat}
    (h : hsStep P c b = some (c', n)) (ha : c.alloc ≤ maxPadding) : c'.alloc ≤ maxPadding := by
  unfold hsStep at h
  cases hp : c.phase with
  | seed =>
    simp only [hp] at h
    split at h
    · cases h
    · split at h <;> (cases h; exact ha)
  | hdr =>
    simp only [hp] at h
    split at h
    · cases h
    · split at h
      · cases h; exact ha
      · rename_i padLen hok
        cases h
        exact ((accepts_iff _ _).mp hok).2.2
  | pad k =>
    simp only [hp] at h
    split at h
    · cases h
    · cases h
      unfold kdf
      split <;> exact ha
  | done => simp [hp] at h
  | failed e => simp [hp] at h
  | panicked => simp [hp] at h

/-- **Bounded buffer**: the only allocation whose size the peer controls (`tmp := make([]byte, padLen)`)
never exceeds `maxPadding`, for any input bytes and any segmentation; the other two receive buffers
have the fixed sizes `seedLen` and `hsLen`. -/
theorem buffer_bounded_handshake (P : Prims) (c : Conn) (h0 : c.alloc ≤ maxPadding) (q : Net)
    (cs : List Bytes) : (feedAll P c q cs).1.alloc ≤ maxPadding := by
  have pn : ∀ (k : Nat) (cq : Conn × Net), cq.1.alloc ≤ maxPadding → (progressN P k cq).1.alloc ≤ maxPadding := by
    intro k
    induction k with
    | zero => intro cq h; exact h
    | succ k ih =>
      intro cq h
      unfold progressN
      cases hs : hsStep P cq.1 cq.2.flatten with
      | none => exact h
      | some r => exact ih _ (hsStep_alloc hs h)
  have prog : ∀ (c : Conn) (q : Net), c.alloc ≤ maxPadding → (progress P c q).1.alloc ≤ maxPadding :=
    fun c q h => pn 3 (c, q) h
  induction cs generalizing c q with
  | nil => exact prog c q h0
  | cons ch cs ih => exact ih _ (prog c q h0) _

/-! ### non-vacuity: concrete instances meet the hypotheses -/

/-- a toy instantiation small enough for kernel evaluation -/
def toyP : Prims where
  hash x := (List.range 32).map fun i => UInt8.ofNat (i + x.length + (x.headD 0).toNat)
  sxor _ iv off d := xorAt (fun i => UInt8.ofNat (7 * i + (iv.headD 0).toNat)) off d
  keyOk k := k.length == 16
  ivOk iv := iv.length == 16

theorem toy_law : toyP.sxor.Law (fun _ iv i => UInt8.ofNat (7 * i + (iv.headD 0).toNat)) :=
  fun _ _ _ _ => rfl

theorem toy_primsOk : PrimsOk toyP where
  hashLen x := by simp [toyP]; decide
  keyOk x := by simp [toyP, List.length_take]; decide
  ivOk x := by simp [toyP, List.length_drop]; decide

def toySeedI : Bytes := (List.range 16).map UInt8.ofNat
def toySeedR : Bytes := (List.range 16).map fun i => UInt8.ofNat (100 + i)

def getOk (r : Except Stop (Conn × List Bytes)) : Conn × Bytes :=
  match r with
  | .ok (c, w) => (c, w.flatten)
  | .error _ => ({ initiator := false, seed := [], peerSeed := [], phase := .panicked, rx := noStream,
                   tx := noStream, alloc := 0 }, [])

/-- initiator with 3 bytes of padding, responder with none -/
def demoI := getOk (startWith toyP true toySeedI 3 [9, 8, 7])
def demoR := getOk (startWith toyP false toySeedR 0 [])
/-- the responder's message arrives as 5 + 15 bytes + (rest coalesced with 3 data bytes) -/
def demoFI := feedAll toyP demoI.1 [] [demoR.2.take 5, (demoR.2.drop 5).take 15, demoR.2.drop 20 ++ [1, 2, 3]]
/-- the initiator's message arrives split at the seed boundary, one byte before the end of the header … -/
def demoFR := feedAll toyP demoR.1 []
  [demoI.2.take 16, (demoI.2.drop 16).take 7, [(demoI.2.drop 23).headD 0], demoI.2.drop 24]

/-- `interop` / `handshake_any_chunking` / `stream_roundtrip` on a concrete instance -/
example :
    demoFI.1.phase = .done ∧ demoFR.1.phase = .done ∧ demoFI.1.tx = demoFR.1.rx ∧
    demoFR.1.tx = demoFI.1.rx ∧ demoFI.2.flatten = [1, 2, 3] ∧ demoFR.2.flatten = [] ∧
    ((read toyP demoFR.1 100 [(write toyP demoFI.1 [104, 105]).2]).map (·.2.1)) = some [104, 105] := by
  decide +kernel

/-- corrupted magic (bit 0 of header byte 0 flipped) is rejected on a concrete stream; an oversized
padding length (header bytes 4..7 flipped to a value > maxPadding) as well -/
example :
    (feedAll toyP demoI.1 []
      [demoR.2.take 16 ++ [(demoR.2.drop 16).headD 0 ^^^ 1], demoR.2.drop 17]).1.phase = .failed .badMagic ∧
    (feedAll toyP demoI.1 []
      [demoR.2.take 20, [(demoR.2.drop 20).headD 0 ^^^ 0x80], demoR.2.drop 21]).1.phase = .failed .padTooLong := by
  decide +kernel

example : checkHeader (Bytes.ofNatBE 4 magicValue ++ Bytes.ofNatBE 4 (maxPadding + 1)) = .error .padTooLong ∧
    checkHeader (Bytes.ofNatBE 4 (magicValue + 1) ++ Bytes.ofNatBE 4 0) = .error .badMagic := by
  decide


/-- **structural fact, regenerated from the Go source on every run (go/ast)**: every package-level
    variable (file-scope `var`) of the packages this property's mechanisms live in
    (transports/obfs2) is one of the names below — error values, fixed byte strings,
    flags and function hooks that the code only reads after initialisation.  The models treat all
    other state as owned by one connection / one object; a NEW package-level variable (a cache, a
    pool, a scratch buffer, a pre-keyed hash shared "to save allocations") is how such state comes
    to be shared between connections and goroutines, which compiles, passes the tests and typically
    needs true parallelism or a multi-connection history to misbehave.  Adding one breaks this
    theorem; the concurrent / multi-connection families of the harness then search for the failing
    schedule. -/
theorem no_new_package_level_state :
    O4.Facts.Obfs2.pkg_vars ⊆ [] := by
  decide

end C14
