import O4.Lemmas.Elligator
import O4.Lemmas.Prime25519
import O4.Generated.Consts.Ntor
import O4.Generated.Facts.Ntor
import O4.Generated.Facts.X25519ell2
/-!
# C07 — Elligator 2 key generation and decoding

Theorems about the executable model `O4.Crypto.Ell2` (a line-by-line transcription of
`internal/x25519ell2/x25519ell2.go` and of `elligator2.MontgomeryFlavor`, tied to the Go code by the
correspondence checks PRIMS2 and C07) and about the underlying algebra.

* `top_bits`, `top_bits_explicit` — decoding is total and ignores bits 254 and 255, for all strings.
* `encode_top_bits` — a generated representative is 32 bytes, its two top bits are the tweak's bits
  6–7 and its low 254 bits are a number `≤ (p−1)/2`.
* `code_map_eq_spec` — the decoding the code performs equals the textbook Elligator 2 map written
  independently from the formula, on all 32-byte strings.
* `roundtrip_core` (any field with 2 a non-square), `roundtrip`, `keygen_roundtrip` — decoding a
  generated representative gives back the public key, provided the public key is the abscissa of a
  curve point (hypothesis `hcurve`: the group law of the Edwards library is modelled, not verified).
* `fails_iff_nonsquare` — "no representative" ⇔ `−2u(u+A)` is not a non-zero square.
* `dh_clean`, `clamp_mul_eight` — a clamped scalar kills any 8-torsion component of the peer's point.
* `cosets` — the eight low-order points selected by the three low key bits are on the curve,
  8-torsion and pairwise distinct; the selection depends on those three bits only.

* `prime` — `p = 2^255 − 19` is prime (Pratt certificate, 22 Lucas steps, every modular power
  evaluated by the kernel), so the theorems that compute in the field `ZMod p` carry no hypothesis
  about `p`.
-/
namespace C07
open O4 O4.Crypto O4.Crypto.F25519 O4.Crypto.Ell2

/-- the lengths the Go package declares (regenerated from `common/ntor`) -/
theorem lengths :
    O4.Consts.Ntor.representativeLength = 32 ∧ O4.Consts.Ntor.publicKeyLength = 32 ∧
    O4.Consts.Ntor.privateKeyLength = 32 := by decide

/-! ## decoding ignores the two top bits -/

/-- **top_bits.** For all 32-byte strings: `Representative.ToPublic` depends only on the low 254 bits. -/
theorem top_bits (r s : Bytes) (hr : r.length = 32) (hs : s.length = 32)
    (h : Bytes.toNatLE r % 2 ^ 254 = Bytes.toNatLE s % 2 ^ 254) :
    representativeToPublic r = representativeToPublic s := by
  unfold representativeToPublic representativeToPublicKey
  simp only []
  rw [ofBytes_mask r hr, ofBytes_mask s hs, h]

/-- … in particular overwriting bits 254/255 with any two bits `t` changes nothing. -/
theorem top_bits_explicit (r : Bytes) (hr : r.length = 32) (t : UInt8) :
    representativeToPublic (r.set 31 ((r.getD 31 0 &&& 63) ||| (t &&& 0xc0))) = representativeToPublic r := by
  apply top_bits _ _ (by rw [List.length_set, hr]) hr
  rw [BytesLE.toNatLE_set_last r 31 hr, BytesLE.toNatLE_split r 31 hr]
  have hlo := BytesLE.toNatLE_take_lt r 31 (by omega)
  have hm : ((r.getD 31 0 &&& 63) ||| (t &&& 0xc0)).toNat % 64 = (r.getD 31 0).toNat % 64 := by
    rw [← BytesLE.and63, BytesLE.or_c0_and63, BytesLE.and63]
  have hc := UInt8.toNat_lt ((r.getD 31 0 &&& 63) ||| (t &&& 0xc0))
  have hc' := UInt8.toNat_lt (r.getD 31 0)
  generalize Bytes.toNatLE (List.take 31 r) = lo at *
  generalize ((r.getD 31 0 &&& 63) ||| (t &&& 0xc0)).toNat = c at *
  generalize (r.getD 31 0).toNat = b at *
  have e1 : (256 : Nat) ^ 31 = 2 ^ 248 := by norm_num
  rw [e1] at *
  omega

-- non-vacuity: two different strings that agree on the low 254 bits
example : ∃ r s : Bytes, r ≠ s ∧ r.length = 32 ∧ s.length = 32 ∧
    Bytes.toNatLE r % 2 ^ 254 = Bytes.toNatLE s % 2 ^ 254 :=
  ⟨List.replicate 32 0xff, List.replicate 31 0xff ++ [0x3f], by decide, by decide, by decide, by decide +kernel⟩

/-! ## encoding copies the two top bits from the tweak -/

/-- **encode_top_bits.** Whenever key generation returns a representative: it is 32 bytes (so is
the public key), bits 254–255 are bits 6–7 of the tweak, and the low 254 bits are a number
`≤ (p−1)/2` (the canonical sign). -/
theorem encode_top_bits (priv : Bytes) (tweak : UInt8) (pub repr : Bytes)
    (h : scalarBaseMultDirty priv tweak = some (pub, repr)) :
    pub.length = 32 ∧ repr.length = 32 ∧ repr.getD 31 0 &&& 0xc0 = tweak &&& 0xc0 ∧
    Bytes.toNatLE repr % 2 ^ 254 ≤ (p - 1) / 2 := by
  obtain ⟨u, -, hr, hpub⟩ := (scalarBaseMult_some priv tweak pub repr).mp h
  obtain ⟨hshape, -⟩ := uToRepresentative_shape u tweak repr hr
  obtain ⟨ht, -⟩ := tOf_sign u tweak
  obtain ⟨h1, h2, h3⟩ := encOf_spec (tOf u tweak) tweak ht
  rw [hpub, hshape]
  exact ⟨toBytes_length u, h1, h2, by rw [h3]; exact ht⟩

-- non-vacuity: a concrete key that has a representative
example : (scalarBaseMultDirty
    (Bytes.ofNatLE 32 0x2a2cb91da5fb77b12a99c0eb872f4cdf4566b25172c1163c7da518730a6d0703) 131).isSome = true := by
  decide +kernel

/-! ## the code's map is the textbook map -/

/-- **roundtrip (algebraic core).** In any field in which 2 is not a square: if `u` is the abscissa
of a curve point with `f(u) ≠ 0` and `r` solves either equation of the inverse map
(`r² = −u/(2(u+A))` for tweak bit 0 clear, `r² = −(u+A)/(2u)` for it set), the direct map sends `r` to `u`. -/
theorem roundtrip_core {F : Type*} [Field F] (A u r : F) (h2 : ¬ IsSquare (2 : F)) (hA : A ≠ 0)
    (hf : IsSquare (fF A u)) (hf0 : fF A u ≠ 0)
    (hr : r ^ 2 * (2 * (u + A)) = -u ∨ r ^ 2 * (2 * u) = -(u + A)) :
    specF A r = u :=
  Ell2.roundtrip_core A u r h2 hA hf hf0 hr

section field

/-- **prime.** `2^255 − 19` is prime. -/
theorem prime : Nat.Prime p := Pratt.prime_p

instance : Fact (Nat.Prime p) := ⟨prime⟩

/-- **code_map_eq_spec.** On every 32-byte string, `Representative.ToPublic` (mask to 254 bits, then the
Monocypher-style computation of `elligator2.MontgomeryFlavor`) equals the textbook Elligator 2 direct
map `w = −A/(1+2r²)`, `u = w` or `−w−A` by the Legendre symbol of `w³+Aw²+w`, computed independently. -/
theorem code_map_eq_spec (r : Bytes) (hr : r.length = 32) :
    representativeToPublic r = specRepresentativeToPublic r := by
  unfold representativeToPublic representativeToPublicKey specRepresentativeToPublic
  simp only []
  rw [montgomeryFlavor_fst, ofBytes_mask r hr, specMap_mod, List.take_of_length_le (by omega)]

/-- … and the model's textbook map is the field-level map `specF` over `ZMod p`. -/
theorem spec_is_field_map (r : Nat) : φ (specMap r) = specF AK (φ r) := φ_specMap r

/-! ## round trip -/

/-- **roundtrip (model).** For every field element `u` that is the abscissa of a curve point and
every tweak: if the inverse map returns a representative, decoding it returns `u`. -/
theorem roundtrip (u : Nat) (tweak : UInt8) (repr : Bytes)
    (h : uToRepresentative u tweak = some repr)
    (hcurve : IsSquare (fF AK (φ u))) :
    representativeToPublic repr = toBytes u := by
  obtain ⟨hnone, hsome⟩ := uToRepresentative_spec u tweak
  obtain ⟨hb0, hb1⟩ := hsome repr h
  obtain ⟨hshape, -⟩ := uToRepresentative_shape u tweak repr h
  obtain ⟨ht, -⟩ := tOf_sign u tweak
  obtain ⟨hlen, -, hlow⟩ := encOf_spec (tOf u tweak) tweak ht
  -- the inverse map did not fail, so x = −2u(u+A) ≠ 0, hence u ≠ 0
  have hx : -2 * φ u * (φ u + AK) ≠ 0 := by
    by_contra hx0
    have : uToRepresentative u tweak = none := hnone.mpr (fun hh => hh.1 hx0)
    rw [this] at h; exact absurd h (by simp)
  have hu0 : φ u ≠ 0 := by
    intro h0; apply hx; rw [h0]; ring
  -- decoding
  unfold representativeToPublic representativeToPublicKey
  simp only []
  rw [montgomeryFlavor_fst, ofBytes_mask repr (by rw [hshape]; exact hlen), hshape, hlow]
  have htp : tOf u tweak < p := lt_of_le_of_lt ht (by decide +kernel)
  rw [Nat.mod_eq_of_lt htp]
  have hfield : φ (specMap (tOf u tweak)) = φ (u % p) := by
    rw [φ_specMap, φ_mod]
    apply Ell2.roundtrip_core AK (φ u) _ two_nonsquare AK_ne_zero hcurve (fF_ne_zero hu0)
    by_cases hb : (tweak &&& 1).toNat = 1
    · exact Or.inr (hb1 hb)
    · exact Or.inl (hb0 hb)
  have : specMap (tOf u tweak) = u % p :=
    (φ_inj (specMap_lt _) (Nat.mod_lt _ p_pos)).mp hfield
  rw [this]; unfold toBytes; rw [Nat.mod_mod]

/-- **keygen_roundtrip.** For every private key and tweak: obfuscated key generation either reports
"no representative" (`none`) or returns `(pub, repr)` with `decode repr = pub` — under the hypothesis
that the Montgomery u-coordinate produced by the dirty scalar multiplication is on the curve. -/
theorem keygen_roundtrip (priv : Bytes) (tweak : UInt8) (pub repr : Bytes)
    (h : scalarBaseMultDirty priv tweak = some (pub, repr))
    (hcurve : ∀ u, scalarBaseMultDirtyU priv = some u → IsSquare (fF AK (φ u))) :
    representativeToPublic repr = pub := by
  obtain ⟨u, hu, hr, hpub⟩ := (scalarBaseMult_some priv tweak pub repr).mp h
  rw [hpub]
  exact roundtrip u tweak repr hr (hcurve u hu)

-- non-vacuity of `hcurve`: the u-coordinate generated from the key above is on the curve
-- (v² = u³ + A u² + u with the v given), and its inverse map succeeds
example : mul 12229605261120248188376768548353670479595999365267141000305006884973187663891
      12229605261120248188376768548353670479595999365267141000305006884973187663891
    = curveRhs 37798190743808980889747126080133558366390336491066452888667948741833624294903 ∧
    scalarBaseMultDirtyU (Bytes.ofNatLE 32 0x2a2cb91da5fb77b12a99c0eb872f4cdf4566b25172c1163c7da518730a6d0703)
      = some 37798190743808980889747126080133558366390336491066452888667948741833624294903 := by
  decide +kernel

/-! ## failure -/

/-- **fails_iff_nonsquare.** The inverse map reports "no representative" exactly when `−2u(u+A)`
is not a non-zero square of the field. -/
theorem fails_iff_nonsquare (u : Nat) (tweak : UInt8) :
    uToRepresentative u tweak = none ↔
      ¬ (-2 * φ u * (φ u + AK) ≠ 0 ∧ IsSquare (-2 * φ u * (φ u + AK))) :=
  (uToRepresentative_spec u tweak).1

end field

-- non-vacuity: both outcomes occur (u = 8, on the curve, has no representative; the generated u above has one)
example : uToRepresentative 8 0 = none ∧
    (uToRepresentative 37798190743808980889747126080133558366390336491066452888667948741833624294903 131).isSome = true := by
  decide +kernel

/-! ## Diffie–Hellman is unaffected by the low-order component -/

/-- **dh_clean.** In any commutative group: if `L` is 8-torsion and the scalar is a multiple of 8,
then `k • (P + L) = k • P`. -/
theorem dh_clean {G : Type*} [AddCommGroup G] (P L : G) (k : ℕ) (hL : 8 • L = 0) (hk : 8 ∣ k) :
    k • (P + L) = k • P := by
  obtain ⟨m, rfl⟩ := hk
  rw [smul_add, mul_comm, mul_smul m 8 L, hL, smul_zero, add_zero]

/-- every clamped X25519 scalar is a multiple of 8 (and has bit 254 set, bit 255 clear) -/
theorem clamp_mul_eight (s : Bytes) (hs : s.length = 32) :
    8 ∣ X25519.clampScalar s ∧ 2 ^ 254 ≤ X25519.clampScalar s ∧ X25519.clampScalar s < 2 ^ 255 := by
  unfold X25519.clampScalar
  simp only []
  rw [List.take_of_length_le (by omega)]
  obtain ⟨x, tl, rfl⟩ : ∃ x tl, s = x :: tl := by
    cases s with
    | nil => simp at hs
    | cons x tl => exact ⟨x, tl, rfl⟩
  have htl : tl.length = 31 := by simpa using hs
  rw [List.set_cons_zero, List.getD_cons_zero]
  have hlen : ((x &&& 248) :: tl).length = 30 + 1 + 1 := by simp [htl]
  rw [BytesLE.toNatLE_set_last _ 31 hlen]
  have h31 : List.take 31 ((x &&& 248) :: tl) = (x &&& 248) :: List.take 30 tl := by simp
  rw [h31, BytesLE.toNatLE_cons]
  have hlo := BytesLE.toNatLE_take_lt tl 30 (by omega)
  have hx : (x &&& 248).toNat % 8 = 0 := by
    rw [UInt8.toNat_and]
    have : ∀ n < 256, (n &&& 248) % 8 = 0 := by decide +kernel
    exact this _ (UInt8.toNat_lt x)
  have hx' := UInt8.toNat_lt (x &&& 248)
  have hy : ∀ y : UInt8, 64 ≤ ((y &&& 127) ||| 64).toNat ∧ ((y &&& 127) ||| 64).toNat < 128 := by
    intro y
    rw [UInt8.toNat_or, UInt8.toNat_and]
    have : ∀ n < 256, 64 ≤ ((n &&& 127) ||| 64) ∧ ((n &&& 127) ||| 64) < 128 := by decide +kernel
    exact this _ (UInt8.toNat_lt y)
  obtain ⟨hy1, hy2⟩ := hy (((x &&& 248) :: tl).getD 31 0)
  generalize Bytes.toNatLE (List.take 30 tl) = lo at *
  generalize (x &&& 248).toNat = a at *
  generalize ((((x &&& 248) :: tl).getD 31 0 &&& 127) ||| 64).toNat = b at *
  have e1 : (256 : Nat) ^ 31 = 2 ^ 248 := by norm_num
  have e2 : (256 : Nat) ^ 30 = 2 ^ 240 := by norm_num
  rw [e1]; rw [e2] at hlo
  omega

/-! ## the eight cosets -/

/-- **cosets.** The point added by `scalarBaseMultDirty` depends only on the three low bits of
`privateKey[0]`; the eight selected points lie on the curve, are 8-torsion and pairwise distinct
(as group elements), so the coset of the generated key is determined by, and varies with, those bits. -/
theorem cosets :
    (∀ n < 256, lowOrderPoint (UInt8.ofNat n) = lowOrderPoint (UInt8.ofNat (n % 8))) ∧
    (∀ c < 8, Ed.isOnCurve (lowOrderTable.getD c Ed.identity) = true ∧
      Ed.eq (Ed.scalarMul 8 (lowOrderTable.getD c Ed.identity)) Ed.identity = true) ∧
    (∀ c < 8, ∀ c' < 8, c ≠ c' →
      Ed.eq (lowOrderTable.getD c Ed.identity) (lowOrderTable.getD c' Ed.identity) = false) := by
  refine ⟨by decide +kernel, by decide +kernel, by decide +kernel⟩


/-- **structural fact, regenerated from the Go source on every run (go/ast)**: every package-level
    variable (file-scope `var`) of the packages this property's mechanisms live in
    (common/ntor, internal/x25519ell2) is one of the names below — error values, fixed byte strings,
    flags and function hooks that the code only reads after initialisation.  The models treat all
    other state as owned by one connection / one object; a NEW package-level variable (a cache, a
    pool, a scratch buffer, a pre-keyed hash shared "to save allocations") is how such state comes
    to be shared between connections and goroutines, which compiles, passes the tests and typically
    needs true parallelism or a multi-connection history to misbehave.  Adding one breaks this
    theorem; the concurrent / multi-connection families of the harness then search for the failing
    schedule. -/
theorem no_new_package_level_state :
    O4.Facts.Ntor.pkg_vars ⊆ ["mExpand", "protoID", "tKey", "tMac", "tVerify"] ∧
    O4.Facts.X25519ell2.pkg_vars ⊆ ["feA", "feLopX", "feLopY", "feNegTwo", "feOne", "feSqrtM1"] := by
  decide

end C07
