import O4.Lemmas.LogElide
/-!
# C20 — safe logging never reveals peer addresses or host names

Property theorems only.  Model: `O4/Model/LogElide.lean` (`elideErrorFixed` = `log.ElideError` of
the repaired tree, `elideErrorPreFix` = the code before the repair of defect F6, `elideAddr` =
`log.ElideAddr`; the first argument of each is the `unsafeLogging` switch).  The statements are
*non-interference* statements ("the text does not depend on the address fields") rather than
substring tests: a host named `s` is a substring of `[scrubbed]`.
-/
set_option linter.unusedSimpArgs false
namespace C20
open O4 O4.LogElide

/-! ## errors -/

/-- **With scrubbing enabled, the text logged for an error does not depend on any address-bearing
    field**: for all error values `e`, `e'` of the standard network error types, nested to any
    depth, that are equal up to `AddrError.Addr`, `DNSError.Name/Server`, the strings of
    `InvalidAddrError`/`UnknownNetworkError`, `OpError.Source/Addr` (nil or not), `url.Error.URL`
    and the text of unknown `net.Error` types — `ElideError e = ElideError e'`. -/
theorem error_noninterference (e e' : Err) (h : SameShape e e') :
    elideErrorFixed false e = elideErrorFixed false e' := by
  simp only [elideErrorFixed, elideError, Bool.false_eq_true, ↓reduceIte]
  exact walk_sameShape h e e' [] [] (by simp) (by simp)

/-- non-vacuity (and the F6 shape): a failed lookup inside a dial error, two different hosts -/
example :
    SameShape
      (.opError (asc "dial") (asc "tcp") none none
        (.dnsError (asc "no such host") (asc "secret.example.com") (asc "10.1.2.3:53")))
      (.opError (asc "dial") (asc "tcp") none (some (asc "192.0.2.77:443"))
        (.dnsError (asc "no such host") (asc "other.example.org") [])) :=
  .opError _ _ _ _ _ _ _ _ (.dnsError ..)

example :
    elideErrorFixed false (.opError (asc "dial") (asc "tcp") none none
        (.dnsError (asc "no such host") (asc "secret.example.com") (asc "10.1.2.3:53")))
      = asc "dial: lookup [scrubbed] on [scrubbed]: no such host" := by decide

/-- the usual dial failure keeps its cause words (`connect: connection refused`) -/
example :
    elideErrorFixed false (.opError (asc "dial") (asc "tcp") none (some (asc "192.0.2.77:443"))
        (.syscallError (asc "connect") (.errno (asc "connection refused"))))
      = asc "dial: connect: connection refused" := by decide

/-- **Defect F6, kernel-checked on the model of the unrepaired code**: there are two errors that
    differ only in address fields (the looked-up name and the DNS server inside a dial error)
    which the code before the repair logged differently — the text contained the host name. -/
theorem prefix_leaks_through_OpError :
    ∃ e e' : Err, SameShape e e' ∧ elideErrorPreFix false e ≠ elideErrorPreFix false e' :=
  ⟨.opError (asc "dial") (asc "tcp") none none
      (.dnsError (asc "no such host") (asc "secret.example.com") (asc "10.1.2.3:53")),
   .opError (asc "dial") (asc "tcp") none none
      (.dnsError (asc "no such host") (asc "other.example.org") (asc "198.51.100.9:53")),
   .opError _ _ _ _ _ _ _ _ (.dnsError ..), by decide⟩

/-- the concrete text of the leak -/
theorem prefix_leak_text :
    elideErrorPreFix false (.opError (asc "dial") (asc "tcp") none none
        (.dnsError (asc "no such host") (asc "secret.example.com") (asc "10.1.2.3:53")))
      = asc "dial: lookup secret.example.com on 10.1.2.3:53: no such host" := by decide

/-! ## addresses -/

/-- **`ElideAddr a` depends only on whether `a` splits as host:port and on the port.** -/
theorem addr_noninterference (a a' : Bytes)
    (h : (splitHostPort a).map (·.2) = (splitHostPort a').map (·.2)) :
    elideAddr false a = elideAddr false a' := by
  unfold elideAddr
  cases h1 : splitHostPort a with
  | none =>
    cases h2 : splitHostPort a' with
    | none => rfl
    | some hp' => rw [h1, h2] at h; cases h
  | some hp =>
    cases h2 : splitHostPort a' with
    | none => rw [h1, h2] at h; cases h
    | some hp' =>
      rw [h1, h2] at h
      simp only [Option.map_some, Option.some.injEq] at h
      simp [h]

example : (splitHostPort (asc "bridge.example.net:443")).map (·.2)
    = (splitHostPort (asc "[2001:db8::1]:443")).map (·.2) := by decide
example : (splitHostPort (asc "no-port.example.net")).map (·.2) = (splitHostPort (asc "2001:db8::1")).map (·.2) := by
  decide

/-- the part that remains is exactly what follows the last colon, and contains no colon itself:
    the output is `[scrubbed]` or `[scrubbed]:` followed by that suffix -/
theorem addr_output_shape (a : Bytes) :
    elideAddr false a = elided ∨
    ∃ pre port, a = pre ++ [COLON] ++ port ∧ COLON ∉ port ∧
      elideAddr false a = elided ++ asc ":" ++ port := by
  unfold elideAddr
  cases h : splitHostPort a with
  | none => left; rfl
  | some hp =>
    right
    obtain ⟨host, port⟩ := hp
    obtain ⟨pre, h1, h2⟩ := splitHostPort_port h
    exact ⟨pre, port, h1, h2, rfl⟩

/-- **the host of a well-formed `host:port` is irrelevant** (hosts and port free of `:`, `[`, `]`) -/
theorem addr_host_irrelevant (h h' p : Bytes)
    (hh : COLON ∉ h ∧ LBR ∉ h ∧ RBR ∉ h) (hh' : COLON ∉ h' ∧ LBR ∉ h' ∧ RBR ∉ h')
    (hp : COLON ∉ p ∧ LBR ∉ p ∧ RBR ∉ p) :
    elideAddr false (h ++ COLON :: p) = elideAddr false (h' ++ COLON :: p) ∧
    elideAddr false (h ++ COLON :: p) = elided ++ asc ":" ++ p := by
  have e1 := splitHostPort_plain h p hh hp
  have e2 := splitHostPort_plain h' p hh' hp
  unfold elideAddr
  simp only [Bool.false_eq_true, ↓reduceIte]
  rw [e1, e2]
  exact ⟨rfl, rfl⟩

example : (COLON ∉ asc "bridge.example.net" ∧ LBR ∉ asc "bridge.example.net" ∧ RBR ∉ asc "bridge.example.net") ∧
    (COLON ∉ asc "9001" ∧ LBR ∉ asc "9001" ∧ RBR ∉ asc "9001") := by decide

/-- … and so is the host of a bracketed `[host]:port` (IPv6 literals: colons allowed inside) -/
theorem addr_bracket_host_irrelevant (h h' p : Bytes)
    (hh : LBR ∉ h ∧ RBR ∉ h) (hh' : LBR ∉ h' ∧ RBR ∉ h') (hp : COLON ∉ p ∧ LBR ∉ p ∧ RBR ∉ p) :
    elideAddr false (LBR :: h ++ RBR :: COLON :: p) = elideAddr false (LBR :: h' ++ RBR :: COLON :: p) ∧
    elideAddr false (LBR :: h ++ RBR :: COLON :: p) = elided ++ asc ":" ++ p := by
  have e1 := splitHostPort_bracket h p hh hp
  have e2 := splitHostPort_bracket h' p hh' hp
  unfold elideAddr
  simp only [Bool.false_eq_true, ↓reduceIte]
  rw [e1, e2]
  exact ⟨rfl, rfl⟩

example : elideAddr false (asc "[2001:db8::1]:443") = asc "[scrubbed]:443" := by decide
example : elideAddr false (asc "bridge.example.net:9001") = asc "[scrubbed]:9001" := by decide
example : elideAddr false (asc "2001:db8::1") = asc "[scrubbed]" := by decide
example : splitHostPort (asc "[::1]:80") = some (asc "::1", asc "80") := by decide

/-! ## unsafe logging -/

/-- **With unsafe logging the text is unchanged** (for the repaired and the unrepaired code). -/
theorem unsafe_identity (fixed : Bool) (e : Err) (a : Bytes) :
    elideError fixed true e = e.error ∧ elideAddr true a = a := by
  simp [elideError, elideAddr]

example : elideErrorFixed true (.addrError (asc "missing port in address") (asc "192.0.2.77"))
    = asc "address 192.0.2.77: missing port in address" := by decide

end C20
