import O4.Model.LogElide
namespace C20
open O4 O4.LogElide
theorem placeholder : (1:Nat) = 1 := rfl
end C20
