import O4.Lemmas.ReplayFilter
import O4.Generated.Consts.Replayfilter
import O4.Generated.Facts.Replayfilter
import O4.Generated.Facts.Obfs4
/-!
# C11 — the replay filter behaves as a bounded, expiring set for every history

Property theorems only (helper lemmas: `O4/Lemmas/ReplayFilter.lean`; model:
`O4/Model/ReplayFilter.lean`).  The capacity is the constant regenerated from the Go tree.
-/
namespace C11
open O4 O4.RF

/-- Specification: remember every *insertion* forever; a value is "seen" iff some insertion of
    it is younger than `ttl`; a hit does not insert (and hence does not refresh). -/
def specRun (ttl : Int) : List Entry → List (Int × Nat) → List Bool
  | _, [] => []
  | S, (now, d) :: rest =>
    if S.any (fun e => e.d == d && decide (now - e.t < ttl)) then true :: specRun ttl S rest
    else false :: specRun ttl (S ++ [⟨d, now⟩]) rest

/-- timestamps never decrease along the history -/
def Monotone (h : List (Int × Nat)) : Prop := h.Pairwise (fun a b => a.1 ≤ b.1)

/-- the states reachable from an empty filter -/
def Reachable (ttl : Int) (cap : Nat) (f : Filter) : Prop :=
  ∃ h : List (Int × Nat), f = ((Filter.new ttl cap).run h).1

private theorem run_inv (f : Filter) (h : List (Int × Nat)) (hc : 0 < f.cap)
    (hl : f.fifo.length ≤ f.cap) (hd : Distinct f.fifo) :
    (f.run h).1.fifo.length ≤ f.cap ∧ Distinct (f.run h).1.fifo ∧ (f.run h).1.cap = f.cap := by
  induction h generalizing f with
  | nil => exact ⟨hl, hd, rfl⟩
  | cons op rest ih =>
    obtain ⟨now, d⟩ := op
    obtain ⟨h1, h2, _⟩ := testAndSet_cap f now d hc hl
    have h3 := testAndSet_distinct f now d hd
    have := ih (f.testAndSet now d).1 (by rw [h2]; exact hc) (by rw [h2]; exact h1) h3
    simp only [Filter.run]
    rw [h2] at this
    exact this

/-- **never more than its capacity, for every history** (any time steps, including
    negative ones; any values), with pairwise distinct remembered digests. -/
theorem inv (ttl : Int) (cap : Nat) (hc : 0 < cap) (f : Filter) (hr : Reachable ttl cap f) :
    f.fifo.length ≤ cap ∧ Distinct f.fifo := by
  obtain ⟨h, rfl⟩ := hr
  have := run_inv (Filter.new ttl cap) h hc (by simp [Filter.new]) (by simp [Filter.new, Distinct])
  exact ⟨this.1, this.2.1⟩

/-- the deployed capacity -/
theorem never_exceeds_cap (ttl : Int) (h : List (Int × Nat)) :
    ((Filter.new ttl Consts.Replayfilter.maxFilterSize).run h).1.fifo.length
      ≤ Consts.Replayfilter.maxFilterSize :=
  (inv ttl _ (by decide) _ ⟨h, rfl⟩).1

private theorem filter_filter_mono (S : List Entry) (ttl tprev now : Int) (h : tprev ≤ now) :
    (S.filter (fun e => decide (tprev - e.t < ttl))).filter (fun e => decide (now - e.t < ttl))
      = S.filter (fun e => decide (now - e.t < ttl)) := by
  rw [List.filter_filter]
  apply List.filter_congr
  intro e _
  by_cases h1 : now - e.t < ttl
  · have : tprev - e.t < ttl := by omega
    simp [h1, this]
  · simp [h1]

private theorem run_refines (ttl : Int) (cap : Nat) (httl : 0 < ttl) (S : List Entry) (tprev : Int)
    (h : List (Int × Nat))
    (hS : Sorted S) (hSt : ∀ e ∈ S, e.t ≤ tprev) (hm : Monotone h) (hge : ∀ op ∈ h, tprev ≤ op.1)
    (hlen : S.length + h.length < cap) :
    ((⟨ttl, cap, S.filter (fun e => decide (tprev - e.t < ttl))⟩ : Filter).run h).2 = specRun ttl S h := by
  induction h generalizing S tprev with
  | nil => rfl
  | cons op rest ih =>
    obtain ⟨now, d⟩ := op
    have hnow : tprev ≤ now := hge (now, d) (by simp)
    have hm' : Monotone rest := (List.pairwise_cons.mp hm).2
    have hge' : ∀ op ∈ rest, now ≤ op.1 := fun op ho => (List.pairwise_cons.mp hm).1 op ho
    let f : Filter := ⟨ttl, cap, S.filter (fun e => decide (tprev - e.t < ttl))⟩
    have hsorted : Sorted f.fifo := List.Pairwise.sublist List.filter_sublist hS
    have hle : ∀ e ∈ f.fifo, e.t ≤ now := fun e he => by
      have := hSt e (List.mem_filter.mp he).1; omega
    have hl : f.fifo.length < f.cap := by
      have := List.length_filter_le (fun e => decide (tprev - e.t < ttl)) S
      simp only [f, List.length_cons] at *; omega
    have href := testAndSet_refines f now d hsorted hle hl httl
    simp only [specStep, f, filter_filter_mono S ttl tprev now hnow] at href
    have hany : (S.filter (fun e => decide (now - e.t < ttl))).any (fun e => e.d == d)
        = S.any (fun e => e.d == d && decide (now - e.t < ttl)) := by
      rw [List.any_filter]; congr; funext e; exact Bool.and_comm _ _
    simp only [Filter.run, specRun]
    by_cases hit : S.any (fun e => e.d == d && decide (now - e.t < ttl)) = true
    · rw [if_pos hit]
      rw [hany, if_pos hit] at href
      have h1 := congrArg Prod.fst href; have h2 := congrArg Prod.snd href
      simp only at h1 h2
      have hcap : (Filter.testAndSet f now d).1.cap = cap := (testAndSet_cap f now d (by simp only [f]; omega) (by omega)).2.1
      have httl' : (Filter.testAndSet f now d).1.ttl = ttl := (testAndSet_cap f now d (by simp only [f]; omega) (by omega)).2.2
      have hf : (Filter.testAndSet f now d).1 = ⟨ttl, cap, S.filter (fun e => decide (now - e.t < ttl))⟩ := by
        cases hx : (Filter.testAndSet f now d).1 with
        | mk a b c => rw [hx] at hcap httl' h1; simp only at hcap httl' h1; subst hcap httl' h1; rfl
      show (Filter.testAndSet f now d).2 :: _ = _
      rw [h2, hf]
      congr 1
      exact ih S now hS (fun e he => by have := hSt e he; omega) hm' hge' (by simp at hlen; omega)
    · rw [if_neg hit]
      rw [hany, if_neg hit] at href
      have h1 := congrArg Prod.fst href; have h2 := congrArg Prod.snd href
      simp only at h1 h2
      have hcap : (Filter.testAndSet f now d).1.cap = cap := (testAndSet_cap f now d (by simp only [f]; omega) (by omega)).2.1
      have httl' : (Filter.testAndSet f now d).1.ttl = ttl := (testAndSet_cap f now d (by simp only [f]; omega) (by omega)).2.2
      have hfilt : (S ++ [Entry.mk d now]).filter (fun e => decide (now - e.t < ttl))
          = S.filter (fun e => decide (now - e.t < ttl)) ++ [Entry.mk d now] := by
        rw [List.filter_append]; congr 1
        simp [httl]
      have hf : (Filter.testAndSet f now d).1 = ⟨ttl, cap, (S ++ [Entry.mk d now]).filter (fun e => decide (now - e.t < ttl))⟩ := by
        cases hx : (Filter.testAndSet f now d).1 with
        | mk a b c => rw [hx] at hcap httl' h1; simp only at hcap httl' h1; subst hcap httl' h1; rw [hfilt]
      show (Filter.testAndSet f now d).2 :: _ = _
      rw [h2, hf]
      congr 1
      refine ih (S ++ [Entry.mk d now]) now ?_ ?_ hm' hge' (by simp at hlen ⊢; omega)
      · simp only [Sorted, List.pairwise_append, List.pairwise_cons, List.Pairwise.nil]
        refine ⟨hS, ⟨by simp, trivial⟩, ?_⟩
        intro a ha b hb; simp at hb; subst hb; have := hSt a ha; simp; omega
      · intro e he; simp at he; rcases he with he | rfl
        · have := hSt e he; omega
        · simp

/-- **TTL exactness for every history** with a monotone clock that stays below capacity:
    the filter's answers are exactly those of the specification "seen iff an insertion of the
    value is younger than `ttl`" (a hit neither inserts nor refreshes). -/
theorem exact_ttl (ttl : Int) (cap : Nat) (httl : 0 < ttl) (h : List (Int × Nat))
    (hm : Monotone h) (hlen : h.length < cap) :
    ((Filter.new ttl cap).run h).2 = specRun ttl [] h := by
  match h with
  | [] => rfl
  | op :: rest =>
    have := run_refines ttl cap httl [] op.1 (op :: rest) (by simp [Sorted]) (by simp) hm
      (by intro o ho; simp at ho; rcases ho with rfl | ho
          · exact Int.le_refl _
          · exact (List.pairwise_cons.mp hm).1 o ho) (by simpa using hlen)
    simpa [Filter.new] using this

/-- **forgets afterwards**: a value inserted at `t` and submitted again at `t' ≥ t` is "seen"
    exactly when `t' - t < ttl`. -/
theorem forgets (ttl : Int) (cap : Nat) (httl : 0 < ttl) (hc : 2 < cap) (t t' : Int) (d : Nat)
    (ht : t ≤ t') :
    ((Filter.new ttl cap).run [(t, d), (t', d)]).2 = [false, decide (t' - t < ttl)] := by
  rw [exact_ttl ttl cap httl _ (by simp [Monotone, ht]) (by simpa using hc)]
  by_cases h : t' - t < ttl <;> simp [specRun, h]

/-- **evicts oldest-first when full**: at capacity, with every remembered entry still within
    its TTL, a new value pushes out exactly the front (oldest) entry. -/
theorem evicts_oldest (f : Filter) (e : Entry) (rest : List Entry) (now : Int) (d : Nat)
    (hf : f.fifo = e :: rest) (hfull : f.fifo.length = f.cap) (httl : 0 < f.ttl)
    (hs : Sorted f.fifo) (hyoung : ∀ x ∈ f.fifo, x.t ≤ now ∧ now - x.t < f.ttl)
    (hnew : ∀ x ∈ f.fifo, x.d ≠ d) :
    f.testAndSet now d = ({ f with fifo := rest ++ [⟨d, now⟩] }, false) := by
  have hrest : compactList f.ttl f.cap now rest = rest := by
    rw [compactList_eq_filter f.ttl f.cap now rest (by rw [hf] at hs; exact (List.pairwise_cons.mp hs).2)
      (fun x hx => (hyoung x (by rw [hf]; simp [hx])).1) (by rw [hf] at hfull; simp at hfull; omega) httl]
    rw [List.filter_eq_self]
    intro a ha; simpa using (hyoung a (by rw [hf]; simp [ha])).2
  have hcomp : compactList f.ttl f.cap now f.fifo = rest := by
    rw [hf]; unfold compactList
    rw [if_neg (by rw [hf] at hfull; omega)]; exact hrest
  unfold Filter.testAndSet Filter.compact
  simp only [hcomp]
  rw [if_neg]
  simp only [List.any_eq_true, not_exists, not_and, beq_iff_eq]
  intro x hx; exact hnew x (by rw [hf]; simp [hx])

/-- **discards everything when the clock jumps backwards** (behind the oldest remembered
    insertion): only the new value remains. -/
theorem backwards_reset (f : Filter) (e : Entry) (rest : List Entry) (now : Int) (d : Nat)
    (hf : f.fifo = e :: rest) (hroom : f.fifo.length < f.cap) (httl : 0 < f.ttl)
    (hback : now < e.t) :
    f.testAndSet now d = ({ f with fifo := [⟨d, now⟩] }, false) := by
  have hcomp : compactList f.ttl f.cap now f.fifo = [] := by
    rw [hf]; unfold compactList
    rw [if_pos ⟨by rw [hf] at hroom; exact hroom, httl⟩]
    simp only; rw [if_pos (by omega)]
  unfold Filter.testAndSet Filter.compact
  simp [hcomp]

/-- the reading of "jumps backwards" the code implements: a backward step that stays at or
    after the *oldest* entry's insertion time does not reset (stated so the choice is visible). -/
theorem small_backstep_keeps (f : Filter) (e : Entry) (rest : List Entry) (now : Int)
    (hf : f.fifo = e :: rest) (hroom : f.fifo.length < f.cap) (httl : 0 < f.ttl)
    (h1 : e.t ≤ now) (h2 : now - e.t < f.ttl) :
    (f.compact now).fifo = f.fifo := by
  unfold Filter.compact; simp only; rw [hf]; unfold compactList
  rw [if_pos ⟨by rw [hf] at hroom; exact hroom, httl⟩]
  simp only; rw [if_neg (by omega), if_pos h2]

/-- **test-and-set**: of `k+1` submissions of one value at one instant (below capacity,
    clock not behind the remembered entries) exactly the first gets the filter's verdict and
    all later ones are told "seen"; in particular exactly one is told "new" when the value was
    new.  (Atomicity of a single `TestAndSet` against other goroutines is the mutex held for
    the whole call — a structural fact of the Go source, not a theorem about goroutines.) -/
theorem tas_atomic (f : Filter) (now : Int) (d : Nat) (k : Nat)
    (hs : Sorted f.fifo) (hnow : ∀ e ∈ f.fifo, e.t ≤ now) (hl : f.fifo.length + 1 < f.cap)
    (httl : 0 < f.ttl) :
    (f.run (List.replicate (k + 1) (now, d))).2
      = (f.testAndSet now d).2 :: List.replicate k true := by
  -- the state after the first submission is stable under further submissions
  have key : ∀ (g : Filter), Sorted g.fifo → (∀ e ∈ g.fifo, e.t ≤ now ∧ now - e.t < g.ttl) →
      g.fifo.length < g.cap → 0 < g.ttl → g.fifo.any (fun e => e.d == d) = true →
      ∀ k, (g.run (List.replicate k (now, d))).2 = List.replicate k true := by
    intro g gs gy gl gt gany k
    induction k with
    | zero => rfl
    | succ k ih =>
      have hc : compactList g.ttl g.cap now g.fifo = g.fifo := by
        rw [compactList_eq_filter g.ttl g.cap now g.fifo gs (fun e he => (gy e he).1) gl gt]
        rw [List.filter_eq_self]; intro a ha; simpa using (gy a ha).2
      have : g.testAndSet now d = (g, true) := by
        unfold Filter.testAndSet Filter.compact; simp only [hc]; rw [if_pos gany]
      simp only [List.replicate_succ, Filter.run, this]
      rw [ih]
  have href := testAndSet_refines f now d hs hnow (by omega) httl
  have hcap := testAndSet_cap f now d (by omega) (by omega)
  simp only [List.replicate_succ, Filter.run]
  congr 1
  apply key
  · -- sorted
    have h1 := congrArg Prod.fst href; simp only [specStep] at h1
    rw [h1]
    have hfs : Sorted (f.fifo.filter (fun e => decide (now - e.t < f.ttl))) :=
      List.Pairwise.sublist List.filter_sublist hs
    split
    · exact hfs
    · simp only [Sorted, List.pairwise_append, List.pairwise_cons, List.Pairwise.nil]
      refine ⟨hfs, ⟨by simp, trivial⟩, ?_⟩
      intro a ha b hb; simp at hb; subst hb
      exact hnow a (List.mem_filter.mp ha).1
  · intro e he
    have h1 := congrArg Prod.fst href; simp only [specStep] at h1
    rw [h1] at he; rw [hcap.2.2]
    split at he
    · have := List.mem_filter.mp he; exact ⟨hnow e this.1, by simpa using this.2⟩
    · rcases List.mem_append.mp he with he | he
      · have := List.mem_filter.mp he; exact ⟨hnow e this.1, by simpa using this.2⟩
      · simp at he; subst he; simp; omega
  · have h1 := congrArg Prod.fst href; simp only [specStep] at h1
    rw [h1, hcap.2.1]
    have := List.length_filter_le (fun e => decide (now - e.t < f.ttl)) f.fifo
    split <;> simp <;> omega
  · rw [hcap.2.2]; exact httl
  · have h1 := congrArg Prod.fst href; simp only [specStep] at h1
    rw [h1]
    split
    · assumption
    · simp

/-- **structural fact, regenerated from the Go source on every run (go/ast)**: `TestAndSet`
    takes the filter's mutex with `Lock(); defer Unlock()` (no other `Unlock`), touches only the
    immutable SipHash key before that, and everything `compactFilter`/`reset` touch is covered by
    it.  Together with `tas_atomic` (the sequential behaviour) this is what linearizability of
    concurrent submissions rests on; goroutine scheduling itself is outside the theorem. -/
theorem tas_runs_under_mutex :
    Facts.Replayfilter.ReplayFilter_TestAndSet_locked = true ∧
    Facts.Replayfilter.ReplayFilter_TestAndSet_prelock ⊆ ["key"] ∧
    Facts.Replayfilter.ReplayFilter_compactFilter_fields ⊆ Facts.Replayfilter.ReplayFilter_TestAndSet_fields ∧
    Facts.Replayfilter.ReplayFilter_reset_fields ⊆ Facts.Replayfilter.ReplayFilter_TestAndSet_fields := by
  decide

/-- **structural facts, regenerated from the Go source on every run (go/ast)**: callers that
    submit "at the current time" go through `TestAndSetNow`, which takes the same mutex bracket
    as `TestAndSet`, touches only the immutable SipHash key and calls only `siphash.Hash` before
    the lock, reads the clock (`time.Now`) **after** the lock is taken and then runs the very same
    `testAndSet` — so the times the filter sees are in lock order and the linearization of
    simultaneous wall-clock submissions is the sequential behaviour of `tas_atomic` on a monotone
    clock (no spurious "clock went backwards" reset between two racing callers).  The filter's
    only production caller, the obfs4 server's `parseClientHandshake`, submits through
    `TestAndSetNow` and never through `TestAndSet` with a clock reading of its own. -/
theorem wall_clock_submissions_in_lock_order :
    Facts.Replayfilter.ReplayFilter_TestAndSetNow_locked = true ∧
    Facts.Replayfilter.ReplayFilter_TestAndSetNow_prelock ⊆ ["key"] ∧
    Facts.Replayfilter.ReplayFilter_TestAndSetNow_prelock_calls ⊆ ["siphash.Hash"] ∧
    "time.Now" ∈ Facts.Replayfilter.ReplayFilter_TestAndSetNow_calls ∧
    "f.testAndSet" ∈ Facts.Replayfilter.ReplayFilter_TestAndSetNow_calls ∧
    "f.testAndSet" ∈ Facts.Replayfilter.ReplayFilter_TestAndSet_calls ∧
    "time.Now" ∉ Facts.Replayfilter.ReplayFilter_testAndSet_calls ∧
    "time.Now" ∉ Facts.Replayfilter.ReplayFilter_compactFilter_calls ∧
    "filter.TestAndSetNow" ∈ Facts.Obfs4.serverHandshake_parseClientHandshake_calls ∧
    "filter.TestAndSet" ∉ Facts.Obfs4.serverHandshake_parseClientHandshake_calls := by
  decide

/-! Non-vacuity: concrete states meeting the hypotheses. -/
example : ((Filter.new 10 3).run [(0, 1), (5, 1), (10, 1), (19, 1), (20, 1)]).2
    = [false, true, false, true, false] := by decide
example : (⟨10, 2, [⟨1, 0⟩, ⟨2, 1⟩]⟩ : Filter).testAndSet 2 3
    = (⟨10, 2, [⟨2, 1⟩, ⟨3, 2⟩]⟩, false) := by decide
example : (⟨10, 5, [⟨1, 7⟩, ⟨2, 8⟩]⟩ : Filter).testAndSet 3 9 = (⟨10, 5, [⟨9, 3⟩]⟩, false) := by decide


/-- **structural fact, regenerated from the Go source on every run (go/ast)**: every package-level
    variable (file-scope `var`) of the packages this property's mechanisms live in
    (common/replayfilter) is one of the names below — error values, fixed byte strings,
    flags and function hooks that the code only reads after initialisation.  The models treat all
    other state as owned by one connection / one object; a NEW package-level variable (a cache, a
    pool, a scratch buffer, a pre-keyed hash shared "to save allocations") is how such state comes
    to be shared between connections and goroutines, which compiles, passes the tests and typically
    needs true parallelism or a multi-connection history to misbehave.  Adding one breaks this
    theorem; the concurrent / multi-connection families of the harness then search for the failing
    schedule. -/
theorem no_new_package_level_state :
    O4.Facts.Replayfilter.pkg_vars ⊆ [] := by
  decide

end C11
