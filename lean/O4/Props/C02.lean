import O4.Lemmas.HandshakeGenuine
import O4.Lemmas.Obfs4EndToEnd
import O4.Lemmas.HandshakeClient
import O4.Generated.Facts.Obfs4
import O4.Lemmas.Obfs4Ref
import O4.Lemmas.Symbolic
import O4.Generated.Facts.Ntor
import O4.Generated.Facts.Csrand
/-!
# C02 — the obfs4 client only completes with the holder of the bridge identity key

Property theorems only (model: `O4.Model.Handshake`, `O4.Model.Ntor`, reference instance
`O4.Model.Obfs4Ref`; lemmas: `O4.Lemmas.HandshakeClient`).

What is proved is the **decision logic** of the client (`accept_iff`, `no_keys_on_failure`), the
agreement of a genuine pair for every chunking (`matching_pair_agrees`, `any_chunking`), and the
rejection claims in **reduction form**: either the modified / foreign response is rejected, or
two explicit distinct strings collide under the keyed hash (resp. an explicit string carries a
valid tag the server never computed).  No "injective MAC" hypothesis appears anywhere.
That nobody can produce the AUTH tag without `b` or `x` (ntor authentication) is proved in a
**symbolic (Dolev–Yao) model** — last section, `impostor_needs_secret`, model
`O4.Model.Symbolic`, lemmas `O4.Lemmas.Symbolic`: perfect keyed hash, generic group with the
Diffie–Hellman equation, an attacker who sees the public bridge line, the client's `X`, and the
full transcripts and session keys of arbitrarily many sessions of the honest bridge on client keys
of its choice.  Computational security (gap-DH, HMAC as a PRF) stays assumed; the symbolic theorem
rests on the standard abstraction "the attacker computes only what `Derivable` computes".
-/
namespace C02
open O4 O4.Handshake O4.HsClient O4.Consts.Obfs4 O4.Consts.Ntor

/-! ## decision logic -/

/-- **`accept_iff`** — for ALL inputs (any client state, any buffer): `parseServerHandshake`
    returns `ok n seed` iff  the buffer is at least 96 bytes, the mark `M_S` (HMAC under `B‖NODEID`
    of the received representative, first 16 bytes) is found by the search in
    `resp[64 : min(len, 8192)]` with room for the MAC, `MAC_S` equals the HMAC under `B‖NODEID` of
    `Y'‖AUTH‖P_S‖M_S‖hour` with the **client's own** hour, both X25519 results are non-zero, and the
    received AUTH equals the AUTH the client computes; then `n` is the end of `MAC_S` and `seed` the
    client's KEY_SEED. -/
theorem accept_iff (P : Prims) (c : Client) (resp : Bytes) (n : Nat) (seed : Bytes) :
    (parseServerHandshake P c resp).2 = .ok n seed ↔
      (serverMinHandshakeLength ≤ resp.length ∧
       ∃ pos, findMarkMac (cacheOf P c resp).mrk resp startPos maxHandshakeLength false = some pos ∧
        n = pos + markLength + macLength ∧
        (resp.drop (pos + markLength)).take macLength =
          mac P c.idPub c.nodeID (resp.take (pos + markLength)) c.hour ∧
        Ntor.isZero (P.x25519 c.xPriv (P.reprToPublic (cacheOf P c resp).repr)) = false ∧
        Ntor.isZero (P.x25519 c.xPriv c.idPub) = false ∧
        (Ntor.clientHandshake P.toPrims c.xPriv c.xPub (P.reprToPublic (cacheOf P c resp).repr)
            c.idPub c.nodeID).2.2 = (cacheOf P c resp).auth ∧
        seed = (Ntor.clientHandshake P.toPrims c.xPriv c.xPub (P.reprToPublic (cacheOf P c resp).repr)
            c.idPub c.nodeID).2.1) :=
  parse_ok_iff P c resp n seed

/-- "found in range": what a successful mark search means -/
theorem mark_in_range (mk buf : Bytes) (pos : Nat)
    (h : findMarkMac mk buf startPos maxHandshakeLength false = some pos) :
    startPos ≤ pos ∧ pos + markLength + macLength ≤ min buf.length maxHandshakeLength ∧
    (mk ≠ [] → mk <+: buf.drop pos) := by
  unfold findMarkMac at h
  split at h
  · cases h
  · simp only [] at h
    split at h
    · cases h
    · simp only [Bool.false_eq_true, ↓reduceIte] at h
      cases hi : Idx.indexOf mk ((buf.take (min buf.length maxHandshakeLength)).drop startPos) with
      | none => rw [hi] at h; cases h
      | some q =>
        rw [hi] at h; simp only at h
        split at h
        · cases h
        · have hp := Option.some.inj h
          subst hp
          refine ⟨by omega, by omega, fun hmk => ?_⟩
          have := ((Idx.indexOf_eq_some mk hmk _ _).mp hi).1
          rw [List.drop_drop, List.drop_take] at this
          exact this.trans (List.take_prefix _ _)

/-- **`no_keys_on_failure`** — in every other case the call returns an error: no KEY_SEED leaves
    `parseServerHandshake` … -/
theorem no_keys_on_failure (P : Prims) (c : Client) (resp : Bytes)
    (h : ¬ ∃ n seed, Accepts P c resp n seed) : ∃ e, (parseServerHandshake P c resp).2 = .err e :=
  parse_err_of_not_accepts P c resp h

/-- … and the reference client (the model of `obfs4Conn.clientHandshake`'s loop body) derives
    link keys **only** from an accepted response: keys exist iff `Accepts`, they are the KDF of
    that KEY_SEED, and the surplus is what follows the accepted handshake. -/
theorem keys_only_when_accepted (c : Client) (buf : Bytes) (keys : Ref.LinkKeys) (surplus : Bytes) :
    (Ref.clientFeed c buf).2 = .ok (keys, surplus) ↔
      ∃ n seed, Accepts Prims.real c buf n seed ∧ keys = Ref.clientKeys seed ∧ surplus = buf.drop n := by
  unfold Ref.clientFeed
  rcases hp : parseServerHandshake Prims.real c buf with ⟨c', r⟩
  have hr : (parseServerHandshake Prims.real c buf).2 = r := by rw [hp]
  cases r with
  | err e =>
    simp only
    constructor
    · intro h; cases h
    · rintro ⟨n, seed, ha, _⟩
      rw [(parse_ok_iff Prims.real c buf n seed).mpr ha] at hr
      cases hr
  | ok n seed =>
    simp only [Except.ok.injEq, Prod.mk.injEq]
    constructor
    · rintro ⟨h1, h2⟩
      exact ⟨n, seed, (parse_ok_iff Prims.real c buf n seed).mp hr, h1.symm, h2.symm⟩
    · rintro ⟨n', seed', ha, hk, hs⟩
      rw [(parse_ok_iff Prims.real c buf n' seed').mpr ha] at hr
      simp only [ClientResult.ok.injEq] at hr
      rw [hk, hs, hr.1, hr.2]
      exact ⟨rfl, rfl⟩

example : ¬ ∃ n seed, Accepts HsLemmas.toyPrims ⟨[], [], [], [], [], 0, none⟩ [1, 2, 3] n seed := by
  rintro ⟨n, seed, h, _⟩
  simp [serverMinHandshakeLength] at h

/-! ## a genuine pair agrees, for every chunking

Proofs: `O4/Lemmas/HandshakeGenuine.lean` (shared with the end-to-end theorems of C01). -/

/-- **`DhComm`**: the two Diffie–Hellman computations commute on key pairs
    (`Pair priv pub` = "`pub` is the public key of `priv`": `x25519Base`, or the Elligator
    "dirty" public key, whose low-order component the clamped ladder kills).  An explicit
    hypothesis on the abstract primitives:
    `comm : ∀ a A b B, Pair a A → Pair b B → P.x25519 a B = P.x25519 b A`. -/
abbrev DhComm (P : Prims) (Pair : Bytes → Bytes → Prop) : Prop := HsGenuine.DhComm P Pair

/-- satisfiable: the toy "DH" is the pointwise product with `pub = priv` -/
example : DhComm HsLemmas.toyPrims (fun a A => A = a) := HsGenuine.toy_dhComm

abbrev HmacLen := HsLemmas.HmacLen

/-- under `DhComm` the client's and the server's ntor computations coincide:
    same success flag, same KEY_SEED, same AUTH -/
theorem ntor_agree (P : Prims) (Pair : Bytes → Bytes → Prop) (hD : DhComm P Pair)
    (x X y Y b B id : Bytes) (hx : Pair x X) (hy : Pair y Y) (hb : Pair b B) :
    Ntor.clientHandshake P.toPrims x X Y B id = Ntor.serverHandshake P.toPrims X y Y b B id :=
  HsGenuine.ntor_agree P Pair hD x X y Y b B id hx hy hb

/-- a genuine server for the client `c` (`HsGenuine.Genuine`): it holds the identity key `b` of the
    client's bridge line (`Pair b c.idPub`), an ephemeral key pair `(y, Y)` whose representative `Yr`
    (32 bytes) decodes to `Y`, a padding of admissible length, and its ntor computation on the
    client's public key succeeded.  `G.keySeed`, `G.auth`: the server's ntor results;
    `G.response = Y' ‖ AUTH ‖ P_S ‖ M_S ‖ MAC_S` MACed with the hour the client used; `G.cache`: what
    the client caches from it; `G.NoEarlyMark`: the explicit hypothesis of the stable re-parser
    theorem — the 16-byte mark does not occur by accident in `R` before its real position
    (probability about `|P_S|·2⁻¹²⁸`). -/
abbrev Genuine (P : Prims) (Pair : Bytes → Bytes → Prop) (c : Client) := HsGenuine.Genuine P Pair c

section
variable {P : Prims} {Pair : Bytes → Bytes → Prop} {c : Client}

/-- every buffer that extends the genuine response is accepted, with exactly `|R|` bytes
    consumed and the **server's** KEY_SEED -/
theorem genuine_accept (hP : HmacLen P) (hD : DhComm P Pair) (G : Genuine P Pair c) (hno : G.NoEarlyMark)
    (hc : c.cache = none ∨ c.cache = some G.cache) (T : Bytes) :
    (parseServerHandshake P c (G.response ++ T)).2 = .ok G.response.length G.keySeed :=
  HsGenuine.genuine_accept hP hD G hno hc T

/-- every proper prefix of the genuine response asks for more data (`ErrMarkNotFoundYet`) -/
theorem genuine_prefix (hP : HmacLen P) (G : Genuine P Pair c) (hno : G.NoEarlyMark)
    (hc : c.cache = none ∨ c.cache = some G.cache) (p e : Bytes) (hp : p ++ e = G.response) (he : e ≠ []) :
    (parseServerHandshake P c p).2 = .err .markNotFoundYet :=
  HsGenuine.genuine_prefix hP G hno hc p e hp he

end

/-- **`matching_pair_agrees`** — under `DhComm`, a genuine client and a genuine server derive the
    same KEY_SEED and AUTH (`ntor_agree`), the client accepts the response in **every** buffer
    extending it, consuming exactly `|R|` bytes, with the server's KEY_SEED, hence both ends hold
    the same 144-byte OKM and the client's encoder key block is the server's decoder key block
    and vice versa. -/
theorem matching_pair_agrees (P : Prims) (Pair : Bytes → Bytes → Prop) (hP : HmacLen P) (hD : DhComm P Pair)
    (c : Client) (G : Genuine P Pair c) (hno : G.NoEarlyMark)
    (hc : c.cache = none ∨ c.cache = some G.cache) (T : Bytes) :
    ∃ n seed, (parseServerHandshake P c (G.response ++ T)).2 = .ok n seed ∧
      n = G.response.length ∧ seed = G.keySeed ∧ (G.response ++ T).drop n = T ∧
      okm P seed = okm P G.keySeed ∧
      clientEncKey (okm P seed) = serverDecKey (okm P G.keySeed) ∧
      clientDecKey (okm P seed) = serverEncKey (okm P G.keySeed) :=
  HsGenuine.matching_pair_agrees P Pair hP hD c G hno hc T

/-! ### every chunking -/

/-- the client's read loop (`obfs4Conn.clientHandshake`): append the chunk, re-parse the whole
    buffer, continue on `ErrMarkNotFoundYet`.  `none` = all chunks consumed, still waiting. -/
def clientLoop (P : Prims) : Client → Bytes → List Bytes → Client × Bytes × Option ClientResult
  | c, buf, [] => (c, buf, none)
  | c, buf, ch :: rest =>
    match parseServerHandshake P c (buf ++ ch) with
    | (c', .err .markNotFoundYet) => clientLoop P c' (buf ++ ch) rest
    | (c', r) => (c', buf ++ ch, some r)

/-- it is `E2E.hsLoop` (the loop of the end-to-end model) without the list of unread chunks -/
private theorem clientLoop_eq (P : Prims) (c : Client) (buf : Bytes) (cs : List Bytes) :
    clientLoop P c buf cs = ((E2E.hsLoop P c buf cs).1, (E2E.hsLoop P c buf cs).2.1, (E2E.hsLoop P c buf cs).2.2.1) := by
  induction cs generalizing c buf with
  | nil => rfl
  | cons ch rest ih =>
    unfold clientLoop E2E.hsLoop
    rcases hp : parseServerHandshake P c (buf ++ ch) with ⟨c1, r1⟩
    cases r1 with
    | ok n seed => rfl
    | err e => cases e <;> first | exact ih c1 (buf ++ ch) | rfl

/-- **`any_chunking`** (stable re-parser): feed the stream `R ‖ T` to the client's read loop in
    ANY chunking.  The loop stops exactly at the first chunk boundary at or beyond `|R|`, returns
    `ok |R|` with the server's KEY_SEED, and what is left in the receive buffer behind the
    handshake is exactly the part of `T` received so far (the seed frame, data). -/
theorem any_chunking (P : Prims) (Pair : Bytes → Bytes → Prop) (hP : HmacLen P) (hD : DhComm P Pair)
    (c : Client) (G : Genuine P Pair c) (hno : G.NoEarlyMark) (T : Bytes) (cs : List Bytes) (buf : Bytes)
    (hc : c.cache = none ∨ c.cache = some G.cache)
    (hbuf : buf.length < G.response.length)
    (hcs : buf ++ cs.flatten = G.response ++ T) :
    ∃ c' j, clientLoop P c buf cs =
        (c', buf ++ (cs.take (j + 1)).flatten, some (.ok G.response.length G.keySeed)) ∧
      j < cs.length ∧
      (buf ++ (cs.take j).flatten).length < G.response.length ∧
      G.response.length ≤ (buf ++ (cs.take (j + 1)).flatten).length ∧
      (buf ++ (cs.take (j + 1)).flatten).drop G.response.length ++ (cs.drop (j + 1)).flatten = T := by
  obtain ⟨c', j, h1, h2, h3, h4, h5⟩ := HsGenuine.any_chunking P Pair hP hD c G hno T cs buf hc hbuf hcs
  exact ⟨c', j, by rw [clientLoop_eq, h1], h2, h3, h4, h5⟩

/-- non-vacuity: a concrete genuine pair over the toy primitives, with padding, meeting
    `DhComm`'s `Pair`, `srv_ok` and `NoEarlyMark` -/
example : ∃ G : Genuine HsLemmas.toyPrims (fun a A => A = a) HsGenuine.toyClient, G.NoEarlyMark :=
  ⟨HsGenuine.toyGenuine, HsGenuine.toy_noEarlyMark⟩


/-! ## modified responses — reduction form -/

/-- a byte string with one byte XORed by a non-zero mask (a single bit flip is `mask = 1 <<< j`) -/
def flip (b : Bytes) (i : Nat) (mask : UInt8) : Bytes := b.set i (b.getD i 0 ^^^ mask)

theorem flip_length (b : Bytes) (i : Nat) (mask : UInt8) : (flip b i mask).length = b.length := by
  simp [flip]

theorem flip_ne (b : Bytes) (i : Nat) (mask : UInt8) (hi : i < b.length) (hm : mask ≠ 0) : flip b i mask ≠ b := by
  intro h
  have h1 : (flip b i mask)[i]? = b[i]? := by rw [h]
  simp only [flip, List.getElem?_set_self hi, List.getD_eq_getElem?_getD, List.getElem?_eq_getElem hi,
    Option.getD_some, Option.some.injEq] at h1
  apply hm
  have : (b[i] ^^^ mask) ^^^ b[i] = b[i] ^^^ b[i] := by rw [h1]
  rw [UInt8.xor_comm (b[i] ^^^ mask), ← UInt8.xor_assoc, UInt8.xor_self, UInt8.zero_xor] at this
  exact this

/-- **`single_bit_rejected`** (reduction form, no injectivity hypothesis).  `R` is a response whose
    last 16 bytes are the genuine `MAC_S` of the rest for the client's hour; `R'` is ANY string of
    the same length different from `R` (in particular `R` with any single bit of `Y'`, `AUTH`,
    `P_S`, `M_S` or `MAC_S` flipped, `flip_ne`), followed by anything.  A fresh client either
    **rejects** (error, no keys), or the buffer exhibits an explicit forgery: its first `n−16` bytes
    `m'` differ from the genuinely MACed string `m` and yet carry a valid tag `t'` (the next 16
    bytes) — and when `t'` is the genuine tag this is an explicit **collision** of the two distinct
    strings `m' ‖ hour`, `m ‖ hour` under the keyed hash. -/
theorem single_bit_rejected (P : Prims) (c : Client) (R R' T : Bytes)
    (hR : macLength ≤ R.length)
    (hgen : R.drop (R.length - macLength) =
      mac P c.idPub c.nodeID (R.take (R.length - macLength)) c.hour)
    (hlen : R'.length = R.length) (hne : R' ≠ R) :
    (∃ e, (parseServerHandshake P c (R' ++ T)).2 = .err e) ∨
    ∃ n seed, (parseServerHandshake P c (R' ++ T)).2 = .ok n seed ∧ macLength ≤ n ∧
      (R' ++ T).take (n - macLength) ≠ R.take (R.length - macLength) ∧
      mac P c.idPub c.nodeID ((R' ++ T).take (n - macLength)) c.hour =
        ((R' ++ T).drop (n - macLength)).take macLength ∧
      (((R' ++ T).drop (n - macLength)).take macLength = R.drop (R.length - macLength) →
        mac P c.idPub c.nodeID ((R' ++ T).take (n - macLength)) c.hour =
          mac P c.idPub c.nodeID (R.take (R.length - macLength)) c.hour) := by
  cases hr : (parseServerHandshake P c (R' ++ T)).2 with
  | err e => exact Or.inl ⟨e, rfl⟩
  | ok n seed =>
    right
    obtain ⟨_, pos, hfind, hn, hmac, _⟩ := (parse_ok_iff P c (R' ++ T) n seed).mp hr
    have hrange := mark_in_range _ _ _ hfind
    have hn16 : n - macLength = pos + markLength := by rw [hn]; simp only [macLength]; omega
    refine ⟨n, seed, rfl, by rw [hn]; simp only [macLength]; omega, ?_, ?_, ?_⟩
    · -- if the MACed prefix were the genuine one, R' would be R
      intro heq
      apply hne
      have hl1 : ((R' ++ T).take (n - macLength)).length = n - macLength := by
        rw [List.length_take]; apply Nat.min_eq_left
        have := hrange.2.1; rw [hn16]; omega
      have hl2 : (R.take (R.length - macLength)).length = R.length - macLength := by
        rw [List.length_take]; omega
      have hnR : n = R.length := by
        have : n - macLength = R.length - macLength := by rw [← hl1, ← hl2, heq]
        have h1 : macLength ≤ n := by rw [hn]; simp only [macLength]; omega
        omega
      -- the prefixes agree …
      have hpre : R'.take (R.length - macLength) = R.take (R.length - macLength) := by
        rw [← heq, hnR, List.take_append_of_le_length (by omega)]
      -- … and the tags agree, both being the MAC of that prefix
      have htag : R'.drop (R.length - macLength) = R.drop (R.length - macLength) := by
        rw [hgen, ← heq, hn16, ← hmac, ← hn16, hnR]
        rw [List.drop_append_of_le_length (by omega)]
        have : (R'.drop (R.length - macLength)).length = macLength := by
          rw [List.length_drop, hlen]; omega
        rw [List.take_append_of_le_length (by omega), List.take_of_length_le (by omega)]
      rw [← List.take_append_drop (R.length - macLength) R', hpre, htag, List.take_append_drop]
    · rw [hn16, hmac]
    · intro ht
      rw [← hgen, ← ht, hn16, hmac]

example : flip [1, 2, 3] 1 ((1 : UInt8) <<< 7) ≠ [1, 2, 3] ∧ (flip [1, 2, 3] 1 ((1 : UInt8) <<< 7)).length = 3 :=
  ⟨flip_ne _ _ _ (by decide) (by decide), flip_length _ _ _⟩

/-- the genuine response of `matching_pair_agrees` meets the hypotheses of `single_bit_rejected` -/
example (P : Prims) (Pair : Bytes → Bytes → Prop) (hP : HmacLen P) (c : Client) (G : Genuine P Pair c) :
    macLength ≤ G.response.length ∧
    G.response.drop (G.response.length - macLength) =
      mac P c.idPub c.nodeID (G.response.take (G.response.length - macLength)) c.hour := by
  have hl := HsGenuine.response_len hP G
  have hbl : ((G.Yr ++ G.auth) ++ G.pad ++ G.mrk).length = G.response.length - macLength := by
    have h1 := HsGenuine.hdr_len hP G
    have h2 : G.mrk.length = markLength := HsLemmas.mark_length P hP _ _ _
    simp only [List.length_append, markLength, macLength] at *
    omega
  refine ⟨by rw [hl]; simp only [macLength]; omega, ?_⟩
  rw [← hbl, HsGenuine.response_shape, List.drop_left, List.take_left]

/-! ## a client configured with another identity — reduction form -/

/-- the string the ntor AUTH tag is computed over: `verify ‖ B‖B‖X‖Y‖PROTOID‖ID ‖ "Server"` -/
def authInput (P : Prims) (exps id B X Y : Bytes) : Bytes :=
  P.hmac (Ntor.bs tVerify) (exps ++ Ntor.suffix id B X Y) ++ Ntor.suffix id B X Y ++ Ntor.bs "Server"

theorem auth_eq (P : Prims) (exps id B X Y : Bytes) :
    (Ntor.ntorCommon P.toPrims exps id B X Y).2 = P.hmac (Ntor.bs tMac) (authInput P exps id B X Y) := rfl

/-- different identities give different AUTH inputs (lengths of `B` and `ID` fixed) -/
theorem authInput_ne (P : Prims) (hP : HmacLen P) (exps exps' id id' B B' X X' Y Y' : Bytes)
    (hB : B'.length = B.length) (hid : id'.length = id.length) (hne : ¬ (B' = B ∧ id' = id)) :
    authInput P exps' id' B' X' Y' ≠ authInput P exps id B X Y := by
  intro h
  apply hne
  unfold authInput Ntor.suffix at h
  constructor
  · -- compare the fronts: 32 bytes of `verify`, then `B`
    simp only [List.append_assoc] at h
    have h1 := (List.append_inj h (by rw [hP, hP])).2
    exact (List.append_inj h1 hB).1
  · -- compare the backs: `ID ‖ "Server"`
    have h1 := (List.append_inj' h rfl).1
    rw [← List.append_assoc (P.hmac _ _) _ id', ← List.append_assoc (P.hmac _ _) _ id] at h1
    exact (List.append_inj' h1 hid).2

/-- **`wrong_identity_rejected`** (reduction form).  A client configured with `(B', ID')` receives a
    response whose AUTH field is the tag a server holding a *different* bridge identity `(B, ID)`
    computed (any DH values, any `X`, `Y`).  Either the client **rejects**, or the two explicit,
    distinct strings `authInput …` — the client's and the server's AUTH inputs — collide under
    HMAC keyed with `t_mac`. -/
theorem wrong_identity_rejected (P : Prims) (hP : HmacLen P) (c : Client) (resp : Bytes)
    (B id X Y exps : Bytes) (hB : c.idPub.length = B.length) (hid : c.nodeID.length = id.length)
    (hne : ¬ (c.idPub = B ∧ c.nodeID = id))
    (hauth : (cacheOf P c resp).auth = (Ntor.ntorCommon P.toPrims exps id B X Y).2) :
    (∃ e, (parseServerHandshake P c resp).2 = .err e) ∨
    ∃ a a', a ≠ a' ∧ P.hmac (Ntor.bs tMac) a = P.hmac (Ntor.bs tMac) a' ∧
      a = authInput P (P.x25519 c.xPriv (serverPub P c resp) ++ P.x25519 c.xPriv c.idPub)
            c.nodeID c.idPub c.xPub (serverPub P c resp) ∧
      a' = authInput P exps id B X Y := by
  cases hr : (parseServerHandshake P c resp).2 with
  | err e => exact Or.inl ⟨e, rfl⟩
  | ok n seed =>
    right
    obtain ⟨_, pos, _, _, _, _, _, ha, _⟩ := (parse_ok_iff P c resp n seed).mp hr
    refine ⟨_, _, authInput_ne P hP _ _ _ _ _ _ _ _ _ _ hB hid hne, ?_, rfl, rfl⟩
    rw [← auth_eq, ← auth_eq, ← hauth, ← ha]
    rfl

/-- a **single-bit** difference of the configured public key (any bit, the unused bit 255 included)
    or node ID is a different identity in the sense of `wrong_identity_rejected`: the MAC key and
    the ntor transcript use the configured bytes as they are -/
theorem wrong_identity_one_bit (P : Prims) (hP : HmacLen P) (c : Client) (resp : Bytes)
    (B id X Y exps : Bytes) (i : Nat) (mask : UInt8) (hm : mask ≠ 0)
    (hcfg : (c.idPub = flip B i mask ∧ i < B.length ∧ c.nodeID = id) ∨
            (c.idPub = B ∧ c.nodeID = flip id i mask ∧ i < id.length))
    (hauth : (cacheOf P c resp).auth = (Ntor.ntorCommon P.toPrims exps id B X Y).2) :
    (∃ e, (parseServerHandshake P c resp).2 = .err e) ∨
    ∃ a a', a ≠ a' ∧ P.hmac (Ntor.bs tMac) a = P.hmac (Ntor.bs tMac) a' ∧
      a = authInput P (P.x25519 c.xPriv (serverPub P c resp) ++ P.x25519 c.xPriv c.idPub)
            c.nodeID c.idPub c.xPub (serverPub P c resp) ∧
      a' = authInput P exps id B X Y := by
  rcases hcfg with ⟨h1, h2, h3⟩ | ⟨h1, h2, h3⟩
  · exact wrong_identity_rejected P hP c resp B id X Y exps (by rw [h1, flip_length]) (by rw [h3])
      (fun h => flip_ne B i mask h2 hm (by rw [← h1]; exact h.1)) hauth
  · exact wrong_identity_rejected P hP c resp B id X Y exps (by rw [h1]) (by rw [h2, flip_length])
      (fun h => flip_ne id i mask h3 hm (by rw [← h2]; exact h.2)) hauth

/-- bit 255 of a 32-byte key is bit 7 of byte 31 -/
example : ((128 : UInt8) ≠ 0) ∧ 31 < (List.replicate 32 (0 : UInt8)).length := by decide

example : ¬ (([1, 2] : Bytes) = [1, 3] ∧ ([9] : Bytes) = [9]) := by decide

/-! ## fresh ephemeral keys -/

/-- **`fresh_keys`** — `ntor.NewKeypair(true)` (drawn by `ParseArgs` for the client, by `WrapConn`
    for the server) turns one fresh 32-byte block of the random stream into the session key:
    the tape splits as `rejected blocks ‖ block ‖ rest`, the key pair is a function of `block`
    alone, the private key is `SHA-512(block)[0:32]`, and `rest` is what the next draw sees. -/
theorem fresh_keys (fuel : Nat) (tape : Bytes) (kp : Ref.Keypair) (rest : Bytes)
    (h : Ref.newKeypair fuel tape = some (kp, rest)) :
    ∃ pre blk, tape = pre ++ blk ++ rest ∧ blk.length = privateKeyLength ∧
      privateKeyLength ∣ pre.length ∧
      Ref.keypairOf blk = some kp ∧ kp.priv = (Crypto.sha512 blk).take privateKeyLength := by
  induction fuel generalizing tape with
  | zero => simp [Ref.newKeypair] at h
  | succ f ih =>
    simp only [Ref.newKeypair] at h
    cases ht : Ref.takeN privateKeyLength tape with
    | none => rw [ht] at h; cases h
    | some br =>
      obtain ⟨blk, t1⟩ := br
      rw [ht] at h; simp only at h
      obtain ⟨hbl, htape⟩ := HsLemmas.takeN_length _ _ _ _ ht
      cases hk : Ref.keypairOf blk with
      | some kp' =>
        rw [hk] at h
        simp only [Option.some.injEq, Prod.mk.injEq] at h
        refine ⟨[], blk, by rw [htape, h.2]; rfl, hbl, ⟨0, rfl⟩, by rw [hk, h.1], ?_⟩
        rw [← h.1]
        unfold Ref.keypairOf at hk
        obtain ⟨pr, _, hpr⟩ := Option.map_eq_some_iff.mp hk
        rw [← hpr]
      | none =>
        rw [hk] at h; simp only at h
        obtain ⟨pre, blk', h1, h2, ⟨k, h3⟩, h4, h5⟩ := ih t1 h
        refine ⟨blk ++ pre, blk', by rw [htape, h1]; simp, h2, ⟨k + 1, ?_⟩, h4, h5⟩
        rw [List.length_append, hbl, h3, Nat.mul_succ]; omega

/-- two successive sessions on one random stream use **disjoint** blocks: the second client's
    draws start in what the first left over -/
theorem fresh_keys_sessions (nodeID idPub : Bytes) (h1 h2 : Int) (tape : Bytes) (s1 s2 : Ref.ClientStart)
    (hs1 : Ref.clientStart nodeID idPub h1 tape = some s1)
    (hs2 : Ref.clientStart nodeID idPub h2 s1.rest = some s2) :
    ∃ used1 used2 pre1 blk1 post1 pre2 blk2 post2,
      tape = used1 ++ used2 ++ s2.rest ∧ used1 = pre1 ++ blk1 ++ post1 ∧ used2 = pre2 ++ blk2 ++ post2 ∧
      blk1.length = privateKeyLength ∧ blk2.length = privateKeyLength ∧
      s1.hs.xPriv = (Crypto.sha512 blk1).take privateKeyLength ∧
      s2.hs.xPriv = (Crypto.sha512 blk2).take privateKeyLength := by
  have key : ∀ (h : Int) (tp : Bytes) (s : Ref.ClientStart), Ref.clientStart nodeID idPub h tp = some s →
      ∃ pre blk post, tp = pre ++ blk ++ post ++ s.rest ∧ blk.length = privateKeyLength ∧
        s.hs.xPriv = (Crypto.sha512 blk).take privateKeyLength := by
    intro h tp s hs
    unfold Ref.clientStart at hs
    cases hk : Ref.newKeypair Ref.keypairFuel tp with
    | none => rw [hk] at hs; cases hs
    | some kr =>
      obtain ⟨kp, t1⟩ := kr
      rw [hk] at hs; simp only at hs
      cases hsd : Ref.takeN Drbg.seedLength t1 with
      | none => rw [hsd] at hs; cases hs
      | some sr =>
        obtain ⟨seed, t2⟩ := sr
        rw [hsd] at hs; simp only at hs
        cases hi : Ref.intRange clientMinPadLength clientMaxPadLength t2 with
        | none => rw [hi] at hs; cases hs
        | some ir =>
          obtain ⟨padLen, t3⟩ := ir
          rw [hi] at hs; simp only at hs
          cases hp : Ref.makePad padLen t3 with
          | none => rw [hp] at hs; cases hs
          | some pr =>
            obtain ⟨pad, t4⟩ := pr
            rw [hp] at hs; simp only at hs
            have hcs := Option.some.inj hs
            subst hcs
            simp only
            obtain ⟨pre, blk, hb1, hb2, _, _, hb5⟩ := fresh_keys _ _ _ _ hk
            -- t1 = (everything drawn after the key) ++ t4
            have hmid : ∃ mid, t1 = mid ++ t4 := by
              obtain ⟨_, e1⟩ := HsLemmas.takeN_length _ _ _ _ hsd
              obtain ⟨_, e3⟩ := HsLemmas.takeN_length _ _ _ _ hp
              have e2 : ∃ d, t2 = d ++ t3 := by
                unfold Ref.intRange at hi
                split at hi
                · rename_i v t heq
                  split at hi
                  · cases hi
                  · simp only [Option.some.injEq, Prod.mk.injEq] at hi
                    -- the source only ever drops bytes from the front
                    exact HsLemmas.intRange_suffix _ _ _ _ _ _ heq hi.2
                · cases hi
              obtain ⟨d, e2⟩ := e2
              exact ⟨seed ++ d ++ pad, by rw [e1, e2, e3]; simp⟩
            obtain ⟨mid, hmid⟩ := hmid
            exact ⟨pre, blk, mid, by rw [hb1, hmid]; simp, hb2, hb5⟩
  obtain ⟨pre1, blk1, post1, e1, l1, k1⟩ := key h1 tape s1 hs1
  obtain ⟨pre2, blk2, post2, e2, l2, k2⟩ := key h2 s1.rest s2 hs2
  exact ⟨pre1 ++ blk1 ++ post1, pre2 ++ blk2 ++ post2, pre1, blk1, post1, pre2, blk2, post2,
    by rw [e1, e2]; simp, rfl, rfl, l1, l2, k1, k2⟩

/-! ## `impostor_needs_secret` — symbolic (Dolev–Yao) model

`accept_iff` says what the client compares: the received AUTH field against the AUTH **it**
computes from `(x, Y, B, NODEID)`.  This section shows, in the term model of `O4.Model.Symbolic`,
that nobody without `b` (or `x`) can produce that value, whatever `Y` it makes the client use.

*Model.*  Terms: scalars, group elements `gexp s` in normal form (the DH equation holds by
computation, `dh_commutes`), public constants, `pair` (concatenation of fixed-width fields),
`hmac` as a free constructor, stuck exponentiation of non-group values.  `Derivable K t`: the
attacker knowing `K` computes `t` by pairing, projecting, `hmac` of derivable key and message, and
exponentiation by a scalar it can derive — no inversion of `hmac`, no discrete logarithm.
The protocol terms are built field by field like `Ntor.ntorCommon`, and
`sym_terms_denote_code` proves that the symbolic `clientAuth Y` denotes exactly the bytes
`Ntor.clientHandshake` returns (for every choice of primitives, no hypothesis).

*Knowledge* `K0 srvIn`: all public constants (NODEID, PROTOID, the labels, arbitrary data), the
base point, `B = g^b`, the observed `X = g^x`, the attacker's own scalars `e i`, and for EVERY
session `j` of the honest bridge — which answered the client key `srvIn j`, an arbitrary term
chosen by the attacker, all `srvIn` quantified — the server key `Y_j = g^(y j)`, the AUTH field
`srvAuth (srvIn j) j` and even the KEY_SEED `srvKeySeed (srvIn j) j`.  "The attacker sees honest
AUTH values of other sessions" means exactly: these `hmac` terms are members of `K0`; they are
tags over other `secret_input`s (the transcript part contains the session's own `X` and `Y_j`)
and cannot be opened.  Every OTHER client, honest or not, is played by the attacker (it may even
know their ephemeral secrets: an honest client reveals nothing but its `g^(x')`), so their
sessions with the bridge are among the `srvIn j`.  Not in `K0`: `b`, `x`, any `y j`.

*What the abstraction assumes* (not proved): the byte-level attacker can compute only
denotations of derivable terms — HMAC-SHA256 behaves as a free function, X25519 as a generic
group in which only the DH equation holds (Elligator decoding, cofactor, clamping abstracted
away), scalars are not computed from other data, fields are parsed unambiguously.
-/
section Symbolic
open O4.Sym O4.Sym.Term O4.SymLemmas

/-- **the Diffie–Hellman equation** holds in the normal form:
    `exp (exp (g^s) a) c = exp (exp (g^s) c) a` for every group element and all scalars -/
theorem dh_commutes (s : List Sym.Name) (a c : Sym.Name) :
    exp (exp (.gexp s) a) c = exp (exp (.gexp s) c) a := exp_comm s a c

/-- **the honest pair agrees** (symbolic counterpart of `ntor_agree`): session `j` of the bridge
    answering the client's `X` computes the AUTH and KEY_SEED the client computes for `Y_j` -/
theorem honest_pair_agrees_sym (j : Nat) :
    srvAuth (pub .x) j = clientAuth (pub (.y j)) ∧ srvKeySeed (pub .x) j = clientKeySeed (pub (.y j)) :=
  ⟨rfl, rfl⟩

/-- the conditions on an attacker's knowledge `K` under which the general theorem holds:
    no concatenations stored as such (store the fields), no secret scalar, and no group element
    with two secret scalars in the exponent (no `g^(bx)`, `g^(xy)`, …) -/
structure NoSecretLeak (K : Term → Prop) : Prop where
  no_pair : ∀ a c, ¬ K (.pair a c)
  no_secret_scalar : ∀ n, K (.nm n) → n.secret = false
  one_secret : ∀ s, K (.gexp s) → secretCount s ≤ 1

/-- **`impostor_needs_secret_general`** — for ANY knowledge set meeting `NoSecretLeak` and ANY
    term `Y` the client is made to use as server public key: the AUTH value the client would
    accept is derivable only if that very AUTH term, or its inner `verify` tag, was handed to the
    attacker as such (by a party that could compute it).  Reason: every derivable group element
    has at most one secret scalar in its exponent (`synth_gexp_count`), `exp(B, x) = g^(bx)` has
    two, and a derivable `hmac` that is not a member of `K` has a derivable message. -/
theorem impostor_needs_secret_general (K : Term → Prop) (hK : NoSecretLeak K) (Y : Term)
    (h : Derivable K (clientAuth Y)) :
    K (clientAuth Y) ∨
    K (.hmac (.const .tVerify) (exp Y .x ∥ exp (pub .b) .x ∥ suffix (.const .nodeID) (pub .b) (pub .x) Y)) :=
  nested_mac_secret hK.no_pair hK.no_secret_scalar hK.one_secret _ _ _ _ _ [.b, .x] (by decide) h

theorem K0_noSecretLeak (srvIn : Nat → Term) : NoSecretLeak (K0 srvIn) :=
  ⟨K0_no_pair srvIn, K0_nm srvIn, K0_gexp srvIn⟩

/-- **agreement form.**  Whatever client keys `srvIn` the honest bridge was made to answer, and
    whatever term `Y` the client is made to use: if the attacker can derive the AUTH value the
    client accepts, then the **holder of `b` itself** ran a session on exactly this client's `X`
    and `Y` is exactly that session's server key (the attacker merely relayed the genuine
    exchange, and the client completes with the genuine bridge). -/
theorem accept_implies_bridge_answered (srvIn : Nat → Term) (Y : Term)
    (h : Derivable (K0 srvIn) (clientAuth Y)) : ∃ j, srvIn j = pub .x ∧ Y = pub (.y j) := by
  rcases impostor_needs_secret_general _ (K0_noSecretLeak srvIn) Y h with hk | hk
  · rcases K0_hmac srvIn _ _ (clientAuth_eq Y ▸ hk) with ⟨j, hj⟩ | ⟨j, hj⟩
    · rw [srvAuth_eq] at hj
      simp only [suffix, Term.hmac.injEq, Term.pair.injEq] at hj
      exact ⟨j, hj.2.2.1.2.2.1.symm, hj.2.2.1.2.2.2.1⟩
    · rw [srvKeySeed_eq] at hj
      simp only [Term.hmac.injEq, Term.const.injEq, reduceCtorEq, false_and] at hj
  · rcases K0_hmac srvIn _ _ hk with ⟨j, hj⟩ | ⟨j, hj⟩
    · rw [srvAuth_eq] at hj
      simp only [Term.hmac.injEq, Term.const.injEq, reduceCtorEq, false_and] at hj
    · rw [srvKeySeed_eq] at hj
      simp only [Term.hmac.injEq, Term.const.injEq, reduceCtorEq, false_and] at hj

/-- **`impostor_needs_secret`** — the attacker knows the whole public bridge line (`NODEID`,
    `B`), every constant, the client's `X`, its own scalars, and the complete transcripts (server
    key, AUTH) **and session keys** of arbitrarily many sessions of the honest bridge with OTHER
    client keys (`srvIn j ≠ X`, otherwise arbitrary, attacker-chosen) — but neither `b` nor `x`.
    Then for EVERY term `Y` it makes the client use as server public key (its own `g^e`, `X^e`,
    `B`, an honest session's `Y_j`, a non-group value, anything) the AUTH value this client
    accepts is NOT derivable: the handshake fails. -/
theorem impostor_needs_secret (srvIn : Nat → Term) (hother : ∀ j, srvIn j ≠ pub .x) (Y : Term) :
    ¬ Derivable (K0 srvIn) (clientAuth Y) := fun h =>
  let ⟨j, hj, _⟩ := accept_implies_bridge_answered srvIn Y h
  hother j hj

/-- even when the bridge did answer this client's `X` (the attacker forwarded it), every server
    key other than the bridge's own answers is rejected — in particular every key the attacker
    generates from what it knows without using an honest `Y_j` as such -/
theorem impostor_own_key_rejected (srvIn : Nat → Term) (Y : Term) (hY : ∀ j, Y ≠ pub (.y j)) :
    ¬ Derivable (K0 srvIn) (clientAuth Y) := fun h =>
  let ⟨j, _, hj⟩ := accept_implies_bridge_answered srvIn Y h
  hY j hj

/-- instances: `Y = g^e` for an attacker scalar, `Y = X^e`, `Y = B`, `Y = g` -/
example (srvIn : Nat → Term) (i : Nat) : ¬ Derivable (K0 srvIn) (clientAuth (pub (.e i))) :=
  impostor_own_key_rejected srvIn _ (fun j h => by cases h)
example (srvIn : Nat → Term) (i : Nat) : ¬ Derivable (K0 srvIn) (clientAuth (exp (pub .x) (.e i))) :=
  impostor_own_key_rejected srvIn _ (fun j h => by cases h)
example (srvIn : Nat → Term) : ¬ Derivable (K0 srvIn) (clientAuth (pub .b)) :=
  impostor_own_key_rejected srvIn _ (fun j h => by cases h)

/-- the attacker does derive such server keys (the quantification over `Y` is not vacuous) … -/
example (srvIn : Nat → Term) : Derivable (K0 srvIn) (exp (pub .x) (.e 7)) :=
  .exp (.ax (Or.inr (Or.inr (Or.inr (Or.inl rfl))))) (.ax (Or.inr (Or.inr (Or.inr (Or.inr (Or.inl ⟨7, rfl⟩))))))
/-- … and the public-keyed mark `HMAC(B ‖ NODEID, Y)` of the obfs4 layer (why `M_S`/`MAC_S` do
    not authenticate the bridge) -/
example (srvIn : Nat → Term) : Derivable (K0 srvIn) (.hmac (pub .b ∥ .const .nodeID) (pub (.e 0))) :=
  .hmac (.pair (.ax (Or.inr (Or.inr (Or.inl rfl)))) (.ax (Or.inl ⟨_, rfl⟩)))
    (.exp (t := g) (.ax (Or.inr (Or.inl rfl))) (.ax (Or.inr (Or.inr (Or.inr (Or.inr (Or.inl ⟨0, rfl⟩)))))))

/-- a concrete `srvIn` meeting `hother`: the bridge served the attacker's own client keys
    `g^(e j)` (even sessions) and garbage (odd sessions) -/
example : ∀ j, (fun j => if j % 2 = 0 then pub (.e j) else Term.const (.data j)) j ≠ pub .x := by
  intro j
  by_cases h : j % 2 = 0 <;> simp [h, pub]

/-- a concrete FINITE knowledge set meeting `NoSecretLeak`: the bridge line, `X`, two attacker
    scalars, the transcript of one honest session on the attacker's key `g^(e 0)` -/
def toyKnowledge : List Term :=
  [g, pub .b, pub .x, .const .nodeID, .const .protoID, .const .tMac, .const .tKey, .const .tVerify,
   .const .server, .nm (.e 0), .nm (.e 1), pub (.y 0), srvAuth (pub (.e 0)) 0, srvKeySeed (pub (.e 0)) 0]

example : NoSecretLeak (· ∈ toyKnowledge) where
  no_pair a c h := by simp [toyKnowledge, g, pub, srvAuth_eq, srvKeySeed_eq] at h
  no_secret_scalar n h := by
    simp [toyKnowledge, g, pub, srvAuth_eq, srvKeySeed_eq] at h
    rcases h with rfl | rfl <;> rfl
  one_secret s h := by
    simp [toyKnowledge, g, pub, srvAuth_eq, srvKeySeed_eq] at h
    rcases h with rfl | rfl | rfl | rfl <;> decide

/-! ### non-vacuity: with a secret the value IS derivable -/

/-- **`holder_can_answer`** — add `b` to the same knowledge and the AUTH value for the attacker's
    own server key `Y = g^e` becomes derivable (`exp(Y, x) = exp(X, e)` and `exp(B, x) = exp(X, b)`
    by the DH equation): the secrecy of `b` is what `impostor_needs_secret` rests on. -/
theorem holder_can_answer (srvIn : Nat → Term) (i : Nat) :
    Derivable (withTerm (K0 srvIn) (.nm .b)) (clientAuth (pub (.e i))) := by
  have up : ∀ t, K0 srvIn t → Derivable (withTerm (K0 srvIn) (.nm .b)) t := fun t h => .ax (Or.inl h)
  have hc : ∀ c, Derivable (withTerm (K0 srvIn) (.nm .b)) (.const c) := fun c => up _ (Or.inl ⟨c, rfl⟩)
  have hB := up (pub .b) (Or.inr (Or.inr (Or.inl rfl)))
  have hX := up (pub .x) (Or.inr (Or.inr (Or.inr (Or.inl rfl))))
  have he := up (.nm (.e i)) (Or.inr (Or.inr (Or.inr (Or.inr (Or.inl ⟨i, rfl⟩)))))
  have hb : Derivable (withTerm (K0 srvIn) (.nm .b)) (.nm .b) := .ax (Or.inr rfl)
  have hY : Derivable (withTerm (K0 srvIn) (.nm .b)) (pub (.e i)) :=
    .exp (t := g) (up g (Or.inr (Or.inl rfl))) he
  -- the two DH values, computed from X with the scalars the holder knows
  have h1 : Derivable (withTerm (K0 srvIn) (.nm .b)) (exp (pub (.e i)) .x) := .exp (t := pub .x) hX he
  have h2 : Derivable (withTerm (K0 srvIn) (.nm .b)) (exp (pub .b) .x) := .exp (t := pub .x) hX hb
  have hsuf : Derivable (withTerm (K0 srvIn) (.nm .b)) (suffix (.const .nodeID) (pub .b) (pub .x) (pub (.e i))) :=
    .pair hB (.pair hB (.pair hX (.pair hY (.pair (hc _) (hc _)))))
  exact .hmac (hc _) (.pair (.hmac (hc _) (.pair h1 (.pair h2 hsuf))) (.pair hsuf (hc _)))

/-- the other secret matters as well: with the client's ephemeral `x` the value is derivable for
    every derivable `Y` (so "neither `b` nor `x`" cannot be weakened) -/
theorem ephemeral_leak_breaks (srvIn : Nat → Term) (Y : Term)
    (hYd : Derivable (withTerm (K0 srvIn) (.nm .x)) Y) :
    Derivable (withTerm (K0 srvIn) (.nm .x)) (clientAuth Y) := by
  have up : ∀ t, K0 srvIn t → Derivable (withTerm (K0 srvIn) (.nm .x)) t := fun t h => .ax (Or.inl h)
  have hc : ∀ c, Derivable (withTerm (K0 srvIn) (.nm .x)) (.const c) := fun c => up _ (Or.inl ⟨c, rfl⟩)
  have hB := up (pub .b) (Or.inr (Or.inr (Or.inl rfl)))
  have hX := up (pub .x) (Or.inr (Or.inr (Or.inr (Or.inl rfl))))
  have hx : Derivable (withTerm (K0 srvIn) (.nm .x)) (.nm .x) := .ax (Or.inr rfl)
  have hsuf : Derivable (withTerm (K0 srvIn) (.nm .x)) (suffix (.const .nodeID) (pub .b) (pub .x) Y) :=
    .pair hB (.pair hB (.pair hX (.pair hYd (.pair (hc _) (hc _)))))
  exact .hmac (hc _) (.pair (.hmac (hc _) (.pair (.exp hYd hx) (.pair (.exp hB hx) hsuf))) (.pair hsuf (hc _)))

/-! ### the terms denote what the code computes -/

/-- **bytes ↔ terms, client side.**  For every choice of primitives `P`, valuation `ρ` of the
    scalars, base point, node ID and data, and every server key term `Y` the attacker can derive
    from `K0`: the symbolic `clientAuth Y` / `clientKeySeed Y` denote exactly the AUTH / KEY_SEED
    bytes `Ntor.clientHandshake` returns for the client's private key `ρ x`, its public key, the
    bytes of `Y`, the bridge public key and the node ID — the value `accept_iff` says the received
    AUTH field is compared with.  What remains assumed is only that the byte-level attacker can
    compute nothing but denotations of derivable terms. -/
theorem sym_terms_denote_code (P : Ntor.Prims) (ρ : Sym.Name → Bytes) (base id : Bytes) (dat : Nat → Bytes)
    (srvIn : Nat → Term) (Y : Term) (hY : Derivable (K0 srvIn) Y) :
    interp P ρ base id dat (clientAuth Y) =
      (Ntor.clientHandshake P (ρ .x) (interp P ρ base id dat (pub .x)) (interp P ρ base id dat Y)
        (interp P ρ base id dat (pub .b)) id).2.2 ∧
    interp P ρ base id dat (clientKeySeed Y) =
      (Ntor.clientHandshake P (ρ .x) (interp P ρ base id dat (pub .x)) (interp P ρ base id dat Y)
        (interp P ρ base id dat (pub .b)) id).2.1 :=
  interp_clientAuth P ρ base id dat Y (fun s hs => K0_derivable_sorted srvIn s (hs ▸ hY))

/-- the public keys denote the ladder on the base point: `⟦X⟧ = ScalarMult(x, base)` -/
example (P : Ntor.Prims) (ρ : Sym.Name → Bytes) (base id : Bytes) (dat : Nat → Bytes) :
    interp P ρ base id dat (pub .x) = P.x25519 (ρ .x) base ∧
    interp P ρ base id dat (pub .b) = P.x25519 (ρ .b) base := ⟨rfl, rfl⟩

end Symbolic

/-- **structural facts, regenerated from the Go source on every run (go/ast call sets)**: the
    ephemeral session key is generated (`ntor.NewKeypair`) in every `ParseArgs` (client) and in
    every `WrapConn` (server), never once per factory — what `fresh_keys` assumes about where the
    random stream is consumed; and the client verifies MAC and AUTH in `parseServerHandshake`
    (`hmac.Equal`, `ntor.CompareAuth`) before `clientHandshake` installs the link keys
    (`framing.NewEncoder`/`NewDecoder` are called there, not in the parser). -/
theorem fresh_keys_structure :
    "ntor.NewKeypair" ∈ O4.Facts.Obfs4.obfs4ClientFactory_ParseArgs_calls ∧
    "ntor.NewKeypair" ∈ O4.Facts.Obfs4.obfs4ServerFactory_WrapConn_calls ∧
    "ntor.NewKeypair" ∉ O4.Facts.Obfs4.Transport_ServerFactory_calls ∧
    "hmac.Equal" ∈ O4.Facts.Obfs4.clientHandshake_parseServerHandshake_calls ∧
    "ntor.CompareAuth" ∈ O4.Facts.Obfs4.clientHandshake_parseServerHandshake_calls ∧
    "framing.NewDecoder" ∉ O4.Facts.Obfs4.clientHandshake_parseServerHandshake_calls ∧
    "framing.NewDecoder" ∈ O4.Facts.Obfs4.obfs4Conn_clientHandshake_calls ∧
    -- every handshake object keys its own HMAC instance (no `hash.Hash` shared between
    -- concurrent handshakes of one factory)
    "hmac.New" ∈ O4.Facts.Obfs4.func_newServerHandshake_calls ∧
    "hmac.New" ∈ O4.Facts.Obfs4.func_newClientHandshake_calls ∧
    "newServerHandshake" ∈ O4.Facts.Obfs4.obfs4Conn_serverHandshake_calls ∧
    "newClientHandshake" ∈ O4.Facts.Obfs4.obfs4Conn_clientHandshake_calls ∧
    "hmac.New" ∉ O4.Facts.Obfs4.Transport_ServerFactory_calls := by
  decide

/-- **where the client's handshake timeout lives (go/ast call sets, regenerated on every run)**:
    `newObfs4ClientConn` arms and clears the 60 s deadline itself (`conn.SetDeadline` before and
    after `c.clientHandshake`), and `clientHandshake` — whose several return paths depend on how
    the server's flight was segmented — never touches a deadline; so every successful `Dial`
    leaves the connection without a deadline, whatever the chunking (the harness checks exactly
    that on every successful `Dial`: no deadline half armed). -/
theorem client_deadline_structure :
    "conn.SetDeadline" ∈ O4.Facts.Obfs4.func_newObfs4ClientConn_calls ∧
    "c.clientHandshake" ∈ O4.Facts.Obfs4.func_newObfs4ClientConn_calls ∧
    "Conn.SetDeadline" ∉ O4.Facts.Obfs4.obfs4Conn_clientHandshake_calls ∧
    "Conn.SetReadDeadline" ∉ O4.Facts.Obfs4.obfs4Conn_clientHandshake_calls ∧
    "Conn.SetDeadline" ∈ O4.Facts.Obfs4.obfs4Conn_serverHandshake_calls := by
  decide

/-- **a genuine request of EVERY legal padding length is accepted** by the server's parser — the
    bound is inclusive: with the maximum padding (`clientMaxPadLength` = 8128) the request is exactly
    `maxHandshakeLength` = 8192 bytes long and still accepted (`E2E.GenuineC`: representative decodes
    to the client's key, `clientMinPadLength ≤ |P_C| ≤ clientMaxPadLength`, the client's hour within
    ±1 of the server's, not a replay, ntor succeeds).  Proof: `E2E.srv_accept`; the whole read loop in
    any chunking: `C01.server_session_any_chunking`. -/
theorem genuine_request_any_padding_accepted (P : Prims) (hP : HmacLen P) (s0 : Server) (hs0 : s0.cache = none)
    (C : E2E.GenuineC P s0) (f : RF.Filter) (H now : Int)
    (hwin : ∃ off ∈ ([0, -1, 1] : List Int), C.hour = H + off)
    (hnr : NotReplay P s0 f H now C.blob C.pos) :
    (∃ s' f', parseClientHandshake P s0 f H now C.blob = (s', f', .ok C.keySeed)) ∧
    C.blob.length = clientMinHandshakeLength + C.pad.length ∧ C.blob.length ≤ maxHandshakeLength ∧
    (C.pad.length = clientMaxPadLength → C.blob.length = maxHandshakeLength) := by
  have hl := E2E.blobC_len hP hs0 C
  have hlen : C.blob.length = clientMinHandshakeLength + C.pad.length := by
    rw [hl]
    simp only [E2E.GenuineC.pos, representativeLength, markLength, macLength, clientMinHandshakeLength]
    omega
  refine ⟨E2E.srv_accept hP hs0 C s0 (Or.inl rfl) f H now hwin hnr, hlen, (E2E.blobC_bounds hP hs0 C).2, ?_⟩
  intro hmax
  rw [hlen, hmax]
  decide


/-- **structural fact, regenerated from the Go source on every run (go/ast)**: every package-level
    variable (file-scope `var`) of the packages this property's mechanisms live in
    (transports/obfs4, common/ntor, common/csrand) is one of the names below — error values, fixed byte strings,
    flags and function hooks that the code only reads after initialisation.  The models treat all
    other state as owned by one connection / one object; a NEW package-level variable (a cache, a
    pool, a scratch buffer, a pre-keyed hash shared "to save allocations") is how such state comes
    to be shared between connections and goroutines, which compiles, passes the tests and typically
    needs true parallelism or a multi-connection history to misbehave.  Adding one breaks this
    theorem; the concurrent / multi-connection families of the harness then search for the failing
    schedule. -/
theorem no_new_package_level_state :
    O4.Facts.Obfs4.pkg_vars ⊆ ["ErrInvalidHandshake", "ErrMarkNotFoundYet", "ErrNtorFailed", "ErrReplayedHandshake", "biasedDist", "zeroPadBytes"] ∧
    O4.Facts.Ntor.pkg_vars ⊆ ["mExpand", "protoID", "tKey", "tMac", "tVerify"] ∧
    O4.Facts.Csrand.pkg_vars ⊆ ["Rand", "Reader", "csRandSourceInstance"] := by
  decide

end C02
