import O4.Lemmas.Obfs4Ref
import O4.Generated.Facts.Ntor
import O4.Generated.Facts.Obfs4
import O4.Generated.Facts.Framing
import O4.Generated.Facts.Drbg
/-!
# C06 — the obfs4 wire format (handshake lengths, key schedule split, frame / nonce / packet
layout, the unpadded seed frame), over the constants regenerated from the Go tree

Property theorems only.  Models: `O4.Model.Handshake`, `O4.Model.Framing`, `O4.Model.Obfs4Conn`,
`O4.Model.Obfs4Ref` (the concrete reference implementation); helper lemmas:
`O4.Lemmas.Obfs4Ref`, `O4.Lemmas.Framing`, `O4.Lemmas.CryptoBasic`.

The *format* is fixed by these statements; that the Go code speaks it is established by the
byte-level tie of `harness/c06` (real client ↔ Lean server, Lean client ↔ real server,
re-derivation of every byte of real ↔ real sessions).
-/
namespace C06
open O4 O4.Handshake O4.Ref O4.Framing O4.Obfs4
open O4.Consts.Obfs4 O4.Consts.Ntor O4.Consts.Framing

/-! ## hypotheses on abstract primitives (lengths only) and their real instances -/

/-- HMAC-SHA256 returns `sha256.Size` bytes: `∀ k m, (P.hmac k m).length = keySeedLength` -/
abbrev HmacLen := HsLemmas.HmacLen

/-- the HKDF reader yields exactly the requested number of bytes (up to its entropy limit) -/
abbrev HkdfLen := HsLemmas.HkdfLen

theorem hmacLen_real : HmacLen Prims.real := fun k m => Crypto.hmacSha256_length k m

theorem hkdfLen_real : HkdfLen Prims.real := fun s salt info n hn => by
  show (Crypto.hkdf s salt info n).length = n
  unfold Crypto.hkdf
  exact Crypto.hkdfExpand_length _ _ n hn

example : HmacLen HsLemmas.toyPrims := fun k m => by simp [HsLemmas.toyPrims, keySeedLength]; omega
example : HkdfLen HsLemmas.toyPrims := fun s _ _ n _ => by simp [HsLemmas.toyPrims]

/-! ## handshake lengths -/

/-- **client handshake**: `X' ‖ P_C ‖ M_C ‖ MAC_C` is `clientMinHandshakeLength + |P_C|` long;
    for every pad length the code can draw that is between 141 and 8192 bytes. -/
theorem client_hs_length (P : Handshake.Prims) (hP : HmacLen P) (idPub nodeID repr pad : Bytes) (hour : Int)
    (hr : repr.length = representativeLength)
    (hlo : clientMinPadLength ≤ pad.length) (hhi : pad.length ≤ clientMaxPadLength) :
    (clientBlob P idPub nodeID repr pad hour).length = clientMinHandshakeLength + pad.length ∧
    clientMinHandshakeLength + clientMinPadLength ≤ (clientBlob P idPub nodeID repr pad hour).length ∧
    (clientBlob P idPub nodeID repr pad hour).length ≤ maxHandshakeLength ∧
    clientMinHandshakeLength + clientMinPadLength = 141 ∧ maxHandshakeLength = 8192 := by
  have hl : (clientBlob P idPub nodeID repr pad hour).length = clientMinHandshakeLength + pad.length := by
    simp only [clientBlob, List.length_append, HsLemmas.mark_length P hP, HsLemmas.mac_length P hP, hr]
    simp only [representativeLength, markLength, macLength, clientMinHandshakeLength]
    omega
  refine ⟨hl, ?_, ?_, by decide, by decide⟩
  · rw [hl]; omega
  · rw [hl]
    simp only [clientMaxPadLength, clientMinHandshakeLength, maxHandshakeLength] at *
    omega

example : ∃ pad : Bytes, clientMinPadLength ≤ pad.length ∧ pad.length ≤ clientMaxPadLength :=
  ⟨List.replicate 100 7, by decide, by decide⟩

/-- the same for what the reference client actually emits from any random tape -/
theorem client_hs_length_ref (nodeID idPub : Bytes) (hour : Int) (tape : Bytes) (cs : ClientStart)
    (h : clientStart nodeID idPub hour tape = some cs) :
    clientMinPadLength ≤ cs.padLen ∧ cs.padLen ≤ clientMaxPadLength ∧
    cs.blob.length = clientMinHandshakeLength + cs.padLen ∧
    141 ≤ cs.blob.length ∧ cs.blob.length ≤ 8192 ∧
    cs.hs.xRepr.length = representativeLength ∧ cs.lenSeed.length = Consts.Drbg.seedLength := by
  unfold clientStart at h
  cases hk : newKeypair keypairFuel tape with
  | none => rw [hk] at h; cases h
  | some kr =>
    obtain ⟨kp, t1⟩ := kr
    rw [hk] at h; simp only at h
    cases hs : takeN Drbg.seedLength t1 with
    | none => rw [hs] at h; cases h
    | some sr =>
      obtain ⟨seed, t2⟩ := sr
      rw [hs] at h; simp only at h
      cases hi : intRange clientMinPadLength clientMaxPadLength t2 with
      | none => rw [hi] at h; cases h
      | some ir =>
        obtain ⟨padLen, t3⟩ := ir
        rw [hi] at h; simp only at h
        cases hp : makePad padLen t3 with
        | none => rw [hp] at h; cases h
        | some pr =>
          obtain ⟨pad, t4⟩ := pr
          rw [hp] at h; simp only at h
          have hcs := Option.some.inj h
          subst hcs
          have hkl := HsLemmas.newKeypair_lengths _ _ _ _ hk
          have hib := HsLemmas.intRange_bounds _ _ _ _ _ hi
          have hpl := (HsLemmas.takeN_length _ _ _ _ hp).1
          have hsl := (HsLemmas.takeN_length _ _ _ _ hs).1
          have := client_hs_length Prims.real hmacLen_real idPub nodeID kp.repr pad hour hkl.2.2
            (by rw [hpl]; exact hib.1) (by rw [hpl]; exact hib.2)
          simp only at *
          rw [hpl] at this
          refine ⟨hib.1, hib.2, this.1, ?_, ?_, hkl.2.2, hsl⟩
          · have := this.2.1; omega
          · have := this.2.2.1; simp only [maxHandshakeLength] at this; omega

/-- **server handshake**: `Y' ‖ AUTH ‖ P_S ‖ M_S ‖ MAC_S` is `serverMinHandshakeLength + |P_S|`
    long: 96 … 8192 − 45, so that response + inline seed frame never exceed 8192. -/
theorem server_hs_length (P : Handshake.Prims) (hP : HmacLen P) (idPub nodeID repr auth pad : Bytes) (hour : Int)
    (hr : repr.length = representativeLength) (ha : auth.length = authLength)
    (hhi : pad.length ≤ serverMaxPadLength) :
    (serverBlob P idPub nodeID repr auth pad hour).length = serverMinHandshakeLength + pad.length ∧
    serverMinHandshakeLength ≤ (serverBlob P idPub nodeID repr auth pad hour).length ∧
    (serverBlob P idPub nodeID repr auth pad hour).length + inlineSeedFrameLength ≤ maxHandshakeLength ∧
    serverMinHandshakeLength = 96 ∧ maxHandshakeLength - inlineSeedFrameLength = 8192 - 45 := by
  have hl : (serverBlob P idPub nodeID repr auth pad hour).length = serverMinHandshakeLength + pad.length := by
    simp only [serverBlob, List.length_append, HsLemmas.mark_length P hP, HsLemmas.mac_length P hP, hr, ha]
    simp only [representativeLength, authLength, markLength, macLength, serverMinHandshakeLength]
    omega
  refine ⟨hl, ?_, ?_, by decide, by decide⟩
  · rw [hl]; omega
  · rw [hl]
    simp only [serverMaxPadLength, serverMinHandshakeLength, maxHandshakeLength, inlineSeedFrameLength] at *
    omega

example : ∃ pad : Bytes, pad.length ≤ serverMaxPadLength := ⟨[], by decide⟩

/-- what `WrapConn` draws before the first read is in range -/
theorem server_start_ref (nodeID idPriv tape : Bytes) (ss : ServerStart)
    (h : serverStart nodeID idPriv tape = some ss) :
    ss.padLen ≤ serverMaxPadLength ∧ ss.hs.yRepr.length = representativeLength := by
  unfold serverStart at h
  cases hk : newKeypair keypairFuel tape with
  | none => rw [hk] at h; cases h
  | some kr =>
    obtain ⟨kp, t1⟩ := kr
    rw [hk] at h; simp only at h
    cases hi : intRange serverMinPadLength serverMaxPadLength t1 with
    | none => rw [hi] at h; cases h
    | some ir =>
      obtain ⟨padLen, t2⟩ := ir
      rw [hi] at h; simp only at h
      have hcs := Option.some.inj h
      subst hcs
      exact ⟨(HsLemmas.intRange_bounds _ _ _ _ _ hi).2, (HsLemmas.newKeypair_lengths _ _ _ _ hk).2.2⟩

/-! ## key schedule -/

/-- **KDF split**: 144 bytes of OKM; the client's encoder block is `okm[0:72]` and is the
    server's decoder block, the client's decoder block is `okm[72:144]` and is the server's
    encoder block (the code's direction, not the spec text's). -/
theorem kdf_split (P : Handshake.Prims) (hP : HkdfLen P) (keySeed : Bytes) :
    (okm P keySeed).length = 144 ∧
    clientEncKey (okm P keySeed) = (okm P keySeed).take 72 ∧
    clientDecKey (okm P keySeed) = (okm P keySeed).drop 72 ∧
    serverDecKey (okm P keySeed) = clientEncKey (okm P keySeed) ∧
    serverEncKey (okm P keySeed) = clientDecKey (okm P keySeed) ∧
    (clientEncKey (okm P keySeed)).length = KeyLength ∧
    (clientDecKey (okm P keySeed)).length = KeyLength ∧
    clientEncKey (okm P keySeed) ++ clientDecKey (okm P keySeed) = okm P keySeed := by
  have hl : (okm P keySeed).length = 144 := by
    unfold okm Ntor.kdf
    rw [hP _ _ _ _ (by decide)]; decide
  refine ⟨hl, rfl, rfl, rfl, rfl, ?_, ?_, ?_⟩
  · simp [clientEncKey, hl, KeyLength]
  · simp [clientDecKey, hl, KeyLength]
  · simp [clientEncKey, clientDecKey]

/-- the reference endpoints' link keys: crossed, 72 bytes each -/
theorem kdf_split_ref (keySeed : Bytes) :
    (clientKeys keySeed).enc = (serverKeys keySeed).dec ∧
    (clientKeys keySeed).dec = (serverKeys keySeed).enc ∧
    (clientKeys keySeed).enc.length = KeyLength ∧ (clientKeys keySeed).dec.length = KeyLength :=
  ⟨rfl, rfl, (kdf_split Prims.real hkdfLen_real keySeed).2.2.2.2.2.1,
    (kdf_split Prims.real hkdfLen_real keySeed).2.2.2.2.2.2.1⟩

/-- a 72-byte key block is box key (32) ‖ nonce prefix (16) ‖ DRBG seed (24) -/
theorem key_block_layout (key : Bytes) (hk : key.length = KeyLength) :
    key = boxKey key ++ noncePrefix key ++ drbgSeed key ∧
    (boxKey key).length = keyLength ∧ (noncePrefix key).length = noncePrefixLength ∧
    (drbgSeed key).length = Consts.Drbg.seedLength ∧
    keyLength = 32 ∧ noncePrefixLength = 16 ∧ Consts.Drbg.seedLength = 24 := by
  simp only [KeyLength] at hk
  refine ⟨?_, ?_, ?_, ?_, rfl, rfl, rfl⟩
  · simp only [boxKey, noncePrefix, drbgSeed, keyLength, noncePrefixLength]
    rw [List.append_assoc, ← List.drop_drop, List.take_append_drop, List.take_append_drop]
  · simp [boxKey, keyLength, hk]
  · simp [noncePrefix, keyLength, noncePrefixLength, hk]
  · simp [drbgSeed, keyLength, noncePrefixLength, Consts.Drbg.seedLength, hk]

example : (List.replicate 72 (5 : UInt8)).length = KeyLength := by decide

/-- **structural facts about the ntor key schedule, regenerated from the Go source on every run
    (go/ast call sets of `common/ntor`)**: `ntorCommon` keys its three HMACs (`t_key`, `t_verify`,
    `t_mac`) itself, with `hmac.New`, on every call — no keyed `hash.Hash` is shared between
    handshakes, so concurrent handshakes compute what sequential ones do (the model's `ntorCommon` is
    a pure function) — and both `ClientHandshake` and `ServerHandshake` go through it with
    `curve25519.ScalarMult`; `Kdf` reads the 144-byte OKM from `hkdf.New`. -/
theorem key_schedule_structure :
    "hmac.New" ∈ O4.Facts.Ntor.func_ntorCommon_calls ∧
    "ntorCommon" ∈ O4.Facts.Ntor.func_ClientHandshake_calls ∧
    "ntorCommon" ∈ O4.Facts.Ntor.func_ServerHandshake_calls ∧
    "curve25519.ScalarMult" ∈ O4.Facts.Ntor.func_ClientHandshake_calls ∧
    "curve25519.ScalarMult" ∈ O4.Facts.Ntor.func_ServerHandshake_calls ∧
    "hkdf.New" ∈ O4.Facts.Ntor.func_Kdf_calls := by
  decide

/-- **the packet layer of the two directions shares no connection state** (go/ast field sets of
    `transports/obfs4`, regenerated on every run): `makePacket` / `padBurst` (the `Write` path) touch
    only the encoder, and nothing they touch is touched by `processReceiveBuffer` / `readPackets`
    (the `Read` path) — in particular no scratch buffer for packet plaintexts is shared, so a
    `Write` and a `Read` in progress at the same time on one connection cannot mix the packet being
    assembled with the one being taken apart (the model's `makePacket` and `parsePacket` are pure
    functions of their arguments). -/
theorem packet_scratch_private :
    (∀ f, f ∈ O4.Facts.Obfs4.obfs4Conn_makePacket_fields → f ∉ O4.Facts.Obfs4.obfs4Conn_processReceiveBuffer_fields) ∧
    (∀ f, f ∈ O4.Facts.Obfs4.obfs4Conn_makePacket_fields → f ∉ O4.Facts.Obfs4.obfs4Conn_readPackets_fields) ∧
    (∀ f, f ∈ O4.Facts.Obfs4.obfs4Conn_padBurst_fields → f ∉ O4.Facts.Obfs4.obfs4Conn_readPackets_fields) ∧
    O4.Facts.Obfs4.obfs4Conn_makePacket_fields = ["encoder"] := by
  decide

/-! ## the epoch hour -/

/-- **decimal hour**: `epochStr` (= `strconv.FormatInt(·, 10)`) is injective on ℤ — distinct
    hours are distinct MAC inputs (used by C04) — and renders as expected. -/
theorem epoch_decimal (a b : Int) (h : epochStr a = epochStr b) : a = b :=
  HsLemmas.epochStr_injective a b h

/-- "480123", "-7", "0" in ASCII -/
example : epochStr 480123 = [52, 56, 48, 49, 50, 51] ∧ epochStr (-7) = [45, 55] ∧ epochStr 0 = [48] := by
  decide

/-! ## link crypto: nonce, length mask, frames -/

private theorem toNatBE_snoc (l : Bytes) (x : UInt8) : Bytes.toNatBE (l ++ [x]) = Bytes.toNatBE l * 256 + x.toNat := by
  simp [Bytes.toNatBE, List.foldl_append]

private theorem ofNatBE_length (len n : Nat) : (Bytes.ofNatBE len n).length = len := by
  induction len generalizing n with
  | zero => rfl
  | succ l ih => simp [Bytes.ofNatBE, ih]

private theorem toNatBE_ofNatBE (len n : Nat) : Bytes.toNatBE (Bytes.ofNatBE len n) = n % 256 ^ len := by
  induction len generalizing n with
  | zero => simp [Bytes.ofNatBE, Bytes.toNatBE, Nat.mod_one]
  | succ l ih =>
    rw [Bytes.ofNatBE, toNatBE_snoc, ih, UInt8.toNat_ofNat']
    have h1 : n % 256 % 2 ^ 8 = n % 256 := Nat.mod_eq_of_lt (by omega)
    have h2 : 256 ^ (l + 1) = 256 * 256 ^ l := by rw [Nat.pow_succ, Nat.mul_comm]
    rw [h1, h2, Nat.mod_mul, Nat.mul_comm, Nat.add_comm]

/-- **nonce**: 16-byte prefix ‖ 64-bit big-endian counter (24 bytes); the counter of the first
    frame of a direction is 1. -/
theorem nonce_layout (pfx : Bytes) (n : Nat) (hp : pfx.length = noncePrefixLength) :
    nonceBytes pfx n = pfx ++ Bytes.ofNatBE 8 n ∧
    (nonceBytes pfx n).length = nonceLength ∧
    (nonceBytes pfx n).take 16 = pfx ∧
    Bytes.toNatBE ((nonceBytes pfx n).drop 16) = n % 2 ^ 64 ∧
    nonceBytes pfx 1 = pfx ++ [0, 0, 0, 0, 0, 0, 0, 1] := by
  simp only [noncePrefixLength] at hp
  refine ⟨rfl, ?_, ?_, ?_, rfl⟩
  · simp [nonceBytes, ofNatBE_length, nonceCounterLength, nonceLength, hp]
  · simp [nonceBytes, ← hp]
  · have : (nonceBytes pfx n).drop 16 = Bytes.ofNatBE 8 n := by
      simp [nonceBytes, nonceCounterLength, ← hp]
    rw [this, toNatBE_ofNatBE]

example : (List.replicate 16 (9 : UInt8)).length = noncePrefixLength := by decide

private theorem be16_lt (b : Bytes) : be16 b < 65536 := by
  unfold be16
  have h0 := (b.getD 0 0).toNat_lt
  have h1 := (b.getD 1 0).toNat_lt
  omega

@[simp] private theorem linkCrypto_sealB (key : Bytes) (rnd : Nat → Nat) (n : Nat) (p : Bytes) :
    (linkCrypto key rnd).sealB n p = Crypto.secretboxSeal (boxKey key) (nonceBytes (noncePrefix key) n) p := rfl
@[simp] private theorem linkCrypto_openB (key : Bytes) (rnd : Nat → Nat) (n : Nat) (b : Bytes) :
    (linkCrypto key rnd).openB n b = Crypto.secretboxOpen (boxKey key) (nonceBytes (noncePrefix key) n) b := rfl
@[simp] private theorem linkCrypto_mask (key : Bytes) (rnd : Nat → Nat) (k : Nat) :
    (linkCrypto key rnd).mask k = lengthMask (drbgSeed key) k := rfl

/-- the mask is a 16-bit value -/
theorem mask_lt (seed : Bytes) (k : Nat) : lengthMask seed k < 65536 := be16_lt _

/-- **the concrete link crypto is correct** (`Framing.CryptoOK` = `BoxCorrect`): every frame
    theorem proved for abstract crypto applies to the deployed XSalsa20-Poly1305 instance. -/
theorem concrete_crypto_ok (key : Bytes) (rnd : Nat → Nat) : CryptoOK (linkCrypto key rnd) where
  seal_len n p := by rw [linkCrypto_sealB]; exact Crypto.secretboxSeal_length _ _ p
  open_seal n p := by rw [linkCrypto_sealB, linkCrypto_openB]; exact Crypto.secretboxOpen_seal _ _ p

/-- **frame layout**: a frame is a 2-byte big-endian length field, holding
    `mask_k ⊕ (16 + |pkt|)`, followed by the secretbox of the packet under the nonce with counter
    `k+1` (frame index `k` from 0); it is `18 + |pkt| ≤ 1448` bytes long. -/
theorem frame_layout (key : Bytes) (rnd : Nat → Nat) (k : Nat) (pkt f : Bytes)
    (h : encodeFrame (linkCrypto key rnd) k pkt = .ok f) :
    pkt.length ≤ maximumFramePayloadLength ∧
    f = putBe16 ((16 + pkt.length) ^^^ lengthMask (drbgSeed key) k) ++
          Crypto.secretboxSeal (boxKey key) (nonceBytes (noncePrefix key) (k + 1)) pkt ∧
    f.take 2 = [UInt8.ofNat (((16 + pkt.length) ^^^ lengthMask (drbgSeed key) k) / 256),
                UInt8.ofNat (((16 + pkt.length) ^^^ lengthMask (drbgSeed key) k) % 256)] ∧
    be16 f ^^^ lengthMask (drbgSeed key) k = 16 + pkt.length ∧
    f.length = frameOverhead + pkt.length ∧ f.length ≤ maximumSegmentLength ∧
    frameOverhead = 18 ∧ maximumSegmentLength = 1448 := by
  unfold encodeFrame at h
  split at h
  · cases h
  · rename_i hlen
    split at h
    · cases h
    · have hf := Except.ok.inj h
      have hm : lengthMask (drbgSeed key) k % 65536 = lengthMask (drbgSeed key) k :=
        Nat.mod_eq_of_lt (mask_lt _ _)
      have hsl : (Crypto.secretboxSeal (boxKey key) (nonceBytes (noncePrefix key) (k + 1)) pkt).length
          = pkt.length + 16 := Crypto.secretboxSeal_length _ _ _
      have hf' : f = putBe16 ((16 + pkt.length) ^^^ lengthMask (drbgSeed key) k) ++
          Crypto.secretboxSeal (boxKey key) (nonceBytes (noncePrefix key) (k + 1)) pkt := by
        rw [← hf, linkCrypto_sealB, linkCrypto_mask, hsl, hm, Nat.add_comm]
      have hp : pkt.length ≤ maximumFramePayloadLength := Nat.le_of_not_lt hlen
      have hlt : (16 + pkt.length) ^^^ lengthMask (drbgSeed key) k < 65536 :=
        xor_lt _ _ (by simp only [maximumFramePayloadLength] at hp; omega) (mask_lt _ _)
      refine ⟨hp, hf', ?_, ?_, ?_, ?_, rfl, rfl⟩
      · rw [hf']; rfl
      · rw [hf', be16_putBe16 _ hlt, xor_cancel]
      · rw [hf', List.length_append, putBe16_length, hsl]; simp only [frameOverhead]; omega
      · rw [hf', List.length_append, putBe16_length, hsl]
        simp only [maximumFramePayloadLength, maximumSegmentLength] at *; omega

example (key : Bytes) : encodeFrame (linkCrypto key) 0 [0, 0, 0] = .ok (frameOf (linkCrypto key) 0 [0, 0, 0]) := by
  unfold encodeFrame
  rw [if_neg (by decide), if_neg (by decide)]
  rfl

/-- **decode ∘ encode**: the model decoder run on any honestly encoded packet sequence (any key
    block, any starting frame index) returns exactly the packets and consumes the stream. -/
theorem decode_encode (key : Bytes) (rnd : Nat → Nat) (pkts : List Bytes) (k : Nat)
    (hp : ∀ p ∈ pkts, p.length ≤ maximumFramePayloadLength) (hk : k + pkts.length < ctrLimit - 1) :
    Framing.run (linkCrypto key rnd) (2 * pkts.length + 1) ⟨k, none⟩ (encodeAll (linkCrypto key rnd) k pkts)
      = (⟨k + pkts.length, none⟩, pkts.map Out.frame, []) :=
  roundtrip (linkCrypto key rnd) (concrete_crypto_ok key rnd) pkts k hp hk

example : (∀ p ∈ [[1, 2, 3], ([] : Bytes)], p.length ≤ maximumFramePayloadLength) ∧ 0 + 2 < ctrLimit - 1 := by
  decide

/-! ## the length mask: SipHash-2-4 in output feedback with a *running* state -/

/-- everything that has been written into the generator's SipHash instance when block `k` is
    produced: the IV followed by all earlier blocks -/
def drbgInput (seed : Bytes) : Nat → Bytes
  | 0 => (seed.drop 16).take Drbg.size
  | k + 1 => drbgInput seed k ++ drbgBlock seed k

private theorem after_succ (n : Nat) (d : Drbg.HashDrbg) :
    Drbg.HashDrbg.after (n + 1) d = (Drbg.HashDrbg.after n d).nextBlock.2 := by
  induction n generalizing d with
  | zero => rfl
  | succ n ih =>
    show Drbg.HashDrbg.after (n + 1) d.nextBlock.2 = _
    rw [ih]; rfl

private theorem drbg_inv (seed : Bytes) (k : Nat) :
    ((Drbg.newHashDrbg seed).after k).sip.write ((Drbg.newHashDrbg seed).after k).ofb =
      (Crypto.SipHash.Digest.new (Crypto.sipKey (seed.take 16)).1 (Crypto.sipKey (seed.take 16)).2).write
        (drbgInput seed k) := by
  induction k with
  | zero => rfl
  | succ k ih =>
    rw [after_succ]
    show (((Drbg.newHashDrbg seed).after k).sip.write ((Drbg.newHashDrbg seed).after k).ofb).write
        (drbgBlock seed k) = _
    rw [ih, Crypto.SipHash.Digest.write_append]
    rfl

/-- **running SipHash state**: the mask of frame `k` is the first two bytes (big endian) of
    DRBG block `k`, and block `k` is SipHash-2-4, keyed with `seed[0:16]`, of the IV `seed[16:24]`
    followed by **all** previous blocks — the hash is never reset between blocks (the deployed
    behaviour; doc/obfs4-spec.txt reads as if each block hashed the previous block alone). -/
theorem mask_running (seed : Bytes) (k : Nat) :
    lengthMask seed k = be16 (drbgBlock seed k) ∧
    drbgBlock seed k = Crypto.SipHash.leBytes
      (Crypto.sipHash24 (Crypto.sipKey (seed.take 16)).1 (Crypto.sipKey (seed.take 16)).2 (drbgInput seed k)) ∧
    drbgInput seed (k + 1) = drbgInput seed k ++ drbgBlock seed k := by
  refine ⟨rfl, ?_, rfl⟩
  show Crypto.SipHash.leBytes
      (((Drbg.newHashDrbg seed).after k).sip.write ((Drbg.newHashDrbg seed).after k).ofb).sum64 = _
  rw [drbg_inv]
  rfl

/-! ## packets -/

private theorem zeros_length (n : Nat) : (Bytes.zeros n).length = n := by simp [Bytes.zeros]

/-- **packet layout**: type ‖ big-endian 16-bit payload length ‖ payload ‖ zero padding, at most
    1430 bytes; the receiver's view inverts it: `splitPacket ∘ makePacket = id`, and
    a payload packet delivers exactly its payload. -/
theorem packet_layout (ty : Nat) (data : Bytes) (padLen : Nat) (hty : ty < 256)
    (h : data.length + padLen ≤ maxPacketPayloadLength) :
    ∃ pkt, makePacket ty data padLen = some pkt ∧
      pkt = UInt8.ofNat ty :: UInt8.ofNat (data.length / 256) :: UInt8.ofNat (data.length % 256) ::
              (data ++ List.replicate padLen 0) ∧
      pkt.length = packetOverhead + data.length + padLen ∧ pkt.length ≤ maximumFramePayloadLength ∧
      splitPacket pkt = some (ty, data, List.replicate padLen 0) ∧
      (ty = packetTypePayload → ∀ isServer, payloadOf isServer pkt = data) := by
  have hmk : makePacket ty data padLen = some (UInt8.ofNat ty :: UInt8.ofNat (data.length / 256) ::
      UInt8.ofNat (data.length % 256) :: (data ++ List.replicate padLen 0)) := by
    unfold makePacket
    rw [if_neg (by omega)]
    simp [putBe16, Bytes.zeros]
  refine ⟨_, hmk, rfl, ?_, ?_, ?_, ?_⟩
  · simp [packetOverhead]; omega
  · simp only [maxPacketPayloadLength, maximumFramePayloadLength] at *; simp; omega
  all_goals
    have hdl : data.length < 65536 := by simp only [maxPacketPayloadLength] at h; omega
    have hbe : be16 ([UInt8.ofNat (data.length / 256), UInt8.ofNat (data.length % 256)] ++
        (data ++ List.replicate padLen 0)) = data.length := by
      have := be16_putBe16 data.length hdl (data ++ List.replicate padLen 0)
      simpa [putBe16] using this
  · unfold splitPacket
    have hl : ¬ (UInt8.ofNat ty :: UInt8.ofNat (data.length / 256) :: UInt8.ofNat (data.length % 256) ::
        (data ++ List.replicate padLen 0)).length < packetOverhead := by simp [packetOverhead]
    rw [if_neg hl]
    simp only [List.drop_succ_cons, List.drop_zero]
    have hbe' : be16 (UInt8.ofNat (data.length / 256) :: UInt8.ofNat (data.length % 256) ::
        (data ++ List.replicate padLen 0)) = data.length := hbe
    rw [hbe']
    have : ¬ data.length > (UInt8.ofNat ty :: UInt8.ofNat (data.length / 256) :: UInt8.ofNat (data.length % 256) ::
        (data ++ List.replicate padLen 0)).length - packetOverhead := by simp [packetOverhead]
    rw [if_neg this]
    simp [UInt8.toNat_ofNat', Nat.mod_eq_of_lt hty]
  · intro hty0 isServer
    subst hty0
    unfold payloadOf parsePacket
    have hl : ¬ (UInt8.ofNat packetTypePayload :: UInt8.ofNat (data.length / 256) :: UInt8.ofNat (data.length % 256) ::
        (data ++ List.replicate padLen 0)).length < packetOverhead := by simp [packetOverhead]
    rw [if_neg hl]
    simp only [List.drop_succ_cons, List.drop_zero]
    have hbe' : be16 (UInt8.ofNat (data.length / 256) :: UInt8.ofNat (data.length % 256) ::
        (data ++ List.replicate padLen 0)) = data.length := hbe
    rw [hbe']
    have : ¬ data.length > (UInt8.ofNat packetTypePayload :: UInt8.ofNat (data.length / 256) :: UInt8.ofNat (data.length % 256) ::
        (data ++ List.replicate padLen 0)).length - packetOverhead := by simp [packetOverhead]
    rw [if_neg this]
    have hty' : ((UInt8.ofNat packetTypePayload :: UInt8.ofNat (data.length / 256) :: UInt8.ofNat (data.length % 256) ::
        (data ++ List.replicate padLen 0)).getD 0 0).toNat = packetTypePayload := by
      simp [UInt8.toNat_ofNat', Nat.mod_eq_of_lt hty]
    simp only [hty', ↓reduceIte]
    by_cases hd : data.length > 0
    · simp [hd]
    · have : data = [] := List.eq_nil_of_length_eq_zero (by omega)
      simp [this]

example : (5 : Nat) < 256 ∧ ([1, 2, 3] : Bytes).length + 1427 - 3 ≤ maxPacketPayloadLength := by decide

/-- the other packet types, with ANY amount of padding: a type-1 packet whose payload is the
    24-byte seed is adopted by the client (and ignored by the server) however much zero padding
    follows; every packet of an unknown type is ignored — none of them delivers a byte. -/
theorem packet_other_types (ty : Nat) (data : Bytes) (padLen : Nat) (hty : ty < 256)
    (h : data.length + padLen ≤ maxPacketPayloadLength) (pkt : Bytes)
    (hpkt : makePacket ty data padLen = some pkt) :
    (ty = packetTypePrngSeed → data.length = seedPacketPayloadLength →
      parsePacket false pkt = .seed data ∧ parsePacket true pkt = .ignored) ∧
    (ty ≠ packetTypePayload → ty ≠ packetTypePrngSeed → ∀ isServer, parsePacket isServer pkt = .ignored) ∧
    (ty ≠ packetTypePayload → ∀ isServer, payloadOf isServer pkt = []) := by
  obtain ⟨pkt', hmk, hshape, _, _, _, _⟩ := packet_layout ty data padLen hty h
  rw [hmk] at hpkt
  have hp := Option.some.inj hpkt
  subst hp
  have hdl : data.length < 65536 := by simp only [maxPacketPayloadLength] at h; omega
  have hbe : be16 (UInt8.ofNat (data.length / 256) :: UInt8.ofNat (data.length % 256) ::
      (data ++ List.replicate padLen 0)) = data.length := by
    have := be16_putBe16 data.length hdl (data ++ List.replicate padLen 0)
    simpa [putBe16] using this
  have hparse : ∀ isServer, parsePacket isServer pkt' =
      if ty = packetTypePayload then (if data.length > 0 then .payload data else .ignored)
      else if ty = packetTypePrngSeed then
        (if data.length = seedPacketPayloadLength ∧ (!isServer) = true then .seed data else .ignored)
      else .ignored := by
    intro isServer
    rw [hshape]
    unfold parsePacket
    have hl : ¬ (UInt8.ofNat ty :: UInt8.ofNat (data.length / 256) :: UInt8.ofNat (data.length % 256) ::
        (data ++ List.replicate padLen 0)).length < packetOverhead := by simp [packetOverhead]
    rw [if_neg hl]
    simp only [List.drop_succ_cons, List.drop_zero]
    rw [hbe]
    have : ¬ data.length > (UInt8.ofNat ty :: UInt8.ofNat (data.length / 256) :: UInt8.ofNat (data.length % 256) ::
        (data ++ List.replicate padLen 0)).length - packetOverhead := by simp [packetOverhead]
    rw [if_neg this]
    have hty' : ((UInt8.ofNat ty :: UInt8.ofNat (data.length / 256) :: UInt8.ofNat (data.length % 256) ::
        (data ++ List.replicate padLen 0)).getD 0 0).toNat = ty := by
      simp [UInt8.toNat_ofNat', Nat.mod_eq_of_lt hty]
    simp only [hty', List.take_left']
  refine ⟨?_, ?_, ?_⟩
  · intro h1 h2
    have hne : ¬ packetTypePrngSeed = packetTypePayload := by decide
    subst h1
    constructor
    · rw [hparse, if_neg hne, if_pos rfl, if_pos ⟨h2, rfl⟩]
    · rw [hparse, if_neg hne, if_pos rfl, if_neg (by simp)]
  · intro h0 h1 isServer
    rw [hparse]; simp [h0, h1]
  · intro h0 isServer
    unfold payloadOf
    rw [hparse]
    simp only [h0, ↓reduceIte]
    by_cases h1 : ty = packetTypePrngSeed
    · simp only [h1, ↓reduceIte]
      by_cases h2 : data.length = seedPacketPayloadLength ∧ (!isServer) = true
      · rw [if_pos h2]
      · rw [if_neg h2]
    · simp only [h1, ↓reduceIte]

example : makePacket 7 [1, 2, 3] 1400 ≠ none := by decide


/-- **the seed frame** sent right behind the server response is the 45-byte frame of an
    *unpadded* type-1 packet carrying the 24-byte seed, sealed under the server→client key
    block with frame index 0 (nonce counter 1). -/
theorem seed_frame_len (encKey lenSeed : Bytes) (hs : lenSeed.length = seedPacketPayloadLength) :
    ∃ f, seedFrame encKey lenSeed = some f ∧
      f = frameOf (linkCrypto encKey) 0 (UInt8.ofNat packetTypePrngSeed :: 0 :: 24 :: lenSeed) ∧
      splitPacket (UInt8.ofNat packetTypePrngSeed :: 0 :: 24 :: lenSeed) = some (packetTypePrngSeed, lenSeed, []) ∧
      f.length = inlineSeedFrameLength ∧ inlineSeedFrameLength = 45 := by
  have hs24 : lenSeed.length = 24 := hs
  obtain ⟨pkt, hmk, hpkt, hlen, hmax, hsplit, _⟩ :=
    packet_layout packetTypePrngSeed lenSeed 0 (by decide) (by rw [hs24]; decide)
  have hpkt' : pkt = UInt8.ofNat packetTypePrngSeed :: 0 :: 24 :: lenSeed := by
    rw [hpkt, hs24]; simp
  rw [hpkt'] at hmk hlen hmax hsplit
  have henc : encodeFrame (linkCrypto encKey) 0 (UInt8.ofNat packetTypePrngSeed :: 0 :: 24 :: lenSeed)
      = .ok (frameOf (linkCrypto encKey) 0 (UInt8.ofNat packetTypePrngSeed :: 0 :: 24 :: lenSeed)) := by
    unfold encodeFrame
    rw [if_neg (by omega), if_neg (by decide)]
    rfl
  refine ⟨_, ?_, rfl, ?_, ?_, rfl⟩
  · unfold seedFrame
    rw [hmk]; simp only
    rw [henc]
  · simpa using hsplit
  · have := (frame_layout encKey _ 0 _ _ henc).2.2.2.2.1
    rw [this, hlen, hs24]; decide

example : (List.replicate 24 (3 : UInt8)).length = seedPacketPayloadLength := by decide


/-- **structural fact, regenerated from the Go source on every run (go/ast)**: every package-level
    variable (file-scope `var`) of the packages this property's mechanisms live in
    (transports/obfs4, transports/obfs4/framing, common/drbg, common/ntor) is one of the names below — error values, fixed byte strings,
    flags and function hooks that the code only reads after initialisation.  The models treat all
    other state as owned by one connection / one object; a NEW package-level variable (a cache, a
    pool, a scratch buffer, a pre-keyed hash shared "to save allocations") is how such state comes
    to be shared between connections and goroutines, which compiles, passes the tests and typically
    needs true parallelism or a multi-connection history to misbehave.  Adding one breaks this
    theorem; the concurrent / multi-connection families of the harness then search for the failing
    schedule. -/
theorem no_new_package_level_state :
    O4.Facts.Obfs4.pkg_vars ⊆ ["ErrInvalidHandshake", "ErrMarkNotFoundYet", "ErrNtorFailed", "ErrReplayedHandshake", "biasedDist", "zeroPadBytes"] ∧
    O4.Facts.Framing.pkg_vars ⊆ ["ErrAgain", "ErrNonceCounterWrapped", "ErrTagMismatch"] ∧
    O4.Facts.Drbg.pkg_vars ⊆ [] ∧
    O4.Facts.Ntor.pkg_vars ⊆ ["mExpand", "protoID", "tKey", "tMac", "tVerify"] := by
  decide

end C06
