import O4.Model.Obfs4Ref
namespace C06
end C06
