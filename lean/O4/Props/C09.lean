import O4.Lemmas.Obfs4Shaping
import O4.Model.ProbDist
import O4.Generated.Facts.Probdist
import O4.Generated.Facts.Obfs4
import O4.Generated.Facts.Drbg
import O4.Generated.Facts.Csrand
/-!
# C09 — obfs4 traffic shaping follows the seeded distributions, never crashes

Property theorems only (model: `O4/Model/Obfs4Shaping.lean`, lemmas: `O4/Lemmas/Obfs4Shaping.lean`).
Constants (`MaximumSegmentLength`, `headerLength`, `maxPacketPayloadLength`, …) are regenerated
from the Go tree on every run and the arithmetic is re-proved against them.

The theorems about `write` are about the code **after** the `fix:` commit of defect F2
(`fixed = true`) and hold for every sampler (any state type, any `len`/`iat` functions, i.e. any
sample stream) whose length samples are at most one segment — which `C12.sample_in_table`
gives for the `[0, MSS]` length distribution.  `prefix_zero_sample_panics` is the kernel-checked
witness that `paranoid_exact`/`write_no_panic` were false of the code before the fix;
`only_zero_table_never_finishes` and `single_value_table_pads_forever` are the witnesses of the two
recorded findings (termination is almost-sure at best, and fails surely for those tables).
-/
namespace C09
open O4 O4.Shaping

/-- **padBurst** (all buffered lengths `L`, all targets `t ≤ MSS`): appends 0, 1 or 2 frames and
    never panics; every `makePacket` precondition holds (no `uint16` truncation, padding argument
    `≤ maxPacketPaddingLength`); every appended frame is `≤ MSS`; afterwards the burst length is
    `≡ t (mod MSS)` when the needed padding is `0` or larger than a header, and `≡ t + headerLength`
    when it is `1 … headerLength` (the code's branch is `padLen ≤ headerLength`, so a needed padding
    of exactly one header also ends on `t + headerLength` — DESIGN §4 C09 interpretation note). -/
theorem padburst (L t : Nat) (ht : t ≤ Consts.Framing.maximumSegmentLength) :
    ∃ fs, padBurst L t = .ok fs ∧ fs.length ≤ 2 ∧
      (L + padLen L t) % mss = t % mss ∧ padLen L t ≤ mss ∧
      (padLen L t > headerLength →
        u16 (padLen L t - headerLength) = padLen L t - headerLength ∧
        padLen L t - headerLength ≤ maxPacketPaddingLength) ∧
      (padLen L t ≤ headerLength →
        u16 (padLen L t) = padLen L t ∧ padLen L t ≤ maxPacketPaddingLength ∧
        u16 maxPacketPayloadLength = maxPacketPayloadLength) ∧
      (∀ f ∈ fs, f ≤ mss) ∧
      ((padLen L t = 0 ∨ padLen L t > headerLength) → (L + fs.sum) % mss = t % mss) ∧
      ((0 < padLen L t ∧ padLen L t ≤ headerLength) →
        (L + fs.sum) % mss = (t + headerLength) % mss) := by
  have ht' : t ≤ mss := ht
  have heq := padBurst_eq L t ht'
  have hmod := padLen_mod L t ht'
  have hle := padLen_le L t ht'
  refine ⟨_, heq, ?_, hmod, hle, ?_, ?_, ?_, ?_, ?_⟩
  · split
    · simp
    · split <;> simp
  · intro h
    unfold u16
    generalize padLen L t = p at *
    unfold_consts
    omega
  · intro h
    unfold u16
    generalize padLen L t = p at *
    unfold_consts
    refine ⟨by omega, by omega, by decide⟩
  · intro f hf
    generalize padLen L t = p at *
    by_cases h1 : p > headerLength
    · rw [if_pos h1] at hf; simp at hf; omega
    · rw [if_neg h1] at hf
      by_cases h2 : p > 0
      · rw [if_pos h2] at hf
        simp at hf
        unfold_consts
        omega
      · rw [if_neg h2] at hf; simp at hf
  · intro h
    generalize padLen L t = p at *
    by_cases h1 : p > headerLength
    · rw [if_pos h1]; simpa using hmod
    · have h0 : p = 0 := by omega
      subst h0
      simpa using hmod
  · intro h
    generalize padLen L t = p at *
    rw [if_neg (by omega), if_pos h.1]
    simp only [List.sum_cons, List.sum_nil]
    unfold_consts
    omega

/-- non-vacuity: `padBurst` with 1400 bytes buffered and target 1410 (needed padding 10 ≤ 21)
    appends a full frame and a 31-byte frame and ends on `1410 + 21` -/
example : padBurst 1400 1410 = .ok [1448, 31] ∧ (1400 + 1448 + 31) % 1448 = (1410 + 21) % 1448 :=
  ⟨rfl, rfl⟩

/-- the three IAT modes -/
def ValidMode (m : Nat) : Prop := m = iatNone ∨ m = iatEnabled ∨ m = iatParanoid

private theorem write_good {σ : Type} (S : Sampler σ) (hS : LenBounded S) (mode n fuel : Nat) (s : σ) :
    (∀ x ∈ (write S true mode n fuel s).frames, x ≤ mss) ∧
    ((write S true mode n fuel s).status = .ok ∨ (write S true mode n fuel s).status = .starved) ∧
    (mode = iatParanoid → ∀ w ∈ (write S true mode n fuel s).writes, WrOK w) ∧
    (mode ≠ iatParanoid → mode ≠ iatNone →
      ∀ w ∈ (write S true mode n fuel s).writes, 0 < w.size ∧ w.size ≤ mss) := by
  obtain ⟨fr0, hchop, hfr0, _⟩ := chop_spec n n
  have hfr0' : ∀ x ∈ fr0, x ≤ mss := fun x hx => (hfr0 x hx).2
  unfold write
  rw [hchop]
  by_cases hp : mode = iatParanoid
  · have hb : (mode != iatParanoid) = false := by simp [hp]
    simp only [hb, Bool.false_eq_true, if_false]
    obtain ⟨h1, h2, h3⟩ := paranoidLoop_good S hS fuel fr0.sum fr0 [] [] s hfr0' (by simp)
    exact ⟨h1, h3, fun _ => h2, fun h => absurd hp h⟩
  · have hb : (mode != iatParanoid) = true := by simp [hp]
    simp only [hb, if_true]
    cases hlen : S.len s with
    | none => exact ⟨hfr0', Or.inr rfl, fun h => absurd h hp, fun _ _ => by simp⟩
    | some q =>
      obtain ⟨t, s1⟩ := q
      have ht := hS s t s1 hlen
      obtain ⟨fs, hpb, _, _, _, _, _, hfs, _, _⟩ := padburst fr0.sum t ht
      simp only [hpb]
      have hfr : ∀ x ∈ fr0 ++ fs, x ≤ mss := by
        intro x hx
        rcases List.mem_append.mp hx with h | h
        · exact hfr0' x h
        · exact hfs x h
      by_cases hn : mode = iatNone
      · have hb2 : ¬ ((mode != iatNone) = true) := by simp [hn]
        rw [if_neg hb2]
        exact ⟨hfr, Or.inl rfl, fun h => absurd h hp, fun _ h => absurd hn h⟩
      · have hb2 : (mode != iatNone) = true := by simp [hn]
        rw [if_pos hb2]
        obtain ⟨h1, h2, h3, _⟩ := enabledLoop_spec S fuel (fr0 ++ fs).sum (fr0 ++ fs) [] [] s1 (by simp)
        refine ⟨by rw [h1]; exact hfr, h3, fun h => absurd h hp, fun _ _ => h2⟩

/-- **No frame and no IAT-mode `Conn.Write` exceeds `MaximumSegmentLength`** — every write size,
    every mode, every sample stream with length samples `≤ MSS`, any fuel. -/
theorem frame_bound {σ : Type} (S : Sampler σ) (hS : LenBounded S) (mode n fuel : Nat) (s : σ)
    (_hm : ValidMode mode) :
    (∀ f ∈ (write S true mode n fuel s).frames, f ≤ Consts.Framing.maximumSegmentLength) ∧
    (mode ≠ iatNone → ∀ w ∈ (write S true mode n fuel s).writes,
        w.size ≤ Consts.Framing.maximumSegmentLength) := by
  obtain ⟨h1, _, h3, h4⟩ := write_good S hS mode n fuel s
  refine ⟨h1, ?_⟩
  intro hn w hw
  by_cases hp : mode = iatParanoid
  · exact (h3 hp w hw).2.2
  · exact (h4 hp hn w hw).2

/-- **Paranoid mode: every `Conn.Write` has exactly the length of the sample drawn for it, and
    that length is non-zero** (post-fix code; false before the fix, see
    `prefix_zero_sample_panics`). -/
theorem paranoid_exact {σ : Type} (S : Sampler σ) (hS : LenBounded S) (n fuel : Nat) (s : σ) :
    ∀ w ∈ (write S true iatParanoid n fuel s).writes, w.sample = some w.size ∧ w.size ≠ 0 := by
  intro w hw
  have := (write_good S hS iatParanoid n fuel s).2.2.1 rfl w hw
  exact ⟨this.1, this.2.1⟩

/-- **`Write` never reaches either `panic("BUG: …")` nor `makePacket`'s** — every mode, write
    size, sample stream and fuel: the outcome is `ok`, or the model ran out of samples/fuel. -/
theorem write_no_panic {σ : Type} (S : Sampler σ) (hS : LenBounded S) (mode n fuel : Nat) (s : σ) :
    ∀ p, (write S true mode n fuel s).status ≠ .panic p := by
  intro p hp
  rcases (write_good S hS mode n fuel s).2.1 with h | h <;> rw [h] at hp <;> cases hp

/-- a sampler reading two explicit sample streams (lists), used for concrete instances -/
def listSampler : Sampler (List Nat × List Nat) where
  len s := match s.1 with
    | [] => none
    | t :: r => some (t, (r, s.2))
  iat s := match s.2 with
    | [] => none
    | d :: r => some (d, (s.1, r))

/-- the constant sample stream: every length sample is `t`, every IAT sample `d` -/
def constSampler (t d : Nat) : Sampler Unit := ⟨fun _ => some (t, ()), fun _ => some (d, ())⟩

/-- non-vacuity of `LenBounded` (hypothesis of the theorems above and below) -/
example : LenBounded (constSampler 700 3) := by
  intro s t s' h
  simp only [constSampler, Option.some.injEq, Prod.mk.injEq] at h
  have : mss = 1448 := by decide
  omega

/-- non-vacuity of the hypotheses of `only_zero_table_never_finishes` and
    `single_value_table_pads_forever` (constant streams 0 and 10) -/
example : (∀ s t s', (constSampler 0 3).len s = some (t, s') → t = 0) ∧
    (∀ s t s', (constSampler 10 3).len s = some (t, s') → t = 10) ∧
    (mss + headerLength) % 10 ≠ 0 ∧ 10 - (mss + headerLength) % 10 ≤ headerLength := by
  refine ⟨?_, ?_, by decide, by decide⟩ <;>
  · intro s t s' h
    simp only [constSampler, Option.some.injEq, Prod.mk.injEq] at h
    omega

/-- non-vacuity (the run is non-trivial): paranoid
    `Write(100)` with length samples 0, 50, 300 and delays 7, 9: the 0 is skipped, 50 bytes are
    written, then the remaining 71 bytes are padded to 300 with one 229-byte frame and written. -/
example : ((write listSampler true iatParanoid 100 10 ([0, 50, 300], [7, 9])).status,
           (write listSampler true iatParanoid 100 10 ([0, 50, 300], [7, 9])).writes,
           (write listSampler true iatParanoid 100 10 ([0, 50, 300], [7, 9])).frames)
    = (.ok, [⟨50, some 50⟩, ⟨300, some 300⟩], [121, 229]) := by decide

/-- **Every burst ends on the sampled target** (modes 0 and 1): with `t` the length sample drawn
    for the burst and `p` the padding needed after the payload frames, the bytes put into the
    burst are `≡ t (mod MSS)` if `p = 0 ∨ p > headerLength` and `≡ t + headerLength` otherwise; in
    mode 0 they leave in one `Conn.Write`, in mode 1 (when the loop finishes) in writes that sum
    to the burst. -/
theorem burst_ends_on_target {σ : Type} (S : Sampler σ) (hS : LenBounded S) (mode n fuel : Nat)
    (s : σ) (hm : mode = iatNone ∨ mode = iatEnabled) (t : Nat) (s1 : σ)
    (hlen : S.len s = some (t, s1)) :
    ∃ L, (padLen L t = 0 ∨ padLen L t > headerLength →
            (write S true mode n fuel s).frames.sum % mss = t % mss) ∧
         (0 < padLen L t ∧ padLen L t ≤ headerLength →
            (write S true mode n fuel s).frames.sum % mss = (t + headerLength) % mss) ∧
         (mode = iatNone →
            (write S true mode n fuel s).writes = [⟨(write S true mode n fuel s).frames.sum, none⟩]) ∧
         (mode = iatEnabled → (write S true mode n fuel s).status = .ok →
            (sizes (write S true mode n fuel s).writes).sum = (write S true mode n fuel s).frames.sum) := by
  obtain ⟨fr0, hchop, _, _⟩ := chop_spec n n
  have ht := hS s t s1 hlen
  obtain ⟨fs, hpb, _, _, _, _, _, _, hA, hB⟩ := padburst fr0.sum t ht
  have hp : mode ≠ iatParanoid := by
    rcases hm with h | h <;> rw [h] <;> decide
  have hb : (mode != iatParanoid) = true := by simp [hp]
  refine ⟨fr0.sum, ?_⟩
  unfold write
  rw [hchop]
  simp only [hb, if_true, hlen, hpb]
  rcases hm with hn | he
  · have hb2 : ¬ ((mode != iatNone) = true) := by simp [hn]
    rw [if_neg hb2]
    refine ⟨fun h => by rw [List.sum_append]; exact hA h, fun h => by rw [List.sum_append]; exact hB h,
      fun _ => rfl, fun h => ?_⟩
    rw [hn] at h; exact absurd h (by decide)
  · have hne : mode ≠ iatNone := by rw [he]; decide
    have hb2 : (mode != iatNone) = true := by simp [hne]
    rw [if_pos hb2]
    obtain ⟨h1, _, _, h4⟩ := enabledLoop_spec S fuel (fr0 ++ fs).sum (fr0 ++ fs) [] [] s1 (by simp)
    refine ⟨fun h => by rw [h1, List.sum_append]; exact hA h,
      fun h => by rw [h1, List.sum_append]; exact hB h, fun h => absurd h hne, fun _ hok => ?_⟩
    rw [h4 hok, h1]; simp [sizes]

/-- **Progress of the paranoid loop, stated honestly.**  On a non-empty buffer and a sample
    `t ≤ MSS` one iteration (a) resamples iff `t = 0`; (b) writes exactly `t ≥ 1` bytes — directly
    when `t ≤ buf`, or after one padding frame of `t - buf > headerLength` bytes, which empties the
    buffer; or (c) grows the buffer by two padding frames to `t + MSS + headerLength > MSS` without
    writing.  After (c) no sample can trigger (c) again before a write (`buf > MSS ≥ t`).  Hence a
    single *usable* sample (`t = buf`, or `buf + headerLength < t`) ends the `Write` whatever was
    drawn before; termination for **every** stream does not hold
    (`single_value_table_pads_forever`, `only_zero_table_never_finishes`): it is almost sure at best. -/
theorem paranoid_progress :
    (∀ buf t, 0 < buf → t ≤ mss →
      (t = 0 ∧ paranoidStep true buf t = .resample) ∨
      (0 < t ∧ t ≤ buf ∧ paranoidStep true buf t = .emit (buf - t) [] t) ∨
      (buf < t ∧ headerLength < t - buf ∧ paranoidStep true buf t = .emit 0 [t - buf] t) ∨
      (buf < t ∧ t - buf ≤ headerLength ∧ mss < t + mss + headerLength ∧
        paranoidStep true buf t = .grow (t + mss + headerLength) [mss, headerLength + (t - buf)])) ∧
    (∀ buf t, mss < buf → t ≤ mss → ∀ b fs, paranoidStep true buf t ≠ .grow b fs) ∧
    (∀ {σ : Type} (S : Sampler σ) (f buf : Nat) (fr : List Nat) (ws : List Wr) (ds : List Nat)
        (s s1 s2 : σ) (t d : Nat), 0 < buf → t ≤ mss → S.len s = some (t, s1) →
        S.iat s1 = some (d, s2) → (t = buf ∨ (buf < t ∧ headerLength < t - buf)) →
        (paranoidLoop S true (f + 2) buf fr ws ds s).status = .ok ∧
        (paranoidLoop S true (f + 2) buf fr ws ds s).writes = ws ++ [⟨t, some t⟩]) := by
  refine ⟨?_, ?_, ?_⟩
  · intro buf t hb ht
    rcases paranoidStep_spec buf t hb ht with h | h | h | ⟨h1, h2, h3⟩
    · exact Or.inl h
    · exact Or.inr (Or.inl h)
    · exact Or.inr (Or.inr (Or.inl h))
    · refine Or.inr (Or.inr (Or.inr ⟨h1, h2, ?_, h3⟩))
      have : 0 < headerLength := by decide
      omega
  · intro buf t hb ht b fs
    rcases paranoidStep_spec buf t (by omega) ht with ⟨_, h⟩ | ⟨_, _, h⟩ | ⟨h1, _, _⟩ | ⟨h1, _, _⟩
    · rw [h]; intro hh; cases hh
    · rw [h]; intro hh; cases hh
    · omega
    · omega
  · intro σ S f buf fr ws ds s s1 s2 t d hb ht hlen hiat huse
    rw [paranoidLoop_some S true (f + 1) buf (by omega) fr ws ds s t s1 hlen]
    rcases paranoidStep_spec buf t hb ht with ⟨h0, _⟩ | ⟨_, hle, hst⟩ | ⟨_, _, hst⟩ | ⟨hlt, hsm, _⟩
    · rcases huse with h | ⟨h, _⟩ <;> omega
    · have hbt : buf - t = 0 := by rcases huse with h | ⟨h, _⟩ <;> omega
      rw [hst]
      simp only [hiat, hbt]
      rw [paranoidLoop_done]
      exact ⟨rfl, rfl⟩
    · rw [hst]
      simp only [hiat]
      rw [paranoidLoop_done]
      exact ⟨rfl, rfl⟩
    · rcases huse with h | ⟨_, h⟩ <;> omega

/-- **The client adopts the server's distributions.**  Processing the server's PRNG-seed packet
    (payload of `seedPacketPayloadLength` bytes, on the client) replaces the seeds of both
    distributions by the server's — the packet's seed and the first `seedLength` bytes of its
    SHA-256 — whatever they were before; hence the client's length and IAT tables *are*
    `ProbDist.new` of those seeds, i.e. the server's (`C12.deterministic`).  A server ignores the
    packet, and a payload of any other length is ignored. -/
theorem adopts_server_dist {α : Type} (ops : GoRand.NumOps α) (sha256 : Bytes → Bytes)
    (d : DistSeeds) (seed : Bytes) (biased : Bool) (iatMode : Nat)
    (hl : seed.length = Consts.Obfs4.seedPacketPayloadLength)
    (hi : d.iat.isSome = (iatMode != iatNone)) :
    adoptSeed sha256 false d seed = serverSeeds sha256 seed iatMode ∧
    ProbDist.new ops (adoptSeed sha256 false d seed).len 0 (mss : Nat) biased
      = ProbDist.new ops seed 0 (mss : Nat) biased ∧
    ((adoptSeed sha256 false d seed).iat.map (fun s => ProbDist.new ops s 0 (maxIATDelay : Nat) biased))
      = ((serverSeeds sha256 seed iatMode).iat.map (fun s => ProbDist.new ops s 0 (maxIATDelay : Nat) biased)) ∧
    (∀ payload, adoptSeed sha256 true d payload = d) ∧
    (∀ payload, payload.length ≠ Consts.Obfs4.seedPacketPayloadLength →
      adoptSeed sha256 false d payload = d) := by
  have h1 : adoptSeed sha256 false d seed = serverSeeds sha256 seed iatMode := by
    unfold adoptSeed serverSeeds
    have : (seed.length == seedPacketPayloadLength) = true := by
      simp [seedPacketPayloadLength, hl]
    simp only [this, Bool.not_false, Bool.and_self, if_true]
    cases hd : d.iat with
    | none =>
      rw [hd] at hi
      have : (iatMode != iatNone) = false := by simpa using hi.symm
      simp [this]
    | some x =>
      rw [hd] at hi
      have : (iatMode != iatNone) = true := by simpa using hi.symm
      simp [this]
  refine ⟨h1, by rw [h1]; rfl, by rw [h1], ?_, ?_⟩
  · intro payload
    simp [adoptSeed]
  · intro payload hne
    have : (payload.length == seedPacketPayloadLength) = false := by
      simp [seedPacketPayloadLength, hne]
    simp [adoptSeed, this]

/-- **A bridge never adopts a seed.**  Whatever PRNG-seed packet a peer sends to the server
    side (any payload, any length, any hash), its distribution seeds — hence its length and IAT
    tables, `ProbDist.new` of its own configured seed — are unchanged, so its bursts keep
    following its own table. -/
theorem server_ignores_seed_packet {α : Type} (ops : GoRand.NumOps α) (sha256 : Bytes → Bytes)
    (seed : Bytes) (iatMode : Nat) (biased : Bool) (payloads : List Bytes) :
    payloads.foldl (adoptSeed sha256 true) (serverSeeds sha256 seed iatMode)
      = serverSeeds sha256 seed iatMode ∧
    ProbDist.new ops (payloads.foldl (adoptSeed sha256 true) (serverSeeds sha256 seed iatMode)).len
        0 (mss : Nat) biased = ProbDist.new ops seed 0 (mss : Nat) biased := by
  have h : ∀ d : DistSeeds, payloads.foldl (adoptSeed sha256 true) d = d := by
    induction payloads with
    | nil => intro d; rfl
    | cons p ps ih =>
      intro d
      have : adoptSeed sha256 true d p = d := by simp [adoptSeed]
      rw [List.foldl_cons, this, ih]
  rw [h]
  exact ⟨rfl, rfl⟩

/-- **After adoption every subsequent sample — including those of a burst in progress — uses the
    adopted table.**  The sampler reads the connection's *current* distributions at every draw.
    Let `A` hold of the sampler states reached once the seed packet has been processed (closed
    under further draws) and let `T` be the adopted length table.  Then resuming the paranoid
    loop from ANY intermediate point of a burst (any buffered length, frames and writes so far) in
    such a state, every write added from there on is exactly a sample of `T`. -/
theorem inflight_burst_uses_adopted_table {σ : Type} (S : Sampler σ) (hS : LenBounded S)
    (A : σ → Prop) (T : Nat → Prop)
    (hlen : ∀ s t s', A s → S.len s = some (t, s') → T t ∧ A s')
    (hiat : ∀ s d s', A s → S.iat s = some (d, s') → A s') :
    ∀ (fuel buf : Nat) (fr : List Nat) (ws : List Wr) (ds : List Nat) (s : σ), A s →
      ∀ w ∈ (paranoidLoop S true fuel buf fr ws ds s).writes,
        w ∈ ws ∨ (∃ t, w.sample = some t ∧ T t ∧ w.size = t) := by
  intro fuel
  induction fuel with
  | zero => intro buf fr ws ds s _ w hw; exact Or.inl hw
  | succ f ih =>
    intro buf fr ws ds s hA w hw
    by_cases hb : buf = 0
    · subst hb
      rw [paranoidLoop_done] at hw
      exact Or.inl hw
    · cases hl : S.len s with
      | none =>
        rw [paranoidLoop_none S true f buf hb fr ws ds s hl] at hw
        exact Or.inl hw
      | some q =>
        obtain ⟨t, s1⟩ := q
        rw [paranoidLoop_some S true f buf hb fr ws ds s t s1 hl] at hw
        obtain ⟨hT, hA1⟩ := hlen s t s1 hA hl
        have ht := hS s t s1 hl
        rcases paranoidStep_spec buf t (by omega) ht with
          ⟨_, hst⟩ | ⟨_, _, hst⟩ | ⟨_, _, hst⟩ | ⟨_, _, hst⟩
        · rw [hst] at hw; exact ih buf fr ws ds s1 hA1 w hw
        · rw [hst] at hw
          cases hi : S.iat s1 with
          | none => simp only [hi] at hw; exact Or.inl hw
          | some q2 =>
            obtain ⟨d, s2⟩ := q2
            simp only [hi] at hw
            rcases ih _ _ _ _ s2 (hiat s1 d s2 hA1 hi) w hw with h | h
            · rcases List.mem_append.mp h with h | h
              · exact Or.inl h
              · simp at h; subst h; exact Or.inr ⟨t, rfl, hT, rfl⟩
            · exact Or.inr h
        · rw [hst] at hw
          cases hi : S.iat s1 with
          | none => simp only [hi] at hw; exact Or.inl hw
          | some q2 =>
            obtain ⟨d, s2⟩ := q2
            simp only [hi] at hw
            rcases ih _ _ _ _ s2 (hiat s1 d s2 hA1 hi) w hw with h | h
            · rcases List.mem_append.mp h with h | h
              · exact Or.inl h
              · simp at h; subst h; exact Or.inr ⟨t, rfl, hT, rfl⟩
            · exact Or.inr h
        · rw [hst] at hw; exact ih _ _ ws ds s1 hA1 w hw

/-- **Connections are independent.**  Adopting a bridge's seed on one client connection does not
    change the seeds (hence the length / IAT tables) of any other live connection, and gives
    connection `i` exactly the seeds of its own bridge. -/
theorem connections_independent (sha256 : Bytes → Bytes) (conns : List DistSeeds) (i j : Nat)
    (payload : Bytes) (hij : i ≠ j) :
    (adoptAt sha256 conns i payload)[j]? = conns[j]? ∧
    (adoptAt sha256 conns i payload)[i]? = (conns[i]?).map (fun d => adoptSeed sha256 false d payload) := by
  unfold adoptAt
  refine ⟨List.getElem?_modify_ne _ _ hij, ?_⟩
  rw [List.getElem?_modify]
  cases conns[i]? <;> simp

/-- **The client's `Write` samples atomically with respect to re-seeding** (structural fact
    regenerated from `common/probdist` on every run): `lenDist.Sample()` / `iatDist.Sample()` called
    by `Write` and `Reset()` called by `readPackets` when a PRNG-seed packet arrives in another
    goroutine both hold the distribution's mutex for their whole body and touch no table before
    it, so each sample is drawn from one complete table — the old or the new one — which is what
    the sampler abstraction of the theorems above assumes.  Scheduling is sampled by the harness
    (seed packets streaming in while the client writes). -/
theorem sampling_atomic_with_reseed :
    Facts.Probdist.WeightedDist_Sample_locked = true ∧
    Facts.Probdist.WeightedDist_Sample_prelock = [] ∧
    Facts.Probdist.WeightedDist_Reset_locked = true ∧
    Facts.Probdist.WeightedDist_Reset_prelock = [] := by
  decide

/-- non-vacuity: a 24-byte payload meets the length hypothesis -/
example : (Bytes.zeros 24).length = Consts.Obfs4.seedPacketPayloadLength := by decide

/-! ## Witnesses: the defect fixed (F2) and the two recorded findings -/

/-- **F2 (code before the fix).** In paranoid mode any non-empty `Write` whose first length
    sample is 0 reaches `panic("BUG: Write(), iat length was 0")` — for every sampler. -/
theorem prefix_zero_sample_panics {σ : Type} (S : Sampler σ) (s s1 : σ) (n fuel : Nat) (hn : 0 < n)
    (h0 : S.len s = some (0, s1)) :
    (write S false iatParanoid n (fuel + 1) s).status = .panic .iatZero := by
  obtain ⟨fr0, hchop, _, hpos⟩ := chop_spec n n
  have hsum : fr0.sum ≠ 0 := by have := hpos (Nat.le_refl n) hn; omega
  unfold write
  rw [hchop]
  have hb : (iatParanoid != iatParanoid) = false := by simp
  simp only [hb, Bool.false_eq_true, if_false]
  rw [paranoidLoop_some S false fuel fr0.sum hsum fr0 [] [] s 0 s1 h0]
  have : paranoidStep false fr0.sum 0 = .panic .iatZero := by
    simp [paranoidStep, emitOf]
  rw [this]

/-- the concrete instance of DESIGN §5 F2: `Write(100)` with the sample stream `0, …` -/
example : (write listSampler false iatParanoid 100 5 ([0, 700], [3])).status = .panic .iatZero := by
  decide

/-- **F2b (recorded finding `paranoid-table-is-only-zero`).** If every length sample is 0 (the
    table is `{0}`), a paranoid `Write` with pending data never finishes, for any fuel: it only
    resamples, and writes nothing. -/
theorem only_zero_table_never_finishes {σ : Type} (S : Sampler σ)
    (hz : ∀ s t s', S.len s = some (t, s') → t = 0) :
    ∀ (fuel buf : Nat) (fr : List Nat) (ws : List Wr) (ds : List Nat) (s : σ), 0 < buf →
      (paranoidLoop S true fuel buf fr ws ds s).status = .starved ∧
      (paranoidLoop S true fuel buf fr ws ds s).writes = ws := by
  intro fuel
  induction fuel with
  | zero => intro buf fr ws ds s _; exact ⟨rfl, rfl⟩
  | succ f ih =>
    intro buf fr ws ds s hb
    cases hlen : S.len s with
    | none =>
      rw [paranoidLoop_none S true f buf (by omega) fr ws ds s hlen]
      exact ⟨rfl, rfl⟩
    | some q =>
      obtain ⟨t, s1⟩ := q
      have := hz s t s1 hlen
      subst this
      rw [paranoidLoop_some S true f buf (by omega) fr ws ds s 0 s1 hlen]
      have : paranoidStep true buf 0 = .resample := by simp [paranoidStep]
      rw [this]
      exact ih buf fr ws ds s1 hb

/-- **Recorded finding `paranoid-single-value-table-pads-forever`.** Let the length table be the
    single value `v` (every length sample is `v`, `0 < v ≤ MSS`) with
    `r = (MSS + headerLength) mod v ≠ 0` and `v - r ≤ headerLength` (110 of the 1448 possible values,
    e.g. 10 or 135).  Once the buffered length `buf` has a remainder within a header of `v`
    (`buf mod v ≠ 0 ∧ v - buf mod v ≤ headerLength`) the paranoid loop never finishes, for any fuel
    and any IAT samples: it writes `v` bytes until fewer than `v` are left, pads them with two
    frames to `v + MSS + headerLength`, whose remainder is `r` again — a deterministic cycle of
    endless padding traffic. -/
theorem single_value_table_pads_forever {σ : Type} (S : Sampler σ) (v : Nat) (hv0 : 0 < v)
    (hv : v ≤ mss) (hr0 : (mss + headerLength) % v ≠ 0)
    (hr : v - (mss + headerLength) % v ≤ headerLength)
    (hconst : ∀ s t s', S.len s = some (t, s') → t = v) :
    ∀ (fuel buf : Nat) (fr : List Nat) (ws : List Wr) (ds : List Nat) (s : σ),
      buf % v ≠ 0 → v - buf % v ≤ headerLength →
      (paranoidLoop S true fuel buf fr ws ds s).status = .starved := by
  intro fuel
  induction fuel with
  | zero => intro buf fr ws ds s _ _; rfl
  | succ f ih =>
    intro buf fr ws ds s hb1 hb2
    have hb0 : buf ≠ 0 := by
      intro h; subst h; simp at hb1
    cases hlen : S.len s with
    | none => rw [paranoidLoop_none S true f buf hb0 fr ws ds s hlen]
    | some q =>
      obtain ⟨t, s1⟩ := q
      have := hconst s t s1 hlen
      subst this
      rw [paranoidLoop_some S true f buf hb0 fr ws ds s t s1 hlen]
      rcases paranoidStep_spec buf t (by omega) hv with
        ⟨h, _⟩ | ⟨_, hle, hst⟩ | ⟨hlt, hbig, _⟩ | ⟨hlt, _, hst⟩
      · omega
      · rw [hst]
        have hmod : (buf - t) % t = buf % t := (Nat.mod_eq_sub_mod hle).symm
        cases hi : S.iat s1 with
        | none => rfl
        | some r =>
          obtain ⟨d, s2⟩ := r
          exact ih _ _ _ _ _ (by rw [hmod]; exact hb1) (by rw [hmod]; exact hb2)
      · have : buf % t = buf := Nat.mod_eq_of_lt hlt
        omega
      · rw [hst]
        have hmod : (t + mss + headerLength) % t = (mss + headerLength) % t := by
          rw [Nat.add_assoc, Nat.add_mod_left]
        exact ih _ _ _ _ _ (by rw [hmod]; exact hr0) (by rw [hmod]; exact hr)

/-- instance: table `{10}` (DRBG seed `1eeb947e…a6e0`), `Write` of one byte — never finishes:
    22 → 12 → 2 → (two padding frames) 1479 → … → 9 → 1479 → … -/
theorem single_value_10_never_finishes {σ : Type} (S : Sampler σ)
    (h10 : ∀ s t s', S.len s = some (t, s') → t = 10) (fuel : Nat) (s : σ) :
    (write S true iatParanoid 1 fuel s).status = .starved := by
  have hchop : chop 1 1 = .ok [22] := rfl
  unfold write
  rw [hchop]
  have hb : (iatParanoid != iatParanoid) = false := by simp
  simp only [hb, Bool.false_eq_true, if_false]
  exact single_value_table_pads_forever S 10 (by decide) (by decide) (by decide) (by decide) h10
    fuel _ _ _ _ _ (by decide) (by decide)

/-- instance: table `{135}` (the bridge identity reported by the handshake check), `Write` of
    113 bytes: 134 buffered, padded by 1 with two frames to 1604, eleven writes of 135 leave 119,
    padded by 16 to 1604 again, … -/
theorem single_value_135_never_finishes {σ : Type} (S : Sampler σ)
    (h : ∀ s t s', S.len s = some (t, s') → t = 135) (fuel : Nat) (s : σ) :
    (write S true iatParanoid 113 fuel s).status = .starved := by
  have hchop : chop 113 113 = .ok [134] := rfl
  unfold write
  rw [hchop]
  have hb : (iatParanoid != iatParanoid) = false := by simp
  simp only [hb, Bool.false_eq_true, if_false]
  exact single_value_table_pads_forever S 135 (by decide) (by decide) (by decide) (by decide) h
    fuel _ _ _ _ _ (by decide) (by decide)

/-- the cycle made visible on the list sampler: with the constant stream 10 the buffered length
    after the two-frame padding is 1479 both times, and only lengths of 10 are written -/
example :
    let o := write listSampler true iatParanoid 1 400 (List.replicate 400 10, List.replicate 400 0)
    o.status = .starved ∧ o.frames = [22, 1448, 29, 1448, 22, 1448, 22] ∧
      o.writes.all (fun w => w.size == 10) = true := by
  decide +kernel


/-- **structural fact, regenerated from the Go source on every run (go/ast)**: every package-level
    variable (file-scope `var`) of the packages this property's mechanisms live in
    (transports/obfs4, common/probdist, common/drbg, common/csrand) is one of the names below — error values, fixed byte strings,
    flags and function hooks that the code only reads after initialisation.  The models treat all
    other state as owned by one connection / one object; a NEW package-level variable (a cache, a
    pool, a scratch buffer, a pre-keyed hash shared "to save allocations") is how such state comes
    to be shared between connections and goroutines, which compiles, passes the tests and typically
    needs true parallelism or a multi-connection history to misbehave.  Adding one breaks this
    theorem; the concurrent / multi-connection families of the harness then search for the failing
    schedule. -/
theorem no_new_package_level_state :
    O4.Facts.Obfs4.pkg_vars ⊆ ["ErrInvalidHandshake", "ErrMarkNotFoundYet", "ErrNtorFailed", "ErrReplayedHandshake", "biasedDist", "zeroPadBytes"] ∧
    O4.Facts.Probdist.pkg_vars ⊆ [] ∧
    O4.Facts.Drbg.pkg_vars ⊆ [] ∧
    O4.Facts.Csrand.pkg_vars ⊆ ["Rand", "Reader", "csRandSourceInstance"] := by
  decide

end C09
