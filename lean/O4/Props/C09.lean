import O4.Model.Obfs4Shaping
namespace C09
theorem placeholder : True := trivial
end C09
