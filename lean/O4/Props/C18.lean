import O4.Lemmas.Base64
import O4.Model.StateFile
/-!
# C18 — a bridge keeps its identity across restarts and crashes; bridge lines round-trip
-/
namespace C18
open O4 O4.SF

/-- **base64 decode ∘ encode = id for every byte string** (Go's `StdEncoding`, padded). -/
theorem base64_roundtrip (b : Bytes) : B64.decode (B64.encode b) = some b := B64.decode_encode b

end C18
