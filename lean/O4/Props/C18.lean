import O4.Lemmas.StartUp
import O4.Lemmas.TicketJson
import O4.Generated.Facts.Obfs4
/-!
# C18 — a bridge keeps its identity across restarts and crashes; bridge lines round-trip

Property theorems only.  Models: `O4/Model/Base64.lean` (Go's `base64.StdEncoding`, `hex`, the
cert), `O4/Model/StateFile.lean` (file system, start-up, crash states, recovery, ticket store).
Helper lemmas: `O4/Lemmas/{Base64,StateFile,StateJson,StartUp}.lean`.  File names, lengths and
the IAT range are the constants regenerated from the Go tree.

`Cfg.fixed = true` is the code as it is now (write `<name>.tmp`, fsync, close, rename);
`Cfg.fixed = false` is the code before the repair (`os.WriteFile` in place), kept for the
counterexample theorems `truncate_in_place_unsafe` / `tickets_in_place_block`.
-/
namespace C18
open O4 O4.SF

/-! ## Bridge lines round-trip -/

/-- **base64 decode ∘ encode = id for every byte string** (Go's `StdEncoding`, padded,
    non-strict decoder with newline skipping). -/
theorem base64_roundtrip (b : Bytes) : B64.decode (B64.encode b) = some b := B64.decode_encode b

example : B64.encode (ascii "fooba") = ascii "Zm9vYmE=" := by decide

/-- hex decode ∘ encode = id for every byte string -/
theorem hex_roundtrip (b : Bytes) : Hex.decode (Hex.encode b) = some b := Hex.decode_encode b

private theorem certSuffix_eq : certSuffix = [B64.pad, B64.pad] := by decide

/-- **the cert form round-trips**: for every node ID and public key of the right lengths, the
    client-side parser applied to the advertised `cert` text returns exactly that pair. -/
theorem cert_roundtrip (id pub : Bytes) (hid : id.length = Consts.Ntor.nodeIDLength)
    (hpub : pub.length = Consts.Ntor.publicKeyLength) :
    Cert.parse certSuffix Consts.Ntor.nodeIDLength Consts.Obfs4.certLength
      (Cert.toString certSuffix (id ++ pub)) = some (id, pub) := by
  have hlen : (id ++ pub).length = Consts.Obfs4.certLength := by
    rw [List.length_append, hid, hpub]; decide
  have hmod : (id ++ pub).length % 3 = 1 := by rw [hlen]; decide
  unfold Cert.parse
  rw [certSuffix_eq, Cert.decode_toString _ hmod]
  simp only [hlen, if_true]
  rw [List.take_left' hid, List.drop_left' hid]

example : Cert.parse certSuffix Consts.Ntor.nodeIDLength Consts.Obfs4.certLength
    (Cert.toString certSuffix (List.replicate 20 7 ++ List.replicate 32 9))
    = some (List.replicate 20 7, List.replicate 32 9) :=
  cert_roundtrip _ _ (by decide) (by decide)

/-- **the legacy form round-trips**: `node-id=<hex> public-key=<hex>` -/
theorem legacy_roundtrip (id pub : Bytes) (hid : id.length = Consts.Ntor.nodeIDLength)
    (hpub : pub.length = Consts.Ntor.publicKeyLength) :
    Cert.parseLegacy Consts.Ntor.nodeIDLength Consts.Ntor.publicKeyLength
      (Hex.encode id) (Hex.encode pub) = some (id, pub) := by
  unfold Cert.parseLegacy
  simp [Hex.decode_encode, hid, hpub]

/-- what a bridge advertises (`Args()`) parses, on the client, to the bridge's own node ID and
    public key — for every identity that passed the start-up validation -/
theorem advertised_cert_parses (cfg : Cfg) (js : JS) (i : Ident) (h : identOfJS js = some i)
    (hpub : (cfg.pubOf i.priv).length = Consts.Ntor.publicKeyLength) :
    Cert.parse certSuffix Consts.Ntor.nodeIDLength Consts.Obfs4.certLength (certOf cfg i)
      = some (i.nodeID, cfg.pubOf i.priv) := by
  obtain ⟨h1, _⟩ := identOfJS_some js i h
  have hid : i.nodeID.length = Consts.Ntor.nodeIDLength := by
    unfold hexN at h1
    cases hd : Hex.decode js.nodeID with
    | none => simp [hd] at h1
    | some b =>
      simp only [hd] at h1
      by_cases hl : b.length = Consts.Ntor.nodeIDLength
      · simp only [hl, if_true, Option.some.injEq] at h1; rw [← h1]; exact hl
      · simp [hl] at h1
  exact cert_roundtrip _ _ hid hpub

/-! ## Restarts without a crash -/

/-- What the property demands of one start from a directory whose persisted identity is `i`,
    given arguments that name no identity: the same identity is presented; the IAT mode is the
    only field that may change, to the (valid) override, which becomes the persisted value.
    A malformed / out-of-range override is refused and changes nothing. -/
def specStep (i : Ident) (a : Args) : Outcome × Ident :=
  match a.iat with
  | none => (.ok i, i)
  | some t =>
    match atoi t with
    | none => (.err, i)
    | some v =>
      if (Consts.Obfs4.iatNone : Int) ≤ v ∧ v ≤ (Consts.Obfs4.iatParanoid : Int)
      then (.ok { i with iat := v.toNat }, { i with iat := v.toNat })
      else (.err, i)

private theorem specStep_none (i : Ident) (a : Args) (h : a.iat = none) : specStep i a = (.ok i, i) := by
  unfold specStep; rw [h]

private theorem specStep_bad (i : Ident) (a : Args) (t : Bytes) (h : a.iat = some t) (hat : atoi t = none) :
    specStep i a = (.err, i) := by
  unfold specStep; rw [h]; simp only [hat]

private theorem specStep_in (i : Ident) (a : Args) (t : Bytes) (v : Int) (h : a.iat = some t)
    (hat : atoi t = some v)
    (hr : (Consts.Obfs4.iatNone : Int) ≤ v ∧ v ≤ (Consts.Obfs4.iatParanoid : Int)) :
    specStep i a = (.ok { i with iat := v.toNat }, { i with iat := v.toNat }) := by
  unfold specStep; rw [h]; simp only [hat, hr, and_self, if_true]

private theorem specStep_out (i : Ident) (a : Args) (t : Bytes) (v : Int) (h : a.iat = some t)
    (hat : atoi t = some v)
    (hr : ¬ ((Consts.Obfs4.iatNone : Int) ≤ v ∧ v ≤ (Consts.Obfs4.iatParanoid : Int))) :
    specStep i a = (.err, i) := by
  unfold specStep; rw [h]; simp only [hat, hr, if_false]

/-- whatever the arguments, the specification keeps node ID, private key and seed -/
theorem specStep_keys (i : Ident) (a : Args) :
    ((specStep i a).2.nodeID = i.nodeID ∧ (specStep i a).2.priv = i.priv ∧ (specStep i a).2.seed = i.seed) ∧
    ∀ j, (specStep i a).1 = .ok j → j.nodeID = i.nodeID ∧ j.priv = i.priv ∧ j.seed = i.seed := by
  cases hia : a.iat with
  | none =>
    rw [specStep_none i a hia]
    exact ⟨⟨rfl, rfl, rfl⟩, fun j hj => by cases hj; exact ⟨rfl, rfl, rfl⟩⟩
  | some t =>
    cases hat : atoi t with
    | none =>
      rw [specStep_bad i a t hia hat]
      exact ⟨⟨rfl, rfl, rfl⟩, fun j hj => by cases hj⟩
    | some v =>
      by_cases hr : (Consts.Obfs4.iatNone : Int) ≤ v ∧ v ≤ (Consts.Obfs4.iatParanoid : Int)
      · rw [specStep_in i a t v hia hat hr]
        exact ⟨⟨rfl, rfl, rfl⟩, fun j hj => by cases hj; exact ⟨rfl, rfl, rfl⟩⟩
      · rw [specStep_out i a t v hia hat hr]
        exact ⟨⟨rfl, rfl, rfl⟩, fun j hj => by cases hj⟩

def specRun (i : Ident) : List Args → List Outcome
  | [] => []
  | a :: rest => (specStep i a).1 :: specRun (specStep i a).2 rest

/-- complete (uncrashed) starts one after the other; each comes with the randomness it would
    use if it had to generate an identity -/
def runStarts (cfg : Cfg) : Dir → List (Args × JS) → List Outcome × Dir
  | d, [] => ([], d)
  | d, (a, fresh) :: rest =>
    let r := start cfg d a fresh
    let (outs, d') := runStarts cfg (run d r.ops) rest
    (r.out :: outs, d')

/-- one start from a directory holding a valid identity -/
theorem start_of_valid (cfg : Cfg) (d : Dir) (i : Ident) (a : Args) (fresh : JS)
    (h : recover d = .valid i) (ha : a.iatOnly) :
    (start cfg d a fresh).out = (specStep i a).1 ∧
    recover (run d (start cfg d a fresh).ops) = .valid (specStep i a).2 := by
  obtain ⟨c, js, hc, hl, hi, hp⟩ := recover_valid d i h
  rw [start_loaded cfg d a fresh c js ha hc hl]
  cases hia : a.iat with
  | none =>
    rw [specStep_none i a hia]
    have hch : iatChoice js none = some js.iat := rfl
    have hi' : identOfJS { js with iat := js.iat } = some i := hi
    rw [finish_ok cfg [] js none js.iat i hch hi']
    exact ⟨rfl, recover_of_get _ _ i hi' hp (finish_ok_get cfg d [] _ _)⟩
  | some t =>
    cases hat : atoi t with
    | none =>
      rw [specStep_bad i a t hia hat]
      have hch : iatChoice js (some t) = none := hat
      rw [finish_err1 cfg [] js (some t) hch]
      exact ⟨rfl, h⟩
    | some v =>
      have hch : iatChoice js (some t) = some v := hat
      have hset := identOfJS_setIat js i v hi
      by_cases hr : (Consts.Obfs4.iatNone : Int) ≤ v ∧ v ≤ (Consts.Obfs4.iatParanoid : Int)
      · rw [specStep_in i a t v hia hat hr]
        simp only [hr, and_self, if_true] at hset
        rw [finish_ok cfg [] js (some t) v _ hch hset]
        exact ⟨rfl, recover_of_get _ _ _ hset hp (finish_ok_get cfg d [] _ _)⟩
      · rw [specStep_out i a t v hia hat hr]
        simp only [hr, if_false] at hset
        rw [finish_err2 cfg [] js (some t) v hch hset]
        exact ⟨rfl, h⟩

/-- **every restart presents the identity first persisted**: any sequence of starts whose
    arguments name no identity (with or without IAT overrides, valid or not) yields exactly the
    outcomes the specification demands — for both write disciplines. -/
theorem restart_same_identity (cfg : Cfg) (d : Dir) (i0 : Ident) (h : recover d = .valid i0)
    (starts : List (Args × JS)) (hs : ∀ p ∈ starts, p.1.iatOnly) :
    (runStarts cfg d starts).1 = specRun i0 (starts.map Prod.fst) := by
  induction starts generalizing d i0 with
  | nil => rfl
  | cons p rest ih =>
    obtain ⟨a, fresh⟩ := p
    obtain ⟨h1, h2⟩ := start_of_valid cfg d i0 a fresh h (hs (a, fresh) (by simp))
    have := ih (run d (start cfg d a fresh).ops) (specStep i0 a).2 h2
      (fun p hp => hs p (List.mem_cons_of_mem _ hp))
    simp only [runStarts, List.map_cons, specRun, h1, this]

/-- in the specification the node ID, private key and seed never change -/
theorem spec_same_keys (i0 : Ident) (as : List Args) :
    ∀ o ∈ specRun i0 as, ∀ i, o = .ok i →
      i.nodeID = i0.nodeID ∧ i.priv = i0.priv ∧ i.seed = i0.seed := by
  induction as generalizing i0 with
  | nil => simp [specRun]
  | cons a rest ih =>
    obtain ⟨⟨k1, k2, k3⟩, k4⟩ := specStep_keys i0 a
    intro o ho i hoi
    simp only [specRun, List.mem_cons] at ho
    rcases ho with rfl | ho
    · exact k4 i hoi
    · obtain ⟨e1, e2, e3⟩ := ih _ o ho i hoi
      exact ⟨e1.trans k1, e2.trans k2, e3.trans k3⟩

/-- the very first start (no state file, no identity arguments): the generated identity is
    presented and persisted — also when a malformed `iat-mode` makes the start itself fail -/
theorem first_start_persists (cfg : Cfg) (d : Dir) (a : Args) (fresh : JS) (f : Ident)
    (hd : get d sfN = none) (ha : a.iatOnly) (hf : identOfJS fresh = some f) (hp : q ∉ fresh.pub) :
    (start cfg d a fresh).out = (specStep f a).1 ∧
    recover (run d (start cfg d a fresh).ops) = .valid (specStep f a).2 := by
  obtain ⟨h1, h2, h3⟩ := ha
  have hst : start cfg d a fresh =
      finish cfg (writeFile cfg.fixed sfN (encState (recOfJS fresh))) fresh a.iat := by
    unfold start
    simp only [sfN] at hd
    simp only [h1, h2, h3, hd]
  rw [hst]
  have hpre : recover (run d (writeFile cfg.fixed sfN (encState (recOfJS fresh)))) = .valid f :=
    recover_of_get _ _ f hf hp (run_writeFile_self _ _ _ _)
  cases hia : a.iat with
  | none =>
    rw [specStep_none f a hia]
    have hch : iatChoice fresh none = some fresh.iat := rfl
    have hi' : identOfJS { fresh with iat := fresh.iat } = some f := hf
    rw [finish_ok cfg _ fresh none fresh.iat f hch hi']
    exact ⟨rfl, recover_of_get _ _ f hi' hp (finish_ok_get cfg d _ _ _)⟩
  | some t =>
    cases hat : atoi t with
    | none =>
      rw [specStep_bad f a t hia hat]
      have hch : iatChoice fresh (some t) = none := hat
      rw [finish_err1 cfg _ fresh (some t) hch]
      exact ⟨rfl, hpre⟩
    | some v =>
      have hch : iatChoice fresh (some t) = some v := hat
      have hset := identOfJS_setIat fresh f v hf
      by_cases hr : (Consts.Obfs4.iatNone : Int) ≤ v ∧ v ≤ (Consts.Obfs4.iatParanoid : Int)
      · rw [specStep_in f a t v hia hat hr]
        simp only [hr, and_self, if_true] at hset
        rw [finish_ok cfg _ fresh (some t) v _ hch hset]
        exact ⟨rfl, recover_of_get _ _ _ hset hp (finish_ok_get cfg d _ _ _)⟩
      · rw [specStep_out f a t v hia hat hr]
        simp only [hr, if_false] at hset
        rw [finish_err2 cfg _ fresh (some t) v hch hset]
        exact ⟨rfl, hpre⟩

/-- a start WITH explicit `node-id` / `private-key` / `drbg-seed` arguments presents exactly that
    identity (IAT mode: the override, else `iatNone` — the arguments fully specify the bridge)
    and persists it; in particular explicit arguments equal to the persisted identity present
    the persisted identity.  A refused start changes nothing. -/
theorem explicit_args_present_that_identity (cfg : Cfg) (d : Dir) (a : Args) (fresh : JS)
    (n p sd : Bytes) (hn : a.nodeID = some n) (hp : a.priv = some p) (hs : a.seed = some sd)
    (i : Ident) (hi : identOfJS ⟨n, p, [], sd, 0⟩ = some i) :
    (start cfg d a fresh).out = (specStep i a).1 ∧
    ((specStep i a).1 ≠ .err → recover (run d (start cfg d a fresh).ops) = .valid (specStep i a).2) ∧
    ((specStep i a).1 = .err → (start cfg d a fresh).ops = []) := by
  have hst : start cfg d a fresh = finish cfg [] ⟨n, p, [], sd, 0⟩ a.iat := by
    unfold start; simp only [hn, hp, hs]
  have hq : q ∉ ([] : Bytes) := by simp
  rw [hst]
  cases hia : a.iat with
  | none =>
    rw [specStep_none i a hia]
    have hch : iatChoice ⟨n, p, [], sd, 0⟩ none = some 0 := rfl
    rw [finish_ok cfg [] _ none 0 i hch hi]
    exact ⟨rfl, fun _ => recover_of_get _ _ i hi hq (finish_ok_get cfg d [] _ _), fun h => by cases h⟩
  | some t =>
    cases hat : atoi t with
    | none =>
      rw [specStep_bad i a t hia hat]
      have hch : iatChoice ⟨n, p, [], sd, 0⟩ (some t) = none := hat
      rw [finish_err1 cfg [] _ (some t) hch]
      exact ⟨rfl, fun h => absurd rfl h, fun _ => rfl⟩
    | some v =>
      have hch : iatChoice ⟨n, p, [], sd, 0⟩ (some t) = some v := hat
      have hset := identOfJS_setIat ⟨n, p, [], sd, 0⟩ i v hi
      by_cases hr : (Consts.Obfs4.iatNone : Int) ≤ v ∧ v ≤ (Consts.Obfs4.iatParanoid : Int)
      · rw [specStep_in i a t v hia hat hr]
        simp only [hr, and_self, if_true] at hset
        rw [finish_ok cfg [] _ (some t) v _ hch hset]
        exact ⟨rfl, fun _ => recover_of_get _ _ _ hset hq (finish_ok_get cfg d [] _ _), fun h => by cases h⟩
      · rw [specStep_out i a t v hia hat hr]
        simp only [hr, if_false] at hset
        rw [finish_err2 cfg [] _ (some t) v hch hset]
        exact ⟨rfl, fun h => absurd rfl h, fun _ => rfl⟩

/-! ### a concrete directory meeting the hypotheses (non-vacuity) -/

/-- node ID 11…, private key 22…, public key 33…, seed 44…, IAT mode 1 -/
def exRec : Rec := ⟨List.replicate 40 49, List.replicate 64 50, List.replicate 64 51, List.replicate 48 52, [49]⟩
def exIdent : Ident := ⟨List.replicate 20 0x11, List.replicate 32 0x22, List.replicate 24 0x44, 1⟩
/-- a state directory with the record, a bridge-line file and a torn leftover temp file -/
def exDir : Dir := [(sfN, encState exRec), (bfN, ascii "Bridge …"), (tmpName sfN, ascii "{\"node-id\":\"11")]
def exCfg (fixed : Bool) : Cfg := ⟨fixed, fun _ => List.replicate 32 9, ascii "# comment\\n\\n"⟩
def exFresh : JS := ⟨List.replicate 40 53, List.replicate 64 54, List.replicate 64 55, List.replicate 48 56, 0⟩
def exArgs : Args := ⟨none, none, none, some [50]⟩   -- iat-mode=2

theorem exDir_valid : recover exDir = .valid exIdent := by decide

example : (runStarts (exCfg true) exDir [(Args.empty, exFresh), (exArgs, exFresh), (Args.empty, exFresh)]).1
    = [.ok exIdent, .ok { exIdent with iat := 2 }, .ok { exIdent with iat := 2 }] := by
  rw [restart_same_identity (exCfg true) exDir exIdent exDir_valid _
    (by intro p hp; simp at hp; rcases hp with rfl | rfl | rfl <;> exact ⟨rfl, rfl, rfl⟩)]
  decide

example : (start (exCfg true) [] Args.empty exFresh).out
    = .ok ⟨List.replicate 20 0x55, List.replicate 32 0x66, List.replicate 24 0x88, 0⟩ := by decide

/-! ### presented = persisted = next -/

/-- **what a start presents = what it leaves in the state directory = what the next plain start
    presents** — for EVERY successful start: any directory (empty: first start, generated
    identity; or holding a state file), any arguments (none, an IAT override, an explicit
    identity), both disciplines.  The identity this start runs with and advertises (`Args()`:
    cert and iat-mode) is the one the state file it leaves recovers to, the bridge-line file it
    leaves is the one for that identity, and a following start without arguments presents
    exactly the same. -/
theorem presented_eq_persisted_eq_next (cfg : Cfg) (d : Dir) (a : Args) (fresh : JS) (i : Ident)
    (hfp : q ∉ fresh.pub) (hok : (start cfg d a fresh).out = .ok i) :
    recover (run d (start cfg d a fresh).ops) = .valid i ∧
    get (run d (start cfg d a fresh).ops) bfN = some (bridgeText cfg i) ∧
    ∀ fresh' : JS, (start cfg (run d (start cfg d a fresh).ops) Args.empty fresh').out = .ok i := by
  have key : recover (run d (start cfg d a fresh).ops) = .valid i ∧
      get (run d (start cfg d a fresh).ops) bfN = some (bridgeText cfg i) := by
    unfold start at hok ⊢
    cases hp : a.priv <;> cases hn : a.nodeID <;> cases hs : a.seed <;>
      simp only [hp, hn, hs] at hok ⊢
    · cases hc : get d Consts.Obfs4.stateFile with
      | none =>
        simp only [hc] at hok ⊢
        exact finish_ok_inv cfg d _ fresh a.iat i hok hfp
      | some c =>
        simp only [hc] at hok ⊢
        cases hl : loadJS c with
        | none => simp only [hl] at hok; cases hok
        | some js =>
          simp only [hl] at hok ⊢
          exact finish_ok_inv cfg d [] js a.iat i hok (loadJS_noq c js hl)
    all_goals first
      | (cases hok; done)
      | exact finish_ok_inv cfg d [] _ a.iat i hok (by simp)
  refine ⟨key.1, key.2, fun fresh' => ?_⟩
  have := (start_of_valid cfg _ i Args.empty fresh' key.1 ⟨rfl, rfl, rfl⟩).1
  rw [this]; rfl

/-- instance: the FIRST start on an empty directory with an `iat-mode=2` argument presents the
    generated identity with IAT mode 2 -/
example : (start (exCfg true) [] exArgs exFresh).out
    = .ok ⟨List.replicate 20 0x55, List.replicate 32 0x66, List.replicate 24 0x88, 2⟩ := by decide

/-! ### no hidden process state -/

/-- A process serving two state directories: a history of starts, each addressed to directory
    `false` or `true`.  In the model a start is a function of (directory contents, arguments,
    randomness) and nothing else — the only state carried from one start to the next is the
    directory itself; there is no per-process cache.  (For the code this is what the in-process
    multi-start histories of the correspondence check test.) -/
def runTwo (cfg : Cfg) : Dir × Dir → List (Bool × Args × JS) → List (Bool × Outcome) × (Dir × Dir)
  | ds, [] => ([], ds)
  | (d0, d1), (b, a, fresh) :: rest =>
    let r := start cfg (if b then d1 else d0) a fresh
    let ds' := if b then (d0, run d1 r.ops) else (run d0 r.ops, d1)
    let (outs, fin) := runTwo cfg ds' rest
    ((b, r.out) :: outs, fin)

/-- **starts on one directory are unaffected by starts on another one in the same process**, and
    several starts in one process behave exactly like the same starts in processes of their own:
    the outcomes for directory 0 in any interleaved history, and its final contents, are those of
    `runStarts` (one start after the other, state = directory contents) on directory 0 alone. -/
theorem interleaved_directories_independent (cfg : Cfg) (d0 d1 : Dir) (h : List (Bool × Args × JS)) :
    (((runTwo cfg (d0, d1) h).1.filter (fun p => !p.1)).map Prod.snd,
      (runTwo cfg (d0, d1) h).2.1)
      = runStarts cfg d0 ((h.filter (fun p => !p.1)).map Prod.snd) := by
  induction h generalizing d0 d1 with
  | nil => rfl
  | cons x rest ih =>
    obtain ⟨b, a, fresh⟩ := x
    cases b with
    | true =>
      have := ih d0 (run d1 (start cfg d1 a fresh).ops)
      simp only [runTwo, if_true, List.filter_cons, Bool.not_true, Bool.false_eq_true, if_false]
      exact this
    | false =>
      have := ih (run d0 (start cfg d0 a fresh).ops) d1
      simp only [runTwo, Bool.false_eq_true, if_false, List.filter_cons, Bool.not_false, if_true,
        List.map_cons, runStarts]
      rw [← this]

/-! ### refused starts -/

/-- **a refused start changes nothing**: when the directory holds a state file (readable or
    not) and a start — with ANY arguments: none, an out-of-range or non-numeric `iat-mode`,
    malformed or partial `node-id` / `private-key` / `drbg-seed` — returns an error, it has
    performed no file-system call at all: every check (argument completeness, load, override
    parsing, hex/length validation, IAT range) happens before the first write. -/
theorem refused_start_changes_nothing (cfg : Cfg) (d : Dir) (a : Args) (fresh : JS) (c : Bytes)
    (hc : get d sfN = some c) (herr : (start cfg d a fresh).out = .err) :
    (start cfg d a fresh).ops = [] ∧ run d (start cfg d a fresh).ops = d := by
  have hops : (start cfg d a fresh).ops = [] := by
    simp only [sfN] at hc
    unfold start at herr ⊢
    cases hp : a.priv <;> cases hn : a.nodeID <;> cases hs : a.seed <;>
      simp only [hp, hn, hs, hc] at herr ⊢
    · cases hl : loadJS c with
      | none => rfl
      | some js =>
        simp only [hl] at herr ⊢
        exact finish_err_ops cfg [] js a.iat herr
    · exact finish_err_ops cfg [] _ a.iat herr
  exact ⟨hops, by rw [hops]; rfl⟩

/-- hence the persisted identity survives every refused start, and the next plain start
    presents it unchanged (IAT mode included) -/
theorem refused_start_keeps_identity (cfg : Cfg) (d : Dir) (i : Ident) (a : Args) (fresh fresh' : JS)
    (h : recover d = .valid i) (herr : (start cfg d a fresh).out = .err) :
    recover (run d (start cfg d a fresh).ops) = .valid i ∧
    (start cfg (run d (start cfg d a fresh).ops) Args.empty fresh').out = .ok i := by
  obtain ⟨c, _, hc, _, _, _⟩ := recover_valid d i h
  rw [(refused_start_changes_nothing cfg d a fresh c hc herr).2]
  exact ⟨h, (start_of_valid cfg d i Args.empty fresh' h ⟨rfl, rfl, rfl⟩).1⟩

/-- instances: an out-of-range override, a non-numeric one, a partial and a malformed explicit
    identity are all refused on the example directory -/
example : (start (exCfg true) exDir ⟨none, none, none, some [51]⟩ exFresh).out = .err
    ∧ (start (exCfg true) exDir ⟨none, none, none, some [120]⟩ exFresh).out = .err
    ∧ (start (exCfg true) exDir ⟨some (List.replicate 40 49), none, none, none⟩ exFresh).out = .err
    ∧ (start (exCfg true) exDir ⟨some [122, 122], some (List.replicate 64 50), some (List.replicate 48 52), none⟩ exFresh).out = .err := by
  decide
/-! ## Crashes -/

/-- **the crash states are exactly the crash points**: a directory is among the enumerated crash
    states of an op list iff it is what a kill leaves after `k` completed calls with, if `j > 0`,
    exactly `j` bytes (fewer than all) of the write in flight — every prefix, every torn length,
    nothing else.  (`crashAt` is what the correspondence check materialises.) -/
theorem crash_states_iff (d : Dir) (ops : List Op) (s : Dir) :
    s ∈ crashStates d ops ↔ ∃ k j, crashAt d ops k j = some s :=
  ⟨crashStates_sound d ops s, fun ⟨k, j, h⟩ => crashAt_mem d ops k j s h⟩

/-- a state-file content is `good` for identity `i0`: it loads and validates to the same node
    ID, private key and seed (the IAT mode may differ) -/
def goodFor (i0 : Ident) (c : Bytes) : Bool :=
  match loadJS c with
  | none => false
  | some js =>
    match identOfJS js with
    | none => false
    | some i => i.nodeID == i0.nodeID && i.priv == i0.priv && i.seed == i0.seed

/-- `s` holds (recoverably) the keys of `i0` -/
def HoldsKeys (i0 : Ident) (s : Dir) : Prop :=
  ∃ i, recover s = .valid i ∧ i.nodeID = i0.nodeID ∧ i.priv = i0.priv ∧ i.seed = i0.seed

private theorem holds_of_good (i0 : Ident) (s : Dir) (c : Bytes) (hc : get s sfN = some c)
    (hg : goodFor i0 c = true) : HoldsKeys i0 s := by
  unfold goodFor at hg
  cases hl : loadJS c with
  | none => simp [hl] at hg
  | some js =>
    simp only [hl] at hg
    cases hi : identOfJS js with
    | none => simp [hi] at hg
    | some i =>
      simp only [hi, Bool.and_eq_true, beq_iff_eq] at hg
      refine ⟨i, ?_, hg.1.1, hg.1.2, hg.2⟩
      unfold recover
      simp only [sfN] at hc
      simp only [hc, hl, hi]

private theorem good_of_valid (d : Dir) (i0 : Ident) (h : recover d = .valid i0) :
    ∃ c, get d sfN = some c ∧ goodFor i0 c = true := by
  obtain ⟨c, js, hc, hl, hi, _⟩ := recover_valid d i0 h
  exact ⟨c, hc, by simp [goodFor, hl, hi]⟩

/-- **atomic replace is crash safe — for EVERY op list that follows the discipline.**
    If the state file is never truncated, written, unlinked or renamed away, and every file
    renamed over it holds, at that moment, a complete record with the persisted keys, then every
    crash state (every prefix of the op list, the write in flight torn at any byte) recovers to
    a valid record carrying the persisted node ID, private key and seed.  Files left over under
    other names (temp files, torn or complete) play no role. -/
theorem atomic_replace_safe (d : Dir) (ops : List Op) (i0 : Ident) (h : recover d = .valid i0)
    (hs : safeOps sfN (goodFor i0) d ops = true) :
    ∀ s ∈ crashStates d ops, HoldsKeys i0 s := by
  obtain ⟨c0, hc0, hg0⟩ := good_of_valid d i0 h
  intro s hsm
  obtain ⟨c, hc, hg⟩ := safeOps_crash sfN (goodFor i0) d ops c0 hc0 hg0 hs s hsm
  exact holds_of_good i0 s c hc hg

/-- the hypotheses are met by the repaired start-up on the example directory (10 calls, an
    IAT override), so the theorem speaks about a non-trivial op list -/
example : safeOps sfN (goodFor exIdent) exDir (start (exCfg true) exDir exArgs exFresh).ops = true
    ∧ (start (exCfg true) exDir exArgs exFresh).ops.length = 10 := by decide

/-- … and are NOT met by the code before the repair -/
example : safeOps sfN (goodFor exIdent) exDir (start (exCfg false) exDir exArgs exFresh).ops = false := by
  decide

/-- the same for crash points addressed as (completed calls, surviving bytes) — the form the
    correspondence check enumerates -/
theorem atomic_replace_safe_at (d : Dir) (ops : List Op) (i0 : Ident) (h : recover d = .valid i0)
    (hs : safeOps sfN (goodFor i0) d ops = true) (k j : Nat) (s : Dir)
    (hk : crashAt d ops k j = some s) : HoldsKeys i0 s :=
  atomic_replace_safe d ops i0 h hs s (crashAt_mem d ops k j s hk)

/-- **old or new, exactly**: in every crash state of write-temp-then-rename of any file, the
    file holds its complete old content or the complete new content -/
theorem atomic_write_old_or_new (d : Dir) (n : Name) (c : Bytes) :
    ∀ s ∈ crashStates d (writeFile true n c), get s n = get d n ∨ get s n = some c :=
  writeFile_fixed_old_or_new d n c

/-- **the repaired start-up, every crash point**: a crash anywhere in a start (from a
    directory with a persisted identity, arguments naming no identity) leaves a directory that
    recovers to the old record or to the record this start was about to persist. -/
theorem fixed_start_crash_old_or_new (cfg : Cfg) (hfx : cfg.fixed = true) (d : Dir) (i0 : Ident)
    (a : Args) (fresh : JS) (h : recover d = .valid i0) (ha : a.iatOnly) :
    ∀ s ∈ crashStates d (start cfg d a fresh).ops,
      recover s = .valid i0 ∨ recover s = .valid (specStep i0 a).2 := by
  obtain ⟨c, js, hc, hl, hi, hp⟩ := recover_valid d i0 h
  have hspec := (start_of_valid cfg d i0 a fresh h ha).2
  rw [start_loaded cfg d a fresh c js ha hc hl] at hspec ⊢
  -- the three shapes of `finish`
  have hshape : (finish cfg [] js a.iat).ops = [] ∨
      ∃ L C, (finish cfg [] js a.iat).ops = [] ++ writeFile cfg.fixed bfN L ++ writeFile cfg.fixed sfN C := by
    cases hch : iatChoice js a.iat with
    | none => exact Or.inl (by rw [finish_err1 cfg [] js a.iat hch])
    | some v =>
      cases hid : identOfJS { js with iat := v } with
      | none => exact Or.inl (by rw [finish_err2 cfg [] js a.iat v hch hid])
      | some i => exact Or.inr ⟨_, _, by rw [finish_ok cfg [] js a.iat v i hch hid]⟩
  intro s hsm
  rcases hshape with he | ⟨L, C, he⟩
  · rw [he] at hsm
    simp only [crashStates, List.mem_singleton] at hsm
    subst hsm; exact Or.inl h
  · rw [he] at hsm hspec
    rw [hfx] at hsm hspec
    simp only [List.nil_append] at hsm hspec
    rcases (mem_crashStates_append _ _ _ _).mp hsm with h1 | h2
    · left
      rw [recover_congr s d (writeFile_other true d bfN sfN L sf_ne_bf sf_ne_bftmp s h1)]; exact h
    · rcases writeFile_fixed_old_or_new _ sfN C s h2 with ho | hn
      · left
        rw [recover_congr s d (ho.trans (run_writeFile_other true d bfN sfN L sf_ne_bf sf_ne_bftmp))]
        exact h
      · right
        rw [← hspec]
        apply recover_congr
        rw [hn, run_append]
        exact (run_writeFile_self _ _ _ _).symm

/-- the repaired start-up follows the discipline of `atomic_replace_safe` -/
theorem fixed_start_follows_discipline (cfg : Cfg) (hfx : cfg.fixed = true) (d : Dir) (i0 : Ident)
    (a : Args) (fresh : JS) (h : recover d = .valid i0) (ha : a.iatOnly) :
    safeOps sfN (goodFor i0) d (start cfg d a fresh).ops = true := by
  obtain ⟨c, js, hc, hl, hi, hp⟩ := recover_valid d i0 h
  rw [start_loaded cfg d a fresh c js ha hc hl]
  cases hch : iatChoice js a.iat with
  | none => rw [finish_err1 cfg [] js a.iat hch]; rfl
  | some v =>
    cases hid : identOfJS { js with iat := v } with
    | none => rw [finish_err2 cfg [] js a.iat v hch hid]; rfl
    | some i =>
      rw [finish_ok cfg [] js a.iat v i hch hid, hfx]
      simp only [List.nil_append]
      rw [safeOps_append, safeOps_writeFile_other sfN bfN _ _ _ bf_ne_sf bftmp_ne_sf, Bool.true_and]
      apply safeOps_writeFile_self
      -- the record written is good: it loads back to the validated state
      have hset := identOfJS_setIat js i0 v hi
      rw [hid] at hset
      have hl' := load_enc { js with iat := v } i hid hp
      unfold goodFor
      simp only [hl', hid]
      by_cases hr : (Consts.Obfs4.iatNone : Int) ≤ v ∧ v ≤ (Consts.Obfs4.iatParanoid : Int)
      · simp only [hr, and_self, if_true, Option.some.injEq] at hset
        subst hset; simp
      · simp [hr] at hset

/-- the histories a state directory can go through: any number of starts (arguments naming no
    identity), each killed at an arbitrary crash point (including "not killed at all") -/
inductive Reach (cfg : Cfg) : Dir → Dir → Prop
  | refl (d : Dir) : Reach cfg d d
  | step (d s s' : Dir) (a : Args) (fresh : JS) :
      Reach cfg d s → a.iatOnly → s' ∈ crashStates s (start cfg s a fresh).ops → Reach cfg d s'

/-- **a crash at any instant of any start of any history never loses or replaces the persisted
    identity** (repaired code): after every such history the directory still recovers to the
    persisted keys, and the next start presents them. -/
theorem identity_survives_every_crash_history (cfg : Cfg) (hfx : cfg.fixed = true) (d s : Dir)
    (i0 : Ident) (h : recover d = .valid i0) (hr : Reach cfg d s) :
    HoldsKeys i0 s ∧
    ∀ (a : Args) (fresh : JS), a.iatOnly → a.iat = none →
      ∃ i, (start cfg s a fresh).out = .ok i ∧ i.nodeID = i0.nodeID ∧ i.priv = i0.priv ∧ i.seed = i0.seed := by
  have hk : HoldsKeys i0 s := by
    induction hr with
    | refl => exact ⟨i0, h, rfl, rfl, rfl⟩
    | step s s' a fresh _ ha hm ih =>
      obtain ⟨i, hi, e1, e2, e3⟩ := ih
      rcases fixed_start_crash_old_or_new cfg hfx s i a fresh hi ha s' hm with ho | hn
      · exact ⟨i, ho, e1, e2, e3⟩
      · obtain ⟨⟨k1, k2, k3⟩, _⟩ := specStep_keys i a
        exact ⟨_, hn, k1.trans e1, k2.trans e2, k3.trans e3⟩
  refine ⟨hk, ?_⟩
  intro a fresh ha hia
  obtain ⟨i, hi, e1, e2, e3⟩ := hk
  have := (start_of_valid cfg s i a fresh hi ha).1
  refine ⟨i, ?_, e1, e2, e3⟩
  rw [this, specStep_none i a hia]

/-- **a leftover file under any other name is ignored**: start-up reads the state file only -/
theorem leftover_temp_ignored (cfg : Cfg) (d : Dir) (t : Name) (c : Bytes) (a : Args) (fresh : JS)
    (ht : t ≠ sfN) : start cfg (set d t c) a fresh = start cfg d a fresh := by
  have : get (set d t c) Consts.Obfs4.stateFile = get d Consts.Obfs4.stateFile :=
    get_set_ne d t sfN c (Ne.symm ht)
  unfold start; rw [this]

/-- **an existing but unreadable state file is never regenerated over** (both disciplines): if
    the state file exists and does not load (empty, torn, garbage), every start without identity
    arguments fails and performs no file-system call at all — the file is left as it is. -/
theorem unreadable_state_never_regenerated (cfg : Cfg) (s : Dir) (c : Bytes) (a : Args) (fresh : JS)
    (hc : get s sfN = some c) (hl : loadJS c = none) (ha : a.iatOnly) :
    start cfg s a fresh = ⟨[], .err⟩ := by
  obtain ⟨h1, h2, h3⟩ := ha
  unfold start
  simp only [sfN] at hc
  simp only [h1, h2, h3, hc, hl]

/-- the same when the file loads as JSON but fails validation (`recover = unparsable`) and the
    start has no arguments at all.  (With an `iat-mode` argument a record whose only defect is an
    out-of-range IAT mode is repaired by the override, in the model as in the code.) -/
theorem invalid_state_never_regenerated (cfg : Cfg) (s : Dir) (fresh : JS)
    (h : recover s = .unparsable) : start cfg s Args.empty fresh = ⟨[], .err⟩ := by
  unfold recover at h
  cases hc : get s Consts.Obfs4.stateFile with
  | none => simp [hc] at h
  | some c =>
    simp only [hc] at h
    cases hl : loadJS c with
    | none => exact unreadable_state_never_regenerated cfg s c Args.empty fresh hc hl ⟨rfl, rfl, rfl⟩
    | some js =>
      simp only [hl] at h
      cases hi : identOfJS js with
      | some i => simp [hi] at h
      | none =>
        rw [start_loaded cfg s Args.empty fresh c js ⟨rfl, rfl, rfl⟩ hc hl]
        have hch : iatChoice js Args.empty.iat = some js.iat := rfl
        exact finish_err2 cfg [] js _ js.iat hch hi

/-! ## Write faults -/

/-- **a failed or short write keeps the old file** (`atomicfile.WriteFile` as it is): when the
    write of the temp file fails after `k` bytes, then in every crash state of the call — and
    after it — the target is untouched, nothing was renamed, and the temp file is removed. -/
theorem write_fault_keeps_old (d : Dir) (k : Nat) (n : Name) (c : Bytes)
    (hf : (writeFileLim k n c).2 = false) :
    (∀ s ∈ crashStates d (writeFileLim k n c).1, get s n = get d n) ∧
    get (run d (writeFileLim k n c).1) (tmpName n) = none ∧
    (∀ op ∈ (writeFileLim k n c).1, ∀ a b, op ≠ .rename a b) := by
  refine ⟨writeFileLim_fault_untouched d k n n c hf (tmp_ne n).symm,
    writeFileLim_fault_tmp_removed d k n c hf, ?_⟩
  have hlen : ¬ c.length ≤ k := by
    intro h; rw [writeFileLim_ok k n c h] at hf; cases hf
  rw [writeFileLim_fault k n c hlen]
  intro op hop a b
  by_cases hk : k = 0 <;> simp [hk] at hop <;> rcases hop with rfl | rfl | rfl | rfl <;> simp

/-- the fault does occur: a 291-byte record under a limit of 100 bytes -/
example : (writeFileLim 100 sfN (List.replicate 291 65)).2 = false ∧
    (writeFileLim 100 sfN (List.replicate 291 65)).1.length = 4 := by decide +kernel

/-- **a start hit by write faults never damages the persisted identity**: with every file write
    of the start subject to an arbitrary size limit `k`, every crash state of the start (its
    final state included) recovers to the old record or to the complete record the start was
    about to persist. -/
theorem faulted_start_keeps_identity (cfg : Cfg) (k : Nat) (d : Dir) (i0 : Ident) (a : Args)
    (fresh : JS) (h : recover d = .valid i0) (ha : a.iatOnly) :
    ∀ s ∈ crashStates d (startLim cfg k d a fresh).ops,
      recover s = .valid i0 ∨ recover s = .valid (specStep i0 a).2 := by
  obtain ⟨c, js, hc, hl, hi, hp⟩ := recover_valid d i0 h
  have hspec := (start_of_valid cfg d i0 a fresh h ha).2
  rw [start_loaded cfg d a fresh c js ha hc hl] at hspec
  have hst : startLim cfg k d a fresh = finishLim cfg k [] js a.iat := by
    obtain ⟨h1, h2, h3⟩ := ha
    unfold startLim
    simp only [sfN] at hc
    simp only [h1, h2, h3, hc, hl]
  rw [hst]
  intro s hsm
  unfold finishLim at hsm
  cases hch : iatChoice js a.iat with
  | none =>
    simp only [hch, crashStates, List.mem_singleton] at hsm
    subst hsm; exact Or.inl h
  | some v =>
    simp only [hch] at hsm
    cases hid : identOfJS { js with iat := v } with
    | none =>
      simp only [hid, crashStates, List.mem_singleton] at hsm
      subst hsm; exact Or.inl h
    | some i =>
      simp only [hid, List.nil_append] at hsm
      rw [finish_ok cfg [] js a.iat v i hch hid] at hspec
      have hnew : ∀ s' : Dir, get s' sfN = some (encState (recOfJS { js with iat := v })) →
          recover s' = .valid (specStep i0 a).2 := by
        intro s' hg
        rw [← hspec]
        apply recover_congr
        rw [hg]; exact (finish_ok_get cfg d [] _ _).symm
      by_cases hb : (writeFileLim k Consts.Obfs4.bridgeFile (bridgeText cfg i)).2 = true
      · simp only [hb, if_true] at hsm
        rcases (mem_crashStates_append _ _ _ _).mp hsm with h1 | h2
        · left
          rw [recover_congr s d (writeFileLim_other d k bfN sfN _ sf_ne_bf sf_ne_bftmp s h1)]; exact h
        · have hd1 : get (run d (writeFileLim k bfN (bridgeText cfg i)).1) sfN = get d sfN :=
            writeFileLim_other d k bfN sfN _ sf_ne_bf sf_ne_bftmp _ (run_mem_crashStates _ _)
          rcases writeFileLim_old_or_new _ k sfN _ s h2 with ho | ⟨_, hn⟩
          · left; rw [recover_congr s d (ho.trans hd1)]; exact h
          · right; exact hnew s hn
      · simp only [hb] at hsm
        simp only [Bool.false_eq_true, if_false] at hsm
        left
        rw [recover_congr s d (writeFileLim_other d k bfN sfN _ sf_ne_bf sf_ne_bftmp s hsm)]; exact h

/-! ## The code before the repair: truncate in place -/

/-- **truncate-in-place is unsafe** (the code before the repair, `os.WriteFile`): every
    successful restart of a bridge with a persisted identity passes through crash states — one
    for EVERY byte count `j` short of the full record, `j = 0` being the kill between
    `open(O_TRUNC)` and `write` — in which the state file is a strict prefix of the record, does
    not load, and makes every later start fail without touching the file: the private key is
    lost. -/
theorem truncate_in_place_unsafe (cfg : Cfg) (hfx : cfg.fixed = false) (d : Dir) (i0 : Ident)
    (a : Args) (fresh : JS) (h : recover d = .valid i0) (ha : a.iatOnly) (i : Ident)
    (hok : (start cfg d a fresh).out = .ok i) :
    ∃ C, get (run d (start cfg d a fresh).ops) sfN = some C ∧
      ∀ j, j < C.length →
        ∃ s ∈ crashStates d (start cfg d a fresh).ops,
          get s sfN = some (C.take j) ∧ recover s = .unparsable ∧
          ∀ (cfg' : Cfg) (a' : Args) (fresh' : JS), a'.iatOnly → start cfg' s a' fresh' = ⟨[], .err⟩ := by
  obtain ⟨c, js, hc, hl, hi, hp⟩ := recover_valid d i0 h
  rw [start_loaded cfg d a fresh c js ha hc hl] at hok ⊢
  cases hch : iatChoice js a.iat with
  | none => rw [finish_err1 cfg [] js a.iat hch] at hok; cases hok
  | some v =>
    cases hid : identOfJS { js with iat := v } with
    | none => rw [finish_err2 cfg [] js a.iat v hch hid] at hok; cases hok
    | some i' =>
      rw [finish_ok cfg [] js a.iat v i' hch hid, hfx]
      simp only [List.nil_append]
      let C := encState (recOfJS { js with iat := v })
      let d1 := run d (writeFile false bfN (bridgeText cfg i'))
      refine ⟨C, ?_, ?_⟩
      · rw [run_append]; exact run_writeFile_self _ _ _ _
      · intro j hj
        have w : WFRec (recOfJS { js with iat := v }) := wf_recOfJS _ i' hid hp
        have hnone : loadJS (C.take j) = none := by
          unfold loadJS; rw [parse_strict_prefix _ w j hj]
        -- the crash state: bridge file rewritten, state file truncated, j bytes written
        have key : ∀ s : Dir, get s sfN = some (C.take j) →
            s ∈ crashStates d1 (writeFile false sfN C) →
            ∃ s ∈ crashStates d (writeFile false bfN (bridgeText cfg i') ++ writeFile false sfN C),
              get s sfN = some (C.take j) ∧ recover s = .unparsable ∧
              ∀ (cfg' : Cfg) (a' : Args) (fresh' : JS), a'.iatOnly → start cfg' s a' fresh' = ⟨[], .err⟩ := by
          intro s hg hm
          refine ⟨s, (mem_crashStates_append _ _ _ _).mpr (Or.inr hm), hg, ?_, ?_⟩
          · unfold recover
            simp only [sfN] at hg
            simp only [hg, hnone]
          · intro cfg' a' fresh' ha'
            exact unreadable_state_never_regenerated cfg' s _ a' fresh' hg hnone ha'
        by_cases hj0 : j = 0
        · subst hj0
          apply key (SF.set d1 sfN [])
          · simp [get_set_self]
          · simp [writeFile, crashStates, Op.apply]
        · apply key (Op.apply (SF.set d1 sfN []) (.write sfN (C.take j)))
          · simp [Op.apply, get_set_self]
          · simp only [writeFile, Bool.false_eq_true, if_false, crashStates, List.mem_cons, List.mem_append]
            refine Or.inr (Or.inr (Or.inr (Or.inl ?_)))
            simp only [torn, List.mem_map, List.mem_range, Op.apply]
            exact ⟨j - 1, by omega, by
              have : j - 1 + 1 = j := by omega
              rw [this]⟩

example : (start (exCfg false) exDir exArgs exFresh).out = .ok { exIdent with iat := 2 } := by decide

/-! ## Session tickets -/

abbrev tfN : Name := Consts.Scramblesuit.ticketFile

/-- **the ticket store never blocks start-up** (repaired code): whatever the directory holds —
    nothing, a complete file, a torn file, garbage — loading yields a store (possibly empty). -/
theorem tickets_never_block (now : Nat) (d : Dir) : (loadTickets true now d).isSome = true := by
  unfold loadTickets
  cases get d Consts.Scramblesuit.ticketFile with
  | none => rfl
  | some c =>
    simp only
    cases parseTickets c <;> simp

/-- in particular from every crash state of any sequence of the store's own checkpoints -/
theorem tickets_never_block_after_crash (now : Nat) (store : List Ticket) (ops : List TOp) (d : Dir) :
    ∀ s ∈ crashStates d (ticketRun true store ops).2, (loadTickets true now s).isSome = true :=
  fun s _ => tickets_never_block now s

/-- **and with the atomic checkpoint nothing is even forgotten**: in every crash state of a
    checkpoint the ticket file is exactly the old file or exactly the complete new store -/
theorem ticket_checkpoint_old_or_new (store : List Ticket) (op : TOp) (d : Dir) :
    ∀ s ∈ crashStates d (ticketStep true store op).2,
      get s tfN = get d tfN ∨ get s tfN = some (encTickets (ticketStep true store op).1) := by
  intro s hs
  cases op with
  | store t => exact writeFile_fixed_old_or_new d tfN _ s hs
  | take a =>
    unfold ticketStep at hs ⊢
    by_cases hany : store.any (fun t => t.addr = a) = true
    · simp only [hany, if_true] at hs ⊢
      exact writeFile_fixed_old_or_new d tfN _ s hs
    · simp only [hany] at hs ⊢
      simp only [Bool.false_eq_true, if_false, crashStates, List.mem_singleton] at hs
      subst hs; exact Or.inl rfl

/-- **a complete ticket file loads back to exactly the stored (well-formed, unexpired) tickets**,
    before and after the repair -/
theorem ticket_store_reloads (fx : Bool) (now : Nat) (d : Dir) (ts : List Ticket)
    (hw : ∀ t ∈ ts, WFTicket t) (hv : ∀ t ∈ ts, ktValid t.kt = true ∧ ticketValid now t = true)
    (hd : get d tfN = some (encTickets ts)) : loadTickets fx now d = some ts := by
  unfold loadTickets
  simp only [tfN] at hd
  rw [hd]
  simp only [parseTickets_enc ts hw]
  congr 1
  apply List.filter_eq_self.mpr
  intro t ht
  simp [hv t ht]

/-- hence, with the atomic checkpoint, a crash at any point of a checkpoint forgets nothing: the
    next load yields the store before the operation or the store after it -/
theorem ticket_crash_old_or_new_store (now : Nat) (d : Dir) (old : List Ticket) (op : TOp)
    (hwo : ∀ t ∈ old, WFTicket t) (hvo : ∀ t ∈ old, ktValid t.kt = true ∧ ticketValid now t = true)
    (hwn : ∀ t ∈ (ticketStep true old op).1, WFTicket t)
    (hvn : ∀ t ∈ (ticketStep true old op).1, ktValid t.kt = true ∧ ticketValid now t = true)
    (hd : get d tfN = some (encTickets old)) :
    ∀ s ∈ crashStates d (ticketStep true old op).2,
      loadTickets true now s = some old ∨ loadTickets true now s = some (ticketStep true old op).1 := by
  intro s hs
  rcases ticket_checkpoint_old_or_new old op d s hs with h | h
  · exact Or.inl (ticket_store_reloads true now s old hwo hvo (h.trans hd))
  · exact Or.inr (ticket_store_reloads true now s _ hwn hvn h)

def exTicket : Ticket := ⟨ascii "192.0.2.1:443", List.replicate 231 65 ++ [61], ascii "1700000000"⟩

example : WFTicket exTicket ∧ ktValid exTicket.kt = true ∧ ticketValid 1700000100 exTicket = true :=
  ⟨⟨by decide, by decide +kernel, by decide⟩, by decide +kernel, by decide⟩

example : loadTickets false 1700000100 [(tfN, encTickets [exTicket])] = some [exTicket] := by decide +kernel

/-- **the in-place checkpoint (code before the repair) blocks start-up**: storing a ticket passes
    through a crash state (killed between `open(O_TRUNC)` and `write`) from which
    `loadTicketStore` — hence the ScrambleSuit `ClientFactory` — fails. -/
theorem tickets_in_place_block (d : Dir) (store : List Ticket) (t : Ticket) (now : Nat) :
    ∃ s ∈ crashStates d (ticketStep false store (.store t)).2, loadTickets false now s = none := by
  refine ⟨SF.set d tfN [], ?_, ?_⟩
  · simp [ticketStep, writeFile, crashStates, Op.apply]
  · unfold loadTickets
    have : get (SF.set d tfN []) Consts.Scramblesuit.ticketFile = some [] := get_set_self _ _ _
    rw [this]; rfl


/-- **structural fact, regenerated from the Go source on every run (go/ast)**: every package-level
    variable (file-scope `var`) of the packages this property's mechanisms live in
    (transports/obfs4) is one of the names below — error values, fixed byte strings,
    flags and function hooks that the code only reads after initialisation.  The models treat all
    other state as owned by one connection / one object; a NEW package-level variable (a cache, a
    pool, a scratch buffer, a pre-keyed hash shared "to save allocations") is how such state comes
    to be shared between connections and goroutines, which compiles, passes the tests and typically
    needs true parallelism or a multi-connection history to misbehave.  Adding one breaks this
    theorem; the concurrent / multi-connection families of the harness then search for the failing
    schedule. -/
theorem no_new_package_level_state :
    O4.Facts.Obfs4.pkg_vars ⊆ ["ErrInvalidHandshake", "ErrMarkNotFoundYet", "ErrNtorFailed", "ErrReplayedHandshake", "biasedDist", "zeroPadBytes"] := by
  decide

end C18
