import O4.Lemmas.C10
/-!
# C10 — no peer input can crash, wedge or bloat an endpoint (the part provable over the models
that exist: obfs4 handshake parsers, obfs4 frame decoder, packet layer and `Read` loop)

Property theorems only.  Helper lemmas: `O4/Lemmas/C10.lean`; bounds as closed expressions in
the regenerated constants: `O4/Model/C10Bounds.lean` (the Go harness compares what the real
endpoints buffer/consume against the very same expressions through the driver `c10`).

What "no panic" means here: the models are total functions over lists, so a Go slice expression
`b[i:j]` appears as `(b.drop i).take (j-i)`, which silently truncates where Go would panic.  The
no-panic theorems therefore state the *range facts* that make every slice expression of the Go
code in-range (`i ≤ j ≤ len b`): the position returned by `findMarkMac`, the consumed length
returned by the handshake parsers, the payload range of a packet, the number of bytes a decoder
phase takes out of the buffer, and the `makePacket` precondition on the send side.
-/
namespace C10
open O4 O4.C10 O4.Framing O4.Obfs4 O4.Handshake
open O4.Consts.Framing O4.Consts.Obfs4 O4.Consts.Ntor

/-! ## obfs4 handshake: range facts (no panic) -/

/-- **`findMarkMac` only returns positions whose mark and MAC lie inside the buffer** (and below
    `maxPos`, and not before `startPos`): `buf[pos:pos+markLength]`,
    `resp[:pos+markLength]` and `resp[pos+markLength : pos+markLength+macLength]`
    (handshake_ntor.go:213-217, :290-296) are all in range. -/
theorem findMarkMac_in_range (mk buf : Bytes) (startPos maxPos : Nat) (fromTail : Bool) (pos : Nat)
    (h : findMarkMac mk buf startPos maxPos fromTail = some pos) :
    startPos ≤ pos ∧ pos + markLength + macLength ≤ buf.length ∧
    pos + markLength + macLength ≤ maxPos := by
  unfold findMarkMac at h
  dsimp only at h
  repeat' (first | (cases h; done) | split at h)
  all_goals (cases h; omega)

example : findMarkMac (List.replicate 16 7) (List.replicate 40 0 ++ List.replicate 16 7 ++ List.replicate 16 9)
    32 8192 false = some 40 := by decide

/-- the client parser asks for more data (`ErrMarkNotFoundYet`) only while the response is
    shorter than `maxHandshakeLength` (handshake_ntor.go:196) -/
theorem obfs4_hs_client_retry_short (P : Prims) (c : Client) (resp : Bytes)
    (h : (parseServerHandshake P c resp).2 = .err .markNotFoundYet) :
    resp.length < maxHandshakeLength := by
  have h96 : serverMinHandshakeLength < maxHandshakeLength := by decide
  unfold parseServerHandshake at h
  dsimp only at h
  repeat' (first | (cases h; done) | split at h)
  all_goals omega

/-- on success the number of bytes the client parser reports as consumed
    (`receiveBuffer.Next(n)`) is inside the buffer and at most `maxHandshakeLength` -/
theorem obfs4_hs_client_ok_in_range (P : Prims) (c : Client) (resp : Bytes) (n : Nat) (seed : Bytes)
    (h : (parseServerHandshake P c resp).2 = .ok n seed) :
    serverMinHandshakeLength ≤ resp.length ∧ n ≤ resp.length ∧ n ≤ maxHandshakeLength := by
  unfold parseServerHandshake at h
  dsimp only at h
  repeat' (first | (cases h; done) | split at h)
  all_goals
    have := findMarkMac_in_range _ _ _ _ _ _ ‹findMarkMac _ _ _ _ _ = some _›
    cases h
    omega

/-- the server parser asks for more data only while the request is shorter than
    `maxHandshakeLength` (handshake_ntor.go:273) -/
theorem obfs4_hs_server_retry_short (P : Prims) (s : Server) (f : RF.Filter) (nowHour nowNs : Int)
    (resp : Bytes)
    (h : (parseClientHandshake P s f nowHour nowNs resp).2.2 = .err .markNotFoundYet) :
    resp.length < maxHandshakeLength := by
  have h64 : clientMinHandshakeLength < maxHandshakeLength := by decide
  unfold parseClientHandshake at h
  dsimp only at h
  repeat' (first | (cases h; done) | split at h)
  all_goals omega

/-- an accepted client handshake is between the minimum and the maximum handshake length -/
theorem obfs4_hs_server_ok_in_range (P : Prims) (s : Server) (f : RF.Filter) (nowHour nowNs : Int)
    (resp seed : Bytes)
    (h : (parseClientHandshake P s f nowHour nowNs resp).2.2 = .ok seed) :
    clientMinHandshakeLength ≤ resp.length ∧ resp.length ≤ maxHandshakeLength := by
  unfold parseClientHandshake at h
  dsimp only at h
  repeat' (first | (cases h; done) | split at h)
  all_goals
    have := findMarkMac_in_range _ _ _ _ _ _ ‹findMarkMac _ _ _ _ _ = some _›
    omega

/-! ## obfs4 handshake: the receive buffer is bounded for every peer and chunking -/

/-- `clientHandshake`'s loop (obfs4.go:352-375) over `parseServerHandshake` -/
def clientLoop (P : Prims) : Client → Bytes → List Bytes → Client × Bytes × Bool :=
  hsLoop id (fun c _ resp =>
    ((parseServerHandshake P c resp).1, decide ((parseServerHandshake P c resp).2 = .err .markNotFoundYet)))

/-- `serverHandshake`'s loop (obfs4.go:391-417) over `parseClientHandshake`; every read comes
    with the clock readings the parser will use -/
def serverLoop (P : Prims) : Server × RF.Filter → Bytes → List (Bytes × Int × Int) →
    (Server × RF.Filter) × Bytes × Bool :=
  hsLoop (fun i => i.1) (fun sf i resp =>
    let r := parseClientHandshake P sf.1 sf.2 i.2.1 i.2.2 resp
    ((r.1, r.2.1), decide (r.2.2 = .err .markNotFoundYet)))

/-- **whatever the server (or anyone else) sends and however it is segmented, the client's
    handshake buffer never holds more than `2·maxHandshakeLength − 1` bytes**, and while the
    handshake is still waiting for data it holds less than `maxHandshakeLength`.
    (`reads`: what each successful `Read(hsBuf[:])` returned, hence at most `maxHandshakeLength`.) -/
theorem obfs4_hs_buffer_bounded_client (P : Prims) (c : Client) (reads : List Bytes)
    (hr : ∀ ch ∈ reads, ch.length ≤ maxHandshakeLength) :
    (clientLoop P c [] reads).2.1.length ≤ obfs4HsBound ∧
    ((clientLoop P c [] reads).2.2 = false → (clientLoop P c [] reads).2.1.length < maxHandshakeLength) := by
  have hpos : (([] : Bytes)).length < maxHandshakeLength := by decide
  exact hsLoop_bounded id _ maxHandshakeLength
    (fun s _ b hb => obfs4_hs_client_retry_short P s b (by simpa using hb)) reads c [] hpos hr

/-- the same for the server, for every clock behaviour and replay-filter state -/
theorem obfs4_hs_buffer_bounded_server (P : Prims) (s : Server) (f : RF.Filter)
    (reads : List (Bytes × Int × Int)) (hr : ∀ i ∈ reads, i.1.length ≤ maxHandshakeLength) :
    (serverLoop P (s, f) [] reads).2.1.length ≤ obfs4HsBound ∧
    ((serverLoop P (s, f) [] reads).2.2 = false →
      (serverLoop P (s, f) [] reads).2.1.length < maxHandshakeLength) := by
  have hpos : (([] : Bytes)).length < maxHandshakeLength := by decide
  exact hsLoop_bounded (fun i : Bytes × Int × Int => i.1) _ maxHandshakeLength
    (fun sf i b hb => obfs4_hs_server_retry_short P sf.1 sf.2 i.2.1 i.2.2 b (by simpa using hb))
    reads (s, f) [] hpos hr

/-- the bound is the "less than two handshake maxima" of the property text -/
theorem obfs4HsBound_lt : obfs4HsBound < 2 * maxHandshakeLength := by decide

/-! ## obfs4 data phase: range facts (no panic) -/

/-- **receive side**: a decoder phase never takes more bytes than the buffer holds
    (`io.ReadFull(frames, box[:nextLength])` after the `nextLength > frames.Len()` test,
    framing.go:267-277), and whenever the packet parser does not reject a frame plaintext the
    payload slice `pkt[3 : 3+payloadLen]` is inside the packet (packet.go:131-144) — in
    particular a delivered payload is exactly that sub-range. -/
theorem obfs4_data_no_panic (c : Crypto) (srv : Bool) :
    (∀ s b s' o n, rxStep c srv s b = some (s', o, n) → n ≤ b.length) ∧
    (∀ pkt, (∀ e, parsePacket srv pkt ≠ .bad e) →
      packetOverhead ≤ pkt.length ∧ packetOverhead + be16 (pkt.drop 1) ≤ pkt.length) ∧
    (∀ pkt b, parsePacket srv pkt = .payload b →
      b = (pkt.drop packetOverhead).take (be16 (pkt.drop 1)) ∧ b.length = be16 (pkt.drop 1) ∧
      packetOverhead + b.length ≤ pkt.length) := by
  refine ⟨?_, fun pkt h => parsePacket_in_range srv pkt h, fun pkt b h => ?_⟩
  · intro s b s' o n h
    unfold rxStep at h
    cases hst : Framing.step c s b with
    | none => simp [hst] at h
    | some r =>
      obtain ⟨s1, o1, n1⟩ := r
      simp only [hst, Option.some.injEq, Prod.mk.injEq] at h
      obtain ⟨_, _, rfl⟩ := h
      exact ((step_prefixStable c) s b s1 o1 n1 hst).1
  · obtain ⟨h1, h2, _, h4⟩ := parsePacket_payload_len srv pkt b h
    exact ⟨h1, h2, h4⟩

example : parsePacket false [0, 0, 2, 104, 105, 0, 0] = .payload [104, 105] := by decide
example : parsePacket false [0, 0, 9, 104, 105] = .bad (.invalidPayloadLength 9) := by decide

private theorem chop_chunks (sz : Nat) : ∀ (k : Nat) (data : Bytes), data.length ≤ k →
    ∀ ch ∈ chop sz data, ch.length ≤ sz := by
  intro k
  induction k with
  | zero =>
    intro data hk ch hm
    have : data = [] := List.eq_nil_of_length_eq_zero (by omega)
    subst this
    rw [chop] at hm
    simp at hm
  | succ k ih =>
    intro data hk ch hm
    rw [chop] at hm
    split at hm
    · simp at hm
    · rename_i hne
      simp only [not_or] at hne
      have hd : data.length ≠ 0 := fun h0 => hne.2 (List.eq_nil_of_length_eq_zero h0)
      simp only [List.mem_cons] at hm
      rcases hm with rfl | hm
      · simp only [List.length_take]; omega
      · exact ih (data.drop sz) (by simp only [List.length_drop]; omega) ch hm

/-- **send side**: `Write` chops its argument into chunks of at most `maxPacketPayloadLength`,
    so the `makePacket` precondition (`panic("BUG: makePacket() …")`) holds for every payload
    packet, and for every padding packet whose padding is at most `maxPacketPaddingLength`
    (C09 proves that of `padBurst`); each resulting plaintext fits a frame, so `Encode` does not
    reject it either. -/
theorem obfs4_tx_no_panic (data : Bytes) (pads : List Nat)
    (hp : ∀ p ∈ pads, p ≤ maxPacketPaddingLength) :
    ∀ r ∈ txPackets data pads, ∃ pkt, r = some pkt ∧ pkt.length ≤ maximumFramePayloadLength := by
  intro r hr
  unfold txPackets at hr
  simp only [List.mem_append, List.mem_map] at hr
  have hmax : maxPacketPayloadLength + packetOverhead = maximumFramePayloadLength := by decide
  have hpad : maxPacketPaddingLength = maxPacketPayloadLength := by decide
  rcases hr with ⟨ch, hch, rfl⟩ | ⟨p, hpm, rfl⟩
  · have hl := chop_chunks maxPacketPayloadLength data.length data (Nat.le_refl _) ch hch
    unfold makePacket
    have : ¬ (ch.length + 0 > maxPacketPayloadLength) := by omega
    rw [if_neg this]
    refine ⟨_, rfl, ?_⟩
    simp [putBe16, Bytes.zeros, packetOverhead] at *
    omega
  · have hl := hp p hpm
    unfold makePacket
    have : ¬ (([] : Bytes).length + p > maxPacketPayloadLength) := by simp; omega
    rw [if_neg this]
    refine ⟨_, rfl, ?_⟩
    simp [putBe16, Bytes.zeros, packetOverhead] at *
    omega

example : ∀ r ∈ txPackets (List.replicate 3000 1) [5, 1427],
    ∃ pkt, r = some pkt ∧ pkt.length ≤ maximumFramePayloadLength :=
  obfs4_tx_no_panic _ _ (by decide)

/-! ## obfs4 data phase: progress -/

/-- **every iteration of the `readPackets` buffer loop that does not stop takes at least
    `lengthLength = 2` bytes out of `receiveBuffer`** (the length phase takes exactly 2, the box
    phase a legal frame length ≥ `minFrameLength`), keeps the decoder state legal, and the loop
    run with `procFuel` stops because the decoder needs more data or reports an error — never by
    exhausting the fuel.  Hence `(events left, receiveBuffer length)` decreases
    lexicographically along `Read`: its outer loop consumes one network event per iteration
    (`read` is structurally recursive on the event list; it blocks when there is none) and the
    inner loop strictly shortens the buffer. -/
theorem obfs4_data_progress (c : Crypto) (hc : CryptoSane c) (srv : Bool) (rx : Rx)
    (hd : DecOK rx.dec) :
    (∀ d outs n, rxStep c srv rx.dec rx.rxBuf = some (d, outs, n) →
      DecOK d ∧ lengthLength ≤ n ∧ n ≤ rx.rxBuf.length) ∧
    ((processBuffer c srv (procFuel rx) rx).2 = none →
      rxStep c srv (processBuffer c srv (procFuel rx) rx).1.dec
        (processBuffer c srv (procFuel rx) rx).1.rxBuf = none) ∧
    (processBuffer c srv (procFuel rx) rx).1.rxBuf.length ≤ rx.rxBuf.length := by
  refine ⟨fun d outs n h => ?_, ?_, ?_⟩
  · obtain ⟨h1, h2, h3, _, _⟩ := iter_shape c hc srv rx d outs n hd h
    obtain ⟨_, hdec⟩ := foldl_apply_rxBuf outs { rx with dec := d, rxBuf := rx.rxBuf.drop n }
    rw [hdec] at h1
    exact ⟨h1, h2, h3⟩
  · exact processBuffer_settles c hc srv (procFuel rx) rx hd (by unfold procFuel; omega)
  · exact (processBuffer_total c hc srv (procFuel rx) rx hd).2.2

/-! ## obfs4 data phase: the buffers are bounded for every peer and chunking -/

/-- every network read returns at most `consumeReadSize` bytes (`readBuffer`) -/
def ChunksBounded (evs : List NetEv) : Prop :=
  ∀ ch, NetEv.data ch ∈ evs → ch.length ≤ consumeReadSize

/-- what holds between `Read` calls on a connection that has not failed: the decoder state is
    legal, `receiveBuffer` holds at most `S` bytes and both buffers together at most
    `S + consumeReadSize`.  `S` is `maxFrameLength − 1` for a server (its handshake resets the
    buffer) and `obfs4HsBound` for a client (`clientHandshake` leaves whatever followed the
    server response in `receiveBuffer`). -/
structure RxInv (S : Nat) (rx : Rx) : Prop where
  dec : DecOK rx.dec
  raw : rx.rxBuf.length ≤ S
  total : rx.rxBuf.length + rx.decoded.length ≤ S + consumeReadSize

theorem rxInv_init (S : Nat) : RxInv S Rx.init :=
  ⟨decOK_init, by simp [Rx.init], by simp [Rx.init]⟩

/-- the state `clientHandshake` hands over: fresh decoder, the surplus of the handshake buffer -/
def clientStart (surplus : Bytes) : Rx := ⟨Dec.init, surplus, [], []⟩

theorem rxInv_clientStart (surplus : Bytes) (h : surplus.length ≤ obfs4HsBound) :
    RxInv obfs4HsBound (clientStart surplus) :=
  ⟨decOK_init, h, by simp only [clientStart, List.length_nil]; omega⟩

/-- what a `Read` call guarantees about the state it leaves: always the bound on the total;
    the full invariant unless it returned an error (then the connection is dead) -/
def ReadPost (S : Nat) : ReadResult → Prop
  | .ret rx' _ err _ =>
    DecOK rx'.dec ∧ rx'.rxBuf.length + rx'.decoded.length ≤ S + consumeReadSize ∧
    (err = none → RxInv S rx')
  | .blocked rx' => RxInv S rx'

private theorem read_inv (c : Crypto) (hc : CryptoSane c) (srv : Bool) (n : Nat) (S : Nat)
    (hS : maxFrameLength - 1 ≤ S) :
    ∀ (evs : List NetEv) (rx : Rx), RxInv S rx → ChunksBounded evs →
      ReadPost S (read c srv n rx evs) := by
  intro evs
  induction evs with
  | nil =>
    intro rx hi _
    have := hi.total
    by_cases hdz : rx.decoded.length > 0
    · rw [Obfs4.read, if_pos hdz]
      exact ⟨hi.dec, by simp only [List.length_drop]; omega,
        fun _ => ⟨hi.dec, hi.raw, by simp only [List.length_drop]; omega⟩⟩
    · rw [Obfs4.read, if_neg hdz]
      exact hi
  | cons ev rest ih =>
    intro rx hi hcb
    have hrest : ChunksBounded rest := fun ch hm => hcb ch (by simp [hm])
    have := hi.total
    have := hi.raw
    by_cases hdz : rx.decoded.length > 0
    · rw [Obfs4.read, if_pos hdz]
      exact ⟨hi.dec, by simp only [List.length_drop]; omega,
        fun _ => ⟨hi.dec, hi.raw, by simp only [List.length_drop]; omega⟩⟩
    · rw [Obfs4.read, if_neg hdz]
      have hdz' : rx.decoded.length = 0 := by omega
      -- the state and verdict `readPackets` produces: legal, bounded; short again if no error
      have key : DecOK (readPackets c srv rx ev).1.dec ∧
          (readPackets c srv rx ev).1.rxBuf.length + (readPackets c srv rx ev).1.decoded.length
            ≤ S + consumeReadSize ∧
          ((readPackets c srv rx ev).2 = none → (readPackets c srv rx ev).1.rxBuf.length ≤ S) := by
        cases ev with
        | data chunk =>
          have hch : chunk.length ≤ consumeReadSize := hcb chunk (by simp)
          simp only [readPackets]
          have hd1 : DecOK ({ rx with rxBuf := rx.rxBuf ++ chunk } : Rx).dec := hi.dec
          obtain ⟨t1, t2, t3⟩ := processBuffer_total c hc srv
            (procFuel { rx with rxBuf := rx.rxBuf ++ chunk }) _ hd1
          simp only [List.length_append] at t2 t3
          refine ⟨t1, by omega, fun herr => ?_⟩
          have hs := processBuffer_settles c hc srv _ _ hd1 (by unfold procFuel; omega) herr
          have := settled_short c srv _ _ t1 hs
          omega
        | fail cls =>
          simp only [readPackets]
          obtain ⟨t1, t2, t3⟩ := processBuffer_total c hc srv (procFuel rx) rx hi.dec
          exact ⟨t1, by omega, fun h => by simp at h⟩
      obtain ⟨k1, k2, k3⟩ := key
      cases hrp : readPackets c srv rx ev with
      | mk rx1 err =>
        rw [hrp] at k1 k2 k3
        dsimp only at k1 k2 k3
        cases err with
        | some e =>
          exact ⟨k1, by simp only [List.length_drop]; omega, fun h => by simp at h⟩
        | none =>
          exact ih rx1 ⟨k1, k3 rfl, k2⟩ hrest

/-- the receive-side states an obfs4 connection can be in between `Read` calls, starting from
    `rx0`: any sequence of `Read(b)` calls with any buffer sizes, against any sequence of
    network reads (any bytes, any segmentation into at most `consumeReadSize` per read,
    failures at any point) -/
inductive Reachable (c : Crypto) (srv : Bool) (rx0 : Rx) : Rx → Prop
  | init : Reachable c srv rx0 rx0
  | ret {rx n evs rx' bytes rest} : Reachable c srv rx0 rx → ChunksBounded evs →
      read c srv n rx evs = .ret rx' bytes none rest → Reachable c srv rx0 rx'
  | blocked {rx n evs rx'} : Reachable c srv rx0 rx → ChunksBounded evs →
      read c srv n rx evs = .blocked rx' → Reachable c srv rx0 rx'

theorem reachable_inv (c : Crypto) (hc : CryptoSane c) (srv : Bool) (S : Nat)
    (hS : maxFrameLength - 1 ≤ S) (rx0 rx : Rx) (h0 : RxInv S rx0)
    (h : Reachable c srv rx0 rx) : RxInv S rx := by
  induction h with
  | init => exact h0
  | @ret rx1 n evs rx' bytes rest _ hcb hread ih =>
    have := read_inv c hc srv n S hS evs rx1 ih hcb
    rw [hread] at this
    exact this.2.2 rfl
  | @blocked rx1 n evs rx' _ hcb hread ih =>
    have := read_inv c hc srv n S hS evs rx1 ih hcb
    rw [hread] at this
    exact this

/-- **server: for every peer behaviour and every segmentation, `receiveBuffer` +
    `receiveDecodedBuffer` never exceed `consumeReadSize + maxFrameLength − 1` bytes** between
    calls, `receiveBuffer` alone holds less than one frame (`< maxFrameLength`), and the state
    a failing `Read` leaves behind obeys the same total bound. -/
theorem obfs4_data_buffer_bounded (c : Crypto) (hc : CryptoSane c) (srv : Bool) (rx : Rx)
    (h : Reachable c srv Rx.init rx) :
    rx.rxBuf.length + rx.decoded.length ≤ obfs4DataBound ∧
    rx.rxBuf.length < maxFrameLength ∧
    (∀ n evs rx' bytes err rest, ChunksBounded evs →
      read c srv n rx evs = .ret rx' bytes err rest →
      rx'.rxBuf.length + rx'.decoded.length ≤ obfs4DataBound) := by
  have hS : maxFrameLength - 1 ≤ obfs4SettledBound := Nat.le_refl _
  have hi := reachable_inv c hc srv obfs4SettledBound hS Rx.init rx (rxInv_init _) h
  have hb : obfs4DataBound = obfs4SettledBound + consumeReadSize := by decide
  have hsb : obfs4SettledBound = maxFrameLength - 1 := rfl
  have hpos : 0 < maxFrameLength := by decide
  refine ⟨by have := hi.total; omega, by have := hi.raw; omega, ?_⟩
  intro n evs rx' bytes err rest hcb hread
  have := read_inv c hc srv n obfs4SettledBound hS evs rx hi hcb
  rw [hread] at this
  have := this.2.1
  omega

/-- **client: the same with the handshake surplus**: whatever followed the server response in
    the handshake buffer (at most `obfs4HsBound` bytes) is the initial `receiveBuffer`; both
    buffers together never exceed `obfs4HsBound + consumeReadSize`. -/
theorem obfs4_data_buffer_bounded_client (c : Crypto) (hc : CryptoSane c) (srv : Bool)
    (surplus : Bytes) (hs : surplus.length ≤ obfs4HsBound) (rx : Rx)
    (h : Reachable c srv (clientStart surplus) rx) :
    rx.rxBuf.length + rx.decoded.length ≤ obfs4ClientDataBound ∧
    (∀ n evs rx' bytes err rest, ChunksBounded evs →
      read c srv n rx evs = .ret rx' bytes err rest →
      rx'.rxBuf.length + rx'.decoded.length ≤ obfs4ClientDataBound) := by
  have hS : maxFrameLength - 1 ≤ obfs4HsBound := by decide
  have hi := reachable_inv c hc srv obfs4HsBound hS _ rx (rxInv_clientStart surplus hs) h
  have hb : obfs4ClientDataBound = obfs4HsBound + consumeReadSize := rfl
  refine ⟨by have := hi.total; omega, ?_⟩
  intro n evs rx' bytes err rest hcb hread
  have := read_inv c hc srv n obfs4HsBound hS evs rx hi hcb
  rw [hread] at this
  have := this.2.1
  omega

/-- once a `Read` has gone to the network and returned without an error, `receiveBuffer` is
    short again (less than one frame), for the client too: the surplus is transient -/
theorem obfs4_data_settles (c : Crypto) (hc : CryptoSane c) (srv : Bool) (rx : Rx)
    (hd : DecOK rx.dec) (chunk : Bytes) :
    (readPackets c srv rx (.data chunk)).2 = none →
    (readPackets c srv rx (.data chunk)).1.rxBuf.length < maxFrameLength := by
  intro herr
  simp only [readPackets] at herr ⊢
  have hd1 : DecOK ({ rx with rxBuf := rx.rxBuf ++ chunk } : Rx).dec := hd
  obtain ⟨t1, _, _⟩ := processBuffer_total c hc srv
    (procFuel { rx with rxBuf := rx.rxBuf ++ chunk }) _ hd1
  have hs := processBuffer_settles c hc srv _ _ hd1 (by unfold procFuel; omega) herr
  exact settled_short c srv _ _ t1 hs

/-- the bound is below the "`consumeReadSize` + one segment" of the property text -/
theorem obfs4DataBound_lt : obfs4DataBound < consumeReadSize + maximumSegmentLength := by decide

/-! ## non-vacuity: a concrete link crypto satisfying `CryptoSane`, and a concrete run -/

/-- a toy link crypto: 16 zero bytes of "tag", no masking -/
def toyCrypto : Crypto where
  sealB _ p := List.replicate 16 0 ++ p
  openB _ b := if 16 ≤ b.length then some (b.drop 16) else none
  mask _ := 0
  rnd _ := 16

theorem toyCrypto_sane : CryptoSane toyCrypto := by
  refine ⟨fun _ => by simp [toyCrypto, minFrameLength, maxFrameLength], fun n box pkt h => ?_⟩
  simp only [toyCrypto] at h
  split at h
  · simp only [Option.some.injEq] at h
    subst h
    simp only [List.length_drop]
    have : minFrameLength = 16 := rfl
    omega
  · cases h

/-- a frame carrying the packet `[0,0,2,104,105]` (payload "hi"), split inside the frame -/
def toyFrame : Bytes := [0, 21] ++ List.replicate 16 0 ++ [0, 0, 2, 104, 105]

example : (match read toyCrypto false 10 Rx.init [.data (toyFrame.take 7), .data (toyFrame.drop 7)] with
    | .ret rx b e _ => (rx.rxBuf, b, e)
    | .blocked _ => ([], [], none)) = ([], [104, 105], none) := by decide

example : (match read toyCrypto false 10 Rx.init [.data (toyFrame.take 7)] with
    | .ret _ _ _ _ => none
    | .blocked rx => some (rx.rxBuf.length, rx.dec.pending)) = some (5, some (21, false)) := by decide

deriving instance DecidableEq for O4.Obfs4.ReadResult

/-- a reachable state with a non-empty decoded buffer: one frame arrives whole, `Read(b)` with
    `len b = 1` returns "h" and keeps "i" -/
example : Reachable toyCrypto false Rx.init ⟨⟨1, none⟩, [], [105], []⟩ :=
  Reachable.ret (n := 1) (evs := [.data toyFrame]) (bytes := [104]) (rest := []) .init
    (by intro ch h; simp only [List.mem_singleton, NetEv.data.injEq] at h; subst h; decide)
    (by decide)

end C10
