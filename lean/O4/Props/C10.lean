import O4.Lemmas.C10
import O4.Model.C10Deadline
import O4.Lemmas.Obfs4Chunk
import O4.Props.C03
import O4.Props.C13
import O4.Props.C14
import O4.Props.C15
import O4.Props.C16
import O4.Props.C17
/-!
# C10 — no peer input can crash, wedge or bloat an endpoint (the part provable over the models
that exist: obfs4 handshake parsers, obfs4 frame decoder, packet layer and `Read` loop)

Property theorems only.  Helper lemmas: `O4/Lemmas/C10.lean`; bounds as closed expressions in
the regenerated constants: `O4/Model/C10Bounds.lean` (the Go harness compares what the real
endpoints buffer/consume against the very same expressions through the driver `c10`).

What "no panic" means here: the models are total functions over lists, so a Go slice expression
`b[i:j]` appears as `(b.drop i).take (j-i)`, which silently truncates where Go would panic.  The
no-panic theorems therefore state the *range facts* that make every slice expression of the Go
code in-range (`i ≤ j ≤ len b`): the position returned by `findMarkMac`, the consumed length
returned by the handshake parsers, the payload range of a packet, the number of bytes a decoder
phase takes out of the buffer, and the `makePacket` precondition on the send side.
-/
namespace C10
open O4 O4.C10 O4.Framing O4.Obfs4 O4.Handshake
open O4.Consts.Framing O4.Consts.Obfs4 O4.Consts.Ntor

/-! ## obfs4 handshake: range facts (no panic) -/

/-- **`findMarkMac` only returns positions whose mark and MAC lie inside the buffer** (and below
    `maxPos`, and not before `startPos`): `buf[pos:pos+markLength]`,
    `resp[:pos+markLength]` and `resp[pos+markLength : pos+markLength+macLength]`
    (handshake_ntor.go:213-217, :290-296) are all in range. -/
theorem findMarkMac_in_range (mk buf : Bytes) (startPos maxPos : Nat) (fromTail : Bool) (pos : Nat)
    (h : findMarkMac mk buf startPos maxPos fromTail = some pos) :
    startPos ≤ pos ∧ pos + markLength + macLength ≤ buf.length ∧
    pos + markLength + macLength ≤ maxPos := by
  unfold findMarkMac at h
  dsimp only at h
  repeat' (first | (cases h; done) | split at h)
  all_goals (cases h; omega)

example : findMarkMac (List.replicate 16 7) (List.replicate 40 0 ++ List.replicate 16 7 ++ List.replicate 16 9)
    32 8192 false = some 40 := by decide

/-- the client parser asks for more data (`ErrMarkNotFoundYet`) only while the response is
    shorter than `maxHandshakeLength` (handshake_ntor.go:196) -/
theorem obfs4_hs_client_retry_short (P : Prims) (c : Client) (resp : Bytes)
    (h : (parseServerHandshake P c resp).2 = .err .markNotFoundYet) :
    resp.length < maxHandshakeLength := by
  have h96 : serverMinHandshakeLength < maxHandshakeLength := by decide
  unfold parseServerHandshake at h
  dsimp only at h
  repeat' (first | (cases h; done) | split at h)
  all_goals omega

/-- on success the number of bytes the client parser reports as consumed
    (`receiveBuffer.Next(n)`) is inside the buffer and at most `maxHandshakeLength` -/
theorem obfs4_hs_client_ok_in_range (P : Prims) (c : Client) (resp : Bytes) (n : Nat) (seed : Bytes)
    (h : (parseServerHandshake P c resp).2 = .ok n seed) :
    serverMinHandshakeLength ≤ resp.length ∧ n ≤ resp.length ∧ n ≤ maxHandshakeLength := by
  unfold parseServerHandshake at h
  dsimp only at h
  repeat' (first | (cases h; done) | split at h)
  all_goals
    have := findMarkMac_in_range _ _ _ _ _ _ ‹findMarkMac _ _ _ _ _ = some _›
    cases h
    omega

/-- the server parser asks for more data only while the request is shorter than
    `maxHandshakeLength` (handshake_ntor.go:273) -/
theorem obfs4_hs_server_retry_short (P : Prims) (s : Server) (f : RF.Filter) (nowHour nowNs : Int)
    (resp : Bytes)
    (h : (parseClientHandshake P s f nowHour nowNs resp).2.2 = .err .markNotFoundYet) :
    resp.length < maxHandshakeLength := by
  have h64 : clientMinHandshakeLength < maxHandshakeLength := by decide
  unfold parseClientHandshake at h
  dsimp only at h
  repeat' (first | (cases h; done) | split at h)
  all_goals omega

/-- an accepted client handshake is between the minimum and the maximum handshake length -/
theorem obfs4_hs_server_ok_in_range (P : Prims) (s : Server) (f : RF.Filter) (nowHour nowNs : Int)
    (resp seed : Bytes)
    (h : (parseClientHandshake P s f nowHour nowNs resp).2.2 = .ok seed) :
    clientMinHandshakeLength ≤ resp.length ∧ resp.length ≤ maxHandshakeLength := by
  unfold parseClientHandshake at h
  dsimp only at h
  repeat' (first | (cases h; done) | split at h)
  all_goals
    have := findMarkMac_in_range _ _ _ _ _ _ ‹findMarkMac _ _ _ _ _ = some _›
    omega

/-! ## obfs4 handshake: the receive buffer is bounded for every peer and chunking -/

/-- `clientHandshake`'s loop (obfs4.go:352-375) over `parseServerHandshake` -/
def clientLoop (P : Prims) : Client → Bytes → List Bytes → Client × Bytes × Bool :=
  hsLoop id (fun c _ resp =>
    ((parseServerHandshake P c resp).1, decide ((parseServerHandshake P c resp).2 = .err .markNotFoundYet)))

/-- `serverHandshake`'s loop (obfs4.go:391-417) over `parseClientHandshake`; every read comes
    with the clock readings the parser will use -/
def serverLoop (P : Prims) : Server × RF.Filter → Bytes → List (Bytes × Int × Int) →
    (Server × RF.Filter) × Bytes × Bool :=
  hsLoop (fun i => i.1) (fun sf i resp =>
    let r := parseClientHandshake P sf.1 sf.2 i.2.1 i.2.2 resp
    ((r.1, r.2.1), decide (r.2.2 = .err .markNotFoundYet)))

/-- **whatever the server (or anyone else) sends and however it is segmented, the client's
    handshake buffer never holds more than `2·maxHandshakeLength − 1` bytes**, and while the
    handshake is still waiting for data it holds less than `maxHandshakeLength`.
    (`reads`: what each successful `Read(hsBuf[:])` returned, hence at most `maxHandshakeLength`.) -/
theorem obfs4_hs_buffer_bounded_client (P : Prims) (c : Client) (reads : List Bytes)
    (hr : ∀ ch ∈ reads, ch.length ≤ maxHandshakeLength) :
    (clientLoop P c [] reads).2.1.length ≤ obfs4HsBound ∧
    ((clientLoop P c [] reads).2.2 = false → (clientLoop P c [] reads).2.1.length < maxHandshakeLength) := by
  have hpos : (([] : Bytes)).length < maxHandshakeLength := by decide
  exact hsLoop_bounded id _ maxHandshakeLength
    (fun s _ b hb => obfs4_hs_client_retry_short P s b (by simpa using hb)) reads c [] hpos hr

/-- the same for the server, for every clock behaviour and replay-filter state -/
theorem obfs4_hs_buffer_bounded_server (P : Prims) (s : Server) (f : RF.Filter)
    (reads : List (Bytes × Int × Int)) (hr : ∀ i ∈ reads, i.1.length ≤ maxHandshakeLength) :
    (serverLoop P (s, f) [] reads).2.1.length ≤ obfs4HsBound ∧
    ((serverLoop P (s, f) [] reads).2.2 = false →
      (serverLoop P (s, f) [] reads).2.1.length < maxHandshakeLength) := by
  have hpos : (([] : Bytes)).length < maxHandshakeLength := by decide
  exact hsLoop_bounded (fun i : Bytes × Int × Int => i.1) _ maxHandshakeLength
    (fun sf i b hb => obfs4_hs_server_retry_short P sf.1 sf.2 i.2.1 i.2.2 b (by simpa using hb))
    reads (s, f) [] hpos hr

/-- the bound is the "less than two handshake maxima" of the property text -/
theorem obfs4HsBound_lt : obfs4HsBound < 2 * maxHandshakeLength := by decide

/-! ## obfs4 data phase: range facts (no panic) -/

/-- **receive side**: a decoder phase never takes more bytes than the buffer holds
    (`io.ReadFull(frames, box[:nextLength])` after the `nextLength > frames.Len()` test,
    framing.go:267-277), and whenever the packet parser does not reject a frame plaintext the
    payload slice `pkt[3 : 3+payloadLen]` is inside the packet (packet.go:131-144) — in
    particular a delivered payload is exactly that sub-range. -/
theorem obfs4_data_no_panic (c : Crypto) (srv : Bool) :
    (∀ s b s' o n, rxStep c srv s b = some (s', o, n) → n ≤ b.length) ∧
    (∀ pkt, (∀ e, parsePacket srv pkt ≠ .bad e) →
      packetOverhead ≤ pkt.length ∧ packetOverhead + be16 (pkt.drop 1) ≤ pkt.length) ∧
    (∀ pkt b, parsePacket srv pkt = .payload b →
      b = (pkt.drop packetOverhead).take (be16 (pkt.drop 1)) ∧ b.length = be16 (pkt.drop 1) ∧
      packetOverhead + b.length ≤ pkt.length) := by
  refine ⟨?_, fun pkt h => parsePacket_in_range srv pkt h, fun pkt b h => ?_⟩
  · intro s b s' o n h
    unfold rxStep at h
    cases hst : Framing.step c s b with
    | none => simp [hst] at h
    | some r =>
      obtain ⟨s1, o1, n1⟩ := r
      simp only [hst, Option.some.injEq, Prod.mk.injEq] at h
      obtain ⟨_, _, rfl⟩ := h
      exact ((step_prefixStable c) s b s1 o1 n1 hst).1
  · obtain ⟨h1, h2, _, h4⟩ := parsePacket_payload_len srv pkt b h
    exact ⟨h1, h2, h4⟩

example : parsePacket false [0, 0, 2, 104, 105, 0, 0] = .payload [104, 105] := by decide
example : parsePacket false [0, 0, 9, 104, 105] = .bad (.invalidPayloadLength 9) := by decide

private theorem chop_chunks (sz : Nat) : ∀ (k : Nat) (data : Bytes), data.length ≤ k →
    ∀ ch ∈ chop sz data, ch.length ≤ sz := by
  intro k
  induction k with
  | zero =>
    intro data hk ch hm
    have : data = [] := List.eq_nil_of_length_eq_zero (by omega)
    subst this
    rw [chop] at hm
    simp at hm
  | succ k ih =>
    intro data hk ch hm
    rw [chop] at hm
    split at hm
    · simp at hm
    · rename_i hne
      simp only [not_or] at hne
      have hd : data.length ≠ 0 := fun h0 => hne.2 (List.eq_nil_of_length_eq_zero h0)
      simp only [List.mem_cons] at hm
      rcases hm with rfl | hm
      · simp only [List.length_take]; omega
      · exact ih (data.drop sz) (by simp only [List.length_drop]; omega) ch hm

/-- **send side**: `Write` chops its argument into chunks of at most `maxPacketPayloadLength`,
    so the `makePacket` precondition (`panic("BUG: makePacket() …")`) holds for every payload
    packet, and for every padding packet whose padding is at most `maxPacketPaddingLength`
    (C09 proves that of `padBurst`); each resulting plaintext fits a frame, so `Encode` does not
    reject it either. -/
theorem obfs4_tx_no_panic (data : Bytes) (pads : List Nat)
    (hp : ∀ p ∈ pads, p ≤ maxPacketPaddingLength) :
    ∀ r ∈ txPackets data pads, ∃ pkt, r = some pkt ∧ pkt.length ≤ maximumFramePayloadLength := by
  intro r hr
  unfold txPackets at hr
  simp only [List.mem_append, List.mem_map] at hr
  have hmax : maxPacketPayloadLength + packetOverhead = maximumFramePayloadLength := by decide
  have hpad : maxPacketPaddingLength = maxPacketPayloadLength := by decide
  rcases hr with ⟨ch, hch, rfl⟩ | ⟨p, hpm, rfl⟩
  · have hl := chop_chunks maxPacketPayloadLength data.length data (Nat.le_refl _) ch hch
    unfold makePacket
    have : ¬ (ch.length + 0 > maxPacketPayloadLength) := by omega
    rw [if_neg this]
    refine ⟨_, rfl, ?_⟩
    simp [putBe16, Bytes.zeros, packetOverhead] at *
    omega
  · have hl := hp p hpm
    unfold makePacket
    have : ¬ (([] : Bytes).length + p > maxPacketPayloadLength) := by simp; omega
    rw [if_neg this]
    refine ⟨_, rfl, ?_⟩
    simp [putBe16, Bytes.zeros, packetOverhead] at *
    omega

example : ∀ r ∈ txPackets (List.replicate 3000 1) [5, 1427],
    ∃ pkt, r = some pkt ∧ pkt.length ≤ maximumFramePayloadLength :=
  obfs4_tx_no_panic _ _ (by decide)

/-! ## obfs4 data phase: progress -/

/-- **every iteration of the `readPackets` buffer loop that does not stop takes at least
    `lengthLength = 2` bytes out of `receiveBuffer`** (the length phase takes exactly 2, the box
    phase a legal frame length ≥ `minFrameLength`), keeps the decoder state legal, and the loop
    run with `procFuel` stops because the decoder needs more data or reports an error — never by
    exhausting the fuel.  Hence `(events left, receiveBuffer length)` decreases
    lexicographically along `Read`: its outer loop consumes one network event per iteration
    (`read` is structurally recursive on the event list; it blocks when there is none) and the
    inner loop strictly shortens the buffer. -/
theorem obfs4_data_progress (c : Crypto) (hc : CryptoSane c) (srv : Bool) (rx : Rx)
    (hd : DecOK rx.dec) :
    (∀ d outs n, rxStep c srv rx.dec rx.rxBuf = some (d, outs, n) →
      DecOK d ∧ lengthLength ≤ n ∧ n ≤ rx.rxBuf.length) ∧
    ((processBuffer c srv (procFuel rx) rx).2 = none →
      rxStep c srv (processBuffer c srv (procFuel rx) rx).1.dec
        (processBuffer c srv (procFuel rx) rx).1.rxBuf = none) ∧
    (processBuffer c srv (procFuel rx) rx).1.rxBuf.length ≤ rx.rxBuf.length := by
  refine ⟨fun d outs n h => ?_, ?_, ?_⟩
  · obtain ⟨h1, h2, h3, _, _⟩ := iter_shape c hc srv rx d outs n hd h
    obtain ⟨_, hdec⟩ := foldl_apply_rxBuf outs { rx with dec := d, rxBuf := rx.rxBuf.drop n }
    rw [hdec] at h1
    exact ⟨h1, h2, h3⟩
  · exact processBuffer_settles c hc srv (procFuel rx) rx hd (by unfold procFuel; omega)
  · exact (processBuffer_total c hc srv (procFuel rx) rx hd).2.2

/-! ## obfs4 data phase: the buffers are bounded for every peer and chunking -/

/-- the bytes a network read returned (with or without an error) -/
def evChunk : NetEv → Bytes
  | .data ch => ch
  | .fail ch _ => ch

/-- every network read returns at most `consumeReadSize` bytes (`readBuffer`) -/
def ChunksBounded (evs : List NetEv) : Prop :=
  ∀ ev ∈ evs, (evChunk ev).length ≤ consumeReadSize

/-- what holds between `Read` calls on a connection that has not failed: the decoder state is
    legal, `receiveBuffer` holds at most `S` bytes and both buffers together at most
    `S + consumeReadSize`.  `S` is `maxFrameLength − 1` for a server (its handshake resets the
    buffer) and `obfs4HsBound` for a client (`clientHandshake` leaves whatever followed the
    server response in `receiveBuffer`). -/
structure RxInv (S : Nat) (rx : Rx) : Prop where
  dec : DecOK rx.dec
  raw : rx.rxBuf.length ≤ S
  total : rx.rxBuf.length + rx.decoded.length ≤ S + consumeReadSize

theorem rxInv_init (S : Nat) : RxInv S Rx.init :=
  ⟨decOK_init, by simp [Rx.init], by simp [Rx.init]⟩

/-- the state `clientHandshake` hands over: fresh decoder, the surplus of the handshake buffer -/
def clientStart (surplus : Bytes) : Rx := ⟨Dec.init, surplus, [], []⟩

theorem rxInv_clientStart (surplus : Bytes) (h : surplus.length ≤ obfs4HsBound) :
    RxInv obfs4HsBound (clientStart surplus) :=
  ⟨decOK_init, h, by simp only [clientStart, List.length_nil]; omega⟩

/-- what a `Read` call guarantees about the state it leaves: always the bound on the total;
    the full invariant unless it returned an error (then the connection is dead) -/
def ReadPost (S : Nat) : ReadResult → Prop
  | .ret rx' _ err _ =>
    DecOK rx'.dec ∧ rx'.rxBuf.length + rx'.decoded.length ≤ S + consumeReadSize ∧
    (err = none → RxInv S rx')
  | .blocked rx' => RxInv S rx'

private theorem read_inv (c : Crypto) (hc : CryptoSane c) (srv : Bool) (n : Nat) (S : Nat)
    (hS : maxFrameLength - 1 ≤ S) :
    ∀ (evs : List NetEv) (rx : Rx), RxInv S rx → ChunksBounded evs →
      ReadPost S (read c srv n rx evs) := by
  intro evs
  induction evs with
  | nil =>
    intro rx hi _
    have := hi.total
    by_cases hdz : rx.decoded.length > 0
    · rw [Obfs4.read, if_pos hdz]
      exact ⟨hi.dec, by simp only [List.length_drop]; omega,
        fun _ => ⟨hi.dec, hi.raw, by simp only [List.length_drop]; omega⟩⟩
    · rw [Obfs4.read, if_neg hdz]
      exact hi
  | cons ev rest ih =>
    intro rx hi hcb
    have hrest : ChunksBounded rest := fun ev' hm => hcb ev' (by simp [hm])
    have := hi.total
    have := hi.raw
    by_cases hdz : rx.decoded.length > 0
    · rw [Obfs4.read, if_pos hdz]
      exact ⟨hi.dec, by simp only [List.length_drop]; omega,
        fun _ => ⟨hi.dec, hi.raw, by simp only [List.length_drop]; omega⟩⟩
    · rw [Obfs4.read, if_neg hdz]
      have hdz' : rx.decoded.length = 0 := by omega
      -- the state and verdict `readPackets` produces: legal, bounded; short again if no error
      have key : DecOK (readPackets c srv rx ev).1.dec ∧
          (readPackets c srv rx ev).1.rxBuf.length + (readPackets c srv rx ev).1.decoded.length
            ≤ S + consumeReadSize ∧
          ((readPackets c srv rx ev).2 = none → (readPackets c srv rx ev).1.rxBuf.length ≤ S) := by
        cases ev with
        | data chunk =>
          have hch : chunk.length ≤ consumeReadSize := hcb (.data chunk) (by simp)
          simp only [readPackets]
          have hd1 : DecOK ({ rx with rxBuf := rx.rxBuf ++ chunk } : Rx).dec := hi.dec
          obtain ⟨t1, t2, t3⟩ := processBuffer_total c hc srv
            (procFuel { rx with rxBuf := rx.rxBuf ++ chunk }) _ hd1
          simp only [List.length_append] at t2 t3
          refine ⟨t1, by omega, fun herr => ?_⟩
          have hs := processBuffer_settles c hc srv _ _ hd1 (by unfold procFuel; omega) herr
          have := settled_short c srv _ _ t1 hs
          omega
        | fail chunk cls =>
          have hch : chunk.length ≤ consumeReadSize := hcb (.fail chunk cls) (by simp)
          simp only [readPackets]
          have hd1 : DecOK ({ rx with rxBuf := rx.rxBuf ++ chunk } : Rx).dec := hi.dec
          obtain ⟨t1, t2, t3⟩ := processBuffer_total c hc srv
            (procFuel { rx with rxBuf := rx.rxBuf ++ chunk }) _ hd1
          simp only [List.length_append] at t2 t3
          exact ⟨t1, by omega, fun h => by simp at h⟩
      obtain ⟨k1, k2, k3⟩ := key
      cases hrp : readPackets c srv rx ev with
      | mk rx1 err =>
        rw [hrp] at k1 k2 k3
        dsimp only at k1 k2 k3
        cases err with
        | some e =>
          exact ⟨k1, by simp only [List.length_drop]; omega, fun h => by simp at h⟩
        | none =>
          exact ih rx1 ⟨k1, k3 rfl, k2⟩ hrest

/-- the receive-side states an obfs4 connection can be in between `Read` calls, starting from
    `rx0`: any sequence of `Read(b)` calls with any buffer sizes, against any sequence of
    network reads (any bytes, any segmentation into at most `consumeReadSize` per read,
    failures at any point) -/
inductive Reachable (c : Crypto) (srv : Bool) (rx0 : Rx) : Rx → Prop
  | init : Reachable c srv rx0 rx0
  | ret {rx n evs rx' bytes rest} : Reachable c srv rx0 rx → ChunksBounded evs →
      read c srv n rx evs = .ret rx' bytes none rest → Reachable c srv rx0 rx'
  | blocked {rx n evs rx'} : Reachable c srv rx0 rx → ChunksBounded evs →
      read c srv n rx evs = .blocked rx' → Reachable c srv rx0 rx'

theorem reachable_inv (c : Crypto) (hc : CryptoSane c) (srv : Bool) (S : Nat)
    (hS : maxFrameLength - 1 ≤ S) (rx0 rx : Rx) (h0 : RxInv S rx0)
    (h : Reachable c srv rx0 rx) : RxInv S rx := by
  induction h with
  | init => exact h0
  | @ret rx1 n evs rx' bytes rest _ hcb hread ih =>
    have := read_inv c hc srv n S hS evs rx1 ih hcb
    rw [hread] at this
    exact this.2.2 rfl
  | @blocked rx1 n evs rx' _ hcb hread ih =>
    have := read_inv c hc srv n S hS evs rx1 ih hcb
    rw [hread] at this
    exact this

/-- **server: for every peer behaviour and every segmentation, `receiveBuffer` +
    `receiveDecodedBuffer` never exceed `consumeReadSize + maxFrameLength − 1` bytes** between
    calls, `receiveBuffer` alone holds less than one frame (`< maxFrameLength`), and the state
    a failing `Read` leaves behind obeys the same total bound. -/
theorem obfs4_data_buffer_bounded (c : Crypto) (hc : CryptoSane c) (srv : Bool) (rx : Rx)
    (h : Reachable c srv Rx.init rx) :
    rx.rxBuf.length + rx.decoded.length ≤ obfs4DataBound ∧
    rx.rxBuf.length < maxFrameLength ∧
    (∀ n evs rx' bytes err rest, ChunksBounded evs →
      read c srv n rx evs = .ret rx' bytes err rest →
      rx'.rxBuf.length + rx'.decoded.length ≤ obfs4DataBound) := by
  have hS : maxFrameLength - 1 ≤ obfs4SettledBound := Nat.le_refl _
  have hi := reachable_inv c hc srv obfs4SettledBound hS Rx.init rx (rxInv_init _) h
  have hb : obfs4DataBound = obfs4SettledBound + consumeReadSize := by decide
  have hsb : obfs4SettledBound = maxFrameLength - 1 := rfl
  have hpos : 0 < maxFrameLength := by decide
  refine ⟨by have := hi.total; omega, by have := hi.raw; omega, ?_⟩
  intro n evs rx' bytes err rest hcb hread
  have := read_inv c hc srv n obfs4SettledBound hS evs rx hi hcb
  rw [hread] at this
  have := this.2.1
  omega

/-- **client: the same with the handshake surplus**: whatever followed the server response in
    the handshake buffer (at most `obfs4HsBound` bytes) is the initial `receiveBuffer`; both
    buffers together never exceed `obfs4HsBound + consumeReadSize`. -/
theorem obfs4_data_buffer_bounded_client (c : Crypto) (hc : CryptoSane c) (srv : Bool)
    (surplus : Bytes) (hs : surplus.length ≤ obfs4HsBound) (rx : Rx)
    (h : Reachable c srv (clientStart surplus) rx) :
    rx.rxBuf.length + rx.decoded.length ≤ obfs4ClientDataBound ∧
    (∀ n evs rx' bytes err rest, ChunksBounded evs →
      read c srv n rx evs = .ret rx' bytes err rest →
      rx'.rxBuf.length + rx'.decoded.length ≤ obfs4ClientDataBound) := by
  have hS : maxFrameLength - 1 ≤ obfs4HsBound := by decide
  have hi := reachable_inv c hc srv obfs4HsBound hS _ rx (rxInv_clientStart surplus hs) h
  have hb : obfs4ClientDataBound = obfs4HsBound + consumeReadSize := rfl
  refine ⟨by have := hi.total; omega, ?_⟩
  intro n evs rx' bytes err rest hcb hread
  have := read_inv c hc srv n obfs4HsBound hS evs rx hi hcb
  rw [hread] at this
  have := this.2.1
  omega

/-- once a `Read` has gone to the network and returned without an error, `receiveBuffer` is
    short again (less than one frame), for the client too: the surplus is transient -/
theorem obfs4_data_settles (c : Crypto) (hc : CryptoSane c) (srv : Bool) (rx : Rx)
    (hd : DecOK rx.dec) (chunk : Bytes) :
    (readPackets c srv rx (.data chunk)).2 = none →
    (readPackets c srv rx (.data chunk)).1.rxBuf.length < maxFrameLength := by
  intro herr
  simp only [readPackets] at herr ⊢
  have hd1 : DecOK ({ rx with rxBuf := rx.rxBuf ++ chunk } : Rx).dec := hd
  obtain ⟨t1, _, _⟩ := processBuffer_total c hc srv
    (procFuel { rx with rxBuf := rx.rxBuf ++ chunk }) _ hd1
  have hs := processBuffer_settles c hc srv _ _ hd1 (by unfold procFuel; omega) herr
  exact settled_short c srv _ _ t1 hs

/-- the bound is below the "`consumeReadSize` + one segment" of the property text -/
theorem obfs4DataBound_lt : obfs4DataBound < consumeReadSize + maximumSegmentLength := by decide


/-! # Aggregation over the per-transport models (obfs4 server machine, obfs2, obfs3, ScrambleSuit,
SOCKS5, meek_lite)

The models and their detailed theorems belong to C03, C13, C14, C15, C16, C17; here the four C10
obligations — `no_panic`, `buffers_bounded`, `progress`, `deadline_discipline` — are restated per
transport in one place (each is audited here like any other property theorem), and what was
missing is proved. -/

/-! ## handshake deadline wrappers (obfs2, obfs3, obfs4 client, ScrambleSuit client, SOCKS5)

The verdict functions `ddPlain` / `ddSocks` / `ddSrv` of `O4/Model/C10Deadline.lean` are what the
harness evaluates (through the driver) on the trace of every real handshake call. -/

/-- `newObfs2ClientConn` / `newObfs2ServerConn` (obfs2.go:158-196), `newObfs3ClientConn` /
    `newObfs3ServerConn` (obfs3.go:137-175), `newObfs4ClientConn` (obfs4.go:318-337) and
    `newScrambleSuitClientConn` (conn.go:515-534) are the same six lines: arm the deadline, run
    the handshake proper (`body`: the reads and writes it performs, and whether it succeeded),
    clear the deadline **only on success**, return the error otherwise (the caller closes). -/
def wrapHandshake (body : List Op × Bool) : List Op × Bool :=
  (Op.arm :: body.1 ++ (if body.2 then [Op.clear] else []), body.2)

/-- `socks5.Handshake` (socks5.go:127-164): arm, `defer` the clear — it runs on every return -/
def wrapSocks (body : List Op × Bool) : List Op × Bool :=
  (Op.arm :: body.1 ++ [Op.clear], body.2)

/-- the handshake proper only reads and writes -/
def BodyPlain (body : List Op × Bool) : Prop := ∀ op ∈ body.1, op = .read ∨ op = .write

private theorem dls_plain (l : List Op) (h : ∀ op ∈ l, op = Op.read ∨ op = Op.write) : dls l = [] := by
  induction l with
  | nil => rfl
  | cons o r ih =>
    have hr := ih (fun op hm => h op (by simp [hm]))
    rcases h o (by simp) with rfl | rfl <;> simpa [dls, Op.isDeadline] using hr

private theorem dls_append (a b : List Op) : dls (a ++ b) = dls a ++ dls b := by
  simp [dls]

/-- **deadline discipline of the six-line wrappers**, for every handshake body: the arm is the
    first operation (before any `Read`), on success the deadline operations are exactly arm and,
    last, the clear; on failure the error verdict is returned (and nothing re-arms) -/
theorem handshake_deadline_discipline (body : List Op × Bool) (hb : BodyPlain body) :
    ddPlain (wrapHandshake body).1 (wrapHandshake body).2 = true ∧ (wrapHandshake body).2 = body.2 := by
  refine ⟨?_, rfl⟩
  have hd := dls_plain body.1 hb
  have h1 : dls (Op.arm :: body.1) = [Op.arm] := by
    show dls ([Op.arm] ++ body.1) = _
    rw [dls_append, hd]; rfl
  have h2 : dls (Op.arm :: (body.1 ++ [Op.clear])) = [Op.arm, Op.clear] := by
    rw [← List.cons_append, dls_append, h1]; rfl
  cases hok : body.2
  · simp [ddPlain, wrapHandshake, hok, h1]
  · simp [ddPlain, wrapHandshake, hok, h2]

/-- … and of `socks5.Handshake` (which also clears on failure) -/
theorem socks5_deadline_discipline (body : List Op × Bool) (hb : BodyPlain body) :
    ddSocks (wrapSocks body).1 (wrapSocks body).2 = true ∧ (wrapSocks body).2 = body.2 := by
  refine ⟨?_, rfl⟩
  have hd := dls_plain body.1 hb
  have h1 : dls (Op.arm :: body.1) = [Op.arm] := by
    show dls ([Op.arm] ++ body.1) = _
    rw [dls_append, hd]; rfl
  have h2 : dls (Op.arm :: (body.1 ++ [Op.clear])) = [Op.arm, Op.clear] := by
    rw [← List.cons_append, dls_append, h1]; rfl
  simp [ddSocks, wrapSocks, h2]

private theorem foldl_dls (ops : List Op) (h : Halves) :
    ops.foldl Halves.step h = (dls ops).foldl Halves.step h := by
  induction ops generalizing h with
  | nil => rfl
  | cons o r ih =>
    cases o <;> simp [dls, List.filter, Op.isDeadline, Halves.step, List.foldl] <;>
      (first | exact ih _ | (simpa [dls] using ih _))

/-- **neither half of the deadline stays armed after a successful handshake**: a trace with
    verdict `true` for a successful call leaves the read AND the write half of the conn's
    deadline cleared — for the six-line wrappers, `socks5.Handshake` and the obfs4 server.
    (`SetDeadline` arms both halves; clearing only one of them, e.g. `SetReadDeadline(zero)`
    after `SetDeadline(t)`, is a trace with verdict `false`.) -/
theorem success_leaves_no_deadline (ops : List Op) :
    (ddPlain ops true = true → finalHalves ops = (false, false)) ∧
    (ddSocks ops true = true → finalHalves ops = (false, false)) ∧
    (ddSrv ops true = true → finalHalves ops = (false, false)) := by
  refine ⟨fun h => ?_, fun h => ?_, fun h => ?_⟩
  · simp only [ddPlain, ↓reduceIte, Bool.and_eq_true, beq_iff_eq] at h
    rw [finalHalves, foldl_dls, h.2]; rfl
  · simp only [ddSocks, Bool.and_eq_true, beq_iff_eq] at h
    rw [finalHalves, foldl_dls, h.2]; rfl
  · simp only [ddSrv, ↓reduceIte, Bool.and_eq_true, beq_iff_eq] at h
    have hw := h.2
    have hd : dls ops = [Op.arm, Op.clear] := by
      have : dls ops = dls (ops.filter (· ≠ Op.read)) := by
        simp only [dls, List.filter_filter]
        apply List.filter_congr
        intro o _
        cases o <;> simp [Op.isDeadline]
      rw [this, hw]; rfl
    rw [finalHalves, foldl_dls, hd]; rfl

/-- the obfs4 server machine (every run, C03): a run that reports success has cleared both
    halves -/
theorem obfs4_server_success_leaves_no_deadline (ops : List Op) (h : ddSrv ops true = true) :
    finalHalves ops = (false, false) :=
  (success_leaves_no_deadline ops).2.2 h

/-- clearing only the read half after `SetDeadline` is rejected and leaves the write half armed -/
example : ddSrv [.arm, .read, .rclear, .write] true = false ∧
    finalHalves [.arm, .read, .rclear, .write] = (false, true) := by decide

example : ddPlain (wrapHandshake ([.write, .read, .read], true)).1 true = true := by decide
example : (wrapHandshake ([.write, .read], false)).1 = [.arm, .write, .read] := by decide
/-- a trace that forgets the clear, and one that reads before arming, get verdict `false` -/
example : ddPlain [.arm, .write, .read] true = false ∧ ddPlain [.read, .arm, .clear] true = false := by
  decide

/-! ## obfs4 server (`WrapConn`): the event machine of `O4/Model/Obfs4Server.lean` -/

/-- no panic: every parser invocation of every run — any events, any clock — sees a buffer on
    which all slices are in range (`findMarkMac_in_range`, `obfs4_hs_server_ok_in_range`), and
    the buffer it sees is bounded: shorter than `2·maxHandshakeLength` (C03.keeps_reading_bounded),
    i.e. at most `obfs4HsBound` -/
theorem obfs4_server_buffers_bounded (P : Handshake.Prims) (F : Obfs4Server.Factory)
    (c : Obfs4Server.Conn) (f : RF.Filter) (evs : List Obfs4Server.Ev) :
    ∀ k ∈ Obfs4Server.calls P F c f evs, k.buf.length ≤ obfs4HsBound := by
  intro k hk
  have := C03.keeps_reading_bounded P F c f evs k hk
  have hb : obfs4HsBound = 2 * maxHandshakeLength - 1 := rfl
  omega

/-- progress: the machine is a fold over the network events — every event (a `Read` returning
    bytes, a deadline firing, the peer closing) is consumed by exactly one `step`; in the
    discard phase every arrival is consumed and dropped and the phase ends with the first read
    error (C03.keeps_reading) -/
theorem obfs4_server_progress (P : Handshake.Prims) (F : Obfs4Server.Factory) (c : Obfs4Server.Conn)
    (s : Obfs4Server.State) (er : Obfs4Server.Err) (hph : s.phase = .discarding er) :
    (∀ evs : List Obfs4Server.Ev, (∀ e ∈ evs, ∃ chunk, e.ev = .recv chunk) →
      Obfs4Server.runFrom P F c s evs = (s, evs.map (fun e => (e, [])))) ∧
    (∀ e : Obfs4Server.Ev, e.ev = .readDeadlineFires ∨ e.ev = .peerCloses →
      Obfs4Server.step P F c s e = (⟨.closed, s.filter⟩, [.close, .returnErr er])) :=
  C03.keeps_reading P F c s er hph

/-- deadline discipline, every run: `SetDeadline(start + serverHandshakeTimeout)` comes first;
    then nothing yet / the close-delay read deadline (and close) / on success the clear followed
    by exactly one write (C03.deadline_discipline) -/
theorem obfs4_server_deadline_discipline (P : Handshake.Prims) (F : Obfs4Server.Factory)
    (c : Obfs4Server.Conn) (f : RF.Filter) (evs : List Obfs4Server.Ev) :
    let D := Obfs4Server.closeDeadline c.start F.closeDelay
    ∃ w, Obfs4Server.wire (Obfs4Server.run P F c f evs).2
        = Obfs4Server.Out.setDeadline (some (c.start + (serverHandshakeTimeout : Int))) :: w ∧
      (w = [] ∨ w = [.setReadDeadline D] ∨ w = [.setReadDeadline D, .close] ∨ w = [.close]
        ∨ ∃ b, w = [.setDeadline none, .write b]) :=
  C03.deadline_discipline P F c f evs

/-- the wire-visible outputs of the server machine in the trace alphabet -/
def srvOp : Obfs4Server.Out → Option Op
  | .setDeadline (some _) => some .arm
  | .setDeadline none => some .clear
  | .setReadDeadline _ => some .rarm
  | .write _ => some .write
  | .close => some .close
  | .returnErr _ => none
  | .returnOk => none

/-- … hence every run of the server machine, finished or not, has verdict `true` for the
    outcome its shape announces (`ok` iff it cleared the deadline): this is the statement the
    harness checks on the real `WrapConn` with the reads taken out -/
theorem obfs4_server_deadline_verdict (P : Handshake.Prims) (F : Obfs4Server.Factory)
    (c : Obfs4Server.Conn) (f : RF.Filter) (evs : List Obfs4Server.Ev) :
    ∃ ok, ddSrv ((Obfs4Server.wire (Obfs4Server.run P F c f evs).2).filterMap srvOp) ok = true := by
  obtain ⟨w, hw, hs⟩ := C03.deadline_discipline P F c f evs
  rw [hw]
  rcases hs with rfl | rfl | rfl | rfl | ⟨b, rfl⟩
  · exact ⟨false, by simp [srvOp, ddSrv]⟩
  · exact ⟨false, by simp [srvOp, ddSrv]⟩
  · exact ⟨false, by simp [srvOp, ddSrv]⟩
  · exact ⟨false, by simp [srvOp, ddSrv]⟩
  · exact ⟨true, by simp [srvOp, ddSrv]⟩

/-! ## obfs4 data phase: progress at the `Read` level (with `obfs4_data_progress` above) -/

/-- a `Read` with a non-empty buffer that returns without error hands over at least one byte
    (it never returns `(0, nil)`): the caller's loop makes progress too -/
theorem obfs4_read_progress (c : Crypto) (srv : Bool) (n : Nat) (hn : 0 < n) (rx : Rx)
    (evs : List NetEv) (rx' : Rx) (bytes : Bytes) (rest : List NetEv)
    (h : read c srv n rx evs = .ret rx' bytes none rest) : 0 < bytes.length :=
  O4.Obfs4.read_ret_progress c srv n hn rx evs rx' bytes rest h

/-! ## obfs3 -/

/-- no panic: with primitives of the real sizes, starting the handshake and feeding any bytes
    in any segmentation never reaches a Go run-time panic (C13.no_panic_handshake) -/
theorem obfs3_no_panic (P : O4.Obfs3.Prims) (hP : C13.PrimsOk P) (initiator : Bool)
    (priv pad : Bytes) :
    O4.Obfs3.startWith P initiator priv pad ≠ .error .panic ∧
    ∀ c w, O4.Obfs3.startWith P initiator priv pad = .ok (c, w) →
      ∀ cs : List Bytes, (O4.Obfs3.feedAll P c [] cs).1.phase ≠ .panicked :=
  C13.no_panic_handshake P hP initiator priv pad

/-- buffers bounded: `rxBuf` (and its running maximum) never exceeds `obfs3Bound`, for every
    input, segmentation and interleaving of `Read` calls (C13.buffer_bounded_read) -/
theorem obfs3_buffers_bounded (P : O4.Obfs3.Prims) (c : O4.Obfs3.Conn) (hb : c.rxBuf = some [])
    (hp : c.peak = 0) (q : O4.SC.Net) (evs : List O4.Obfs3.Ev) :
    ((O4.Obfs3.runEvs P { c := c, q := q, outs := [], failed := none } evs).c.rxBuf.getD []).length
      ≤ obfs3Bound ∧
    (O4.Obfs3.runEvs P { c := c, q := q, outs := [], failed := none } evs).c.peak ≤ obfs3Bound := by
  have h := C13.buffer_bounded_read P c hb hp q evs
  have hv : 2 * (Consts.Obfs3.maxPadding + Consts.Obfs3.sha256Size) = obfs3Bound + 1 := by decide
  simp only at h
  omega

/-- progress: after the magic, a `Read` with a non-empty buffer returns at least one byte
    whenever ciphertext is buffered or queued (C13.read_progress) -/
theorem obfs3_progress (P : O4.Obfs3.Prims) (ks) (hL : P.sxor.Law ks) (c : O4.Obfs3.Conn)
    (q : O4.SC.Net) (max : Nat) (hmax : 0 < max) (hm : c.rxMagic = none) (hcl : c.closed = false)
    (hq : ∀ ch ∈ q, ch ≠ []) (hpend : O4.Obfs3.pending c q ≠ []) :
    ∃ c' o q', O4.Obfs3.read P c max q = .data c' o q' ∧ o ≠ [] ∧ o.length ≤ max :=
  C13.read_progress P ks hL c q max hmax hm hcl hq hpend

/-! ## obfs2 -/

/-- no panic (C14.no_panic_handshake) -/
theorem obfs2_no_panic (P : O4.Obfs2.Prims) (hP : O4.Obfs2.PrimsOk P) (initiator : Bool)
    (seed pad : Bytes) (padLen : Nat) :
    O4.Obfs2.startWith P initiator seed padLen pad ≠ .error .panic ∧
    ∀ c w, O4.Obfs2.startWith P initiator seed padLen pad = .ok (c, w) →
      ∀ cs : List Bytes, (O4.Obfs2.feedAll P c [] cs).1.phase ≠ .panicked :=
  C14.no_panic_handshake P hP initiator seed pad padLen

/-- buffers bounded: the one allocation whose size the peer controls
    (`tmp := make([]byte, padLen)`) never exceeds `maxPadding` (C14.buffer_bounded_handshake);
    afterwards obfs2 buffers nothing (`cipher.StreamReader` decrypts in place) -/
theorem obfs2_buffers_bounded (P : O4.Obfs2.Prims) (c : O4.Obfs2.Conn)
    (h0 : c.alloc ≤ Consts.Obfs2.maxPadding) (q : O4.SC.Net) (cs : List Bytes) :
    (O4.Obfs2.feedAll P c q cs).1.alloc ≤ Consts.Obfs2.maxPadding :=
  C14.buffer_bounded_handshake P c h0 q cs

/-- progress: the handshake loop runs to quiescence in at most three steps (seed, header,
    padding): afterwards it needs more input or is done (Lemmas/Obfs2) -/
theorem obfs2_progress (P : O4.Obfs2.Prims) (c : O4.Obfs2.Conn) (q : O4.SC.Net) :
    (O4.Obfs2.hsMachine P).Quiescent (O4.Obfs2.progress P c q).1 (O4.Obfs2.progress P c q).2.flatten :=
  O4.Obfs2.progress_quiescent P c q

/-! ## ScrambleSuit client -/

/-- no panic, handshake response: for every parser state and every input the outcome is not
    `panic` (C15.no_panic_response — this is the statement that was false before the F3 repair) -/
theorem scramblesuit_no_panic_response (P : O4.SS.Prims) (hs : O4.SS.DhHs) (resp : Bytes) :
    (hs.parse P true resp).2 ≠ .panic :=
  C15.no_panic_response P hs resp

/-- no panic, packet reader: whenever it holds a decoded header, `payloadLen ≤ totalLen ≤
    maxPayloadLength` — the guards of `make([]byte, totalLen)` and `data[:payloadLen]`
    (C15.no_panic_packets) -/
theorem scramblesuit_no_panic_packets (P : O4.SS.Prims) (k : O4.SS.DirKeys) (o : Nat)
    (surplus : Bytes) (cs : List Bytes) :
    O4.SS.RxOk (O4.SS.feedChunks P k (O4.SS.Rx.init o) surplus cs).1 :=
  C15.no_panic_packets P k o surplus cs

/-- buffers bounded, handshake: "not yet" only below `maxHandshakeLength`, so the buffer stays
    within `ssHsBound` (C15.buffer_bounded_response) -/
theorem scramblesuit_buffers_bounded_response (P : O4.SS.Prims) (hm : O4.SS.MacLen P)
    (hs : O4.SS.DhHs) (resp : Bytes)
    (hmark : hs.serverPub.isSome → hs.serverMark.length = Consts.Scramblesuit.macLength)
    (h : (hs.parse P true resp).2 = .notYet) :
    resp.length < Consts.Scramblesuit.maxHandshakeLength ∧
    ∀ next : Bytes, next.length ≤ Consts.Scramblesuit.maxHandshakeLength →
      (resp ++ next).length ≤ ssHsBound := by
  obtain ⟨h1, h2⟩ := C15.buffer_bounded_response P hm hs resp hmark h
  refine ⟨h1, fun next hn => ?_⟩
  have := h2 next hn
  have hb : ssHsBound = 2 * Consts.Scramblesuit.maxHandshakeLength - 1 := rfl
  omega

/-- buffers bounded, data phase: after every `readPackets` that did not fail less than
    `maxPayloadLength` bytes stay buffered, and the next read adds at most `maxSegmentLength`
    (C15.buffer_bounded_packets); both are within `ssDataBound` -/
theorem scramblesuit_buffers_bounded_packets (P : O4.SS.Prims) (k : O4.SS.DirKeys) (o : Nat)
    (surplus c : Bytes) (cs : List Bytes)
    (hf : (O4.SS.feedChunks P k (O4.SS.Rx.init o) surplus (c :: cs)).1.failed = false) :
    (O4.SS.feedChunks P k (O4.SS.Rx.init o) surplus (c :: cs)).2.2.length
      < Consts.Scramblesuit.maxPayloadLength ∧
    ∀ next : Bytes, next.length ≤ Consts.Scramblesuit.maxSegmentLength →
      ((O4.SS.feedChunks P k (O4.SS.Rx.init o) surplus (c :: cs)).2.2 ++ next).length ≤ ssDataBound := by
  obtain ⟨h1, h2⟩ := C15.buffer_bounded_packets P k o surplus c cs hf
  refine ⟨h1, fun next hn => ?_⟩
  have := h2 next hn
  have hb : Consts.Scramblesuit.maxPayloadLength + Consts.Scramblesuit.maxSegmentLength ≤ ssDataBound := by
    decide
  omega

/-! ## SOCKS5 front end -/

/-- no panic, and the call ends: every chunk list — any bytes, any segmentation, with or
    without EOF — is answered by a specified outcome, never `panic`; it waits for more input
    only while the peer has not closed (C17.malformed_total, C17.spec_total) -/
theorem socks5_no_panic (cs : List Bytes) (eof : Bool) :
    (O4.Socks5.run cs eof).outcome ≠ .panic ∧
    ((O4.Socks5.run cs eof).outcome = .blocked → eof = false) ∧
    (O4.Socks5.specRun cs.flatten eof).outcome ≠ .panic :=
  ⟨(C17.malformed_total cs eof).1, (C17.malformed_total cs eof).2.2.2.1, C17.spec_total _ eof⟩

/-! ## meek_lite client -/

/-- buffers bounded: the two worker channels never hold more than `maxChanBacklog` entries
    and no body exceeds `maxPayloadLength` (C16.queues_bounded, C16.body_bound), for every
    schedule; together with the one response the worker holds and the partially read one this
    is `meekBound` -/
theorem meek_buffers_bounded (fixed : Bool) (sid : Nat) (cs : List O4.Meek.Choice) :
    (O4.Meek.run fixed (O4.Meek.init sid) cs).rdQ.length ≤ Consts.Meeklite.maxChanBacklog ∧
    (O4.Meek.run fixed (O4.Meek.init sid) cs).wrQ.length ≤ Consts.Meeklite.maxChanBacklog ∧
    (∀ r ∈ (O4.Meek.run fixed (O4.Meek.init sid) cs).reqs, r.2.length ≤ Consts.Meeklite.maxPayloadLength) ∧
    (Consts.Meeklite.maxChanBacklog + 2) * Consts.Meeklite.maxPayloadLength = meekBound :=
  ⟨(C16.queues_bounded fixed sid cs).2, (C16.queues_bounded fixed sid cs).1,
    (C16.body_bound fixed sid cs).1, rfl⟩

/-- progress / no wedge after `Close` (the repair found under C10): a worker that is blocked
    handing a response to a full read queue leaves its loop once `Close` has taken effect — the
    close step is enabled there, drops the undeliverable body and reaches the exit; and once
    exited it never issues another request (C16.after_close_worker) -/
theorem meek_worker_exits_on_close (fixed : Bool) (s : O4.Meek.State) (body : Bytes)
    (hc : s.closed = true) (hw : s.wpc = .enq body) :
    (O4.Meek.step fixed s .wClose).wpc = .x1 ∧
    (O4.Meek.step fixed s .wClose).dropped = s.dropped ++ [body] := by
  simp [O4.Meek.step, hw, hc]

/-! ## non-vacuity: a concrete link crypto satisfying `CryptoSane`, and a concrete run -/

/-- a toy link crypto: 16 zero bytes of "tag", no masking -/
def toyCrypto : Crypto where
  sealB _ p := List.replicate 16 0 ++ p
  openB _ b := if 16 ≤ b.length then some (b.drop 16) else none
  mask _ := 0
  rnd _ := 16

theorem toyCrypto_sane : CryptoSane toyCrypto := by
  refine ⟨fun _ => by simp [toyCrypto, minFrameLength, maxFrameLength], fun n box pkt h => ?_⟩
  simp only [toyCrypto] at h
  split at h
  · simp only [Option.some.injEq] at h
    subst h
    simp only [List.length_drop]
    have : minFrameLength = 16 := rfl
    omega
  · cases h

/-- a frame carrying the packet `[0,0,2,104,105]` (payload "hi"), split inside the frame -/
def toyFrame : Bytes := [0, 21] ++ List.replicate 16 0 ++ [0, 0, 2, 104, 105]

example : (match read toyCrypto false 10 Rx.init [.data (toyFrame.take 7), .data (toyFrame.drop 7)] with
    | .ret rx b e _ => (rx.rxBuf, b, e)
    | .blocked _ => ([], [], none)) = ([], [104, 105], none) := by decide

example : (match read toyCrypto false 10 Rx.init [.data (toyFrame.take 7)] with
    | .ret _ _ _ _ => none
    | .blocked rx => some (rx.rxBuf.length, rx.dec.pending)) = some (5, some (21, false)) := by decide

deriving instance DecidableEq for O4.Obfs4.ReadResult

/-- a reachable state with a non-empty decoded buffer: one frame arrives whole, `Read(b)` with
    `len b = 1` returns "h" and keeps "i" -/
example : Reachable toyCrypto false Rx.init ⟨⟨1, none⟩, [], [105], []⟩ :=
  Reachable.ret (n := 1) (evs := [.data toyFrame]) (bytes := [104]) (rest := []) .init
    (by intro ev h; simp only [List.mem_singleton] at h; subst h; decide)
    (by decide)

end C10
