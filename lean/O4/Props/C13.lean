import O4.Model.Obfs3
import O4.Lemmas.Obfs3
import O4.Lemmas.UdhAgree
import O4.Lemmas.CtrLaw
import O4.Generated.Facts.Obfs3
import O4.Generated.Facts.Uniformdh
/-!
# C13 — obfs3 and UniformDH: agreement, stream integrity, rejection of over-padding

Theorems about the models `O4.UniformDH` (`common/uniformdh`) and `O4.Obfs3`
(`transports/obfs3/obfs3.go`), for **every** keystream-XOR cipher (`SXor.Law`; proved for the
executable AES-CTR), every DH function, every padding, write sequence and **every interleaving of
chunk arrivals and `Read` calls** (`Ev` histories — this covers the magic straddling reads, data
coalesced with the magic or with the handshake padding, and reads that block in the middle).

* `udh_agree`           `ZMod n`, any modulus: `(±g^y)^x = (±g^x)^y` for even `x y`
* `udh_agree_model`     the executable model agrees for all private byte strings (all four X / p−X cases)
* `pub_is_192`          `X`, `p−X < 2^1536` ⇒ exact 192-byte encoding, decode ∘ encode = id
* `pub_is_192_model`    `generateKey` always yields exactly `Size` public bytes that decode to `X` or `p−X`
* `ctr_roundtrip`       keystream XOR is an involution and independent of the segmentation
* `magic_any_chunking`  genuine stream `pad ‖ magic ‖ data`: never an error, nothing delivered before the
                        magic, afterwards delivered ‖ decrypt(pending) = decrypt(data)
* `stream_any_chunking` … with `data` = what the peer's `Write`s produced: delivered = written
* `handshake_never_overreads`, `no_stall_first_read`, `coalesced_with_handshake`
                        a flight key ‖ pad ‖ magic ‖ data in one segment: the key read takes 192 bytes,
                        the rest stays on the socket and is delivered without further traffic
* `tail_with_error_delivered`, `tail_with_error_lost_in_scan`  bytes the conn returns together with an
                        error: delivered after the magic, discarded inside the scan (finding)
* `read_progress`       once everything arrived every further `Read` delivers at least one byte until all is delivered
* `too_much_padding_rejected`  no magic at an offset ≤ maxPadding and ≥ maxPadding+32 bytes arrived ⇒ the
                        next `Read` fails and the conn is closed, nothing is ever delivered
* `buffer_bounded_read` along every history `|rxBuf| < 2·(maxPadding + 32)`   (C10)
* `handshake_any_chunking`, `keys_agree`, `no_panic_handshake`
-/
namespace C13
open O4 O4.SC O4.Obfs3 O4.Consts.Obfs3

/-! ### the wire-format constants are the specification's -/

/-- **Spec conformance of the constants.** The constants regenerated from the Go tree on this run
are the values of the obfs3 specification (MAX_PADDING 8194, AES-128 key length, the four HMAC
labels) and of UniformDH (RFC 3526 group 5, generator 2, 192-byte keys). A change of any of them in
the code — which the model, built from the same constants, would follow silently — stops this
theorem from checking. -/
theorem spec_constants :
    maxPadding = 8194 ∧ keyLen = 16 ∧ sha256Size = 32 ∧ uniformdhSize = 192 ∧
    initiatorKdfString = "Initiator obfuscated data" ∧ responderKdfString = "Responder obfuscated data" ∧
    initiatorMagicString = "Initiator magic" ∧ responderMagicString = "Responder magic" ∧
    O4.Consts.Uniformdh.size = 192 ∧ O4.Consts.Uniformdh.g = 2 ∧
    O4.Consts.Uniformdh.modpStr =
      "FFFFFFFFFFFFFFFFC90FDAA22168C234C4C6628B80DC1CD129024E088A67CC74020BBEA63B139B22514A08798E3404DDEF9519B3CD3A431B302B0A6DF25F14374FE1356D6D51C245E485B576625E7EC6F44C42E9A637ED6B0BFF5CB6F406B7EDEE386BFB5A899FA5AE9F24117C4B1FE649286651ECE45B3DC2007CB8A163BF0598DA48361C55D39A69163FA8FD24CF5F83655D23DCA3AD961C62F356208552BB9ED529077096966D670C354E4ABC9804F1746C08CA237327FFFFFFFFFFFFFFFF" :=
  ⟨rfl, rfl, rfl, rfl, rfl, rfl, rfl, rfl, rfl, rfl, rfl⟩

/-! ### structural facts of the Go source the model rests on (go/ast, regenerated per run) -/

/-- The model treats HMAC / AES-CTR as pure functions with per-connection state, the key read as
`io.ReadFull` (never over-reading: `handshake_never_overreads`), `Read` as scan + `rx.Read`
(`cipher.StreamReader`), and `Read` / `Write` as working on disjoint state (so they may run in
different goroutines). In the source: `kdf` makes fresh `hmac.New`, `aes.NewCipher`,
`cipher.NewCTR`; `handshake` reads with `io.ReadFull` only; `findPeerMagic` is the only caller of
`Conn.Read` besides the stream reader; the fields `Read` touches and the fields `Write` touches
meet only in the embedded `Conn` (and `Close`). -/
theorem structure_facts :
    "hmac.New" ∈ O4.Facts.Obfs3.obfs3Conn_kdf_calls ∧
    "aes.NewCipher" ∈ O4.Facts.Obfs3.obfs3Conn_kdf_calls ∧
    "cipher.NewCTR" ∈ O4.Facts.Obfs3.obfs3Conn_kdf_calls ∧
    "io.ReadFull" ∈ O4.Facts.Obfs3.obfs3Conn_handshake_calls ∧
    "io.ReadAtLeast" ∉ O4.Facts.Obfs3.obfs3Conn_handshake_calls ∧
    "Conn.Read" ∉ O4.Facts.Obfs3.obfs3Conn_handshake_calls ∧
    "rxBuf.Write" ∉ O4.Facts.Obfs3.obfs3Conn_handshake_calls ∧
    "uniformdh.GenerateKey" ∈ O4.Facts.Obfs3.obfs3Conn_handshake_calls ∧
    "uniformdh.Handshake" ∈ O4.Facts.Obfs3.obfs3Conn_handshake_calls ∧
    "conn.findPeerMagic" ∈ O4.Facts.Obfs3.obfs3Conn_Read_calls ∧
    "rx.Read" ∈ O4.Facts.Obfs3.obfs3Conn_Read_calls ∧
    "Conn.Read" ∉ O4.Facts.Obfs3.obfs3Conn_Read_calls ∧
    "tx.Write" ∈ O4.Facts.Obfs3.obfs3Conn_Write_calls ∧
    (∀ f ∈ O4.Facts.Obfs3.obfs3Conn_Read_fields, f ∈ O4.Facts.Obfs3.obfs3Conn_Write_fields →
      f = "Conn" ∨ f = "Close") := by
  decide

/-! ### UniformDH -/

/-- **Agreement, algebraic core.** In `ZMod n` for any modulus `n` and base `g`: with even private
exponents `x`, `y`, whichever of `X = g^x` or `−X` (= `p − X`) each side sent, raising the received
value to the own exponent gives the same element. -/
theorem udh_agree (n : ℕ) (g : ZMod n) (x y : ℕ) (hx : Even x) (hy : Even y) (sx sy : Bool) :
    (if sy then -(g ^ y) else g ^ y) ^ x = (if sx then -(g ^ x) else g ^ x) ^ y :=
  UniformDH.udh_zmod n g x y hx hy sx sy

/-- **Agreement of the executable model** (`generateKey`, `SetBytes`, `Handshake` over `Nat` with the
regenerated RFC 3526 modulus): for all private byte strings — any low bits, zero, all-ones — both
parties compute the same 192-byte secret. -/
theorem udh_agree_model (privA privB : Bytes) (ka kb : UniformDH.PrivateKey)
    (ha : UniformDH.generateKey privA = some ka) (hb : UniformDH.generateKey privB = some kb) :
    UniformDH.handshake ka (Bytes.toNatBE kb.pubBytes) = UniformDH.handshake kb (Bytes.toNatBE ka.pubBytes) ∧
    (UniformDH.handshake ka (Bytes.toNatBE kb.pubBytes)).length = UniformDH.size :=
  ⟨UniformDH.udh_model_agree privA privB ka kb ha hb, UniformDH.fillBytes_length _⟩

/-- **Public keys are exactly 192 bytes.** For a modulus below `2^1536` both `X` and `p − X` have an
exact 192-byte big-endian encoding: decoding returns the number. -/
theorem pub_is_192 (p X : ℕ) (hp : p < 2 ^ 1536) (hX : X < p) :
    (Bytes.ofNatBE 192 X).length = 192 ∧ Bytes.toNatBE (Bytes.ofNatBE 192 X) = X ∧
    (Bytes.ofNatBE 192 (p - X)).length = 192 ∧ Bytes.toNatBE (Bytes.ofNatBE 192 (p - X)) = p - X := by
  have h256 : (256 : ℕ) ^ 192 = 2 ^ 1536 := by
    rw [show (256 : ℕ) = 2 ^ 8 from rfl, ← Nat.pow_mul]
  have h1 : X < 256 ^ 192 := by rw [h256]; exact Nat.lt_trans hX hp
  have h2 : p - X < 256 ^ 192 := by rw [h256]; exact Nat.lt_of_le_of_lt (Nat.sub_le _ _) hp
  exact ⟨Bytes.ofNatBE_length _ _, Bytes.toNatBE_ofNatBE_of_lt _ _ h1,
    Bytes.ofNatBE_length _ _, Bytes.toNatBE_ofNatBE_of_lt _ _ h2⟩

/-- … and the model's `generateKey` always produces `Size` bytes that `SetBytes` decodes to `X` or
`p − X` with `X = g^x mod p` -/
theorem pub_is_192_model (priv : Bytes) (k : UniformDH.PrivateKey) (h : UniformDH.generateKey priv = some k) :
    k.pubBytes.length = UniformDH.size ∧
    (Bytes.toNatBE k.pubBytes = k.publicKey ∨
     Bytes.toNatBE k.pubBytes = UniformDH.modpGroup - k.publicKey) := by
  obtain ⟨coin, x, _, _, hpub, hb⟩ := UniformDH.generateKey_some h
  have hp := UniformDH.modp_bounds
  have hX : UniformDH.gen ^ x % UniformDH.modpGroup < UniformDH.modpGroup := Nat.mod_lt _ hp.1
  rw [hb, hpub]
  refine ⟨UniformDH.fillBytes_length _, ?_⟩
  cases coin
  · left; exact UniformDH.toNatBE_fillBytes (Nat.lt_trans hX hp.2)
  · right; exact UniformDH.toNatBE_fillBytes (Nat.lt_of_le_of_lt (Nat.sub_le _ _) hp.2)

/-! ### stream cipher -/

/-- **CTR round trip**: for any keystream, XOR at the same position undoes itself, and processing a
stream in arbitrary pieces (advancing the position) equals processing it whole — so
decrypt(any segmentation of encrypt(any segmentation of d)) = d. -/
theorem ctr_roundtrip (ks : Nat → UInt8) (off : Nat) (d : Bytes) (ps qs : List Bytes)
    (hp : ps.flatten = d) (hq : qs.flatten = (xorPieces ks off ps).flatten) :
    (xorPieces ks off qs).flatten = d := by
  rw [xorPieces_flatten, hq, xorPieces_flatten, hp, xorAt_xorAt]

/-- the executable AES-CTR stream function is such a keystream XOR -/
theorem real_law : Prims.real.sxor.Law aesKs := aesCtrXor_law

/-! ### the magic scan and the hand-over, for every history -/

/-- a fresh receiving side after the handshake: waiting for magic `m`, empty `rxBuf`, open -/
structure Fresh (c : Conn) (m : Bytes) : Prop where
  magic : c.rxMagic = some m
  buf : c.rxBuf = some []
  open_ : c.closed = false

/-- **Magic scan, any chunking.** Receiver `c` is waiting for magic `m`. The stream
`pad ‖ m ‖ data` (`|pad| ≤ maxPadding`, first occurrence of `m` the genuine one) arrives cut into
arbitrary chunks, interleaved arbitrarily with `Read` calls of arbitrary buffer sizes (`evs`);
`F` is the part that has not arrived yet. Then no `Read` ever fails, nothing is delivered before
the magic has been found, and from then on
`delivered ‖ decrypt(still buffered or queued ‖ F) = decrypt(data)` at the right stream positions —
in particular the bytes that followed the magic in the same read are handed over, not lost. -/
theorem magic_any_chunking_queued (P : Prims) (ks) (hL : P.sxor.Law ks) (c : Conn) (m pad data : Bytes)
    (hc : Fresh c m) (hG : Genuine m pad data) (q0 : Net) (hq0 : ∀ ch ∈ q0, ch ≠ [])
    (evs : List Ev) (F : Bytes) (harr : q0.flatten ++ arrivals evs ++ F = pad ++ m ++ data) :
    let s := runEvs P { c := c, q := q0, outs := [], failed := none } evs
    s.failed = none ∧ s.c.closed = false ∧
    ((s.c.rxMagic = some m ∧ s.outs = []) ∨
     (s.c.rxMagic = none ∧
      s.outs.flatten ++ xorAt (ks c.rx.key c.rx.iv) s.c.rx.off (pending s.c s.q ++ F)
        = xorAt (ks c.rx.key c.rx.iv) c.rx.off data)) := by
  have h0 : Inv ks m pad data c.rx { c := c, q := q0, outs := [], failed := none } (arrivals evs ++ F) := by
    refine ⟨rfl, hc.open_, hq0, rfl, rfl, Or.inl ⟨hc.magic, rfl, rfl, [], hc.buf, ?_, ?_⟩⟩
    · simpa [List.append_assoc] using harr
    · have := List.length_pos_iff.mpr hG.ne
      simp; omega
  obtain ⟨h1, h2, _, _, _, h6⟩ := inv_run P hL hG evs _ F h0
  refine ⟨h1, h2, ?_⟩
  rcases h6 with ⟨a1, a2, _⟩ | ⟨b1, b2⟩
  · exact Or.inl ⟨a1, a2⟩
  · exact Or.inr ⟨b1, b2⟩

theorem magic_any_chunking (P : Prims) (ks) (hL : P.sxor.Law ks) (c : Conn) (m pad data : Bytes)
    (hc : Fresh c m) (hG : Genuine m pad data)
    (evs : List Ev) (F : Bytes) (harr : arrivals evs ++ F = pad ++ m ++ data) :
    let s := runEvs P { c := c, q := [], outs := [], failed := none } evs
    s.failed = none ∧ s.c.closed = false ∧
    ((s.c.rxMagic = some m ∧ s.outs = []) ∨
     (s.c.rxMagic = none ∧
      s.outs.flatten ++ xorAt (ks c.rx.key c.rx.iv) s.c.rx.off (pending s.c s.q ++ F)
        = xorAt (ks c.rx.key c.rx.iv) c.rx.off data)) :=
  magic_any_chunking_queued P ks hL c m pad data hc hG [] (by simp) evs F (by simpa using harr)

/-- Corollary: once the whole stream has arrived and nothing is pending, exactly the decryption of
`data` has been delivered. -/
theorem magic_all_delivered (P : Prims) (ks) (hL : P.sxor.Law ks) (c : Conn) (m pad data : Bytes)
    (hc : Fresh c m) (hG : Genuine m pad data)
    (evs : List Ev) (harr : arrivals evs = pad ++ m ++ data)
    (hfound : (runEvs P { c := c, q := [], outs := [], failed := none } evs).c.rxMagic = none)
    (hdrained : pending (runEvs P { c := c, q := [], outs := [], failed := none } evs).c
                        (runEvs P { c := c, q := [], outs := [], failed := none } evs).q = []) :
    (runEvs P { c := c, q := [], outs := [], failed := none } evs).outs.flatten
      = xorAt (ks c.rx.key c.rx.iv) c.rx.off data := by
  obtain ⟨_, _, h⟩ := magic_any_chunking P ks hL c m pad data hc hG evs [] (by simpa using harr)
  rcases h with ⟨a1, _⟩ | ⟨_, b2⟩
  · rw [hfound] at a1; cases a1
  · rw [hdrained] at b2
    simpa [xorAt] using b2

/-- **Stream integrity, any chunking (one direction; the other is the same statement with the
roles swapped).** Sender `a` and receiver `b` hold the same stream and magic (`keys_agree`); `pad1`
is `a`'s handshake padding (still unread at `b`), `a` performs the writes `w :: ws` (the first one
with padding `pad2`), `|pad1| + |pad2| ≤ maxPadding`; the bytes arrive in any segmentation,
interleaved with any `Read`s. Then `b` never sees an error and once everything has arrived and
been read, exactly the written bytes were delivered, in order. -/
theorem stream_any_chunking (P : Prims) (ks) (hL : P.sxor.Law ks) (a b : Conn) (m pad1 pad2 w : Bytes)
    (ws : List Bytes) (ha : a.txMagic = some m) (hb : Fresh b m) (hk : a.tx = b.rx)
    (hG : Genuine m (pad1 ++ pad2) (xorAt (ks a.tx.key a.tx.iv) a.tx.off (w :: ws).flatten))
    (evs : List Ev) (harr : arrivals evs = pad1 ++ (writeAll P a pad2 (w :: ws)).2.flatten) :
    let s := runEvs P { c := b, q := [], outs := [], failed := none } evs
    s.failed = none ∧
    (s.c.rxMagic = none → pending s.c s.q = [] → s.outs.flatten = (w :: ws).flatten) := by
  obtain ⟨w1, _⟩ := writeAll_first P hL a m pad2 w ws ha
  have harr' : arrivals evs ++ [] = (pad1 ++ pad2) ++ m ++ xorAt (ks a.tx.key a.tx.iv) a.tx.off (w :: ws).flatten := by
    rw [harr, w1]; simp [List.append_assoc]
  obtain ⟨h1, _, h3⟩ := magic_any_chunking P ks hL b m (pad1 ++ pad2) _ hb hG evs [] harr'
  refine ⟨h1, fun hf hd => ?_⟩
  rcases h3 with ⟨a1, _⟩ | ⟨_, b2⟩
  · rw [hf] at a1; cases a1
  · rw [hd, ← hk] at b2
    simpa [xorAt, xorAt_xorAt] using b2

/-- **Progress**: after the magic, as long as ciphertext is buffered or queued, a `Read` with a
non-empty buffer returns at least one byte and at most `max` (it never blocks and never fails) — so
repeated reads drain everything that arrived. -/
theorem read_progress (P : Prims) (ks) (hL : P.sxor.Law ks) (c : Conn) (q : Net) (max : Nat)
    (hmax : 0 < max) (hm : c.rxMagic = none) (hcl : c.closed = false) (hq : ∀ ch ∈ q, ch ≠ [])
    (hpend : pending c q ≠ []) :
    ∃ c' o q', read P c max q = .data c' o q' ∧ o ≠ [] ∧ o.length ≤ max := by
  simp only [O4.Obfs3.read, hcl, Bool.false_eq_true, ↓reduceIte, hm]
  have net : c.rxBuf.getD [] = [] →
      ∃ c' o q', readNet P c max q = .data c' o q' ∧ o ≠ [] ∧ o.length ≤ max := by
    intro hb
    have hqne : q ≠ [] := by
      intro h; apply hpend; simp [pending, hb, h]
    unfold readNet
    cases hr : Net.read max q with
    | none => exact absurd (Net.read_eq_none.mp hr) hqne
    | some r =>
      obtain ⟨chunk, q'⟩ := r
      obtain ⟨hne, _, _⟩ := Net.read_props hmax hq hr
      have hle := Net.read_length_le hr
      refine ⟨_, _, _, rfl, ?_, ?_⟩
      · simp only [Stream.xor]
        rw [hL]
        intro h
        have := congrArg List.length h
        rw [xorAt_length] at this
        exact hne (List.length_eq_zero_iff.mp this)
      · simp only [Stream.xor]
        rw [hL, xorAt_length]; exact hle
  unfold readData
  cases hb : c.rxBuf with
  | none => exact net (by simp [hb])
  | some buf =>
    cases buf with
    | nil => exact net (by simp [hb])
    | cons b bs =>
      refine ⟨_, _, _, rfl, ?_, ?_⟩
      · simp only [Stream.xor]
        rw [hL]
        intro h
        have := congrArg List.length h
        rw [xorAt_length, List.length_take] at this
        simp at this; omega
      · simp only [Stream.xor]
        rw [hL, xorAt_length, List.length_take]; omega

/-! ### data that arrives together with the handshake -/

/-- **The handshake never over-reads** (`io.ReadFull` into a 192-byte buffer): whatever arrives with
the peer's key — in one segment or any segmentation — the endpoint takes exactly the key; `rxBuf`
stays empty and everything else (`pad1 ‖ pad2 ‖ magic ‖ data …`) stays *on the socket*, as non-empty
chunks, where the first `Read`'s `findPeerMagic` (which starts with a network read) finds it. An
implementation that parks the surplus in `rxBuf` instead does not refine this model. -/
theorem handshake_never_overreads (P : Prims) (c : Conn) (hc : c.phase = .pubkey)
    (hb : c.rxBuf = some []) (key rest : Bytes)
    (hk : key.length = uniformdhSize) (cs : List Bytes) (hcs : cs.flatten = key ++ rest) :
    (feedAll P c [] cs).1.rxBuf = some [] ∧ (feedAll P c [] cs).2.flatten = rest ∧
    (∀ ch ∈ (feedAll P c [] cs).2, ch ≠ []) := by
  obtain ⟨h1, h2⟩ := feedAll_key P hc key rest hk cs [] (by simpa using hcs)
  refine ⟨?_, h2, feedAll_nonempty P cs c [] (by simp)⟩
  rw [h1]
  unfold afterKey
  split
  · exact hb
  · unfold kdf
    split
    · split <;> exact hb
    · exact hb
    · exact hb

/-- **No stall on a coalesced flight.** The peer's whole flight `pad ‖ magic ‖ data` (`data ≠ []`) is
already queued when the first `Read` is issued — e.g. it arrived in the same segment as the key —
and *nothing more arrives*: the `Read` does not block, it returns at least one byte of `data`. -/
theorem no_stall_first_read (P : Prims) (ks) (hL : P.sxor.Law ks) (c : Conn) (m pad data : Bytes)
    (hc : Fresh c m) (hG : Genuine m pad data) (q : Net) (hq : ∀ ch ∈ q, ch ≠ [])
    (hqf : q.flatten = pad ++ m ++ data) (hd : data ≠ []) (max : Nat) (hmax : 0 < max) :
    ∃ c' o q', read P c max q = .data c' o q' ∧ o ≠ [] ∧ o.length ≤ max := by
  have hml := List.length_pos_iff.mpr hG.ne
  rcases scan_genuine m pad data hG.ne hG.mlen hG.padlen hG.first (q.size + 1) [] q [] hq
      (Nat.lt_succ_self _) (by simp [hqf]) (by simp; omega) with ⟨b', _, e2, e3⟩ | ⟨b', q', e1, e2, e3, e4⟩
  · exfalso
    rw [e2] at e3
    simp only [List.nil_append, hqf, List.length_append] at e3
    omega
  · -- what is pending after the magic is `data`
    have hW : b' ++ q'.flatten = pad ++ m ++ data := by rw [e2]; simp [hqf]
    have hn : (pad ++ m).length = pad.length + m.length := List.length_append
    have hdata : b'.drop (pad.length + m.length) ++ q'.flatten = data := by
      have := congrArg (List.drop (pad.length + m.length)) hW
      rw [List.drop_append_of_le_length e3, List.drop_left' hn] at this
      exact this
    obtain ⟨c', o, q'', r1, r2, r3⟩ := read_progress P ks hL
      { c with rxMagic := none, rxBuf := some (b'.drop (pad.length + m.length)), peak := Nat.max c.peak b'.length, closed := false }
      q' max hmax rfl rfl e4 (by simp only [pending, Option.getD_some]; rw [hdata]; exact hd)
    simp only [O4.Obfs3.read, Bool.false_eq_true, ↓reduceIte] at r1
    simp only [O4.Obfs3.read, hc.open_, Bool.false_eq_true, ↓reduceIte, hc.magic, hc.buf,
      Option.getD_some, e1]
    exact ⟨c', o, q'', r1, r2, r3⟩

/-- **Data coalesced with the handshake is delivered.** The peer's complete flight
`key ‖ pad ‖ magic ‖ data` reaches an endpoint that is still waiting for the key, in one segment or
in any segmentation `cs`, and then the peer sends nothing more. The handshake takes the key
(`handshake_never_overreads`); then the first `Read` returns data at once (`no_stall_first_read`),
and for every further sequence of `Read`s nothing fails and
`delivered ‖ decrypt(pending) = decrypt(data)` — no byte is lost or withheld. -/
theorem coalesced_with_handshake (P : Prims) (ks) (hL : P.sxor.Law ks) (c : Conn) (hc : c.phase = .pubkey)
    (key pad m data : Bytes) (hk : key.length = uniformdhSize)
    (hF : Fresh (afterKey P c key) m) (hG : Genuine m pad data) (hd : data ≠ [])
    (cs : List Bytes) (hcs : cs.flatten = key ++ (pad ++ m ++ data)) :
    let c1 := (feedAll P c [] cs).1
    let q1 := (feedAll P c [] cs).2
    (∀ max, 0 < max → ∃ c' o q', read P c1 max q1 = .data c' o q' ∧ o ≠ [] ∧ o.length ≤ max) ∧
    (∀ evs : List Ev, arrivals evs = [] →
      let s := runEvs P { c := c1, q := q1, outs := [], failed := none } evs
      s.failed = none ∧
      (s.c.rxMagic = none →
        s.outs.flatten ++ xorAt (ks c1.rx.key c1.rx.iv) s.c.rx.off (pending s.c s.q)
          = xorAt (ks c1.rx.key c1.rx.iv) c1.rx.off data)) := by
  obtain ⟨h1, h2⟩ := feedAll_key P hc key (pad ++ m ++ data) hk cs [] (by simpa using hcs)
  have hne := feedAll_nonempty P cs c [] (by simp)
  simp only
  rw [h1] at *
  refine ⟨fun max hmax => no_stall_first_read P ks hL _ m pad data hF hG _ hne h2 hd max hmax, ?_⟩
  intro evs harr
  obtain ⟨f1, _, f3⟩ := magic_any_chunking_queued P ks hL _ m pad data hF hG _ hne evs []
    (by rw [h2, harr]; simp)
  refine ⟨f1, fun hm => ?_⟩
  rcases f3 with ⟨a1, _⟩ | ⟨_, b2⟩
  · rw [hm] at a1; cases a1
  · simpa using b2

/-! ### end of stream: bytes returned together with an error -/

/-- **After the magic, bytes returned together with an error are delivered.** When the handshake
buffer is drained and the underlying conn hands out a final chunk in the same call as an error
(`n > 0, err ≠ nil`), the `Read` returns the decryption of the chunk along with the error. -/
theorem tail_with_error_delivered (P : Prims) (ks) (hL : P.sxor.Law ks) (c : Conn) (hm : c.rxMagic = none)
    (hcl : c.closed = false) (hb : c.rxBuf.getD [] = []) (max : Nat) (chunk : Bytes) :
    readLast P c max chunk =
      .dataErr { c with rxBuf := none, rx := { c.rx with off := c.rx.off + chunk.length } }
        (xorAt (ks c.rx.key c.rx.iv) c.rx.off chunk) := by
  unfold readLast
  simp only [hcl, Bool.false_eq_true, ↓reduceIte, hm, Stream.xor]
  rw [hL]
  cases hb' : c.rxBuf with
  | none => rfl
  | some buf =>
    cases buf with
    | nil => rfl
    | cons x xs => simp [hb'] at hb

/-- **Finding (unchanged code), stated on the model:** while the scan for the magic is still running,
bytes that the conn returns *together with an error* are discarded — `findPeerMagic` returns the
error before looking at them ("continuing past that is nonsensical") — even when they contain the
magic and data: nothing is delivered and the connection is closed. A kernel TCP socket never
returns data and an error from one call, in-memory wires may. Harness signature
`tail-lost-data-with-error-in-magic-scan` (KNOWN-FINDING). -/
theorem tail_with_error_lost_in_scan (P : Prims) (c : Conn) (m : Bytes) (hm : c.rxMagic = some m)
    (hcl : c.closed = false) (max : Nat) (chunk : Bytes) :
    readLast P c max chunk = .fail { c with closed := true } .eof := by
  unfold readLast
  simp [hcl, hm]

/-- **A timeout that consumed nothing changes nothing** (after the magic): a `Read` that finds the
handshake buffer drained and nothing on the wire — and so ends in a read-deadline timeout — leaves
both stream positions, the magic state and `closed` untouched (only the empty `rxBuf` is released);
the reads that follow behave as if the call had not been made. -/
theorem timeout_consumes_nothing (P : Prims) (c : Conn) (hm : c.rxMagic = none) (hcl : c.closed = false)
    (hb : c.rxBuf.getD [] = []) (max : Nat) :
    O4.Obfs3.read P c max [] = .block { c with rxBuf := none } [] := by
  simp only [O4.Obfs3.read, hcl, Bool.false_eq_true, ↓reduceIte, hm]
  unfold readData
  cases hb' : c.rxBuf with
  | none => simp [readNet, Net.read, hm, hcl]
  | some buf =>
    cases buf with
    | nil => simp [readNet, Net.read, hm, hcl]
    | cons x xs => simp [hb'] at hb

/-! ### over-padding and missing magic -/

/-- **Too much padding ⇒ rejected, for every history.** The receiver waits for magic `m`; the
bytes `W` that arrive (in any segmentation, interleaved with any `Read`s) contain no occurrence of
`m` at an offset `≤ maxPadding` and are at least `maxPadding + 32` long (the magic comes too late,
or never). Then nothing is ever delivered, and the first `Read` issued after everything has
arrived — if not an earlier one — fails with "no magic" or "too much padding" and closes the
connection. -/
theorem too_much_padding_rejected (P : Prims) (c : Conn) (m W : Bytes) (hc : Fresh c m) (hne : m ≠ [])
    (hno : ∀ p ≤ maxPadding, ¬ m <+: W.drop p) (hlen : window ≤ W.length)
    (evs : List Ev) (harr : arrivals evs = W) (max : Nat) :
    let s := runEvs P { c := c, q := [], outs := [], failed := none } (evs ++ [.read max])
    s.outs = [] ∧ s.c.closed = true ∧ (s.failed = some .noMagic ∨ s.failed = some .tooMuchPadding) := by
  have h0 : RejInv m W { c := c, q := [], outs := [], failed := none } (arrivals evs ++ []) := by
    refine ⟨rfl, Or.inl ⟨rfl, hc.open_, hc.magic, by simp, [], hc.buf, ?_, window_pos⟩⟩
    simp [harr]
  have h1 := rejInv_run P hne hno evs _ [] h0
  simp only [runEvs, List.foldl_append, List.foldl_cons, List.foldl_nil]
  exact rej_final P hne hno hlen h1 max

/-- single-call form: the queue already holds a window of bytes without a magic in range -/
theorem too_much_padding_rejected_read (P : Prims) (c : Conn) (m : Bytes) (hc : Fresh c m) (hne : m ≠ [])
    (q : Net) (hq : ∀ ch ∈ q, ch ≠ [])
    (hno : ∀ p ≤ maxPadding, ¬ m <+: q.flatten.drop p) (hlen : window ≤ q.flatten.length) (max : Nat) :
    ∃ c' e q', read P c max q = .fail c' e q' ∧ (e = .noMagic ∨ e = .tooMuchPadding) ∧ c'.closed = true := by
  simp only [O4.Obfs3.read, hc.open_, Bool.false_eq_true, ↓reduceIte, hc.magic, hc.buf, Option.getD_some]
  obtain ⟨e, b, q', h1, h2⟩ := scan_reject m hne (q.size + 1) [] q hq (Nat.lt_succ_self _) window_pos
    (by simpa using hno) (by simpa using hlen)
  rw [h1]
  exact ⟨_, e, q', rfl, h2, rfl⟩

/-! ### bounded receive buffer (C10) -/

/-- **Bounded buffer, every history, arbitrary (hostile) input.** From a fresh receiving side the
handshake-time receive buffer `rxBuf` — and its running maximum `peak` — stays below
`2·(maxPadding + sha256Size)` whatever arrives in whatever segmentation, interleaved with whatever
`Read` calls; while the scan is still running it is below one window at every blocking point. -/
theorem buffer_bounded_read (P : Prims) (c : Conn) (hb : c.rxBuf = some []) (hp : c.peak = 0)
    (q : Net) (evs : List Ev) :
    let s := runEvs P { c := c, q := q, outs := [], failed := none } evs
    (s.c.rxBuf.getD []).length < 2 * (maxPadding + sha256Size) ∧
    s.c.peak < 2 * (maxPadding + sha256Size) := by
  have h0 : BufOk c := by
    have hw := window_pos
    refine ⟨by simp [hb]; omega, by rw [hp]; omega, fun _ _ => by simp [hb]; exact hw⟩
  have := bufOk_run P (s := { c := c, q := q, outs := [], failed := none }) h0 evs
  exact ⟨this.1, this.2.1⟩

/-- the closed expression, for the regenerated constants -/
theorem buffer_bound_value : 2 * (maxPadding + sha256Size) = 16452 := by decide

/-! ### handshake -/

/-- **Handshake, any chunking.** The peer's blob `key ‖ rest` (`|key| = 192`; `rest` = its padding
and whatever follows) arrives in an arbitrary segmentation: the endpoint consumes exactly the 192
key bytes, ends in the state `kdf` computes from the shared secret (or fails if the DH functions
refuse), and everything else stays queued for the first `Read`. -/
theorem handshake_any_chunking (P : Prims) (c : Conn) (hc : c.phase = .pubkey) (key rest : Bytes)
    (hk : key.length = uniformdhSize) (cs : List Bytes) (hcs : cs.flatten = key ++ rest) :
    (feedAll P c [] cs).1 = afterKey P c key ∧ (feedAll P c [] cs).2.flatten = rest :=
  feedAll_key P hc key rest hk cs [] (by simpa using hcs)

/-- **Keys agree.** If the two sides derive the same shared secret (UniformDH agreement,
`udh_agree_model`) and the derivation succeeds, then after `kdf` the initiator's tx stream and
magic are the responder's rx stream and magic and vice versa, all stream positions are 0, both
receive buffers are untouched. -/
theorem keys_agree (P : Prims) (ci cr : Conn) (secret : Bytes) (k : Keys)
    (hi : ci.initiator = true) (hr : cr.initiator = false) (hk : deriveKeys P secret = .ok k) :
    (kdf P ci secret).phase = .established ∧ (kdf P cr secret).phase = .established ∧
    (kdf P ci secret).tx = (kdf P cr secret).rx ∧ (kdf P cr secret).tx = (kdf P ci secret).rx ∧
    (kdf P ci secret).txMagic = (kdf P cr secret).rxMagic ∧
    (kdf P cr secret).txMagic = (kdf P ci secret).rxMagic ∧
    (kdf P ci secret).txMagic = some k.initMagic ∧ (kdf P cr secret).txMagic = some k.respMagic ∧
    (kdf P ci secret).rxBuf = ci.rxBuf ∧ (kdf P cr secret).rxBuf = cr.rxBuf := by
  simp [kdf, hk, hi, hr]

/-- primitives of the real sizes: 32-byte MACs, 16-byte keys and counters accepted -/
structure PrimsOk (P : Prims) : Prop where
  macLen : ∀ k x, keyLen ≤ (P.hmac k x).length
  keyOk : ∀ k x, P.keyOk ((P.hmac k x).take keyLen) = true
  ivOk : ∀ k x, P.ivOk ((P.hmac k x).drop keyLen) = true

theorem real_primsOk : PrimsOk Prims.real where
  macLen k x := by
    show keyLen ≤ (Crypto.hmacSha256 k x).length
    rw [Crypto.hmacSha256_length]; decide
  keyOk k x := by
    show Crypto.aesKeyOk ((Crypto.hmacSha256 k x).take keyLen) = true
    have : ((Crypto.hmacSha256 k x).take keyLen).length = 16 := by
      rw [List.length_take, Crypto.hmacSha256_length]; decide
    simp [Crypto.aesKeyOk, this]
  ivOk k x := by
    show Crypto.aesIvOk ((Crypto.hmacSha256 k x).drop keyLen) = true
    have : ((Crypto.hmacSha256 k x).drop keyLen).length = 16 := by
      rw [List.length_drop, Crypto.hmacSha256_length]; decide
    simp [Crypto.aesIvOk, this]

theorem deriveKeys_ok {P : Prims} (hP : PrimsOk P) (secret : Bytes) :
    ∃ k, deriveKeys P secret = .ok k ∧ k.initStream.off = 0 ∧ k.respStream.off = 0 ∧
      k.initMagic = P.hmac secret (Bytes.ofString initiatorMagicString) ∧
      k.respMagic = P.hmac secret (Bytes.ofString responderMagicString) := by
  have ns : ∀ x, newStream P (P.hmac secret x) =
      .ok { key := (P.hmac secret x).take keyLen, iv := (P.hmac secret x).drop keyLen, off := 0 } := by
    intro x
    have := hP.macLen secret x
    simp [newStream, Nat.not_lt.mpr this, hP.keyOk, hP.ivOk]
  simp only [deriveKeys, ns, bind, Except.bind, pure, Except.pure]
  exact ⟨_, rfl, rfl, rfl, rfl, rfl⟩

/-- **No panic**: with primitives of the real sizes, starting the handshake and feeding *any*
bytes in *any* segmentation never reaches a Go run-time panic (`secret[:keyLen]`, `NewCTR`). -/
theorem no_panic_handshake (P : Prims) (hP : PrimsOk P) (initiator : Bool) (priv pad : Bytes) :
    startWith P initiator priv pad ≠ .error .panic ∧
    ∀ c w, startWith P initiator priv pad = .ok (c, w) →
      ∀ cs : List Bytes, (feedAll P c [] cs).1.phase ≠ .panicked := by
  constructor
  · unfold startWith; split <;> simp
  · intro c w hc cs
    have hc0 : c.phase = .pubkey := by
      unfold startWith at hc
      split at hc
      · cases hc
      · simp only [Except.ok.injEq, Prod.mk.injEq] at hc
        obtain ⟨rfl, _⟩ := hc; rfl
    have ak : ∀ key, (afterKey P c key).phase ≠ .panicked := by
      intro key
      unfold afterKey
      split
      · simp
      · rename_i secret _
        obtain ⟨k, hk, _⟩ := deriveKeys_ok hP secret
        simp only [kdf, hk]
        split <;> simp
    -- either the key has not fully arrived (state unchanged) or the state is `afterKey`
    have gen : ∀ (cs : List Bytes) (q : Net), (feedAll P c q cs).1 = c ∨ ∃ key, (feedAll P c q cs).1 = afterKey P c key := by
      intro cs
      induction cs with
      | nil =>
        intro q
        simp only [feedAll, progress_pubkey P hc0]
        split
        · left; rfl
        · right; exact ⟨_, rfl⟩
      | cons ch cs ih =>
        intro q
        simp only [feedAll, progress_pubkey P hc0]
        split
        · exact ih _
        · right
          exact ⟨_, (feedAll_idle P (afterKey_phase P c _) cs _).1⟩
    rcases gen cs [] with h | ⟨key, h⟩
    · rw [h, hc0]; simp
    · rw [h]; exact ak key

/-! ### non-vacuity: concrete instances meet the hypotheses -/

example : (if true then -((2 : ZMod 23) ^ 10) else (2 : ZMod 23) ^ 10) ^ 6
    = (if false then -((2 : ZMod 23) ^ 6) else (2 : ZMod 23) ^ 6) ^ 10 :=
  udh_agree 23 2 6 10 (by decide) (by decide) false true

/-- every 192-byte string is a private key (hypotheses of `udh_agree_model` / `pub_is_192_model`) -/
theorem generateKey_isSome (priv : Bytes) (h : priv.length = UniformDH.size) :
    ∃ k, UniformDH.generateKey priv = some k := by
  unfold UniformDH.generateKey
  simp [h]

example : ∃ ka kb, UniformDH.generateKey (List.replicate 192 0xff) = some ka ∧
    UniformDH.generateKey (List.replicate 191 0 ++ [3]) = some kb :=
  let ⟨ka, ha⟩ := generateKey_isSome (List.replicate 192 0xff)
    (by rw [List.length_replicate]; rfl)
  let ⟨kb, hb⟩ := generateKey_isSome (List.replicate 191 0 ++ [3])
    (by rw [List.length_append, List.length_replicate]; rfl)
  ⟨ka, kb, ha, hb⟩

example : (5 : ℕ) < 23 ∧ (23 : ℕ) < 2 ^ 1536 :=
  ⟨by decide, Nat.lt_of_lt_of_le (show 23 < 2 ^ 5 by decide) (Nat.pow_le_pow_right (by decide) (by decide))⟩

/-- a toy instantiation small enough for kernel evaluation (xor "DH": symmetric by construction) -/
def toyKs : Bytes → Bytes → Nat → UInt8 := fun _ iv i => UInt8.ofNat (5 * i + (iv.headD 0).toNat)

def toyP : Prims where
  hmac k x := (List.range 32).map fun i => UInt8.ofNat (i + 3 * x.length + (k.headD 0).toNat)
  sxor key iv off d := xorAt (toyKs key iv) off d
  keyOk k := k.length == 16
  ivOk iv := iv.length == 16
  dhPub p := some p
  dhShared a b := some (List.zipWith (· ^^^ ·) a b)

theorem toy_law : toyP.sxor.Law toyKs := fun _ _ _ _ => rfl

theorem toy_primsOk : PrimsOk toyP where
  macLen k x := by simp [toyP]; decide
  keyOk k x := by simp [toyP, List.length_take]; decide
  ivOk k x := by simp [toyP, List.length_drop]; decide

/-- a receiver waiting for the 3-byte magic `1 2 3` -/
def demoC : Conn :=
  { initiator := false, priv := [], phase := .established, rxMagic := some [1, 2, 3], txMagic := none,
    rxBuf := some [], rx := { key := [], iv := [7], off := 0 }, tx := noStream, closed := false, peak := 0 }

example : Fresh demoC [1, 2, 3] := ⟨rfl, rfl, rfl⟩
example : Genuine [1, 2, 3] [9, 9] [5, 6, 4] := ⟨by decide, by decide, by decide, by decide⟩

/-- `9 9 | 1 2 3 | 5 6 4` arrives as `9`, `9 1`, `2 3 5`, `6 4` with reads in between: the magic
straddles three reads, the first data byte is coalesced with the end of the magic -/
def demoRun : Run :=
  runEvs toyP { c := demoC, q := [], outs := [], failed := none }
    [.arrive [9], .read 10, .arrive [9, 1], .read 4, .arrive [2, 3, 5], .read 1, .arrive [6, 4],
     .read 1, .read 10, .read 10]

example : demoRun.failed = none ∧ demoRun.outs.flatten = xorAt (toyKs [] [7]) 0 [5, 6, 4] ∧
    demoRun.outs.length = 3 ∧ demoRun.c.rxBuf = none ∧ demoRun.c.rxMagic = none ∧ demoRun.c.peak = 6 := by
  decide +kernel

/-- a stream without magic meets the hypotheses of `too_much_padding_rejected` -/
example : (∀ p ≤ maxPadding, ¬ ([1] : Bytes) <+: (List.replicate 9000 (0 : UInt8)).drop p) ∧
    window ≤ (List.replicate 9000 (0 : UInt8)).length := by
  refine ⟨fun p _ h => ?_, by rw [List.length_replicate]; decide⟩
  rw [List.drop_replicate] at h
  obtain ⟨t, ht⟩ := h
  cases hk : 9000 - p with
  | zero => rw [hk] at ht; simp at ht
  | succ k => rw [hk, List.replicate_succ] at ht; simp at ht

/-- two toy endpoints: the peer's key arrives in three pieces followed by padding; both derive the
same streams and magics crosswise (`handshake_any_chunking`, `keys_agree`) -/
def demoKeyI : Bytes := (List.range 192).map UInt8.ofNat
def demoKeyR : Bytes := (List.range 192).map fun i => UInt8.ofNat (7 * i + 1)
def getOk (r : Except Stop (Conn × List Bytes)) : Conn × Bytes :=
  match r with
  | .ok (c, w) => (c, w.flatten)
  | .error _ => (demoC, [])
def demoI := getOk (startWith toyP true demoKeyI [4, 4])
def demoR := getOk (startWith toyP false demoKeyR [])
def demoFI := feedAll toyP demoI.1 [] [demoR.2.take 100, (demoR.2.drop 100).take 91, demoR.2.drop 191]
def demoFR := feedAll toyP demoR.1 [] [demoI.2.take 1, demoI.2.drop 1]

example : demoFI.1.phase = .established ∧ demoFR.1.phase = .established ∧
    demoFI.1.tx = demoFR.1.rx ∧ demoFR.1.tx = demoFI.1.rx ∧
    demoFI.1.txMagic = demoFR.1.rxMagic ∧ demoFR.1.txMagic = demoFI.1.rxMagic ∧
    demoFI.2.flatten = [] ∧ demoFR.2.flatten = [4, 4] := by
  decide +kernel

/-- `coalesced_with_handshake` on a concrete instance: the initiator's whole flight
`key ‖ pad1 = 4 4 ‖ (pad2 empty) ‖ magic ‖ 42 43` reaches the responder in ONE segment while it
still waits for the key; the first `Read` delivers both data bytes, nothing stays in `rxBuf` -/
def demoMagic : Bytes := (demoFI.1.txMagic).getD []
def demoFlight := feedAll toyP demoR.1 [] [demoI.2 ++ demoMagic ++ xorAt (toyKs demoFI.1.tx.key demoFI.1.tx.iv) 0 [42, 43]]
def outOf : ReadRes → Option Bytes
  | .data _ o _ => some o
  | _ => none

example : demoMagic.length = 32 ∧ demoFlight.1.rxBuf = some [] ∧ demoFlight.2.flatten.length = 2 + 32 + 2 ∧
    outOf (read toyP demoFlight.1 100 demoFlight.2) = some [42, 43] := by
  decide +kernel


/-- **structural fact, regenerated from the Go source on every run (go/ast)**: every package-level
    variable (file-scope `var`) of the packages this property's mechanisms live in
    (transports/obfs3, common/uniformdh) is one of the names below — error values, fixed byte strings,
    flags and function hooks that the code only reads after initialisation.  The models treat all
    other state as owned by one connection / one object; a NEW package-level variable (a cache, a
    pool, a scratch buffer, a pre-keyed hash shared "to save allocations") is how such state comes
    to be shared between connections and goroutines, which compiles, passes the tests and typically
    needs true parallelism or a multi-connection history to misbehave.  Adding one breaks this
    theorem; the concurrent / multi-connection families of the harness then search for the failing
    schedule. -/
theorem no_new_package_level_state :
    O4.Facts.Obfs3.pkg_vars ⊆ [] ∧
    O4.Facts.Uniformdh.pkg_vars ⊆ ["gen", "modpGroup"] := by
  decide

end C13
