import O4.Model.ProbDist
import O4.Model.CsRand
namespace C12
theorem placeholder : True := trivial
end C12
