import O4.Lemmas.Alias
import O4.Lemmas.Drbg
import O4.Generated.Consts.Probdist
import O4.Generated.Facts.Probdist
import Mathlib.Algebra.Order.Field.Rat
import Mathlib.Tactic.NormNum
import O4.Generated.Facts.Drbg
import O4.Generated.Facts.Csrand
/-!
# C12 — seeded distributions and generator: deterministic, in range, exact

Property theorems only.  Models: `O4/Model/{Crypto/SipHash,Drbg,GoRand,ProbDist,CsRand}.lean`;
helper lemmas: `O4/Lemmas/{GoRand,ProbDist,Alias,Drbg}.lean`.  `minValues`/`maxValues` are the
constants regenerated from `common/probdist`.

All statements about `math/rand` derivations hold for an **arbitrary** `Int63` source (any state
type, any `int63` function), all statements about the tables for an arbitrary number type
(`NumOps`) unless a field is named.  `build` is the body of `Reset` (`genValues`, weights,
`genTables`); results are `Option`s because the model's rejection loops carry fuel.
-/
namespace C12
open O4 O4.GoRand O4.ProbDist

/-- **Determinism.** The tables are the explicit function `tablesOf` of (seed, min, max, biased):
    `New` is that function whenever it does not panic, `Reset` is that function of the new seed
    and the object's bounds/bias — whatever tables the object held before. -/
theorem deterministic {α : Type} (ops : NumOps α) (seed : Bytes) :
    (∀ mn mx b, mn < mx → ProbDist.new ops seed mn mx b = tablesOf ops seed mn mx b) ∧
    (∀ d : Dist α, d.reset ops seed = tablesOf ops seed d.minValue d.maxValue d.biased) ∧
    (∀ d d' : Dist α, d.minValue = d'.minValue → d.maxValue = d'.maxValue → d.biased = d'.biased →
        d.reset ops seed = d'.reset ops seed) := by
  refine ⟨?_, ?_, ?_⟩
  · intro mn mx b h
    simp [ProbDist.new, Int.not_le.mpr h]
  · intro d; rfl
  · intro d d' h1 h2 h3
    simp [Dist.reset, h1, h2, h3]

/-- non-vacuity: obfs4's bounds satisfy the hypothesis of the `New` clause -/
example : (0 : Int) < 1448 ∧ (0 : Int) < 100 := by decide

/-- a trivial source and number type, used only to show that hypotheses are satisfiable -/
private def zeroSrc : Source Unit := ⟨fun s => (0, s)⟩
private def natOps : NumOps Nat :=
  ⟨0, 1, id, (· + ·), (· - ·), (· * ·), (· / ·), fun a b => a < b, fun a b => a ≤ b, id, (· == 1)⟩

/-- non-vacuity of `build … = some …` (hypothesis of the next theorems): bounds 5..7 -/
example : ((build natOps zeroSrc 5 7 false ()).map (·.1.values)) = some [2] := by decide +kernel

/-- **Values in range, for any source stream.** The value table is a prefix of a permutation of
    `[0, max-min]`, has between `minValues` (1) and `maxValues` (100) entries without repetition,
    and every entry shifted by `min` lies in `[min, max]`. -/
theorem values_in_range {σ α : Type} (ops : NumOps α) (src : Source σ) (mn mx : Int) (hle : mn ≤ mx)
    (biased : Bool) (s : σ) (d : Dist α) (s' : σ)
    (h : build ops src mn mx biased s = some (d, s')) :
    (∃ p : List Nat, p.Perm (List.range (mx + 1 - mn).toNat) ∧ d.values = p.take d.values.length) ∧
    Consts.Probdist.minValues ≤ d.values.length ∧ d.values.length ≤ Consts.Probdist.maxValues ∧
    d.values.Nodup ∧ ∀ v ∈ d.values, mn ≤ mn + (v : Int) ∧ mn + (v : Int) ≤ mx := by
  obtain ⟨wf, hmn, hmx, _⟩ := build_wellFormed ops src mn mx hle biased s d s' h
  have hmin : Consts.Probdist.minValues ≤ 1 := by decide
  refine ⟨?_, ?_, ?_, wf.values_nodup ops, ?_⟩
  · have := wf.perm; rwa [hmn, hmx] at this
  · have := wf.n_pos; omega
  · exact wf.n_le
  · intro v hv
    have := wf.value_lt ops v hv
    rw [hmn, hmx] at this
    omega

/-- **Every sample lies in the table and within the bounds** — for tables built from any source
    in any number type, any die below the table size and any coin value; and hence for `Sample`
    over any source of dice and coins. -/
theorem sample_in_table {σ τ α : Type} (ops : NumOps α) (src : Source σ) (mn mx : Int) (hle : mn ≤ mx)
    (biased : Bool) (s : σ) (d : Dist α) (s' : σ)
    (h : build ops src mn mx biased s = some (d, s')) :
    (∀ (die : Nat) (coin : α), die < d.values.length →
      (∃ v ∈ d.values, d.sampleWith ops die coin = mn + (v : Nat)) ∧
      mn ≤ d.sampleWith ops die coin ∧ d.sampleWith ops die coin ≤ mx) ∧
    (∀ (rnd : Source τ) (t t' : τ) (x : Int), d.sample ops rnd t = some (x, t') →
      (∃ v ∈ d.values, x = mn + (v : Nat)) ∧ mn ≤ x ∧ x ≤ mx) := by
  obtain ⟨wf, hmn, hmx, _⟩ := build_wellFormed ops src mn mx hle biased s d s' h
  have key : ∀ (die : Nat) (coin : α), die < d.values.length →
      (∃ v ∈ d.values, d.sampleWith ops die coin = mn + (v : Nat)) ∧
      mn ≤ d.sampleWith ops die coin ∧ d.sampleWith ops die coin ≤ mx := by
    intro die coin hd
    have := sampleWith_in_table ops wf die hd coin
    rwa [hmn, hmx] at this
  refine ⟨key, ?_⟩
  intro rnd t t' x hx
  unfold Dist.sample at hx
  split at hx
  · simp at hx
  · rename_i i t1 hi
    split at hx
    · simp at hx
    · rename_i c t2 _
      simp only [Option.some.injEq, Prod.mk.injEq] at hx
      rw [← hx.1]
      exact key i c (intn_lt rnd _ t i t1 hi)

/-- **Exactness of the sampling tables** (any linear ordered field `K`, e.g. `ℚ`; weights `≥ 0`
    with positive sum): for every index `i` the probability the alias tables give to `i`,
    `(prob[i] + Σ_{j : alias[j] = i} (1 - prob[j])) / n`, equals the normalised weight `w_i / Σw`;
    each `prob[i]` is a probability; and the main loop leaves no "small" entries behind.
    Proved via the loop invariant `O4.ProbDist.Inv` (`Lemmas/Alias.lean`). -/
theorem alias_exact {K : Type} [Field K] [LinearOrder K] [IsStrictOrderedRing K]
    (w : List K) (hw : ∀ x ∈ w, 0 ≤ x) (hS : 0 < w.sum) :
    (∀ i, i < w.length →
      ((genTables (fieldOps K) w).2.getD i 0 +
          ∑ j ∈ Finset.range w.length, if (genTables (fieldOps K) w).1.getD j 0 = i
            then 1 - (genTables (fieldOps K) w).2.getD j 0 else 0) / (w.length : K)
        = w.getD i 0 / w.sum ∧
      0 ≤ (genTables (fieldOps K) w).2.getD i 0 ∧ (genTables (fieldOps K) w).2.getD i 0 ≤ 1) ∧
    (0 < w.length → (voseLoop (fieldOps K) w.length (voseInit (fieldOps K) w)).small = []) :=
  ⟨fun i hi => genTables_exact w hw hS i hi,
   fun hn => genTables_no_small_leftover w hn hw hS⟩

/-- the same for the tables of a distribution object built over `K` from any source -/
theorem alias_exact_dist {σ K : Type} [Field K] [LinearOrder K] [IsStrictOrderedRing K]
    (src : Source σ) (mn mx : Int) (hle : mn ≤ mx) (biased : Bool) (s : σ) (d : Dist K) (s' : σ)
    (h : build (fieldOps K) src mn mx biased s = some (d, s'))
    (hw : ∀ x ∈ d.weights, 0 ≤ x) (hS : 0 < d.weights.sum) (i : Nat) (hi : i < d.values.length) :
    (d.prob.getD i 0 + ∑ j ∈ Finset.range d.values.length,
        if d.ali.getD j 0 = i then 1 - d.prob.getD j 0 else 0) / (d.values.length : K)
      = d.weights.getD i 0 / d.weights.sum := by
  obtain ⟨wf, _⟩ := build_wellFormed (fieldOps K) src mn mx hle biased s d s' h
  have ht := wf.tables
  have h1 : d.ali = (genTables (fieldOps K) d.weights).1 := congrArg Prod.fst ht
  have h2 : d.prob = (genTables (fieldOps K) d.weights).2 := congrArg Prod.snd ht
  rw [h1, h2, ← wf.weights_len]
  exact (genTables_exact d.weights hw hS i (by rw [wf.weights_len]; exact hi)).1

/-- non-vacuity of the hypotheses of `alias_exact` over `ℚ` -/
example : (∀ x ∈ ([1, 3, 0, 2] : List ℚ), 0 ≤ x) ∧ 0 < ([1, 3, 0, 2] : List ℚ).sum := by
  norm_num

/-- **Ranges of the random helpers, for any source**: `min ≤ IntRange(min, max) ≤ max`
    (inclusive), `Intn(n) < n` (exclusive), and `Float64` on the integer level: the two
    real sources (DRBG, `crypto/rand` tape) return `Int63 < 2^63`, so that in exact arithmetic
    `float64(Int63)/2^63 ∈ [0, 1)`. -/
theorem intrange_bounds :
    (∀ {σ : Type} (src : Source σ) (mn mx : Int) (s : σ) (v : Int) (s' : σ),
        CsRand.intRange src mn mx s = .ok v s' → mn ≤ v ∧ v ≤ mx) ∧
    (∀ {σ : Type} (src : Source σ) (n : Nat) (s : σ) (v : Nat) (s' : σ),
        CsRand.intn src n s = some (v, s') → v < n) ∧
    (∀ d : Drbg.HashDrbg, (drbgSource.int63 d).1 < 2 ^ 63) ∧
    (∀ t : Tape, (tapeSource.int63 t).1 < 2 ^ 63) :=
  ⟨fun src mn mx s v s' h => CsRand.intRange_bounds src mn mx s v s' h,
   fun src n s v s' h => intn_lt src n s v s' h,
   fun d => Drbg.int63_lt d,
   fun t => tapeSource_int63_lt t⟩

private theorem float64Loop_unit {σ K : Type} [Field K] [LinearOrder K] [IsStrictOrderedRing K]
    (src : Source σ) (hsrc : ∀ s, (src.int63 s).1 < 2 ^ 63) :
    ∀ (f : Nat) (s : σ) (x : K) (s' : σ),
      float64Loop src (fieldOps K) f s = some (x, s') → 0 ≤ x ∧ x < 1 := by
  intro f
  induction f with
  | zero => intro s x s' h; simp [float64Loop] at h
  | succ f ih =>
    intro s x s' h
    simp only [float64Loop] at h
    split at h
    · exact ih _ _ _ h
    · simp only [Option.some.injEq, Prod.mk.injEq] at h
      rw [← h.1]
      have hv : ((src.int63 s).1 : K) < 2 ^ 63 := by exact_mod_cast hsrc s
      have hpos : (0 : K) < 2 ^ 63 := by positivity
      simp only [fieldOps]
      exact ⟨div_nonneg (Nat.cast_nonneg _) hpos.le, (div_lt_one hpos).mpr hv⟩

/-- `Float64() ∈ [0, 1)` in exact arithmetic for every source that honours `Int63 < 2^63` -/
theorem float64_unit_interval {σ K : Type} [Field K] [LinearOrder K] [IsStrictOrderedRing K]
    (src : Source σ) (hsrc : ∀ s, (src.int63 s).1 < 2 ^ 63) (s : σ) (x : K) (s' : σ)
    (h : float64 src (fieldOps K) s = some (x, s')) : 0 ≤ x ∧ x < 1 :=
  float64Loop_unit src hsrc _ s x s' h

/-- non-vacuity: `IntRange(-3, 4)` on a tape whose first word is 5·2^32 returns `2` -/
example : (match CsRand.intRange tapeSource (-3) 4 ⟨[0, 0, 0, 5, 0, 0, 0, 0], false⟩ with
    | .ok v _ => v | _ => 100) = 2 := by decide

/-- **The generator is SipHash-2-4 in output-feedback mode over the accumulated input**: with
    `(k0, k1)` the little-endian halves of the first 16 seed bytes and `IV` the next 8, block
    `n+1` is `SipHash-2-4(k0, k1, IV ‖ out₁ ‖ … ‖ outₙ)` (little-endian bytes), for every `n`. -/
theorem drbg_is_ofb (seed : Bytes) (n : Nat) :
    (Drbg.newHashDrbg seed).blocks (n + 1) =
      (Drbg.newHashDrbg seed).blocks n ++
        [Crypto.SipHash.leBytes
          (Crypto.sipHash24 (Crypto.sipKey (seed.take 16)).1 (Crypto.sipKey (seed.take 16)).2
            ((seed.drop 16).take Drbg.size ++ ((Drbg.newHashDrbg seed).blocks n).flatten))] := by
  rw [Drbg.blocks_succ, Drbg.nextBlock_after]
  rfl

/-- non-vacuity / test vector: the first block for the all-zero seed -/
example : (Drbg.newHashDrbg (Bytes.zeros 24)).blocks 1 =
    [Crypto.SipHash.leBytes (Crypto.sipHash24 0 0 (Bytes.zeros 8))] := by decide +kernel

/-- **`Sample` and `Reset` are atomic with respect to each other** (structural fact regenerated
    from `common/probdist` by the go/ast extractor on every run): both bracket their whole body
    with `w.Lock(); defer w.Unlock()` and neither touches a table field before taking the lock —
    in particular the die is sized from `len(w.values)` *under* the lock.  This is what lets the
    sequential theorems above (`sample_in_table`: the die is below the size of the table the coin
    and alias are looked up in) speak about a `Sample` that runs while another goroutine
    `Reset`s the object; goroutine scheduling itself is outside the theorem and is sampled by
    the concurrent Reset/Sample family of the harness. -/
theorem sample_reset_under_mutex :
    Facts.Probdist.WeightedDist_Sample_locked = true ∧
    Facts.Probdist.WeightedDist_Sample_prelock = [] ∧
    Facts.Probdist.WeightedDist_Reset_locked = true ∧
    Facts.Probdist.WeightedDist_Reset_prelock = [] ∧
    Facts.Probdist.WeightedDist_Sample_fields ⊆ Facts.Probdist.WeightedDist_Reset_fields := by
  decide


/-- **structural fact, regenerated from the Go source on every run (go/ast)**: every package-level
    variable (file-scope `var`) of the packages this property's mechanisms live in
    (common/probdist, common/drbg, common/csrand) is one of the names below — error values, fixed byte strings,
    flags and function hooks that the code only reads after initialisation.  The models treat all
    other state as owned by one connection / one object; a NEW package-level variable (a cache, a
    pool, a scratch buffer, a pre-keyed hash shared "to save allocations") is how such state comes
    to be shared between connections and goroutines, which compiles, passes the tests and typically
    needs true parallelism or a multi-connection history to misbehave.  Adding one breaks this
    theorem; the concurrent / multi-connection families of the harness then search for the failing
    schedule. -/
theorem no_new_package_level_state :
    O4.Facts.Probdist.pkg_vars ⊆ [] ∧
    O4.Facts.Drbg.pkg_vars ⊆ [] ∧
    O4.Facts.Csrand.pkg_vars ⊆ ["Rand", "Reader", "csRandSourceInstance"] := by
  decide

end C12
