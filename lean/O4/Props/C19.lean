import O4.Lemmas.Relay
import O4.Lemmas.TermMon
/-!
# C19 — relay copies everything, tears both sides down together, and shutdown completes

Property theorems only.  Models: `O4/Model/Relay.lean` (interleaving semantics of `copyLoop`:
every list of `Choice`s is a schedule, so a statement about `run init cs` for all `cs` is a
statement about all interleavings of the two copiers, the caller and the environment) and
`O4/Model/TermMon.lean` (`termMonitor.wait` as a function of the event history).
Helper lemmas: `O4/Lemmas/Relay.lean`, `O4/Lemmas/TermMon.lean`.
-/
namespace C19
open O4

/-! ## relay -/
section relay
open O4.Relay

/-- **forward_prefix**: in every reachable state, what side `d.dst` has accepted from copier `d`
    is a prefix — in order, unaltered — of what side `d.src` produced. -/
theorem forward_prefix (cs : List Choice) (d : Dir) :
    (run init cs).fwd d <+: ((run init cs).conn d.src).produced := by
  have h := flow_run init cs d (flow_init d)
  unfold Flow at h
  split at h
  · exact ⟨_, h.symm⟩
  · exact ⟨_, by rw [h.1, List.append_assoc]⟩
  · obtain ⟨rest, hr⟩ := h.1; exact ⟨rest, hr.symm⟩

/-- a schedule on which bytes are forwarded, some are still in flight, one side has ended -/
example : (run init [.produce .A [1, 2, 3], .cop .ab { n := 2 }, .cop .ab {}, .cop .ab {}]).fwd .ab = [1, 2]
    ∧ ((run init [.produce .A [1, 2, 3], .cop .ab { n := 2 }, .cop .ab {}, .cop .ab {}]).conn .A).produced = [1, 2, 3] := by
  decide

/-- **flush_before_teardown**: when copier `d` has left `io.Copy` because its *source side ended*
    (EOF: result `ok`; read error: result `rerr src`) — which can only happen while every earlier
    `Write` to the other side succeeded, i.e. the other side was healthy — then in that state and
    in every later one, in particular before the copier's first `Close` (`pc = snd`, `cl1`),
    everything the source side ever produced has been accepted by the destination. -/
theorem flush_before_teardown (cs : List Choice) (d : Dir)
    (hexit : ((run init cs).cop d).pc.exiting = true)
    (hres : ((run init cs).cop d).res = .ok ∨ ((run init cs).cop d).res = .rerr d.src) :
    (run init cs).fwd d = ((run init cs).conn d.src).produced := by
  have h := flow_run init cs d (flow_init d)
  unfold Flow at h
  split at h
  · next hpc => rw [hpc] at hexit; cases hexit
  · next hpc => rw [hpc] at hexit; cases hexit
  · exact (h.2 hres).1.symm

/-- side A sends 3 bytes and EOF, delivered in two reads; when the copier is about to close,
    all 3 bytes are at B -/
example :
    let s := run init [.produce .A [7, 8, 9], .finish .A .eof, .cop .ab { n := 1 }, .cop .ab {},
      .cop .ab { withFin := true }, .cop .ab {}, .cop .ab {}]
    (s.cop .ab).pc = .cl1 ∧ (s.cop .ab).res = .ok ∧ s.fwd .ab = [7, 8, 9] := by
  decide

/-- **teardown, part 1**: once a copier has finished its deferred closes (a fortiori once it has
    exited), both conns are closed. -/
theorem teardown_both_closed (cs : List Choice) (d : Dir)
    (h : ((run init cs).cop d).pc = .wgd ∨ ((run init cs).cop d).pc = .done) :
    ((run init cs).conn .A).closed = true ∧ ((run init cs).conn .B).closed = true := by
  have := (ctl_run init cs ctl_init).after d h
  cases d <;> exact ⟨by simp_all [Dir.src, Dir.dst], by simp_all [Dir.src, Dir.dst]⟩

/-- **teardown, part 2**: a copier whose `io.Copy` has returned (for whatever reason) has closed
    both conns after at most 3 more steps of its own, whatever everybody else does. -/
theorem teardown_closes_within (cs cs' : List Choice) (d : Dir)
    (hexit : ((run init cs).cop d).pc.exiting = true) (hsteps : 3 ≤ ownSteps d cs') :
    ((run (run init cs) cs').conn .A).closed = true ∧ ((run (run init cs) cs').conn .B).closed = true := by
  have hr := rank_run (run init cs) cs' d (Or.inl hexit)
  have hle : ((run init cs).cop d).pc.rank ≤ 4 := by
    cases hpc : ((run init cs).cop d).pc <;> simp_all [Pc.rank, Pc.exiting]
  have h1 := rank_le_one (pc := ((run (run init cs) cs').cop d).pc) (by omega)
  have hC : Ctl (run (run init cs) cs') := ctl_run _ cs' (ctl_run init cs ctl_init)
  have := hC.after d h1
  cases d <;> exact ⟨by simp_all [Dir.src, Dir.dst], by simp_all [Dir.src, Dir.dst]⟩

/-- **teardown, part 3**: once both conns are closed, a copier exits within 5 steps of its own —
    it cannot block any more, whatever the environment and the other copier do. -/
theorem teardown_other_exits (cs cs' : List Choice) (d : Dir)
    (hA : ((run init cs).conn .A).closed = true) (hB : ((run init cs).conn .B).closed = true)
    (hsteps : 5 ≤ ownSteps d cs') :
    ((run (run init cs) cs').cop d).pc = .done := by
  have hr := rank_run (run init cs) cs' d (Or.inr ⟨hA, hB⟩)
  have hle : ((run init cs).cop d).pc.rank ≤ 5 := by
    cases ((run init cs).cop d).pc <;> simp [Pc.rank]
  exact rank_zero (by omega)

/-- **teardown, part 4**: `copyLoop` returns only after both copiers are done and both conns are
    closed, and its value is the *first* result sent on `errChan`: the `io.Copy` result of one of
    the copiers, never the "use of closed connection" error the teardown itself provokes. -/
theorem teardown_first_error (cs : List Choice) (e : Err) (h : (run init cs).ret = some e) :
    ((run init cs).cop .ab).pc = .done ∧ ((run init cs).cop .ba).pc = .done ∧
    ((run init cs).conn .A).closed = true ∧ ((run init cs).conn .B).closed = true ∧
    (run init cs).errs.head? = some e ∧ (run init cs).errs.length = 2 ∧ e ≠ .closed ∧
    (∃ d, e = ((run init cs).cop d).res) := by
  have hC := ctl_run init cs ctl_init
  obtain ⟨h1, h2, h3⟩ := hC.ret e h
  have hcl := hC.after .ab (Or.inr h1)
  refine ⟨h1, h2, hcl.1, hcl.2, h3, ?_, ?_, ?_⟩
  · rw [hC.len, h1, h2]; rfl
  · intro he; rw [he] at h3; exact hC.head h3
  · have : e ∈ (run init cs).errs := by
      cases hl : (run init cs).errs with
      | nil => rw [hl] at h3; cases h3
      | cons a l => rw [hl] at h3; simp at h3; subst h3; simp
    obtain ⟨d, _, hd⟩ := hC.mem e this
    exact ⟨d, hd⟩

/-- the caller's return is enabled as soon as both copiers are done -/
theorem teardown_returns (cs : List Choice)
    (h1 : ((run init cs).cop .ab).pc = .done) (h2 : ((run init cs).cop .ba).pc = .done) :
    (run init (cs ++ [.main])).ret ≠ none := by
  simp only [run, List.foldl_append, List.foldl_cons, List.foldl_nil]
  simp only [step]
  split
  · simp [State.emit]
  · next h => simp only [not_and] at h; exact h h1 h2

/-- **errChan never blocks a copier**: whenever a copier is about to send its result the channel
    (capacity 2 = number of senders) has a free slot, whatever the two results are — which is
    why the model's send step is unconditional — and the send takes the copier on to its closes. -/
theorem errchan_capacity_suffices (cs : List Choice) (d : Dir) (p : Param)
    (h : ((run init cs).cop d).pc = .snd) :
    (run init cs).errs.length < 2 ∧ ((stepCop (run init cs) d p).cop d).pc = .cl1 := by
  have hC := ctl_run init cs ctl_init
  constructor
  · have hl := hC.len
    have hs : ((run init cs).cop d).pc.sent = false := by rw [h]; rfl
    have ite_le : ∀ (c : Prop) [Decidable c], (if c then 1 else 0 : Nat) ≤ 1 := by
      intro c _; split <;> omega
    cases d
    · rw [hs] at hl
      have := ite_le (((run init cs).cop .ba).pc.sent = true)
      simp only [Bool.false_eq_true, ↓reduceIte] at hl
      omega
    · rw [hs] at hl
      have := ite_le (((run init cs).cop .ab).pc.sent = true)
      simp only [Bool.false_eq_true, ↓reduceIte] at hl
      omega
  · simp [stepCop, h, stepSnd, State.setCop]

/-- … and so `copyLoop` returns once both copiers have ended, whatever their two results are:
    both genuine errors, one of them the teardown's "closed", both nil. -/
theorem returns_whatever_the_results (cs : List Choice)
    (h1 : ((run init cs).cop .ab).pc = .done) (h2 : ((run init cs).cop .ba).pc = .done) :
    (run init cs).errs.length = 2 ∧ (run init (cs ++ [.main])).ret ≠ none := by
  have hC := ctl_run init cs ctl_init
  exact ⟨by rw [hC.len, h1, h2]; rfl, teardown_returns cs h1 h2⟩

/-- both sides fail with genuine errors, back to back: two results queued, the first returned -/
example :
    let s := run init [.finish .A .err, .finish .B .err, .cop .ab {}, .cop .ba {}, .cop .ab {}, .cop .ba {},
      .cop .ab {}, .cop .ab {}, .cop .ab {}, .cop .ba {}, .cop .ba {}, .cop .ba {}, .main]
    s.errs = [.rerr .A, .rerr .B] ∧ s.ret = some (.rerr .A) := by
  decide

/-- **teardown**: the four parts together. -/
theorem teardown (cs : List Choice) :
    (∀ d, ((run init cs).cop d).pc = .done →
      ((run init cs).conn .A).closed = true ∧ ((run init cs).conn .B).closed = true) ∧
    (∀ d cs', ((run init cs).cop d).pc.exiting = true → 3 ≤ ownSteps d cs' →
      ((run (run init cs) cs').conn .A).closed = true ∧ ((run (run init cs) cs').conn .B).closed = true) ∧
    (∀ d cs', ((run init cs).conn .A).closed = true → ((run init cs).conn .B).closed = true →
      5 ≤ ownSteps d cs' → ((run (run init cs) cs').cop d).pc = .done) ∧
    (∀ e, (run init cs).ret = some e →
      ((run init cs).cop .ab).pc = .done ∧ ((run init cs).cop .ba).pc = .done ∧
      (run init cs).errs.head? = some e ∧ e ≠ .closed) :=
  ⟨fun d h => teardown_both_closed cs d (Or.inr h),
   fun d cs' h1 h2 => teardown_closes_within cs cs' d h1 h2,
   fun d cs' hA hB h => teardown_other_exits cs cs' d hA hB h,
   fun e h => by
     obtain ⟨a, b, _, _, c, _, d, _⟩ := teardown_first_error cs e h
     exact ⟨a, b, c, d⟩⟩

/-- A's side fails with a read error while B is idle: the relay returns that error after both
    conns were closed; the second copier's "closed" error is not what is returned. -/
example :
    let s := run init [.finish .A .err, .cop .ab {}, .cop .ab {}, .cop .ab {}, .cop .ab {}, .cop .ab {},
      .cop .ba {}, .cop .ba {}, .cop .ba {}, .cop .ba {}, .cop .ba {}, .main]
    s.ret = some (.rerr .A) ∧ s.errs = [.rerr .A, .closed] ∧ (s.conn .A).closed = true ∧ (s.conn .B).closed = true := by
  decide

end relay

/-! ## handler count and shutdown -/
section term
open O4.TermMon

/-- the history consists of start / finish events and signals -/
def Proper (evs : List Ev) : Prop := ∀ e ∈ evs, e = Ev.start ∨ e = Ev.finish ∨ ∃ s, e = .sig s

private theorem delta_proper (evs : List Ev) (h : Proper evs) :
    delta evs = (starts evs : Int) - (finishes evs : Int) := by
  induction evs with
  | nil => simp [delta, starts, finishes]
  | cons e rest ih =>
    have ih' := ih (fun e he => h e (by simp [he]))
    rcases h e (by simp) with rfl | rfl | ⟨s, rfl⟩
    · simp only [Ev.start, delta, ih', starts, finishes, List.filter_cons]
      simp [Ev.finish]; omega
    · simp only [Ev.finish, delta, ih', starts, finishes, List.filter_cons]
      simp [Ev.start]; omega
    · simp only [delta, ih', starts, finishes, List.filter_cons]
      simp [Ev.start, Ev.finish]

/-- **handler_count**: whatever `wait` does (returns or parks), `numHandlers` equals its initial
    value plus (handler starts − handler finishes) among the events it has received; for both
    variants of the loop and both values of the flag. -/
theorem handler_count (fixed flag : Bool) (n : Int) (evs : List Ev) (hp : Proper evs) :
    let r := wait fixed flag n evs
    let seen := evs.take (r.consumed evs.length)
    r.count = n + (starts seen : Int) - (finishes seen : Int) := by
  simp only
  rw [count_delta, delta_proper]
  · omega
  · intro e he; exact hp e (List.mem_of_mem_take he)

/-- … and therefore returns to its initial value (0) when every handler that started has finished. -/
theorem handler_count_zero (fixed flag : Bool) (evs : List Ev) (hp : Proper evs)
    (hbal : starts (evs.take ((wait fixed flag 0 evs).consumed evs.length))
          = finishes (evs.take ((wait fixed flag 0 evs).consumed evs.length))) :
    (wait fixed flag 0 evs).count = 0 := by
  have := handler_count fixed flag 0 evs hp
  simp only at this
  rw [this, hbal]; omega

example : (wait false false 0 [Ev.start, Ev.start, Ev.finish, Ev.start, Ev.finish, Ev.finish]).count = 0 := by
  decide
example : Proper [Ev.start, Ev.start, Ev.finish, .sig .int] := by
  intro e he; simp at he; rcases he with rfl | rfl | rfl | rfl <;> simp

/-- **shutdown_when_idle** (the code under test, `wait codeFixed`): after the shutdown request
    (`flag = true`), whatever the count `n` at that moment and whatever follows, `wait` returns
    SIGTERM exactly when the running count first reaches zero — after the handler events `pre`
    that bring it there, without waiting for anything in `post`.  `pre = []` is the idle case:
    no handler active at the time of the request, **including the empty history**. -/
theorem shutdown_when_idle (n : Int) (pre post : List Ev) (hp : Handlers pre)
    (hz : n + delta pre = 0) (hnz : ∀ k, k < pre.length → n + delta (pre.take k) ≠ 0) :
    wait codeFixed true n (pre ++ post) = .returned .term pre.length 0 :=
  wait_fixed_zero n pre post hp hz hnz

/-- the idle case spelled out: zero handlers, no further event — returns at once. -/
theorem shutdown_when_idle_empty : wait codeFixed true 0 [] = .returned .term 0 0 := rfl

/-- `wait(true)` of the code under test is never parked with a zero count. -/
theorem shutdown_never_parked_idle (n : Int) (evs : List Ev) (m : Int)
    (h : wait codeFixed true n evs = .blocked m) : m ≠ 0 :=
  wait_fixed_never_idle n evs m h

/-- the shutdown sequence of `main`: a SIGINT that arrives when the handlers that started have
    all finished (in particular on a proxy that never had a connection: `pre = []`) makes the
    process exit without any further event. -/
theorem shutdown_main_idle (pre post : List Ev) (hp : Handlers pre) (hz : delta pre = 0) :
    mainSeq codeFixed (pre ++ .sig .int :: post) = .exited .term (pre.length + 1) 0 := by
  unfold mainSeq
  rw [wait_noflag _ 0 pre .int post hp]
  simp only [Int.zero_add, hz]
  have : (pre ++ Ev.sig Sig.int :: post).drop (pre.length + 1) = post := by
    rw [show pre ++ Ev.sig Sig.int :: post = (pre ++ [Ev.sig Sig.int]) ++ post by simp]
    rw [List.drop_left' (by simp)]
  rw [this]
  have := wait_fixed_zero 0 [] post (by intro e he; cases he) (by simp [delta]) (by simp)
  simp only [List.nil_append, List.length_nil] at this
  show (match wait true true 0 post with | .blocked m => _ | .returned s j m => _) = _
  rw [this]

/-- two connections come and go, SIGINT, one straggler event afterwards: exits at the SIGINT -/
example : mainSeq codeFixed [Ev.start, Ev.start, Ev.finish, Ev.finish, .sig .int, Ev.start]
    = .exited .term 5 0 := by decide
/-- shutdown requested with 2 active handlers: returns when the second one finishes -/
example : wait codeFixed true 2 [Ev.finish, Ev.start, Ev.finish, Ev.finish, Ev.start]
    = .returned .term 4 0 := by decide

/-- **F5, the defect of the released loop**: `wait(true)` started with no active handler and
    followed by no further event parks in `select` for ever (model with `fixed = false`). -/
theorem idle_hang_counterexample : wait false true 0 [] = .blocked 0 := rfl

/-- the same as seen from `main`: SIGINT on an idle proxy, nothing afterwards — the process
    stays in the second `wait`. -/
theorem idle_hang_main_counterexample : mainSeq false [.sig .int] = .blocked 2 0 := rfl

/-- the repair is conservative: the two loops agree unless `wait(true)` starts idle. -/
theorem fix_changes_only_idle_start (flag : Bool) (n : Int) (evs : List Ev)
    (h : ¬(flag = true ∧ n = 0)) : wait false flag n evs = wait true flag n evs :=
  wait_fix_conservative flag n evs h

end term

end C19
