import O4.Model.NtorReal
import O4.Lemmas.CryptoBasic
import O4.Generated.Facts.Ntor
import O4.Generated.Facts.X25519ell2
/-!
# C08 — ntor: both sides agree, the transcript is bound, degenerate keys are refused

Theorems about `O4.Ntor` (model of `common/ntor/ntor.go`, parametric in the primitives), for **all**
primitives satisfying the named hypotheses, and about its concrete instantiation `realPrims`.

* `agree_of_dh_eq`, `agree` — if the two Diffie–Hellman computations commute (`DhComm`), server and
  client compute the same status, KEY_SEED and AUTH.
* `transcript_injective` — the hashed string is an injective function of `(EXP‖EXP, ID, B, X, Y)`
  (fixed-length fields).
* `keyseed_binding`, `auth_binding` — reduction form: changing ID, B, X or Y changes KEY_SEED
  (resp. AUTH), **or** the two explicit, distinct strings exhibited collide under the keyed hash.
  (An "injective MAC" hypothesis would be unsatisfiable, hence this form.)
* `zero_dh_fails_server`, `zero_dh_fails_client`, `status_iff` — an all-zero DH result makes the side
  that computes it report failure, whatever the other result is; and only that does.
* `kdf_prefix`, `kdf_length`, `kdf_deterministic` — `Kdf` (HKDF-SHA256 with salt `t_key`, info
  `m_expand`) is a function, returns exactly `n` bytes and is prefix-consistent for `n ≤ m ≤ 255·32`.
-/
namespace C08
open O4 O4.Ntor O4.Crypto O4.Consts.Ntor

/-! ## hypotheses on the primitives -/

/-- the two DH computations commute (base point `base`) -/
structure DhComm (P : Prims) (base : Bytes) : Prop where
  comm : ∀ a b, P.x25519 a (P.x25519 b base) = P.x25519 b (P.x25519 a base)

/-- the keyed hash has a fixed output length -/
structure HmacLen (P : Prims) : Prop where
  len : ∀ k m, (P.hmac k m).length = 32

/-- a toy instance: "scalar multiplication" multiplies lengths (commutative, like the real one) -/
def toyPrims : Prims where
  hmac := fun k m => (k ++ m ++ List.replicate 32 0).take 32
  x25519 := fun k u => List.replicate (k.length * u.length) 1
  hkdf := fun _ _ _ n => List.replicate n 0

/-- `DhComm` is satisfiable -/
example : DhComm toyPrims [9] := by
  constructor
  intro a b
  show List.replicate (a.length * (List.replicate (b.length * [9].length) 1).length) (1 : UInt8) =
    List.replicate (b.length * (List.replicate (a.length * [9].length) 1).length) 1
  rw [List.length_replicate, List.length_replicate, Nat.mul_left_comm]

/-- `HmacLen` is satisfiable (toy) and holds for the real HMAC-SHA256 -/
example : HmacLen toyPrims := ⟨fun k m => by simp [toyPrims]; omega⟩
theorem hmacLen_real : HmacLen realPrims := ⟨fun k m => hmacSha256_length k m⟩

/-! ## agreement -/

theorem serverHandshake_eq (P : Prims) (X yPriv Y bPriv B id : Bytes) :
    serverHandshake P X yPriv Y bPriv B id =
      (!(isZero (P.x25519 yPriv X)) && !(isZero (P.x25519 bPriv X)),
        ntorCommon P (P.x25519 yPriv X ++ P.x25519 bPriv X) id B X Y) := rfl

theorem clientHandshake_eq (P : Prims) (xPriv X Y B id : Bytes) :
    clientHandshake P xPriv X Y B id =
      (!(isZero (P.x25519 xPriv Y)) && !(isZero (P.x25519 xPriv B)),
        ntorCommon P (P.x25519 xPriv Y ++ P.x25519 xPriv B) id B X Y) := rfl

/-- **agree (from the two DH equalities).** Whatever the primitives and however the public keys
were produced (clean or Elligator-dirty): if `EXP(X,y) = EXP(Y,x)` and `EXP(X,b) = EXP(B,x)`, the two
sides compute identical status, KEY_SEED and AUTH. -/
theorem agree_of_dh_eq (P : Prims) (x X y Y b B id : Bytes)
    (h1 : P.x25519 y X = P.x25519 x Y) (h2 : P.x25519 b X = P.x25519 x B) :
    serverHandshake P X y Y b B id = clientHandshake P x X Y B id := by
  rw [serverHandshake_eq, clientHandshake_eq, h1, h2]

/-- **agree.** Under `DhComm`, for every identity key `b`, node ID and ephemeral keys `x`, `y`. -/
theorem agree (P : Prims) (base : Bytes) (h : DhComm P base) (x y b id : Bytes) :
    serverHandshake P (P.x25519 x base) y (P.x25519 y base) b (P.x25519 b base) id =
      clientHandshake P x (P.x25519 x base) (P.x25519 y base) (P.x25519 b base) id :=
  agree_of_dh_eq P x _ y _ b _ id (h.comm y x) (h.comm b x)

/-! ## the transcript is an injective function of its fields -/

/-- **transcript_injective.** `secret_input = EXP‖EXP ‖ B ‖ B ‖ X ‖ Y ‖ PROTOID ‖ ID` determines
every field, the fields having fixed lengths. -/
theorem transcript_injective (exps exps' id id' b b' x x' y y' : Bytes)
    (he : exps.length = exps'.length) (hb : b.length = b'.length) (hx : x.length = x'.length)
    (hy : y.length = y'.length)
    (h : exps ++ suffix id b x y = exps' ++ suffix id' b' x' y') :
    exps = exps' ∧ id = id' ∧ b = b' ∧ x = x' ∧ y = y' := by
  obtain ⟨h0, hs⟩ := List.append_inj h he
  unfold suffix at hs
  have hl : (b ++ b ++ x ++ y ++ bs protoID).length = (b' ++ b' ++ x' ++ y' ++ bs protoID).length := by
    simp only [List.length_append]; omega
  obtain ⟨h1, hid⟩ := List.append_inj hs hl
  obtain ⟨h2, -⟩ := List.append_inj' h1 rfl
  obtain ⟨h3, hy'⟩ := List.append_inj' h2 hy
  obtain ⟨h4, hx'⟩ := List.append_inj' h3 hx
  obtain ⟨hb', -⟩ := List.append_inj h4 hb
  exact ⟨h0, hid, hb', hx', hy'⟩

-- non-vacuity: two different node IDs give different transcripts of equal length
example : ([1, 2] : Bytes) ++ suffix [7] [3] [4] [5] ≠ [1, 2] ++ suffix [8] [3] [4] [5] := by
  intro h
  have := (transcript_injective [1, 2] [1, 2] [7] [8] [3] [3] [4] [4] [5] [5] rfl rfl rfl rfl h).2.1
  exact absurd this (by decide)

/-- the string hashed for KEY_SEED and `verify` -/
def secretInput (exps id b x y : Bytes) : Bytes := exps ++ suffix id b x y

theorem ntorCommon_fst (P : Prims) (exps id b x y : Bytes) :
    (ntorCommon P exps id b x y).1 = P.hmac (bs tKey) (secretInput exps id b x y) := rfl

/-- the string hashed for AUTH -/
def authInput (P : Prims) (exps id b x y : Bytes) : Bytes :=
  P.hmac (bs tVerify) (secretInput exps id b x y) ++ suffix id b x y ++ bs "Server"

theorem ntorCommon_snd (P : Prims) (exps id b x y : Bytes) :
    (ntorCommon P exps id b x y).2 = P.hmac (bs tMac) (authInput P exps id b x y) := rfl

/-- **keyseed_binding (reduction form).** Two runs whose `(ID, B, X, Y)` differ (fields of equal
lengths, DH results of equal total length): either KEY_SEED differs, or `secretInput …` and
`secretInput …'` are two *distinct* strings with the same HMAC under `t_key` — an explicit collision. -/
theorem keyseed_binding (P : Prims) (exps exps' id id' b b' x x' y y' : Bytes)
    (he : exps.length = exps'.length) (hb : b.length = b'.length) (hx : x.length = x'.length)
    (hy : y.length = y'.length)
    (hne : (id, b, x, y) ≠ (id', b', x', y')) :
    (ntorCommon P exps id b x y).1 ≠ (ntorCommon P exps' id' b' x' y').1 ∨
    (secretInput exps id b x y ≠ secretInput exps' id' b' x' y' ∧
      P.hmac (bs tKey) (secretInput exps id b x y) = P.hmac (bs tKey) (secretInput exps' id' b' x' y')) := by
  by_cases hk : (ntorCommon P exps id b x y).1 = (ntorCommon P exps' id' b' x' y').1
  · right
    refine ⟨?_, by rwa [ntorCommon_fst, ntorCommon_fst] at hk⟩
    intro hs
    obtain ⟨-, h1, h2, h3, h4⟩ := transcript_injective _ _ _ _ _ _ _ _ _ _ he hb hx hy hs
    exact hne (by rw [h1, h2, h3, h4])
  · left; exact hk

/-- **auth_binding (reduction form).** Same for AUTH, for a keyed hash of fixed output length. -/
theorem auth_binding (P : Prims) (hP : HmacLen P) (exps exps' id id' b b' x x' y y' : Bytes)
    (hb : b.length = b'.length) (hx : x.length = x'.length) (hy : y.length = y'.length)
    (hne : (id, b, x, y) ≠ (id', b', x', y')) :
    (ntorCommon P exps id b x y).2 ≠ (ntorCommon P exps' id' b' x' y').2 ∨
    (authInput P exps id b x y ≠ authInput P exps' id' b' x' y' ∧
      P.hmac (bs tMac) (authInput P exps id b x y) = P.hmac (bs tMac) (authInput P exps' id' b' x' y')) := by
  by_cases hk : (ntorCommon P exps id b x y).2 = (ntorCommon P exps' id' b' x' y').2
  · right
    refine ⟨?_, by rwa [ntorCommon_snd, ntorCommon_snd] at hk⟩
    intro hs
    unfold authInput at hs
    obtain ⟨h1, -⟩ := List.append_inj' hs rfl
    have hv : (P.hmac (bs tVerify) (secretInput exps id b x y)).length =
        (P.hmac (bs tVerify) (secretInput exps' id' b' x' y')).length := by
      rw [hP.len, hP.len]
    obtain ⟨-, h1, h2, h3, h4⟩ := transcript_injective _ _ _ _ _ _ _ _ _ _ hv hb hx hy h1
    exact hne (by rw [h1, h2, h3, h4])
  · left; exact hk

/-! ## degenerate keys -/

/-- **zero_dh_fails (server).** If either `EXP(X,y)` or `EXP(X,b)` is all-zero the server reports failure. -/
theorem zero_dh_fails_server (P : Prims) (X y Y b B id : Bytes)
    (h : isZero (P.x25519 y X) = true ∨ isZero (P.x25519 b X) = true) :
    (serverHandshake P X y Y b B id).1 = false := by
  rw [serverHandshake_eq]
  rcases h with h | h <;> simp [h]

/-- **zero_dh_fails (client).** If either `EXP(Y,x)` or `EXP(B,x)` is all-zero the client reports failure. -/
theorem zero_dh_fails_client (P : Prims) (x X Y B id : Bytes)
    (h : isZero (P.x25519 x Y) = true ∨ isZero (P.x25519 x B) = true) :
    (clientHandshake P x X Y B id).1 = false := by
  rw [clientHandshake_eq]
  rcases h with h | h <;> simp [h]

/-- … and nothing else makes the status false. -/
theorem status_iff (P : Prims) (x X y Y b B id : Bytes) :
    ((serverHandshake P X y Y b B id).1 = true ↔
      (isZero (P.x25519 y X) = false ∧ isZero (P.x25519 b X) = false)) ∧
    ((clientHandshake P x X Y B id).1 = true ↔
      (isZero (P.x25519 x Y) = false ∧ isZero (P.x25519 x B) = false)) := by
  rw [serverHandshake_eq, clientHandshake_eq]
  simp

/-- `constantTimeIsZero` is exactly "every byte is 0" -/
theorem isZero_iff (b : Bytes) : isZero b = true ↔ b = List.replicate b.length 0 := by
  unfold isZero
  induction b with
  | nil => simp
  | cons x t ih => simp [List.replicate_succ, ih]

-- non-vacuity: the real ladder returns all-zero bytes on the low-order point u = 0, for this key
example : isZero (realPrims.x25519 (List.replicate 32 7) (List.replicate 32 0)) = true := by
  decide +kernel

/-! ## key derivation -/

/-- **kdf_prefix.** `Kdf(s, n)` is the `n`-byte prefix of `Kdf(s, m)` for `n ≤ m ≤ 255·32`. -/
theorem kdf_prefix (s : Bytes) (n m : Nat) (hnm : n ≤ m) (hm : m ≤ 255 * 32) :
    kdf realPrims s n = (kdf realPrims s m).take n := by
  unfold kdf realPrims hkdf
  exact (hkdfExpand_take _ _ n m hnm hm).symm

/-- `Kdf` returns exactly the requested number of bytes (up to the HKDF limit, past which the Go
function panics and `kdfReal` is `none`). -/
theorem kdf_length (s : Bytes) (n : Nat) (hn : n ≤ 255 * 32) : (kdf realPrims s n).length = n := by
  unfold kdf realPrims hkdf
  exact hkdfExpand_length _ _ n hn

theorem kdfReal_some (s : Bytes) (n : Nat) : (kdfReal s n).isSome = true ↔ n ≤ 255 * 32 := by
  unfold kdfReal hkdfMax; split <;> simp [*]

/-- **kdf_deterministic.** The derivation is a function of the seed and the length (true of any Lean
definition; stated so that the obligation is explicit — the Go side is checked by repetition). -/
theorem kdf_deterministic (P : Prims) (s s' : Bytes) (n n' : Nat) (hs : s = s') (hn : n = n') :
    kdf P s n = kdf P s' n' := by rw [hs, hn]


/-- **structural fact, regenerated from the Go source on every run (go/ast)**: every package-level
    variable (file-scope `var`) of the packages this property's mechanisms live in
    (common/ntor, internal/x25519ell2) is one of the names below — error values, fixed byte strings,
    flags and function hooks that the code only reads after initialisation.  The models treat all
    other state as owned by one connection / one object; a NEW package-level variable (a cache, a
    pool, a scratch buffer, a pre-keyed hash shared "to save allocations") is how such state comes
    to be shared between connections and goroutines, which compiles, passes the tests and typically
    needs true parallelism or a multi-connection history to misbehave.  Adding one breaks this
    theorem; the concurrent / multi-connection families of the harness then search for the failing
    schedule. -/
theorem no_new_package_level_state :
    O4.Facts.Ntor.pkg_vars ⊆ ["mExpand", "protoID", "tKey", "tMac", "tVerify"] ∧
    O4.Facts.X25519ell2.pkg_vars ⊆ ["feA", "feLopX", "feLopY", "feNegTwo", "feOne", "feSqrtM1"] := by
  decide

end C08
