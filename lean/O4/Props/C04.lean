import O4.Lemmas.ServerAccept
import O4.Props.C03
import O4.Generated.Facts.Replayfilter
import O4.Generated.Facts.Obfs4
/-!
# C04 — obfs4 accepts each client handshake once, within ±1 hour of the server clock

Property theorems only.  Model: `serverAccept` / `runHistory` of `O4/Model/Obfs4Server.lean` (the server
factory = replay filter + clock; a thin wrapper of `Handshake.parseClientHandshake` on a complete
buffer) and the `WrapConn` machine of C03; replay filter: `O4/Model/ReplayFilter.lean` (C11); helper
lemmas: `O4/Lemmas/ServerAccept.lean`, `O4/Lemmas/ReplayFilter.lean`.

Claims that rest on the truncated HMAC separating two inputs are in **reduction form**
(DESIGN §1.1): "…, or these two explicit, distinct byte strings collide under the keyed hash"
(`MacCollision`).  No injectivity hypothesis is made (it would be unsatisfiable).  The only hypothesis
on the primitives is `HmacLong` (an HMAC output is at least as long as the 16-byte truncations taken
from it), satisfied by HMAC-SHA256 and by the toy instance of the examples.
-/
namespace C04
open O4 O4.Obfs4Server O4.Handshake O4.RF O4.Consts.Obfs4

/-- **decimal rendering of the epoch hour is injective**, so MAC inputs for different hours differ -/
theorem epoch_rendering_injective (a b : Int) (h : epochStr a = epochStr b) : a = b :=
  epochStr_injective a b h

/-- **hour window** (reduction form).  A client handshake MACed with hour `h` that the server accepts
    at its hour `H` either has `h ∈ {H−1, H, H+1}` **and** the hour stored for the reply MAC
    (`hs.epochHour`, echoed into `MAC_S`) is the *client's* `h` — or the two distinct MAC inputs
    `body ‖ repr(h)` and `body ‖ repr(h')`, for an hour `h' ≠ h` of the window, collide under the
    truncated HMAC (exhibited explicitly). -/
theorem hour_window (P : Prims) (hl : HmacLong P) (s s' : Server) (f f' : Filter) (H now : Int)
    (repr pad seed : Bytes) (h : Int)
    (hacc : parseClientHandshake P s f H now (clientBlob P s.idPub s.nodeID repr pad h) = (s', f', .ok seed)) :
    ((h = H ∨ h = H - 1 ∨ h = H + 1) ∧ s'.hour = some h) ∨
    ∃ h', (h' = H ∨ h' = H - 1 ∨ h' = H + 1) ∧ h' ≠ h ∧
      MacCollision P (macKey s.idPub s.nodeID)
        (clientBody P s.idPub s.nodeID repr pad ++ epochStr h)
        (clientBody P s.idPub s.nodeID repr pad ++ epochStr h') := by
  obtain ⟨pos, _, hlen, off, ho, hmac, hhour⟩ := parse_ok_hour P s s' f f' H now _ seed hacc
  obtain ⟨hb, hm⟩ := clientBlob_parts P hl s.idPub s.nodeID repr pad h pos hlen
  rw [hb, hm] at hmac
  have hoff : off = 0 ∨ off = -1 ∨ off = 1 := by
    simpa only [List.mem_cons, List.not_mem_nil, or_false] using ho
  by_cases heq : H + off = h
  · left
    exact ⟨by omega, by rw [hhour, heq]⟩
  · right
    exact ⟨H + off, by omega, heq, collision_of_mac_eq P _ _ _ _ _ (Ne.symm heq) hmac.symm⟩

/-- one hour in ns (`time.Hour`) -/
def nsPerHour : Int := 3600 * 1000000000

/-- **TTL ≥ window** — the arithmetic fact, against the **regenerated** `replayTTL`: two clock readings
    at least `replayTTL` apart have epoch hours whose ±1 windows are disjoint.  (With `replayTTL = 1 h`
    this is false and the file no longer compiles.) -/
theorem ttl_covers_window (c ta tb : Int) (hfar : (replayTTL : Int) ≤ tb - ta) :
    (ta + c) / nsPerHour + 1 < (tb + c) / nsPerHour - 1 := by
  simp only [replayTTL, nsPerHour] at *
  omega

private theorem off_range {off : Int} (h : off ∈ ([0, -1, 1] : List Int)) : -1 ≤ off ∧ off ≤ 1 := by
  simp only [List.mem_cons, List.not_mem_nil, or_false] at h
  omega

/-- **at most once, ever** (reduction form).  For every history of submissions against one server
    factory — any initial filter state that is well-formed (`WF`: sorted insertion times, none in the
    future, TTL = `replayTTL`), a clock that never runs backwards (`MonotoneFrom`), room in the filter at
    every submission (`Below`: fewer than `cap − 1` remembered entries), wall-clock hours and the
    monotonic clock advancing together (`hour = (now + c) / 1 h` at the two submissions) — if the
    byte-identical handshake is submitted at `a` and again, after any history `mid`, at `b`, and
    **both are accepted**, then two *different* hours give the same truncated MAC over the same body:
    an explicit collision.  Proof: within the TTL the entry inserted at `a` is still remembered
    (TTL exactness of the filter under a monotone clock below capacity — the lemmas behind
    `C11.exact_ttl`), so `b` is a hit; beyond the TTL the windows of the two clock hours are disjoint
    (`ttl_covers_window`). -/
theorem at_most_once (P : Prims) (F : Factory) (f0 : Filter) (t0 : Int)
    (pre mid : List Submission) (a b : Submission)
    (hwf : WF f0 t0) (httl : f0.ttl = (replayTTL : Int))
    (hmono : MonotoneFrom t0 (pre ++ a :: (mid ++ [b])))
    (hroom : Below P F f0 (pre ++ a :: (mid ++ [b])))
    (c : Int) (hca : a.hour = (a.now + c) / nsPerHour) (hcb : b.hour = (b.now + c) / nsPerHour)
    (hblob : a.blob = b.blob) :
    let f1 := (runHistory P F f0 pre).1
    let ra := serverAccept P F a.conn f1 a.blob a.hour a.now
    let f2 := (runHistory P F ra.1 mid).1
    let rb := serverAccept P F b.conn f2 b.blob b.hour b.now
    ∀ sa ha sb hb, ra.2 = .accepted sa ha → rb.2 = .accepted sb hb →
      ∃ pos h1 h2, h1 ≠ h2 ∧
        MacCollision P (macKey F.idPub F.nodeID) (bodyAt a.blob pos ++ epochStr h1) (bodyAt a.blob pos ++ epochStr h2) := by
  intro f1 ra f2 rb sa ha sb hb hacca haccb
  have ⟨hm_pre, hm_rest⟩ := hmono.append
  have ⟨hb_pre, hb_rest⟩ := hroom.append
  have hk1 := history_keeps P F pre f0 t0 hwf hm_pre hb_pre
  simp only [MonotoneFrom] at hm_rest
  simp only [Below] at hb_rest
  have ⟨hm_mid, hm_b⟩ := hm_rest.2.append
  have ⟨hb_mid, hb_b⟩ := hb_rest.2.append
  simp only [MonotoneFrom] at hm_b
  simp only [Below] at hb_b
  have hA := serverAccept_filter P F a.conn f1 a.blob a.hour a.now (hk1.2.1.mono hm_rest.1) hb_rest.1
  simp only at hA
  obtain ⟨a1, _, a3, _, a5⟩ := hA
  obtain ⟨pos, ap1, _, ap3, _, offa, hoa, amac, _⟩ := a5 sa ha hacca
  have hk2 := history_keeps P F mid ra.1 a.now a3 hm_mid hb_mid
  have hB := serverAccept_filter P F b.conn f2 b.blob b.hour b.now (hk2.2.1.mono hm_b.1) hb_b.1
  simp only at hB
  obtain ⟨_, _, _, _, b5⟩ := hB
  obtain ⟨pos', bp1, _, _, bny, offb, hob, bmac, _⟩ := b5 sb hb haccb
  have hpos : pos' = pos := by
    rw [← hblob, markPos_fresh P F b.conn a.conn, ap1] at bp1
    exact (Option.some.inj bp1).symm
  subst hpos
  rw [← hblob] at bny bmac
  have httl2 : f2.ttl = (replayTTL : Int) := by rw [hk2.1, a1, hk1.1, httl]
  by_cases hnear : b.now - a.now < (replayTTL : Int)
  · exfalso
    apply bny
    have hle := hm_b.1
    have hin := hk2.2.2 _ ap3 (by rw [a1, hk1.1, httl]; simp only; omega)
    exact ⟨_, hin, rfl, by rw [httl2]; exact hnear⟩
  · have hw := ttl_covers_window c a.now b.now (by omega)
    have ra' := off_range hoa
    have rb' := off_range hob
    refine ⟨pos', a.hour + offa, b.hour + offb, by rw [hca, hcb]; omega, ?_⟩
    exact collision_of_mac_eq P F.idPub F.nodeID _ _ _ (by rw [hca, hcb]; omega) (by rw [amac, bmac])

/-- the same, read off the outcome list of the whole history (positions `|pre|` and `|pre|+1+|mid|`) -/
theorem at_most_once_outcomes (P : Prims) (F : Factory) (f0 : Filter) (t0 : Int)
    (pre mid : List Submission) (a b : Submission)
    (hwf : WF f0 t0) (httl : f0.ttl = (replayTTL : Int))
    (hmono : MonotoneFrom t0 (pre ++ a :: (mid ++ [b])))
    (hroom : Below P F f0 (pre ++ a :: (mid ++ [b])))
    (c : Int) (hca : a.hour = (a.now + c) / nsPerHour) (hcb : b.hour = (b.now + c) / nsPerHour)
    (hblob : a.blob = b.blob) (sa sb : Bytes) (ha hb : Option Int)
    (hia : (runHistory P F f0 (pre ++ a :: (mid ++ [b]))).2[pre.length]? = some (.accepted sa ha))
    (hib : (runHistory P F f0 (pre ++ a :: (mid ++ [b]))).2[pre.length + 1 + mid.length]? = some (.accepted sb hb)) :
    ∃ pos h1 h2, h1 ≠ h2 ∧
      MacCollision P (macKey F.idPub F.nodeID) (bodyAt a.blob pos ++ epochStr h1) (bodyAt a.blob pos ++ epochStr h2) := by
  have key := at_most_once P F f0 t0 pre mid a b hwf httl hmono hroom c hca hcb hblob
  simp only at key
  rw [runHistory_append] at hia hib
  simp only at hia hib
  have hlp := runHistory_length P F f0 pre
  rw [List.getElem?_append_right (by omega)] at hia hib
  rw [hlp] at hia hib
  simp only [Nat.sub_self, runHistory_cons, List.getElem?_cons_zero, Option.some.injEq] at hia
  rw [show pre.length + 1 + mid.length - pre.length = mid.length + 1 by omega] at hib
  simp only [runHistory_cons, List.getElem?_cons_succ] at hib
  rw [runHistory_append] at hib
  simp only at hib
  have hlm := runHistory_length P F (serverAccept P F a.conn (runHistory P F f0 pre).1 a.blob a.hour a.now).1 mid
  rw [List.getElem?_append_right (by omega), hlm] at hib
  simp only [Nat.sub_self, runHistory_cons, List.getElem?_cons_zero, Option.some.injEq] at hib
  exact key sa ha sb hb hia hib

/-- **a replay is invalid — and takes exactly the failure path of C03.**  A handshake whose MAC has a
    young entry in the replay filter (it was accepted — or at least MAC-validated — less than a TTL
    ago), delivered in one read to a fresh connection, is rejected with a *fatal* error (`replayed`
    while some hour of the window still matches, `invalidHandshake` once the hour has moved on), and
    everything the peer can observe (`wire`: deadlines, writes, close) is **identical** to what it
    observes for any other input `junk` the parser rejects for good at the same moment: no write,
    the same `SetReadDeadline(start + 30 s + closeDelay)`. -/
theorem replay_is_invalid (P : Prims) (F : Factory) (c : Conn) (f : Filter) (H now : Int) (blob : Bytes) (pos : Nat)
    (hw : WF f now) (hroom : f.fifo.length + 1 < f.cap)
    (hlen : clientMinHandshakeLength ≤ blob.length) (hmax : blob.length ≤ maxHandshakeLength)
    (hpos : markPos P (newServer F c) blob = some pos)
    (hseen : Young f now (digestAt blob pos)) :
    ((parseClientHandshake P (newServer F c) f H now blob).2.2 = .err .replayed ∨
      (parseClientHandshake P (newServer F c) f H now blob).2.2 = .err .invalidHandshake) ∧
    (∀ b, Out.write b ∉ (run P F c f [⟨now, H, .recv blob⟩]).2) ∧
    (∀ (junk : Bytes) (hs' : Server) (f' : Filter) (er : HsErr), junk.length ≤ maxHandshakeLength →
      parseClientHandshake P (newServer F c) f H now junk = (hs', f', .err er) → er ≠ .markNotFoundYet →
      wire (run P F c f [⟨now, H, .recv blob⟩]).2 = wire (run P F c f [⟨now, H, .recv junk⟩]).2) := by
  have hps := parse_seen P (newServer F c) f H now blob pos hw hroom hlen hpos hseen
  rcases hq : parseClientHandshake P (newServer F c) f H now blob with ⟨hs1, f1, res⟩
  rw [hq] at hps
  simp only at hps
  have hres : ∃ er, res = .err er ∧ er ≠ .markNotFoundYet := by
    rcases hps with h | h
    · exact ⟨_, h, by simp⟩
    · exact ⟨_, h, by simp⟩
  obtain ⟨er1, rfl, hne1⟩ := hres
  have hrun := run_single_fatal P F c f H now blob hs1 f1 er1 hmax hq hne1
  refine ⟨hps, ?_, ?_⟩
  · intro b hb
    rw [hrun] at hb
    simp only [initOuts, List.mem_append, List.mem_singleton] at hb
    rcases hb with hb | hb
    · simp at hb
    · unfold fail at hb
      simp only at hb
      split at hb
      · simp at hb
      · split at hb <;> simp at hb
  · intro junk hs' f' er hjl hjp hjne
    rw [hrun, run_single_fatal P F c f H now junk hs' f' er hjl hjp hjne]
    simp only [wire, List.filter_append]
    congr 1
    exact fail_wire_uniform F c now _ _ false

/-- **fresh handshakes keep being accepted** (reduction form).  If a buffer is accepted against *some*
    filter state, it is accepted — with the same key seed — against *every* filter state `g` that does
    not hold its MAC, whatever else `g` holds and however full it is (at capacity the oldest entry is
    evicted to make room); unless two different hours of the window give the same truncated MAC (then
    the second match finds the entry the first one just made: explicit collision). -/
theorem fresh_still_accepted (P : Prims) (s : Server) (f g : Filter) (H now : Int) (resp seed : Bytes) (pos : Nat)
    (hacc : (parseClientHandshake P s f H now resp).2.2 = .ok seed)
    (hpos : markPos P s resp = some pos)
    (hfresh : ∀ e ∈ g.fifo, e.d ≠ Bytes.toNatBE (macAt resp pos)) :
    (parseClientHandshake P s g H now resp).2.2 = .ok seed ∨
    ∃ h1 h2, (h1 = H ∨ h1 = H - 1 ∨ h1 = H + 1) ∧ (h2 = H ∨ h2 = H - 1 ∨ h2 = H + 1) ∧ h1 ≠ h2 ∧
      MacCollision P (macKey s.idPub s.nodeID) (bodyAt resp pos ++ epochStr h1) (bodyAt resp pos ++ epochStr h2) := by
  have hA : Accepts P s f H now resp := (accepts_iff P s f H now resp).mp ⟨seed, hacc⟩
  obtain ⟨hlen, pos', hp', hvalid, _, htr, hnt⟩ := hA
  rw [hpos] at hp'
  have : pos' = pos := (Option.some.inj hp').symm
  subst this
  rcases macLoop_fresh P (withCache P s resp) (bodyAt resp pos') (macAt resp pos') H now g hfresh hvalid with hnr | hcol
  · left
    have hG : Accepts P s g H now resp := ⟨hlen, pos', hpos, hvalid, hnr, htr, hnt⟩
    obtain ⟨seed', hs'⟩ := (accepts_iff P s g H now resp).mpr hG
    rw [hs', parse_ok_seed P s g H now resp seed' hs', ← parse_ok_seed P s f H now resp seed hacc]
  · right
    obtain ⟨o1, ho1, o2, ho2, hne, heq⟩ := hcol
    have r1 : o1 = 0 ∨ o1 = -1 ∨ o1 = 1 := by simpa only [List.mem_cons, List.not_mem_nil, or_false] using ho1
    have r2 : o2 = 0 ∨ o2 = -1 ∨ o2 = 1 := by simpa only [List.mem_cons, List.not_mem_nil, or_false] using ho2
    exact ⟨H + o1, H + o2, by omega, by omega, by omega,
      collision_of_mac_eq P s.idPub s.nodeID _ _ _ (by omega) heq⟩

/-- **the expiry of OLDER entries never makes a younger, unexpired handshake acceptable again.**
    Take any well-formed filter state holding an entry `e` (the MAC of a handshake accepted at `e.t`)
    next to arbitrarily many older entries, and run any history `x` of submissions (monotone clock, room
    at every step) during which those older entries may reach the TTL and be purged: as long as `e`
    itself is younger than the TTL at the resubmission (`now - e.t < ttl`), a byte-identical
    resubmission of its handshake is rejected (`replayed`, or `invalidHandshake` once its hour left
    the window) — the purge is entry by entry, oldest first, and stops at the first young entry
    (the TTL exactness behind `C11.exact_ttl`, in C04's terms). -/
theorem older_expiry_keeps_younger (P : Prims) (F : Factory) (f : Filter) (t : Int) (x : List Submission)
    (hw : WF f t) (hm : MonotoneFrom t x) (hb : Below P F f x)
    (e : Entry) (he : e ∈ f.fifo)
    (c : Conn) (H now : Int) (blob : Bytes) (pos : Nat)
    (hnow : lastNow t x ≤ now) (hyoung : now - e.t < f.ttl)
    (hroom : (runHistory P F f x).1.fifo.length + 1 < (runHistory P F f x).1.cap)
    (hlen : clientMinHandshakeLength ≤ blob.length)
    (hpos : markPos P (newServer F c) blob = some pos) (hd : e.d = digestAt blob pos) :
    (parseClientHandshake P (newServer F c) (runHistory P F f x).1 H now blob).2.2 = .err .replayed ∨
    (parseClientHandshake P (newServer F c) (runHistory P F f x).1 H now blob).2.2 = .err .invalidHandshake := by
  have hk := history_keeps P F x f t hw hm hb
  have hin := hk.2.2 e he (by omega)
  exact parse_seen P (newServer F c) _ H now blob pos (hk.2.1.mono hnow) hroom hlen hpos
    ⟨e, hin, hd, by rw [hk.1]; exact hyoung⟩

/-! ## Non-vacuity (toy primitives of `C03`, evaluated by the kernel) -/

open C03 in
/-- the toy hash is long enough -/
example : HmacLong toyPrims := by
  intro k m; simp [toyPrims, toyHmac, markLength, macLength]

/-- the toy blob for hour 500000 is accepted at server hours 499999, 500000, 500001 with the CLIENT's
    hour stored for the reply, and rejected at 500002 / 499998 -/
example : ((List.map (fun H => (serverAccept C03.toyPrims C03.toyF C03.toyC newFilter C03.toyBlob H 2000).2)
      [499998, 499999, 500000, 500001, 500002]).map (fun o => match o with
        | .accepted _ h => h
        | .rejected _ => none))
    = [none, some 500000, some 500000, some 500000, none] := by
  decide +kernel

/-- a history: fresh → accepted, byte-identical replay one second later → `replayed`, another fresh
    handshake → accepted, replay after 3 h 1 s (filter entry expired, hour window long gone) → rejected -/
example :
    let blob2 := clientBlob C03.toyPrims [2] [3] (List.replicate 32 8) (List.replicate 77 1) 500001
    let s (blob : Bytes) (hour now : Int) : Submission := ⟨C03.toyC, blob, hour, now⟩
    ((runHistory C03.toyPrims C03.toyF newFilter
        [s C03.toyBlob 500000 0, s C03.toyBlob 500000 1000000000, s blob2 500000 2000000000,
         s C03.toyBlob 500003 10801000000000]).2.map (fun o => match o with
        | .accepted _ _ => "accepted"
        | .rejected .replayed => "replayed"
        | .rejected .invalidHandshake => "invalid"
        | .rejected _ => "other"))
      = ["accepted", "replayed", "accepted", "invalid"] := by
  decide +kernel

/-- the hypotheses of `at_most_once` are met by such a history -/
example : WF newFilter 0 ∧ newFilter.ttl = (replayTTL : Int) ∧
    MonotoneFrom 0 ([] ++ (⟨C03.toyC, C03.toyBlob, 500000, 0⟩ : Submission) ::
      ([] ++ [(⟨C03.toyC, C03.toyBlob, 500000, 1000000000⟩ : Submission)])) ∧
    (500000 : Int) = (0 + 500000 * nsPerHour) / nsPerHour := by
  refine ⟨⟨by simp [newFilter, Filter.new, Sorted], by simp [newFilter, Filter.new], by decide⟩, rfl, by simp [MonotoneFrom], by decide⟩

/-- **structural facts, regenerated from the Go source on every run (go/ast call sets)**: the
    replay filter is consulted inside `parseClientHandshake` through `filter.TestAndSetNow`, which
    takes the filter's mutex (`Lock(); defer Unlock()`, only the immutable SipHash key touched
    before) and reads the clock (`time.Now`) **itself, under that lock** — so the times the filter
    sees are in lock order and concurrent handshakes can never present out-of-order readings
    (the defect `concurrent-replay-on-empty-filter` of the original tree, where the caller read
    `time.Now()` before the lock was taken); the epoch hour (`getEpochHour`) is read in
    `parseClientHandshake` too — at the time of the submission, as the model assumes — not when
    the connection was accepted (`newServerHandshake` reads no clock). -/
theorem filter_clock_read_at_submission :
    "filter.TestAndSetNow" ∈ O4.Facts.Obfs4.serverHandshake_parseClientHandshake_calls ∧
    "filter.TestAndSet" ∉ O4.Facts.Obfs4.serverHandshake_parseClientHandshake_calls ∧
    "getEpochHour" ∈ O4.Facts.Obfs4.serverHandshake_parseClientHandshake_calls ∧
    "time.Now" ∉ O4.Facts.Obfs4.func_newServerHandshake_calls ∧
    "getEpochHour" ∉ O4.Facts.Obfs4.func_newServerHandshake_calls ∧
    "getEpochHour" ∉ O4.Facts.Obfs4.serverHandshake_generateHandshake_calls ∧
    O4.Facts.Replayfilter.ReplayFilter_TestAndSetNow_locked = true ∧
    O4.Facts.Replayfilter.ReplayFilter_TestAndSetNow_prelock ⊆ ["key"] ∧
    "time.Now" ∉ O4.Facts.Replayfilter.ReplayFilter_TestAndSetNow_prelock_calls ∧
    "time.Now" ∈ O4.Facts.Replayfilter.ReplayFilter_TestAndSetNow_calls ∧
    "f.testAndSet" ∈ O4.Facts.Replayfilter.ReplayFilter_TestAndSetNow_calls ∧
    O4.Facts.Replayfilter.ReplayFilter_testAndSet_fields ⊆ O4.Facts.Replayfilter.ReplayFilter_TestAndSetNow_fields := by
  decide


/-- **structural fact, regenerated from the Go source on every run (go/ast)**: every package-level
    variable (file-scope `var`) of the packages this property's mechanisms live in
    (transports/obfs4, common/replayfilter) is one of the names below — error values, fixed byte strings,
    flags and function hooks that the code only reads after initialisation.  The models treat all
    other state as owned by one connection / one object; a NEW package-level variable (a cache, a
    pool, a scratch buffer, a pre-keyed hash shared "to save allocations") is how such state comes
    to be shared between connections and goroutines, which compiles, passes the tests and typically
    needs true parallelism or a multi-connection history to misbehave.  Adding one breaks this
    theorem; the concurrent / multi-connection families of the harness then search for the failing
    schedule. -/
theorem no_new_package_level_state :
    O4.Facts.Obfs4.pkg_vars ⊆ ["ErrInvalidHandshake", "ErrMarkNotFoundYet", "ErrNtorFailed", "ErrReplayedHandshake", "biasedDist", "zeroPadBytes"] ∧
    O4.Facts.Replayfilter.pkg_vars ⊆ [] := by
  decide

end C04
