import O4.Lemmas.ScrambleSuit
import O4.Generated.Facts.Scramblesuit
/-!
# C15 — ScrambleSuit client: handshake, stream and tickets work for every segmentation

Property theorems only (model: `O4/Model/ScrambleSuit.lean`, helper lemmas:
`O4/Lemmas/ScrambleSuit.lean`).  All constants are the ones regenerated from the Go tree.
Cryptography is abstract (`Prims`); hypotheses on it are explicit and shown satisfiable by the
`example`s (toy primitives), MAC claims are in reduction form with explicit witnesses.
-/
namespace C15
open O4 O4.SS O4.Consts.Scramblesuit

/-! ## toy primitives for the non-vacuity examples -/

/-- a "MAC" that only depends on the lengths (enough to exhibit the hypotheses) -/
def toyPrims : Prims :=
  { hmac := fun k m => List.replicate 32 (UInt8.ofNat (k.length + m.length))
    sha256 := fun m => m.take 32
    hkdfExpand := fun prk n => List.replicate n (prk.getD 0 0)
    ctrXor := fun _ _ off d => d.zipIdx.map (fun (x, i) => x ^^^ UInt8.ofNat (off + i))
    dhPublic := fun p => some p
    dhShared := fun _ q => some q }

theorem toy_macLen : MacLen toyPrims := by
  intro k m; simp [mac128, toyPrims]; decide

/-! ## the UniformDH response parser -/

/-- **Stable re-parser.** For a conforming server stream (response with any padding length
`0 … dhMaxPadLength`, followed by any surplus `T`) and EVERY way `cs` of cutting it into
segments, the client's read loop completes with the seed derived from its Diffie-Hellman
result, leaves exactly the surplus (what is in `receiveBuffer` plus the segments not read yet
is `T`), and never reads past the segment in which the response ended. -/
theorem response_any_split (P : Prims) (kB priv pubX cpad Y pad T ss : Bytes) (hour : Int)
    (c : Conf P kB priv (epochHourBytes hour) Y pad T ss) (cs : List Bytes)
    (hcs : cs.flatten = serverResponse P kB Y pad hour ++ T) :
    ∃ rest unread,
      dhLoop P true ((DhHs.new kB priv pubX).generate P cpad hour).1 [] cs = .done (P.sha256 ss) rest unread ∧
      rest ++ unread.flatten = T ∧ unread <:+ cs := by
  have hpos : ([] : Bytes).length < (respOf P kB (epochHourBytes hour) Y pad).length := by
    rw [respOf_length c.macLen]; have := c_mac_pos; simp only [List.length_nil]; omega
  exact dhLoop_conforming c cs [] _ ⟨rfl, rfl, rfl, Or.inl rfl⟩ (by simpa [serverResponse_eq] using hcs) hpos

/-- the hypotheses of `response_any_split` are satisfiable: a 3-byte padding, 5 surplus bytes -/
example : Conf toyPrims (List.replicate 20 1) [9] (epochHourBytes 480000) (List.replicate 192 0) [0, 0, 0]
    [1, 2, 3, 4, 5] (List.replicate 192 0) :=
  { macLen := toy_macLen, hY := by rfl, hpad := by decide, hfirst := by decide +kernel, hss := rfl }

/-- both ends derive the same master secret when the Diffie-Hellman function commutes
    (`X^y = Y^x`), hence (`serverKeys`) mirrored session keys -/
theorem seeds_agree (P : Prims) (priv pubX spriv Y ss : Bytes)
    (hcomm : P.dhShared spriv pubX = P.dhShared priv Y) (hss : P.dhShared priv Y = some ss) :
    (P.dhShared spriv pubX).map P.sha256 = some (P.sha256 ss) ∧
    ∀ seed, serverKeys P seed = ((initCrypto P seed).2, (initCrypto P seed).1) := by
  refine ⟨by rw [hcomm, hss]; rfl, fun seed => rfl⟩

/-- **F3, the code before the repair.** With the length test `len(resp) < pos + 2*macLength`
(no `uniformdh.Size`), a first segment that ends inside the trailing MAC of a conforming response
makes the parser slice beyond the received bytes: for EVERY conforming stream and every cut in
the last `macLength` bytes (at or after `minHandshakeLength`) the client panics instead of
waiting. So `response_any_split` is false of that code. -/
theorem split_counterexample (P : Prims) (kB priv pubX cpad Y pad T ss : Bytes) (hour : Int)
    (c : Conf P kB priv (epochHourBytes hour) Y pad T ss) (k : Nat)
    (hmin : minHandshakeLength ≤ k)
    (hin : (serverResponse P kB Y pad hour).length - macLength ≤ k)
    (hlt : k < (serverResponse P kB Y pad hour).length) :
    dhLoop P false ((DhHs.new kB priv pubX).generate P cpad hour).1 []
      [(serverResponse P kB Y pad hour ++ T).take k, (serverResponse P kB Y pad hour ++ T).drop k] = .panic := by
  rw [serverResponse_eq] at *
  have hk : k ≤ (respOf P kB (epochHourBytes hour) Y pad ++ T).length := by
    rw [List.length_append]; omega
  have hl : ((respOf P kB (epochHourBytes hour) Y pad ++ T).take k).length = k := by
    rw [List.length_take]; omega
  obtain ⟨hs', hc, hi'⟩ := cache_prefix c (hs := ((DhHs.new kB priv pubX).generate P cpad hour).1)
    ⟨rfl, rfl, rfl, Or.inl rfl⟩ k hmin hk
  have hp := parseTail_prefix_panics c hi' k hk hmin hin hlt
  simp only [dhLoop, List.nil_append, DhHs.parse, hl, if_neg (Nat.not_lt.mpr hmin), hc, hp]

/-- the counterexample is not vacuous: padding 3, first segment = all but the last byte -/
example : (serverResponse toyPrims (List.replicate 20 1) (List.replicate 192 0) [0, 0, 0] 480000).length = 227 ∧
    minHandshakeLength ≤ 226 := by
  constructor
  · decide +kernel
  · decide

/-! ## no panic, bounded buffer (needed by C10) -/

/-- **No panic.** The repaired parser never slices out of bounds: for every state and EVERY
input (conforming or not) the outcome is not `panic`. -/
theorem no_panic_response (P : Prims) (hs : DhHs) (resp : Bytes) :
    (hs.parse P true resp).2 ≠ .panic := by
  have h1 := c_min
  have h2 := c_mac_le
  unfold DhHs.parse
  split
  · simp
  · rename_i hlen
    have hd : dhSize ≤ resp.length := by omega
    cases hc : hs.cache P resp with
    | none =>
      exfalso
      unfold DhHs.cache at hc
      split at hc
      · simp at hc
      · rw [slice?_eq (Nat.zero_le _) hd] at hc
        simp at hc
    | some r =>
      obtain ⟨hs', y⟩ := r
      exact parseTail_no_panic P hs' y resp (by omega)

/-! ## padding arithmetic of `padBurst` -/

/-- wire bytes a list of padding packets adds to the burst -/
def padWire (ps : List Int) : Int := (ps.map (· + (pktOverhead : Int))).sum

/-- the `padLen` of `padBurst`: at least one packet overhead, less than one segment more, and it
    brings the burst to the sampled length modulo the segment size -/
theorem padLen_spec (b s : Nat) (hs : s ≤ maxSegmentLength) :
    (pktOverhead : Int) ≤ padBurstPadLen b s ∧ padBurstPadLen b s < (pktOverhead : Int) + maxSegmentLength ∧
    ((b : Int) + padBurstPadLen b s) % (maxSegmentLength : Int) = (s : Int) % (maxSegmentLength : Int) := by
  simp only [padBurstPadLen, maxSegmentLength, pktOverhead] at *
  by_cases h1 : (s : Int) ≥ ((b % 1448 : Nat) : Int)
  · simp only [h1, ↓reduceIte]
    by_cases h2 : (s : Int) - ((b % 1448 : Nat) : Int) < ((21 : Nat) : Int)
    · simp only [h2, ↓reduceIte]; omega
    · simp only [h2, ↓reduceIte]; omega
  · simp only [h1, ↓reduceIte]
    by_cases h2 : ((1448 : Nat) : Int) - ((b % 1448 : Nat) : Int) + (s : Int) < ((21 : Nat) : Int)
    · simp only [h2, ↓reduceIte]; omega
    · simp only [h2, ↓reduceIte]; omega

/-- **padBurst arithmetic** for every burst length and every sampled length up to a segment:
every padding packet gets a padding length in `[0, maxPayloadLength]` (so `makePayloadPacket`
neither panics nor slices `zeroPadBytes` out of range); one packet is appended and the burst
then ends exactly on the sampled length modulo the segment size — or two packets are appended
(when more than a segment of padding is needed) and the burst ends `pktOverhead` bytes short
of it, because the code subtracts the header of the second packet twice
(`padLen-(700+2*pktOverhead)`).  That shortfall concerns traffic shaping only; no byte of
payload depends on it. -/
theorem padburst (burstLen sampleLen : Nat) (hs : sampleLen ≤ maxSegmentLength) :
    (∀ p ∈ padBurstLens burstLen sampleLen, 0 ≤ p ∧ p ≤ (maxPayloadLength : Int)) ∧
    ((padBurstLens burstLen sampleLen).length = 1 ∧
        ((burstLen : Int) + padWire (padBurstLens burstLen sampleLen)) % (maxSegmentLength : Int)
          = (sampleLen : Int) % (maxSegmentLength : Int)
     ∨ (padBurstLens burstLen sampleLen).length = 2 ∧
        ((burstLen : Int) + padWire (padBurstLens burstLen sampleLen) + (pktOverhead : Int)) % (maxSegmentLength : Int)
          = (sampleLen : Int) % (maxSegmentLength : Int)) := by
  obtain ⟨h1, h2, h3⟩ := padLen_spec burstLen sampleLen hs
  unfold padBurstLens
  generalize padBurstPadLen burstLen sampleLen = p at h1 h2 h3
  simp only [maxSegmentLength, pktOverhead, maxPayloadLength, padWire] at *
  have h0 : ¬ p = 0 := by omega
  by_cases hbig : p > ((1448 : Nat) : Int)
  · simp only [h0, hbig, ↓reduceIte]
    refine ⟨?_, Or.inr ⟨rfl, ?_⟩⟩
    · intro q hq
      simp only [List.mem_cons, List.not_mem_nil, or_false] at hq
      rcases hq with rfl | rfl <;> omega
    · simp only [List.map_cons, List.map_nil, List.sum_cons, List.sum_nil]
      omega
  · simp only [h0, hbig, ↓reduceIte]
    refine ⟨?_, Or.inl ⟨rfl, ?_⟩⟩
    · intro q hq
      simp only [List.mem_cons, List.not_mem_nil, or_false] at hq
      subst hq; omega
    · simp only [List.map_cons, List.map_nil, List.sum_cons, List.sum_nil]
      omega

/-- both branches occur: one packet (burst 100, sample 50), two packets (burst 1440, sample 1447) -/
example : padBurstLens 100 50 = [1377] ∧ padBurstLens 1440 1447 = [679, 713] := by decide

/-! ## session tickets -/

/-- **A ticket is used for at most one handshake.** For EVERY history of connects (to any
bridge, at any time), ticket issues and restarts, starting from an empty store, in which the
server never issues the same 144-byte blob twice, no blob is presented in two handshakes. -/
theorem ticket_once (h : List HOp) (hd : (issuedRaws h).Nodup) : (runHist [] [] h).2.Nodup :=
  runHist_nodup h [] [] ⟨List.nodup_nil, List.nodup_nil, fun _ hr => by simp at hr,
    fun _ hr => by simp [raws] at hr, fun _ hr => by simp at hr⟩ hd

/-- non-vacuity: issue, connect (presents the ticket), connect again (UniformDH), restart, connect -/
example : (runHist [] [] [.issue "a" (List.replicate 144 7) 1000, .connect "a" 2000, .connect "a" 3000,
    .restart 4000, .connect "a" 5000]).2 = [List.replicate 144 7] := by decide +kernel

/-- **An expired ticket falls back to UniformDH** (and is removed). -/
theorem expired_falls_back (s : Store) (addr : String) (now : Int) (t : Ticket)
    (h : s.lookup addr = some t) (hexp : t.issuedAt + (ticketLifetime : Int) ≤ now) :
    (s.connect addr now).2 = .uniformDH ∧ (s.connect addr now).1.lookup addr = none := by
  have hv : t.isValid now = false := by simp [Ticket.isValid]; omega
  rw [connect_expired now h hv]
  refine ⟨rfl, ?_⟩
  simp only [Store.lookup, Store.erase, Option.map_eq_none_iff, List.find?_eq_none, List.mem_filter]
  intro e ⟨_, he⟩
  simpa using he

/-- **No ticket, UniformDH** (the store is left alone). -/
theorem absent_falls_back (s : Store) (addr : String) (now : Int) (h : s.lookup addr = none) :
    s.connect addr now = (s, .uniformDH) := connect_absent now h

/-- a valid ticket is presented and is gone from the store afterwards -/
theorem valid_ticket_presented_and_removed (s : Store) (addr : String) (now : Int) (t : Ticket)
    (h : s.lookup addr = some t) (hv : now < t.issuedAt + (ticketLifetime : Int)) :
    (s.connect addr now).2 = .ticket t ∧ (s.connect addr now).1.lookup addr = none := by
  have hv' : t.isValid now = true := by simp [Ticket.isValid]; omega
  rw [connect_valid now h hv']
  refine ⟨rfl, ?_⟩
  simp only [Store.lookup, Store.erase, Option.map_eq_none_iff, List.find?_eq_none, List.mem_filter]
  intro e ⟨_, he⟩
  simpa using he

example : ([("a", (⟨[1], [2], 0⟩ : Ticket))] : Store).lookup "a" = some ⟨[1], [2], 0⟩ ∧
    (0 : Int) + (ticketLifetime : Int) ≤ 604800 := by decide

/-- `getTicket` and `storeTicket` run under the store's mutex from their first access to the map
    to their return (go/ast fact regenerated from the source on every run): concurrent
    connections see the one-step `Store.getTicket` / `Store.storeTicket` of the model -/
theorem store_ops_run_under_mutex :
    O4.Facts.Scramblesuit.ssTicketStore_getTicket_locked = true ∧
    O4.Facts.Scramblesuit.ssTicketStore_storeTicket_locked = true ∧
    O4.Facts.Scramblesuit.ssTicketStore_getTicket_prelock = [] ∧
    O4.Facts.Scramblesuit.ssTicketStore_storeTicket_prelock = [] := by decide

end C15
