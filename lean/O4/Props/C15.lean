import O4.Lemmas.ScrambleSuit
/-!
# C15 — ScrambleSuit client: handshake, stream and tickets work for every segmentation

Property theorems only (model: `O4/Model/ScrambleSuit.lean`, helper lemmas:
`O4/Lemmas/ScrambleSuit.lean`).  All constants are the ones regenerated from the Go tree.
Cryptography is abstract (`Prims`); hypotheses on it are explicit and shown satisfiable by the
`example`s (toy primitives), MAC claims are in reduction form with explicit witnesses.
-/
namespace C15
open O4 O4.SS O4.Consts.Scramblesuit

/-! ## toy primitives for the non-vacuity examples -/

/-- a "MAC" that only depends on the lengths (enough to exhibit the hypotheses) -/
def toyPrims : Prims :=
  { hmac := fun k m => List.replicate 32 (UInt8.ofNat (k.length + m.length))
    sha256 := fun m => m.take 32
    hkdfExpand := fun prk n => List.replicate n (prk.getD 0 0)
    ctrXor := fun _ _ off d => d.zipIdx.map (fun (x, i) => x ^^^ UInt8.ofNat (off + i))
    dhPublic := fun p => some p
    dhShared := fun _ q => some q }

theorem toy_macLen : MacLen toyPrims := by
  intro k m; simp [mac128, toyPrims]; decide

/-! ## the UniformDH response parser -/

/-- **Stable re-parser.** For a conforming server stream (response with any padding length
`0 … dhMaxPadLength`, followed by any surplus `T`) and EVERY way `cs` of cutting it into
segments, the client's read loop completes with the seed derived from its Diffie-Hellman
result, leaves exactly the surplus (what is in `receiveBuffer` plus the segments not read yet
is `T`), and never reads past the segment in which the response ended. -/
theorem response_any_split (P : Prims) (kB priv pubX cpad Y pad T ss : Bytes) (hour : Int)
    (c : Conf P kB priv (epochHourBytes hour) Y pad T ss) (cs : List Bytes)
    (hcs : cs.flatten = serverResponse P kB Y pad hour ++ T) :
    ∃ rest unread,
      dhLoop P true ((DhHs.new kB priv pubX).generate P cpad hour).1 [] cs = .done (P.sha256 ss) rest unread ∧
      rest ++ unread.flatten = T ∧ unread <:+ cs := by
  have hpos : ([] : Bytes).length < (respOf P kB (epochHourBytes hour) Y pad).length := by
    rw [respOf_length c.macLen]; have := c_mac_pos; simp only [List.length_nil]; omega
  exact dhLoop_conforming c cs [] _ ⟨rfl, rfl, rfl, Or.inl rfl⟩ (by simpa [serverResponse_eq] using hcs) hpos

/-- the hypotheses of `response_any_split` are satisfiable: a 3-byte padding, 5 surplus bytes -/
example : Conf toyPrims (List.replicate 20 1) [9] (epochHourBytes 480000) (List.replicate 192 0) [0, 0, 0]
    [1, 2, 3, 4, 5] (List.replicate 192 0) :=
  { macLen := toy_macLen, hY := by rfl, hpad := by decide, hfirst := by decide +kernel, hss := rfl }

/-- both ends derive the same master secret when the Diffie-Hellman function commutes
    (`X^y = Y^x`), hence (`serverKeys`) mirrored session keys -/
theorem seeds_agree (P : Prims) (priv pubX spriv Y ss : Bytes)
    (hcomm : P.dhShared spriv pubX = P.dhShared priv Y) (hss : P.dhShared priv Y = some ss) :
    (P.dhShared spriv pubX).map P.sha256 = some (P.sha256 ss) ∧
    ∀ seed, serverKeys P seed = ((initCrypto P seed).2, (initCrypto P seed).1) := by
  refine ⟨by rw [hcomm, hss]; rfl, fun seed => rfl⟩

/-- **F3, the code before the repair.** With the length test `len(resp) < pos + 2*macLength`
(no `uniformdh.Size`), a first segment that ends inside the trailing MAC of a conforming response
makes the parser slice beyond the received bytes: for EVERY conforming stream and every cut in
the last `macLength` bytes (at or after `minHandshakeLength`) the client panics instead of
waiting. So `response_any_split` is false of that code. -/
theorem split_counterexample (P : Prims) (kB priv pubX cpad Y pad T ss : Bytes) (hour : Int)
    (c : Conf P kB priv (epochHourBytes hour) Y pad T ss) (k : Nat)
    (hmin : minHandshakeLength ≤ k)
    (hin : (serverResponse P kB Y pad hour).length - macLength ≤ k)
    (hlt : k < (serverResponse P kB Y pad hour).length) :
    dhLoop P false ((DhHs.new kB priv pubX).generate P cpad hour).1 []
      [(serverResponse P kB Y pad hour ++ T).take k, (serverResponse P kB Y pad hour ++ T).drop k] = .panic := by
  rw [serverResponse_eq] at *
  have hk : k ≤ (respOf P kB (epochHourBytes hour) Y pad ++ T).length := by
    rw [List.length_append]; omega
  have hl : ((respOf P kB (epochHourBytes hour) Y pad ++ T).take k).length = k := by
    rw [List.length_take]; omega
  obtain ⟨hs', hc, hi'⟩ := cache_prefix c (hs := ((DhHs.new kB priv pubX).generate P cpad hour).1)
    ⟨rfl, rfl, rfl, Or.inl rfl⟩ k hmin hk
  have hp := parseTail_prefix_panics c hi' k hk hmin hin hlt
  simp only [dhLoop, List.nil_append, DhHs.parse, hl, if_neg (Nat.not_lt.mpr hmin), hc, hp]

/-- the counterexample is not vacuous: padding 3, first segment = all but the last byte -/
example : (serverResponse toyPrims (List.replicate 20 1) (List.replicate 192 0) [0, 0, 0] 480000).length = 227 ∧
    minHandshakeLength ≤ 226 := by
  constructor
  · decide +kernel
  · decide

/-! ## no panic, bounded buffer (needed by C10) -/

/-- **No panic.** The repaired parser never slices out of bounds: for every state and EVERY
input (conforming or not) the outcome is not `panic`. -/
theorem no_panic_response (P : Prims) (hs : DhHs) (resp : Bytes) :
    (hs.parse P true resp).2 ≠ .panic := by
  have h1 := c_min
  have h2 := c_mac_le
  unfold DhHs.parse
  split
  · simp
  · rename_i hlen
    have hd : dhSize ≤ resp.length := by omega
    cases hc : hs.cache P resp with
    | none =>
      exfalso
      unfold DhHs.cache at hc
      split at hc
      · simp at hc
      · rw [slice?_eq (Nat.zero_le _) hd] at hc
        simp at hc
    | some r =>
      obtain ⟨hs', y⟩ := r
      exact parseTail_no_panic P hs' y resp (by omega)

end C15
